//go:build c09

package main

// C09 — LCS and one-difference kernels are exact within their error bound.
//
// ops (case lines)
//
//	samerow <x>                      _samenuc(x, y) for y = 0..255, observed as the LCS score of the one-base
//	                                 sequences [x] and [y]                          -> 256 chars 0/1
//	lcs <A> <B> <e> <egf> <fill>     FastLCSEGFScoreByte(A, B, e, egf, buffer); fill = n (nil buffer) or a decimal
//	                                 uint64: a pre-allocated buffer of capacity 2*width filled with that word
//	                                                                                 -> "score length end"
//	lcsseq <A B e egf>...            a HISTORY of calls on ONE scratch buffer (empty at the start of the case, then
//	                                 whatever the previous calls of the history left / re-allocated), as the callers
//	                                 in obiclean / obitag / obirefidx do; every call is compared with the same call
//	                                 on a fresh buffer                               -> "s,l,end s,l,end ..."
//	lcslong <x> <n> <tA> <y> <m> <tB> <e> <egf>   long sequences in compact form (c09_long.go): lengths below, at and
//	                                 above the sentinel length 30000                 -> "score length end"
//	d1 <A> <B>                       D1Or0 on two BioSequences                       -> "verdict pos a1 a2"
//	lcsall <A> <maxlen> <e> <egf>    every B over {a,c,g,t} of length <= maxlen (canonical order) against A
//	                                                                                 -> "count checksum"
//	d1all <A> <maxlen>               same for D1Or0                                  -> "count checksum"
//	conc <g> <r> <n> n x [kind buf e A B]   the kernels under CONCURRENT use (c09_conc.go): the answers of the n calls
//	                                 run alone; the oracle runs them from g goroutines, r rounds, sharing what the
//	                                 workers of obiclean / obitag / obirefidx share -> "answer ; answer ; ..."
//	race conc ...                    (thorough, first seed) the same through a `go build -race` build
//
// Oracles (independent naive references, on the real code): IUPAC compatibility = nucleotide sets intersect;
// full-matrix lexicographic (score, -length) DP; Levenshtein distance; result independent of the scratch
// buffer (nil / poisoned / reused across calls); symmetry in the arguments.

import (
	"fmt"
	"math/rand"
	"strconv"
	"strings"
	"time"

	"git.metabarcoding.org/obitools/obitools4/obitools4/pkg/obialign"
	"git.metabarcoding.org/obitools/obitools4/obitools4/pkg/obiseq"
)

type c09 struct{}

func init() { props["C09"] = c09{} }

const c09Iupac = "acgtrymkswbdhvn"

// c09Set is the SPECIFIED meaning of an IUPAC symbol: its set of nucleotides (a=1, c=2, g=4, t=8).
func c09Set(b byte) (int, bool) {
	if b >= 'A' && b <= 'Z' {
		b |= 32
	}
	switch b {
	case 'a':
		return 1, true
	case 'c':
		return 2, true
	case 'g':
		return 4, true
	case 't', 'u':
		return 8, true
	case 'r':
		return 1 | 4, true
	case 'y':
		return 2 | 8, true
	case 's':
		return 2 | 4, true
	case 'w':
		return 1 | 8, true
	case 'k':
		return 4 | 8, true
	case 'm':
		return 1 | 2, true
	case 'b':
		return 2 | 4 | 8, true
	case 'd':
		return 1 | 4 | 8, true
	case 'h':
		return 1 | 2 | 8, true
	case 'v':
		return 1 | 2 | 4, true
	case 'n':
		return 15, true
	}
	return 0, false
}

func c09AllIupac(s []byte) bool {
	for _, b := range s {
		if _, ok := c09Set(b); !ok {
			return false
		}
	}
	return true
}

func c09Compat(x, y byte) bool { return c09CompatByte(x, y) }

func c09IsLetter(b byte) bool { return (b >= 'A' && b <= 'Z') || (b >= 'a' && b <= 'z') }

// c09CompatByte is the DOCUMENTED behaviour of _samenuc on all 256 byte values (Props/C09.lean:
// samenuc_iff_sets_intersect, samenuc_non_letter, samenuc_non_iupac_letter), written independently of the code:
// IUPAC symbols (either case) match iff their nucleotide sets intersect; a letter that is not an IUPAC code matches
// nothing, not even itself; a byte that is not a letter matches exactly itself.
func c09CompatByte(x, y byte) bool {
	sx, okx := c09Set(x)
	sy, oky := c09Set(y)
	switch {
	case okx && oky:
		return sx&sy != 0
	case c09IsLetter(x) || c09IsLetter(y):
		return false
	default:
		return x == y
	}
}

// c09Naive: full matrix, lexicographic optimum (highest score, then shortest alignment). A mismatch is one
// column of score 0. With egf, the unaligned ends of the LONGER sequence (the first one when the lengths are
// equal) are not counted in the length.
func c09Naive(a, b []byte, egf bool) (int, int) {
	if len(a) < len(b) {
		a, b = b, a
	}
	la, lb := len(a), len(b)
	type cell struct{ s, l int }
	better := func(x, y cell) bool { return x.s > y.s || (x.s == y.s && x.l < y.l) }
	prev := make([]cell, la+1)
	cur := make([]cell, la+1)
	for j := 0; j <= la; j++ {
		if egf {
			prev[j] = cell{0, 0}
		} else {
			prev[j] = cell{0, j}
		}
	}
	for i := 1; i <= lb; i++ {
		cur[0] = cell{0, i}
		for j := 1; j <= la; j++ {
			d := cell{prev[j-1].s, prev[j-1].l + 1}
			if c09Compat(a[j-1], b[i-1]) {
				d.s++
			}
			u := cell{prev[j].s, prev[j].l + 1}
			l := cell{cur[j-1].s, cur[j-1].l + 1}
			if egf && i == lb {
				l.l--
			}
			best := d
			if better(u, best) {
				best = u
			}
			if better(l, best) {
				best = l
			}
			cur[j] = best
		}
		prev, cur = cur, prev
	}
	return prev[la].s, prev[la].l
}

func c09Lev(a, b []byte) int {
	prev := make([]int, len(b)+1)
	cur := make([]int, len(b)+1)
	for j := range prev {
		prev[j] = j
	}
	for i := 1; i <= len(a); i++ {
		cur[0] = i
		for j := 1; j <= len(b); j++ {
			c := prev[j-1]
			if a[i-1] != b[j-1] {
				c++
			}
			if prev[j]+1 < c {
				c = prev[j] + 1
			}
			if cur[j-1]+1 < c {
				c = cur[j-1] + 1
			}
			cur[j] = c
		}
		prev, cur = cur, prev
	}
	return prev[len(b)]
}

// c09Width replicates the buffer geometry of FastLCSEGFScoreByte (0 when the call returns before using one).
func c09Width(la, lb, e int, egf bool) int {
	if la < lb {
		la, lb = lb, la
	}
	if e == -1 {
		e = la * 2
	}
	delta := la - lb
	if egf {
		e += delta
	}
	if delta > e {
		return 0
	}
	extra := e - delta + 1
	even := 1 + delta + 2*extra
	return 2*even - 1
}

var c09Reused []uint64 // scratch buffer kept across calls, as the callers in obiclean/obitag do

func c09RandSeq(rng *rand.Rand, n int, iupacRate int) []byte {
	s := make([]byte, n)
	for i := range s {
		if iupacRate > 0 && rng.Intn(iupacRate) == 0 {
			s[i] = c09Iupac[rng.Intn(len(c09Iupac))]
		} else {
			s[i] = "acgt"[rng.Intn(4)]
		}
	}
	return s
}

// c09Mutate applies k random edits (substitution / insertion / deletion)
func c09Mutate(rng *rand.Rand, s []byte, k int, iupacRate int) []byte {
	out := append([]byte{}, s...)
	for ; k > 0; k-- {
		sym := c09RandSeq(rng, 1, iupacRate)[0]
		switch rng.Intn(3) {
		case 0:
			if len(out) > 0 {
				out[rng.Intn(len(out))] = sym
			}
		case 1:
			p := rng.Intn(len(out) + 1)
			out = append(out[:p], append([]byte{sym}, out[p:]...)...)
		case 2:
			if len(out) > 0 {
				p := rng.Intn(len(out))
				out = append(out[:p], out[p+1:]...)
			}
		}
	}
	return out
}

func c09Words(maxlen int, f func([]byte)) {
	var rec func(cur []byte, l int)
	rec = func(cur []byte, l int) {
		if len(cur) == l {
			f(cur)
			return
		}
		for i := 0; i < 4; i++ {
			rec(append(cur, "acgt"[i]), l)
		}
	}
	for l := 0; l <= maxlen; l++ {
		rec(nil, l)
	}
}

func (c09) Gen(rng *rand.Rand, tier string, emit func(string)) {
	thorough := tier == "thorough"
	seedv := rng.Int63()
	// ---- corpus -------------------------------------------------------------------------------------------
	for x := 0; x < 256; x++ {
		emit(fmt.Sprintf("samerow %d", x))
	}
	for _, c := range []string{
		"lcs 76 63 -1 0 n",       // v / c  : must match (D17: _iupac['v'] was 13)
		"lcs 76 74 -1 0 n",       // v / t  : must not match
		"lcs 61637674 61636374 0 0 n",
		"lcs - - -1 0 n", "lcs - - 0 0 n", "lcs 61 - -1 0 n", "lcs - 61 0 0 n", "lcs 61 - 1 0 n", "lcs - 6161 1 0 n",
		"lcs - - -1 1 n", "lcs 61 - 0 1 n", "lcs 616161 61 0 1 n",
		"lcs 61636774 61636774 0 0 n", "lcs 61636774 616774 0 0 n", "lcs 61636774 616774 1 0 n",
		"lcs 61636774 616774 1 0 18446744073709551615", "lcs 61636774 616774 1 0 4294967296",
		"lcs 6163677461636774 7461636774616367 2 0 n", "lcs 6163677461636774 7461636774616367 4 0 n",
		"lcs 61616161 63636363 0 0 n", "lcs 61616161 63636363 3 0 n", "lcs 61616161 63636363 4 0 n",
		"lcs 4143 6163 -1 0 n", "lcs 2d2e 2d2e -1 0 n", "lcs 78 78 -1 0 n",
		"d1 - -", "d1 61 -", "d1 - 61", "d1 61 61", "d1 61 63", "d1 616162 6162", "d1 6162 6261", "d1 6162 626162",
		"d1 61636774 61676374", "d1 6161 61", "d1 61 6161", "d1 616161 61", "d1 2d61 61", "d1 4143 6163",
	} {
		emit(c)
	}
	// ---- long sequences around the sentinel length 30000 (c09_long.go) ---------------------------------------------
	for _, c := range c09LongCorpus(thorough) {
		emit(c)
	}
	// ---- histories of calls on one scratch buffer ---------------------------------------------------------------
	// The buffer is re-allocated (3*width) only when cap < 2*width, so what a call finds depends on the ORDER of
	// the previous calls: narrow band then wide band (kept iff 2*width <= 3*width_prev), wide then narrow (stale
	// cells beyond the new rows and inside them), long pair then short pair (stale anti-diagonals), no bound
	// (huge band) then small bounds, early returns in between.
	seqItem := func(a, b []byte, e int, egf int) string {
		return fmt.Sprintf("%s %s %d %d", hx(a), hx(b), e, egf)
	}
	// deterministic ladder: for every bound e, a pair whose length difference is e (narrowest band: width 2e+5)
	// followed by an equal-length pair with the same bound (widest: 4e+5), then back, both orders, both modes
	for e := 0; e <= 14; e++ {
		for egf := 0; egf <= 1; egf++ {
			long := c09RandSeq(rng, 24+e, 0)
			short := append([]byte{}, long[:24]...)             // e trailing deletions: delta = e
			sub := c09Mutate(rng, long, 0, 0)                   // equal lengths, up to 2 substitutions
			sub[3] = "acgt"[(strings.IndexByte("acgt", sub[3])+1)%4]
			sub[len(sub)-2] = "acgt"[(strings.IndexByte("acgt", sub[len(sub)-2])+2)%4]
			narrow := seqItem(long, short, e, egf)
			wide := seqItem(long, sub, e, egf)
			emit("lcsseq " + narrow + " " + wide)
			emit("lcsseq " + wide + " " + narrow + " " + wide)
			emit("lcsseq " + narrow + " " + narrow + " " + wide + " " + seqItem(short, short, e, egf) + " " + wide)
		}
	}
	nhist := 700
	if thorough {
		nhist = 4000
	}
	for h := 0; h < nhist; h++ {
		ncalls := 2 + rng.Intn(6)
		maxlen := []int{6, 14, 40, 90}[rng.Intn(4)]
		var items []string
		for c := 0; c < ncalls; c++ {
			la := rng.Intn(maxlen + 1)
			if rng.Intn(5) == 0 {
				la = rng.Intn(7) // long pair then short pair
			}
			rate := []int{0, 0, 8}[rng.Intn(3)]
			a := c09RandSeq(rng, la, rate)
			var b []byte
			var e int
			switch rng.Intn(6) {
			case 0: // independent sequence
				b = c09RandSeq(rng, rng.Intn(la+3), rate)
				e = rng.Intn(la + 2)
			case 1: // pure length difference delta, bound = delta + 0..2 (narrow bands)
				d := rng.Intn(la + 1)
				if d > 12 {
					d = rng.Intn(13)
				}
				p := rng.Intn(la - d + 1)
				b = append(append([]byte{}, a[:p]...), a[p+d:]...)
				e = d + rng.Intn(3)
			default:
				k := rng.Intn(5)
				b = c09Mutate(rng, a, k, rate)
				e = k - 1 + rng.Intn(4)
				if e < 0 {
					e = 0
				}
			}
			switch rng.Intn(8) {
			case 0:
				e = -1 // no bound: the widest band of all
			case 1:
				e = rng.Intn(16)
			}
			if rng.Intn(2) == 0 {
				a, b = b, a
			}
			egf := 0
			if rng.Intn(4) == 0 {
				egf = 1
			}
			items = append(items, seqItem(a, b, e, egf))
		}
		emit("lcsseq " + strings.Join(items, " "))
	}
	// ---- exhaustive small pairs over {a,c,g,t} --------------------------------------------------------------
	maxl := 3
	if thorough {
		maxl = 4
	}
	var words [][]byte
	c09Words(maxl, func(w []byte) { words = append(words, append([]byte{}, w...)) })
	part, nparts := 0, 1
	if thorough {
		part, nparts = int(seedv%8), 8
	}
	k := 0
	for _, a := range words {
		for _, b := range words {
			k++
			if k%nparts != part {
				continue
			}
			for e := -1; e <= 4; e++ {
				fill := "n"
				if (k+e)%3 == 0 {
					fill = "18446744073709551615"
				}
				emit(fmt.Sprintf("lcs %s %s %d 0 %s", hx(a), hx(b), e, fill))
			}
			for e := -1; e <= 2; e++ {
				emit(fmt.Sprintf("lcs %s %s %d 1 n", hx(a), hx(b), e))
			}
			emit(fmt.Sprintf("d1 %s %s", hx(a), hx(b)))
		}
	}
	// batched exhaustive: every A of length 5 (thorough: all, partitioned over the seeds; quick: a sample) and a
	// sample of length 6 against every B of length <= 5 / 6
	var five [][]byte
	c09Words(5, func(w []byte) {
		if len(w) == 5 {
			five = append(five, append([]byte{}, w...))
		}
	})
	for idx, a := range five {
		if thorough {
			if idx%nparts != part {
				continue
			}
		} else if rng.Intn(64) != 0 {
			continue
		}
		for e := -1; e <= 4; e++ {
			emit(fmt.Sprintf("lcsall %s 5 %d 0", hx(a), e))
		}
		emit(fmt.Sprintf("lcsall %s 5 %d 1", hx(a), rng.Intn(4)-1))
		emit(fmt.Sprintf("d1all %s 5", hx(a)))
	}
	n6 := 2
	if thorough {
		n6 = 12
	}
	for i := 0; i < n6; i++ {
		a := c09RandSeq(rng, 6, 0)
		emit(fmt.Sprintf("lcsall %s 6 %d 0", hx(a), rng.Intn(7)-1))
		emit(fmt.Sprintf("d1all %s 6", hx(a)))
	}
	// ---- random pairs -------------------------------------------------------------------------------------
	n := 2500
	if thorough {
		n = 9000
	}
	fills := []string{"n", "n", "0", "18446744073709551615", "4294967296", "8589934591", "281474976710655"}
	for i := 0; i < n; i++ {
		var la int
		switch rng.Intn(10) {
		case 0:
			la = 150 + rng.Intn(350)
		case 1, 2:
			la = 30 + rng.Intn(120)
		default:
			la = rng.Intn(30)
		}
		rate := []int{0, 3, 8, 20}[rng.Intn(4)]
		a := c09RandSeq(rng, la, rate)
		var b []byte
		nedit := 0
		switch rng.Intn(6) {
		case 0:
			b = c09RandSeq(rng, rng.Intn(la+3), rate)
			nedit = la
		default:
			nedit = rng.Intn(7)
			if rng.Intn(8) == 0 {
				nedit = rng.Intn(25)
			}
			b = c09Mutate(rng, a, nedit, rate)
		}
		if rng.Intn(12) == 0 { // bytes outside the IUPAC alphabet, upper case: correspondence only
			odd := []byte("ACGTNxez.-*5")
			for t := 0; t < 1+rng.Intn(3) && len(a) > 0; t++ {
				a[rng.Intn(len(a))] = odd[rng.Intn(len(odd))]
			}
			if len(b) > 0 {
				b[rng.Intn(len(b))] = odd[rng.Intn(len(odd))]
			}
		}
		if rng.Intn(2) == 0 {
			a, b = b, a
		}
		var e int
		switch rng.Intn(5) {
		case 0:
			e = -1
		case 1:
			e = rng.Intn(6)
		default:
			e = nedit - 2 + rng.Intn(5)
			if e < -1 {
				e = 0
			}
		}
		egf := 0
		if rng.Intn(4) == 0 {
			egf = 1
		}
		emit(fmt.Sprintf("lcs %s %s %d %d %s", hx(a), hx(b), e, egf, fills[rng.Intn(len(fills))]))
		if rng.Intn(3) == 0 {
			// one-difference test on close pairs (0, 1 or 2 edits), plain nucleotides so that runs are frequent
			l := rng.Intn(40)
			if rng.Intn(10) == 0 {
				l = 100 + rng.Intn(300)
			}
			x := c09RandSeq(rng, l, []int{0, 0, 6}[rng.Intn(3)])
			if rng.Intn(3) == 0 {
				for t := range x {
					x[t] = "aac"[rng.Intn(3)]
				}
			}
			y := c09Mutate(rng, x, rng.Intn(3), 0)
			if rng.Intn(2) == 0 {
				x, y = y, x
			}
			emit(fmt.Sprintf("d1 %s %s", hx(x), hx(y)))
		}
	}
	// ---- sequences over ALL kinds of bytes: IUPAC codes in both cases, letters that are not IUPAC codes, '-', '.',
	// '*', digits, control and high bytes (what _samenuc maps them to: c09CompatByte); both modes, both kernels; the
	// naive DP oracle runs with the documented compatibility, symmetry is checked on every case
	nmix := 200
	if thorough {
		nmix = 800
	}
	mixAlpha := []byte("acgtACGTrymkswbdhvnRYMKSWBDHVNuUxXeEzZ--..*0159 \x00\x7f\x80\xff@[`{")
	mixSeq := func(n int) []byte {
		out := make([]byte, n)
		for i := range out {
			switch rng.Intn(4) {
			case 0:
				out[i] = "acgt"[rng.Intn(4)]
			case 1:
				out[i] = byte(rng.Intn(256))
			default:
				out[i] = mixAlpha[rng.Intn(len(mixAlpha))]
			}
		}
		return out
	}
	for c := 0; c < nmix; c++ {
		la := rng.Intn(25)
		if rng.Intn(10) == 0 {
			la = 40 + rng.Intn(160)
		}
		a := mixSeq(la)
		var b []byte
		if rng.Intn(4) == 0 {
			b = mixSeq(rng.Intn(la + 3))
		} else {
			b = append([]byte{}, a...)
			for k := rng.Intn(4); k > 0; k-- {
				sym := mixSeq(1)[0]
				switch rng.Intn(3) {
				case 0:
					if len(b) > 0 {
						b[rng.Intn(len(b))] = sym
					}
				case 1:
					p := rng.Intn(len(b) + 1)
					b = append(b[:p], append([]byte{sym}, b[p:]...)...)
				case 2:
					if len(b) > 0 {
						p := rng.Intn(len(b))
						b = append(b[:p], b[p+1:]...)
					}
				}
			}
			if rng.Intn(3) == 0 { // same sequence in the other case: must align as the original does
				for i := range b {
					if c09IsLetter(b[i]) {
						b[i] ^= 32
					}
				}
			}
		}
		e := rng.Intn(8) - 1
		emit(fmt.Sprintf("lcs %s %s %d %d %s", hx(a), hx(b), e, rng.Intn(2), fills[rng.Intn(len(fills))]))
		if rng.Intn(3) == 0 {
			emit(fmt.Sprintf("d1 %s %s", hx(a), hx(b)))
		}
	}
	// ---- concurrent use (c09_conc.go); LAST so that the cases above keep their PRNG draws ------------------------
	c09GenConc(rng, tier, emit)
}

type c09Failer func(sig, format string, a ...any)

// c09Kernel runs the real kernel once on the given buffer pointer; a Go panic inside the kernel is returned as
// text (pan != "") so that the caller can report the concrete input instead of losing the whole case.
func c09Kernel(a, b []byte, e int, egf bool, buf *[]uint64) (s, l, end int, pan string) {
	defer func() {
		if r := recover(); r != nil {
			if _, isFatal := r.(fatalExit); isFatal {
				panic(r)
			}
			s, l, end, pan = -99, -99, -99, fmt.Sprint(r)
		}
	}()
	s, l, end = obialign.FastLCSEGFScoreByte(a, b, e, egf, buf)
	return
}

// c09Call runs the real kernel once with the requested buffer mode.
func c09Call(a, b []byte, e int, egf bool, fill string) (int, int, int, string) {
	if fill == "n" {
		return c09Kernel(a, b, e, egf, nil)
	}
	if fill == "reused" {
		return c09Kernel(a, b, e, egf, &c09Reused)
	}
	v, _ := strconv.ParseUint(fill, 10, 64)
	w := c09Width(len(a), len(b), e, egf)
	buf := make([]uint64, 2*w)
	for i := range buf {
		buf[i] = v
	}
	return c09Kernel(a, b, e, egf, &buf)
}

// c09CheckLCS: the oracle for one pair; (s, l, end) is what the real code returned for (a, b, e, egf).
func c09CheckLCS(a, b []byte, e int, egf bool, fill string, s, l, end int, fail c09Failer) {
	pair := fmt.Sprintf("A=%q B=%q e=%d egf=%v", a, b, e, egf)
	// scratch buffer must not matter
	for _, m := range []string{"n", "reused", "18446744073709551615"} {
		if m == fill {
			continue
		}
		capBefore := cap(c09Reused)
		s2, l2, end2, pan := c09Call(a, b, e, egf, m)
		if pan != "" {
			fail("lcs.panic.buffer", "%s: no answer with buffer %s (cap %d before the call, width %d): panic: %s; buffer %s gives (%d,%d,%d)",
				pair, m, capBefore, c09Width(len(a), len(b), e, egf), pan, fill, s, l, end)
		} else if s2 != s || l2 != l || end2 != end {
			fail("lcs.buffer-dependence", "%s: buffer %s gives (%d,%d,%d), buffer %s gives (%d,%d,%d)", pair, fill, s, l, end, m, s2, l2, end2)
		}
	}
	// symmetry of score and length
	if !egf || len(a) != len(b) {
		s2, l2, _, pan := c09Call(b, a, e, egf, "n")
		if pan != "" {
			fail("lcs.panic.swapped", "%s: no answer for (B,A): panic: %s", pair, pan)
		} else if s2 != s || l2 != l {
			fail("lcs.asymmetric", "%s: (A,B) gives (%d,%d), (B,A) gives (%d,%d)", pair, s, l, s2, l2)
		}
	}
	if (s < 0) != (l < 0) || s < -1 || l < -1 {
		fail("lcs.malformed", "%s: returned (%d,%d)", pair, s, l)
	}
	// the third result: 0 with endgapfree = false, a column of the longer sequence with endgapfree = true
	// (fastLCS_verbatim_refines / fastLCSEGF_verbatim_refines), -1 exactly with "not found"
	if (s == -1) != (end == -1) || (s >= 0 && !egf && end != 0) || (s >= 0 && egf && (end < 0 || end > max(len(a), len(b)))) {
		fail("lcs.end-range", "%s: returned (%d,%d) with end = %d", pair, s, l, end)
	}
	if !c09AllIupac(a) || !c09AllIupac(b) {
		// bytes outside the IUPAC alphabet: the naive DP uses the documented behaviour of _samenuc on all bytes
		// (c09CompatByte, checked against the real code on all 256 x 256 pairs by the samerow cases)
		stat("lcs:oracle with non-iupac bytes (documented _samenuc)")
	}
	ws, wl := c09Naive(a, b, egf)
	within := e == -1 || wl-ws <= e
	cls := "ne"
	if egf {
		cls = "egf"
	}
	if within {
		stat("lcs:within-bound")
		if s != ws || l != wl {
			fail("lcs.inexact."+cls, "%s: returned (%d,%d), LCS = %d with shortest alignment %d (differences %d within the bound)", pair, s, l, ws, wl, wl-ws)
		}
		return
	}
	stat("lcs:beyond-bound")
	if s == -1 && l == -1 {
		stat("lcs:beyond-bound:not-found")
		return
	}
	stat("lcs:beyond-bound:pair")
	if l-s <= e {
		fail("lcs.spurious."+cls, "%s: returned (%d,%d), i.e. %d differences <= bound, but LCS = %d with shortest alignment %d (%d differences)", pair, s, l, l-s, ws, wl, wl-ws)
	}
	// a returned pair must at least be dominated by the optimum
	if s > ws || (s == ws && l < wl) {
		fail("lcs.impossible."+cls, "%s: returned (%d,%d) better than the optimum (%d,%d)", pair, s, l, ws, wl)
	}
}

func c09D1(x, y []byte) (int, int, byte, byte) {
	s1 := obiseq.NewBioSequence("x", append([]byte{}, x...), "")
	s2 := obiseq.NewBioSequence("y", append([]byte{}, y...), "")
	return obialign.D1Or0(s1, s2)
}

// c09CheckD1: x, y are the stored (lower-cased) sequences
func c09CheckD1(x, y []byte, v, pos int, a1, a2 byte, fail c09Failer) {
	pair := fmt.Sprintf("s1=%q s2=%q", x, y)
	d := c09Lev(x, y)
	want := -1
	if d <= 1 {
		want = d
	}
	stat(fmt.Sprintf("d1:distance-%d", min(d, 3)))
	if v != want {
		fail("d1.verdict", "%s: verdict %d, edit distance %d", pair, v, d)
	}
	v2, pos2, b1, b2 := c09D1(y, x)
	if v2 != v {
		fail("d1.asymmetric", "%s: verdict %d, swapped %d", pair, v, v2)
	} else if v == 1 && (pos2 != pos || b1 != a2 || b2 != a1) {
		fail("d1.asymmetric-edit", "%s: edit (%d,%q,%q), swapped (%d,%q,%q)", pair, pos, a1, a2, pos2, b1, b2)
	}
	if v != 1 {
		if pos != -1 || a1 != 0 || a2 != 0 {
			fail("d1.edit-on-non-1", "%s: verdict %d with (%d,%d,%d)", pair, v, pos, a1, a2)
		}
		return
	}
	// the edit must reproduce s2 from s1
	ok := pos >= 0
	var got []byte
	if ok {
		switch {
		case len(x) == len(y):
			ok = pos < len(x) && x[pos] == a1 && a1 != a2
			if ok {
				got = append(append(append([]byte{}, x[:pos]...), a2), x[pos+1:]...)
			}
		case len(x) == len(y)+1:
			ok = pos < len(x) && x[pos] == a1 && a2 == '-'
			if ok {
				got = append(append([]byte{}, x[:pos]...), x[pos+1:]...)
			}
		case len(x)+1 == len(y):
			ok = pos <= len(x) && a1 == '-'
			if ok {
				got = append(append(append([]byte{}, x[:pos]...), a2), x[pos:]...)
			}
		default:
			ok = false
		}
	}
	if !ok || string(got) != string(y) {
		fail("d1.edit", "%s: edit (pos %d, %q -> %q) does not turn s1 into s2", pair, pos, a1, a2)
	}
}

func (c09) Exec(c string) (string, []Fail) {
	f := strings.Fields(c)
	if len(f) == 0 {
		return "bad-op", nil
	}
	var fails []Fail
	nf := 0
	fail := func(sig, format string, a ...any) {
		nf++
		if nf <= 5 {
			fails = append(fails, Fail{Sig: sig, Text: fmt.Sprintf(format, a...)})
		}
	}
	stat("op:" + f[0])
	if f[0] == "conc" { // the kernels under concurrent use (c09_conc.go)
		return c09ExecConc(f)
	}
	if f[0] == "race" && len(f) > 1 && f[1] == "conc" { // the same, replayed under the race detector
		return c09Race(strings.Join(f[1:], " "))
	}
	res := guardT(60*time.Second, func() string {
		switch {
		case f[0] == "samerow" && len(f) == 2:
			x, err := strconv.Atoi(f[1])
			if err != nil || x < 0 || x > 255 {
				return "bad-op"
			}
			var sb strings.Builder
			for y := 0; y < 256; y++ {
				s, l, _ := obialign.FastLCSEGFScoreByte([]byte{byte(x)}, []byte{byte(y)}, -1, false, nil)
				if l != 1 || s < 0 || s > 1 {
					return fmt.Sprintf("unexpected %d %d at %d", s, l, y)
				}
				sb.WriteByte(byte('0' + s))
				sx, okx := c09Set(byte(x))
				sy, oky := c09Set(byte(y))
				if okx && oky && (s == 1) != (sx&sy != 0) {
					fail("samenuc.pair", "symbols %q (set %04b) and %q (set %04b): match = %v", byte(x), sx, byte(y), sy, s == 1)
				}
				// all 256 x 256 byte pairs: documented behaviour outside the IUPAC alphabet, and symmetry
				if !(okx && oky) && (s == 1) != c09CompatByte(byte(x), byte(y)) {
					fail("samenuc.byte", "bytes %q and %q: match = %v, documented behaviour %v", byte(x), byte(y), s == 1, c09CompatByte(byte(x), byte(y)))
				}
				s2, _, _ := obialign.FastLCSEGFScoreByte([]byte{byte(y)}, []byte{byte(x)}, -1, false, nil)
				if s2 != s {
					fail("samenuc.asymmetric", "bytes %q and %q: match(x,y) = %d, match(y,x) = %d", byte(x), byte(y), s, s2)
				}
				switch {
				case okx && oky:
					stat("samenuc:pair of IUPAC symbols")
				case c09IsLetter(byte(x)) || c09IsLetter(byte(y)):
					stat("samenuc:pair with a non-IUPAC letter or letter/non-letter (no match)")
				default:
					stat("samenuc:pair of non-letters (match iff equal)")
				}
			}
			if _, ok := c09Set(byte(x)); !ok {
				caseTrivial = x != '-' && x != '.'
			}
			return sb.String()
		case f[0] == "lcs" && len(f) == 6:
			a, ok1 := unhx(f[1])
			b, ok2 := unhx(f[2])
			e, err := strconv.Atoi(f[3])
			if !ok1 || !ok2 || err != nil || e < -1 || (f[4] != "0" && f[4] != "1") {
				return "bad-op"
			}
			if f[5] != "n" {
				if _, err := strconv.ParseUint(f[5], 10, 64); err != nil {
					return "bad-op"
				}
			}
			egf := f[4] == "1"
			stat("lcs:fill-" + map[bool]string{true: "nil", false: "poisoned"}[f[5] == "n"])
			s, l, end, pan := c09Call(a, b, e, egf, f[5])
			if pan != "" {
				fail("lcs.panic", "A=%q B=%q e=%d egf=%v buffer %s: the kernel gives no answer: panic: %s", a, b, e, egf, f[5], pan)
				return "panic"
			}
			c09CheckLCS(a, b, e, egf, f[5], s, l, end, fail)
			return fmt.Sprintf("%d %d %d", s, l, end)
		case f[0] == "lcslong" && len(f) == 9:
			return c09ExecLong(f, fail)
		case f[0] == "lcsseq" && len(f) >= 5 && (len(f)-1)%4 == 0:
			type call struct {
				a, b []byte
				e    int
				egf  bool
			}
			var calls []call
			for k := 1; k+3 < len(f); k += 4 {
				a, ok1 := unhx(f[k])
				b, ok2 := unhx(f[k+1])
				e, err := strconv.Atoi(f[k+2])
				if !ok1 || !ok2 || err != nil || e < -1 || (f[k+3] != "0" && f[k+3] != "1") {
					return "bad-op"
				}
				calls = append(calls, call{a, b, e, f[k+3] == "1"})
			}
			buf := []uint64{} // the ONE scratch buffer of this history
			var out []string
			for k, c := range calls {
				capBefore := cap(buf)
				w := c09Width(len(c.a), len(c.b), c.e, c.egf)
				switch {
				case w == 0:
					stat("lcsseq:call:early-return")
				case capBefore < 2*w:
					stat("lcsseq:call:buffer-regrown")
				case capBefore >= 6*w:
					stat("lcsseq:call:buffer-kept(cap >= 6*width)")
				default:
					stat("lcsseq:call:buffer-kept")
				}
				s, l, end, pan := c09Kernel(c.a, c.b, c.e, c.egf, &buf)
				what := fmt.Sprintf("call %d of the history A=%q B=%q e=%d egf=%v (width %d, shared buffer cap %d before the call)", k+1, c.a, c.b, c.e, c.egf, w, capBefore)
				if pan != "" {
					fail("lcsseq.panic", "%s: the kernel gives no answer: panic: %s", what, pan)
					out = append(out, "panic")
					break
				}
				s0, l0, end0, pan0 := c09Kernel(c.a, c.b, c.e, c.egf, nil)
				if pan0 != "" {
					fail("lcsseq.panic-fresh", "%s: panic with a fresh buffer: %s", what, pan0)
				} else if s0 != s || l0 != l || end0 != end {
					fail("lcsseq.buffer-dependence", "%s: (%d,%d,%d) on the shared buffer, (%d,%d,%d) on a fresh one", what, s, l, end, s0, l0, end0)
				}
				if len(c.a)+len(c.b) <= 200 {
					c09CheckLCS(c.a, c.b, c.e, c.egf, "n", s0, l0, end0, fail)
				}
				out = append(out, fmt.Sprintf("%d,%d,%d", s, l, end))
			}
			return strings.Join(out, " ")
		case f[0] == "d1" && len(f) == 3:
			x, ok1 := unhx(f[1])
			y, ok2 := unhx(f[2])
			if !ok1 || !ok2 {
				return "bad-op"
			}
			s1 := obiseq.NewBioSequence("x", append([]byte{}, x...), "")
			s2 := obiseq.NewBioSequence("y", append([]byte{}, y...), "")
			// the reference works on the STORED bytes (strings.ToLower would rewrite bytes that are not valid UTF-8)
			lx, ly := append([]byte{}, s1.Sequence()...), append([]byte{}, s2.Sequence()...)
			if string(s1.Sequence()) != string(x) || string(s2.Sequence()) != string(y) {
				// the object stores the lower-cased sequence: that is what D1Or0 sees
				lx, ly = append([]byte{}, s1.Sequence()...), append([]byte{}, s2.Sequence()...)
				caseOverride = fmt.Sprintf("d1 %s %s", hx(lx), hx(ly))
			}
			v, pos, a1, a2 := obialign.D1Or0(s1, s2)
			c09CheckD1(lx, ly, v, pos, a1, a2, fail)
			return fmt.Sprintf("%d %d %d %d", v, pos, a1, a2)
		case f[0] == "lcsall" && len(f) == 5:
			a, ok := unhx(f[1])
			ml, e1 := strconv.Atoi(f[2])
			e, e2 := strconv.Atoi(f[3])
			if !ok || e1 != nil || e2 != nil || ml < 0 || ml > 7 || e < -1 || (f[4] != "0" && f[4] != "1") {
				return "bad-op"
			}
			egf := f[4] == "1"
			var sum uint64
			n := 0
			panicked := false
			c09Words(ml, func(b []byte) {
				if panicked {
					return
				}
				capBefore := cap(c09Reused)
				s, l, end, pan := c09Kernel(a, b, e, egf, &c09Reused)
				if pan != "" {
					fail("lcs.panic", "A=%q B=%q e=%d egf=%v reused buffer (cap %d before the call): the kernel gives no answer: panic: %s", a, b, e, egf, capBefore, pan)
					panicked = true
					return
				}
				c09CheckLCS(a, b, e, egf, "reused", s, l, end, fail)
				sum = (sum*1000003 + uint64(s+1)*10007 + uint64(l+1)*101 + uint64(end+1)) % 2305843009213693951
				n++
			})
			if panicked {
				return "panic"
			}
			return fmt.Sprintf("%d %d", n, sum)
		case f[0] == "d1all" && len(f) == 3:
			a, ok := unhx(f[1])
			ml, e1 := strconv.Atoi(f[2])
			if !ok || e1 != nil || ml < 0 || ml > 7 {
				return "bad-op"
			}
			a = []byte(strings.ToLower(string(a)))
			var sum uint64
			n := 0
			c09Words(ml, func(b []byte) {
				v, pos, a1, a2 := c09D1(a, b)
				c09CheckD1(a, b, v, pos, a1, a2, fail)
				sum = (sum*1000003 + uint64(v+1)*10007 + uint64(pos+1)*65536 + uint64(a1)*256 + uint64(a2)) % 2305843009213693951
				n++
			})
			return fmt.Sprintf("%d %d", n, sum)
		}
		return "bad-op"
	})
	if nf > 5 {
		fails = append(fails, Fail{Sig: "more", Text: fmt.Sprintf("%d further oracle failures on this case", nf-5)})
	}
	return res, fails
}
