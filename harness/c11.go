//go:build c11

package main

import (
	"fmt"
	"math/rand"
	"os"
	"sort"
	"strconv"
	"strings"
	"time"

	"git.metabarcoding.org/obitools/obitools4/obitools4/pkg/obiapat"
	"git.metabarcoding.org/obitools/obitools4/obitools4/pkg/obiiter"
	"git.metabarcoding.org/obitools/obitools4/obitools4/pkg/obiseq"
	"git.metabarcoding.org/obitools/obitools4/obitools4/pkg/obitools/obipcr"
)

// C11 — in-silico PCR.
//
// case lines (byte strings in hex, "-" = empty):
//
//	pcr  <fwd> <rev> <ef> <er> <min> <max> <ext> <full> <circ> <tpl>[,<tpl>...]
//	     one call of obiapat.PCRSlice on the batch of templates (ids t0, t1, ...); ext = -1: no extension
//	frag <fwd> <rev> <e> <min> <max> <ext> <full> <minsize> <length> <overlap> <tpl>
//	     the template goes through obiiter.IFragments(minsize, length, overlap, ...) and the fragments through PCRSlice
//
//	cli  <fwd> <rev> <e> <min> <max> <delta> <full> [<circ> <frag>] <tpl>
//	     obipcr.CLIPCR on one template (options set through the verif hook; 9 fields: circ = 0, frag = 1)
//
//	conc / concli …   the PCR worker closure / the whole command under concurrent use: see c11_conc.go
//
// result: per template (separated by "|") the amplicons in the order PCRSlice returns them, each
// d/from+1..to/amplicon/forward_match/forward_error/reverse_match/reverse_error/forward_primer/reverse_primer/others
// ("," separated, "-" = none); `from+1..to` is the coordinate part of the amplicon id written by BioSequence.Subsequence;
// every other field is read from the annotation map of the amplicon (c11ReadAnnot; "?" / -999: missing or of the wrong
// type); `others` = all remaining annotations, sorted. Template number k carries the annotations of c11SetTplAnnot(k)
// (the template of a cli line: k = 1; piece number k of a frag line: k).
// frag: the fragments' coordinates `a..b` ("," separated), then " ", then the same amplicon list with ids relative to
// the fragments.

type c11 struct{}

func init() { props["C11"] = c11{} }

const c11MaxPatLen = 64

// tier of the run (set by Gen; Exec of a replay keeps the quick behaviour)
var c11Tier = "quick"

var c11Iupac = map[byte]uint8{ // bit 0 a, 1 c, 2 g, 3 t
	'A': 1, 'C': 2, 'G': 4, 'T': 8, 'U': 8, 'R': 5, 'Y': 10, 'M': 3, 'K': 12, 'S': 6, 'W': 9,
	'B': 14, 'D': 13, 'H': 11, 'V': 7, 'N': 15,
}

func c11Base(c byte) uint8 {
	switch c {
	case 'a':
		return 1
	case 'c':
		return 2
	case 'g':
		return 4
	case 't':
		return 8
	}
	return 0
}

// one primer position of the documented grammar  ['!'] (LETTER | '[' LETTER+ ']') ['#'] :
// the class (a set of bases), negated or not, obligatory (no mismatch allowed there) or not
type c11Tok struct {
	base  uint8
	neg   bool
	oblig bool
}

// does the position accept the template symbol c?  A class accepts its bases; a negated class accepts every symbol that
// is not one of its bases (ambiguity codes and non-nucleotides included: they are "not an A")
func (t c11Tok) accepts(c byte) bool {
	return (c11Base(c)&t.base != 0) != t.neg
}

// primer string -> positions; ok=false: not a primer of the documented grammar over the IUPAC letters
// (independent naive parser: no table, no code of obiapat is used)
func c11Primer(p string) (toks []c11Tok, ok bool) {
	i := 0
	up := func(c byte) byte {
		if c >= 'a' && c <= 'z' {
			c -= 32
		}
		return c
	}
	for i < len(p) {
		var t c11Tok
		if p[i] == '!' {
			t.neg = true
			i++
			if i >= len(p) {
				return nil, false
			}
		}
		if p[i] == '[' {
			i++
			n := 0
			for i < len(p) && p[i] != ']' {
				b, found := c11Iupac[up(p[i])]
				if !found {
					return nil, false
				}
				t.base |= b
				n++
				i++
			}
			if i >= len(p) || n == 0 {
				return nil, false
			}
			i++
		} else {
			b, found := c11Iupac[up(p[i])]
			if !found {
				return nil, false
			}
			t.base = b
			i++
		}
		if i < len(p) && p[i] == '#' {
			t.oblig = true
			i++
		}
		toks = append(toks, t)
	}
	return toks, len(toks) > 0
}

func c11Extended(p string) bool { return strings.ContainsAny(p, "[]!#") }

func c11CompSet(s uint8) uint8 {
	var r uint8
	if s&1 != 0 {
		r |= 8
	}
	if s&2 != 0 {
		r |= 4
	}
	if s&4 != 0 {
		r |= 2
	}
	if s&8 != 0 {
		r |= 1
	}
	return r
}

// the reverse-complemented primer: positions in reverse order, each class complemented (a negated class stays the
// negation of the complemented class, an obligatory position stays obligatory)
func c11RcSets(s []c11Tok) []c11Tok {
	out := make([]c11Tok, len(s))
	for i, x := range s {
		out[len(s)-1-i] = c11Tok{base: c11CompSet(x.base), neg: x.neg, oblig: x.oblig}
	}
	return out
}

var c11CompTab = map[byte]byte{'a': 't', 'c': 'g', 'g': 'c', 't': 'a', 'r': 'y', 'y': 'r', 'm': 'k', 'k': 'm', 's': 's', 'w': 'w',
	'b': 'v', 'v': 'b', 'd': 'h', 'h': 'd', 'n': 'n'}

// independent reverse complement over the IUPAC alphabet (ok=false: a symbol outside it)
func c11Rc(s []byte) ([]byte, bool) {
	out := make([]byte, len(s))
	for i, c := range s {
		x, ok := c11CompTab[c]
		if !ok {
			return nil, false
		}
		out[len(s)-1-i] = x
	}
	return out, true
}

func c11Lower(s []byte) []byte {
	out := make([]byte, len(s))
	for i, c := range s {
		if c >= 'A' && c <= 'Z' {
			c |= 0x20
		}
		out[i] = c
	}
	return out
}

const c11Inf = 1 << 20

// number of mismatches of the positions against the window of t starting at i (indices modulo len(t));
// c11Inf when an obligatory position does not match
func c11Ham(sets []c11Tok, t []byte, i int) int {
	k := 0
	L := len(t)
	for p, s := range sets {
		if !s.accepts(t[(i+p)%L]) {
			if s.oblig {
				return c11Inf
			}
			k++
		}
	}
	return k
}

// window of the circle starting at `from` (mod L) with n symbols
func c11Win(t []byte, from, n int) []byte {
	L := len(t)
	out := make([]byte, n)
	from = ((from % L) + L) % L
	for p := 0; p < n; p++ {
		out[p] = t[(from+p)%L]
	}
	return out
}

type c11Amp struct {
	dir       byte // 'f' / 'r'
	from      int  // 0-based normalised start of the cut (id is from+1)
	idto      string
	amp       string
	fm        string
	fe        int
	rm        string
	re        int
	fp, rp    string // forward_primer / reverse_primer as found in the annotation map ("?" when not a string)
	others    string // the remaining annotations, sorted: hexname=i<int> / hexname=s<hex> joined by ";" ("-" = none)
	// oracle only
	lo, hi int    // first / last+1 position of the template the record depends on (sites + window), linear templates
	si, sj int    // start of the direct site, end of the complemented site
	over   bool   // circular: the requested window (sites + flanks) is longer than the circle
	alt    string // … and what Subsequence returns then: the request modulo the length
}

func (a c11Amp) key(withPos bool) string {
	if withPos {
		return fmt.Sprintf("%c/%d/%s/%s/%d/%s/%d", a.dir, a.from, a.amp, a.fm, a.fe, a.rm, a.re)
	}
	return fmt.Sprintf("%c/%s/%s/%d/%s/%d", a.dir, a.amp, a.fm, a.fe, a.rm, a.re)
}

type c11Opt struct {
	fwd, rev       string
	ef, er         int
	min, max, ext  int
	full, circ     bool
}

func (o c11Opt) options() []obiapat.WithOption {
	opts := []obiapat.WithOption{
		obiapat.OptionForwardPrimer(o.fwd, o.ef),
		obiapat.OptionReversePrimer(o.rev, o.er),
		obiapat.OptionOnlyFullExtension(o.full),
		obiapat.OptionMinLength(o.min),
		obiapat.OptionMaxLength(o.max),
		obiapat.OptionCircular(o.circ),
		obiapat.OptionWithExtension(o.ext),
	}
	return opts
}

type c11Site struct{ pos, err int }

// every priming site of the positions D on the template: brute force over the offsets
func c11Sites(D []c11Tok, emax int, t []byte, circ bool) []c11Site {
	L := len(t)
	last := L - len(D)
	if circ {
		last = L - 1
	}
	var out []c11Site
	for i := 0; i <= last; i++ {
		if k := c11Ham(D, t, i); k <= emax {
			out = append(out, c11Site{i, k})
		}
	}
	return out
}

// brute force over all pairs of sites: the amplicons the primers define on one (lower-case) template.
// A circular window (sites + flanks) longer than the circle is what the options ask for, read turn after turn
// (`over`); `alt` is what the code returns today (open finding).
func c11Expected(o c11Opt, F, R []c11Tok, t []byte) (exp []c11Amp) {
	L := len(t)
	if L == 0 {
		return nil
	}
	for _, dir := range []byte{'f', 'r'} {
		var D, C []c11Tok // D is searched as written, C is the complemented other primer, found downstream
		var ed, ec int
		if dir == 'f' {
			D, C, ed, ec = F, c11RcSets(R), o.ef, o.er
		} else {
			D, C, ed, ec = R, c11RcSets(F), o.er, o.ef
		}
		dl, cl := len(D), len(C)
		if !o.circ && (dl > L || cl > L) {
			continue
		}
		sd := c11Sites(D, ed, t, o.circ)
		sc := c11Sites(C, ec, t, o.circ)
		for _, si := range sd {
			i, ki := si.pos, si.err
			for _, sj := range sc {
				j, kj := sj.pos, sj.err
				gap := j - (i + dl)
				if o.circ {
					gap = ((gap % L) + L) % L
					if gap+dl+cl > L { // the two sites overlap on the circle
						continue
					}
				}
				if gap < 1 {
					continue
				}
				if o.min != 0 && gap < o.min {
					continue
				}
				if o.max != 0 && gap > o.max {
					continue
				}
				var from, n int
				over := false
				if o.ext > -1 {
					from = i - o.ext
					n = gap + dl + cl + 2*o.ext
					if !o.circ {
						to := from + n
						if o.full {
							if from < 0 || to > L {
								continue
							}
						} else {
							if from < 0 {
								from = 0
							}
							if to > L {
								to = L
							}
						}
						n = to - from
					} else if n > L {
						over = true
					}
				} else {
					from = i + dl
					n = gap
				}
				seg := c11Win(t, from, n)
				dm := string(c11Win(t, i, dl))
				cmb, _ := c11RcAny(c11Win(t, j, cl))
				cm := string(cmb)
				a := c11Amp{dir: dir, from: ((from % L) + L) % L, over: over, lo: min(i, from), hi: max(j+cl, from+n), si: i, sj: j + cl}
				alt := seg
				if over {
					alt = c11Win(t, from, (n-1)%L+1)
				}
				if dir == 'f' {
					a.amp, a.alt, a.fm, a.fe, a.rm, a.re = string(seg), string(alt), dm, ki, cm, kj
				} else {
					rs, _ := c11RcAny(seg)
					ra, _ := c11RcAny(alt)
					a.amp, a.alt, a.fm, a.fe, a.rm, a.re = string(rs), string(ra), cm, kj, dm, ki
				}
				exp = append(exp, a)
			}
		}
	}
	return exp
}

// reverse complement for the oracle on any lower-case template: symbols outside the IUPAC alphabet become 'n'
// (what obiseq documents); used for the expected match strings only
func c11RcAny(s []byte) ([]byte, bool) {
	out := make([]byte, len(s))
	all := true
	for i, c := range s {
		x, ok := c11CompTab[c]
		if !ok {
			x = 'n'
			all = false
		}
		out[len(s)-1-i] = x
	}
	return out, all
}

// the annotations the harness gives template number k (the Lean driver knows the same convention, `tplAnnot`): none
// (k mod 3 = 2), a tag (k mod 3 = 0), or a tag, a note and three annotations named like keys _Pcr writes (k mod 3 = 1:
// they must be overwritten)
func c11SetTplAnnot(s *obiseq.BioSequence, k int) {
	switch k % 3 {
	case 0:
		s.SetAttribute("c11tag", k)
	case 1:
		s.SetAttribute("c11tag", k)
		s.SetAttribute("direction", "template")
		s.SetAttribute("forward_error", -7)
		s.SetAttribute("reverse_primer", "NNN")
		s.SetAttribute("zz_note", "t"+strconv.Itoa(k))
	}
}

var c11PcrKeys = map[string]bool{"forward_primer": true, "forward_match": true, "forward_error": true, "reverse_primer": true,
	"reverse_match": true, "reverse_error": true, "direction": true}

// reads the fields of the result line from the annotation map of an amplicon
func c11ReadAnnot(s *obiseq.BioSequence, a *c11Amp) {
	str := func(k string) string {
		v, ok := s.GetAttribute(k)
		if x, isStr := v.(string); ok && isStr {
			return x
		}
		return "?"
	}
	a.dir = '?'
	switch str("direction") {
	case "forward":
		a.dir = 'f'
	case "reverse":
		a.dir = 'r'
	}
	a.fm, a.rm, a.fp, a.rp = str("forward_match"), str("reverse_match"), str("forward_primer"), str("reverse_primer")
	a.fe, a.re = -999, -999
	if v, ok := s.GetAttribute("forward_error"); ok {
		if x, isInt := v.(int); isInt {
			a.fe = x
		}
	}
	if v, ok := s.GetAttribute("reverse_error"); ok {
		if x, isInt := v.(int); isInt {
			a.re = x
		}
	}
	var xs []string
	if s.HasAnnotation() {
		for k, v := range s.Annotations() {
			if c11PcrKeys[k] {
				continue
			}
			switch x := v.(type) {
			case int:
				xs = append(xs, hx([]byte(k))+"=i"+strconv.Itoa(x))
			case string:
				xs = append(xs, hx([]byte(k))+"=s"+hx([]byte(x)))
			default:
				xs = append(xs, hx([]byte(k))+"=?")
			}
		}
	}
	sort.Strings(xs)
	a.others = "-"
	if len(xs) > 0 {
		a.others = strings.Join(xs, ";")
	}
}

func (a c11Amp) annotFields() string {
	return fmt.Sprintf("%s/%d/%s/%d/%s/%s/%s", hx([]byte(a.fm)), a.fe, hx([]byte(a.rm)), a.re, hx([]byte(a.fp)), hx([]byte(a.rp)), a.others)
}

// annotation problems seen by c11Run / the cli reader since the last reset (forward_primer, reverse_primer, direction,
// annotations inherited from the template) — independent of the model: what the property / the documentation say
var c11AnnotBad []string

func c11CheckAnnot(s *obiseq.BioSequence, o c11Opt, tag int) {
	bad := func(f string, a ...any) {
		if len(c11AnnotBad) < 5 {
			c11AnnotBad = append(c11AnnotBad, s.Id()+": "+fmt.Sprintf(f, a...))
		}
	}
	if v, _ := s.GetAttribute("forward_primer"); v != o.fwd {
		bad("forward_primer=%v, want %q", v, o.fwd)
	}
	if v, _ := s.GetAttribute("reverse_primer"); v != o.rev {
		bad("reverse_primer=%v, want %q", v, o.rev)
	}
	if v, _ := s.GetAttribute("direction"); v != "forward" && v != "reverse" {
		bad("direction=%v", v)
	}
	if v, ok := s.GetAttribute("c11tag"); tag%3 != 2 && (!ok || v != tag) {
		bad("annotation of the template c11tag=%v, want %d", v, tag)
	} else if tag%3 == 2 && ok {
		bad("annotation c11tag=%v on an amplicon of a template without annotations", v)
	}
	if v, ok := s.GetAttribute("zz_note"); tag%3 == 1 && (!ok || v != "t"+strconv.Itoa(tag)) {
		bad("annotation of the template zz_note=%v, want t%d", v, tag)
	}
	for _, k := range []string{"forward_error", "reverse_error"} {
		if v, ok := s.GetAttribute(k); !ok {
			bad("%s missing", k)
		} else if _, isInt := v.(int); !isInt {
			bad("%s=%v is not an int", k, v)
		}
	}
	for _, k := range []string{"forward_match", "reverse_match"} {
		if v, ok := s.GetAttribute(k); !ok {
			bad("%s missing", k)
		} else if _, isStr := v.(string); !isStr {
			bad("%s=%v is not a string", k, v)
		}
	}
}

// runs the real PCRSlice on a batch; returns per-template amplicons
func c11Run(o c11Opt, tpls [][]byte) [][]c11Amp {
	batch := make(obiseq.BioSequenceSlice, len(tpls))
	tags := make([]int, len(tpls))
	for i, t := range tpls {
		batch[i] = obiseq.NewBioSequence("t"+strconv.Itoa(i), t, "")
		c11SetTplAnnot(batch[i], i)
		tags[i] = i
	}
	return c11RunSeqs(o, batch, tags)
}

// … on sequences that exist already (the pieces cut by IFragments, with whatever IFragments left on them); tags[k] = the
// annotation convention the amplicons of batch[k] must follow
func c11RunSeqs(o c11Opt, batch obiseq.BioSequenceSlice, tags []int) [][]c11Amp {
	index := map[string]int{}
	for i, s := range batch {
		index[s.Id()] = i
	}
	res := obiapat.PCRSlice(batch, o.options()...)
	out := make([][]c11Amp, len(batch))
	for _, s := range res {
		id := s.Id()
		// <template id>_sub[a..b]
		p := strings.LastIndex(id, "_sub[")
		k := index[id[:p]]
		coord := id[p+5 : len(id)-1]
		dots := strings.Index(coord, "..")
		from1, _ := strconv.Atoi(coord[:dots])
		a := c11Amp{from: from1 - 1, idto: coord[dots+2:], amp: string(s.Sequence())}
		c11CheckAnnot(s, o, tags[k])
		c11ReadAnnot(s, &a)
		out[k] = append(out[k], a)
	}
	return out
}

func c11Show(per [][]c11Amp) string {
	parts := make([]string, len(per))
	for i, l := range per {
		if len(l) == 0 {
			parts[i] = "-"
			continue
		}
		xs := make([]string, len(l))
		for j, a := range l {
			xs[j] = fmt.Sprintf("%c/%d..%s/%s/%s", a.dir, a.from+1, a.idto, hx([]byte(a.amp)), a.annotFields())
		}
		parts[i] = strings.Join(xs, ",")
	}
	return strings.Join(parts, "|")
}

func c11Keys(l []c11Amp, withPos bool, flip bool) []string {
	ks := make([]string, len(l))
	for i, a := range l {
		if flip {
			if a.dir == 'f' {
				a.dir = 'r'
			} else if a.dir == 'r' {
				a.dir = 'f'
			}
		}
		ks[i] = a.key(withPos)
	}
	sort.Strings(ks)
	return ks
}

func c11Uniq(ks []string) []string {
	var out []string
	for i, k := range ks {
		if i == 0 || k != ks[i-1] {
			out = append(out, k)
		}
	}
	return out
}

// multiset difference summary: (missing from got, spurious in got)
func c11Diff(exp, got []string) (missing, spurious []string) {
	i, j := 0, 0
	for i < len(exp) || j < len(got) {
		switch {
		case j >= len(got) || (i < len(exp) && exp[i] < got[j]):
			missing = append(missing, exp[i])
			i++
		case i >= len(exp) || got[j] < exp[i]:
			spurious = append(spurious, got[j])
			j++
		default:
			i++
			j++
		}
	}
	return
}

func c11Cut(l []string) string {
	if len(l) > 3 {
		return strings.Join(l[:3], " ") + fmt.Sprintf(" … (%d)", len(l))
	}
	return strings.Join(l, " ")
}

func c11Letters(t []byte) bool { // IUPAC symbols, no u
	for _, c := range t {
		if _, ok := c11CompTab[c]; !ok {
			return false
		}
	}
	return true
}

func c11ParseOpt(f []string) (o c11Opt, ok bool) {
	fb, ok1 := unhx(f[0])
	rb, ok2 := unhx(f[1])
	if !ok1 || !ok2 || strings.IndexByte(string(fb), 0) >= 0 || strings.IndexByte(string(rb), 0) >= 0 {
		return o, false
	}
	o.fwd, o.rev = string(fb), string(rb)
	var err error
	ints := make([]int, 5)
	for i := 0; i < 5; i++ {
		ints[i], err = strconv.Atoi(f[2+i])
		if err != nil {
			return o, false
		}
	}
	o.ef, o.er, o.min, o.max, o.ext = ints[0], ints[1], ints[2], ints[3], ints[4]
	if o.ef < 0 || o.er < 0 || o.ef > 63 || o.er > 63 {
		return o, false
	}
	if (f[7] != "0" && f[7] != "1") || (f[8] != "0" && f[8] != "1") {
		return o, false
	}
	o.full, o.circ = f[7] == "1", f[8] == "1"
	return o, true
}

func (c11) Exec(c string) (string, []Fail) {
	f := strings.Fields(c)
	var fails []Fail
	fail := func(sig, format string, a ...any) {
		fails = append(fails, Fail{Sig: sig, Text: fmt.Sprintf(format, a...)})
	}
	if len(f) == 0 {
		return "bad-op", nil
	}
	if os.Getenv("C11SLOW") != "" { // developer aid: cases taking more than half a second
		t0 := time.Now()
		defer func() {
			if d := time.Since(t0); d > 500*time.Millisecond {
				fmt.Fprintf(os.Stderr, "slow %v %.160s\n", d, c)
			}
		}()
	}
	stat("op:" + f[0])
	dbg := func() {
		if os.Getenv("C11DEBUG") != "" {
			if r := recover(); r != nil {
				fmt.Fprintf(os.Stderr, "panic: %v\n", r)
				panic(r)
			}
		}
	}
	switch {
	case f[0] == "conc" || f[0] == "concli":
		return c11ExecConc(c) // harness/c11_conc.go
	case f[0] == "glue":
		return c11ExecGlue(c) // harness/c11_glue.go
	case f[0] == "pcr" && len(f) == 11:
		o, ok := c11ParseOpt(f[1:10])
		if !ok {
			return "bad-op", nil
		}
		var tpls [][]byte
		for _, h := range strings.Split(f[10], ",") {
			t, ok := unhx(h)
			if !ok {
				return "bad-op", nil
			}
			tpls = append(tpls, t)
		}
		F, okF := c11Primer(o.fwd)
		R, okR := c11Primer(o.rev)
		plain := okF && okR
		if len(o.fwd) >= c11MaxPatLen || len(o.rev) >= c11MaxPatLen {
			caseTrivial = true
			return "unmodelled", nil // `1L << patlen` is undefined for 64 positions (C10 finding)
		}
		// EncodeSequence copies in[0..64) behind a circular sequence whatever its length: what lies behind a template
		// shorter than 64 is not defined; it can only be seen by a primer longer than the template
		short := false
		for _, t := range tpls {
			if o.circ && len(t) < c11MaxPatLen && max(len(o.fwd), len(o.rev)) > len(t) {
				short = true
			}
		}
		topo := "lin"
		if o.circ {
			topo = "circ"
		}
		extc := "noext"
		if o.ext > -1 {
			extc = "ext"
		}
		lenc := "eqlen"
		if len(F) != len(R) {
			lenc = "difflen"
		}
		class := topo + "." + extc + "." + lenc
		if short {
			class += ".short"
		}
		stat("class:" + class)
		if len(tpls) > 1 {
			stat("batch>1")
		}

		var per [][]c11Amp
		c11AnnotBad = nil
		res := guardT(20*time.Second, func() string {
			defer dbg()
			per = c11Run(o, tpls)
			return c11Show(per)
		})
		bad := res == "fatal" || res == "panic" || res == "hang"

		// ---------------- oracle ----------------
		if c11Extended(o.fwd) || c11Extended(o.rev) {
			stat("extended-grammar")
			if !plain {
				stat("extended-grammar-not-parsed")
			}
		}
		if plain {
			lows := make([][]byte, len(tpls))
			exps := make([][]c11Amp, len(tpls))
			anyExp := false
			for i, t := range tpls {
				lows[i] = c11Lower(t)
				exps[i] = c11Expected(o, F, R, lows[i])
				if len(exps[i]) > 0 {
					anyExp = true
				}
				stat(fmt.Sprintf("sites:%d", min(len(exps[i]), 4)))
				if len(exps[i]) > 10 {
					stat("sites>10") // more amplicons than the initial capacity of the result slice of _Pcr
				}
				for _, e := range exps[i] {
					if o.min != 0 && len(e.amp) == o.min && o.ext < 0 {
						stat("len=min")
					}
					if o.max != 0 && len(e.amp) == o.max && o.ext < 0 {
						stat("len=max")
					}
				}
			}
			if !anyExp {
				caseTrivial = len(tpls) == 1 && len(tpls[0]) == 0
			}
			if bad {
				fail("pcr."+res+"."+class, "PCRSlice ends in %s; the primers define %d amplicons on the first template", res, len(exps[0]))
			} else {
				for i := range tpls {
					// a circular window longer than the circle: the code returns the request modulo the length
					// (open finding); recognised record by record, everything else is compared as usual
					gotKeys := map[string]int{}
					for _, g := range per[i] {
						gotKeys[g.key(true)]++
					}
					nover := 0
					var firstOver c11Amp
					for k, e := range exps[i] {
						if !e.over {
							continue
						}
						stat("overlong-window")
						asIs := e
						asIs.amp = e.alt
						if gotKeys[e.key(true)] == 0 && gotKeys[asIs.key(true)] > 0 {
							if nover == 0 {
								firstOver = e
							}
							nover++
							exps[i][k].amp = e.alt
						}
					}
					if nover > 0 {
						fail("pcr.circ.overlong-window", "template %d (%d symbols): %d records whose window (sites + flanks) is longer than the circle carry the request modulo the length, e.g. %c at %d: %d symbols requested, %d returned",
							i, len(lows[i]), nover, firstOver.dir, firstOver.from+1, len(firstOver.amp), len(firstOver.alt))
					}
					missing, spurious := c11Diff(c11Keys(exps[i], true, false), c11Keys(per[i], true, false))
					if len(missing) > 0 {
						fail("pcr.missing."+class+c11DirOf(missing), "template %d: defined by the primers but not reported: %s", i, c11Cut(missing))
					}
					if len(spurious) > 0 {
						fail("pcr.spurious."+class+c11DirOf(spurious), "template %d: reported but not defined by the primers: %s", i, c11Cut(spurious))
					}
				}
				// obiapat.PCRSim (the single-sequence entry point: its own ApatSequence, freed afterwards) = PCRSlice on a batch of one
				if len(tpls) == 1 && len(c)%3 == 0 {
					stat("pcrsim-checked")
					var sim []c11Amp
					r0 := guardT(20*time.Second, func() string {
						defer dbg()
						sq := obiseq.NewBioSequence("t0", tpls[0], "")
						c11SetTplAnnot(sq, 0)
						for _, s := range obiapat.PCRSim(sq, o.options()...) {
							id := s.Id()
							p := strings.LastIndex(id, "_sub[")
							coord := id[p+5 : len(id)-1]
							dots := strings.Index(coord, "..")
							from1, _ := strconv.Atoi(coord[:dots])
							a := c11Amp{from: from1 - 1, idto: coord[dots+2:], amp: string(s.Sequence())}
							c11ReadAnnot(s, &a)
							sim = append(sim, a)
						}
						return "ok"
					})
					if r0 != "ok" {
						fail("pcrsim."+r0+"."+class, "PCRSim: %s", r0)
					} else if a, b := c11Show([][]c11Amp{sim}), c11Show([][]c11Amp{per[0]}); a != b {
						fail("pcrsim."+class, "PCRSim returns %.200s, PCRSlice %.200s", a, b)
					}
				}
				// batch composition: each template alone gives the same amplicons
				if len(tpls) > 1 {
					for i, t := range tpls {
						var alone [][]c11Amp
						r1 := guardT(20*time.Second, func() string {
							defer dbg()
							alone = c11Run(o, [][]byte{t})
							return "ok"
						})
						if r1 != "ok" {
							fail("batch."+r1+"."+class, "template %d alone: %s", i, r1)
							continue
						}
						m, s := c11Diff(c11Keys(alone[0], true, false), c11Keys(per[i], true, false))
						if len(m)+len(s) > 0 {
							fail("batch."+class, "template %d: alone %s / in the batch %s", i, c11Cut(m), c11Cut(s))
						}
					}
				}
				// strand symmetry: PCR of the reverse complements = the same amplicons, direction flipped
				rcs := make([][]byte, len(tpls))
				allLetters := true
				for i := range tpls {
					var ok bool
					rcs[i], ok = c11Rc(lows[i])
					allLetters = allLetters && ok
				}
				if allLetters {
					stat("strand-checked")
					var perRc [][]c11Amp
					r2 := guardT(20*time.Second, func() string {
						defer dbg()
						perRc = c11Run(o, rcs)
						return "ok"
					})
					if r2 != "ok" {
						fail("strand."+r2+"."+class, "PCRSlice of the reverse-complemented templates: %s", r2)
					} else {
						for i := range tpls {
							m, s := c11Diff(c11Keys(per[i], false, true), c11Keys(perRc[i], false, false))
							if len(m)+len(s) > 0 {
								fail("strand."+class, "template %d: flipped amplicons of t missing on rc(t): %s ; extra on rc(t): %s", i, c11Cut(m), c11Cut(s))
							}
						}
					}
				}
				// rotation of a circular template: a few origins (quick), every origin (thorough)
				if o.circ && !short && c11MinLen(lows) > 0 {
					stat("rotation-checked")
					nrot := 3
					maxL := 0
					for _, t := range lows {
						maxL = max(maxL, len(t))
					}
					every := false // every origin: thorough tier, one case out of 80 (one out of 8 on circles of at most 80 symbols)
					if c11Tier == "thorough" {
						h := 0
						for k := 0; k < len(c); k++ {
							h = (h*31 + int(c[k])) & 0xffff
						}
						every = (h%80 == 0 && maxL <= 200) || (maxL <= 80 && h%8 == 0)
						nrot = 3
						if h%8 == 1 {
							nrot = 12
						}
						if every {
							nrot = maxL - 1
							stat("rotation-every-origin")
						}
					}
					for q := 0; q < nrot; q++ {
						rots := make([][]byte, len(tpls))
						for i, t := range lows {
							L := len(t)
							var r int
							if every {
								r = 1 + q%max(L-1, 1)
							} else if nrot == 12 {
								r = 1 + (q*(L-1))/12 + (i % 3)
							} else {
								switch (q + i) % 3 {
								case 0:
									r = (7*i + 3*L/5 + 1) % L
								case 1:
									r = 1
								default:
									r = L - 1
								}
							}
							r %= L
							rots[i] = append(append([]byte{}, t[r:]...), t[:r]...)
						}
						var perRot [][]c11Amp
						r3 := guardT(20*time.Second, func() string {
							defer dbg()
							perRot = c11Run(o, rots)
							return "ok"
						})
						if r3 != "ok" {
							fail("rot."+r3+"."+class, "PCRSlice of the rotated templates: %s", r3)
							break
						}
						failed := false
						for i := range tpls {
							m, s := c11Diff(c11Keys(per[i], false, false), c11Keys(perRot[i], false, false))
							if len(m)+len(s) > 0 {
								fail("rot."+class, "template %d, rotation %d: lost by the rotation: %s ; gained: %s", i, q, c11Cut(m), c11Cut(s))
								failed = true
							}
						}
						if failed {
							break
						}
					}
				}
			}
		}
		if len(c11AnnotBad) > 0 {
			fail("pcr.annot."+class, "annotations of the amplicons: %s", strings.Join(c11AnnotBad, " ; "))
		}
		// (a circular template shorter than a primer used to be printed `unmodelled`: since fix c69892e the C encoder copies
		// min(length, 64) symbols behind a circular sequence, which is what the model's seqData does; compared like the rest)
		return res, fails

	case f[0] == "seqbuf" && len(f) == 3:
		// seqbuf <circ> <tpl>[,<tpl>...]: the C structure recycled by _PCRSlice from one template to the next
		if f[1] != "0" && f[1] != "1" {
			return "bad-op", nil
		}
		circ := f[1] == "1"
		var tpls [][]byte
		for _, h := range strings.Split(f[2], ",") {
			t, ok := unhx(h)
			if !ok {
				return "bad-op", nil
			}
			tpls = append(tpls, t)
		}
		type snap struct {
			seqlen, circular, datsiz int
			data                     []byte
		}
		var snaps []snap
		res := guardT(20*time.Second, func() string {
			defer dbg()
			var aseq obiapat.ApatSequence
			parts := make([]string, len(tpls))
			for i, t := range tpls {
				bs := obiseq.NewBioSequence("t"+strconv.Itoa(i), t, "")
				var err error
				if i == 0 {
					aseq, err = obiapat.MakeApatSequence(bs, circ)
				} else {
					aseq, err = obiapat.MakeApatSequence(bs, circ, aseq)
				}
				if err != nil {
					return "error"
				}
				var sn snap
				sn.seqlen, sn.circular, sn.datsiz, sn.data = obiapat.VerifSeqBuffer(aseq)
				snaps = append(snaps, sn)
				parts[i] = fmt.Sprintf("%d/%d/%d/%s", sn.seqlen, sn.circular, sn.datsiz, hx(sn.data))
			}
			return strings.Join(parts, "|")
		})
		if res == "fatal" || res == "panic" || res == "hang" || res == "error" {
			fail("seqbuf."+res, "MakeApatSequence chain ends in %s", res)
			return res, fails
		}
		// oracle (independent of the model): what the matcher may read — the first seqlen + circular codes — is the
		// current template followed by its first min(len, 64) symbols, whatever the buffer held before
		for i, t := range tpls {
			low := c11Lower(t)
			sn := snaps[i]
			wantC := 0
			if circ {
				wantC = min(len(low), c11MaxPatLen)
			}
			code := func(c byte) byte {
				if c >= 'a' && c <= 'z' {
					return c - 'a'
				}
				return 25
			}
			ok := sn.seqlen == len(low) && sn.circular == wantC && sn.datsiz >= sn.seqlen+sn.circular && len(sn.data) >= sn.seqlen+sn.circular
			for p := 0; ok && p < sn.seqlen+sn.circular; p++ {
				if sn.data[p] != code(low[p%max(len(low), 1)]) {
					ok = false
				}
			}
			if sn.datsiz > sn.seqlen+sn.circular {
				stat("seqbuf:stale-tail")
			}
			if !ok {
				fail("seqbuf.valid-part", "template %d (%d symbols): seqlen=%d circular=%d datsiz=%d, the first seqlen+circular codes are not the template followed by its first %d symbols", i, len(low), sn.seqlen, sn.circular, sn.datsiz, wantC)
			}
		}
		return res, fails

	case f[0] == "frag" && len(f) == 12:
		o, ok := c11ParseOpt([]string{f[1], f[2], f[3], f[3], f[4], f[5], f[6], f[7], "0"})
		if !ok {
			return "bad-op", nil
		}
		minsize, e1 := strconv.Atoi(f[8])
		length, e2 := strconv.Atoi(f[9])
		overlap, e3 := strconv.Atoi(f[10])
		t, ok := unhx(f[11])
		if !ok || e1 != nil || e2 != nil || e3 != nil || length-overlap < 1 || minsize < 0 {
			return "bad-op", nil
		}
		F, okF := c11Primer(o.fwd)
		R, okR := c11Primer(o.rev)
		if !okF || !okR || len(F) >= c11MaxPatLen || len(R) >= c11MaxPatLen {
			return "bad-op", nil
		}
		var frags []string
		var fragStart []int
		var per [][]c11Amp
		res := guardT(30*time.Second, func() string {
			defer dbg()
			tpl := obiseq.NewBioSequence("x", t, "")
			c11SetTplAnnot(tpl, 1)
			src := obiiter.IBatchOver("x", obiseq.BioSequenceSlice{tpl}, 10)
			it := src.Pipe(obiiter.IFragments(minsize, length, overlap, 100, 2))
			var pieces obiseq.BioSequenceSlice
			var tags []int
			for it.Next() {
				for _, s := range it.Get().Slice() {
					id := s.Id()
					if p := strings.Index(id, "_sub["); p >= 0 {
						coord := id[p+5 : len(id)-1]
						frags = append(frags, coord)
						a, _ := strconv.Atoi(coord[:strings.Index(coord, "..")])
						fragStart = append(fragStart, a-1)
					} else {
						frags = append(frags, "whole")
						fragStart = append(fragStart, 0)
					}
					// the pieces as IFragments delivers them (with the marks of their inner ends), as CLIPCR hands them on
					pieces = append(pieces, s)
					tags = append(tags, 1)
				}
			}
			c11AnnotBad = nil
			per = c11RunSeqs(o, pieces, tags)
			return strings.Join(frags, ",") + " " + c11Show(per)
		})
		if res == "fatal" || res == "panic" || res == "hang" {
			fail("frag."+res, "fragmented PCR ends in %s", res)
			return res, fails
		}
		if len(c11AnnotBad) > 0 {
			fail("frag.annot", "annotations of the amplicons: %s", strings.Join(c11AnnotBad, " ; "))
		}
		// oracle: the amplicons of the whole template are exactly the amplicons found on the fragments (as a set, in
		// the coordinates of the whole template)
		low := c11Lower(t)
		exp := c11Expected(o, F, R, low)
		var got []c11Amp
		for k, l := range per {
			for _, a := range l {
				a.from += fragStart[k]
				got = append(got, a)
			}
		}
		stat(fmt.Sprintf("frag-sites:%d", min(len(exp), 4)))
		if o.ext > -1 && !o.full && len(per) > 1 {
			stat("frag:clipping-mode")
			// pairs of sites lying inside a piece with a flank reaching beyond an inner end of that piece: what the patched
			// _Pcr skips (statistics)
			for k, st := range fragStart {
				en := len(low)
				if frags[k] != "whole" {
					en, _ = strconv.Atoi(frags[k][strings.Index(frags[k], "..")+2:])
				}
				for _, x := range exp {
					if st <= x.si && x.sj <= en && ((st > 0 && x.si-o.ext < st) || (en < len(low) && x.sj+o.ext > en)) {
						stat("frag:pair-skipped-at-inner-end")
					}
				}
			}
		}
		m, s := c11Diff(c11Uniq(c11Keys(exp, true, false)), c11Uniq(c11Keys(got, true, false)))
		if len(m) > 0 {
			fail("frag.missing", "amplicons of the whole template not found on any fragment: %s", c11Cut(m))
		}
		if len(s) > 0 {
			sig := "frag.spurious"
			if o.ext > -1 && !o.full {
				sig = "frag.clipped-flank"
			}
			fail(sig, "found on a fragment but not an amplicon of the whole template: %s", c11Cut(s))
		}
		// each amplicon is reported once per piece that contains its two sites and its window
		if len(m)+len(s) == 0 {
			cnt := map[string]int{}
			for _, k := range c11Keys(got, true, false) {
				cnt[k]++
			}
			// (two pairs of sites can give the same record — same clipped window, same match strings —: the records are
			// counted with their multiplicity)
			wantBy := map[string]int{}
			for _, x := range exp {
				want := 0
				for k, st := range fragStart {
					en := len(low)
					if frags[k] != "whole" {
						en, _ = strconv.Atoi(frags[k][strings.Index(frags[k], "..")+2:])
					}
					if st <= x.lo && x.hi <= en {
						want++
					}
				}
				if want > 1 {
					stat("frag-in-overlap")
				}
				wantBy[x.key(true)] += want
			}
			for _, x := range exp {
				if k := x.key(true); cnt[k] != wantBy[k] {
					fail("frag.count", "amplicon %s: the pairs of sites giving it lie inside %d pieces in all but it is reported %d times", k, wantBy[k], cnt[k])
					break
				}
			}
		}
		return res, fails

	case f[0] == "cli" && (len(f) == 9 || len(f) == 11):
		// cli <fwd> <rev> <e> <min> <max> <delta> <full> [<circ> <frag>] <tpl>   (9 fields: circ = 0, frag = 1)
		circS, fragS, tplS := "0", "1", f[8]
		if len(f) == 11 {
			circS, fragS, tplS = f[8], f[9], f[10]
		}
		if (fragS != "0" && fragS != "1") || (circS != "0" && circS != "1") {
			return "bad-op", nil
		}
		frag := fragS == "1"
		oc, ok := c11ParseOpt([]string{f[1], f[2], f[3], f[3], "0", f[5], f[6], f[7], circS})
		mn, errMn := strconv.Atoi(f[4])
		t, ok2 := unhx(tplS)
		if !ok || !ok2 || errMn != nil || oc.max < 1 {
			return "bad-op", nil
		}
		if len(oc.fwd) >= c11MaxPatLen || len(oc.rev) >= c11MaxPatLen {
			return "bad-op", nil
		}
		// what the command line means: -l <= 0 is no lower bound, --delta < 0 is no flank
		o := oc
		o.min = max(mn, 0)
		if o.ext < 0 {
			o.ext = -1
		}
		F, okF := c11Primer(o.fwd)
		R, okR := c11Primer(o.rev)
		L := len(t)
		// the pieces IFragments is asked to cut (independent of the code: from the documented parameters)
		type piece struct{ a, b int }
		pieces := []piece{{0, L}}
		if frag && !o.circ { // --fragmented is ignored with --circular (patch C11-circular-not-fragmented)
			minsize, length := o.max*1000, o.max*100
			overlap := o.max + len(o.fwd) + len(o.rev)
			if o.ext >= 0 {
				overlap += 2 * o.ext
			}
			step := length - overlap
			if L > minsize {
				if step < 1 {
					return "bad-op", nil // IFragments does not advance
				}
				pieces = nil
				for i := 0; i < L; i += step {
					e := min(i+length, L)
					if L-e < step {
						pieces = append(pieces, piece{i, L})
						break
					}
					pieces = append(pieces, piece{i, e})
				}
			}
		}
		mode := "lin"
		if o.circ {
			mode = "circ"
		}
		if frag && len(pieces) > 1 {
			mode += ".frag"
		} else {
			mode += ".whole"
		}
		stat("cli:" + mode)
		type famp struct {
			a     c11Amp
			frag  string
			start int
		}
		var got []famp
		c11AnnotBad = nil
		res := guardT(60*time.Second, func() string {
			defer dbg()
			obipcr.VerifSetOptions(o.fwd, o.rev, o.ef, mn, o.max, oc.ext, o.full, o.circ, frag)
			tpl := obiseq.NewBioSequence("x", t, "")
			c11SetTplAnnot(tpl, 1)
			src := obiiter.IBatchOver("x", obiseq.BioSequenceSlice{tpl}, 10)
			it, err := obipcr.CLIPCR(src)
			if err != nil {
				return "error"
			}
			for it.Next() {
				for _, s := range it.Get().Slice() {
					id := s.Id()
					p := strings.LastIndex(id, "_sub[")
					coord := id[p+5 : len(id)-1]
					from1, _ := strconv.Atoi(coord[:strings.Index(coord, "..")])
					frg, start := "whole", 0
					if q := strings.Index(id[:p], "_sub["); q >= 0 {
						frg = id[q+5 : p-1]
						start, _ = strconv.Atoi(frg[:strings.Index(frg, "..")])
						start--
					}
					c11CheckAnnot(s, o, 1)
					a := c11Amp{from: start + from1 - 1, amp: string(s.Sequence())}
					c11ReadAnnot(s, &a)
					got = append(got, famp{a, frg, start})
				}
			}
			xs := make([]string, len(got))
			for i, g := range got {
				xs[i] = fmt.Sprintf("%c/%s/%d/%s/%s", g.a.dir, g.frag, g.a.from+1, hx([]byte(g.a.amp)), g.a.annotFields())
			}
			sort.Strings(xs)
			if len(xs) == 0 {
				return "-"
			}
			return strings.Join(xs, ",")
		})
		if !okF || !okR {
			return res, nil // not a primer of the grammar: no oracle (the model says `fatal` when it does not compile)
		}
		if res == "fatal" || res == "panic" || res == "hang" || res == "error" {
			fail("cli."+res+"."+mode, "obipcr ends in %s", res)
			return res, fails
		}
		if len(c11AnnotBad) > 0 {
			fail("cli.annot", "annotations of the amplicons: %s", strings.Join(c11AnnotBad, " ; "))
		}
		low := c11Lower(t)
		exp := c11Expected(o, F, R, low)
		var gl []c11Amp
		for _, g := range got {
			gl = append(gl, g.a)
		}
		stat(fmt.Sprintf("cli-sites:%d", min(len(exp), 4)))
		gk := c11Keys(gl, true, false)
		if len(c11Uniq(gk)) < len(gk) {
			stat("cli-duplicates")
		}
		switch {
		case len(pieces) == 1:
			// not fragmented: the amplicons of the template, each once (a circular window longer than the circle
			// is left to the pcr cases)
			for k := range exp {
				if exp[k].over {
					exp[k].amp = exp[k].alt
				}
			}
			m, s := c11Diff(c11Keys(exp, true, false), gk)
			if frag && o.circ && L > o.max*1000 && len(m)+len(s) > 0 {
				// the defect repaired by patch C11-circular-not-fragmented (same signature as the finding it fixes)
				stat("cli-circular-long-template")
				fail("cli.circular-fragments", "obipcr --circular --fragmented on a template longer than 1000 x max length: amplicons of the circular template not reported: %s ; reported but not an amplicon of the template: %s", c11Cut(m), c11Cut(s))
				return res, fails
			}
			if len(m) > 0 {
				fail("cli.missing."+mode, "amplicons of the template not reported: %s", c11Cut(m))
			}
			if len(s) > 0 {
				fail("cli.spurious."+mode, "reported but not an amplicon of the template: %s", c11Cut(s))
			}
		default:
			m, s := c11Diff(c11Uniq(c11Keys(exp, true, false)), c11Uniq(gk))
			if len(m) > 0 {
				fail("cli.missing", "amplicons of the whole template found on no fragment: %s", c11Cut(m))
			}
			if len(s) > 0 {
				sig := "cli.spurious"
				if o.ext > -1 && !o.full {
					sig = "cli.clipped-flank" // a fragment end acts as an end of the template
				}
				fail(sig, "reported on a fragment but not an amplicon of the whole template: %s", c11Cut(s))
			}
			// duplicates are exactly the amplicons lying inside an overlap (pcr_fragment_duplicates, pcr_piece_marked): each
			// amplicon is reported once per piece that contains its two sites and its window — in every mode since the pieces
			// know which of their ends are ends of the template
			{
				cnt := map[string]int{}
				for _, k := range gk {
					cnt[k]++
				}
				// (two pairs of sites can give the same record — same clipped window, same match strings —: the records are
				// counted with their multiplicity)
				wantBy := map[string]int{}
				for _, e := range exp {
					want := 0
					for _, pc := range pieces {
						if pc.a <= e.lo && e.hi <= pc.b {
							want++
						}
					}
					if want > 1 {
						stat("cli-in-overlap")
					}
					wantBy[e.key(true)] += want
				}
				for _, e := range exp {
					if k := e.key(true); cnt[k] != wantBy[k] {
						fail("cli.count", "amplicon %s: the pairs of sites giving it lie inside %d pieces in all but it is reported %d times", k, wantBy[k], cnt[k])
						break
					}
				}
			}
		}
		return res, fails
	}
	return "bad-op", nil
}

func c11MinLen(l [][]byte) int {
	m := 1 << 30
	for _, t := range l {
		m = min(m, len(t))
	}
	return m
}

func c11DirOf(keys []string) string {
	f, r := false, false
	for _, k := range keys {
		if k[0] == 'f' {
			f = true
		}
		if k[0] == 'r' {
			r = true
		}
	}
	switch {
	case f && r:
		return ".fr"
	case f:
		return ".f"
	}
	return ".r"
}

// ---------------------------------------------------------------------------------------------
// generator
// ---------------------------------------------------------------------------------------------

func c11Line(o c11Opt, tpls [][]byte) string {
	hs := make([]string, len(tpls))
	for i, t := range tpls {
		hs[i] = hx(t)
	}
	b := func(x bool) int {
		if x {
			return 1
		}
		return 0
	}
	return fmt.Sprintf("pcr %s %s %d %d %d %d %d %d %d %s", hx([]byte(o.fwd)), hx([]byte(o.rev)), o.ef, o.er, o.min, o.max, o.ext, b(o.full), b(o.circ), strings.Join(hs, ","))
}

func c11RandSeq(rng *rand.Rand, n int, alpha string) []byte {
	out := make([]byte, n)
	for i := range out {
		out[i] = alpha[rng.Intn(len(alpha))]
	}
	return out
}

const c11IupacLetters = "ACGTRYMKSWBDHVN"

func c11RandPrimer(rng *rand.Rand, n int, amb int) string {
	out := make([]byte, n)
	for i := range out {
		if rng.Intn(100) < amb {
			out[i] = c11IupacLetters[4+rng.Intn(11)]
		} else {
			out[i] = "ACGT"[rng.Intn(4)]
		}
	}
	return string(out)
}

// a primer of the extended grammar: n positions, classes [..], negations !, obligatory positions #
func c11RandPrimerExt(rng *rand.Rand, n int) string {
	var sb strings.Builder
	for i := 0; i < n; i++ {
		neg := rng.Intn(6) == 0
		if neg {
			sb.WriteByte('!')
		}
		switch rng.Intn(5) {
		case 0: // class
			k := 1 + rng.Intn(3)
			sb.WriteByte('[')
			for q := 0; q < k; q++ {
				sb.WriteByte("ACGTRYW"[rng.Intn(7)])
			}
			sb.WriteByte(']')
		case 1:
			sb.WriteByte("RYMKSWBDHV"[rng.Intn(10)])
		default:
			sb.WriteByte("ACGT"[rng.Intn(4)])
		}
		if rng.Intn(5) == 0 {
			sb.WriteByte('#')
		}
	}
	return sb.String()
}

// an instance of the positions with k substitutions (at positions where a substitution is possible and allowed)
func c11Instance(rng *rand.Rand, sets []c11Tok, k int) []byte {
	out := make([]byte, len(sets))
	pick := func(t c11Tok, want bool) (byte, bool) {
		var in []byte
		for b := 0; b < 4; b++ {
			if t.accepts("acgt"[b]) == want {
				in = append(in, "acgt"[b])
			}
		}
		if want && t.neg && rng.Intn(8) == 0 {
			in = append(in, 'n') // "not an A" accepts an ambiguity code too
		}
		if len(in) == 0 {
			return 'n', t.accepts('n') == want
		}
		return in[rng.Intn(len(in))], true
	}
	for i, s := range sets {
		out[i], _ = pick(s, true)
	}
	perm := rng.Perm(len(sets))
	for _, p := range perm {
		if k == 0 {
			break
		}
		if sets[p].oblig && rng.Intn(4) != 0 { // mostly respect the obligatory positions
			continue
		}
		if c, ok := pick(sets[p], false); ok {
			out[p] = c
			k--
		}
	}
	return out
}

// writes w on the circle / line at position i (mod L for circular; clipped for linear)
func c11Plant(t []byte, i int, w []byte, circ bool) {
	L := len(t)
	for p, c := range w {
		q := i + p
		if circ {
			q = ((q % L) + L) % L
		}
		if q >= 0 && q < L {
			t[q] = c
		}
	}
}

func (c11) Gen(rng *rand.Rand, tier string, emit func(string)) {
	if os.Getenv("C11_ONLY") == "glue" { // developer aid (timing / sweeps of the glue cases alone; other draws than in a full run)
		c11GenGlue(rng, tier, emit)
		return
	}
	c11Tier = tier
	S := func(s string) []byte { return []byte(s) }
	rep := func(s string, n int) string { return strings.Repeat(s, n) }
	// ---- corpus ---------------------------------------------------------------------------------
	base := c11Opt{fwd: "ACGTA", rev: "GGATC", ext: -1}
	// reverse primer GGATC: its complement on the top strand is GATCC
	lin := "ttacgtacccccgatccaa"
	corpus := []struct {
		o c11Opt
		t []string
	}{
		{base, []string{lin}},
		{base, []string{"acgtacccccgatcc"}},                                 // sites at both ends
		{base, []string{"acgtagatcc"}},                                      // touching primers
		{base, []string{"acgtacgatcc"}},                                     // gap 1
		{base, []string{"acgtatcc"}},                                        // overlapping
		{base, []string{"ggatcaaaatacgt", ""}},                              // reverse orientation, then an empty template
		{base, []string{""}},
		{base, []string{"acgta"}},
		{base, []string{lin + "ttt" + lin, "acgt", lin, "ggatcaaaatacgt"}}, // batch: long, short, ...
		{c11Opt{fwd: "ACGTA", rev: "GGATC", ext: -1, min: 5, max: 5}, []string{lin}},
		{c11Opt{fwd: "ACGTA", rev: "GGATC", ext: -1, min: 6}, []string{lin}},
		{c11Opt{fwd: "ACGTA", rev: "GGATC", ext: -1, max: 4}, []string{lin}},
		{c11Opt{fwd: "ACGTA", rev: "GGATC", ext: 0}, []string{lin}},
		{c11Opt{fwd: "ACGTA", rev: "GGATC", ext: 2}, []string{lin}},
		{c11Opt{fwd: "ACGTA", rev: "GGATC", ext: 3}, []string{lin}},
		{c11Opt{fwd: "ACGTA", rev: "GGATC", ext: 3, full: true}, []string{lin}},
		{c11Opt{fwd: "ACGTA", rev: "GGATC", ext: 2, full: true}, []string{lin}},
		{c11Opt{fwd: "ACGTA", rev: "GGATC", ext: 100}, []string{lin}},
		{c11Opt{fwd: "ACGTA", rev: "GGATC", ext: -1, ef: 1, er: 1}, []string{"ttacgaacccccgatgcaa", "ttaccaacccccgatgcaa"}},
		{c11Opt{fwd: "ACGTA", rev: "GGATC", ext: -1, ef: 2, er: 0}, []string{"ttaccaacccccgatccaa"}},
		{c11Opt{fwd: "ACNNRTA", rev: "GGWTC", ext: -1}, []string{"ttacgtataccccgaaccaa", "ttggttcgggtatacgtaa"}}, // IUPAC, different lengths
		{c11Opt{fwd: "ACGTA", rev: "GGATC", ext: -1}, []string{"ttACGTAcccccGATCCaa"}},                              // upper case
		{c11Opt{fwd: "ACGTA", rev: "GGATC", ext: -1}, []string{"ttacgtaccnccgatccaa", "ttacgnacccccgatccaa"}},   // ambiguous template symbols
		{c11Opt{fwd: "A#CGTA", rev: "GG[AT]TC", ext: -1, ef: 1, er: 1}, []string{lin}},                             // extended grammar (no oracle)
		{c11Opt{fwd: "AC", rev: "GT", ext: -1}, []string{"acacacacgtgtgt"}},                                       // many hits
		{c11Opt{fwd: "AAA", rev: "TTT", ext: 5}, []string{"aaaaaccaaaaa", "tttttggttttt"}},                          // palindromic pair: several forward hits clipped to 0
		// ---- deepening round ----
		// extended grammar, with oracle: obligatory position hit by a mismatch / not, class, negation (also of an ambiguity code in the template)
		{c11Opt{fwd: "A#CGTA", rev: "GG[AT]TC", ext: -1, ef: 1, er: 1}, []string{"ttccgtacccccgatccaa", "ttacgaacccccgaaccaa", "ttacgtacccccgagccaa"}},
		{c11Opt{fwd: "AC!GTA", rev: "GGA!T#C", ext: -1, ef: 1, er: 1}, []string{"ttacgtacccccgatccaa", "ttacntacccccgcaccaa", "ttggtgcgggggtantgaa"}},
		{c11Opt{fwd: "![AC]CG[TU]A#", rev: "!N#GATC", ext: 2, ef: 2, er: 2}, []string{"ttgcgtacccccgatcnaa", "ttacgtacccccgatccaa"}},
		// the reverse primer is the reverse complement of the forward primer: every site is a site of both blocks
		{c11Opt{fwd: "ACGTA", rev: "TACGT", ext: -1}, []string{"ttacgtacccccacgtaaa", "tttacgtgggggtacgtaa"}},
		// palindromic primers: each site is a direct and a complemented site of both orientations
		{c11Opt{fwd: "ACGT", rev: "ACGT", ext: -1}, []string{"ttacgtcccccacgtaaacgtt"}},
		{c11Opt{fwd: "ACGT", rev: "ACGT", ext: 1, ef: 1, er: 1}, []string{"ttacgtcccacgtaa"}},
		{c11Opt{fwd: "GAATTC", rev: "GGATCC", ext: -1, min: 3, max: 3}, []string{"gaattcaaaggatccaaagaattcaaggatcc"}},
		// forward and complemented-reverse sites overlapping each other / sharing symbols with the next pair
		{c11Opt{fwd: "ACGTA", rev: "GGTAC", ext: -1}, []string{"acgtaccacgtaccgtacc"}},
		{c11Opt{fwd: "ACA", rev: "TGT", ext: -1, max: 6}, []string{"acacacacacacaca"}},
		// many amplicons from one template in a batch of one (the result slice of _Pcr starts with capacity 10)
		{c11Opt{fwd: "AC", rev: "GT", ext: -1}, []string{rep("ac", 40) + rep("gt", 40)}},
		{c11Opt{fwd: "AC", rev: "GT", ext: 3, ef: 1, er: 1, min: 2, max: 30}, []string{rep("ac", 30) + rep("gt", 30), rep("acgt", 20)}},
		// amplicon length exactly min / max, one more, one less
		{c11Opt{fwd: "ACGTA", rev: "GGATC", ext: -1, min: 5, max: 5}, []string{"acgtaccccgatcc", "acgtacccccgatcc", "acgtaccccccgatcc"}},
		{c11Opt{fwd: "ACGTA", rev: "GGATC", ext: -1, min: 4, max: 6}, []string{"acgtacccgatcc", "acgtaccccgatcc", "acgtaccccccgatcc", "acgtacccccccgatcc"}},
		// negative bounds (what the command line cannot give but the API accepts)
		{c11Opt{fwd: "ACGTA", rev: "GGATC", ext: -1, min: -1, max: -1}, []string{lin}},
		{c11Opt{fwd: "ACGTA", rev: "GGATC", ext: -2, min: 0, max: 0}, []string{lin}},
		// templates shorter than a primer / as long as one / only one site fits
		{c11Opt{fwd: "ACGTACGT", rev: "GG", ext: -1, ef: 2}, []string{"acg", "acgtacgt", "acgtacgtcc", "cc", "c"}},
		// IUPAC / non-nucleotide symbols in the template, both strands, asymmetric budgets
		{c11Opt{fwd: "ACGTA", rev: "GGATC", ext: 1, ef: 2, er: 0}, []string{"ttacrtacccccgatccaa", "ttggatcgggggtaygtaa", "ttacgtaccc-ccgatccaa", "ttacgtaccxccgatccaa"}},
		{c11Opt{fwd: "ACGTA", rev: "GGATC", ext: 1, ef: 0, er: 2}, []string{"ttacgtacccccgayycaa", "ttggrtcgggggtacgtaa"}},
		{c11Opt{fwd: "ACGUA", rev: "GGAUC", ext: -1}, []string{"ttacguacccccgatccaa", "ttacgtacccccgauccaa"}}, // u in the primers and in the template
		// a circular window (sites + flanks) longer than the circle is returned modulo the length (open finding)
	}
	for _, c := range corpus {
		var tp [][]byte
		for _, s := range c.t {
			tp = append(tp, S(s))
		}
		emit(c11Line(c.o, tp))
	}
	// circular corpus (templates of >= 64 symbols)
	pad := rep("c", 60)
	circ := func(o c11Opt) c11Opt { o.circ = true; return o }
	f7, r5 := "ACGTAGG", "GGATC" // different lengths; complement of the reverse primer on the top strand: GATCC
	cc := []struct {
		o c11Opt
		t []string
	}{
		{circ(base), []string{"tt" + "acgta" + "ccccc" + "gatcc" + pad}},                                 // no wrap
		{circ(base), []string{"ccccc" + "gatcc" + pad + "acgta"}},                                        // amplicon across the origin
		{circ(base), []string{"gta" + "ccccc" + "gatcc" + pad + "ac"}},                                   // forward site across the origin
		{circ(base), []string{"cc" + pad + "acgta" + "ccccc" + "gat"}},                                   // reverse site across the origin
		{circ(base), []string{"ggatc" + "aaaaa" + "tacgt" + pad}},                                        // reverse orientation
		{circ(base), []string{"aaaaa" + "tacgt" + pad + "ggatc"}},                                        // reverse orientation across the origin
		{circ(c11Opt{fwd: f7, rev: r5, ext: -1}), []string{"aaaaa" + "cctacgt" + pad + "ggatc"}},        // D16: reverse block, different primer lengths, wrap
		{circ(c11Opt{fwd: f7, rev: r5, ext: -1, min: 5, max: 5}), []string{"aaaaa" + "cctacgt" + pad + "ggatc"}},
		{circ(c11Opt{fwd: r5, rev: f7, ext: -1, min: 5, max: 5}), []string{"aaaaa" + "gatcc" + pad + "cctacgt", "ccccc" + "cctacgt" + pad + "gatcc"}},
		{circ(c11Opt{fwd: f7, rev: r5, ext: -1}), []string{"cctacgt" + pad + "ggatc" + "a"}},             // wrap gap 1
		{circ(c11Opt{fwd: f7, rev: r5, ext: -1}), []string{"cctacgt" + pad + "ggatc"}},                   // touching across the origin
		{circ(c11Opt{fwd: "ACGTA", rev: "GGATC", ext: 3}), []string{"tt" + "acgta" + "ccccc" + "gatcc" + pad}},   // extension reaching before the origin
		{circ(c11Opt{fwd: "ACGTA", rev: "GGATC", ext: 2}), []string{"tt" + "acgta" + "ccccc" + "gatcc" + pad}},
		{circ(c11Opt{fwd: "ACGTA", rev: "GGATC", ext: 3}), []string{pad + "acgta" + "ccccc" + "gatcc" + "tt"}},   // extension reaching past the end
		{circ(c11Opt{fwd: "ACGTA", rev: "GGATC", ext: 0}), []string{"gta" + "ccccc" + "gatcc" + pad + "ac"}},
		// the two sites overlap "behind" (amplicon + primers longer than the circle)
		{circ(c11Opt{fwd: "ACGTACGTAC", rev: "GTACGTTTTT", ext: -1}), []string{"cgtac" + rep("g", 54) + "aaaaa" + "acgta"}},
		{circ(c11Opt{fwd: "ACGTACGTAC", rev: "GTACGTTTTT", ext: -1}), []string{"tac" + rep("g", 54) + "aaaaa" + "acgta" + "cg"}},
		{circ(base), []string{"ccccc" + "gatcc" + "acgta"}},                                              // circular template shorter than 64
		{circ(base), []string{"ta" + "ccccc" + "gatcc" + rep("c", 30) + "acg"}},
		// ---- deepening round ----
		// window (sites + flanks) longer than the circle: 5 + 5 + 5 + 2 x 30 = 75 > 70 ; exactly the circle ; one more
		{circ(c11Opt{fwd: "ACGTA", rev: "GGATC", ext: 30}), []string{"tt" + "acgta" + "ccccc" + "gatcc" + rep("c", 53)}},
		{circ(c11Opt{fwd: "ACGTA", rev: "GGATC", ext: 30, full: true}), []string{"tt" + "acgta" + "ccccc" + "gatcc" + rep("c", 58)}},
		{circ(c11Opt{fwd: "ACGTA", rev: "GGATC", ext: 30}), []string{"tt" + "acgta" + "ccccc" + "gatcc" + rep("c", 57), "tt" + "ggatc" + "aaaaa" + "tacgt" + rep("a", 57)}},
		{circ(c11Opt{fwd: "ACG", rev: "GGA", ext: 2}), []string{"gttccaatac"}}, // the example of Props/C11.lean (primers fit: compared)
		{circ(c11Opt{fwd: "ACG", rev: "GGA", ext: 1}), []string{"gttccaatac"}},
		// extended grammar on the circle, site across the origin
		{circ(c11Opt{fwd: "A#CG!AA", rev: "GG[AT]TC", ext: -1, ef: 1, er: 1}), []string{"gta" + "ccccc" + "gatcc" + pad + "ac", "gaa" + "ccccc" + "gaacc" + pad + "ac"}},
		// palindromic primers on the circle
		{circ(c11Opt{fwd: "ACGT", rev: "ACGT", ext: -1}), []string{"gt" + rep("c", 30) + "acgt" + rep("a", 30) + "ac"}},
		// circle exactly covered by the product: sites touching "behind"
		{circ(c11Opt{fwd: "ACGTA", rev: "GGATC", ext: -1}), []string{"acgta" + rep("c", 54) + "gatcc"}},
		{circ(c11Opt{fwd: "ACGTA", rev: "GGATC", ext: 0}), []string{"acgta" + rep("c", 54) + "gatcc", "cgta" + rep("c", 54) + "gatcc" + "a"}},
	}
	// ---- third pass: circles shorter than MAX_PAT_LEN (compared since fix c69892e) --------------------------------------
	cc = append(cc, []struct {
		o c11Opt
		t []string
	}{
		// a primer longer than the circle never yields an amplicon (pcr_circular_unfit) — though the matcher does report
		// sites of it (the buffer holds the circle twice)
		{circ(c11Opt{fwd: "ACGTACG", rev: "GGA", ext: -1}), []string{"acgt", "acgtcc", "tccacg"}},
		{circ(c11Opt{fwd: "AC", rev: "AACGTAA", ext: -1}), []string{"acgtt", "ttacg"}},
		{circ(c11Opt{fwd: "ACGTACGTACG", rev: "TT", ext: 2, ef: 1}), []string{"acgtaa", "a", "aa"}},
		{circ(c11Opt{fwd: "A", rev: "A", ext: -1}), []string{"a", "at", "ata", "t"}},
		{circ(c11Opt{fwd: "A", rev: "A", ext: 1, ef: 1, er: 1}), []string{"a", "at", "ata", "ccc"}},
		// the product covers the short circle exactly / one symbol is left / the sites would overlap behind
		{circ(base), []string{"acgta" + "c" + "gatcc", "acgta" + "cc" + "gatcc" + "t", "acgta" + "c" + "gatc"}},
		{circ(c11Opt{fwd: "ACGTA", rev: "GGATC", ext: 1}), []string{"acgta" + "c" + "gatcc", "gta" + "cc" + "gatcc" + "tac"}},
		{circ(c11Opt{fwd: "ACGTA", rev: "GGATC", ext: 0, min: 1, max: 2}), []string{"ta" + "cc" + "gatcc" + "ttttt" + "acg", "tcc" + "ttttt" + "acgta" + "c" + "ga"}},
		// a circle of exactly 63 / 64 / 65 symbols, site across the origin
		{circ(base), []string{"gta" + "ccccc" + "gatcc" + rep("c", 48) + "ac", "gta" + "ccccc" + "gatcc" + rep("c", 49) + "ac", "gta" + "ccccc" + "gatcc" + rep("c", 50) + "ac"}},
		// several occurrences: two forward sites before one reverse site (both pairs), max length keeping the nearest only
		{c11Opt{fwd: "ACGTA", rev: "GGATC", ext: -1}, []string{"tt" + "acgta" + "ccc" + "acgta" + "ccccc" + "gatcc" + "aa"}},
		{c11Opt{fwd: "ACGTA", rev: "GGATC", ext: -1, max: 5}, []string{"tt" + "acgta" + "ccc" + "acgta" + "ccccc" + "gatcc" + "aa"}},
		{c11Opt{fwd: "ACGTA", rev: "GGATC", ext: -1, min: 6}, []string{"tt" + "acgta" + "ccc" + "acgta" + "ccccc" + "gatcc" + "aa"}},
		// nested F F R R (four pairs), interleaved F R F R (three pairs)
		{c11Opt{fwd: "ACGTA", rev: "GGATC", ext: 1}, []string{"t" + "acgta" + "c" + "acgta" + "cc" + "gatcc" + "c" + "gatcc" + "a", "t" + "acgta" + "c" + "gatcc" + "cc" + "acgta" + "c" + "gatcc" + "a"}},
		// budgets as large as the primers: every offset is a site
		{c11Opt{fwd: "ACG", rev: "GGA", ext: -1, ef: 3, er: 3, max: 2}, []string{"acgtacgt", "nnnnnnn"}},
		{c11Opt{fwd: "A#CG", rev: "G!GA", ext: 1, ef: 3, er: 2, max: 2}, []string{"acgtaagt", "ACGTRYNN"}},
		// template over every IUPAC code, both cases; primers with classes, negation, obligatory position
		{c11Opt{fwd: "[AG]C!GT#", rev: "GG[ACT]", ext: 2, ef: 1, er: 1}, []string{"rYmKswBdhVnACGTacgtRCATccaaTCCnn", "nnGGAttggATGYacgtACGTNbHdvWSmKrY"}},
	}...)
	for _, c := range cc {
		var tp [][]byte
		for _, s := range c.t {
			tp = append(tp, S(s))
		}
		emit(c11Line(c.o, tp))
	}
	// fragments: generic IFragments parameters with an overlap that covers every product …
	for k := 0; k < 6; k++ {
		emit(c11FragLine(rng, "ACGTAAC", "GGATC", 0, 0, 10, -1, false, 100, 50, 10+7+5, k))
	}
	// … and obipcr --fragmented itself: products of maximal length starting just before a fragment ends
	// (the overlap used to be max length + longer primer + half of the shorter one: they were lost)
	emit(c11CliLine(rng, "ACGTAAC", "GGATC", 0, 0, 4, -1, false, true))
	emit(c11CliLine(rng, "ACGTAAC", "GGATCTT", 0, 0, 3, -1, false, true))
	emit(c11CliLine(rng, "ACGTAAC", "GGATC", 0, 0, 3, 4, true, true))
	emit(c11CliLine(rng, "ACGTAAC", "GGATC", 0, 0, 3, 4, false, true))
	// extended grammar: the overlap is computed from the lengths of the primer strings
	emit(c11CliLine(rng, "A#CGT[AT]AC", "GG!CTC", 1, 0, 3, -1, false, true))
	// the options of the command as CLIPCR passes them on (not fragmented): -l <= 0, --delta < 0, --only-complete-flanking, --circular
	for _, c := range []struct {
		mn, mx, delta int
		full, circ    bool
	}{{0, 10, -1, false, false}, {-3, 10, -1, false, false}, {5, 5, -1, false, false}, {6, 10, -1, false, false}, {0, 4, -1, false, false},
		{0, 10, 0, false, false}, {0, 10, 3, false, false}, {0, 10, 3, true, false}, {0, 10, 2, true, false}, {0, 10, -5, true, false},
		{0, 10, -1, false, true}, {0, 10, 3, false, true}, {0, 10, 3, true, true}} {
		t := "tt" + "acgta" + "ccccc" + "gatcc" + "aa"
		if c.circ {
			t = "gta" + "ccccc" + "gatcc" + rep("c", 60) + "ac"
		}
		emit(c11CliShort("ACGTA", "GGATC", 0, c.mn, c.mx, c.delta, c.full, c.circ, S(t)))
	}
	// --fragmented --circular: every linear piece is searched as a circle (proposed finding)
	emit(c11CliLineX(rng, "ACGTAAC", "GGATC", 0, 0, 4, -1, false, true, true))

	// ---- random ----------------------------------------------------------------------------------
	n := 2500
	if tier == "thorough" {
		n = 4400
	}
	for it := 0; it < n; it++ {
		var o c11Opt
		o.circ = rng.Intn(100) < 40
		fl := 2 + rng.Intn(9)
		rl := 2 + rng.Intn(9)
		if rng.Intn(10) == 0 {
			fl, rl = 12+rng.Intn(20), 12+rng.Intn(20)
		}
		if rng.Intn(4) == 0 {
			rl = fl
		}
		amb := []int{0, 0, 15, 40}[rng.Intn(4)]
		o.fwd = c11RandPrimer(rng, fl, amb)
		o.rev = c11RandPrimer(rng, rl, amb)
		if rng.Intn(5) == 0 { // extended grammar: classes, negations, obligatory positions
			o.fwd = c11RandPrimerExt(rng, min(fl, 12))
			if rng.Intn(2) == 0 {
				o.rev = c11RandPrimerExt(rng, min(rl, 12))
			}
		}
		if rng.Intn(12) == 0 {
			o.fwd = strings.ToLower(o.fwd)
		}
		o.ef = []int{0, 0, 1, 1, 2}[rng.Intn(5)]
		o.er = o.ef
		if rng.Intn(4) == 0 {
			o.er = rng.Intn(3)
		}
		// error budgets up to the number of positions of the primer (every offset is then a site unless a position is
		// obligatory): short templates, small maximal length (set below)
		bigBudget := rng.Intn(20) == 0
		if bigBudget {
			stat("gen:budget-up-to-length")
			fl, rl = min(fl, 6), min(rl, 6)
			o.fwd, o.rev = c11RandPrimer(rng, fl, amb), c11RandPrimer(rng, rl, amb)
			if rng.Intn(2) == 0 {
				o.fwd = c11RandPrimerExt(rng, fl)
			}
			o.ef = fl - rng.Intn(3)
			o.er = rl - rng.Intn(3)
			if rng.Intn(3) == 0 {
				o.er = rng.Intn(2)
			}
		}
		if rng.Intn(25) == 0 { // the reverse primer is the reverse complement of the forward primer / a palindromic pair
			if b, ok := c11Rc([]byte(strings.ToLower(o.fwd))); ok {
				o.rev = strings.ToUpper(string(b))
				if rng.Intn(2) == 0 && len(o.fwd) >= 2 {
					h := o.fwd[:len(o.fwd)/2]
					hb, _ := c11Rc([]byte(strings.ToLower(h)))
					o.fwd = strings.ToUpper(h + string(hb))
					o.rev = o.fwd
				}
			}
		}
		F, _ := c11Primer(o.fwd)
		R, _ := c11Primer(o.rev)
		rcF, rcR := c11RcSets(F), c11RcSets(R)
		nt := 1
		if rng.Intn(3) == 0 {
			nt = 2 + rng.Intn(4)
		}
		var tpls [][]byte
		var gaps []int
		for k := 0; k < nt; k++ {
			L := rng.Intn(120)
			if rng.Intn(8) == 0 {
				L = rng.Intn(12)
			}
			if o.circ {
				L = 64 + rng.Intn(80)
				if rng.Intn(40) == 0 {
					L = 20 + rng.Intn(44)
				}
				if rng.Intn(8) == 0 { // circles shorter than MAX_PAT_LEN, down to one symbol: primers that fit and primers that do not
					L = 1 + rng.Intn(63)
					if rng.Intn(3) == 0 {
						L = max(1, min(fl, rl)-1+rng.Intn(4))
					}
					stat("gen:short-circle")
				}
			}
			if bigBudget || len(F) <= o.ef || len(R) <= o.er { // every offset is a site: L x L pairs, keep the template short
				L = min(L, 12+rng.Intn(20))
				if o.circ {
					L = 64 + rng.Intn(8)
					if rng.Intn(3) == 0 {
						L = 1 + rng.Intn(40)
					}
				}
			}
			alpha := "acgt"
			switch rng.Intn(14) {
			case 0:
				alpha = "acgtn"
			case 1:
				alpha = "acgtryACGT"
			case 2:
				alpha = "ac"
			case 3:
				alpha = "acgtacgtacgtrymkswbdhvn" // every IUPAC code
				stat("gen:iupac-template")
			case 4:
				alpha = "acgtACGTacgtACGTrymkswbdhvnRYMKSWBDHVN" // … in both cases
				stat("gen:mixed-case-template")
			}
			t := c11RandSeq(rng, L, alpha)
			sites := rng.Intn(4)
			for s := 0; s < sites && L > 0; s++ {
				D, C, ed, ec := F, rcR, o.ef, o.er
				if rng.Intn(2) == 0 {
					D, C, ed, ec = R, rcF, o.er, o.ef
				}
				dl, cl := len(D), len(C)
				var i, gap int
				switch rng.Intn(10) {
				case 0:
					gap = 0
				case 1:
					gap = 1
				case 2:
					gap = -1 - rng.Intn(3)
				default:
					gap = 1 + rng.Intn(25)
				}
				if o.circ && rng.Intn(6) == 0 { // nearly the whole circle: sites close to / overlapping each other behind
					gap = L - dl - cl - 2 + rng.Intn(5)
				}
				span := dl + gap + cl
				switch rng.Intn(6) {
				case 0:
					i = 0
				case 1:
					i = L - span
				default:
					i = rng.Intn(L)
					if !o.circ && L-span > 0 {
						i = rng.Intn(L - span + 1)
					}
				}
				if o.circ && rng.Intn(3) == 0 { // wrap somewhere inside the product
					i = L - rng.Intn(max(span, 1)) - 1
				}
				kd := rng.Intn(ed + 2)
				kc := rng.Intn(ec + 2)
				if rng.Intn(2) == 0 {
					kd, kc = rng.Intn(ed+1), rng.Intn(ec+1)
				}
				c11Plant(t, i, c11Instance(rng, D, kd), o.circ)
				c11Plant(t, i+dl+gap, c11Instance(rng, C, kc), o.circ)
				gaps = append(gaps, gap)
			}
			tpls = append(tpls, t)
		}
		g := 5
		if len(gaps) > 0 {
			g = gaps[rng.Intn(len(gaps))]
		}
		switch rng.Intn(6) {
		case 0:
			o.min, o.max = 0, 0
		case 1:
			o.min, o.max = g, g
		case 2:
			o.min, o.max = g+1, 0
		case 3:
			o.min, o.max = 0, g-1
		case 4:
			o.min, o.max = 0, g+rng.Intn(10)
		default:
			o.min, o.max = rng.Intn(8), 10+rng.Intn(40)
		}
		if o.min < 0 {
			o.min = 0
		}
		if o.max < 0 {
			o.max = 0
		}
		o.ext = []int{-1, -1, -1, 0, 1, 2, 3, 5, 10, 30}[rng.Intn(10)]
		o.full = rng.Intn(3) == 0
		if bigBudget {
			o.max = 1 + rng.Intn(6)
			o.min = rng.Intn(3)
			if o.ext > 3 {
				o.ext = 3
			}
		}
		emit(c11Line(o, tpls))
	}
	// several occurrences of the primers: which pairs are reported?  Two forward sites before one reverse site, one forward
	// site before two reverse sites, nested (F F R R), interleaved (F R F R), sites up to 300 symbols apart (the search
	// window of the second primer is computed once for all direct hits), in either orientation, max length chosen below /
	// between / above the distances; a few circular
	nm := 160
	if tier == "thorough" {
		nm = 300
	}
	for k := 0; k < nm; k++ {
		var o c11Opt
		fl, rl := 4+rng.Intn(6), 4+rng.Intn(6)
		o.fwd, o.rev = c11RandPrimer(rng, fl, 0), c11RandPrimer(rng, rl, 0)
		if rng.Intn(6) == 0 {
			o.fwd = c11RandPrimerExt(rng, fl)
		}
		F, _ := c11Primer(o.fwd)
		R, _ := c11Primer(o.rev)
		fl, rl = len(F), len(R)
		o.ef, o.er = rng.Intn(2), rng.Intn(2)
		o.ext = []int{-1, -1, 0, 2, 7}[rng.Intn(5)]
		o.full = rng.Intn(4) == 0
		o.circ = rng.Intn(6) == 0
		D, C := F, c11RcSets(R)
		if rng.Intn(2) == 0 {
			D, C = R, c11RcSets(F)
		}
		layout := rng.Intn(5)
		far := rng.Intn(3) == 0
		if far && (fl < 7 || rl < 7) { // long templates: primers specific enough to keep the number of chance pairs small
			fl, rl = 7+rng.Intn(3), 7+rng.Intn(3)
			o.fwd, o.rev = c11RandPrimer(rng, fl, 0), c11RandPrimer(rng, rl, 0)
			F, _ = c11Primer(o.fwd)
			R, _ = c11Primer(o.rev)
			D, C = F, c11RcSets(R)
			if rng.Intn(2) == 0 {
				D, C = R, c11RcSets(F)
			}
		}
		gapOf := func() int {
			if far {
				return 70 + rng.Intn(230)
			}
			return 1 + rng.Intn(30)
		}
		// kinds: 0 = direct site, 1 = complemented site
		var kinds []int
		switch layout {
		case 0:
			kinds = []int{0, 0, 1}
		case 1:
			kinds = []int{0, 1, 1}
		case 2:
			kinds = []int{0, 0, 1, 1}
		case 3:
			kinds = []int{0, 1, 0, 1}
		default:
			kinds = []int{0, 0, 0, 1, 1}
		}
		stat(fmt.Sprintf("gen:multi-layout-%d", layout))
		pos := 1 + rng.Intn(10)
		var starts, dists []int
		for _, kd := range kinds {
			starts = append(starts, pos)
			if kd == 0 {
				pos += len(D)
			} else {
				pos += len(C)
			}
			pos += gapOf()
		}
		L := pos + rng.Intn(10)
		if o.circ {
			L = max(L, 64)
		}
		t := c11RandSeq(rng, L, "acgt")
		for q, kd := range kinds {
			if kd == 0 {
				c11Plant(t, starts[q], c11Instance(rng, D, rng.Intn(o.ef+1)*rng.Intn(2)), false)
			} else {
				c11Plant(t, starts[q], c11Instance(rng, C, 0), false)
			}
		}
		for q, kd := range kinds { // distances direct site -> complemented site downstream
			if kd != 0 {
				continue
			}
			for r := q + 1; r < len(kinds); r++ {
				if kinds[r] == 1 {
					dists = append(dists, starts[r]-starts[q]-len(D))
				}
			}
		}
		sort.Ints(dists)
		switch rng.Intn(5) {
		case 0:
			o.max = 0
		case 1:
			o.max = dists[len(dists)-1] // all pairs
		case 2:
			o.max = dists[0] // nearest pair only
		case 3:
			o.max = dists[rng.Intn(len(dists))] - rng.Intn(2)
		default:
			o.max = max(dists[0]-1, 1) // none of the planted pairs
		}
		if rng.Intn(4) == 0 {
			o.min = dists[rng.Intn(len(dists))] + rng.Intn(2)
		}
		tpls := [][]byte{t}
		if rng.Intn(3) == 0 { // the other strand in the same batch
			if rc, ok := c11Rc(t); ok {
				tpls = append(tpls, rc)
			}
		}
		emit(c11Line(o, tpls))
	}
	// the search window of the second primer: `last direct hit end - first direct hit start + max length + reverse.Len()`
	// (+ MAX_PAT_LEN inside FindAllIndex) — primers of unequal length, the complemented site of the LAST direct hit as far
	// as the maximal length allows (gap in max-|lf-lr| .. max), in either orientation, linear templates
	nw := 150
	if tier == "thorough" {
		nw = 300
	}
	for k := 0; k < nw; k++ {
		var o c11Opt
		fl, rl := 2+rng.Intn(8), 2+rng.Intn(8)
		switch rng.Intn(4) {
		case 0, 1:
			fl = rl + 1 + rng.Intn(24)
		case 2:
			rl = fl + 1 + rng.Intn(24)
		}
		o.fwd, o.rev = c11RandPrimer(rng, fl, 0), c11RandPrimer(rng, rl, 0)
		o.ef = rng.Intn(2)
		o.er = rng.Intn(2)
		o.ext = []int{-1, -1, 0, 2, 40}[rng.Intn(5)]
		o.full = rng.Intn(4) == 0
		F, _ := c11Primer(o.fwd)
		R, _ := c11Primer(o.rev)
		g := 1 + rng.Intn(30)
		d := fl - rl
		if d < 0 {
			d = -d
		}
		o.max = g + rng.Intn(d+2)
		if rng.Intn(8) == 0 {
			o.max = max(g-1, 1)
		}
		if rng.Intn(3) == 0 {
			o.min = g - rng.Intn(2)
		}
		nt := 1 + rng.Intn(2)
		var tpls [][]byte
		for q := 0; q < nt; q++ {
			D, C := F, c11RcSets(R)
			if rng.Intn(3) != 0 {
				D, C = R, c11RcSets(F)
			}
			span := len(D) + g + len(C)
			L := span + rng.Intn(120)
			t := c11RandSeq(rng, L, "acgt")
			if rng.Intn(2) == 0 { // an earlier direct hit: the window starts there
				c11Plant(t, rng.Intn(max(L-span, 1)), c11Instance(rng, D, 0), false)
			}
			i := L - span - rng.Intn(min(L-span+1, 4))
			c11Plant(t, i, c11Instance(rng, D, rng.Intn(2)), false)
			c11Plant(t, i+len(D)+g, c11Instance(rng, C, rng.Intn(2)), false)
			tpls = append(tpls, t)
		}
		emit(c11Line(o, tpls))
	}
	nf := 6
	if tier == "thorough" {
		nf = 24
	}
	for k := 0; k < nf; k++ {
		fl, rl := 4+rng.Intn(6), 4+rng.Intn(6)
		fw, rv := c11RandPrimer(rng, fl, 0), c11RandPrimer(rng, rl, 0)
		mx := 5 + rng.Intn(20)
		length := 3*(mx+fl+rl) + rng.Intn(40)
		overlap := mx + fl + rl
		ext := []int{-1, -1, 0, 3}[rng.Intn(4)]
		if ext > 0 {
			overlap += 2 * ext
		}
		emit(c11FragLine(rng, fw, rv, rng.Intn(2), 0, mx, ext, rng.Intn(2) == 0, 2*length, length, overlap, -1))
	}
	// flanks against the ends of the pieces (patch C11-fragment-inner-ends): products planted within `ext` symbols of the start
	// of a piece / of the end of a piece / of the two ends of the template, flanks that may be clipped or must be complete
	nfc := 14
	if tier == "thorough" {
		nfc = 40
	}
	for k := 0; k < nfc; k++ {
		fl, rl := 4+rng.Intn(5), 4+rng.Intn(5)
		emit(c11FragClipLine(rng, c11RandPrimer(rng, fl, 0), c11RandPrimer(rng, rl, 0), rng.Intn(2), 4+rng.Intn(12), 1+rng.Intn(6), rng.Intn(4) == 0))
	}
	// the C structure recycled from one template to the next: chains long / short / empty / around 64 symbols
	emit("seqbuf 1 " + hx(S(rep("acgt", 20))) + "," + hx(S("acg")) + ",-," + hx(S(rep("t", 64))) + "," + hx(S(rep("g", 63))) + "," + hx(S(rep("ac", 50))))
	emit("seqbuf 0 " + hx(S(rep("acgt", 20))) + "," + hx(S("ACGn-")) + ",-," + hx(S(rep("t", 80))) + "," + hx(S(rep("g", 80))))
	nsb := 40
	if tier == "thorough" {
		nsb = 150
	}
	for k := 0; k < nsb; k++ {
		n := 2 + rng.Intn(5)
		hs := make([]string, n)
		for q := range hs {
			L := []int{0, 1, 5, 30, 63, 64, 65, 100, 150}[rng.Intn(9)] + rng.Intn(3)
			hs[q] = hx(c11RandSeq(rng, L, "acgtnACGT-"))
		}
		emit(fmt.Sprintf("seqbuf %d %s", rng.Intn(2), strings.Join(hs, ",")))
	}
	nc := 3
	if tier == "thorough" {
		nc = 6
	}
	for k := 0; k < nc; k++ {
		fl, rl := 6+rng.Intn(4), 6+rng.Intn(4)
		emit(c11CliLine(rng, c11RandPrimer(rng, fl, 0), c11RandPrimer(rng, rl, 0), rng.Intn(2), 0, 2+rng.Intn(3),
			[]int{-1, -1, 0, 2}[rng.Intn(4)], rng.Intn(2) == 0, rng.Intn(2) == 0))
	}
	// the command without --fragmented on short templates: option mapping of CLIPCR, linear and circular
	ns := 60
	if tier == "thorough" {
		ns = 150
	}
	for k := 0; k < ns; k++ {
		fl, rl := 3+rng.Intn(5), 3+rng.Intn(5)
		fw, rv := c11RandPrimer(rng, fl, 10), c11RandPrimer(rng, rl, 10)
		if rng.Intn(6) == 0 {
			fw = c11RandPrimerExt(rng, fl)
		}
		F, _ := c11Primer(fw)
		R, _ := c11Primer(rv)
		circ := rng.Intn(3) == 0
		L := 30 + rng.Intn(90)
		if circ {
			L = 64 + rng.Intn(60)
		}
		t := c11RandSeq(rng, L, "acgt")
		e := rng.Intn(2)
		gap := 1 + rng.Intn(12)
		for q := 0; q < 2; q++ {
			D, C := F, c11RcSets(R)
			if rng.Intn(2) == 0 {
				D, C = R, c11RcSets(F)
			}
			i := rng.Intn(L)
			if !circ {
				i = rng.Intn(max(L-len(D)-gap-len(C), 1))
			}
			c11Plant(t, i, c11Instance(rng, D, rng.Intn(e+1)), circ)
			c11Plant(t, i+len(D)+gap, c11Instance(rng, C, rng.Intn(e+1)), circ)
		}
		mn := []int{-2, 0, 0, gap, gap + 1, 1}[rng.Intn(6)]
		mx := []int{gap, gap, gap + 5, max(gap-1, 1), 40}[rng.Intn(5)]
		delta := []int{-1, -1, -3, 0, 1, 4, 20}[rng.Intn(7)]
		emit(c11CliShort(fw, rv, e, mn, mx, delta, rng.Intn(2) == 0, circ, t))
	}
	if tier == "thorough" {
		emit(c11CliLineX(rng, c11RandPrimer(rng, 7, 0), c11RandPrimer(rng, 6, 0), 0, 0, 3, -1, false, true, true))
	}
	// the worker closure / the whole command under concurrent use (harness/c11_conc.go) — LAST: the cases above keep their draws
	c11GenConc(rng, tier, emit)
	// the command line of obipcr down to the amplicons (harness/c11_glue.go) — after everything else: the cases above keep their draws
	c11GenGlue(rng, tier, emit)
}

// obipcr without --fragmented on one (short) template
func c11CliShort(fw, rv string, e, mn, mx, delta int, full, circ bool, t []byte) string {
	b := func(x bool) int {
		if x {
			return 1
		}
		return 0
	}
	return fmt.Sprintf("cli %s %s %d %d %d %d %d %d 0 %s", hx([]byte(fw)), hx([]byte(rv)), e, mn, mx, delta, b(full), b(circ), hx(t))
}

// c11CliLine with --circular: plus a product across the origin of the template (an amplicon of the circle that no piece
// contains) and a forward site at the end of the first piece facing a reverse site at its start (an amplicon of the piece
// read as a circle, not of the template)
func c11CliLineX(rng *rand.Rand, fw, rv string, e, mn, mx, delta int, full bool, atEnds bool, circ bool) string {
	f := strings.Fields(c11CliLine(rng, fw, rv, e, mn, mx, delta, full, atEnds))
	c := "0"
	if circ {
		c = "1"
	}
	t, _ := unhx(f[8])
	F, _ := c11Primer(fw)
	R, _ := c11Primer(rv)
	rcR := c11RcSets(R)
	L := len(t)
	c11Plant(t, L-len(F)-1, c11Instance(rng, F, 0), false)
	c11Plant(t, 1, c11Instance(rng, rcR, 0), false)
	c11Plant(t, mx*100-len(F)-1, c11Instance(rng, F, 0), false)
	return strings.Join(append(append(f[:8:8], c, "1"), hx(t)), " ")
}

// a template longer than 1000 x max length; products planted around the ends of the fragments obipcr cuts
func c11CliLine(rng *rand.Rand, fw, rv string, e, mn, mx, delta int, full bool, atEnds bool) string {
	F, _ := c11Primer(fw)
	R, _ := c11Primer(rv)
	rcR := c11RcSets(R)
	rcF := c11RcSets(F)
	length := mx * 100
	stepOld := length - (mx + max(len(fw), len(rv)) + min(len(fw), len(rv))/2)
	L := mx*1000 + 1 + rng.Intn(3*length)
	t := c11RandSeq(rng, L, "acgt")
	for k := 1; k*stepOld+length < L && k < 12; k++ {
		D, C := F, rcR
		if k%4 == 3 {
			D, C = R, rcF
		}
		gap := mx
		i := rng.Intn(L - 100)
		if atEnds {
			i = k*stepOld - 1 - k%3
		} else {
			gap = 1 + rng.Intn(mx)
		}
		c11Plant(t, i, c11Instance(rng, D, 0), false)
		c11Plant(t, i+len(D)+gap, c11Instance(rng, C, 0), false)
	}
	b := 0
	if full {
		b = 1
	}
	return fmt.Sprintf("cli %s %s %d %d %d %d %d %s", hx([]byte(fw)), hx([]byte(rv)), e, mn, mx, delta, b, hx(t))
}

// a long template with amplicons of maximal length planted at every offset class of the fragmentation
func c11FragLine(rng *rand.Rand, fw, rv string, e, mn, mx, ext int, full bool, minsize, length, overlap, shift int) string {
	F, _ := c11Primer(fw)
	R, _ := c11Primer(rv)
	rcR := c11RcSets(R)
	step := length - overlap
	L := minsize + 1 + 4*step + rng.Intn(step)
	t := c11RandSeq(rng, L, "acgt")
	span := len(F) + mx + len(R)
	nsite := 3
	for s := 0; s < nsite; s++ {
		i := rng.Intn(L - span)
		if shift >= 0 { // product starting `shift` symbols before the end of the first step
			i = (s+1)*step - 1 - shift
		}
		gap := mx
		if shift < 0 && rng.Intn(2) == 0 {
			gap = 1 + rng.Intn(mx)
		}
		if i < 0 || i+len(F)+gap+len(R) > L {
			continue
		}
		c11Plant(t, i, c11Instance(rng, F, 0), false)
		c11Plant(t, i+len(F)+gap, c11Instance(rng, rcR, 0), false)
	}
	b := 0
	if full {
		b = 1
	}
	return fmt.Sprintf("frag %s %s %d %d %d %d %d %d %d %d %s", hx([]byte(fw)), hx([]byte(rv)), e, mn, mx, ext, b, minsize, length, overlap, hx(t))
}

// pieces of generic IFragments parameters whose overlap covers every product with its flanks; products planted so that a
// flank reaches beyond the start / the end of a piece, and at the two ends of the template (where clipping is right)
func c11FragClipLine(rng *rand.Rand, fw, rv string, e, mx, ext int, full bool) string {
	F, _ := c11Primer(fw)
	R, _ := c11Primer(rv)
	rcR, rcF := c11RcSets(R), c11RcSets(F)
	fl, rl := len(F), len(R)
	overlap := mx + fl + rl + 2*ext
	length := 3*overlap + rng.Intn(30)
	step := length - overlap
	minsize := 2 * length
	L := minsize + 1 + 3*step + rng.Intn(step)
	t := c11RandSeq(rng, L, "acgt")
	plant := func(i, gap int, rev bool) {
		D, C := F, rcR
		if rev {
			D, C = R, rcF
		}
		if i < 0 || i+len(D)+gap+len(C) > L {
			return
		}
		c11Plant(t, i, c11Instance(rng, D, 0), false)
		c11Plant(t, i+len(D)+gap, c11Instance(rng, C, 0), false)
	}
	for k := 1; k <= 3; k++ {
		gap := 1 + rng.Intn(mx)
		rev := rng.Intn(3) == 0
		if rng.Intn(2) == 0 { // the left flank reaches before the start of piece k
			plant(k*step+rng.Intn(ext+1), gap, rev)
		} else { // the right flank reaches beyond the end of piece k-1
			end := (k-1)*step + length - rng.Intn(ext+1)
			plant(end-rl-gap-fl, gap, rev)
		}
	}
	plant(rng.Intn(ext+1), 1+rng.Intn(mx), false)         // left flank clipped by the start of the template
	plant(L-rng.Intn(ext+1)-fl-rl-mx, mx, rng.Intn(2) == 0) // right flank clipped by its end
	b := 0
	if full {
		b = 1
	}
	return fmt.Sprintf("frag %s %s %d %d %d %d %d %d %d %d %s", hx([]byte(fw)), hx([]byte(rv)), e, 0, mx, ext, b, minsize, length, overlap, hx(t))
}
