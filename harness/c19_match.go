//go:build c19

package main

// kmc — obikmermatch under concurrent use (short glue pass after seeded change C07-m6: MakeKmerAlignWorker reverse-
// complementing the shared reference IN PLACE around BuildQualityConsensus; sequentially exact, wrong as soon as two
// workers handle reads of the same reference at the same time).
//
// What obikmermatch runs at the same time, and what is shared (cmd/obitools/obikmermatch, pkg/obitools/obikmersim):
// CLIAlignSequences builds ONE KmerMap[Uint128] from the references and ONE closure MakeKmerAlignWorker(...), handed to
// MakeIWorker x CLIParallelWorkers() (= --max-cpu): every worker goroutine calls the same closure on the reads of its
// batch.  Shared: the KmerMap (read only) and THE REFERENCE RECORDS it points to (KmerMatch.Sequences() returns the
// stored pointers: ReadAlign / FastShiftFourMer / BuildQualityConsensus read their bytes without lock).  Per call:
// the arena (MakePEAlignArena), the shift map, the KmerMatch, the reverse complement of the reference (a fresh copy),
// the consensus record.
//
// Case line
//
//	kmc <r> <rep> <form> <k|d> <sparse> <min|d> <maxocc|d> 0 <g> <batch> <obs> <nref> <hexref>… <hexread>…
//	    = r rounds, every read taken rep times, then the fields of a `ks match` case (c19_glue.go; <g> = --max-cpu =
//	    number of worker goroutines, self = 0); run in a child process (as `conc`)
//
// Result: the result of the `ks match` case on the distinct reads answered ALONE (`n=<obikmer_match_count of the
// records of every read, - when none>`, obs = which reads got a record): the model side is the sequential model of the
// command (KmerSim.cliAlignCandidates), no new obligation.
// The alone answers: the options parsed by the real parser, the references read by the real CLIReference, the index and
// the worker built exactly as CLIAlignSequences builds them, the worker called on one read after the other from one
// goroutine; every record it returns is kept whole (consensus sequence, qualities, every annotation: obikmer_match_id,
// obikmer_orientation, obikmer_match_count, fast count / overlap / score, score, identity, ali_length, seq_a_single ...,
// pairing_mismatches).  Then r rounds, each one
//   A. the real CLIAlignSequences over rep copies of the reads of both strands in batches of <batch> reads, g workers;
//   B. the same pipeline with the worker and the references of the alone phase (ONE worker for all rounds, as the
//      command has one for its whole run), an observer goroutine looking at the references meanwhile;
// Oracles
//   conc.differs              a read gets, concurrently, other records than alone (missing, duplicated, other match id,
//                             orientation, candidate list, consensus or alignment annotation)
//   conc.reference-modified   a shared reference does not hold its original bytes during / after a round (or after
//                             the sequential phase)
//   conc.crash                the child process died
//   cli.match.alone-differs   CLIAlignSequences on one batch (a single active worker) differs from the alone answers
//   cli.panic / cli.fatal     a read makes the worker panic when run alone

import (
	"bytes"
	"context"
	"fmt"
	"math/rand"
	"os"
	"os/exec"
	"path/filepath"
	"runtime"
	"sort"
	"strconv"
	"strings"
	"sync/atomic"
	"time"

	"git.metabarcoding.org/obitools/obitools4/obitools4/pkg/obifp"
	"git.metabarcoding.org/obitools/obitools4/obitools4/pkg/obiiter"
	"git.metabarcoding.org/obitools/obitools4/obitools4/pkg/obikmer"
	"git.metabarcoding.org/obitools/obitools4/obitools4/pkg/obioptions"
	"git.metabarcoding.org/obitools/obitools4/obitools4/pkg/obiseq"
	"git.metabarcoding.org/obitools/obitools4/obitools4/pkg/obitools/obikmersim"
	log "github.com/sirupsen/logrus"
)

type c19KmcCase struct {
	r, rep int
	c      c19GlueCase
	f      []string // the fields of the `ks match` case
}

func c19KmcParse(f []string) (k c19KmcCase, ok bool) {
	if len(f) < 13 || f[0] != "kmc" {
		return k, false
	}
	r, e1 := strconv.Atoi(f[1])
	rep, e2 := strconv.Atoi(f[2])
	if e1 != nil || e2 != nil || r < 1 || r > 50 || rep < 1 || rep > 64 || strconv.Itoa(r) != f[1] || strconv.Itoa(rep) != f[2] {
		return k, false
	}
	k.r, k.rep = r, rep
	k.f = append([]string{"ks", "match"}, f[3:]...)
	k.c, ok = c19GlueParse(k.f)
	if !ok || k.c.self {
		return k, false
	}
	return k, true
}

// every record of a worker answer, whole, without its id
func c19KmcRecStr(s *obiseq.BioSequence) string {
	var b strings.Builder
	ann := s.Annotations()
	keys := make([]string, 0, len(ann))
	for k := range ann {
		keys = append(keys, k)
	}
	sort.Strings(keys)
	// the match id first: the records of a read are sorted on it
	if v, ok := ann["obikmer_match_id"]; ok {
		fmt.Fprintf(&b, "match=%v ", v)
	}
	for _, k := range keys {
		fmt.Fprintf(&b, "%s=%v ", k, ann[k])
	}
	fmt.Fprintf(&b, "seq=%s qual=%s", s.Sequence(), hx(s.Qualities()))
	return b.String()
}

func c19KmcJoin(recs []string) string {
	sort.Strings(recs)
	return strings.Join(recs, " || ")
}

func c19KmcSeq(a *c19KmcAlone, i int) []byte { return a.reads[i] }

type c19KmcAlone struct {
	reads   [][]byte
	refs    obiseq.BioSequenceSlice
	orig    [][]byte
	origQ   [][]byte
	worker  obiseq.SeqWorker
	ans     []string // per distinct read
	stable  []bool
	mask    []string
	cells   []string
	outcome string // "" or fatal / panic / error
	why     string
}

func (a *c19KmcAlone) refsIntact(when string) string {
	for j, r := range a.refs {
		if !bytes.Equal(r.Sequence(), a.orig[j]) {
			return fmt.Sprintf("%s reference %s holds %s, its original bytes are %s", when, r.Id(), c19Short(string(r.Sequence())), c19Short(string(a.orig[j])))
		}
		if r.HasQualities() != (a.origQ[j] != nil) || (a.origQ[j] != nil && !bytes.Equal(r.Qualities(), a.origQ[j])) {
			return fmt.Sprintf("%s the qualities of reference %s changed", when, r.Id())
		}
	}
	return ""
}

// the options through the real parser (they stay in the package variables for the whole case), the references through
// the real CLIReference, the index and the worker as CLIAlignSequences builds them; then every read alone
func c19KmcSetup(k c19KmcCase, dir string) (a *c19KmcAlone) {
	c := k.c
	a = &c19KmcAlone{reads: c.reads}
	refFile := filepath.Join(dir, "refs.fasta")
	if err := c19GlueFasta(refFile, "ref", c.refs); err != nil {
		a.outcome, a.why = "error", err.Error()
		return
	}
	procs0 := runtime.GOMAXPROCS(0)
	obikmersim.VerifResetOptions()
	obioptions.GenerateOptionParser(obikmersim.MatchOptionSet)(c.argv(refFile))
	log.SetLevel(log.PanicLevel)
	runtime.GOMAXPROCS(procs0) // the parser sets GOMAXPROCS to --max-cpu: the goroutines must really run in parallel

	_, a.refs = obikmersim.CLIReference()
	for _, r := range a.refs {
		a.orig = append(a.orig, append([]byte{}, r.Sequence()...))
		if r.HasQualities() {
			a.origQ = append(a.origQ, append([]byte{}, r.Qualities()...))
		} else {
			a.origQ = append(a.origQ, nil)
		}
	}
	km := obikmer.NewKmerMap[obifp.Uint128](a.refs, uint(obikmersim.CLIKmerSize()), obikmersim.CLISparseMode(), obikmersim.CLIMaxKmerOccurs())
	if 2*km.Kmersize > 128 { // checkKmerSize of the command
		a.outcome, a.why = "fatal", "k-mer too large"
		return
	}
	a.worker = obikmersim.MakeKmerAlignWorker(km, obikmersim.CLIMinSharedKmers(), obikmersim.CLIGap(), obikmersim.CLIScale(),
		obikmersim.CLIDelta(), obikmersim.CLIFastRelativeScore(), 0.8, true)
	n := len(c.reads)
	a.ans, a.stable, a.mask, a.cells = make([]string, n), make([]bool, n), make([]string, n), make([]string, n)
	one := func(i int) (string, string, bool) {
		rec := obiseq.NewBioSequence(fmt.Sprintf("read%d", i), append([]byte{}, c.reads[i]...), "")
		var out obiseq.BioSequenceSlice
		if c19Try(func() { out, _ = a.worker(rec) }) {
			return "", "", false
		}
		strs := make([]string, len(out))
		cell := "-"
		for j, s := range out {
			strs[j] = c19KmcRecStr(s)
			if j == 0 {
				if v, ok := s.GetIntAttribute("obikmer_match_count"); ok {
					cell = strconv.Itoa(v)
				}
			}
		}
		return c19KmcJoin(strs), cell, true
	}
	for i := range c.reads {
		s1, cell, ok := one(i)
		if !ok {
			a.outcome, a.why = "panic", fmt.Sprintf("the worker panics on read%d %s run alone", i, c.reads[i])
			return
		}
		s2, _, ok2 := one(i)
		a.ans[i], a.cells[i], a.stable[i] = s1, cell, ok2 && s1 == s2
		a.mask[i] = "0"
		if s1 != "" {
			a.mask[i] = "1"
		}
	}
	return
}

func (k c19KmcCase) line(obs string) string {
	return fmt.Sprintf("kmc %d %d %s %s %s", k.r, k.rep, strings.Join(k.f[2:10], " "), obs, strings.Join(k.f[11:], " "))
}

// the result line from the alone phase (also sets the augmented case line)
func c19KmcResult(k c19KmcCase, a *c19KmcAlone) string {
	if a.outcome != "" {
		caseOverride = k.line("-")
		return a.outcome
	}
	obs, cells := "-", "-"
	if len(a.mask) > 0 {
		obs, cells = strings.Join(a.mask, ","), strings.Join(a.cells, ",")
	}
	caseOverride = k.line(obs)
	return "n=" + cells
}

// one pass of the pipeline over `slice`; ids[id] = distinct read; returns the first difference ("" = none) and the
// number of reads that differ
func c19KmcCollect(res obiiter.IBioSequence, a *c19KmcAlone, ids map[string]int) (first string, nbad, nreads int) {
	got := map[string][]string{}
	for res.Next() {
		for _, s := range res.Get().Slice() {
			got[s.Id()] = append(got[s.Id()], c19KmcRecStr(s))
		}
	}
	names := make([]string, 0, len(ids))
	for id := range ids {
		names = append(names, id)
	}
	sort.Strings(names)
	for _, id := range names {
		i := ids[id]
		if !a.stable[i] {
			continue
		}
		nreads++
		if g := c19KmcJoin(got[id]); g != a.ans[i] {
			nbad++
			if first == "" {
				// the records from their first difference on (back to the start of the annotation)
				p := 0
				for p < len(g) && p < len(a.ans[i]) && g[p] == a.ans[i][p] {
					p++
				}
				for q := p; q > 0 && p-q < 80; q-- {
					if g[q-1] == ' ' {
						p = q
						break
					}
				}
				show := func(s string) string {
					if s == "" {
						return "no record"
					}
					if strings.HasPrefix(s[p:], "|| ") || p == len(s) {
						return fmt.Sprintf("%d record(s), at byte %d: %s", 1+strings.Count(s, " || "), p, c19Short(s[p:]))
					}
					return fmt.Sprintf("%d record(s), at byte %d of %s: %s", 1+strings.Count(s, " || "), p, s[:min(len(s), 12)], c19Short(s[p:]))
				}
				first = fmt.Sprintf("%s (a copy of read%d %s): alone %s; concurrently %s", id, i, c19Short(string(c19KmcSeq(a, i))), show(a.ans[i]), show(g))
			}
		}
	}
	for id := range got {
		if _, ok := ids[id]; !ok {
			nbad++
			if first == "" {
				first = fmt.Sprintf("unexpected record %q in the output", id)
			}
		}
	}
	return
}

func c19KmcReads(k c19KmcCase, rep int, order *rand.Rand) (obiseq.BioSequenceSlice, map[string]int) {
	slice := obiseq.MakeBioSequenceSlice(0)
	ids := map[string]int{}
	for cp := 0; cp < rep; cp++ {
		for i, s := range k.c.reads {
			id := fmt.Sprintf("read%d", i)
			if rep > 1 {
				id = fmt.Sprintf("read%dc%d", i, cp)
			}
			ids[id] = i
			slice = append(slice, obiseq.NewBioSequence(id, append([]byte{}, s...), ""))
		}
	}
	if order != nil {
		order.Shuffle(len(slice), func(i, j int) { slice[i], slice[j] = slice[j], slice[i] })
	}
	return slice, ids
}

func c19ExecKmcHere(k c19KmcCase, concurrent bool) (string, []Fail) {
	var fails []Fail
	fail := func(sig, format string, a ...any) {
		for _, f := range fails {
			if f.Sig == sig {
				return
			}
		}
		fails = append(fails, Fail{sig, fmt.Sprintf(format, a...)})
	}
	dir, err := os.MkdirTemp("", "c19kmc")
	if err != nil {
		return "bad-op", nil
	}
	defer os.RemoveAll(dir)
	cpu0, bs0, procs0 := obioptions.CLIMaxCPU(), obioptions.CLIBatchSize(), runtime.GOMAXPROCS(0)
	defer func() {
		obioptions.SetMaxCPU(cpu0)
		obioptions.SetBatchSize(bs0)
		runtime.GOMAXPROCS(procs0)
		log.SetLevel(log.PanicLevel)
	}()
	res := guardT(120*time.Second, func() string {
		a := c19KmcSetup(k, dir)
		line := c19KmcResult(k, a)
		stat("kmc:cases")
		if a.outcome != "" {
			stat("kmc:" + a.outcome)
			fail("cli."+a.outcome, "obikmermatch: %s", a.why)
			return line
		}
		nrev, nfwd, nrec := 0, 0, 0
		for i, s := range a.ans {
			nrec += strings.Count(s, "match=")
			if strings.Contains(s, "obikmer_orientation=reverse") {
				nrev++
			}
			if strings.Contains(s, "obikmer_orientation=forward") {
				nfwd++
			}
			if !a.stable[i] {
				stat("kmc:alone-unstable")
			}
		}
		stat(fmt.Sprintf("kmc:reads~%d", c19Bucket(len(a.ans)*k.rep)))
		for ; nrev > 0; nrev-- {
			stat("kmc:alone-reverse-reads")
		}
		for ; nfwd > 0; nfwd-- {
			stat("kmc:alone-forward-reads")
		}
		for ; nrec > 0; nrec-- {
			stat("kmc:alone-records")
		}
		if m := a.refsIntact("after the reads were aligned one after the other,"); m != "" {
			fail("conc.reference-modified", "%s", m)
			return line
		}
		// the command itself on one batch: a single active worker
		{
			slice, ids := c19KmcReads(k, 1, nil)
			first, nbad, n := c19KmcCollect(obikmersim.CLIAlignSequences(obiiter.IBatchOver("reads", slice, len(slice)+1)), a, ids)
			if first != "" {
				fail("cli.match.alone-differs", "CLIAlignSequences on one batch of %d reads: %d reads differ from the worker called read by read; e.g. %s", n, nbad, first)
				return line
			}
		}
		if !concurrent {
			return line
		}
		order := rand.New(rand.NewSource(int64(len(k.c.reads))*7919 + int64(k.rep)))
		g, batch := obioptions.CLIParallelWorkers(), obioptions.CLIBatchSize()
		t0 := time.Now()
		for round := 0; round < k.r; round++ {
			// A: the real CLIAlignSequences (its own index, worker and references)
			slice, ids := c19KmcReads(k, k.rep, order)
			first, nbad, n := c19KmcCollect(obikmersim.CLIAlignSequences(obiiter.IBatchOver("reads", slice, batch)), a, ids)
			stat("kmc:rounds-cli")
			if first != "" {
				fail("conc.differs", "round %d, CLIAlignSequences with %d workers on %d reads in batches of %d: %d reads get other records than alone; e.g. %s", round, g, n, batch, nbad, first)
			}
			// B: the worker and the references of the alone phase in the pipeline of CLIAlignSequences
			slice, ids = c19KmcReads(k, k.rep, order)
			var stop atomic.Bool
			seen := make(chan string, 1)
			go func() {
				m := ""
				for looks := 0; !stop.Load(); looks++ {
					if m == "" {
						m = a.refsIntact(fmt.Sprintf("during round %d (%d workers at work),", round, g))
					}
					runtime.Gosched()
				}
				seen <- m
			}()
			it := obiiter.IBatchOver("reads", slice, batch).MakeIWorker(a.worker, false, g).FilterEmpty()
			first, nbad, n = c19KmcCollect(it, a, ids)
			stop.Store(true)
			during := <-seen
			stat("kmc:rounds-worker")
			if first != "" {
				fail("conc.differs", "round %d, the worker of MakeKmerAlignWorker called by %d MakeIWorker goroutines on %d reads in batches of %d: %d reads get other records than alone; e.g. %s", round, g, n, batch, nbad, first)
			}
			if m := a.refsIntact(fmt.Sprintf("after round %d (%d workers, %d reads),", round, g, n)); m != "" {
				fail("conc.reference-modified", "%s", m)
			} else if during != "" {
				fail("conc.reference-modified", "%s", during)
			}
			if len(fails) > 0 {
				break
			}
		}
		if d := time.Since(t0); d >= 20*time.Millisecond {
			stat("kmc:overlap>=20ms")
		} else {
			stat("kmc:overlap<20ms")
		}
		return line
	})
	return res, fails
}

// c19ExecKmc runs the case in a child process (this executable, `C19 exec`), as c19ExecConc does: a panic in a worker
// goroutine of MakeIWorker kills the process.
func c19ExecKmc(f []string) (string, []Fail) {
	k, ok := c19KmcParse(f)
	if !ok {
		return "bad-op", nil
	}
	exe, err := os.Executable()
	if os.Getenv("VERIF_C19_CONC_CHILD") != "" || err != nil {
		return c19ExecKmcHere(k, true)
	}
	ctx, cancel := context.WithTimeout(context.Background(), 240*time.Second*watchdogScale())
	defer cancel()
	cmd := exec.CommandContext(ctx, exe, "C19", "exec")
	cmd.Stdin = strings.NewReader(strings.Join(f, " ") + "\n")
	cmd.Env = append(os.Environ(), "VERIF_C19_CONC_CHILD=1")
	var stdout, stderr bytes.Buffer
	cmd.Stdout, cmd.Stderr = &stdout, &stderr
	_ = cmd.Run()
	res, line, done := "", "", false
	var fails []Fail
	for _, l := range strings.Split(stdout.String(), "\n") {
		w := strings.Split(l, "\t")
		switch {
		case w[0] == "C" && len(w) >= 3:
			line, res, done = w[1], w[2], true
		case w[0] == "F" && len(w) >= 4:
			fails = append(fails, Fail{w[1], w[3]})
		case w[0] == "S" && len(w) >= 3 && !strings.HasPrefix(w[1], "op:"):
			for n, _ := strconv.Atoi(w[2]); n > 0; n-- {
				stat(w[1])
			}
		}
	}
	if done {
		caseOverride = line // the case line with the observation of the alone phase
		return res, fails
	}
	if ctx.Err() != nil {
		stat("kmc:child-timeout")
		return "hang", nil
	}
	why, where := "no output", ""
	for _, l := range strings.Split(stderr.String(), "\n") {
		t := strings.TrimSpace(l)
		if why == "no output" && (strings.HasPrefix(t, "fatal error:") || strings.HasPrefix(t, "panic:") || strings.HasPrefix(t, "unexpected fault") || strings.HasPrefix(t, "SIG")) {
			why = t
		}
		if where == "" && strings.Contains(t, "/pkg/") && strings.Contains(t, ".go:") && !strings.Contains(t, "/pkg/mod/") {
			where = t[strings.LastIndex(t, "/pkg/")+1:]
			if i := strings.IndexByte(where, ' '); i > 0 {
				where = where[:i]
			}
		}
	}
	for _, env := range []string{"out of memory", "cannot allocate", "failed to create new OS thread", "newosproc", "pthread_create", "resource temporarily unavailable"} {
		if strings.Contains(stderr.String(), env) {
			why = "no output"
		}
	}
	if why == "no output" { // killed from outside: no evidence against the code, run it here
		stat("kmc:child-killed")
		return c19ExecKmcHere(k, true)
	}
	stat("kmc:child-died")
	res, fails = c19ExecKmcHere(k, false)
	return res, append(fails, Fail{"conc.crash", fmt.Sprintf("the process running obikmermatch with %d workers on %d reads died: %s (first frame in /repo: %s); every read aligned alone answers", k.c.ncpu, len(k.c.reads)*k.rep, why, where)})
}

// ---------------------------------------------------------------------------------------------
// generator: a few references (two families of close references, so that a read has several candidates), reads =
// long pieces of them with a few substitutions, each one with its reverse complement

func c19GenKmc(rng *rand.Rand, tier string, emit func(string)) {
	ncase, r, rep, g := 2, 3, 10, 8
	if tier == "thorough" {
		ncase, r, rep, g = 4, 6, 24, 12
	}
	for cs := 0; cs < ncase; cs++ {
		nfam := 1 + rng.Intn(2)
		var refs [][]byte
		for f := 0; f < nfam; f++ {
			tpl := c19RandSeq(rng, 180+rng.Intn(120), "acgt", 0)
			refs = append(refs, tpl)
			for v := rng.Intn(2); v >= 0; v-- {
				refs = append(refs, c19ConcMutate(rng, tpl, 2+rng.Intn(5), 0))
			}
		}
		var reads [][]byte
		nvar := 10 + rng.Intn(6)
		for i := 0; i < nvar; i++ {
			ref := refs[rng.Intn(len(refs))]
			a := rng.Intn(len(ref) / 4)
			b := len(ref) - rng.Intn(len(ref)/4)
			s := c19ConcMutate(rng, ref[a:b], rng.Intn(4), 0)
			if i%2 == 0 { // a whole reference, exact or with a few substitutions
				s = c19ConcMutate(rng, ref, (i/2)%4, 0)
			}
			reads = append(reads, s, []byte(c19RcStr(string(s))))
		}
		ks, sp := "d", "0"
		switch rng.Intn(4) {
		case 0:
			ks = strconv.Itoa(12 + rng.Intn(20))
		case 1:
			ks, sp = strconv.Itoa(11+rng.Intn(20)), "1"
		}
		batch := 1 + rng.Intn(6)
		w := []string{"kmc", strconv.Itoa(r), strconv.Itoa(rep), strconv.Itoa(rng.Intn(2)), ks, sp, "d", "d", "0",
			strconv.Itoa(g + rng.Intn(5)), strconv.Itoa(batch), "?", strconv.Itoa(len(refs))}
		for _, s := range refs {
			w = append(w, hx(s))
		}
		for _, s := range reads {
			w = append(w, hx(s))
		}
		emit(strings.Join(w, " "))
		stat("gen:kmc")
	}
}
