//go:build c10

package main

import (
	"bytes"
	"fmt"
	"math/rand"
	"os"
	"os/exec"
	"strconv"
	"strings"
	"time"

	"git.metabarcoding.org/obitools/obitools4/obitools4/pkg/obialign"
	"git.metabarcoding.org/obitools/obitools4/obitools4/pkg/obiapat"
	"git.metabarcoding.org/obitools/obitools4/obitools4/pkg/obiseq"
)

// C10 — primer pattern matching.
//
// case lines (byte strings in hex):
//   pat    <pat> <emax> <indel>
//   rcpat  <pat> <emax> <indel>
//   find|filter|all|best|is <pat> <emax> <indel> <rc> <seq> <circ> <begin> <length>
//   locate <pat> <seq>
//   budget <pat> <emax> <indel> <seq>      MakeApatPattern with any budget (also > 63) + FindAllIndex, run in a CHILD process
//                                          (a budget > 63 overran the r[] array of ManberSub/ManberIndel: stack smashing)

type c10 struct{}

func init() { props["C10"] = c10{} }

const c10MaxPatLen = 64

// ---------------------------------------------------------------------------------------------
// independent reference: documented pattern grammar  token := ['!'] (LETTER | '[' LETTER+ ']') ['#']
// ---------------------------------------------------------------------------------------------

type c10Tok struct {
	set   [26]bool // accepted sequence letters
	oblig bool
	neg   bool
	raw   string
}

var c10Iupac = map[byte]string{
	'A': "a", 'C': "c", 'G': "g", 'T': "t", 'U': "t", 'R': "ag", 'Y': "ct", 'M': "ac", 'K': "gt", 'S': "cg", 'W': "at",
	'B': "cgt", 'D': "agt", 'H': "act", 'V': "acg", 'N': "acgt",
}

// c10Parse returns the token list of a pattern written in the documented grammar with IUPAC letters only
// (ok=false otherwise: such patterns are only compared with the model, no oracle).
func c10Parse(pat string) (toks []c10Tok, ok bool) {
	p := strings.ToUpper(pat)
	i := 0
	for i < len(p) {
		var t c10Tok
		st := i
		if p[i] == '!' {
			t.neg = true
			i++
			if i >= len(p) {
				return nil, false
			}
		}
		letters := ""
		if p[i] == '[' {
			j := strings.IndexByte(p[i:], ']')
			if j < 2 {
				return nil, false
			}
			letters = p[i+1 : i+j]
			i += j + 1
		} else {
			letters = p[i : i+1]
			i++
		}
		for k := 0; k < len(letters); k++ {
			b, found := c10Iupac[letters[k]]
			if !found {
				return nil, false
			}
			for _, x := range []byte(b) {
				t.set[x-'a'] = true
			}
		}
		if t.neg {
			for k := range t.set {
				t.set[k] = !t.set[k]
			}
		}
		if i < len(p) && p[i] == '#' {
			t.oblig = true
			i++
		}
		t.raw = p[st:i]
		toks = append(toks, t)
	}
	return toks, len(toks) > 0
}

func c10TokMatch(t c10Tok, c byte) bool {
	if c < 'a' || c > 'z' {
		return t.neg // a byte that is not a letter is no nucleotide: only "anything but ..." accepts it
	}
	return t.set[c-'a']
}

// mirror image of a token list: complement of each set (a<->t, c<->g on the four bases; a negated class stays the
// negation of the complemented class), order reversed
func c10RcToks(toks []c10Tok) []c10Tok {
	out := make([]c10Tok, len(toks))
	for i, t := range toks {
		var u c10Tok
		u.oblig, u.neg = t.oblig, t.neg
		u.set = t.set
		u.set[0], u.set['t'-'a'] = t.set['t'-'a'], t.set[0]
		u.set['c'-'a'], u.set['g'-'a'] = t.set['g'-'a'], t.set['c'-'a']
		out[len(toks)-1-i] = u
	}
	return out
}

const c10Inf = 1 << 20

// Hamming distance of the pattern against w (same length); c10Inf if an obligatory position mismatches
func c10Hamming(toks []c10Tok, w []byte) int {
	k := 0
	for i, t := range toks {
		if !c10TokMatch(t, w[i]) {
			if t.oblig {
				return c10Inf
			}
			k++
		}
	}
	return k
}

// plain edit distance between the token list and t with a compatibility function
func c10Edit(m int, match func(j int, c byte) bool, t []byte) int {
	prev := make([]int, len(t)+1)
	cur := make([]int, len(t)+1)
	for i := range prev {
		prev[i] = i
	}
	for j := 1; j <= m; j++ {
		cur[0] = j
		for i := 1; i <= len(t); i++ {
			d := prev[i-1]
			if !match(j-1, t[i-1]) {
				d++
			}
			if prev[i]+1 < d {
				d = prev[i] + 1
			}
			if cur[i-1]+1 < d {
				d = cur[i-1] + 1
			}
			cur[i] = d
		}
		prev, cur = cur, prev
	}
	return prev[len(t)]
}

// for every end position q (exclusive, 0..len(w)) the minimum over substrings w[a:q] of the edit distance to the pattern
// brute force over all substrings when small, Sellers' column DP otherwise
func c10BestEnding(m int, match func(j int, c byte) bool, w []byte) []int {
	out := make([]int, len(w)+1)
	if len(w) <= 24 {
		for q := 0; q <= len(w); q++ {
			best := c10Inf
			for a := 0; a <= q; a++ {
				if d := c10Edit(m, match, w[a:q]); d < best {
					best = d
				}
			}
			out[q] = best
		}
		return out
	}
	col := make([]int, m+1)
	for j := range col {
		col[j] = j
	}
	out[0] = m
	for q := 1; q <= len(w); q++ {
		diag := col[0]
		col[0] = 0
		for j := 1; j <= m; j++ {
			d := diag
			if !match(j-1, w[q-1]) {
				d++
			}
			if col[j]+1 < d {
				d = col[j] + 1
			}
			if col[j-1]+1 < d {
				d = col[j-1] + 1
			}
			diag = col[j]
			col[j] = d
		}
		out[q] = col[m]
	}
	return out
}

// ---------------------------------------------------------------------------------------------
// generators
// ---------------------------------------------------------------------------------------------

func c10RandTok(rng *rand.Rand, rich bool) string {
	t := ""
	r := rng.Intn(100)
	if !rich {
		return string("ACGT"[rng.Intn(4)])
	}
	if r < 8 {
		t = "!"
	}
	switch x := rng.Intn(100); {
	case x < 62:
		t += string("ACGT"[rng.Intn(4)])
	case x < 85:
		t += string("RYMKSWBDHVNU"[rng.Intn(12)])
	case x < 97:
		n := 1 + rng.Intn(3)
		t += "["
		for k := 0; k < n; k++ {
			t += string("ACGTRY"[rng.Intn(6)])
		}
		t += "]"
	default:
		t += string("EXZIQ"[rng.Intn(5)])
	}
	if rng.Intn(100) < 10 {
		t += "#"
	}
	return t
}

func c10RandPat(rng *rand.Rand, rich bool) string {
	n := 1 + rng.Intn(10)
	switch rng.Intn(12) {
	case 0:
		n = 1 + rng.Intn(3)
	case 1:
		n = 12 + rng.Intn(20)
	case 2:
		n = 40 + rng.Intn(24) // up to 63
	case 3:
		n = []int{1, 2, 31, 32, 33, 62, 63}[rng.Intn(7)] // word-size boundaries of the state words
	}
	var b strings.Builder
	for i := 0; i < n; i++ {
		b.WriteString(c10RandTok(rng, rich))
	}
	s := b.String()
	if rng.Intn(6) == 0 {
		s = strings.ToLower(s)
	}
	return s
}

// an instance of the pattern (a sequence matched exactly) when the pattern is in the documented grammar
func c10Instance(rng *rand.Rand, toks []c10Tok) []byte {
	out := make([]byte, 0, len(toks))
	for _, t := range toks {
		var cand []byte
		for _, c := range []byte("acgt") {
			if t.set[c-'a'] {
				cand = append(cand, c)
			}
		}
		if len(cand) == 0 {
			cand = []byte("acgt")
		}
		out = append(out, cand[rng.Intn(len(cand))])
	}
	return out
}

func c10Mutate(rng *rand.Rand, w []byte, nmut int, indel bool) []byte {
	w = append([]byte{}, w...)
	for k := 0; k < nmut && len(w) > 0; k++ {
		p := rng.Intn(len(w))
		switch {
		case indel && rng.Intn(3) == 0:
			w = append(w[:p], w[p+1:]...)
		case indel && rng.Intn(2) == 0:
			w = append(w[:p], append([]byte{"acgt"[rng.Intn(4)]}, w[p:]...)...)
		default:
			w[p] = "acgt"[rng.Intn(4)]
		}
	}
	return w
}

func c10RandSeq(rng *rand.Rand, n int, class int) []byte {
	s := make([]byte, n)
	for i := range s {
		switch {
		case class == 1 && rng.Intn(8) == 0:
			s[i] = "rymkswbdhvnu"[rng.Intn(12)]
		case class == 2 && rng.Intn(8) == 0:
			s[i] = "-.*0N@[z"[rng.Intn(8)]
		case class == 3:
			s[i] = "ac"[rng.Intn(2)]
		case class == 4:
			s[i] = "acgtACGT"[rng.Intn(8)]
		default:
			s[i] = "acgt"[rng.Intn(4)]
		}
	}
	return s
}

// bytes left behind the sequence in its buffer (see Exec): instances of the pattern and of its mirror image
func c10Stale(toks []c10Tok, sane bool) []byte {
	var unit []byte
	if sane {
		for _, tl := range [][]c10Tok{toks, c10RcToks(toks)} {
			for _, t := range tl {
				c := byte('a')
				for _, x := range []byte("acgt") {
					if t.set[x-'a'] {
						c = x
						break
					}
				}
				unit = append(unit, c)
			}
		}
	} else {
		unit = []byte("acgt")
	}
	var out []byte
	for len(out) < 2*c10MaxPatLen {
		out = append(out, unit...)
	}
	return out
}

func c10Case(op, pat string, e int, indel, rc bool, seq []byte, circ bool, begin, length int) string {
	b := func(x bool) int {
		if x {
			return 1
		}
		return 0
	}
	return fmt.Sprintf("%s %s %d %d %d %s %d %d %d", op, hx([]byte(pat)), e, b(indel), b(rc), hx(seq), b(circ), begin, length)
}

func c10H(s string) string { return hx([]byte(s)) }

func (c10) Gen(rng *rand.Rand, tier string, emit func(string)) {
	defer c10GenConc(rng, tier, emit) // last: the concurrent scans (their own PRNG draws come after every other case)
	// ---- hand-picked cases -------------------------------------------------------------------
	for _, p := range []string{"ACGT", "A[T]C!GT", "acgt", "A#", "#A", "A##", "!A#", "!A#C", "G!A#", "![AC]", "![AC]#", "[AC]#", "[AC", "A]", "[]", "[A#]",
		"A!", "!", "!!A", "!#", "A!#", "AC#GT", "N", "NNNN", "X", "E", "A B", "a[ct]g", "[A][C]", "[[A]]", "A[!C]", "R#Y#", "ACGTRYMKSWBDHVNU",
		"!A!C!G!T", "!N", "![ACGT]", "A#C#G#T#", "!A#!C#", "T!A#", "TT!A#", "!R#A", "![AC]G", "G![AC]", "[AC]#G", "G[AC]#", "AAAA!C#"} {
		emit(fmt.Sprintf("pat %s 2 0", c10H(p)))
		emit(fmt.Sprintf("rcpat %s 2 0", c10H(p)))
	}
	// the suspected defects (D18, D19, D32) and boundary hits
	for _, c := range []string{
		c10Case("best", "ACGTACGT", 2, true, false, []byte("ttttttacgtcgtttttt"), false, 0, -1),   // D18: indel best match away from offset 0
		c10Case("best", "ACGTACGT", 2, true, false, []byte("acgtcgtttttt"), false, 0, -1),         // same at offset 0
		c10Case("best", "ACGTACGT", 2, true, false, []byte("ttttttttttacgtcgt"), false, 0, -1),    // touching the end
		c10Case("all", "ACGTACGT", 2, true, false, []byte("cgtacgttttttt"), false, 0, -1),         // D19: first pattern symbol missing at offset 0
		c10Case("all", "ACGTACGT", 2, true, false, []byte("ttttttacgtcgtttttt"), false, 0, -1),
		c10Case("all", "ACGTACGT", 2, true, false, []byte("acgtagt"), false, 0, -1),               // D32: sequence not longer than the pattern
		c10Case("all", "ACGTACGT", 2, true, false, []byte("acgtacg"), false, 0, -1),
		c10Case("all", "ACGTACGT", 1, true, false, []byte("acgtcgt"), false, 0, -1),
		c10Case("best", "ACGTACGT", 2, true, false, []byte("acgtagt"), false, 0, -1),
		c10Case("all", "A", 1, true, false, []byte("ccc"), false, 0, -1),                          // pattern of length 1: backtracking loop not entered
		c10Case("best", "ACGTA", 1, true, false, []byte("cgtatttttttt"), false, 0, -1),            // round 2: best hit with a shifted (negative) start was discarded: matched=false
		c10Case("best", "ACGTACGT", 2, true, false, []byte("gtacgtttttttt"), false, 0, -1),        // two leading symbols deleted
		c10Case("best", "ACGTA", 1, true, false, []byte("ttttcgtatttttttt"), false, 4, -1),        // the same at a window start > 0 (always worked: start >= 0)
		c10Case("all", "AC", 1, true, false, []byte("ggcgg"), false, 0, -1),
		c10Case("find", "ACGT", 1, false, false, []byte("acgt"), false, 0, -1),
		c10Case("find", "ACGT", 1, false, false, []byte("acg"), false, 0, -1),
		c10Case("find", "ACGT", 0, false, false, []byte(""), false, 0, -1),
		c10Case("find", "ACGT", 1, false, false, []byte("acgtttttacgt"), false, 0, -1),            // both ends
		c10Case("find", "ACGT", 1, false, false, []byte("acgtttttacgt"), false, 1, 2),             // window
		c10Case("find", "ACGT", 1, false, false, []byte("acgtttttacgt"), false, 20, 2),            // begin beyond the end
		c10Case("find", "ACGT", 1, false, false, []byte("acgtttttacgt"), false, -3, 0),
		c10Case("find", "A", 0, false, false, []byte("-a.A*"), false, 0, -1),                      // bytes that are not letters
		c10Case("find", "T", 0, false, true, []byte("-a.A*"), false, 0, -1),
		c10Case("find", "N", 0, false, false, []byte("acgtnryu"), false, 0, -1),                   // ambiguous sequence symbols
		c10Case("find", "!A", 0, false, false, []byte("acgtnryu-"), false, 0, -1),
		c10Case("find", "!A#C", 1, false, true, []byte("acgtnryuacgtgt"), false, 0, -1),
		c10Case("find", "AC!A#", 1, false, true, []byte("acgtnryuacgtgt"), false, 0, -1),
		c10Case("find", "G![AC]", 1, false, true, []byte("acgtnryuacgtgt"), false, 0, -1),
		c10Case("find", strings.Repeat("ACGT", 16), 1, false, false, []byte(strings.Repeat("acgt", 20)), false, 0, -1),  // patlen 64: 1L << 64
		c10Case("find", strings.Repeat("ACGT", 16), 0, false, false, []byte(strings.Repeat("acgt", 20)), false, 0, -1),
		c10Case("find", strings.Repeat("ACGT", 16)+"A", 1, false, false, []byte(strings.Repeat("acgt", 20)), false, 0, -1), // 65
		c10Case("find", strings.Repeat("ACGT", 15)+"ACG", 2, false, false, []byte(strings.Repeat("acgt", 20)), false, 0, -1), // 63
		c10Case("find", strings.Repeat("ACGT", 15)+"ACG", 2, true, false, []byte(strings.Repeat("acgt", 20)), false, 0, -1),
		// FilterBestMatch / AllMatches / BestMatch: first hit beyond position 10000 (sentinel compared with a position, repaired)
		c10Case("filter", "ACGT", 0, false, false, []byte(strings.Repeat("t", 10010)+"acgt"+"tttt"), false, 0, -1),
		c10Case("filter", "ACGT", 1, false, false, []byte(strings.Repeat("t", 10010)+"acgt"+"ttttttacgtt"), false, 0, -1),
		c10Case("all", "ACGT", 1, true, false, []byte(strings.Repeat("t", 10010)+"acgt"+"tttt"), false, 0, -1),
		c10Case("best", "ACGT", 1, true, false, []byte(strings.Repeat("t", 10010)+"agt"+"tttt"), false, 0, -1),
		c10Case("filter", "ACGT", 0, false, false, []byte(strings.Repeat("t", 9996)+"acgt"+"tttt"), false, 0, -1), // first hit just below the sentinel
		c10Case("filter", "ACGT", 0, false, false, []byte(strings.Repeat("t", 9997)+"acgt"+"tttt"), false, 9990, -1),
		// hit at the very start of a window with begin > 0; hit straddling the window start; window end inside the sequence
		c10Case("find", "ACGT", 1, false, false, []byte("ttacgtttttt"), false, 2, 0),
		c10Case("find", "ACGT", 1, false, false, []byte("ttacgtttttt"), false, 3, 0),
		c10Case("find", "ACGT", 1, true, false, []byte("ttacgtttttt"), false, 3, 0),
		c10Case("find", "ACGT", 1, true, false, []byte("ttacgtttttt"), false, 2, 0),
		c10Case("find", "ACGT", 0, false, false, []byte(strings.Repeat("t", 70)+"acgt"+"tt"), false, 5, 5), // window end = 74 = end of the site
		c10Case("find", "ACGT", 0, false, false, []byte(strings.Repeat("t", 70)+"acgt"+"tt"), false, 5, 4), // one short
		c10Case("find", "ACGT", 1, true, false, []byte(strings.Repeat("t", 70)+"acgt"+"tt"), false, 5, 4),
		// budgets up to the pattern length; word-size boundaries
		c10Case("find", "ACGT", 4, false, false, []byte("ggggacg"), false, 0, -1),
		c10Case("find", "ACGT", 4, true, false, []byte("ggggacg"), false, 0, -1),
		c10Case("find", "ACGT", 5, true, false, []byte("gg"), false, 0, -1),
		c10Case("find", "A", 1, true, false, []byte("cg"), false, 0, -1),
		c10Case("find", "A", 0, false, false, []byte("cag"), false, 0, -1),
		c10Case("find", strings.Repeat("ACGT", 8)[:31], 2, false, false, []byte(strings.Repeat("acgt", 20)), false, 0, -1),
		c10Case("find", strings.Repeat("ACGT", 8), 2, true, false, []byte(strings.Repeat("acgt", 20)), false, 0, -1),
		c10Case("find", strings.Repeat("ACGT", 8)+"A", 2, true, false, []byte(strings.Repeat("acgt", 20)), false, 1, -1),
		c10Case("find", strings.Repeat("ACGT", 15)+"ACG", 63, false, false, []byte(strings.Repeat("acgt", 20)), false, 0, -1),
		c10Case("find", strings.Repeat("ACGT", 15)+"ACG", 63, true, false, []byte(strings.Repeat("acgt", 20)), false, 0, -1),
		// round 2: the re-aligner's symbol comparison (_samenuc) vs the compiled classes: X in the pattern, ambiguity codes in the sequence
		c10Case("find", "AXGT", 1, true, false, []byte("ttacgattt"), false, 0, -1),
		c10Case("all", "AXGT", 1, true, false, []byte("ttacgattt"), false, 0, -1),  // X = any base for the automaton, nothing for _samenuc: dropped
		c10Case("best", "AXGT", 1, true, false, []byte("ttacgattt"), false, 0, -1), // ... and BestMatch reports 2 errors with budget 1
		c10Case("all", "AXGT", 1, true, false, []byte("ttacgtttt"), false, 0, -1),  // no error: not re-aligned, kept
		c10Case("find", "ACGT", 1, true, false, []byte("ttacntttt"), false, 0, -1), // sequence n: 1 error for the automaton ...
		c10Case("all", "ACGT", 1, true, false, []byte("ttacntttt"), false, 0, -1),  // ... 0 for the re-aligner
		c10Case("best", "ACGT", 1, true, false, []byte("ttacntttt"), false, 0, -1),
		c10Case("all", "ACGT", 1, true, false, []byte("ttacuatttt"), false, 0, -1), // sequence u matches T for _samenuc only
		c10Case("find", "ACGT", 1, false, false, []byte("ttacntttt"), false, 0, -1),
		c10Case("find", "ACGT", 1, false, true, []byte("ttacntttt"), false, 0, -1), // both strands: n is complemented to n
		c10Case("find", "!ACGT", 0, false, false, []byte("ttncgtt-cgt"), false, 0, -1), // a negated position accepts ambiguity codes and non-letters
		c10Case("find", "!ACGT", 0, false, true, []byte("ttacgn-acg-tt"), false, 0, -1),
		c10Case("find", "RYN", 0, false, false, []byte("rynagnryaacnn"), false, 0, -1),  // pattern classes never accept the same ambiguity code in the sequence
		// obligatory positions with indels: start exception, no insertion after '#', insertion before
		c10Case("find", "A#C", 1, true, false, []byte("c"), false, 0, -1),
		c10Case("find", "A#C", 1, true, false, []byte("tc"), false, 0, -1),
		c10Case("find", "A#C", 1, true, false, []byte("tc"), false, 1, -1),
		c10Case("find", "A#C", 1, true, false, []byte("agc"), false, 0, -1),
		c10Case("find", "AC#", 1, true, false, []byte("agc"), false, 0, -1),
		c10Case("find", "A#C#G#", 2, true, false, []byte("ttacgttagttcg"), false, 0, -1),
		c10Case("find", "ACG#TA", 2, true, false, []byte("acgtaacgaaactata"), false, 0, -1),
		// upper-case sequence
		c10Case("find", "ACGT", 0, false, false, []byte("ttACGTtt"), false, 0, -1),
		c10Case("all", "ACGT", 1, true, false, []byte("ttACTtt"), false, 0, -1),
		// circular sequences shorter than MAX_PAT_LEN (EncodeSequence over-read, repaired): junction hit, nothing else
		c10Case("find", "ACGT", 0, false, false, []byte("gtttac"), true, 0, -1),
		c10Case("find", "ACGT", 1, false, false, []byte("gtttac"), true, 0, -1),
		c10Case("find", "ACGT", 1, true, false, []byte("gtttac"), true, 0, -1),
		c10Case("find", "ACGT", 1, false, true, []byte("gtttac"), true, 2, 3),
		c10Case("find", "AC", 0, false, false, []byte("c"), true, 0, -1),
		c10Case("find", "A", 0, false, false, []byte(""), true, 0, -1),
		c10Case("find", "ACGTACGT", 2, false, false, []byte("acg"), true, 0, -1), // pattern longer than the circle
		c10Case("is", "ACGT", 0, false, false, []byte("gtttac"), true, 0, -1),
		c10Case("filter", "ACGT", 1, false, false, []byte("gtttacgtttac"), true, 0, -1),
		// error budgets around MAX_PAT_ERR (round 2: r[2*MAX_PAT_ERR+2] overrun, SIGSEGV; buildPattern now rejects >= 64); child process
		"budget " + c10H("ACGTACGT") + " 62 0 " + c10H("ttttacgtacgtttttacgaacgttt"),
		"budget " + c10H("ACGTACGT") + " 63 0 " + c10H("ttttacgtacgtttttacgaacgttt"),
		"budget " + c10H("ACGTACGT") + " 63 1 " + c10H("ttttacgtacgtttttacgaacgttt"),
		"budget " + c10H("ACGTACGT") + " 64 0 " + c10H("ttttacgtacgtttttacgaacgttt"),
		"budget " + c10H("ACGTACGT") + " 64 1 " + c10H("ttttacgtacgtttttacgaacgttt"),
		"budget " + c10H("ACGTACGT") + " 65 1 " + c10H("ttttacgtacgtttttacgaacgttt"),
		"budget " + c10H("A#CGTACGT") + " 100 0 " + c10H("ttttacgtacgtttttacgaacgttt"),
		"budget " + c10H("ACGT") + " 1000 1 " + c10H("acgt"),
		"budget " + c10H("ACGT") + " 1073741824 0 " + c10H("acgt"),
		"budget " + c10H(strings.Repeat("ACGT", 15)+"ACG") + " 63 1 " + c10H(strings.Repeat("acgt", 20)),
		"budget " + c10H(strings.Repeat("ACGT", 15)+"ACG") + " 64 1 " + c10H(strings.Repeat("acgt", 20)),
		"budget " + c10H("A[") + " 64 0 " + c10H("acgt"), // malformed pattern AND too large a budget
		"pat " + c10H("ACGT") + " 63 1",
		"pat " + c10H("ACGT") + " 64 0",
		"pat " + c10H("ACGT") + " 64 1",
		"pat " + c10H("A#C![GT]") + " 200 0",
		"rcpat " + c10H("ACGT") + " 64 0",
		"locate " + c10H("ACGT") + " " + c10H("cgttt"),
		"locate " + c10H("ACGT") + " " + c10H("ttacgttt"),
		"locate " + c10H("ACGT") + " " + c10H("acgt"),
		"locate " + c10H("A") + " " + c10H("cca"),
		"locate " + c10H("ACGT") + " " + c10H("ttaccgttt"),
		"locate " + c10H("ACVT") + " " + c10H("ttacctttt"),
	} {
		emit(c)
	}

	// ---- bounded enumeration (thorough): short patterns x short sequences x budgets x modes ------------
	if tier == "thorough" {
		toks := []string{"A", "C", "W", "!A", "A#", "[CT]"}
		var pats []string
		for _, a := range toks {
			pats = append(pats, a)
			for _, b := range toks {
				pats = append(pats, a+b)
			}
		}
		var seqs [][]byte
		var rec func(cur []byte, l int)
		rec = func(cur []byte, l int) {
			if len(cur) == l {
				seqs = append(seqs, append([]byte{}, cur...))
				return
			}
			for _, c := range []byte("act") {
				rec(append(cur, c), l)
			}
		}
		for l := 0; l <= 4; l++ {
			rec(nil, l)
		}
		for _, p := range pats {
			for _, s := range seqs {
				for e := 0; e <= 2; e++ {
					emit(c10Case("find", p, e, false, false, s, false, 0, -1))
					if e <= 1 && len(s) > 0 {
						emit(c10Case("find", p, e, e == 1, false, s, true, 0, -1)) // circular, shorter than MAX_PAT_LEN
						emit(c10Case("find", p, e, false, false, s, false, 1, len(s)-1)) // window starting at 1
					}
					if e > 0 {
						emit(c10Case("find", p, e, true, false, s, false, 0, -1))
						emit(c10Case("all", p, e, true, false, s, false, 0, -1))
					}
					// strand symmetry (round 3): the complemented pattern, mismatch-only (mirrored hit lists) and with indels
					// (same existence, same least error count: match_revcomp_indel)
					if e <= 1 && len(s) > 0 {
						emit(c10Case("find", p, e, false, true, s, false, 0, -1))
						if e > 0 {
							emit(c10Case("find", p, e, true, true, s, false, 0, -1))
						}
					}
				}
			}
		}
	}

	// ---- random ---------------------------------------------------------------------------------
	n := 3500
	if tier == "thorough" {
		n = 30000
	}
	for it := 0; it < n; it++ {
		switch k := rng.Intn(100); {
		case k < 6: // pattern compiler on arbitrary strings
			l := 1 + rng.Intn(8)
			b := make([]byte, l)
			for i := range b {
				b[i] = "ACGTRYNWacgt[]!#!#[]X"[rng.Intn(21)]
			}
			op := "pat"
			if rng.Intn(2) == 0 {
				op = "rcpat"
			}
			emit(fmt.Sprintf("%s %s %d %d", op, hx(b), rng.Intn(5), rng.Intn(2)))
		case k < 7: // budgets around MAX_PAT_ERR, in a child process
			e := []int{60, 61, 62, 63, 63, 64, 64, 65, 66, 100, 127, 128, 129, 255, 256, 1000, 65536}[rng.Intn(17)]
			pat := c10RandPat(rng, rng.Intn(2) == 0)
			emit(fmt.Sprintf("budget %s %d %d %s", c10H(pat), e, rng.Intn(2), hx(c10RandSeq(rng, rng.Intn(40), 0))))
		case k < 12: // complement of well-formed patterns
			emit(fmt.Sprintf("rcpat %s %d %d", c10H(c10RandPat(rng, true)), rng.Intn(5), rng.Intn(2)))
		case k < 20: // LocatePattern directly
			m := 1 + rng.Intn(12)
			p := []byte(c10RandPat(rng, false))
			if len(p) > m {
				p = p[:m]
			}
			if rng.Intn(4) == 0 {
				p[rng.Intn(len(p))] = "RYNWV"[rng.Intn(5)]
			}
			inst := c10Mutate(rng, []byte(strings.ToLower(string(p))), rng.Intn(4), true)
			for i, c := range inst {
				if c < 'a' || c > 'z' || !strings.ContainsRune("acgt", rune(c)) {
					inst[i] = "acgt"[rng.Intn(4)]
				}
			}
			left, right := rng.Intn(6), rng.Intn(6)
			if rng.Intn(4) == 0 {
				left = 0
			}
			if rng.Intn(4) == 0 {
				right = 0
			}
			s := append(append(c10RandSeq(rng, left, 0), inst...), c10RandSeq(rng, right, 0)...)
			emit(fmt.Sprintf("locate %s %s", hx(p), hx(s)))
		default:
			rich := rng.Intn(3) > 0
			pat := c10RandPat(rng, rich)
			e := rng.Intn(5)
			indel := rng.Intn(3) == 0
			toks, sane := c10Parse(pat)
			// sequence: random background with planted (mutated) instances, some touching the ends
			class := 0
			switch rng.Intn(13) {
			case 0:
				class = 1
			case 1:
				class = 2
			case 2:
				class = 3
			case 3:
				class = 4
			}
			if toks != nil && rng.Intn(8) == 0 {
				// budgets up to the pattern length (and one more): every position becomes a hit
				e = min(63, rng.Intn(len(toks)+2))
			}
			var seq []byte
			bg := rng.Intn(30)
			if rng.Intn(6) == 0 {
				bg = 60 + rng.Intn(200)
			}
			if rng.Intn(4) == 0 {
				seq = c10RandSeq(rng, 0, class) // first site at offset 0
			} else {
				seq = c10RandSeq(rng, rng.Intn(bg+1), class)
			}
			nsite := rng.Intn(4)
			var sites, siteEnds []int
			for sidx := 0; sidx < nsite; sidx++ {
				sites = append(sites, len(seq))
				var inst []byte
				if sane {
					inst = c10Instance(rng, toks)
				} else {
					inst = c10RandSeq(rng, 1+rng.Intn(10), 0)
				}
				inst = c10Mutate(rng, inst, rng.Intn(min(e, 4)+2), indel)
				seq = append(seq, inst...)
				siteEnds = append(siteEnds, len(seq))
				if rng.Intn(3) != 0 {
					seq = append(seq, c10RandSeq(rng, rng.Intn(bg+1), class)...)
				}
			}
			circ := false
			if len(seq) >= c10MaxPatLen && rng.Intn(4) == 0 {
				circ = true
			}
			if len(seq) < c10MaxPatLen && rng.Intn(6) == 0 {
				circ = true // shorter than MAX_PAT_LEN: the extension is the sequence itself (over-read repaired)
			}
			begin, length := 0, -1
			switch rng.Intn(6) {
			case 0, 1:
				begin = rng.Intn(len(seq)+2) - 1
				length = rng.Intn(len(seq)+3) - 1
			case 2:
				// window starting at / one before / one after a planted site
				if len(sites) > 0 {
					begin = max(0, sites[rng.Intn(len(sites))]+rng.Intn(3)-1)
					length = rng.Intn(len(seq) + 1)
				}
			case 3:
				// window whose END (begin+length+MAX_PAT_LEN) falls at / next to the end of a planted site
				if len(sites) > 0 {
					k := rng.Intn(len(sites))
					end := siteEnds[k] + rng.Intn(3) - 1
					if end-c10MaxPatLen >= 0 {
						begin = rng.Intn(end - c10MaxPatLen + 1)
						length = end - c10MaxPatLen - begin
					}
				}
			}
			op := []string{"find", "find", "find", "filter", "all", "all", "best", "best", "is"}[rng.Intn(9)]
			if indel && rng.Intn(2) == 0 && rich {
				// AllMatches / BestMatch are documented for pure IUPAC patterns
				pat = strings.NewReplacer("!", "", "#", "", "[", "", "]", "").Replace(pat)
				if len(pat) > 63 {
					pat = pat[:63]
				}
			}
			emit(c10Case(op, pat, e, indel, rng.Intn(4) == 0, seq, circ, begin, length))
		}
	}
}

// ---------------------------------------------------------------------------------------------
// execution
// ---------------------------------------------------------------------------------------------

var c10Recycled *obiapat.ApatSequence

func c10Hits(l [][3]int) string {
	if len(l) == 0 {
		return "-"
	}
	s := make([]string, len(l))
	for i, h := range l {
		s[i] = fmt.Sprintf("%d:%d:%d", h[0], h[1], h[2])
	}
	return strings.Join(s, ",")
}

func c10ShowPat(p obiapat.ApatPattern, lower bool) string {
	patlen, cpat, codes, omask, smat := obiapat.VerifPatternCode(p)
	cs := make([]string, len(codes))
	for i, c := range codes {
		cs[i] = strconv.FormatUint(uint64(c), 10)
	}
	ss := make([]string, len(smat))
	for i, w := range smat {
		ss[i] = strconv.FormatUint(w, 16)
	}
	name := cpat // the C pattern string for a pattern built by MakeApatPattern (String() is the user's spelling)
	if lower {
		name = p.String() // for ReverseComplement: lower-cased C string
	}
	return fmt.Sprintf("ok %d %s %s %s %s", patlen, hx([]byte(name)), strings.Join(cs, ","), strconv.FormatUint(omask, 16), strings.Join(ss, ","))
}

func c10IsLetters(s []byte) bool {
	for _, c := range s {
		if !(c >= 'a' && c <= 'z') {
			return false
		}
	}
	return true
}

// letters of the IUPAC table or X (sDnaCode: any base), at least one X
func c10IupacPlusX(pat string) bool {
	x := false
	for _, c := range []byte(strings.ToUpper(pat)) {
		if c == 'X' {
			x = true
		} else if _, ok := c10Iupac[c]; !ok {
			return false
		}
	}
	return x
}

func c10PlainIupac(pat string) bool {
	for _, c := range []byte(strings.ToUpper(pat)) {
		if _, ok := c10Iupac[c]; !ok {
			return false
		}
	}
	return len(pat) > 0
}

func (c10) Exec(c string) (string, []Fail) {
	f := strings.Fields(c)
	if len(f) == 0 {
		return "bad-op", nil
	}
	var fails []Fail
	fail := func(sig, format string, a ...any) {
		fails = append(fails, Fail{Sig: sig, Text: fmt.Sprintf(format, a...)})
	}
	stat("op:" + f[0])
	if f[0] == "conc" {
		return c10ExecConc(f)
	}
	keepErr := f[0] == "budget" // a rejection that is the point of the case (budget guard) is not a trivial case
	res := guardT(10*time.Second, func() string {
		if os.Getenv("C10DEBUG") != "" {
			defer func() {
				if r := recover(); r != nil {
					fmt.Fprintf(os.Stderr, "panic: %v\n", r)
					panic(r)
				}
			}()
		}
		switch {
		case (f[0] == "pat" || f[0] == "rcpat") && len(f) == 4:
			pb, ok := unhx(f[1])
			e, e1 := strconv.Atoi(f[2])
			if !ok || e1 != nil || e < 0 || (f[3] != "0" && f[3] != "1") || strings.IndexByte(string(pb), 0) >= 0 {
				return "bad-op"
			}
			pat := string(pb)
			toks, sane := c10Parse(pat)
			p, err := obiapat.MakeApatPattern(pat, e, f[3] == "1")
			if err == nil && e > 63 {
				fail("budget.overrun", "MakeApatPattern accepts the budget %d > 63 (r[] of ManberSub/ManberIndel would be overrun)", e)
			}
			if err != nil {
				if e > 63 {
					keepErr = true
					stat("pat:budget>63-rejected")
				} else if sane {
					fail("pat.rejected", "well-formed pattern %q rejected: %v", pat, err)
				}
				if f[0] == "pat" {
					return "err"
				}
				return "err0"
			}
			if sane {
				// compiled code words = documented meaning
				_, _, codes, _, _ := obiapat.VerifPatternCode(p)
				if len(codes) != len(toks) {
					fail("pat.length", "pattern %q has %d positions, compiled to %d", pat, len(toks), len(codes))
				} else {
					for i, t := range toks {
						for l := 0; l < 26; l++ {
							if (codes[i]>>uint(l))&1 == 1 != t.set[l] {
								fail("pat.code", "pattern %q position %d (%s): letter %c accepted=%v expected %v", pat, i, t.raw, 'a'+l, !t.set[l], t.set[l])
								break
							}
						}
						if (codes[i]&0x4000000 != 0) != t.oblig {
							fail("pat.oblig", "pattern %q position %d (%s): obligatory flag %v", pat, i, t.raw, !t.oblig)
						}
					}
				}
			}
			if f[0] == "pat" {
				return c10ShowPat(p, false)
			}
			if p.Len() >= c10MaxPatLen {
				return "unmodelled"
			}
			r, err := p.ReverseComplement()
			if err != nil {
				if sane {
					fail("rcpat.rejected", "complement of the well-formed pattern %q fails: %v", pat, err)
				}
				return "err"
			}
			stat("rcpat:ok")
			if r.Len() > p.Len() {
				fail("rcpat.code", "complement of %q has %d positions instead of %d (patcode[] overrun)", pat, r.Len(), p.Len())
				return "ub"
			}
			if sane {
				want := c10RcToks(toks)
				_, cp, codes, _, _ := obiapat.VerifPatternCode(r)
				bad := len(codes) != len(want)
				for i := 0; !bad && i < len(want); i++ {
					for l := 0; l < 26; l++ {
						if (codes[i]>>uint(l))&1 == 1 != want[i].set[l] {
							bad = true
						}
					}
					if (codes[i]&0x4000000 != 0) != want[i].oblig {
						bad = true
					}
				}
				if bad {
					fail("rcpat.code", "complement of %q is %q: not the mirrored pattern (%d positions, expected %d)", pat, cp, len(codes), len(want))
					if len(codes) > len(want) {
						return "ub" // patcode[] was allocated for the original number of positions: heap write past the array
					}
				}
			}
			return c10ShowPat(r, true)

		case f[0] == "budget" && len(f) == 5:
			pb, ok1 := unhx(f[1])
			e, e1 := strconv.Atoi(f[2])
			seq, ok2 := unhx(f[4])
			if !ok1 || !ok2 || e1 != nil || e < 0 || e > 1<<30 || (f[3] != "0" && f[3] != "1") || strings.IndexByte(string(pb), 0) >= 0 {
				return "bad-op"
			}
			if os.Getenv("C10CHILD") == "1" {
				// in the child: the real calls
				p, err := obiapat.MakeApatPattern(string(pb), e, f[3] == "1")
				if err != nil {
					return "err"
				}
				if p.Len() >= c10MaxPatLen {
					return "unmodelled"
				}
				bs := obiseq.NewBioSequence("x", seq, "")
				as, err := obiapat.MakeApatSequence(bs, false)
				if err != nil {
					return "seqerr"
				}
				return "ok " + c10Hits(p.FindAllIndex(as, 0, -1))
			}
			res, crashed := c10Child(c)
			if e > 63 {
				stat("budget:>63")
				if crashed {
					fail("budget.overrun", "MakeApatPattern accepts the budget %d > 63 and the search dies (%s): r[2*MAX_PAT_ERR+2] of ManberSub/ManberIndel overrun", e, res)
					return "crash"
				}
				if res != "err" {
					fail("budget.overrun", "MakeApatPattern accepts the budget %d > 63: the r[2*MAX_PAT_ERR+2] array of ManberSub/ManberIndel is overrun (result %s)", e, res)
				}
			} else if crashed {
				fail("budget.crash", "child died: %s", res)
				return "crash"
			}
			if toks, sane := c10Parse(string(pb)); sane && strings.HasPrefix(res, "ok ") && f[3] == "0" && e > 0 {
				low := bytes.ToLower(seq)
				var want [][3]int
				for i := 0; i+len(toks) <= len(low); i++ {
					if k := c10Hamming(toks, low[i:i+len(toks)]); k <= e {
						want = append(want, [3]int{i, i + len(toks), k})
					}
				}
				if "ok "+c10Hits(want) != res {
					fail("budget.sub", "budget %d: reported %s, Hamming reference %s", e, res, c10Hits(want))
				}
			}
			return res

		case f[0] == "locate" && len(f) == 3:
			p, ok1 := unhx(f[1])
			s, ok2 := unhx(f[2])
			if !ok1 || !ok2 {
				return "bad-op"
			}
			if len(p) >= len(s) {
				stat("locate:pattern-not-shorter")
			}
			from, to, score := obialign.LocatePattern("x", p, s)
			c10CheckLocate(fail, "locate", p, s, from, to, score, 0)
			return fmt.Sprintf("%d %d %d", from, to, score)

		case len(f) == 9 && (f[0] == "find" || f[0] == "filter" || f[0] == "all" || f[0] == "best" || f[0] == "is"):
			pb, ok1 := unhx(f[1])
			e, e1 := strconv.Atoi(f[2])
			seq, ok2 := unhx(f[5])
			begin, e2 := strconv.Atoi(f[7])
			length, e3 := strconv.Atoi(f[8])
			if !ok1 || !ok2 || e1 != nil || e2 != nil || e3 != nil || e < 0 || e > 63 || strings.IndexByte(string(pb), 0) >= 0 {
				return "bad-op"
			}
			for _, k := range []int{3, 4, 6} {
				if f[k] != "0" && f[k] != "1" {
					return "bad-op"
				}
			}
			indel, rc, circ := f[3] == "1", f[4] == "1", f[6] == "1"
			shortCirc := circ && len(seq) < c10MaxPatLen
			if shortCirc {
				stat("circular:short")
			}
			pat := string(pb)
			p0, err := obiapat.MakeApatPattern(pat, e, indel)
			if err != nil {
				return "err"
			}
			toks, sane := c10Parse(pat)
			toks0, sane0 := toks, sane
			p := p0
			if rc {
				if p0.Len() >= c10MaxPatLen {
					return "unmodelled"
				}
				p, err = p0.ReverseComplement()
				if err != nil {
					if sane {
						fail("rcpat.rejected", "complement of the well-formed pattern %q fails: %v", pat, err)
					}
					return "rcerr"
				}
				if p.Len() > p0.Len() {
					fail("rcpat.code", "complement of %q has %d positions instead of %d (patcode[] overrun)", pat, p.Len(), p0.Len())
					return "ub"
				}
				if sane {
					toks = c10RcToks(toks)
				}
			}
			bs := obiseq.NewBioSequence("x", seq, "")
			if shortCirc {
				// A circular sequence shorter than MAX_PAT_LEN: the unrepaired EncodeSequence copied in[0..64) whatever the
				// length, i.e. the bytes that follow the sequence in its (pooled, re-used) buffer.  Make those bytes
				// deterministic and hostile through the public API only: write the sequence followed by instances of the
				// pattern, clear, write the sequence again (what a parser re-using a BioSequence buffer does).
				stale := c10Stale(toks0, sane0)
				bs = obiseq.NewBioSequence("x", append(append([]byte{}, seq...), stale...), "")
				lowseq := append([]byte{}, bs.Sequence()[:len(seq)]...)
				bs.Clear()
				bs.Write(lowseq)
			}
			low := bs.Sequence()
			fresh, err := obiapat.MakeApatSequence(bs, circ)
			if err != nil {
				return "seqerr"
			}
			// the same sequence in an ApatSequence recycled from the previous case
			var rec obiapat.ApatSequence
			if c10Recycled == nil {
				rec, err = obiapat.MakeApatSequence(bs, circ)
			} else {
				rec, err = obiapat.MakeApatSequence(bs, circ, *c10Recycled)
			}
			if err != nil {
				return "seqerr"
			}
			c10Recycled = &rec
			defer fresh.Free()

			m := p.Len()
			n := len(low)
			long := m >= c10MaxPatLen
			if long {
				stat("patlen>=64")
			}
			data := low
			if circ {
				data = append(append([]byte{}, low...), low[:min(c10MaxPatLen, len(low))]...)
			}
			b0, l0 := begin, length
			if b0 < 0 {
				b0 = 0
			}
			if l0 < 0 {
				l0 = n
			}
			wend := b0 + l0 + c10MaxPatLen
			if wend > len(data) {
				wend = len(data)
			}
			var win []byte
			if b0 < wend {
				win = data[b0:wend]
			}
			nonLetter := !c10IsLetters(low)

			raw := p.FindAllIndex(fresh, begin, length)
			raw2 := p.FindAllIndex(rec, begin, length)
			c10Stats(m, e, indel, begin, length, n, b0, wend, circ, seq, raw)
			if c10Hits(raw) != c10Hits(raw2) {
				fail("recycle.differs", "fresh ApatSequence: %s, recycled: %s", c10Hits(raw), c10Hits(raw2))
			}
			sigx := ""
			if long {
				sigx = ".patlen64"
			} else if nonLetter {
				sigx = ".nonletter"
			}

			// ---- oracle on the raw hit list -----------------------------------------------------
			if sane && len(toks) == m {
				if e == 0 || !indel {
					// exactly the positions with Hamming distance <= e, minimal count, in increasing order
					var want [][3]int
					for i := b0; i+m <= wend; i++ {
						if k := c10Hamming(toks, data[i:i+m]); k <= e {
							want = append(want, [3]int{i, i + m, k})
						}
					}
					if c10Hits(want) != c10Hits(raw) {
						fail("find.sub"+sigx, "pattern %q e=%d window [%d,%d): reported %s, Hamming reference %s", pat, e, b0, wend, c10Hits(raw), c10Hits(want))
					}
					stat(fmt.Sprintf("sub:hits=%d", min(len(want), 3)))
				} else {
					noOblig := true
					for _, t := range toks {
						if t.oblig {
							noOblig = false
						}
					}
					if !noOblig {
						// the alignments of `ReachO` (Lemmas/ApatIndelOblig.lean), by an independent DP: an obligatory position is never
						// substituted / deleted and nothing is inserted right after it; in front of the window any prefix is deleted
						best := c10BestEndingOblig(toks, win)
						var want [][3]int
						for q := 1; q <= len(win); q++ {
							if best[q] <= e {
								st := b0 + q - m
								want = append(want, [3]int{st, st + m, best[q]})
							}
						}
						if c10Hits(want) != c10Hits(raw) {
							fail("find.indel-oblig"+sigx, "pattern %q e=%d window [%d,%d): reported %s, constrained edit-distance reference %s", pat, e, b0, wend, c10Hits(raw), c10Hits(want))
						}
						stat(fmt.Sprintf("indel-oblig:hits=%d", min(len(want), 3)))
					}
					if noOblig {
						best := c10BestEnding(m, func(j int, c byte) bool { return c10TokMatch(toks[j], c) }, win)
						var want [][3]int
						for q := 1; q <= len(win); q++ {
							if best[q] <= e {
								st := b0 + q - m
								want = append(want, [3]int{st, st + m, best[q]})
							}
						}
						if c10Hits(want) != c10Hits(raw) {
							fail("find.indel"+sigx, "pattern %q e=%d window [%d,%d): reported %s, edit-distance reference (best substring ending at each position) %s", pat, e, b0, wend, c10Hits(raw), c10Hits(want))
						}
						stat(fmt.Sprintf("indel:hits=%d", min(len(want), 3)))
					}
				}
			}
			// ---- reverse-complement symmetry: complemented pattern on s == pattern on rc(s), mirrored ------
			if rc && !circ && begin <= 0 && length < 0 && !long {
				rs := obiseq.NewBioSequence("r", low, "").ReverseComplement(false)
				ra, err := obiapat.MakeApatSequence(rs, false)
				if err == nil {
					other := p0.FindAllIndex(ra, 0, -1)
					ra.Free()
					mir := make([][3]int, len(other))
					for i, h := range other {
						mir[len(other)-1-i] = [3]int{n - h[1], n - h[0], h[2]}
					}
					if strings.IndexByte(string(low), 'u') >= 0 && sigx == "" {
						sigx = ".u" // the complement of sequence symbol u is a, but pattern T/U does not accept u
					}
					if (e == 0 || !indel) && c10Hits(mir) != c10Hits(raw) {
						fail("find.revcomp"+sigx, "complemented pattern on s: %s; pattern on rc(s), mirrored: %s", c10Hits(raw), c10Hits(mir))
					}
					hasOblig := strings.IndexByte(pat, '#') >= 0 // '#' with indels: the automaton gates ins/del by the obligatory mask, not strand-symmetric, only tied by correspondence
					if indel && e > 0 && !hasOblig && (len(mir) == 0) != (len(raw) == 0) {
						fail("find.revcomp-indel"+sigx, "complemented pattern on s: %s; pattern on rc(s), mirrored: %s", c10Hits(raw), c10Hits(mir))
					}
					// match_revcomp_indel (round 3): for EVERY error level K a hit with <= K errors exists on one strand iff on the
					// other, i.e. the least error count over the hits is the same on both strands
					if indel && e > 0 && !hasOblig && len(mir) > 0 && len(raw) > 0 {
						minOf := func(hs [][3]int) int {
							b := hs[0][2]
							for _, h := range hs {
								b = min(b, h[2])
							}
							return b
						}
						if minOf(mir) != minOf(raw) {
							fail("find.revcomp-indel"+sigx, "least error count: complemented pattern on s %d (%s); pattern on rc(s) %d (%s)", minOf(raw), c10Hits(raw), minOf(mir), c10Hits(mir))
						}
						stat(fmt.Sprintf("revcomp-indel:min-err=%d", min(minOf(raw), 3)))
					}
					stat("revcomp-symmetry")
				}
			}

			sigc := sigx // AllMatches / BestMatch re-align on the linear sequence: hits in the circular extension are a class of their own
			if circ {
				sigc += ".circular"
			}
			switch f[0] {
			case "find":
				if long {
					return "unmodelled"
				}
				return c10Hits(raw)
			case "is":
				r := p.IsMatching(fresh, begin, length)
				if r != (len(raw) > 0) {
					fail("is.differs", "IsMatching %v but FindAllIndex %s", r, c10Hits(raw))
				}
				if long {
					return "unmodelled"
				}
				if r {
					return "1"
				}
				return "0"
			case "filter":
				r := p.FilterBestMatch(fresh, begin, length)
				// every kept hit is a raw hit; kept hits do not overlap (start-err .. end+err)
				for i, h := range r {
					found := false
					for _, x := range raw {
						if x == h {
							found = true
						}
					}
					if !found {
						fail("filter.invented", "%v is not in %s", h, c10Hits(raw))
					}
					if i > 0 && h[0]-h[2] < r[i-1][1]+r[i-1][2] {
						fail("filter.overlap", "%v overlaps %v", h, r[i-1])
					}
				}
				if (len(r) == 0) != (len(raw) == 0) {
					fail("filter.empty", "raw %s filtered %s", c10Hits(raw), c10Hits(r))
				}
				if long {
					return "unmodelled"
				}
				return c10Hits(r)
			case "all":
				r := p.AllMatches(fresh, begin, length)
				plain := c10PlainIupac(pat) && !rc
				for _, h := range r {
					if h[0] < 0 || h[0] > h[1] || h[1] > len(data) {
						fail("all.span"+sigc, "span [%d,%d) is not inside the sequence of length %d", h[0], h[1], len(data))
						continue
					}
					if h[2] > e {
						fail("all.budget"+sigc, "reported %d errors with budget %d", h[2], e)
					}
					if sane && len(toks) == m && !circ {
						var d int
						if indel && e > 0 {
							if !plain {
								continue
							}
							d = c10Edit(m, func(j int, c byte) bool { return c10TokMatch(toks[j], c) }, low[h[0]:h[1]])
							if d != h[2] {
								// the re-aligner's own reading of IUPAC (two symbols match when they share a base) is accepted too
								d = c10Edit(m, func(j int, c byte) bool { return c10Compat(pat[j], c) }, low[h[0]:h[1]])
								if d == h[2] {
									stat("observed:all.errcount-by-samenuc(sequence-ambiguity-code)")
								}
							}
						} else {
							if h[1]-h[0] != m {
								fail("all.span"+sigc, "span [%d,%d) has not the pattern length", h[0], h[1])
								continue
							}
							d = c10Hamming(toks, low[h[0]:h[1]])
						}
						if d != h[2] {
							vs := ""
							if strings.ContainsAny(strings.ToUpper(pat), "V") {
								vs = ".v"
							}
							fail("all.errcount"+vs+sigc, "span [%d,%d) = %q reported with %d errors, distance to %q is %d", h[0], h[1], low[h[0]:h[1]], h[2], pat, d)
						}
					}
				}
				if sane && len(toks) == m && plain && indel && e > 0 && !long {
					best := c10BestEnding(m, func(j int, c byte) bool { return c10TokMatch(toks[j], c) }, win)
					exists := false
					for q := 1; q <= len(win); q++ {
						if best[q] <= e {
							exists = true
						}
					}
					if exists != (len(r) > 0) {
						fail("all.iff"+sigc, "a substring within %d edits exists: %v; AllMatches reports %s", e, exists, c10Hits(r))
					}
					// completeness with locality (theorem allMatches_complete): every end position Q whose best substring is within
					// the budget (k edits) is represented by a returned match with at most k errors lying around it: the kept hit h is
					// linked to the raw hit r = (Q-m, Q, k) by a chain (h.start > r.start-m-2e; at most e replacements, each moving the
					// start right by less than m+2e) and the re-alignment fragment of h is inside [h.start-2e, h.start+m+4e)
					if !circ {
						for q := 1; q <= len(win); q++ {
							if best[q] > e {
								continue
							}
							Q := b0 + q
							ok := false
							for _, x := range r {
								if x[2] <= best[q] && x[0] > Q-2*m-4*e-1 && x[1] < Q+e*(m+2*e)+m+6*e+1 {
									ok = true
								}
							}
							if !ok {
								fail("all.cover"+sigc, "a substring ending at %d is within %d edits of %q but no returned match with <= %d errors lies around it: %s", Q, best[q], pat, best[q], c10Hits(r))
								break
							}
						}
						stat("all:cover-checked")
					}
				}
				if c10IupacPlusX(pat) && !rc && indel && e > 0 && !circ && !long && len(raw) > 0 && len(r) == 0 {
					// OBSERVATION (proposed finding, see lib/cfg/C10.py): pattern letter X is compiled as "any base" (sDnaCode) but
					// _samenuc knows no X (_iupac['x'] = 0): the re-alignment counts every X as an error and the match is dropped
					stat("observed:all.x-pattern-match-dropped")
				}
				if long {
					return "unmodelled"
				}
				return c10Hits(r)
			case "best":
				st, en, nerr, matched := p.BestMatch(fresh, begin, length)
				if !circ && !long && matched != (len(raw) > 0) {
					// completeness: on a linear sequence every raw hit ends inside the sequence, so BestMatch has a match to report
					// whenever FindAllIndex has one (defect found in round 2: a best hit with a shifted, negative start was discarded)
					fail("best.iff"+sigx, "FindAllIndex reports %s but BestMatch says matched=%v", c10Hits(raw), matched)
				}
				if matched {
					if st < 0 || st > en || en > n {
						fail("best.span"+sigc, "span [%d,%d) is not inside the sequence of length %d", st, en, n)
					} else if sane && len(toks) == m && c10PlainIupac(pat) && !rc && !circ {
						d := c10Edit(m, func(j int, c byte) bool { return c10TokMatch(toks[j], c) }, low[st:en])
						if d != nerr {
							d = c10Edit(m, func(j int, c byte) bool { return c10Compat(pat[j], c) }, low[st:en])
						}
						if !(indel && e > 0) {
							d = c10Inf
							if en-st == m {
								d = c10Hamming(toks, low[st:en])
							}
						}
						if d != nerr {
							fail("best.errcount"+sigc, "span [%d,%d) = %q reported with %d errors, distance to %q is %d", st, en, low[st:en], nerr, pat, d)
						}
					}
				}
				if matched && nerr > e && c10IupacPlusX(pat) {
					stat("observed:best.x-pattern-errcount>budget")
				}
				if matched && nerr > e && c10PlainIupac(pat) && !rc && !circ {
					fail("best.budget"+sigc, "BestMatch reports %d errors with budget %d", nerr, e)
				}
				if long {
					return "unmodelled"
				}
				mm := 0
				if matched {
					mm = 1
				}
				return fmt.Sprintf("%d %d %d %d", st, en, nerr, mm)
			}
		}
		return "bad-op"
	})
	if res == "panic" {
		switch f[0] {
		case "all", "best":
			if len(f) == 9 && f[6] == "1" {
				fail(f[0]+".panic.circular", "panic on a circular sequence")
			} else {
				fail(f[0]+".panic", "panic")
			}
		case "locate":
			p, _ := unhx(f[1])
			s, _ := unhx(f[2])
			if len(p) > 0 {
				fail("locate.panic", "panic (pattern of %d symbols, sequence of %d)", len(p), len(s))
			}
		default:
			fail(f[0]+".panic", "panic")
		}
	}
	if res == "bad-op" || ((res == "err" || res == "err0") && !keepErr) {
		caseTrivial = true
	}
	return res, fails
}

// c10Child runs one case line in a child process (the harness itself in exec mode) and returns its result; crashed = the
// child did not answer (killed by a signal, abort() of the stack protector, ...): the text is then the end of its stderr
func c10Child(line string) (string, bool) {
	cmd := exec.Command(os.Args[0], "C10", "exec")
	cmd.Env = append(os.Environ(), "C10CHILD=1")
	cmd.Stdin = strings.NewReader(line + "\n")
	var out, errb bytes.Buffer
	cmd.Stdout = &out
	cmd.Stderr = &errb
	err := cmd.Run()
	for _, l := range strings.Split(out.String(), "\n") {
		f := strings.Split(l, "\t")
		if len(f) >= 3 && f[0] == "C" {
			return f[2], false
		}
	}
	msg := strings.TrimSpace(errb.String())
	if i := strings.IndexByte(msg, '\n'); i >= 0 {
		msg = msg[:i]
	}
	if len(msg) > 80 {
		msg = msg[:80]
	}
	return fmt.Sprintf("%v: %s", err, msg), true
}

// generator / branch statistics of one search
func c10Stats(m, e int, indel bool, begin, length, n, b0, wend int, circ bool, seq []byte, raw [][3]int) {
	switch {
	case m == 1, m == 31, m == 32, m == 33, m == 63:
		stat(fmt.Sprintf("patlen:%d", m))
	case m < 31:
		stat("patlen:2-30")
	case m < 63:
		stat("patlen:34-62")
	default:
		stat("patlen:>=64")
	}
	switch {
	case e == 0:
		stat("budget:0")
	case e >= m:
		stat("budget:>=patlen")
	case e > 4:
		stat("budget:5..patlen-1")
	default:
		stat("budget:1-4")
	}
	mode := "sub"
	if e == 0 {
		mode = "noerr"
	} else if indel {
		mode = "indel"
	}
	stat("kernel:" + mode)
	if n < m {
		stat("seq:shorter-than-pattern")
	}
	if n == 0 {
		stat("seq:empty")
	}
	for _, c := range seq {
		if c >= 'A' && c <= 'Z' {
			stat("seq:upper-case")
			break
		}
	}
	for _, c := range seq {
		if !(c >= 'a' && c <= 'z') && !(c >= 'A' && c <= 'Z') {
			stat("seq:non-letter")
			break
		}
	}
	if begin > 0 {
		stat("window:begin>0")
	}
	if begin < 0 {
		stat("window:begin<0")
	}
	if begin >= n && n > 0 {
		stat("window:begin-beyond-end")
	}
	if length >= 0 && b0+length+c10MaxPatLen < n {
		stat("window:end-inside-sequence")
	}
	for _, h := range raw {
		if h[0] == b0 && b0 > 0 {
			stat("hit:at-window-start(begin>0)")
		}
		if h[0] == 0 {
			stat("hit:at-offset-0")
		}
		if h[0] < 0 {
			stat("hit:negative-start(indel)")
		}
		if h[1] == n && !circ {
			stat("hit:touching-sequence-end")
		}
		if h[1] == wend && wend < n {
			stat("hit:touching-window-end")
		}
		if circ && h[0] < n && h[1] > n {
			stat("hit:across-circular-origin")
		}
		if circ && h[0] >= n {
			stat("hit:in-circular-extension")
		}
		if h[0] >= 10000 {
			stat("hit:beyond-10000")
		}
	}
	if len(raw) == 0 {
		stat("hits:none")
	}
}

// least cost, for every end position q of w, of an alignment of the token list with a suffix of w[:q] in which an
// obligatory position is matched exactly (never substituted, never deleted) and is not followed by an inserted symbol;
// exception: in front of w any prefix of the pattern may be deleted (what ManberIndel's init loop sets up)
func c10BestEndingOblig(toks []c10Tok, w []byte) []int {
	m := len(toks)
	prev := make([]int, m+1) // column t-1
	cur := make([]int, m+1)
	for j := range prev {
		prev[j] = j
	}
	out := make([]int, len(w)+1)
	out[0] = m
	for t := 1; t <= len(w); t++ {
		cur[0] = 0
		for j := 1; j <= m; j++ {
			d := c10Inf
			if c10TokMatch(toks[j-1], w[t-1]) {
				d = prev[j-1]
			}
			if !toks[j-1].oblig {
				if prev[j]+1 < d { // insertion of w[t-1] after position j
					d = prev[j] + 1
				}
				if prev[j-1]+1 < d { // substitution
					d = prev[j-1] + 1
				}
				if cur[j-1]+1 < d { // deletion of position j
					d = cur[j-1] + 1
				}
			}
			cur[j] = d
		}
		out[t] = cur[m]
		prev, cur = cur, prev
	}
	return out
}

// oracle for LocatePattern(p, s) = (from, to, score): span inside s, score = edit distance (with the aligner's own
// IUPAC compatibility: the two symbols share a base) between p and s[from:to], and that is the best over all substrings
func c10CheckLocate(fail func(string, string, ...any), sig string, p, s []byte, from, to, score, off int) {
	match := func(j int, c byte) bool { return c10Compat(p[j], c) }
	vs := ""
	if strings.ContainsAny(string(p), "Vv") || strings.ContainsAny(string(s), "Vv") {
		vs = ".v"
	}
	if from < 0 || from > to || to > len(s) {
		fail(sig+".span", "LocatePattern(%q, %q) = [%d,%d) score %d: not a span of the fragment", p, s, from, to, score)
		return
	}
	if d := c10Edit(len(p), match, s[from:to]); d != score {
		fail(sig+".errcount"+vs, "LocatePattern(%q, %q) = [%d,%d) = %q score %d: edit distance is %d", p, s, from, to, s[from:to], score, d)
	}
	best := c10BestEnding(len(p), match, s)
	mn := c10Inf
	for _, b := range best {
		if b < mn {
			mn = b
		}
	}
	if mn != score {
		fail(sig+".best"+vs, "LocatePattern(%q, %q) score %d: the best substring has distance %d", p, s, score, mn)
	}
}

// the aligner's reading of IUPAC: two symbols are compatible when they share a base
func c10Compat(a, b byte) bool {
	ia, oka := c10Iupac[a&^0x20]
	ib, okb := c10Iupac[b&^0x20]
	if !oka || !okb {
		return (a | 0x20) == (b | 0x20)
	}
	return strings.ContainsAny(ia, ib)
}
