module verifharness

go 1.23.1

require (
	git.metabarcoding.org/obitools/obitools4/obitools4 v0.0.0
	github.com/DavidGamba/go-getoptions v0.28.0
	github.com/dsnet/compress v0.0.1
	github.com/goccy/go-json v0.10.3
	github.com/klauspost/compress v1.17.2
	github.com/sirupsen/logrus v1.9.3
	github.com/ulikunitz/xz v0.5.11
)

require (
	github.com/PaesslerAG/gval v1.2.2 // indirect
	github.com/barkimedes/go-deepcopy v0.0.0-20220514131651-17c30cfc62df // indirect
	github.com/gabriel-vasile/mimetype v1.4.3 // indirect
	github.com/goombaio/orderedmap v0.0.0-20180924084748-ba921b7e2419 // indirect
	github.com/goombaio/orderedset v0.0.0-20180925151225-8e67b20a9b77 // indirect
	github.com/klauspost/pgzip v1.2.6 // indirect
	github.com/mattn/go-runewidth v0.0.15 // indirect
	github.com/mitchellh/colorstring v0.0.0-20190213212951-d06e56a500db // indirect
	github.com/pbnjay/memory v0.0.0-20210728143218-7b4eea64cf58 // indirect
	github.com/rivo/uniseg v0.4.4 // indirect
	github.com/rrethy/ahocorasick v1.0.0 // indirect
	github.com/schollz/progressbar/v3 v3.13.1 // indirect
	github.com/shopspring/decimal v1.3.1 // indirect
	github.com/tevino/abool/v2 v2.1.0 // indirect
	golang.org/x/exp v0.0.0-20231006140011-7918f672742d // indirect
	golang.org/x/net v0.17.0 // indirect
	golang.org/x/sys v0.17.0 // indirect
	golang.org/x/term v0.13.0 // indirect
	gonum.org/v1/gonum v0.14.0 // indirect
	scientificgo.org/special v0.0.0 // indirect
)

replace git.metabarcoding.org/obitools/obitools4/obitools4 => /tmp/c08conc
