//go:build c19

package main

// C19, glue pass — the COMMANDS obikmersimcount / obikmermatch (pkg/obitools/obikmersim) through their real path:
// the real option parser (obioptions.GenerateOptionParser(CountOptionSet | MatchOptionSet)) on a real argv, the
// references read from a FASTA file by CLIReference, the reads either read from a file by
// obiconvert.CLIReadBioSequences or given as batches, NilIBioSequence with --self as cmd/obitools/*/main.go does,
// then CLILookForSharedKmers / CLIAlignSequences and the annotations of the records that come out.
//
//	ks <count|match> <form> <k|d> <sparse> <min|d> <maxocc|d> <self> <ncpu> <batch> <obs> <nref> <hexref>… <hexread>…
//	   form  bit 0: option aliases (-k -S -m -M -s -r) instead of the long names; bit 1: reads from a file
//	   d     option absent from the command line (defaults 30 / 1 / -1)
//	   obs   match only: for every read, 1 when the command wrote at least one record for it (data for the model: the
//	         alignment filter is C08's subject, not modelled here); `-` for count, `?` as emitted by the generator
//
// Result  count: `k=<obikmer_kmer_size> sp=<obikmer_sparse_kmer> n=<obikmer_match_count of every read, in order>`
//         match: `n=<obikmer_match_count of the records written for every read, - when none>`
//         `fatal` when the command refuses the k-mer size (2 x effective k > 128 bits, patch C19-kmersim-kmer-too-large)
// Oracles (brute force on the raw strings, independent of the index, of the word type and of the glue):
//   cli.match-count     obikmer_match_count differs from the number of references (other than the read itself) sharing
//                       at least max(1, min-1) canonical k-mer occurrences (the rule of FilterMinCount on shared+1), the
//                       k-mers occurring maxocc times or more in the references being ignored
//   cli.kmer-size / cli.sparse-flag   the annotations differ from the effective k (odd sparse / even dense) / the mode
//   cli.strand          a read and its reverse complement (both in the case) get different counts
//   cli.records         a read is missing from the output, duplicated, or (--self) the output is not the references
//   cli.match.id        obikmermatch: a record names a reference that is not one of the expected candidates, or twice
//   cli.match.count-inconsistent   obikmermatch: two records of one read carry different counts
//   cli.kmer-too-wide   the command answers although the effective k-mer does not fit the 128-bit word

import (
	"fmt"
	"math/rand"
	"os"
	"path/filepath"
	"runtime"
	"sort"
	"strconv"
	"strings"
	"time"

	"git.metabarcoding.org/obitools/obitools4/obitools4/pkg/obiiter"
	"git.metabarcoding.org/obitools/obitools4/obitools4/pkg/obioptions"
	"git.metabarcoding.org/obitools/obitools4/obitools4/pkg/obiseq"
	"git.metabarcoding.org/obitools/obitools4/obitools4/pkg/obitools/obiconvert"
	"git.metabarcoding.org/obitools/obitools4/obitools4/pkg/obitools/obikmersim"
	log "github.com/sirupsen/logrus"
)

type c19GlueCase struct {
	cmd                   string
	form                  int
	k, min, maxocc        int // -1000 = absent
	sparse, self          bool
	ncpu, batch, nref     int
	refs, reads           [][]byte
	kEff                  int
	effMin, effMax, kUsed int
}

const c19Absent = -1000

func c19GlueParse(f []string) (c c19GlueCase, ok bool) {
	if len(f) < 12 || (f[1] != "count" && f[1] != "match") {
		return c, false
	}
	c.cmd = f[1]
	num := func(s string, lo, hi int, abs bool) (int, bool) {
		if abs && s == "d" {
			return c19Absent, true
		}
		v, err := strconv.Atoi(s)
		if err != nil || v < lo || v > hi || strconv.Itoa(v) != s {
			return 0, false
		}
		return v, true
	}
	var o [7]bool
	c.form, o[0] = num(f[2], 0, 3, false)
	c.k, o[1] = num(f[3], 0, 90, true)
	c.min, o[2] = num(f[5], -3, 1000, true)
	c.maxocc, o[3] = num(f[6], -1, 1000, true)
	c.ncpu, o[4] = num(f[8], 2, 16, false)
	c.batch, o[5] = num(f[9], 1, 5000, false)
	c.nref, o[6] = num(f[11], 0, 200, false)
	for _, b := range o {
		if !b {
			return c, false
		}
	}
	if (f[4] != "0" && f[4] != "1") || (f[7] != "0" && f[7] != "1") {
		return c, false
	}
	c.sparse, c.self = f[4] == "1", f[7] == "1"
	if len(f)-12 < c.nref {
		return c, false
	}
	for i, h := range f[12:] {
		s, ok := unhx(h)
		if !ok || len(s) == 0 || len(s) > 2000 {
			return c, false
		}
		for _, b := range s { // letters only: the sequences go through the FASTA reader
			if !(b >= 'a' && b <= 'z') && !(b >= 'A' && b <= 'Z') {
				return c, false
			}
		}
		if i < c.nref {
			c.refs = append(c.refs, s)
		} else {
			c.reads = append(c.reads, s)
		}
	}
	c.kUsed, c.effMin, c.effMax = c.k, c.min, c.maxocc
	if c.k == c19Absent {
		c.kUsed = 30
	}
	if c.min == c19Absent {
		c.effMin = 1
	}
	if c.maxocc == c19Absent {
		c.effMax = -1
	}
	c.kEff = c.kUsed
	if c.sparse && c.kEff%2 == 0 {
		c.kEff++
	}
	if !c.sparse && c.kEff%2 == 1 {
		c.kEff--
	}
	return c, true
}

func (c c19GlueCase) argv(refFile string) []string {
	long := c.form&1 == 0
	name := func(l, s string) string {
		if long {
			return "--" + l
		}
		return "-" + s
	}
	a := []string{"verif", "--max-cpu", strconv.Itoa(c.ncpu), "--batch-size", strconv.Itoa(c.batch)}
	if c.k != c19Absent {
		a = append(a, name("kmer-size", "k"), strconv.Itoa(c.k))
	}
	if c.sparse {
		a = append(a, name("sparse", "S"))
	}
	// go-getoptions refuses a separate argument that starts with '-': negative values are written --name=-1
	if c.min != c19Absent && c.min < 0 {
		a = append(a, "--min-shared-kmers="+strconv.Itoa(c.min))
	} else if c.min != c19Absent {
		a = append(a, name("min-shared-kmers", "m"), strconv.Itoa(c.min))
	}
	if c.maxocc != c19Absent && c.maxocc < 0 {
		a = append(a, "--max-kmers="+strconv.Itoa(c.maxocc))
	} else if c.maxocc != c19Absent {
		a = append(a, name("max-kmers", "M"), strconv.Itoa(c.maxocc))
	}
	if c.self {
		a = append(a, name("self", "s"))
	}
	return append(a, name("reference", "r"), refFile)
}

// canonical k-mers of a sequence as strings (c19NaiveCanon on big integers, printed with their length: the sparse
// k-mers of one case all have the same number of digits)
func c19GlueCanon(s []byte, k int, sparse bool) []string {
	if k < 1 {
		return nil
	}
	v := c19NaiveCanon(c19Lower(s), k, sparse)
	out := make([]string, len(v))
	for i, x := range v {
		out[i] = x.Text(16)
	}
	return out
}

// expected set of matched references of a query (qself = its index among the references, -1 for a read)
func c19GlueExpect(c c19GlueCase, refK []map[string]int, total map[string]int, q []byte, qself int, min int) []int {
	var out []int
	qk := c19GlueCanon(q, c.kEff, c.sparse)
	for j := range c.refs {
		if j == qself {
			continue
		}
		shared := 0
		for _, x := range qk {
			if c.effMax >= 0 && total[x] >= c.effMax {
				continue
			}
			shared += refK[j][x]
		}
		if shared > 0 && shared+1 >= min {
			out = append(out, j)
		}
	}
	return out
}

type c19GlueRec struct {
	id      string
	n       int
	hasN    bool
	ks      int
	hasKs   bool
	sp      bool
	hasSp   bool
	matchID string
}

func c19GlueFasta(path, prefix string, seqs [][]byte) error {
	var sb strings.Builder
	for i, s := range seqs {
		fmt.Fprintf(&sb, ">%s%d\n%s\n", prefix, i, s)
	}
	return os.WriteFile(path, []byte(sb.String()), 0o644)
}

// the real command path, in process
func c19GlueRun(c c19GlueCase, dir string) (recs []c19GlueRec, err error) {
	refFile := filepath.Join(dir, "refs.fasta")
	readFile := filepath.Join(dir, "reads.fasta")
	if err = c19GlueFasta(refFile, "ref", c.refs); err != nil {
		return
	}
	if err = c19GlueFasta(readFile, "read", c.reads); err != nil {
		return
	}
	cpu0, bs0, procs0 := obioptions.CLIMaxCPU(), obioptions.CLIBatchSize(), runtime.GOMAXPROCS(0)
	defer func() {
		obioptions.SetMaxCPU(cpu0)
		obioptions.SetBatchSize(bs0)
		runtime.GOMAXPROCS(procs0)
		log.SetLevel(log.PanicLevel)
	}()
	obikmersim.VerifResetOptions()
	set := obikmersim.CountOptionSet
	if c.cmd == "match" {
		set = obikmersim.MatchOptionSet
	}
	_, args := obioptions.GenerateOptionParser(set)(append(c.argv(refFile), readFile))
	log.SetLevel(log.PanicLevel)
	runtime.GOMAXPROCS(procs0)

	// cmd/obitools/obikmersimcount/main.go, obikmermatch/main.go
	sequences := obiiter.NilIBioSequence
	if !obikmersim.CLISelf() {
		if c.form&2 != 0 {
			sequences, err = obiconvert.CLIReadBioSequences(args...)
			if err != nil {
				return
			}
		} else {
			slice := obiseq.MakeBioSequenceSlice(0)
			for i, s := range c.reads {
				slice = append(slice, obiseq.NewBioSequence(fmt.Sprintf("read%d", i), append([]byte{}, s...), ""))
			}
			sequences = obiiter.IBatchOver("reads", slice, obioptions.CLIBatchSize())
		}
	}
	var res obiiter.IBioSequence
	if c.cmd == "count" {
		res = obikmersim.CLILookForSharedKmers(sequences)
	} else {
		res = obikmersim.CLIAlignSequences(sequences)
	}
	for res.Next() {
		for _, s := range res.Get().Slice() {
			r := c19GlueRec{id: s.Id()}
			r.n, r.hasN = s.GetIntAttribute("obikmer_match_count")
			if v, ok := s.GetAttribute("obikmer_kmer_size"); ok { // a uint
				if x, err := strconv.Atoi(fmt.Sprint(v)); err == nil {
					r.ks, r.hasKs = x, true
				}
			}
			if v, ok := s.GetAttribute("obikmer_sparse_kmer"); ok {
				r.sp, r.hasSp = v.(bool)
			}
			r.matchID, _ = s.GetStringAttribute("obikmer_match_id")
			recs = append(recs, r)
		}
	}
	return
}

func c19ExecGlue(f []string, fail func(sig, format string, a ...any)) string {
	c, ok := c19GlueParse(f)
	if !ok {
		return "bad-op"
	}
	dir, err := os.MkdirTemp("", "c19glue")
	if err != nil {
		return "bad-op"
	}
	defer os.RemoveAll(dir)
	stat("ks:" + c.cmd)
	stat(fmt.Sprintf("ks:k=%d", c.kEff))
	if c.sparse {
		stat("ks:sparse")
	}
	if c.self {
		stat("ks:self")
	}
	if c.effMax >= 0 {
		stat("ks:limit")
	}
	if c.kEff < 1 {
		caseTrivial = true
	}

	var recs []c19GlueRec
	var runErr error
	outcome := guardT(30*time.Second, func() string {
		recs, runErr = c19GlueRun(c, dir)
		return "ok"
	})
	obs := "-"
	queries, prefix := c.reads, "read"
	if c.self {
		queries, prefix = c.refs, "ref"
	}
	line := func() {
		caseOverride = strings.Join(f[:10], " ") + " " + obs + " " + strings.Join(f[11:], " ")
	}
	tooWide := 2*c.kEff > 128
	if outcome != "ok" {
		stat("ks:" + outcome)
		line()
		if outcome == "fatal" && tooWide {
			stat("ks:refused-too-wide")
			return "fatal"
		}
		fail("cli."+outcome, "%s ended with %s (k=%d sparse=%v)", c.cmd, outcome, c.kUsed, c.sparse)
		return outcome
	}
	if runErr != nil {
		line()
		fail("cli.error", "%v", runErr)
		return "error"
	}

	// ---- the brute-force expectation
	refK := make([]map[string]int, len(c.refs))
	total := map[string]int{}
	for j, r := range c.refs {
		refK[j] = map[string]int{}
		for _, x := range c19GlueCanon(r, c.kEff, c.sparse) {
			refK[j][x]++
			total[x]++
		}
	}
	expect := make([][]int, len(queries))
	for i, q := range queries {
		qself := -1
		if c.self {
			qself = i
		}
		expect[i] = c19GlueExpect(c, refK, total, q, qself, c.effMin)
		if doc := c19GlueExpect(c, refK, total, q, qself, c.effMin+1); len(doc) != len(expect[i]) {
			// the documented reading of --min-shared-kmers (at least min shared k-mers) would give another count:
			// Query reports shared+1 and FilterMinCount compares that with min (observation, outside C19's statement)
			stat("ks:min-shared-off-by-one-visible")
		}
		stat(fmt.Sprintf("ks:expect-n=%d", min(len(expect[i]), 4)))
	}

	// ---- the records
	byID := map[string][]c19GlueRec{}
	for _, r := range recs {
		byID[r.id] = append(byID[r.id], r)
	}
	known := map[string]bool{}
	cells := make([]string, len(queries))
	mask := make([]string, len(queries))
	ksOut, spOut := "-", "-"
	for i := range queries {
		id := fmt.Sprintf("%s%d", prefix, i)
		known[id] = true
		rs := byID[id]
		cells[i], mask[i] = "-", "0"
		if c.cmd == "count" {
			if len(rs) != 1 {
				fail("cli.records", "%d records written for %s (expected 1)", len(rs), id)
				continue
			}
		}
		if len(rs) == 0 {
			continue
		}
		mask[i] = "1"
		r0 := rs[0]
		if !r0.hasN {
			fail("cli.records", "%s has no obikmer_match_count", id)
			continue
		}
		cells[i] = strconv.Itoa(r0.n)
		if tooWide {
			continue
		}
		if r0.n != len(expect[i]) {
			fail("cli.match-count", "%s %s (k=%d sparse=%v min=%d maxocc=%d self=%v): obikmer_match_count=%d, %d references share the required canonical k-mers %v",
				id, c19Lower(queries[i]), c.kUsed, c.sparse, c.effMin, c.effMax, c.self, r0.n, len(expect[i]), expect[i])
		}
		if c.cmd == "count" {
			if !r0.hasKs || r0.ks != c.kEff {
				fail("cli.kmer-size", "%s: obikmer_kmer_size=%d (present %v), effective k %d", id, r0.ks, r0.hasKs, c.kEff)
			}
			if !r0.hasSp || r0.sp != (c.sparse && c.kEff >= 1) {
				fail("cli.sparse-flag", "%s: obikmer_sparse_kmer=%v (present %v), sparse %v", id, r0.sp, r0.hasSp, c.sparse)
			}
			if r0.hasKs {
				ksOut = strconv.Itoa(r0.ks)
			}
			if r0.hasSp {
				spOut = map[bool]string{true: "1", false: "0"}[r0.sp]
			}
			continue
		}
		// match: every record of the read carries the number of candidates and names a distinct candidate
		want := map[string]bool{}
		for _, j := range expect[i] {
			want[fmt.Sprintf("ref%d", j)] = true
		}
		seen := map[string]bool{}
		for _, r := range rs {
			if r.n != r0.n {
				fail("cli.match.count-inconsistent", "%s: records with obikmer_match_count %d and %d", id, r0.n, r.n)
			}
			ref := strings.TrimSuffix(r.matchID, "-rev")
			if !want[ref] || seen[ref] {
				fail("cli.match.id", "%s: record for %q, expected candidates %v (each once)", id, r.matchID, expect[i])
			}
			seen[ref] = true
		}
		stat("ks:match-records")
	}
	for id := range byID {
		if !known[id] {
			fail("cli.records", "unexpected record %q in the output", id)
		}
	}
	if tooWide {
		fail("cli.kmer-too-wide", "%s answers with k=%d sparse=%v: the effective k-mer size %d needs %d bits, the index word has 128 (counts %s)",
			c.cmd, c.kUsed, c.sparse, c.kEff, 2*c.kEff, strings.Join(cells, ","))
	}
	// strand invariance at the level of the command: a read and its reverse complement, both in the case
	pos := map[string]int{}
	for i, q := range queries {
		pos[string(c19Lower(q))] = i
	}
	for i, q := range queries {
		if j, ok := pos[c19RcStr(string(c19Lower(q)))]; ok && j != i && !c.self {
			stat("ks:strand-pair")
			if cells[i] != cells[j] && cells[i] != "-" && cells[j] != "-" {
				fail("cli.strand", "read%d and its reverse complement read%d: counts %s and %s", i, j, cells[i], cells[j])
			}
		}
	}
	cellStr := "-"
	if len(cells) > 0 {
		cellStr = strings.Join(cells, ",")
	}
	if c.cmd == "match" {
		obs = "-"
		if len(mask) > 0 {
			obs = strings.Join(mask, ",")
		}
		line()
		return "n=" + cellStr
	}
	line()
	return fmt.Sprintf("k=%s sp=%s n=%s", ksOut, spOut, cellStr)
}

// ---------------------------------------------------------------------------------------------
// generator

func c19GlueMut(rng *rand.Rand, s []byte, at int) []byte {
	o := append([]byte{}, s...)
	for {
		b := "acgt"[rng.Intn(4)]
		if b != o[at] {
			o[at] = b
			return o
		}
	}
}

func c19GlueEff(k int, sparse bool) int {
	if sparse && k%2 == 0 {
		return k + 1
	}
	if !sparse && k%2 == 1 {
		return k - 1
	}
	return k
}

// one case for (k, sparse): references and reads built so that every glue parameter taken from the wrong layer shows
func c19GlueCaseFor(rng *rand.Rand, cmd string, k int, sparse bool, min, maxocc string, self bool) string {
	ke := c19GlueEff(k, sparse)
	if k < 0 {
		ke = c19GlueEff(30, sparse)
	}
	if ke < 1 {
		ke = 1
	}
	alpha := "acgt"
	nref := 3 + rng.Intn(4)
	var refs [][]byte
	for i := 0; i < nref; i++ {
		refs = append(refs, c19RandSeq(rng, ke+8+rng.Intn(50), alpha, 0))
	}
	if rng.Intn(3) == 0 { // a reference twice (two records): every k-mer of it occurs twice in the index
		refs = append(refs, append([]byte{}, refs[rng.Intn(nref)]...))
	}
	if rng.Intn(3) == 0 { // a reference shorter than k, one of exactly k bases
		refs = append(refs, c19RandSeq(rng, 1+rng.Intn(ke), alpha, 0))
		r := refs[rng.Intn(nref)]
		p := rng.Intn(len(r) - ke + 1)
		refs = append(refs, append([]byte{}, r[p:p+ke]...))
	}
	if rng.Intn(4) == 0 { // ambiguity code / upper case in a reference
		r := refs[rng.Intn(len(refs))]
		r[rng.Intn(len(r))] = "nryswkmbdhv"[rng.Intn(11)]
		r2 := refs[rng.Intn(len(refs))]
		for i := range r2 {
			if rng.Intn(2) == 0 && r2[i] >= 'a' {
				r2[i] -= 32
			}
		}
	}
	var reads [][]byte
	both := func(s []byte) {
		reads = append(reads, s, []byte(c19RcStr(string(c19Lower(s)))))
	}
	j := rng.Intn(nref)
	r := c19Lower(refs[j])
	p := rng.Intn(len(r) - ke + 1)
	both(append([]byte{}, r[p:p+ke]...)) // exactly one window of a reference
	if ke > 1 {
		reads = append(reads, append([]byte{}, r[p:p+ke-1]...)) // one base short: no k-mer
	}
	if len(r) >= ke+2 { // three windows, the central base of the middle one changed: only the sparse k-mer survives
		p = rng.Intn(len(r) - ke - 1)
		both(c19GlueMut(rng, r[p:p+ke+2], 1+ke/2))
	}
	both(c19RandSeq(rng, ke+rng.Intn(60), alpha, 0)) // unrelated (for k above ~10)
	a, b := c19Lower(refs[rng.Intn(nref)]), c19Lower(refs[rng.Intn(nref)])
	both(append(append([]byte{}, a[:ke+rng.Intn(len(a)-ke+1)]...), b[len(b)-ke-rng.Intn(len(b)-ke+1):]...)) // chimera of two references
	if rng.Intn(2) == 0 {
		both(append([]byte{}, refs[rng.Intn(len(refs))]...)) // a whole reference (another record)
	}
	if rng.Intn(3) == 0 { // two separate windows of one reference: shared = 2, visible to --min-shared-kmers 3
		if len(r) >= 2*ke+1 {
			both(append(append(append([]byte{}, r[:ke]...), 'n'), r[len(r)-ke:]...))
		}
	}
	if cmd == "match" { // obikmermatch aligns: keep the reads long enough
		var keep [][]byte
		for _, s := range reads {
			if len(s) >= 20 {
				keep = append(keep, s)
			}
		}
		reads = keep
		if len(reads) == 0 {
			reads = append(reads, append([]byte{}, refs[0]...))
		}
	}
	sp, sf := "0", "0"
	if sparse {
		sp = "1"
	}
	if self {
		sf = "1"
	}
	ks := "d"
	if k >= 0 {
		ks = strconv.Itoa(k)
	}
	obs := "-"
	if cmd == "match" {
		obs = "?"
	}
	w := []string{"ks", cmd, strconv.Itoa(rng.Intn(4)), ks, sp, min, maxocc, sf, strconv.Itoa(2 + rng.Intn(4)),
		strconv.Itoa([]int{1, 2, 3, 7, 2000}[rng.Intn(5)]), obs, strconv.Itoa(len(refs))}
	for _, s := range refs {
		w = append(w, hx(s))
	}
	for _, s := range reads {
		w = append(w, hx(s))
	}
	return strings.Join(w, " ")
}

func c19GenGlue(rng *rand.Rand, tier string, emit func(string)) {
	// defect pinned (unchanged code): `--kmer-size 64 --sparse` = 65 bases in a 128-bit word: all canonical k-mers 0, the
	// three reads (a window of ref0, its reverse complement, an unrelated read) matched all three references
	// (n=3,3,3 instead of 1,1,0); repaired by notes/patches/C19-kmersim-kmer-too-large.diff (the command refuses: fatal)
	{
		x := uint32(12345)
		seq := func(n int) []byte {
			b := make([]byte, n)
			for i := range b {
				x = x*1664525 + 1013904223
				b[i] = "acgt"[x>>30]
			}
			return b
		}
		r0, r1, r2, u := seq(90), seq(80), seq(100), seq(70)
		w := r0[10:75]
		emit(strings.Join([]string{"ks count 0 64 1 d d 0 2 2 - 3", hx(r0), hx(r1), hx(r2), hx(w), hx([]byte(c19RcStr(string(w)))), hx(u)}, " "))
		emit(strings.Join([]string{"ks count 0 63 1 d d 0 2 2 - 3", hx(r0), hx(r1), hx(r2), hx(w), hx([]byte(c19RcStr(string(w)))), hx(u)}, " "))
		emit(strings.Join([]string{"ks count 1 32 1 d d 0 2 2 - 3", hx(r0), hx(r1), hx(r2), hx(w[:33]), hx([]byte(c19RcStr(string(w[:33])))), hx(u)}, " "))
	}
	// every requested k 2..64 x sparse, both strands in every case; the boundary of the 64-bit word (32 sparse = 33
	// bases) and of the 128-bit word (64 dense; 64 sparse = 65 bases, refused) are in this loop
	for k := 2; k <= 64; k++ {
		for _, sparse := range []bool{false, true} {
			emit(c19GlueCaseFor(rng, "count", k, sparse, "d", "d", false))
		}
	}
	// sizes outside 2..64: 0, 1 (no k-mer / the empty sparse k-mer), 65 dense (= 64), 65 sparse, 66: refused
	for _, k := range []int{0, 1, 65, 66, 70} {
		for _, sparse := range []bool{false, true} {
			emit(c19GlueCaseFor(rng, "count", k, sparse, "d", "d", false))
		}
	}
	n := 90
	if tier == "thorough" {
		n = 500
	}
	ks := []int{-1, -1, 30, 31, 32, 33, 34, 62, 63, 64, 2, 3, 4, 5, 8, 11, 16, 17, 21, 29, 48, 55}
	mins := []string{"d", "d", "0", "1", "2", "3", "4", "-1", "6"}
	maxs := []string{"d", "d", "-1", "0", "1", "2", "3", "4", "8"}
	for i := 0; i < n; i++ {
		k := ks[rng.Intn(len(ks))]
		if rng.Intn(4) == 0 {
			k = 2 + rng.Intn(63)
		}
		cmd := "count"
		if rng.Intn(5) == 0 {
			cmd = "match"
		}
		emit(c19GlueCaseFor(rng, cmd, k, rng.Intn(2) == 0, mins[rng.Intn(len(mins))], maxs[rng.Intn(len(maxs))], rng.Intn(4) == 0))
	}
	// obikmermatch on the boundaries of the word
	for _, k := range []int{30, 32, 33, 63, 64} {
		for _, sparse := range []bool{false, true} {
			emit(c19GlueCaseFor(rng, "match", k, sparse, "d", "d", false))
		}
	}
}

var _ = sort.Ints
