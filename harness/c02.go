//go:build c02

package main

// C02 — write then read round-trips records unchanged (FASTA/FASTQ + JSON header).
//
// Ops (case lines; the part after " + " is data produced by the real code / the external JSON library that
// the Lean model takes as a parameter — Exec recomputes it and ignores what is given):
//
//	hdr  <header-hex>                      [+ <lib>]            real _parse_json_header_ on these bytes
//	hdrj <annspec> <trail-hex>             [+ <floats> <header-hex> <lib>]   header = go-json(ann) ++ trail
//	title fasta|fastq <title-hex>                               one record with this title line -> chunk parser
//	q <shiftOut> <shiftIn> <q>                                  one quality value through QualitiesString / FASTQ parser
//	rt fasta|fastq j|g <shOut> <shIn> <n> (<id-hex> <seq-hex> <qual-hex|-> <annspec>)*n  [+ <floats> (<info-hex> <lib>)*n]
//	                                                            real Format*Batch -> real *ChunkParser -> real header parser
//
// The Lean model prints the JSON header itself (Model/Json.lean: encoder of strings / numbers / nested maps and lists,
// key order of go-json) and decodes it itself; <info-hex>/<header-hex> are informative only.  Data for the model:
// <floats> = "F=" + list of <IEEE bits>:<hex of strconv.FormatFloat(x,'e',-1,64)> (shortest digits: Go's strconv) or "F=-";
// <lib> = the answers of go-json for every candidate span [s,e) (header[s]='{', header[e-1]='}') of the header the
// real parser sees: "s:e:x" (Unmarshal error) or "s:e:<digest of decoded map without definition>:<-|d<hex of definition>>";
// a digest is <by-value digest>/<digest of the dump that keeps Go's int and float64 apart>.
//
//	obik <text-hex>                                             real __match__key__ + ParseFastSeqOBIHeader (no-key texts)
//	cli fasta|fastq <flags> <n> (<id-hex> <seq-hex> <qual-hex|-> <annspec>)*n [+ <floats>]
//	                                                            real Format*Batch -> `obiconvert` subprocess -> `obiconvert` again
//	                                                            flags: letters of z (-Z, gunzipped by the harness) s (stdin) x (--solexa: file written with offset 64) or "-"
//	conc <g> <r> <so> <si> <n> n×[fasta|fastq j|g <nr> (<id-hex> <seq-hex> <qual-hex|-> <annspec>)*nr] [+ n×[<floats> (<info-hex> <lib>)*nr]]
//	                                                            n `rt` cases alone (result = their results joined by " ; "), then the same from g goroutines, r rounds (c02_conc.go)
//	race conc …                                                 the same case replayed through a `go build -race` build of the harness (thorough tier)
//	big rt|file|cli<flags> fasta|fastq j|g <so> <si> <n> (<id: alpha+len> <seqlen> <q|-> <annspec by sizes>)*n
//	                                                            records given by SIZES (c02_big.go): rt = the rt op, file = through a real file and
//	                                                            ReadSequencesFromFile (1 MiB chunks), cli = the cli op; results are lengths + FNV-1a digests
import (
	"bytes"
	stdjson "encoding/json"
	"fmt"
	"hash/fnv"
	"math"
	"math/rand"
	"reflect"
	"sort"
	"strconv"
	"strings"
	"time"
	"unicode/utf8"

	"git.metabarcoding.org/obitools/obitools4/obitools4/pkg/obiformats"
	"git.metabarcoding.org/obitools/obitools4/obitools4/pkg/obiiter"
	"git.metabarcoding.org/obitools/obitools4/obitools4/pkg/obioptions"
	"git.metabarcoding.org/obitools/obitools4/obitools4/pkg/obiseq"
	"github.com/goccy/go-json"
)

type c02 struct{}

func init() { props["C02"] = c02{} }

// ---------------------------------------------------------------- annotation specs

// annspec: entries joined by ';' ('-' = no annotation). Entry = <type>.<key-hex>.<value>
//
//	s string (hex) | i int | f float64 (IEEE bits, hex) | b bool (0/1)
//	mi map[string]int k-hex=int,... | ms map[string]string k-hex=v-hex,... | li []int int,...
//	v  nested value term: S<hex> | I<int> | F<bits> | T | U | Z | L[t,...] ([]interface{}) | M[<hexkey>:t,...] (map[string]interface{})
var c02Floats []float64 // the floats met by c02ParseAnn since the last reset (data for the model)

func c02FloatTable() string {
	seen := map[uint64]bool{}
	var parts []string
	for _, x := range c02Floats {
		b := math.Float64bits(x)
		if seen[b] {
			continue
		}
		seen[b] = true
		parts = append(parts, fmt.Sprintf("%x:%s", b, hx([]byte(strconv.FormatFloat(x, 'e', -1, 64)))))
	}
	if len(parts) == 0 {
		return "F=-"
	}
	return "F=" + strings.Join(parts, ",")
}

func c02IsHex(c byte) bool { return c >= '0' && c <= '9' || c >= 'a' && c <= 'f' }

func c02HexE(h string) ([]byte, bool) {
	if h == "" {
		return []byte{}, true
	}
	return unhx(h)
}

// c02Term parses a nested value term; returns the value, the rest of the text, ok
func c02Term(t string, depth int) (interface{}, string, bool) {
	if t == "" || depth > 64 {
		return nil, "", false
	}
	span := func(s string, f func(byte) bool) (string, string) {
		i := 0
		for i < len(s) && f(s[i]) {
			i++
		}
		return s[:i], s[i:]
	}
	c, r := t[0], t[1:]
	switch c {
	case 'S':
		h, rest := span(r, c02IsHex)
		b, ok := c02HexE(h)
		return string(b), rest, ok
	case 'I':
		h, rest := span(r, func(c byte) bool { return c >= '0' && c <= '9' || c == '-' })
		v, err := strconv.ParseInt(h, 10, 64)
		return int(v), rest, err == nil
	case 'F':
		h, rest := span(r, c02IsHex)
		v, err := strconv.ParseUint(h, 16, 64)
		x := math.Float64frombits(v)
		c02Floats = append(c02Floats, x)
		return x, rest, err == nil
	case 'T':
		return true, r, true
	case 'U':
		return false, r, true
	case 'Z':
		return nil, r, true
	case 'L':
		if !strings.HasPrefix(r, "[") {
			return nil, "", false
		}
		r = r[1:]
		l := []interface{}{}
		if strings.HasPrefix(r, "]") {
			return l, r[1:], true
		}
		for {
			v, rest, ok := c02Term(r, depth+1)
			if !ok || rest == "" {
				return nil, "", false
			}
			l = append(l, v)
			if rest[0] == ']' {
				return l, rest[1:], true
			}
			if rest[0] != ',' {
				return nil, "", false
			}
			r = rest[1:]
		}
	case 'M':
		if !strings.HasPrefix(r, "[") {
			return nil, "", false
		}
		r = r[1:]
		m := map[string]interface{}{}
		if strings.HasPrefix(r, "]") {
			return m, r[1:], true
		}
		for {
			h, rest := span(r, c02IsHex)
			kb, ok := c02HexE(h)
			if !ok || !strings.HasPrefix(rest, ":") {
				return nil, "", false
			}
			v, rest, ok := c02Term(rest[1:], depth+1)
			if !ok || rest == "" {
				return nil, "", false
			}
			m[string(kb)] = v
			if rest[0] == ']' {
				return m, rest[1:], true
			}
			if rest[0] != ',' {
				return nil, "", false
			}
			r = rest[1:]
		}
	}
	return nil, "", false
}

func c02ParseAnn(spec string) (obiseq.Annotation, bool) {
	ann := obiseq.Annotation{}
	if spec == "-" {
		return ann, true
	}
	for _, e := range strings.Split(spec, ";") {
		p := strings.SplitN(e, ".", 3)
		if len(p) != 3 {
			return nil, false
		}
		kb, ok := unhx(p[1])
		if !ok {
			return nil, false
		}
		k := string(kb)
		switch p[0] {
		case "s":
			v, ok := unhx(p[2])
			if !ok {
				return nil, false
			}
			ann[k] = string(v)
		case "i":
			v, err := strconv.ParseInt(p[2], 10, 64)
			if err != nil {
				return nil, false
			}
			ann[k] = int(v)
		case "f":
			v, err := strconv.ParseUint(p[2], 16, 64)
			if err != nil {
				return nil, false
			}
			ann[k] = math.Float64frombits(v)
			c02Floats = append(c02Floats, math.Float64frombits(v))
		case "v":
			v, rest, ok := c02Term(p[2], 0)
			if !ok || rest != "" {
				return nil, false
			}
			ann[k] = v
		case "b":
			ann[k] = p[2] == "1"
		case "mi":
			m := map[string]int{}
			if p[2] != "" {
				for _, kv := range strings.Split(p[2], ",") {
					q := strings.SplitN(kv, "=", 2)
					if len(q) != 2 {
						return nil, false
					}
					kk, ok := unhx(q[0])
					v, err := strconv.ParseInt(q[1], 10, 64)
					if !ok || err != nil {
						return nil, false
					}
					m[string(kk)] = int(v)
				}
			}
			ann[k] = m
		case "ms":
			m := map[string]string{}
			if p[2] != "" {
				for _, kv := range strings.Split(p[2], ",") {
					q := strings.SplitN(kv, "=", 2)
					if len(q) != 2 {
						return nil, false
					}
					kk, ok1 := unhx(q[0])
					v, ok2 := unhx(q[1])
					if !ok1 || !ok2 {
						return nil, false
					}
					m[string(kk)] = string(v)
				}
			}
			ann[k] = m
		case "li":
			l := []int{}
			if p[2] != "" {
				for _, x := range strings.Split(p[2], ",") {
					v, err := strconv.ParseInt(x, 10, 64)
					if err != nil {
						return nil, false
					}
					l = append(l, int(v))
				}
			}
			ann[k] = l
		default:
			return nil, false
		}
	}
	return ann, true
}

// c02Dump is the canonical by-value rendering of an annotation value: numbers of every Go type are
// rendered by value (an int and the float64 of the same value are equal), maps by sorted key.
func c02Dump(v interface{}) string {
	if v == nil {
		return "Z"
	}
	// numbers by value: the positional decimal expansion of the shortest digits (an int and the float64 of the same
	// value are rendered alike; the model computes the same string from the literal of the title line)
	num := func(x float64) string {
		if x == 0 {
			return "N0"
		}
		return "N" + strconv.FormatFloat(x, 'f', -1, 64)
	}
	rv := reflect.ValueOf(v)
	switch rv.Kind() {
	case reflect.String:
		return "S" + hx([]byte(rv.String()))
	case reflect.Bool:
		if rv.Bool() {
			return "B1"
		}
		return "B0"
	case reflect.Int, reflect.Int8, reflect.Int16, reflect.Int32, reflect.Int64:
		return "N" + strconv.FormatInt(rv.Int(), 10)
	case reflect.Uint, reflect.Uint8, reflect.Uint16, reflect.Uint32, reflect.Uint64:
		return "N" + strconv.FormatUint(rv.Uint(), 10)
	case reflect.Float32, reflect.Float64:
		return num(rv.Float())
	case reflect.Map:
		var parts []string
		for _, k := range rv.MapKeys() {
			parts = append(parts, hx([]byte(fmt.Sprint(k.Interface())))+"="+c02Dump(rv.MapIndex(k).Interface()))
		}
		sort.Strings(parts)
		return "M{" + strings.Join(parts, ",") + "}"
	case reflect.Slice, reflect.Array:
		var parts []string
		for i := 0; i < rv.Len(); i++ {
			parts = append(parts, c02Dump(rv.Index(i).Interface()))
		}
		return "L[" + strings.Join(parts, ",") + "]"
	case reflect.Interface, reflect.Ptr:
		if rv.IsNil() {
			return "Z"
		}
		return c02Dump(rv.Elem().Interface())
	}
	return "?" + fmt.Sprintf("%T", v)
}

// c02DumpK is c02Dump with Go's number kinds kept apart: "I<n>" for every integer type, "F<value>" for floats.
// With allFloat the integers are rendered as the float64 of the same value (what the reader gives back).
func c02DumpK(v interface{}, allFloat bool) string {
	if v == nil {
		return "Z"
	}
	num := func(x float64) string {
		if x == 0 {
			return "F0"
		}
		return "F" + strconv.FormatFloat(x, 'f', -1, 64)
	}
	rv := reflect.ValueOf(v)
	switch rv.Kind() {
	case reflect.String:
		return "S" + hx([]byte(rv.String()))
	case reflect.Bool:
		if rv.Bool() {
			return "B1"
		}
		return "B0"
	case reflect.Int, reflect.Int8, reflect.Int16, reflect.Int32, reflect.Int64:
		if allFloat {
			return "F" + strconv.FormatInt(rv.Int(), 10)
		}
		return "I" + strconv.FormatInt(rv.Int(), 10)
	case reflect.Uint, reflect.Uint8, reflect.Uint16, reflect.Uint32, reflect.Uint64:
		if allFloat {
			return "F" + strconv.FormatUint(rv.Uint(), 10)
		}
		return "I" + strconv.FormatUint(rv.Uint(), 10)
	case reflect.Float32, reflect.Float64:
		return num(rv.Float())
	case reflect.Map:
		var parts []string
		for _, k := range rv.MapKeys() {
			parts = append(parts, hx([]byte(fmt.Sprint(k.Interface())))+"="+c02DumpK(rv.MapIndex(k).Interface(), allFloat))
		}
		sort.Strings(parts)
		return "M{" + strings.Join(parts, ",") + "}"
	case reflect.Slice, reflect.Array:
		var parts []string
		for i := 0; i < rv.Len(); i++ {
			parts = append(parts, c02DumpK(rv.Index(i).Interface(), allFloat))
		}
		return "L[" + strings.Join(parts, ",") + "]"
	case reflect.Interface, reflect.Ptr:
		if rv.IsNil() {
			return "Z"
		}
		return c02DumpK(rv.Elem().Interface(), allFloat)
	}
	return "?" + fmt.Sprintf("%T", v)
}

func c02Digest(s string) string {
	h := fnv.New32a()
	h.Write([]byte(s))
	return fmt.Sprintf("%08x", h.Sum32())
}

// digest of an annotation map without its "definition" entry + the definition flag ("-" absent, "d<hex>" present)
func c02AnnDigest(ann obiseq.Annotation) (string, string) {
	m := map[string]interface{}{}
	def := "-"
	for k, v := range ann {
		if k == "definition" {
			h := hx([]byte(fmt.Sprintf("%v", v)))
			if h == "-" {
				h = ""
			}
			def = "d" + h
		} else {
			m[k] = v
		}
	}
	// value digest "/" kind-aware digest (the model reads every number as a float64)
	return c02Digest(c02Dump(m)) + "/" + c02Digest(c02DumpK(m, false)), def
}

// c02Lib: what go-json answers on every candidate span of header (the model's parameter).
func c02Lib(header string) (string, bool) {
	var opens, closes []int
	for i := 0; i < len(header); i++ {
		if header[i] == '{' {
			opens = append(opens, i)
		}
		if header[i] == '}' {
			closes = append(closes, i+1)
		}
	}
	if len(opens)*len(closes) > 2500 {
		stat("lib:too-many-spans")
		return "", false
	}
	var parts []string
	for _, s := range opens {
		for _, e := range closes {
			if e <= s {
				continue
			}
			ann := obiseq.Annotation{}
			err := json.Unmarshal([]byte(header[s:e]), &ann)
			if err != nil {
				parts = append(parts, fmt.Sprintf("%d:%d:x", s, e))
			} else {
				d, def := c02AnnDigest(ann)
				parts = append(parts, fmt.Sprintf("%d:%d:%s:%s", s, e, d, def))
			}
		}
	}
	if len(parts) == 0 {
		return "-", true
	}
	return strings.Join(parts, ","), true
}

// c02BalancedObj is the hypothesis of the Lean theorem scan_finds_object, decided by an independent tokenizer:
// the text is one object — '{' first, strings closed and with every '"' and '\\' escaped (a backslash is always
// followed by one more byte of the string), brace nesting outside strings back to 0 exactly at the last byte —
// and holds no raw end of line.
func c02BalancedObj(t string) bool {
	if len(t) == 0 || t[0] != '{' {
		return false
	}
	level, instr := 0, false
	for i := 0; i < len(t); i++ {
		c := t[i]
		if c == '\n' || c == '\r' {
			return false
		}
		if instr {
			if c == '\\' {
				i++
				if i >= len(t) {
					return false
				}
			} else if c == '"' {
				instr = false
			}
			continue
		}
		switch c {
		case '"':
			instr = true
		case '{':
			level++
		case '}':
			level--
			if level == 0 {
				return i == len(t)-1
			}
		}
	}
	return false
}

// c02StdlibOracle: what the writer printed for the annotations, decoded by the standard library's encoding/json
// (an independent JSON reader), is the annotation map by value.
func c02StdlibOracle(fail func(sig, format string, a ...any), ann obiseq.Annotation, info string) {
	if len(ann) == 0 {
		if info != "" {
			fail("hyp.json-empty", "no annotation but the header is %q", info)
		}
		return
	}
	var back map[string]interface{}
	if err := stdjson.Unmarshal([]byte(info), &back); err != nil {
		fail("hyp.json-stdlib", "encoding/json rejects the header %q: %v", info, err)
		return
	}
	want := c02Dump(map[string]interface{}(ann))
	if got := c02Dump(back); got != want {
		fail("hyp.json-stdlib", "header %q decoded by encoding/json is %s, the annotations are %s", info, got, want)
	}
}

// ---------------------------------------------------------------- generators

var c02Hostile = []string{`"`, `\`, `{`, `}`, `;`, `=`, `>`, `@`}
var c02Extra = []string{"\n", "\t", " ", "a", "Z", "0", ":", ",", "'", "/", "é", "漢", "\u00a0", "\u2028", "😀", "\x7f", "\x01", "[", "]",
	"\u2029", "\b", "\f", "\r", "\u0085", "\x1f", "\x00", "\u07ff", "\u0800", "\uffff", "\U00010000", "\u2027", "\u202a", "\xe2\x80\xa6"}

func c02RandStr(rng *rand.Rand, maxLen int) string {
	n := rng.Intn(maxLen + 1)
	var b strings.Builder
	for i := 0; i < n; i++ {
		switch rng.Intn(3) {
		case 0, 1:
			b.WriteString(c02Hostile[rng.Intn(len(c02Hostile))])
		default:
			b.WriteString(c02Extra[rng.Intn(len(c02Extra))])
		}
	}
	return b.String()
}

func c02RandKey(rng *rand.Rand, used map[string]bool) string {
	for {
		var k string
		switch rng.Intn(4) {
		case 0:
			k = c02RandStr(rng, 4)
		default:
			k = []string{"count", "merged_sample", "taxid", "obiclean_weight", "seq_length", "k", "a", "sample", "direction", "scientific_name"}[rng.Intn(10)]
		}
		if k == "" || k == "definition" || used[k] {
			k = k + strconv.Itoa(rng.Intn(1000))
		}
		if !used[k] && k != "definition" {
			used[k] = true
			return k
		}
	}
}

func c02RandInt(rng *rand.Rand) int64 {
	switch rng.Intn(6) {
	case 0:
		return []int64{0, 1, -1, 1 << 53, -(1 << 53), 1<<53 - 1, -(1<<53 - 1), 1 << 31, -(1 << 31), 1 << 32, 999999999999, 1000000}[rng.Intn(12)]
	case 1:
		return rng.Int63n(1<<53+1) * int64(1-2*rng.Intn(2))
	default:
		return int64(rng.Intn(2000) - 1000)
	}
}

func c02RandFloat(rng *rand.Rand) float64 {
	switch rng.Intn(5) {
	case 0:
		return []float64{0.5, -0.25, 1e21, 1e-7, 1.5e300, -2.5e-300, 0.1, 3.0, 1e20, 123456789.125, math.MaxFloat64, math.SmallestNonzeroFloat64, 1e6, 1e-6,
			math.Copysign(0, -1), 0, 9.999999e-7, 9.99e20, 9223372036854775808.0, -9223372036854775808.0, 1.8446744073709552e19, 1e300, -1e21,
			9007199254740993.0, 1e22, 1e23, 0.000001234, 2.2250738585072014e-308, 4.9e-324, 100, 1e-5, 0.3}[rng.Intn(32)]
	case 1:
		return rng.NormFloat64() * math.Pow(10, float64(rng.Intn(40)-20))
	default:
		return float64(rng.Intn(100000)) / 1000
	}
}

// c02RandTerm: a nested value term (see c02Term) of bounded depth
func c02RandTerm(rng *rand.Rand, depth int) string {
	hexs := func(x string) string { return strings.TrimPrefix(hx([]byte(x)), "-") }
	k := rng.Intn(9)
	if depth <= 0 && k >= 6 {
		k = rng.Intn(6)
	}
	switch k {
	case 0, 1:
		return "S" + hexs(c02RandStr(rng, 6))
	case 2:
		return fmt.Sprintf("I%d", c02RandInt(rng))
	case 3:
		return fmt.Sprintf("F%x", math.Float64bits(c02RandFloat(rng)))
	case 4:
		return []string{"T", "U"}[rng.Intn(2)]
	case 5:
		return "Z"
	case 6, 7:
		var l []string
		for j := rng.Intn(4); j > 0; j-- {
			l = append(l, c02RandTerm(rng, depth-1))
		}
		return "L[" + strings.Join(l, ",") + "]"
	default:
		var l []string
		u := map[string]bool{}
		for j := rng.Intn(4); j > 0; j-- {
			kk := c02RandStr(rng, 3)
			if rng.Intn(2) == 0 {
				kk += strconv.Itoa(j)
			}
			if u[kk] {
				continue
			}
			u[kk] = true
			l = append(l, hexs(kk)+":"+c02RandTerm(rng, depth-1))
		}
		return "M[" + strings.Join(l, ",") + "]"
	}
}

var c02MaxDepth = 3

func c02RandAnn(rng *rand.Rand, maxEntries int) string {
	n := rng.Intn(maxEntries + 1)
	if n == 0 {
		switch rng.Intn(6) {
		case 0:
			// the definition is the only annotation
			return "s." + hx([]byte("definition")) + "." + hx([]byte([]string{"d", `{"a":1}`, "{", " x ", `"`}[rng.Intn(5)]))
		case 1:
			// the empty definition annotation
			return "s." + hx([]byte("definition")) + "."
		}
		return "-"
	}
	used := map[string]bool{}
	var es []string
	for i := 0; i < n; i++ {
		k := hx([]byte(c02RandKey(rng, used)))
		switch rng.Intn(11) {
		case 9, 10:
			es = append(es, "v."+k+"."+c02RandTerm(rng, c02MaxDepth))
		case 0, 1, 2:
			h := hx([]byte(c02RandStr(rng, 8)))
			if h == "-" {
				h = ""
			}
			es = append(es, "s."+k+"."+h)
		case 3:
			es = append(es, fmt.Sprintf("i.%s.%d", k, c02RandInt(rng)))
		case 4:
			es = append(es, fmt.Sprintf("f.%s.%x", k, math.Float64bits(c02RandFloat(rng))))
		case 5:
			es = append(es, fmt.Sprintf("b.%s.%d", k, rng.Intn(2)))
		case 6:
			var kv []string
			u := map[string]bool{}
			for j := rng.Intn(4); j > 0; j-- {
				kk := c02RandStr(rng, 3) + strconv.Itoa(j)
				if u[kk] {
					continue
				}
				u[kk] = true
				kv = append(kv, fmt.Sprintf("%s=%d", hx([]byte(kk)), c02RandInt(rng)))
			}
			es = append(es, "mi."+k+"."+strings.Join(kv, ","))
		case 7:
			var kv []string
			u := map[string]bool{}
			for j := rng.Intn(4); j > 0; j-- {
				kk := c02RandStr(rng, 3) + strconv.Itoa(j)
				if u[kk] {
					continue
				}
				u[kk] = true
				h := hx([]byte(c02RandStr(rng, 5)))
				if h == "-" {
					h = ""
				}
				kv = append(kv, hx([]byte(kk))+"="+h)
			}
			es = append(es, "ms."+k+"."+strings.Join(kv, ","))
		case 8:
			var l []string
			for j := rng.Intn(5); j > 0; j-- {
				l = append(l, strconv.FormatInt(c02RandInt(rng), 10))
			}
			es = append(es, "li."+k+"."+strings.Join(l, ","))
		}
	}
	switch rng.Intn(12) {
	case 0, 1, 2:
		h := hx([]byte(strings.TrimSpace(c02RandStr(rng, 10))))
		if h != "-" {
			es = append(es, "s."+hx([]byte("definition"))+"."+h)
		}
	case 3:
		// a definition that looks like a JSON object / starts with a brace / holds the hostile patterns
		d := []string{`{"a":1}`, `{`, `{x} {"y":2}`, `{"k":"x\"}y"}`, `}{`, `{"definition":"d"}`, "{" + c02RandStr(rng, 6), `"{`, `\{`}[rng.Intn(9)]
		es = append(es, "s."+hx([]byte("definition"))+"."+hx([]byte(d)))
	case 4:
		// untrimmed definition (blanks at both ends are part of the annotation value)
		es = append(es, "s."+hx([]byte("definition"))+"."+hx([]byte(" "+c02RandStr(rng, 6)+"\t ")))
	}
	return strings.Join(es, ";")
}

const c02Iupac = "acgtrymkswbdhvn"

func c02RandSeq(rng *rand.Rand, n int) []byte {
	s := make([]byte, n)
	for i := range s {
		if rng.Intn(4) == 0 {
			s[i] = c02Iupac[rng.Intn(len(c02Iupac))]
		} else {
			s[i] = "acgt"[rng.Intn(4)]
		}
	}
	return s
}

func c02RandId(rng *rand.Rand) string {
	ids := []string{"seq1", "M01334:147:000000000-LBRVD:1:1101:14968:1570", "a", ">x", "@y", "id{1}", `q"uo`, `b\s`, "x;y=z", "é漢", "+p", "HELIUM_000100422_612GNAAXX:7:119:14871:19157#0/1",
		"{x", `{"a":1}`, `"`, `\`, "}", "|#~", "x\u00a0y", "\u2028", "a\x01b", "\x7f", strings.Repeat("L", 300), "{", "=", "A"}
	if rng.Intn(3) == 0 {
		var b strings.Builder
		for i := 1 + rng.Intn(6); i > 0; i-- {
			c := c02Hostile[rng.Intn(len(c02Hostile))]
			if rng.Intn(2) == 0 {
				c = string(rune('a' + rng.Intn(26)))
			}
			b.WriteString(c)
		}
		return b.String()
	}
	return ids[rng.Intn(len(ids))]
}

func c02RandRecord(rng *rand.Rand, withQ bool) string {
	lens := []int{1, 59, 60, 61, 120, 121, 2, 119, 180, 181, 0}
	n := lens[rng.Intn(len(lens))]
	switch rng.Intn(4) {
	case 0:
		n = 1 + rng.Intn(10)
	case 1:
		n = 1 + rng.Intn(200)
	}
	q := "-"
	if withQ {
		qb := make([]byte, n)
		for i := range qb {
			switch rng.Intn(12) {
			case 0:
				qb[i] = byte(94 + rng.Intn(162))
			case 1:
				qb[i] = []byte{0, 93, 31, 10, 13, 94, 255}[rng.Intn(7)]
			default:
				qb[i] = byte(rng.Intn(94))
			}
		}
		q = hx(qb)
	}
	return fmt.Sprintf("%s %s %s %s", hx([]byte(c02RandId(rng))), hx(c02RandSeq(rng, n)), q, c02RandAnn(rng, 5))
}

func (c02) Gen(rng *rand.Rand, tier string, emit func(string)) {
	// corpus: the title lines that kill / fool the unrepaired scanner, and friends
	for _, h := range []string{
		`{"k":"x\"}y"}`, `{"a":"\"","b":1}`, `{"k":"x\"}y","z":3}`, `{"a":"\\"}`, `{"a":"\\","b":"}"}`, `{"a":"\\\""}`,
		`{"a":"{"}`, `{"a":"}"}`, `{"a":{"b":1},"c":[1,2]} some definition`, `{}`, `{} x`, `{"a":1}`, `{"a":1}{"b":2}`,
		`} {"a":1}`, `x {"a":1} y`, `"q" {"a":1}`, `{"a":1`, `{"a":"\`, `{"a":"\"`, `{"a":"x\`, ``, ` `, `{`, `}`, `"`, `\`, `{"a":1}  ` + " \t tail  ",
		`{"definition":"d1","a":2} d2`, `{"definition":5} d2`, `{"definition":""}`, `{"a":tru}`, `{"a":"` + "é漢" + `"}` + " ",
		`no json here`, `count=3; merged={'a':1};`, `{"a":""}"}`, `{"a":"\"}`, `{'a':1}`, `{"a":1} {"b":"\"}"}`,
	} {
		emit("hdr " + hx([]byte(h)))
	}
	// JSON texts no writer of the toolkit prints but its reader accepts: the decoder of the model (escapes, number
	// syntax, null, nesting) against go-json; texts outside the model (white space, surrogates, duplicate keys,
	// non-string definition, raw control characters) fall back to go-json's answer
	for _, h := range []string{
		`{"a":"\/\b\f\n\r\t\"\\"}`, `{"a":"\u00e9\u00E9\u0041\u07ff\u0800\uffff\u0000"}`, `{"a":"\ud83d\ude00"}`, `{"a":"\ud800"}`, `{"a":"\u12"}`, `{"a":"\x"}`,
		`{"a":1E5,"b":-0,"c":1.50,"d":0.1e1,"e":1e-2,"f":-12.5E+2,"g":0.000,"h":100}`, `{"a":01}`, `{"a":1.}`, `{"a":.5}`, `{"a":-}`, `{"a":1e}`, `{"a":+1}`, `{"a":1e+}`,
		`{"a":null,"b":[null,true,false],"c":{}}`, `{"a":[[[[1]]],{"b":{"c":{"d":[]}}}]}`, `{"a":[1,]}`, `{"a":[,1]}`, `{"a":1,}`, `{,"a":1}`, `{"a"}`, `{"a":}`, `{a:1}`,
		`{ "a" : 1 , "b" : [ 1 , 2 ] }`, "{\"a\":\t1}", `{"a":1,"a":2}`, `{"a":{"k":1,"k":2}}`, `{"definition":"x","definition":"y"}`, `{"definition":[1]}`, `{"definition":null} tail`,
		`{"a":"x` + "\x01" + `y"}`, `{"a":"` + "\xff" + `"}`, `{"a":true,"b":false}`, `{"a":tru}`, `{"a":truee}`, `{"a":nul}`, `{"a":"b"}x`, `{"":""}`, `{"":{"":[]}}`,
		`{"a":123456789012345,"b":0.000001,"c":1e21,"d":1e-7,"e":1.5e300}`, `{"a":"é漢😀"} définition`, `{"a":"\u2028\u2029"}`, `{"a":"` + "\u2028" + `"}`,
		`{"count":3,"merged_sample":{"s1":2,"s2":1},"taxid":"taxon:9606 [Homo sapiens]@species"} a definition`,
	} {
		emit("hdr " + hx([]byte(h)))
	}
	for _, t := range []string{"id1 {\"a\":1}", "id1", "id1 ", "id1\tdef  two", "id1  \t {\"a\":\"x\\\"}y\"}", " id", "", "id1 >x @y", "i>d @", "id1 {\"a\":1} def"} {
		emit("title fasta " + hx([]byte(t)))
		emit("title fastq " + hx([]byte(t)))
	}
	emit("rt fasta j 33 33 1 73 61 - s.6b.785c227d79")
	emit("rt fastq g 33 33 1 73 61 - s.61.22;i.62.1")
	emit("rt fasta j 33 33 1 73 " + hx(bytes.Repeat([]byte("acgtn"), 12)) + " - -")
	emit("rt fasta g 33 33 1 73 " + hx(bytes.Repeat([]byte("acgtn"), 24)) + " - -")
	emit("rt fastq j 64 64 1 73 61636774 005d5e1f i.636f756e74.9007199254740992;f.78.3ff8000000000000")
	emit("rt fastq j 33 64 1 73 61636774 00051f28 -")
	emit("rt fastq j 33 33 2 73 6163 1f1f i.61.1 74 6163 1f00 s.62.40")
	emit("rt fasta j 33 33 1 73 - - i.61.1")
	emit("rt fastq g 33 33 2 73 61 - - 74 - - -")
	// nested values, the definition as only annotation, the empty definition, hostile definitions
	emit("rt fasta j 33 33 1 73 61 - v.6d.M[7b:L[I1,T,Z,M[]],22:S5c227d,:F3ff8000000000000];v.6c.L[L[L[]],M[61:M[62:M[]]]]")
	emit("rt fastq g 33 33 1 73 61 - s.646566696e6974696f6e.7b2261223a317d")
	emit("rt fasta g 33 33 1 73 61 - s.646566696e6974696f6e.")
	emit("rt fasta j 33 33 1 73 61 - s.646566696e6974696f6e.207820;f.78.43e0000000000000;f.79.8000000000000000;f.7a.3eb0c6f7a0b5ed8d")
	emit("hdrj v.6b.L[F44b52d02c7e14af6,F3eb0c6f7a0b5ed8c,F444b1ae4d6e2ef50,F1] 20e280a87b")

	// every quality value x shift combination
	for _, so := range []int{33, 64} {
		for _, si := range []int{33, 64} {
			for q := 0; q < 256; q++ {
				emit(fmt.Sprintf("q %d %d %d", so, si, q))
			}
		}
	}
	// third pass: the extremes of the offsets the setters accept. 14 and 172 are the first and the last offset for which
	// no quality 0..93 is printed as an end of line (theorems shift_range_ok / shift_outside_range_bad): round trip
	// demanded; 13, 173, 0, 255, 10 - 93 + 256: the model predicts what the reader makes of the broken quality line
	for _, sh := range []int{14, 172, 13, 173, 0, 255, 173 + 82, 10, 100, 127, 128, 163} {
		for q := 0; q < 256; q++ {
			emit(fmt.Sprintf("q %d %d %d", sh, sh, q))
		}
	}
	for _, p := range [][2]int{{14, 172}, {172, 14}, {0, 255}, {33, 172}, {64, 14}} {
		for q := 0; q < 256; q += 3 {
			emit(fmt.Sprintf("q %d %d %d", p[0], p[1], q))
		}
	}
	// every string of length <= L over the 8-symbol hostile alphabet as an annotation value
	maxl := 3
	if tier == "thorough" {
		maxl = 4
	}
	var rec func(cur string, l int)
	rec = func(cur string, l int) {
		if len(cur) == l {
			emit("hdrj s.6b." + strings.TrimPrefix(hx([]byte(cur)), "-") + " -")
			return
		}
		for _, c := range c02Hostile {
			rec(cur+c, l)
		}
	}
	for l := 1; l <= maxl; l++ {
		rec("", l)
	}
	// every raw header of length <= L over { } " \ a : the scanner in every state, valid JSON or not
	rawl := 4
	if tier == "thorough" {
		rawl = 6
	}
	var rec2 func(cur string, l int)
	rec2 = func(cur string, l int) {
		if len(cur) == l {
			emit("hdr " + hx([]byte(cur)))
			return
		}
		for _, c := range []string{"{", "}", `"`, `\`, "a"} {
			rec2(cur+c, l)
		}
	}
	for l := 1; l <= rawl; l++ {
		rec2("", l)
	}

	c02GenExtra(rng, tier, emit)
	c02GenTxt(rng, tier, emit)

	n := 1500
	c02MaxDepth = 3
	if tier == "thorough" {
		n = 12000
		c02MaxDepth = 5
	}
	for i := 0; i < n; i++ {
		switch rng.Intn(10) {
		case 0, 1, 2:
			// go-json(ann) ++ trailing text
			trail := ""
			if rng.Intn(2) == 0 {
				trail = c02RandStr(rng, 8)
				if rng.Intn(2) == 0 {
					trail = " " + trail
				}
			}
			emit("hdrj " + c02RandAnn(rng, 4) + " " + hx([]byte(strings.ReplaceAll(trail, "\n", " "))))
		case 3:
			// raw hostile header
			var b strings.Builder
			for j := rng.Intn(14); j > 0; j-- {
				b.WriteString([]string{"{", "}", `"`, `\`, "a", ":", ",", " ", "1", " ", "é"}[rng.Intn(11)])
			}
			emit("hdr " + hx([]byte(b.String())))
		case 4:
			t := c02RandId(rng)
			switch rng.Intn(4) {
			case 0:
				t += " "
			case 1:
				t += "\t \t" + strings.ReplaceAll(c02RandStr(rng, 10), "\n", " ")
			case 2:
				t += " " + strings.ReplaceAll(c02RandStr(rng, 10), "\n", "\r")
			}
			emit("title " + []string{"fasta", "fastq"}[rng.Intn(2)] + " " + hx([]byte(t)))
		default:
			fm := []string{"fasta", "fastq"}[rng.Intn(2)]
			hp := []string{"j", "g"}[rng.Intn(2)]
			so, si := 33, 33
			switch rng.Intn(8) {
			case 0:
				so, si = 64, 64
			case 1:
				so, si = 33, 64
			case 2:
				so, si = 64, 33
			case 3:
				// third pass: the two extreme offsets of the range in which the round trip is a theorem
				so, si = 14, 14
				if rng.Intn(2) == 0 {
					so, si = 172, 172
				}
			}
			nr := 1
			if rng.Intn(6) == 0 {
				nr = 2 + rng.Intn(2)
			}
			var recs []string
			for j := 0; j < nr; j++ {
				recs = append(recs, c02RandRecord(rng, fm == "fastq" && rng.Intn(10) != 0 || fm == "fasta" && rng.Intn(8) == 0))
			}
			emit(fmt.Sprintf("rt %s %s %d %d %d %s", fm, hp, so, si, nr, strings.Join(recs, " ")))
		}
	}
	// wave 3, LAST (the cases above keep their PRNG draws): the round trips under concurrent use
	c02GenConc(rng, tier, emit)
	// fourth pass, after everything else: sizes at and above the buffer boundaries
	c02GenBig(rng, tier, emit)
}

// ---------------------------------------------------------------- execution

// c02RecDump: canonical rendering of a parsed record (numbers never printed: annotations go through a digest)
func c02RecDump(s *obiseq.BioSequence) string {
	q := "none"
	if s.HasQualities() {
		q = hx(s.Qualities())
	}
	d, def := c02AnnDigest(s.Annotations())
	return fmt.Sprintf("id=%s seq=%s q=%s ann=%s def=%s", hx([]byte(s.Id())), hx(s.Sequence()), q, d, def)
}

func c02HeaderParser(hp string) func(*obiseq.BioSequence) {
	if hp == "g" {
		return obiformats.ParseGuessedFastSeqHeader
	}
	return obiformats.ParseFastSeqJsonHeader
}

func c02Write(fm string, seqs obiseq.BioSequenceSlice) string {
	b := obiiter.MakeBioSequenceBatch("src", 0, seqs)
	if fm == "fastq" {
		return obiformats.FormatFastqBatch(b, obiformats.FormatFastSeqJsonHeader, false).String()
	}
	return obiformats.FormatFastaBatch(b, obiformats.FormatFastSeqJsonHeader, false).String()
}

func c02Parse(fm string, text string) obiseq.BioSequenceSlice {
	var sl obiseq.BioSequenceSlice
	if fm == "fastq" {
		sl, _ = obiformats.FastqChunkParser(obioptions.InputQualityShift(), true)("src", strings.NewReader(text))
	} else {
		sl, _ = obiformats.FastaChunkParser()("src", strings.NewReader(text))
	}
	return sl
}

func (c02) Exec(c string) (string, []Fail) {
	if i := strings.Index(c, " + "); i >= 0 {
		c = c[:i]
	}
	f := strings.Fields(c)
	if len(f) == 0 {
		return "bad-op", nil
	}
	var fails []Fail
	fail := func(sig, format string, a ...any) {
		fails = append(fails, Fail{Sig: sig, Text: fmt.Sprintf(format, a...)})
	}
	defer func() {
		obioptions.SetOutputQualityShift(33)
		obioptions.SetInputQualityShift(33)
	}()
	stat("op:" + f[0])
	c02Floats = nil

	// re-parsing a formatted header never changes or loses annotations, for any title line the parser accepts
	reparse := func(sig string, header string) {
		var a1, a2, info string
		r := guardT(5*time.Second, func() string {
			s := obiseq.NewBioSequence("x", []byte("a"), header)
			obiformats.ParseFastSeqJsonHeader(s)
			a1 = c02Dump(map[string]interface{}(s.Annotations()))
			info = obiformats.FormatFastSeqJsonHeader(s)
			return "ok"
		})
		if r != "ok" {
			return // title line not accepted
		}
		if !utf8.ValidString(header) {
			stat("reparse:invalid-utf8-skipped") // outside the universe (go-json prints U+FFFD for an invalid byte)
			return
		}
		stat("reparse:accepted")
		r = guardT(5*time.Second, func() string {
			s := obiseq.NewBioSequence("x", []byte("a"), info)
			obiformats.ParseFastSeqJsonHeader(s)
			a2 = c02Dump(map[string]interface{}(s.Annotations()))
			return "ok"
		})
		if r != "ok" {
			fail(sig+".reparse-"+r, "header %q parsed, formatted as %q, which the parser does not accept (%s)", header, info, r)
		} else if a1 != a2 {
			fail(sig+".reparse", "header %q parsed as %s, formatted as %q, re-parsed as %s", header, a1, info, a2)
		}
	}

	hdr := func(header string) string {
		lib, ok := c02Lib(header)
		if !ok {
			caseTrivial = true
			return "bad-op"
		}
		caseOverride = c + " + " + lib
		if f[0] == "hdrj" {
			caseOverride = c + " + " + c02FloatTable() + " " + hx([]byte(header)) + " " + lib
		}
		var ann obiseq.Annotation
		res := guardT(5*time.Second, func() string {
			ann = obiseq.Annotation{}
			ret := obiformats.VerifParseJsonHeader(header, ann)
			if ret == header {
				if len(ann) != 0 {
					return "none-with-annotations"
				}
				return "none"
			}
			d, def := c02AnnDigest(ann)
			return fmt.Sprintf("ok %s %s %s", d, def, hx([]byte(ret)))
		})
		stat("hdr:" + strings.Fields(res)[0])
		return res
	}

	switch {
	case f[0] == "big":
		// fourth pass: sizes at and above the buffer boundaries (c02_big.go)
		return c02ExecBig(c, f)
	case f[0] == "conc":
		// wave 3: the round trips under concurrent use (c02_conc.go)
		return c02ExecConc(c, f)
	case f[0] == "race" && len(f) >= 2 && f[1] != "race":
		res, fs := c02Race(strings.TrimPrefix(c, "race "))
		if caseOverride != "" && !strings.HasPrefix(caseOverride, "race ") {
			caseOverride = "race " + caseOverride
		}
		return res, fs
	case f[0] == "obik" && len(f) == 2:
		return c02ExecObik(f, fail, &fails)
	case f[0] == "cli" && len(f) >= 4:
		return c02ExecCli(c, f, fail, &fails)
	case f[0] == "hdr" && len(f) == 2:
		hb, ok := unhx(f[1])
		if !ok {
			return "bad-op", nil
		}
		res := hdr(string(hb))
		reparse("hdr", string(hb))
		return res, fails

	case f[0] == "hdrj" && len(f) == 3:
		ann, ok1 := c02ParseAnn(f[1])
		trail, ok2 := unhx(f[2])
		if !ok1 || !ok2 {
			return "bad-op", nil
		}
		s := obiseq.NewBioSequence("x", []byte("a"), "")
		for k, v := range ann {
			s.Annotations()[k] = v
		}
		info0 := obiformats.FormatFastSeqJsonHeader(s)
		header := info0 + string(trail)
		if len(ann) > 0 && !c02BalancedObj(info0) {
			fail("hyp.json-balanced", "go-json output %q is not one balanced, properly escaped object on one line", info0)
		}
		res := hdr(header)
		if res != "bad-op" {
			res += " i=" + hx([]byte(info0))
		}
		c02StdlibOracle(fail, ann, info0)
		// oracle: the object the writer produced is found again, whatever follows it
		if len(ann) > 0 {
			want := c02Dump(map[string]interface{}(ann))
			got := ""
			var rest string
			r := guardT(5*time.Second, func() string {
				a := obiseq.Annotation{}
				rest = obiformats.VerifParseJsonHeader(header, a)
				got = c02Dump(map[string]interface{}(a))
				return "ok"
			})
			if r != "ok" {
				fail("hdrj."+r, "header %q: %s", header, r)
			} else if got != want {
				fail("hdrj.annotations", "header %q: annotations %s expected %s", header, got, want)
			} else if rest != strings.TrimSpace(string(trail)) {
				fail("hdrj.rest", "header %q: remainder %q expected %q", header, rest, strings.TrimSpace(string(trail)))
			}
		}
		reparse("hdrj", header)
		return res, fails

	case f[0] == "title" && len(f) == 3 && (f[1] == "fasta" || f[1] == "fastq"):
		tb, ok := unhx(f[2])
		if !ok {
			return "bad-op", nil
		}
		text := ">" + string(tb) + "\nacgt"
		if f[1] == "fastq" {
			text = "@" + string(tb) + "\nacgt\n+\nIIII\n"
		}
		res := guardT(5*time.Second, func() string {
			sl := c02Parse(f[1], text)
			var parts []string
			for _, s := range sl {
				_, def := c02AnnDigest(s.Annotations())
				parts = append(parts, fmt.Sprintf("id=%s seq=%s def=%s", hx([]byte(s.Id())), hx(s.Sequence()), def))
			}
			return strconv.Itoa(len(sl)) + " " + strings.Join(parts, " | ")
		})
		return strings.TrimSpace(res), fails

	case f[0] == "obirt" && len(f) == 2:
		return c02ExecObirt(f), fails

	case f[0] == "txt" && len(f) == 4 && (f[1] == "fasta" || f[1] == "fastq"):
		// third pass: ANY text (several records, blank lines, CR LF, > or @ anywhere, bad symbols, cut anywhere) through
		// the real chunk parser; the model answers with its state machine (= the structural reading, by theorem)
		si, e1 := strconv.Atoi(f[2])
		tb, ok := unhx(f[3])
		if e1 != nil || !ok || si < 0 || si > 255 {
			return "bad-op", nil
		}
		res := guardT(5*time.Second, func() string {
			obioptions.SetInputQualityShift(si)
			sl := c02Parse(f[1], string(tb))
			var parts []string
			for _, s := range sl {
				_, def := c02AnnDigest(s.Annotations())
				q := "none"
				if s.HasQualities() {
					q = hx(s.Qualities())
				}
				parts = append(parts, fmt.Sprintf("id=%s seq=%s q=%s def=%s", hx([]byte(s.Id())), hx(s.Sequence()), q, def))
			}
			return strconv.Itoa(len(sl)) + " " + strings.Join(parts, " | ")
		})
		res = strings.TrimSpace(res)
		switch {
		case res == "fatal" || res == "panic" || res == "hang":
			stat("txt:" + f[1] + ":" + res)
		case strings.HasPrefix(res, "0"):
			stat("txt:" + f[1] + ":no-record")
		case strings.HasPrefix(res, "1 "):
			stat("txt:" + f[1] + ":1-record")
		default:
			stat("txt:" + f[1] + ":several-records")
		}
		return res, fails

	case f[0] == "q" && len(f) == 4:
		so, e1 := strconv.Atoi(f[1])
		si, e2 := strconv.Atoi(f[2])
		q, e3 := strconv.Atoi(f[3])
		if e1 != nil || e2 != nil || e3 != nil || so < 0 || so > 255 || si < 0 || si > 255 || q < 0 || q > 255 {
			return "bad-op", nil
		}
		res := guardT(5*time.Second, func() string {
			obioptions.SetOutputQualityShift(so)
			obioptions.SetInputQualityShift(si)
			s := obiseq.NewBioSequence("x", []byte("a"), "")
			s.SetQualities([]byte{byte(q)})
			text := obiformats.FormatFastq(s, nil)
			sl := c02Parse("fastq", text)
			if len(sl) != 1 {
				return fmt.Sprintf("nrec=%d", len(sl))
			}
			if !sl[0].HasQualities() {
				return "none"
			}
			return strconv.Itoa(int(sl[0].Qualities()[0]))
		})
		if so == si && so >= 14 && so <= 172 {
			stat("q:in-range-offset")
			want := q
			if want > 93 {
				want = 93
			}
			if res != strconv.Itoa(want) {
				fail("q.roundtrip", "quality %d written with shift %d and read with shift %d gives %s, expected %d", q, so, si, res, want)
			}
		}
		return res, fails

	case f[0] == "rt" && len(f) >= 6 && (f[1] == "fasta" || f[1] == "fastq") && (f[2] == "j" || f[2] == "g"):
		fm, hp := f[1], f[2]
		so, e1 := strconv.Atoi(f[3])
		si, e2 := strconv.Atoi(f[4])
		nr, e3 := strconv.Atoi(f[5])
		if e1 != nil || e2 != nil || e3 != nil || so < 0 || so > 255 || si < 0 || si > 255 || nr < 1 || len(f) != 6+4*nr {
			return "bad-op", nil
		}
		type recT struct {
			id, seq, q []byte
			hasQ       bool
			ann        obiseq.Annotation
		}
		var recs []recT
		for j := 0; j < nr; j++ {
			id, ok1 := unhx(f[6+4*j])
			sq, ok2 := unhx(f[7+4*j])
			var q []byte
			ok3, hasQ := true, f[8+4*j] != "-"
			if hasQ {
				q, ok3 = unhx(f[8+4*j])
			}
			ann, ok4 := c02ParseAnn(f[9+4*j])
			if !ok1 || !ok2 || !ok3 || !ok4 || len(id) == 0 || (hasQ && len(q) != len(sq)) {
				return "bad-op", nil
			}
			recs = append(recs, recT{id, sq, q, hasQ, ann})
		}
		mk := func() obiseq.BioSequenceSlice {
			var sl obiseq.BioSequenceSlice
			for _, r := range recs {
				s := obiseq.NewBioSequence(string(r.id), r.seq, "")
				if r.hasQ {
					s.SetQualities(r.q)
				}
				a, _ := c02ParseAnn(f[9+4*len(sl)])
				for k, v := range a {
					s.Annotations()[k] = v
				}
				sl = append(sl, s)
			}
			return sl
		}
		obioptions.SetOutputQualityShift(so)
		obioptions.SetInputQualityShift(si)
		var text string
		var infos, libs []string
		var orig, back obiseq.BioSequenceSlice
		bad := false
		w := guardT(10*time.Second, func() string {
			orig = mk()
			for _, s := range orig {
				infos = append(infos, obiformats.FormatFastSeqJsonHeader(s))
			}
			for j, in := range infos {
				if in != "" && !c02BalancedObj(in) {
					fail("hyp.json-balanced", "go-json output %q is not one balanced, properly escaped object on one line", in)
				}
				c02StdlibOracle(fail, orig[j].Annotations(), in)
			}
			text = c02Write(fm, orig)
			return "ok"
		})
		if w != "ok" {
			emptySeq := false
			for _, rc := range recs {
				emptySeq = emptySeq || len(rc.seq) == 0
			}
			if emptySeq && w == "fatal" {
				// Format*Batch(skipEmpty=false): log.Fatalf("Sequence %s is empty") — outside the property (length >= 1)
				stat("rt:empty-sequence-fatal")
				caseOverride = c + " + " + c02FloatTable()
				return "w=" + w, fails
			}
			fail("rt."+fm+".write-"+w, "writing: %s", w)
			return "w=" + w, fails
		}
		stage := "parse"
		r := guardT(10*time.Second, func() string {
			if c02BigFile {
				// fourth pass: the text goes through a real file, the format guesser and the chunked file reader
				// (1 MiB chunks, parallel parsers), the header parser given as the reader's option
				stage = "file"
				var e string
				back, e = c02ReadViaFile(fm, hp, text)
				if e != "" {
					return e
				}
			} else {
				back = c02Parse(fm, text)
			}
			// the header bytes the real header parser is going to see
			for _, s := range back {
				if c02BigMode {
					libs = append(libs, "-") // writer-made headers: the model decodes them itself
					continue
				}
				lib, ok := c02Lib(s.Definition())
				if !ok {
					bad = true
				}
				libs = append(libs, lib)
			}
			stage = "header"
			parser := c02HeaderParser(hp)
			var parts []string
			for _, s := range back {
				if !c02BigFile {
					parser(s)
				}
				parts = append(parts, c02RecDump(s))
			}
			return strconv.Itoa(len(back)) + " " + strings.Join(parts, " | ")
		})
		if bad {
			caseTrivial = true
			return "bad-op", nil
		}
		aug := c + " + " + c02FloatTable()
		for j := 0; j < nr; j++ {
			lib := "-"
			if j < len(libs) {
				lib = libs[j]
			}
			aug += " " + hx([]byte(infos[j])) + " " + lib
		}
		caseOverride = aug
		res := "w=" + hx([]byte(text)) + " r=" + strings.TrimSpace(r)
		if r == "fatal" || r == "panic" || r == "hang" || strings.HasPrefix(r, "err:") {
			fail("rt."+fm+"."+stage+"-"+strings.SplitN(r, ":", 2)[0], "re-reading %q: %s", text, r)
			return res, fails
		}
		stat("rt:" + fm + ":" + hp)
		// oracle: same records
		if len(back) != nr {
			fail("rt."+fm+".nrec", "%d records written, %d read back from %q", nr, len(back), text)
			return res, fails
		}
		for j, rc := range recs {
			b := back[j]
			if b.Id() != string(rc.id) {
				fail("rt."+fm+".id", "id %q read back as %q", rc.id, b.Id())
			}
			if string(b.Sequence()) != strings.ToLower(string(rc.seq)) {
				fail("rt."+fm+".seq", "sequence %q read back as %q", rc.seq, b.Sequence())
			}
			if fm == "fastq" && so == si {
				want := make([]byte, len(rc.seq))
				for i := range want {
					want[i] = 40
					if rc.hasQ {
						want[i] = rc.q[i]
						if want[i] > 93 {
							want[i] = 93
						}
					}
				}
				if !bytes.Equal(want, b.Qualities()) || !b.HasQualities() {
					fail("rt.fastq.qual", "qualities %v read back as %v (shift %d)", rc.q, b.Qualities(), so)
				}
			}
			want := c02Dump(map[string]interface{}(rc.ann))
			got := c02Dump(map[string]interface{}(b.Annotations()))
			if want != got {
				fail("rt."+fm+".annotations", "annotations %s read back as %s (title %q)", want, got, infos[j])
			}
			// kinds (theorem reread_numbers): every float64 is read back as a float64, every int as the float64 of the
			// same value — the re-read map is the original with its ints turned into float64
			wantK := c02DumpK(map[string]interface{}(rc.ann), true)
			gotK := c02DumpK(map[string]interface{}(b.Annotations()), false)
			if wantK != gotK {
				fail("rt."+fm+".kinds", "annotations %s (ints as float64) read back as %s", wantK, gotK)
			}
			if c02DumpK(map[string]interface{}(rc.ann), false) != gotK {
				stat("kind:int->float64")
			} else {
				stat("kind:identical")
			}
		}
		// oracle: write(read(write r)) = write r, byte for byte (when both shifts agree)
		if so == si || fm == "fasta" {
			w2 := guardT(10*time.Second, func() string { return "ok" + c02Write(fm, back) })
			if w2 != "ok"+text {
				fail("rt."+fm+".wrw", "write(read(write r)) = %q but write r = %q", strings.TrimPrefix(w2, "ok"), text)
			}
		}
		return res, fails
	}
	return "bad-op", nil
}

// c02GenTxt (third pass): texts for the chunk parsers that no writer prints
func c02GenTxt(rng *rand.Rand, tier string, emit func(string)) {
	for _, t := range []string{"", ">", "> a\nac", ">a", ">a\n", ">a\nac", ">a\nac\n>", ">a\nac\n>b", ">a\nac\n>b\n", ">a\nac\n>b\ng", ">a\nac>b\ng",
		">a x\r\nAC\r\ngt\r\n\r\n>b\ty  z \r\n\r\nn-[.]\r\n", ">a\n\n\n", ">a\n ac", ">a\nac gt\n", ">a\n>b\nac", ">a >b\nac\n>c d>e\ng\n", ">a\nac\n\r>b\rg",
		">a\nac\n >b\ng", ">a\nac\n>\nb", ">a\nac\n> b\ng", ">a\na1c", "a\nac", ">a\nAC*\n", ">é x\nac\n>é\nac", ">a\nac\n>b\n\n>c\ng"} {
		emit("txt fasta 33 " + hx([]byte(t)))
	}
	for _, t := range []string{"", "@", "@a", "@a\n", "@a\nac", "@a\nac\n", "@a\nac\n+", "@a\nac\n+\n", "@a\nac\n+\nII", "@a\nac\n+\nII\n", "@a\nac\n+\nII\n@",
		"@a\nac\n+\nII\n@b\ng\n+\nJ", "@a\nac\n+\nII\n@b\ng\n+\nJ\n", "@a\nac\n+\nI\n", "@a\nac\n+\nIII\n", "@a\nac\n+\n\n@b\n", "@a x\r\nAc\r\n\r\n+a x\r\nII\r\n\r\n@b\r\ng\r\n+\r\n@\r\n",
		"@a\n1c\n+\nII\n", "@a\na1\n+\nII\n", "@a\n>c\n+\nII\n", "@a\nac\n-\nII\n", "@a\nac\n+\nII\nb", "@a\nac\n+\n@I\n@b\ng\n+\n@\n", "@a\n\n\nac\n\n+\n\nII\n\n\n@b\ng\n+\nI",
		"@a\n ac\n+\nIII\n", "@ a\nac\n+\nII\n", "a\nac\n+\nII\n", "@a\nac\n+\nI I\n", "@a\nac\n+\nII\n\n@b  y \ngt\n+ z\n!~\n"} {
		for _, si := range []string{"33", "64"} {
			emit("txt fastq " + si + " " + hx([]byte(t)))
		}
	}
	// every text of length <= L over a small alphabet: each state of the machines on each class of byte
	la, lq := 5, 5
	if tier == "thorough" {
		la, lq = 6, 6
	}
	var rec func(fm string, alpha []string, cur string, l int)
	rec = func(fm string, alpha []string, cur string, l int) {
		if len(cur) == l {
			emit("txt " + fm + " 33 " + hx([]byte(cur)))
			return
		}
		for _, c := range alpha {
			rec(fm, alpha, cur+c, l)
		}
	}
	for l := 1; l <= la; l++ {
		rec("fasta", []string{">", "a", "\n", " ", "1"}, ">", l+1)
	}
	for l := 1; l <= lq; l++ {
		rec("fastq", []string{"@", "a", "\n", " ", "+", "1"}, "@", l+1)
	}
	// random texts: records assembled from pieces, then damaged
	n := 600
	if tier == "thorough" {
		n = 6000
	}
	eols := []string{"\n", "\n", "\n", "\r\n", "\r", "\n\n", "\n\r\n"}
	seqs := []string{"a", "acgt", "ACGT", "AcGtNn", "n-[.]", "ryswkmbdhv", strings.Repeat("acgtn", 12), strings.Repeat("a", 61)}
	for i := 0; i < n; i++ {
		fm := []string{"fasta", "fastq"}[rng.Intn(2)]
		var b strings.Builder
		for r := 1 + rng.Intn(4); r > 0; r-- {
			eol := func() string { return eols[rng.Intn(len(eols))] }
			if fm == "fasta" {
				b.WriteString(">")
			} else {
				b.WriteString("@")
			}
			b.WriteString([]string{"s1", "x", "a>b", "@q", "é", "id|1#2"}[rng.Intn(6)])
			b.WriteString([]string{"", " ", "\t", "  d e ", " {\"a\":1}", " >x @y", "\t \td  "}[rng.Intn(7)])
			b.WriteString(eol())
			sq := ""
			for k := 1 + rng.Intn(3); k > 0; k-- {
				piece := seqs[rng.Intn(len(seqs))]
				sq += piece
				b.WriteString(piece)
				if fm == "fasta" {
					b.WriteString([]string{"", " ", "\t"}[rng.Intn(3)/2*rng.Intn(3)])
					b.WriteString(eol())
				}
			}
			if fm == "fastq" {
				b.WriteString(eol() + "+" + []string{"", "s1", " x"}[rng.Intn(3)] + eol())
				ql := len(sq)
				if rng.Intn(12) == 0 {
					ql += rng.Intn(3) - 1
				}
				for k := 0; k < ql; k++ {
					b.WriteByte(byte(33 + rng.Intn(94)))
				}
				b.WriteString(eol())
			}
		}
		t := []byte(b.String())
		switch rng.Intn(5) {
		case 0: // cut anywhere
			t = t[:rng.Intn(len(t)+1)]
		case 1: // one byte replaced
			if len(t) > 0 {
				dmg := []byte(">@+\n\r 1*aA\t\x00\xff")
				t[rng.Intn(len(t))] = dmg[rng.Intn(len(dmg))]
			}
		case 2: // one byte inserted
			k := rng.Intn(len(t) + 1)
			ins := []byte(">@+\n\r 1*aA\t")
			t = append(t[:k:k], append([]byte{ins[rng.Intn(len(ins))]}, t[k:]...)...)
		}
		emit(fmt.Sprintf("txt %s %d %s", fm, []int{33, 33, 64}[rng.Intn(3)], hx(t)))
	}
}
