//go:build c02

package main

// C02 — write then read round-trips records unchanged (FASTA/FASTQ + JSON header).
//
// Ops (case lines; the part after " + " is data produced by the real code / the external JSON library that
// the Lean model takes as a parameter — Exec recomputes it and ignores what is given):
//
//	hdr  <header-hex>                      [+ <lib>]            real _parse_json_header_ on these bytes
//	hdrj <annspec> <trail-hex>             [+ <header-hex> <lib>]   header = go-json(ann) ++ trail
//	title fasta|fastq <title-hex>                               one record with this title line -> chunk parser
//	q <shiftOut> <shiftIn> <q>                                  one quality value through QualitiesString / FASTQ parser
//	rt fasta|fastq j|g <shOut> <shIn> <n> (<id-hex> <seq-hex> <qual-hex|-> <annspec>)*n  [+ (<info-hex> <lib>)*n]
//	                                                            real Format*Batch -> real *ChunkParser -> real header parser
//
// <lib> = the answers of go-json for every candidate span [s,e) (header[s]='{', header[e-1]='}') of the header the
// real parser sees: "s:e:x" (Unmarshal error) or "s:e:<digest of decoded map without definition>:<-|d<hex of definition>>".
import (
	"bytes"
	"fmt"
	"hash/fnv"
	"math"
	"math/rand"
	"reflect"
	"sort"
	"strconv"
	"strings"
	"time"

	"git.metabarcoding.org/obitools/obitools4/obitools4/pkg/obiformats"
	"git.metabarcoding.org/obitools/obitools4/obitools4/pkg/obiiter"
	"git.metabarcoding.org/obitools/obitools4/obitools4/pkg/obioptions"
	"git.metabarcoding.org/obitools/obitools4/obitools4/pkg/obiseq"
	"github.com/goccy/go-json"
)

type c02 struct{}

func init() { props["C02"] = c02{} }

// ---------------------------------------------------------------- annotation specs

// annspec: entries joined by ';' ('-' = no annotation). Entry = <type>.<key-hex>.<value>
//
//	s string (hex) | i int | f float64 (IEEE bits, hex) | b bool (0/1)
//	mi map[string]int k-hex=int,... | ms map[string]string k-hex=v-hex,... | li []int int,...
func c02ParseAnn(spec string) (obiseq.Annotation, bool) {
	ann := obiseq.Annotation{}
	if spec == "-" {
		return ann, true
	}
	for _, e := range strings.Split(spec, ";") {
		p := strings.SplitN(e, ".", 3)
		if len(p) != 3 {
			return nil, false
		}
		kb, ok := unhx(p[1])
		if !ok {
			return nil, false
		}
		k := string(kb)
		switch p[0] {
		case "s":
			v, ok := unhx(p[2])
			if !ok {
				return nil, false
			}
			ann[k] = string(v)
		case "i":
			v, err := strconv.ParseInt(p[2], 10, 64)
			if err != nil {
				return nil, false
			}
			ann[k] = int(v)
		case "f":
			v, err := strconv.ParseUint(p[2], 16, 64)
			if err != nil {
				return nil, false
			}
			ann[k] = math.Float64frombits(v)
		case "b":
			ann[k] = p[2] == "1"
		case "mi":
			m := map[string]int{}
			if p[2] != "" {
				for _, kv := range strings.Split(p[2], ",") {
					q := strings.SplitN(kv, "=", 2)
					if len(q) != 2 {
						return nil, false
					}
					kk, ok := unhx(q[0])
					v, err := strconv.ParseInt(q[1], 10, 64)
					if !ok || err != nil {
						return nil, false
					}
					m[string(kk)] = int(v)
				}
			}
			ann[k] = m
		case "ms":
			m := map[string]string{}
			if p[2] != "" {
				for _, kv := range strings.Split(p[2], ",") {
					q := strings.SplitN(kv, "=", 2)
					if len(q) != 2 {
						return nil, false
					}
					kk, ok1 := unhx(q[0])
					v, ok2 := unhx(q[1])
					if !ok1 || !ok2 {
						return nil, false
					}
					m[string(kk)] = string(v)
				}
			}
			ann[k] = m
		case "li":
			l := []int{}
			if p[2] != "" {
				for _, x := range strings.Split(p[2], ",") {
					v, err := strconv.ParseInt(x, 10, 64)
					if err != nil {
						return nil, false
					}
					l = append(l, int(v))
				}
			}
			ann[k] = l
		default:
			return nil, false
		}
	}
	return ann, true
}

// c02Dump is the canonical by-value rendering of an annotation value: numbers of every Go type are
// rendered by value (an int and the float64 of the same value are equal), maps by sorted key.
func c02Dump(v interface{}) string {
	if v == nil {
		return "Z"
	}
	num := func(x float64) string {
		if x == math.Trunc(x) && math.Abs(x) < 9.3e18 {
			return "N" + strconv.FormatInt(int64(x), 10)
		}
		return "N" + strconv.FormatFloat(x, 'g', -1, 64)
	}
	rv := reflect.ValueOf(v)
	switch rv.Kind() {
	case reflect.String:
		return "S" + hx([]byte(rv.String()))
	case reflect.Bool:
		if rv.Bool() {
			return "B1"
		}
		return "B0"
	case reflect.Int, reflect.Int8, reflect.Int16, reflect.Int32, reflect.Int64:
		return "N" + strconv.FormatInt(rv.Int(), 10)
	case reflect.Uint, reflect.Uint8, reflect.Uint16, reflect.Uint32, reflect.Uint64:
		return "N" + strconv.FormatUint(rv.Uint(), 10)
	case reflect.Float32, reflect.Float64:
		return num(rv.Float())
	case reflect.Map:
		var parts []string
		for _, k := range rv.MapKeys() {
			parts = append(parts, hx([]byte(fmt.Sprint(k.Interface())))+"="+c02Dump(rv.MapIndex(k).Interface()))
		}
		sort.Strings(parts)
		return "M{" + strings.Join(parts, ",") + "}"
	case reflect.Slice, reflect.Array:
		var parts []string
		for i := 0; i < rv.Len(); i++ {
			parts = append(parts, c02Dump(rv.Index(i).Interface()))
		}
		return "L[" + strings.Join(parts, ",") + "]"
	case reflect.Interface, reflect.Ptr:
		if rv.IsNil() {
			return "Z"
		}
		return c02Dump(rv.Elem().Interface())
	}
	return "?" + fmt.Sprintf("%T", v)
}

func c02Digest(s string) string {
	h := fnv.New32a()
	h.Write([]byte(s))
	return fmt.Sprintf("%08x", h.Sum32())
}

// digest of an annotation map without its "definition" entry + the definition flag ("-" absent, "d<hex>" present)
func c02AnnDigest(ann obiseq.Annotation) (string, string) {
	m := map[string]interface{}{}
	def := "-"
	for k, v := range ann {
		if k == "definition" {
			h := hx([]byte(fmt.Sprintf("%v", v)))
			if h == "-" {
				h = ""
			}
			def = "d" + h
		} else {
			m[k] = v
		}
	}
	return c02Digest(c02Dump(m)), def
}

// c02Lib: what go-json answers on every candidate span of header (the model's parameter).
func c02Lib(header string) (string, bool) {
	var opens, closes []int
	for i := 0; i < len(header); i++ {
		if header[i] == '{' {
			opens = append(opens, i)
		}
		if header[i] == '}' {
			closes = append(closes, i+1)
		}
	}
	if len(opens)*len(closes) > 900 {
		return "", false
	}
	var parts []string
	for _, s := range opens {
		for _, e := range closes {
			if e <= s {
				continue
			}
			ann := obiseq.Annotation{}
			err := json.Unmarshal([]byte(header[s:e]), &ann)
			if err != nil {
				parts = append(parts, fmt.Sprintf("%d:%d:x", s, e))
			} else {
				d, def := c02AnnDigest(ann)
				parts = append(parts, fmt.Sprintf("%d:%d:%s:%s", s, e, d, def))
			}
		}
	}
	if len(parts) == 0 {
		return "-", true
	}
	return strings.Join(parts, ","), true
}

// c02BalancedObj is the hypothesis of the Lean theorem scan_finds_object, decided by an independent tokenizer:
// the text is one object — '{' first, strings closed and with every '"' and '\\' escaped (a backslash is always
// followed by one more byte of the string), brace nesting outside strings back to 0 exactly at the last byte —
// and holds no raw end of line.
func c02BalancedObj(t string) bool {
	if len(t) == 0 || t[0] != '{' {
		return false
	}
	level, instr := 0, false
	for i := 0; i < len(t); i++ {
		c := t[i]
		if c == '\n' || c == '\r' {
			return false
		}
		if instr {
			if c == '\\' {
				i++
				if i >= len(t) {
					return false
				}
			} else if c == '"' {
				instr = false
			}
			continue
		}
		switch c {
		case '"':
			instr = true
		case '{':
			level++
		case '}':
			level--
			if level == 0 {
				return i == len(t)-1
			}
		}
	}
	return false
}

// ---------------------------------------------------------------- generators

var c02Hostile = []string{`"`, `\`, `{`, `}`, `;`, `=`, `>`, `@`}
var c02Extra = []string{"\n", "\t", " ", "a", "Z", "0", ":", ",", "'", "/", "é", "漢", "\u00a0", "\u2028", "😀", "\x7f", "\x01", "[", "]"}

func c02RandStr(rng *rand.Rand, maxLen int) string {
	n := rng.Intn(maxLen + 1)
	var b strings.Builder
	for i := 0; i < n; i++ {
		switch rng.Intn(3) {
		case 0, 1:
			b.WriteString(c02Hostile[rng.Intn(len(c02Hostile))])
		default:
			b.WriteString(c02Extra[rng.Intn(len(c02Extra))])
		}
	}
	return b.String()
}

func c02RandKey(rng *rand.Rand, used map[string]bool) string {
	for {
		var k string
		switch rng.Intn(4) {
		case 0:
			k = c02RandStr(rng, 4)
		default:
			k = []string{"count", "merged_sample", "taxid", "obiclean_weight", "seq_length", "k", "a", "sample", "direction", "scientific_name"}[rng.Intn(10)]
		}
		if k == "" || k == "definition" || used[k] {
			k = k + strconv.Itoa(rng.Intn(1000))
		}
		if !used[k] && k != "definition" {
			used[k] = true
			return k
		}
	}
}

func c02RandInt(rng *rand.Rand) int64 {
	switch rng.Intn(6) {
	case 0:
		return []int64{0, 1, -1, 1 << 53, -(1 << 53), 1<<53 - 1, -(1<<53 - 1), 1 << 31, -(1 << 31), 1 << 32, 999999999999, 1000000}[rng.Intn(12)]
	case 1:
		return rng.Int63n(1<<53+1) * int64(1-2*rng.Intn(2))
	default:
		return int64(rng.Intn(2000) - 1000)
	}
}

func c02RandFloat(rng *rand.Rand) float64 {
	switch rng.Intn(5) {
	case 0:
		return []float64{0.5, -0.25, 1e21, 1e-7, 1.5e300, -2.5e-300, 0.1, 3.0, 1e20, 123456789.125, math.MaxFloat64, math.SmallestNonzeroFloat64, 1e6, 1e-6}[rng.Intn(14)]
	case 1:
		return rng.NormFloat64() * math.Pow(10, float64(rng.Intn(40)-20))
	default:
		return float64(rng.Intn(100000)) / 1000
	}
}

func c02RandAnn(rng *rand.Rand, maxEntries int) string {
	n := rng.Intn(maxEntries + 1)
	if n == 0 {
		return "-"
	}
	used := map[string]bool{}
	var es []string
	for i := 0; i < n; i++ {
		k := hx([]byte(c02RandKey(rng, used)))
		switch rng.Intn(9) {
		case 0, 1, 2:
			h := hx([]byte(c02RandStr(rng, 8)))
			if h == "-" {
				h = ""
			}
			es = append(es, "s."+k+"."+h)
		case 3:
			es = append(es, fmt.Sprintf("i.%s.%d", k, c02RandInt(rng)))
		case 4:
			es = append(es, fmt.Sprintf("f.%s.%x", k, math.Float64bits(c02RandFloat(rng))))
		case 5:
			es = append(es, fmt.Sprintf("b.%s.%d", k, rng.Intn(2)))
		case 6:
			var kv []string
			u := map[string]bool{}
			for j := rng.Intn(4); j > 0; j-- {
				kk := c02RandStr(rng, 3) + strconv.Itoa(j)
				if u[kk] {
					continue
				}
				u[kk] = true
				kv = append(kv, fmt.Sprintf("%s=%d", hx([]byte(kk)), c02RandInt(rng)))
			}
			es = append(es, "mi."+k+"."+strings.Join(kv, ","))
		case 7:
			var kv []string
			u := map[string]bool{}
			for j := rng.Intn(4); j > 0; j-- {
				kk := c02RandStr(rng, 3) + strconv.Itoa(j)
				if u[kk] {
					continue
				}
				u[kk] = true
				h := hx([]byte(c02RandStr(rng, 5)))
				if h == "-" {
					h = ""
				}
				kv = append(kv, hx([]byte(kk))+"="+h)
			}
			es = append(es, "ms."+k+"."+strings.Join(kv, ","))
		case 8:
			var l []string
			for j := rng.Intn(5); j > 0; j-- {
				l = append(l, strconv.FormatInt(c02RandInt(rng), 10))
			}
			es = append(es, "li."+k+"."+strings.Join(l, ","))
		}
	}
	if rng.Intn(4) == 0 {
		h := hx([]byte(strings.TrimSpace(c02RandStr(rng, 10))))
		if h != "-" {
			es = append(es, "s."+hx([]byte("definition"))+"."+h)
		}
	}
	return strings.Join(es, ";")
}

const c02Iupac = "acgtrymkswbdhvn"

func c02RandSeq(rng *rand.Rand, n int) []byte {
	s := make([]byte, n)
	for i := range s {
		if rng.Intn(4) == 0 {
			s[i] = c02Iupac[rng.Intn(len(c02Iupac))]
		} else {
			s[i] = "acgt"[rng.Intn(4)]
		}
	}
	return s
}

func c02RandId(rng *rand.Rand) string {
	ids := []string{"seq1", "M01334:147:000000000-LBRVD:1:1101:14968:1570", "a", ">x", "@y", "id{1}", `q"uo`, `b\s`, "x;y=z", "é漢", "+p", "HELIUM_000100422_612GNAAXX:7:119:14871:19157#0/1"}
	if rng.Intn(3) == 0 {
		var b strings.Builder
		for i := 1 + rng.Intn(6); i > 0; i-- {
			c := c02Hostile[rng.Intn(len(c02Hostile))]
			if rng.Intn(2) == 0 {
				c = string(rune('a' + rng.Intn(26)))
			}
			b.WriteString(c)
		}
		return b.String()
	}
	return ids[rng.Intn(len(ids))]
}

func c02RandRecord(rng *rand.Rand, withQ bool) string {
	lens := []int{1, 59, 60, 61, 120, 121}
	n := lens[rng.Intn(len(lens))]
	switch rng.Intn(4) {
	case 0:
		n = 1 + rng.Intn(10)
	case 1:
		n = 1 + rng.Intn(200)
	}
	q := "-"
	if withQ {
		qb := make([]byte, n)
		for i := range qb {
			switch rng.Intn(12) {
			case 0:
				qb[i] = byte(94 + rng.Intn(162))
			case 1:
				qb[i] = []byte{0, 93, 31, 10, 13, 94, 255}[rng.Intn(7)]
			default:
				qb[i] = byte(rng.Intn(94))
			}
		}
		q = hx(qb)
	}
	return fmt.Sprintf("%s %s %s %s", hx([]byte(c02RandId(rng))), hx(c02RandSeq(rng, n)), q, c02RandAnn(rng, 5))
}

func (c02) Gen(rng *rand.Rand, tier string, emit func(string)) {
	// corpus: the title lines that kill / fool the unrepaired scanner, and friends
	for _, h := range []string{
		`{"k":"x\"}y"}`, `{"a":"\"","b":1}`, `{"k":"x\"}y","z":3}`, `{"a":"\\"}`, `{"a":"\\","b":"}"}`, `{"a":"\\\""}`,
		`{"a":"{"}`, `{"a":"}"}`, `{"a":{"b":1},"c":[1,2]} some definition`, `{}`, `{} x`, `{"a":1}`, `{"a":1}{"b":2}`,
		`} {"a":1}`, `x {"a":1} y`, `"q" {"a":1}`, `{"a":1`, `{"a":"\`, `{"a":"\"`, `{"a":"x\`, ``, ` `, `{`, `}`, `"`, `\`, `{"a":1}  ` + " \t tail  ",
		`{"definition":"d1","a":2} d2`, `{"definition":5} d2`, `{"definition":""}`, `{"a":tru}`, `{"a":"` + "é漢" + `"}` + " ",
		`no json here`, `count=3; merged={'a':1};`, `{"a":""}"}`, `{"a":"\"}`, `{'a':1}`, `{"a":1} {"b":"\"}"}`,
	} {
		emit("hdr " + hx([]byte(h)))
	}
	for _, t := range []string{"id1 {\"a\":1}", "id1", "id1 ", "id1\tdef  two", "id1  \t {\"a\":\"x\\\"}y\"}", " id", "", "id1 >x @y", "i>d @", "id1 {\"a\":1} def"} {
		emit("title fasta " + hx([]byte(t)))
		emit("title fastq " + hx([]byte(t)))
	}
	emit("rt fasta j 33 33 1 73 61 - s.6b.785c227d79")
	emit("rt fastq g 33 33 1 73 61 - s.61.22;i.62.1")
	emit("rt fasta j 33 33 1 73 " + hx(bytes.Repeat([]byte("acgtn"), 12)) + " - -")
	emit("rt fasta g 33 33 1 73 " + hx(bytes.Repeat([]byte("acgtn"), 24)) + " - -")
	emit("rt fastq j 64 64 1 73 61636774 005d5e1f i.636f756e74.9007199254740992;f.78.3ff8000000000000")
	emit("rt fastq j 33 64 1 73 61636774 00051f28 -")
	emit("rt fastq j 33 33 2 73 6163 1f1f i.61.1 74 6163 1f00 s.62.40")

	// every quality value x shift combination
	for _, so := range []int{33, 64} {
		for _, si := range []int{33, 64} {
			for q := 0; q < 256; q++ {
				emit(fmt.Sprintf("q %d %d %d", so, si, q))
			}
		}
	}
	// every string of length <= L over the 8-symbol hostile alphabet as an annotation value
	maxl := 3
	if tier == "thorough" {
		maxl = 4
	}
	var rec func(cur string, l int)
	rec = func(cur string, l int) {
		if len(cur) == l {
			emit("hdrj s.6b." + strings.TrimPrefix(hx([]byte(cur)), "-") + " -")
			return
		}
		for _, c := range c02Hostile {
			rec(cur+c, l)
		}
	}
	for l := 1; l <= maxl; l++ {
		rec("", l)
	}
	// every raw header of length <= L over { } " \ a : the scanner in every state, valid JSON or not
	rawl := 4
	if tier == "thorough" {
		rawl = 6
	}
	var rec2 func(cur string, l int)
	rec2 = func(cur string, l int) {
		if len(cur) == l {
			emit("hdr " + hx([]byte(cur)))
			return
		}
		for _, c := range []string{"{", "}", `"`, `\`, "a"} {
			rec2(cur+c, l)
		}
	}
	for l := 1; l <= rawl; l++ {
		rec2("", l)
	}

	n := 1500
	if tier == "thorough" {
		n = 12000
	}
	for i := 0; i < n; i++ {
		switch rng.Intn(10) {
		case 0, 1, 2:
			// go-json(ann) ++ trailing text
			trail := ""
			if rng.Intn(2) == 0 {
				trail = c02RandStr(rng, 8)
				if rng.Intn(2) == 0 {
					trail = " " + trail
				}
			}
			emit("hdrj " + c02RandAnn(rng, 4) + " " + hx([]byte(strings.ReplaceAll(trail, "\n", " "))))
		case 3:
			// raw hostile header
			var b strings.Builder
			for j := rng.Intn(14); j > 0; j-- {
				b.WriteString([]string{"{", "}", `"`, `\`, "a", ":", ",", " ", "1", " ", "é"}[rng.Intn(11)])
			}
			emit("hdr " + hx([]byte(b.String())))
		case 4:
			t := c02RandId(rng)
			switch rng.Intn(4) {
			case 0:
				t += " "
			case 1:
				t += "\t \t" + strings.ReplaceAll(c02RandStr(rng, 10), "\n", " ")
			case 2:
				t += " " + strings.ReplaceAll(c02RandStr(rng, 10), "\n", "\r")
			}
			emit("title " + []string{"fasta", "fastq"}[rng.Intn(2)] + " " + hx([]byte(t)))
		default:
			fm := []string{"fasta", "fastq"}[rng.Intn(2)]
			hp := []string{"j", "g"}[rng.Intn(2)]
			so, si := 33, 33
			switch rng.Intn(8) {
			case 0:
				so, si = 64, 64
			case 1:
				so, si = 33, 64
			case 2:
				so, si = 64, 33
			}
			nr := 1
			if rng.Intn(6) == 0 {
				nr = 2 + rng.Intn(2)
			}
			var recs []string
			for j := 0; j < nr; j++ {
				recs = append(recs, c02RandRecord(rng, fm == "fastq" && rng.Intn(10) != 0 || fm == "fasta" && rng.Intn(8) == 0))
			}
			emit(fmt.Sprintf("rt %s %s %d %d %d %s", fm, hp, so, si, nr, strings.Join(recs, " ")))
		}
	}
}

// ---------------------------------------------------------------- execution

// c02RecDump: canonical rendering of a parsed record (numbers never printed: annotations go through a digest)
func c02RecDump(s *obiseq.BioSequence) string {
	q := "none"
	if s.HasQualities() {
		q = hx(s.Qualities())
	}
	d, def := c02AnnDigest(s.Annotations())
	return fmt.Sprintf("id=%s seq=%s q=%s ann=%s def=%s", hx([]byte(s.Id())), hx(s.Sequence()), q, d, def)
}

func c02HeaderParser(hp string) func(*obiseq.BioSequence) {
	if hp == "g" {
		return obiformats.ParseGuessedFastSeqHeader
	}
	return obiformats.ParseFastSeqJsonHeader
}

func c02Write(fm string, seqs obiseq.BioSequenceSlice) string {
	b := obiiter.MakeBioSequenceBatch("src", 0, seqs)
	if fm == "fastq" {
		return obiformats.FormatFastqBatch(b, obiformats.FormatFastSeqJsonHeader, false).String()
	}
	return obiformats.FormatFastaBatch(b, obiformats.FormatFastSeqJsonHeader, false).String()
}

func c02Parse(fm string, text string) obiseq.BioSequenceSlice {
	var sl obiseq.BioSequenceSlice
	if fm == "fastq" {
		sl, _ = obiformats.FastqChunkParser(obioptions.InputQualityShift(), true)("src", strings.NewReader(text))
	} else {
		sl, _ = obiformats.FastaChunkParser()("src", strings.NewReader(text))
	}
	return sl
}

func (c02) Exec(c string) (string, []Fail) {
	if i := strings.Index(c, " + "); i >= 0 {
		c = c[:i]
	}
	f := strings.Fields(c)
	if len(f) == 0 {
		return "bad-op", nil
	}
	var fails []Fail
	fail := func(sig, format string, a ...any) {
		fails = append(fails, Fail{Sig: sig, Text: fmt.Sprintf(format, a...)})
	}
	defer func() {
		obioptions.SetOutputQualityShift(33)
		obioptions.SetInputQualityShift(33)
	}()
	stat("op:" + f[0])

	// re-parsing a formatted header never changes or loses annotations, for any title line the parser accepts
	reparse := func(sig string, header string) {
		var a1, a2, info string
		r := guardT(5*time.Second, func() string {
			s := obiseq.NewBioSequence("x", []byte("a"), header)
			obiformats.ParseFastSeqJsonHeader(s)
			a1 = c02Dump(map[string]interface{}(s.Annotations()))
			info = obiformats.FormatFastSeqJsonHeader(s)
			return "ok"
		})
		if r != "ok" {
			return // title line not accepted
		}
		stat("reparse:accepted")
		r = guardT(5*time.Second, func() string {
			s := obiseq.NewBioSequence("x", []byte("a"), info)
			obiformats.ParseFastSeqJsonHeader(s)
			a2 = c02Dump(map[string]interface{}(s.Annotations()))
			return "ok"
		})
		if r != "ok" {
			fail(sig+".reparse-"+r, "header %q parsed, formatted as %q, which the parser does not accept (%s)", header, info, r)
		} else if a1 != a2 {
			fail(sig+".reparse", "header %q parsed as %s, formatted as %q, re-parsed as %s", header, a1, info, a2)
		}
	}

	hdr := func(header string) string {
		lib, ok := c02Lib(header)
		if !ok {
			caseTrivial = true
			return "bad-op"
		}
		caseOverride = c + " + " + lib
		if f[0] == "hdrj" {
			caseOverride = c + " + " + hx([]byte(header)) + " " + lib
		}
		var ann obiseq.Annotation
		res := guardT(5*time.Second, func() string {
			ann = obiseq.Annotation{}
			ret := obiformats.VerifParseJsonHeader(header, ann)
			if ret == header {
				if len(ann) != 0 {
					return "none-with-annotations"
				}
				return "none"
			}
			d, def := c02AnnDigest(ann)
			return fmt.Sprintf("ok %s %s %s", d, def, hx([]byte(ret)))
		})
		stat("hdr:" + strings.Fields(res)[0])
		return res
	}

	switch {
	case f[0] == "hdr" && len(f) == 2:
		hb, ok := unhx(f[1])
		if !ok {
			return "bad-op", nil
		}
		res := hdr(string(hb))
		reparse("hdr", string(hb))
		return res, fails

	case f[0] == "hdrj" && len(f) == 3:
		ann, ok1 := c02ParseAnn(f[1])
		trail, ok2 := unhx(f[2])
		if !ok1 || !ok2 {
			return "bad-op", nil
		}
		s := obiseq.NewBioSequence("x", []byte("a"), "")
		for k, v := range ann {
			s.Annotations()[k] = v
		}
		info0 := obiformats.FormatFastSeqJsonHeader(s)
		header := info0 + string(trail)
		if len(ann) > 0 && !c02BalancedObj(info0) {
			fail("hyp.json-balanced", "go-json output %q is not one balanced, properly escaped object on one line", info0)
		}
		res := hdr(header)
		// oracle: the object the writer produced is found again, whatever follows it
		if len(ann) > 0 {
			want := c02Dump(map[string]interface{}(ann))
			got := ""
			var rest string
			r := guardT(5*time.Second, func() string {
				a := obiseq.Annotation{}
				rest = obiformats.VerifParseJsonHeader(header, a)
				got = c02Dump(map[string]interface{}(a))
				return "ok"
			})
			if r != "ok" {
				fail("hdrj."+r, "header %q: %s", header, r)
			} else if got != want {
				fail("hdrj.annotations", "header %q: annotations %s expected %s", header, got, want)
			} else if rest != strings.TrimSpace(string(trail)) {
				fail("hdrj.rest", "header %q: remainder %q expected %q", header, rest, strings.TrimSpace(string(trail)))
			}
		}
		reparse("hdrj", header)
		return res, fails

	case f[0] == "title" && len(f) == 3 && (f[1] == "fasta" || f[1] == "fastq"):
		tb, ok := unhx(f[2])
		if !ok {
			return "bad-op", nil
		}
		text := ">" + string(tb) + "\nacgt"
		if f[1] == "fastq" {
			text = "@" + string(tb) + "\nacgt\n+\nIIII\n"
		}
		res := guardT(5*time.Second, func() string {
			sl := c02Parse(f[1], text)
			var parts []string
			for _, s := range sl {
				_, def := c02AnnDigest(s.Annotations())
				parts = append(parts, fmt.Sprintf("id=%s seq=%s def=%s", hx([]byte(s.Id())), hx(s.Sequence()), def))
			}
			return strconv.Itoa(len(sl)) + " " + strings.Join(parts, " | ")
		})
		return strings.TrimSpace(res), fails

	case f[0] == "q" && len(f) == 4:
		so, e1 := strconv.Atoi(f[1])
		si, e2 := strconv.Atoi(f[2])
		q, e3 := strconv.Atoi(f[3])
		if e1 != nil || e2 != nil || e3 != nil || so < 0 || so > 255 || si < 0 || si > 255 || q < 0 || q > 255 {
			return "bad-op", nil
		}
		res := guardT(5*time.Second, func() string {
			obioptions.SetOutputQualityShift(so)
			obioptions.SetInputQualityShift(si)
			s := obiseq.NewBioSequence("x", []byte("a"), "")
			s.SetQualities([]byte{byte(q)})
			text := obiformats.FormatFastq(s, nil)
			sl := c02Parse("fastq", text)
			if len(sl) != 1 {
				return fmt.Sprintf("nrec=%d", len(sl))
			}
			if !sl[0].HasQualities() {
				return "none"
			}
			return strconv.Itoa(int(sl[0].Qualities()[0]))
		})
		if so == si {
			want := q
			if want > 93 {
				want = 93
			}
			if res != strconv.Itoa(want) {
				fail("q.roundtrip", "quality %d written with shift %d and read with shift %d gives %s, expected %d", q, so, si, res, want)
			}
		}
		return res, fails

	case f[0] == "rt" && len(f) >= 6 && (f[1] == "fasta" || f[1] == "fastq") && (f[2] == "j" || f[2] == "g"):
		fm, hp := f[1], f[2]
		so, e1 := strconv.Atoi(f[3])
		si, e2 := strconv.Atoi(f[4])
		nr, e3 := strconv.Atoi(f[5])
		if e1 != nil || e2 != nil || e3 != nil || so < 0 || so > 255 || si < 0 || si > 255 || nr < 1 || len(f) != 6+4*nr {
			return "bad-op", nil
		}
		type recT struct {
			id, seq, q []byte
			hasQ       bool
			ann        obiseq.Annotation
		}
		var recs []recT
		for j := 0; j < nr; j++ {
			id, ok1 := unhx(f[6+4*j])
			sq, ok2 := unhx(f[7+4*j])
			var q []byte
			ok3, hasQ := true, f[8+4*j] != "-"
			if hasQ {
				q, ok3 = unhx(f[8+4*j])
			}
			ann, ok4 := c02ParseAnn(f[9+4*j])
			if !ok1 || !ok2 || !ok3 || !ok4 || len(id) == 0 || len(sq) == 0 || (hasQ && len(q) != len(sq)) {
				return "bad-op", nil
			}
			recs = append(recs, recT{id, sq, q, hasQ, ann})
		}
		mk := func() obiseq.BioSequenceSlice {
			var sl obiseq.BioSequenceSlice
			for _, r := range recs {
				s := obiseq.NewBioSequence(string(r.id), r.seq, "")
				if r.hasQ {
					s.SetQualities(r.q)
				}
				a, _ := c02ParseAnn(f[9+4*len(sl)])
				for k, v := range a {
					s.Annotations()[k] = v
				}
				sl = append(sl, s)
			}
			return sl
		}
		obioptions.SetOutputQualityShift(so)
		obioptions.SetInputQualityShift(si)
		var text string
		var infos, libs []string
		var orig, back obiseq.BioSequenceSlice
		bad := false
		w := guardT(10*time.Second, func() string {
			orig = mk()
			for _, s := range orig {
				infos = append(infos, obiformats.FormatFastSeqJsonHeader(s))
			}
			for _, in := range infos {
				if in != "" && !c02BalancedObj(in) {
					fail("hyp.json-balanced", "go-json output %q is not one balanced, properly escaped object on one line", in)
				}
			}
			text = c02Write(fm, orig)
			return "ok"
		})
		if w != "ok" {
			fail("rt."+fm+".write-"+w, "writing: %s", w)
			return "w=" + w, fails
		}
		stage := "parse"
		r := guardT(10*time.Second, func() string {
			back = c02Parse(fm, text)
			// the header bytes the real header parser is going to see
			for _, s := range back {
				lib, ok := c02Lib(s.Definition())
				if !ok {
					bad = true
				}
				libs = append(libs, lib)
			}
			stage = "header"
			parser := c02HeaderParser(hp)
			var parts []string
			for _, s := range back {
				parser(s)
				parts = append(parts, c02RecDump(s))
			}
			return strconv.Itoa(len(back)) + " " + strings.Join(parts, " | ")
		})
		if bad {
			caseTrivial = true
			return "bad-op", nil
		}
		aug := c + " +"
		for j := 0; j < nr; j++ {
			lib := "-"
			if j < len(libs) {
				lib = libs[j]
			}
			aug += " " + hx([]byte(infos[j])) + " " + lib
		}
		caseOverride = aug
		res := "w=" + hx([]byte(text)) + " r=" + strings.TrimSpace(r)
		if r == "fatal" || r == "panic" || r == "hang" {
			fail("rt."+fm+"."+stage+"-"+r, "re-reading %q: %s", text, r)
			return res, fails
		}
		stat("rt:" + fm + ":" + hp)
		// oracle: same records
		if len(back) != nr {
			fail("rt."+fm+".nrec", "%d records written, %d read back from %q", nr, len(back), text)
			return res, fails
		}
		for j, rc := range recs {
			b := back[j]
			if b.Id() != string(rc.id) {
				fail("rt."+fm+".id", "id %q read back as %q", rc.id, b.Id())
			}
			if string(b.Sequence()) != strings.ToLower(string(rc.seq)) {
				fail("rt."+fm+".seq", "sequence %q read back as %q", rc.seq, b.Sequence())
			}
			if fm == "fastq" && so == si {
				want := make([]byte, len(rc.seq))
				for i := range want {
					want[i] = 40
					if rc.hasQ {
						want[i] = rc.q[i]
						if want[i] > 93 {
							want[i] = 93
						}
					}
				}
				if !bytes.Equal(want, b.Qualities()) || !b.HasQualities() {
					fail("rt.fastq.qual", "qualities %v read back as %v (shift %d)", rc.q, b.Qualities(), so)
				}
			}
			want := c02Dump(map[string]interface{}(rc.ann))
			got := c02Dump(map[string]interface{}(b.Annotations()))
			if want != got {
				fail("rt."+fm+".annotations", "annotations %s read back as %s (title %q)", want, got, infos[j])
			}
		}
		// oracle: write(read(write r)) = write r, byte for byte (when both shifts agree)
		if so == si || fm == "fasta" {
			w2 := guardT(10*time.Second, func() string { return "ok" + c02Write(fm, back) })
			if w2 != "ok"+text {
				fail("rt."+fm+".wrw", "write(read(write r)) = %q but write r = %q", strings.TrimPrefix(w2, "ok"), text)
			}
		}
		return res, fails
	}
	return "bad-op", nil
}
