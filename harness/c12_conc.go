//go:build c12

package main

// C12 — conc: demultiplexing under concurrent use.
//
//	[race] conc <g> <r> <entry w|d> <bs> <fmt o|c> <style> <e> <indel> <K> K × [ marker … ] <N> N × [ <id> <seq> ]
//	       [hits N × K × [ 4 × ( <n> n × [ <begin> <end> <mismatches> ] ) ]]     appended by Exec
//
// What the commands do.  obimultiplex (demultiplex.go IExtractBarcode): ONE library read from the sheet, ONE closure
// `ExtractMultiBarcodeSliceWorker(opts…)` (options applied and the four patterns of every marker compiled once, before any
// worker starts), handed to `MakeISliceWorker`, whose nworkers goroutines all call that one closure, each on the slice of
// its own batch.  obitagpcr (pcrtag.go): the library compiled once (`Compile2`), then nworkers goroutines call
// `ngsfilter.ExtractMultiBarcode(consensus)` directly, each on the consensus it has just built.  Shared by the calls: the
// *NGSLibrary (Markers map, per marker the parameters, the tag pair -> PCR map `samples` and the four compiled
// ApatPattern — the C matcher below them has its own oracle in C10), the closure, the process-wide pools of obiseq
// (annotation maps, slices: C05).  Per call (nothing to hand in): the ApatSequence of the read, the hit list, the
// marker / primer tables, the scratch annotation map of each amplicon, the two rows of Levenshtein, the result slice.
//
// The oracle.  Result line = the N reads sent ALONE, in order, through a worker built on a library of their own (what the
// model recomputes: the `multi` history model).  Then, for each of r rounds, ANOTHER library is read from the same sheet and
// its worker built (closures rebuilt: nothing of the alone phase or of an earlier round is warm in it — a round is one run
// of the command), and g goroutines released together by a barrier send the same reads through it, each goroutine on fresh
// sequence objects of its own and starting at a different read:
// entry `w` = the slice worker on batches of <bs> reads (obimultiplex), entry `d` = ExtractMultiBarcode read by read
// (obitagpcr).  The records are read from the slice the call RETURNED, a few runtime.Gosched() later.  Every answer must be
// the answer obtained alone (conc.differs), every call must return (conc.panic), and the library object after the
// concurrent phase must be what it was before (conc.library-mutated).  The concurrent phase runs in a child process (this
// binary, `exec` mode, VERIF_C12_CONC=child): a crash of the Go runtime (`fatal error: concurrent map writes`, the usual
// end of an unsynchronised cache) becomes conc.crash with the case line instead of ending the run.  `race conc …`
// (thorough tier, first seed): the child is a `go build -race` build; a report of the race detector one of whose racing
// accesses lies in pkg/obingslibrary, pkg/obiapat, obimultiplex or obitagpcr is conc.race.

import (
	"bytes"
	"fmt"
	"math/rand"
	"os"
	"os/exec"
	"path/filepath"
	"runtime"
	"strconv"
	"strings"
	"sync"
	"time"

	"git.metabarcoding.org/obitools/obitools4/obitools4/pkg/obiapat"
	"git.metabarcoding.org/obitools/obitools4/obitools4/pkg/obingslibrary"
	"git.metabarcoding.org/obitools/obitools4/obitools4/pkg/obiseq"
)

type c12ConcCase struct {
	g, r, bs int
	entry    string
	c        *c12Case
	ids      []string
	seqs     [][]byte
}

func (m *c12ConcCase) line() string {
	c := m.c
	var b strings.Builder
	fmt.Fprintf(&b, "conc %d %d %s %d %s %d %d %d %d", m.g, m.r, m.entry, m.bs, c.format, c.style, c.e, c12b(c.indel), len(c.markers))
	for _, mk := range c.markers {
		fmt.Fprintf(&b, " %s %s %d %d %d %d %d %d %s %d %d %d %d %d", c12h(mk.fp), c12h(mk.rp), mk.fsp, mk.rsp, mk.fdl, mk.rdl, mk.fin, mk.rin,
			mk.mode, mk.ferr, mk.rerr, c12b(mk.fpi), c12b(mk.rpi), len(mk.samples))
		for _, s := range mk.samples {
			fmt.Fprintf(&b, " %s %s %s %s %s", c12h(s.ftag), c12h(s.rtag), c12h(s.name), c12h(s.exp), c12h(s.extra))
		}
	}
	fmt.Fprintf(&b, " %d", len(m.ids))
	for i := range m.ids {
		fmt.Fprintf(&b, " %s %s", c12h(m.ids[i]), hx(m.seqs[i]))
	}
	return b.String()
}

func c12ParseConc(f []string) (*c12ConcCase, bool) {
	p := &c12Toks{t: f}
	m := &c12ConcCase{c: &c12Case{}}
	m.g, m.r = p.int(), p.int()
	m.entry = p.next()
	m.bs = p.int()
	c := m.c
	c.format = p.next()
	c.style = p.int()
	c.e = p.int()
	c.indel = p.int() == 1
	k := p.int()
	if p.bad || m.g < 1 || m.g > 64 || m.r < 1 || m.r > 5000 || m.bs < 1 || m.bs > 256 || (m.entry != "w" && m.entry != "d") ||
		k < 0 || k > 16 || (c.format != "o" && c.format != "c") {
		return nil, false
	}
	if !c12ParseMarkers(p, c, k) {
		return nil, false
	}
	n := p.int()
	if p.bad || n < 1 || n > 256 {
		return nil, false
	}
	for i := 0; i < n; i++ {
		id := p.hex()
		seq := p.hex()
		if id != fmt.Sprintf("r%d", i) { // the read number is recovered from the identifier of its records
			return nil, false
		}
		m.ids = append(m.ids, id)
		m.seqs = append(m.seqs, []byte(seq))
	}
	if p.bad || (len(p.t) > 0 && p.t[0] != "hits") {
		return nil, false
	}
	return m, true
}

func c12Short(s string) string {
	if len(s) > 400 {
		return s[:400] + "…"
	}
	return s
}

// c12Diff: where two answers part
func c12Diff(want, got string) string {
	d := 0
	for d < len(want) && d < len(got) && want[d] == got[d] {
		d++
	}
	win := func(s string) string {
		a, b := d-60, d+100
		if a < 0 {
			a = 0
		}
		if b > len(s) {
			b = len(s)
		}
		return "…" + s[a:b] + "…"
	}
	return fmt.Sprintf("first difference at character %d (%d / %d characters): alone %s  VERSUS concurrently %s", d, len(want), len(got), win(want), win(got))
}

// c12PerRead splits the records a batch call returned into the answers of its reads (records come in the order of the
// reads, each carrying the read number in its identifier: r7 or r7_sub[3..40])
func c12PerRead(out obiseq.BioSequenceSlice, reads []int) ([]string, bool) {
	res := make([]string, len(reads))
	k := 0
	for j, rd := range reads {
		from := k
		for k < len(out) && out[k] != nil && c12ReadNo(out[k].Id()) == rd {
			k++
		}
		if k == from {
			return nil, false
		}
		_, res[j] = c12Render(out[from:k])
	}
	return res, k == len(out)
}

// c12Barrier: the goroutines of a concurrent phase start every round together; a goroutine that dies leaves
type c12Barrier struct {
	mu            sync.Mutex
	cond          *sync.Cond
	n, count, gen int
}

func c12NewBarrier(n int) *c12Barrier {
	b := &c12Barrier{n: n}
	b.cond = sync.NewCond(&b.mu)
	return b
}

func (b *c12Barrier) wait() {
	b.mu.Lock()
	gen := b.gen
	b.count++
	if b.count >= b.n {
		b.gen++
		b.count = 0
		b.cond.Broadcast()
	} else {
		for gen == b.gen {
			b.cond.Wait()
		}
	}
	b.mu.Unlock()
}

func (b *c12Barrier) leave() {
	b.mu.Lock()
	b.n--
	if b.n > 0 && b.count >= b.n {
		b.gen++
		b.count = 0
		b.cond.Broadcast()
	}
	b.mu.Unlock()
}

// c12ConcRun: the concurrent phase (in the child process, or in-process when no child can be run)
func c12ConcRun(m *c12ConcCase, sheet string, alone []string) (fails []Fail) {
	c := m.c
	n := len(m.ids)
	// Every round is one run of the command: a library read from the sheet and its closure built once, as the command does,
	// and not used before the goroutines are released on it (what is initialised at first use is initialised by calls that
	// overlap).  The libraries of all the rounds are made before the first one starts.
	libs := make([]*obingslibrary.NGSLibrary, m.r)
	workers := make([]obiseq.SeqSliceWorker, m.r)
	before := make([]string, m.r)
	for round := 0; round < m.r; round++ {
		var st string
		libs[round], workers[round], st = c12NewWorker(sheet, c.e, c.indel)
		if st != "ok" {
			return []Fail{{"conc.sheet", "another reading of the same sheet: " + st}}
		}
		before[round] = c12Dump(libs[round])
	}
	type bad struct {
		read, goroutine, round int
		got                    string
	}
	var mu sync.Mutex
	var first *bad
	var died []string
	nbad, total := 0, 0
	report := func(rd, k, round int, got string) {
		mu.Lock()
		total++
		if got != alone[rd] {
			nbad++
			if first == nil {
				first = &bad{rd, k, round, got}
			}
		}
		mu.Unlock()
	}
	fresh := func(rd int) *obiseq.BioSequence {
		return obiseq.NewBioSequence(m.ids[rd], append([]byte{}, m.seqs[rd]...), "")
	}
	barrier := c12NewBarrier(m.g)
	var wg sync.WaitGroup
	st := guardT(240*time.Second, func() string {
		for k := 0; k < m.g; k++ {
			wg.Add(1)
			go func(k int) {
				defer wg.Done()
				defer barrier.leave()
				defer func() {
					if x := recover(); x != nil {
						mu.Lock()
						died = append(died, fmt.Sprintf("goroutine %d: panic: %v", k, x))
						mu.Unlock()
					}
				}()
				off := (k * n) / m.g // the goroutines are at different reads at any time
				for round := 0; round < m.r; round++ {
					lib, worker := libs[round], workers[round]
					// the sequences of the first call are made before the barrier: the first calls of a round overlap
					if m.entry == "d" {
						next := fresh((off + round) % n)
						barrier.wait()
						for j := 0; j < n; j++ {
							rd := (j + off + round) % n
							out, err := lib.ExtractMultiBarcode(next)
							runtime.Gosched()
							runtime.Gosched()
							got := "error"
							if err == nil {
								_, got = c12Render(out)
							}
							report(rd, k, round, got)
							next = fresh((j + 1 + off + round) % n)
						}
						continue
					}
					mkBatch := func(j int) ([]int, obiseq.BioSequenceSlice) {
						var reads []int
						batch := obiseq.MakeBioSequenceSlice()
						for x := j; x < j+m.bs && x < n; x++ {
							rd := (x + off + round) % n
							reads = append(reads, rd)
							batch = append(batch, fresh(rd))
						}
						return reads, batch
					}
					reads, batch := mkBatch(0)
					barrier.wait()
					for j := 0; j < n; j += m.bs {
						if j > 0 {
							reads, batch = mkBatch(j)
						}
						out, err := worker(batch)
						runtime.Gosched()
						runtime.Gosched()
						runtime.Gosched()
						var got []string
						ok := false
						if err == nil {
							got, ok = c12PerRead(out, reads)
						}
						for x, rd := range reads {
							switch {
							case err != nil:
								report(rd, k, round, "error")
							case !ok:
								ids := make([]string, len(out))
								for y, s := range out {
									if s != nil {
										ids[y] = s.Id()
									} else {
										ids[y] = "<nil>"
									}
								}
								report(rd, k, round, "records of the batch "+fmt.Sprint(reads)+" not in the order of its reads: "+strings.Join(ids, " "))
							default:
								report(rd, k, round, got[x])
							}
						}
					}
				}
			}(k)
		}
		wg.Wait()
		return "ok"
	})
	mu.Lock()
	defer mu.Unlock()
	stat(fmt.Sprintf("conc:g%d-%s", m.g, m.entry))
	statMu.Lock()
	stats["conc:calls"] += total
	stats["conc:libraries"] += m.r
	statMu.Unlock()
	want := m.g * m.r * n
	if st != "ok" || total != want || len(died) > 0 {
		why := st
		if len(died) > 0 {
			why = died[0]
		}
		fails = append(fails, Fail{"conc.panic", fmt.Sprintf("%d of %d concurrent demultiplexings did not finish (%s)", want-total, want, why)})
	}
	if first != nil {
		fails = append(fails, Fail{"conc.differs." + m.entry, fmt.Sprintf(
			"%d of %d concurrent demultiplexings differ from the read demultiplexed alone; e.g. read %d (%s, %d bases) in goroutine %d round %d: %s",
			nbad, total, first.read, m.ids[first.read], len(m.seqs[first.read]), first.goroutine, first.round, c12Diff(alone[first.read], first.got))})
	}
	if st == "ok" {
		for round := range libs {
			if after := c12Dump(libs[round]); after != before[round] {
				fails = append(fails, Fail{"conc.library-mutated", "the library object after the concurrent phase differs from before: " + c12Short(before[round]) + "  VERSUS  " + c12Short(after)})
				break
			}
		}
	}
	return fails
}

func (c12) execConc(f []string, race bool) (string, []Fail) {
	m, ok := c12ParseConc(f)
	if !ok {
		caseTrivial = true
		return "bad-op", nil
	}
	c := m.c
	c.sortMarkers()
	n := len(m.ids)
	child := os.Getenv("VERIF_C12_CONC") == "child"
	head := ""
	if race {
		head = "race "
	}
	sheet := c12Sheet(c)
	nohits := " hits" + strings.Repeat(" 0 0 0 0", len(c.markers)*n)
	lib, worker, st := c12NewWorker(sheet, c.e, c.indel)
	if st != "ok" {
		stat("conc:sheet-" + st)
		caseTrivial = true
		caseOverride = head + m.line() + nohits
		return st, nil
	}
	var fails []Fail
	if !child {
		// primer hits of every read, with the calls of ExtractMultiBarcode (data of the model)
		mks := make([]*obingslibrary.Marker, len(c.markers))
		for i, mk := range c.markers {
			x, ok := lib.Markers[obingslibrary.PrimerPair{Forward: mk.fp, Reverse: mk.rp}]
			if !ok {
				return "bad-op", []Fail{{"sheet.marker", "declared marker missing from the library read by ReadNGSFilter: " + mk.fp + "," + mk.rp}}
			}
			mks[i] = x
		}
		var hb strings.Builder
		hb.WriteString(" hits")
		hst := guardT(60*time.Second, func() string {
			for r := 0; r < n; r++ {
				seq := obiseq.NewBioSequence(m.ids[r], append([]byte{}, m.seqs[r]...), "")
				aseq, err := obiapat.MakeApatSequence(seq, false)
				if err != nil {
					return "fatal"
				}
				for _, mk := range mks {
					pf, pcf, pr, pcr := mk.VerifPatterns()
					s, locs := c12HitList(pf, aseq, 0)
					hb.WriteString(s)
					begin := 0
					if len(locs) > 0 {
						begin = locs[0][0] + 1
					}
					s, _ = c12HitList(pcr, aseq, begin)
					hb.WriteString(s)
					s, locs = c12HitList(pr, aseq, 0)
					hb.WriteString(s)
					begin = 0
					if len(locs) > 0 {
						begin = locs[0][0] + 1
					}
					s, _ = c12HitList(pcf, aseq, begin)
					hb.WriteString(s)
				}
				aseq.Free()
			}
			return "ok"
		})
		if hst != "ok" {
			caseOverride = head + m.line() + nohits
			return "bad-op", []Fail{{"conc.hits", "primer hits could not be computed: " + hst}}
		}
		caseOverride = head + m.line() + hb.String()
	}
	// every read alone, in order, through the worker of the first library; and through ExtractMultiBarcode itself (the worker
	// is a wrapper of it: the two entry points answer the same)
	alone := make([]string, n)
	allok := true
	for r := 0; r < n; r++ {
		alone[r] = guardT(10*time.Second, func() string {
			out, err := worker(obiseq.BioSequenceSlice{obiseq.NewBioSequence(m.ids[r], append([]byte{}, m.seqs[r]...), "")})
			if err != nil {
				return "error"
			}
			_, res := c12Render(out)
			return res
		})
		if !strings.HasPrefix(alone[r], "ok ") {
			allok = false
			continue
		}
		if !child {
			direct := guardT(10*time.Second, func() string {
				out, err := lib.ExtractMultiBarcode(obiseq.NewBioSequence(m.ids[r], append([]byte{}, m.seqs[r]...), ""))
				if err != nil {
					return "error"
				}
				_, res := c12Render(out)
				return res
			})
			if direct != alone[r] {
				fails = append(fails, Fail{"conc.entry-points", fmt.Sprintf("read %d alone through the slice worker and through ExtractMultiBarcode: %s", r, c12Diff(alone[r], direct))})
			}
		}
	}
	res := "H " + strings.Join(alone, " @@ ")
	stat(fmt.Sprintf("conc:reads-%d+", n/10*10))
	if !allok {
		stat("conc:abort-alone")
		return res, fails // a read that cannot be demultiplexed alone: the sequential oracles report it
	}
	if child {
		return res, append(fails, c12ConcRun(m, sheet, alone)...)
	}
	cres, cfails, stderr, ran := c12ConcChild(head+m.line(), race)
	switch {
	case !ran && race:
		stat("conc-race:unavailable")
		return res, fails
	case !ran:
		stat("conc:in-process")
		fails = append(fails, c12ConcRun(m, sheet, alone)...)
	default:
		stat("conc:child")
		fails = append(fails, cfails...)
		if cres != "" && cres != res {
			fails = append(fails, Fail{"conc.alone", "the reads demultiplexed alone in a second process do not give the same answers: " + c12Diff(res, cres)})
		}
	}
	if race && ran {
		stat("conc-race:replayed")
		if k, where := c12RaceReports(stderr); k > 0 {
			stat("conc-race:DATA-RACE")
			fails = append(fails, Fail{"conc.race", fmt.Sprintf("the Go race detector reports %d data race(s) in the demultiplexing code (at %s)", k, strings.Join(where, ", "))})
		} else {
			stat("conc-race:quiet")
		}
	}
	return res, fails
}

// c12ConcChild runs the case in a child process (this binary or its -race build, exec mode); ran = false: no child could be run
func c12ConcChild(line string, race bool) (res string, fails []Fail, stderr string, ran bool) {
	bin, err := os.Executable()
	env := append(os.Environ(), "VERIF_C12_CONC=child")
	if race {
		bin, err = c12RaceBuild(), nil
		env = append(env, "GORACE=halt_on_error=0", "VERIF_WATCHDOG_SCALE=10")
		if bin == "" {
			return "", nil, "", false
		}
	}
	if err != nil {
		return "", nil, "", false
	}
	cmd := exec.Command(bin, "C12", "exec")
	cmd.Stdin = strings.NewReader(line + "\n")
	cmd.Env = env
	var so, se bytes.Buffer
	cmd.Stdout, cmd.Stderr = &so, &se
	if err := cmd.Start(); err != nil {
		return "", nil, "", false
	}
	ch := make(chan error, 1)
	go func() { ch <- cmd.Wait() }()
	select {
	case <-ch: // a -race build exits with 66 after reporting races: the C line says whether the case was run to its end
	case <-time.After(300 * time.Second * watchdogScale()):
		cmd.Process.Kill()
		<-ch
		return "", []Fail{{"conc.hang", "the process running the concurrent phase did not finish within the watchdog delay (hang)"}}, "", true
	}
	stderr = se.String()
	for _, l := range strings.Split(so.String(), "\n") {
		w := strings.Split(l, "\t")
		if w[0] == "C" && len(w) >= 3 {
			res = w[2]
		}
		if w[0] == "F" && len(w) >= 4 {
			fails = append(fails, Fail{w[1], w[3]})
		}
		if w[0] == "S" && len(w) == 3 && (strings.HasPrefix(w[1], "conc:g") || w[1] == "conc:calls" || w[1] == "conc:libraries") { // the statistics of the concurrent phase
			if k, err := strconv.Atoi(w[2]); err == nil {
				statMu.Lock()
				stats[w[1]] += k
				statMu.Unlock()
			}
		}
	}
	if res == "" {
		// the Go runtime ended the process: unrecoverable `fatal error:` (concurrent map read / write, …) or an unrecovered panic
		what, where := "", ""
		for _, l := range strings.Split(stderr, "\n") {
			t := strings.TrimSpace(l)
			if what == "" && (strings.HasPrefix(t, "fatal error:") || strings.HasPrefix(t, "panic:")) {
				what = t
			}
			if what != "" && where == "" && strings.Contains(t, "/pkg/") && strings.Contains(t, ".go:") {
				where = t[strings.LastIndex(t, "/pkg/")+1:]
				if k := strings.IndexByte(where, ' '); k > 0 {
					where = where[:k]
				}
			}
		}
		if what == "" { // killed from outside (memory, signal): not an observation about the code
			stat("conc:child-lost")
			return "", nil, stderr, false
		}
		fails = append(fails, Fail{"conc.crash", fmt.Sprintf("the process demultiplexing the reads from several goroutines was ended by the Go runtime: %s (at %s)", what, where)})
	}
	return res, fails, stderr, true
}

// ---- race replay (thorough tier, first seed) ----

var (
	c12RaceBin   string
	c12RaceTried bool
	c12RaceOnce  sync.Once
	c12RaceDone  = make(chan struct{})
)

func c12FirstSeed() bool {
	for i, a := range os.Args {
		if a == "-seed" && i+1 < len(os.Args) {
			s, err := strconv.Atoi(os.Args[i+1])
			return err == nil && s%1000 == 0
		}
	}
	return false
}

// c12RaceBuildStart starts the race build in the background (top of Gen, thorough tier, first seed): ~12 s with a warm Go
// cache, a minute and more with a cold one
func c12RaceBuildStart() {
	c12RaceOnce.Do(func() {
		go func() {
			defer close(c12RaceDone)
			c12RaceBin = c12RaceBuildNow()
		}()
	})
}

func c12RaceBuild() string {
	c12RaceBuildStart()
	<-c12RaceDone
	return c12RaceBin
}

func c12RaceBuildNow() string {
	root := os.Getenv("VERIF_ROOT")
	if root == "" {
		root = "/verif"
	}
	bin := filepath.Join(binDir(), "harness_C12_race")
	args := []string{"build", "-race", "-tags", "verif,c12", "-o", bin}
	repo := os.Getenv("VERIF_REPO")
	if repo != "" && repo != "/repo" {
		// a scratch tree is under check: the driver wrote go.alt.mod (module replaced by that tree)
		alt := filepath.Join(root, "harness", "go.alt.mod")
		if mf := os.Getenv("VERIF_C12_ALTMOD"); mf != "" { // a modfile of one's own (the shared one may be rewritten by a concurrent check)
			alt = mf
		}
		if b, err := os.ReadFile(alt); err == nil && strings.Contains(string(b), "=> "+repo) {
			args = append(args, "-modfile", alt)
		} else {
			stat("conc-race-build:no-alt-mod")
			return ""
		}
	}
	build := exec.Command("go", append(args, ".")...)
	build.Dir = filepath.Join(root, "harness")
	build.Env = append(os.Environ(), "GOWORK=off", "GOFLAGS=-mod=mod", "GOPROXY=off", "GOSUMDB=off", "GOTOOLCHAIN=local", "CGO_CFLAGS=-w -O2 -g")
	if _, err := build.CombinedOutput(); err != nil {
		stat("conc-race-build:failed")
		return ""
	}
	stat("conc-race-build:ok")
	return bin
}

// c12RaceReports counts the reports whose racing access (first frame in /pkg/ of one of the two accesses) lies in the anchored code
func c12RaceReports(stderr string) (int, []string) {
	ours := 0
	var where []string
	mine := func(t string) bool {
		if strings.Contains(t, "verif_hooks") {
			return false
		}
		for _, p := range []string{"/pkg/obingslibrary/", "/pkg/obiapat/", "/pkg/obitools/obimultiplex/", "/pkg/obitools/obitagpcr/", "/pkg/obiformats/ngsfilter_read.go"} {
			if strings.Contains(t, p) {
				return true
			}
		}
		return false
	}
	for _, block := range strings.Split(stderr, "==================") {
		if !strings.Contains(block, "WARNING: DATA RACE") {
			continue
		}
		inAccess, hit := false, false
		for _, l := range strings.Split(block, "\n") {
			t := strings.TrimSpace(l)
			switch {
			case strings.HasPrefix(t, "Read at"), strings.HasPrefix(t, "Write at"), strings.HasPrefix(t, "Previous read at"),
				strings.HasPrefix(t, "Previous write at"), strings.HasPrefix(t, "Atomic"), strings.HasPrefix(t, "Previous atomic"):
				inAccess = true
			case strings.HasPrefix(t, "Goroutine "):
				inAccess = false
			case inAccess && strings.Contains(t, ".go:"):
				// frames of the runtime (map access helpers) come first: the first frame in /pkg/ is the access
				if !strings.Contains(t, "/pkg/") {
					continue
				}
				inAccess = false
				if mine(t) {
					hit = true
					loc := t[strings.LastIndex(t, "/pkg/")+1:]
					if k := strings.IndexByte(loc, ' '); k > 0 {
						loc = loc[:k]
					}
					dup := false
					for _, w := range where {
						dup = dup || w == loc
					}
					if !dup && len(where) < 4 {
						where = append(where, loc)
					}
				}
			}
		}
		if hit {
			ours++
		}
	}
	return ours, where
}

// ---- generator ----

// c12ConcChimera: a read made of 1..namp reads of the existing generators joined by random linkers (several amplicons of
// several markers with different outcomes: every amplicon fills a scratch annotation map of its own)
func c12ConcChimera(rng *rand.Rand, namp int, one func() []byte) []byte {
	var b []byte
	k := 1 + rng.Intn(namp)
	for i := 0; i < k; i++ {
		if i > 0 {
			b = append(b, c12Rand(rng, 3+rng.Intn(30), "acgt")...)
		}
		b = append(b, one()...)
	}
	return b
}

// c12GenConc: libraries in nearest-tag modes (hamming / indel: Levenshtein rows, the loop over the sample map) and random
// libraries of every kind, each with some dozens of chimeric reads of a few hundred to a few thousand bases
func c12GenConc(rng *rand.Rand, tier string, emit func(string)) {
	type spec struct {
		kind     string // hi: history library in indel mode, hh: hamming, hd: delimited / rescue tags, any: c12Library, first: see below
		entry    string
		n, namp  int
		g, r, bs int
	}
	// kind "first": many rounds (= many libraries used for the first time by calls that overlap) of a few short reads on a
	// library of two or three markers: what ExtractMultiBarcode would initialise at first use
	specs := []spec{{"hi", "w", 40, 4, 8, 10, 8}, {"hh", "d", 40, 4, 8, 10, 1}, {"any", "w", 36, 3, 8, 10, 5}, {"hd", "w", 36, 4, 8, 10, 12}, {"any", "d", 36, 3, 8, 10, 1},
		{"first", "w", 6, 2, 16, 320, 2}, {"first", "d", 6, 2, 16, 320, 1}}
	if tier == "thorough" {
		specs = []spec{{"hi", "w", 80, 6, 16, 25, 8}, {"hh", "d", 80, 6, 16, 25, 1}, {"any", "w", 60, 4, 16, 25, 5}, {"hd", "w", 60, 6, 12, 25, 16},
			{"any", "d", 60, 4, 16, 25, 1}, {"hi", "d", 60, 8, 16, 25, 1}, {"hh", "w", 100, 3, 16, 25, 32}, {"any", "w", 50, 3, 12, 40, 1},
			{"hd", "d", 50, 5, 16, 25, 1}, {"any", "w", 64, 6, 8, 30, 64}, {"hi", "w", 12, 10, 16, 60, 3}, {"any", "d", 30, 2, 16, 40, 1},
			{"first", "w", 6, 2, 16, 800, 2}, {"first", "d", 6, 2, 16, 800, 1}, {"first", "w", 4, 1, 24, 600, 1}, {"first", "d", 8, 3, 12, 600, 1}}
	}
	if tier == "thorough" && c12FirstSeed() {
		c12RaceBuildStart()
	}
	var lines []string
	for _, s := range specs {
		var c *c12Case
		var words [][]string
		if s.kind == "any" {
			c = c12Library(rng)
		} else if s.kind == "first" {
			for try := 0; try < 50; try++ {
				c = c12Library(rng)
				if len(c.markers) >= 3 || (try > 20 && len(c.markers) >= 2) {
					break
				}
			}
		} else {
			for try := 0; ; try++ {
				c, _ = c12HistLibrary(rng)
				mk := c.markers[0]
				ok := false
				switch s.kind {
				case "hi":
					ok = mk.mode == "i"
				case "hh":
					ok = mk.mode == "h"
				case "hd":
					ok = mk.fdl != 0
				}
				if ok || try > 200 {
					break
				}
			}
			// the strings shown by the reads: declared tags of both sides and erroneous versions of them
			for _, mk := range c.markers {
				var w []string
				for _, sm := range mk.samples {
					w = append(w, sm.ftag, sm.rtag)
				}
				alpha := c12Without("acgt", mk.fdl)
				for k := 0; k < 4; k++ {
					w = append(w, c12Mutate(rng, w[rng.Intn(len(w))], alpha, mk.mode == "i" && rng.Intn(2) == 0 && mk.fdl != 0))
				}
				words = append(words, w)
			}
		}
		m := &c12ConcCase{g: s.g, r: s.r, bs: s.bs, entry: s.entry,
			c: &c12Case{format: c.format, style: c.style, e: c.e, indel: c.indel, markers: c.markers}}
		for r := 0; r < s.n; r++ {
			var seq []byte
			if s.kind == "any" || s.kind == "first" {
				seq = c12ConcChimera(rng, s.namp, func() []byte {
					c12Read(rng, c)
					return append([]byte{}, c.seq...)
				})
			} else {
				seq = c12ConcChimera(rng, s.namp, func() []byte {
					mi := rng.Intn(len(c.markers))
					mk := c.markers[mi]
					sm := mk.samples[rng.Intn(len(mk.samples))]
					ft, rt := sm.ftag, sm.rtag
					w := words[mi]
					switch rng.Intn(6) {
					case 0:
						ft = w[rng.Intn(len(w))]
					case 1:
						rt = w[rng.Intn(len(w))]
					case 2:
						ft, rt = w[rng.Intn(len(w))], w[rng.Intn(len(w))]
					case 3:
						ft, rt = rt, ft
					}
					return c12ReadWith(rng, c, mi, ft, rt)
				})
			}
			m.ids = append(m.ids, fmt.Sprintf("r%d", r))
			m.seqs = append(m.seqs, seq)
		}
		l := m.line()
		lines = append(lines, l)
		emit(l)
		stat("gen:conc")
		stat("gen:conc-" + s.kind + "-" + s.entry)
	}
	if tier == "thorough" && c12FirstSeed() {
		// under the race detector (the instrumented build is ~10x slower: few goroutines and rounds)
		for _, i := range []int{0, 1, 3, 4} {
			f := strings.Fields(lines[i])
			f[1], f[2] = "6", "3"
			emit("race " + strings.Join(f, " "))
			stat("gen:conc-race")
		}
	}
}
