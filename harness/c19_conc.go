//go:build c19

package main

// conc — the k-mer code under concurrent use.  Who calls what at the same time, and what they share (commands of /repo):
//
//   - obitag / obitag2 (IdentifySeqWorker -> FindClosests, MakeIWorker x CLIParallelWorkers): every worker calls
//     Count4Mer(record, nil, nil) (buffer and table of the call) then Common4Mer(own table, refcounts[i]); shared: the
//     reference tables (read only) and the package table __single_base_code__;
//   - obipairing / obikmersim match (PEAlign, ReadAlign): Index4mer(seqA, &arena.fastIndex, &arena.fastBuffer) with the
//     arena OF THE WORKER, FastShiftFourMer(..., nil) -> Encode4mer(seqB, nil);
//   - obikmersim (MakeCountMatchWorker / MakeKmerAlignWorker, MakeIWorker x CLIParallelWorkers): ONE *KmerMap[Uint128]
//     built before the workers start, then Query(record) -> NormalizedKmerSlice(record, nil), FilterMinCount / Len on the
//     KmerMatch of the call; with --self the records are the references themselves, each one handled by one worker;
//   - obiconsensus: BuildConsensus is called from ONE goroutine today (one graph per call: MakeDeBruijnGraph, Push,
//     HasCycle, LongestConsensus); the graph sub-cases run it from several goroutines, one graph per call, nothing shared
//     but the package tables iupac / decode (the library contract of a per-call object).
//
// Case line
//
//	conc <g> <r> | <sub-case> | <sub-case> ...        (run in a child process, see c19ExecConc)
//	sub-case:  e4 <hexseq> | c4 <hexunit> <reps> | nk <W> <k> <sparse> <hexseq> | g <k> <read>:<count> ... |
//	           gf <k> <min> <read>:<count> ... | kq <W> <k> <sparse> <maxocc> <mincount> <nref> <hexref> x nref <query> ...
//	           (a query is a hex sequence = a fresh record, or @j = reference j itself as with --self)
//
// Result: the answers of the sub-cases run ALONE, one after the other, joined by " ; " (e4, c4, nk, g, gf: the result of
// the operation of the same name; kq: len=<Len> then m=<id:count,..> f=<.. after FilterMinCount> per query, joined by
// " / ").  The model recomputes them with the sequential model.  The oracle then runs the same calls from g goroutines
// released together, r rounds, each goroutine with its own records and its own scratch (buffer, table, index), one
// KmerMap per nk / kq sub-case shared by all of them, and demands the alone answer from every call.

import (
	"bytes"
	"context"
	"fmt"
	"math/rand"
	"os"
	"os/exec"
	"path/filepath"
	"slices"
	"sort"
	"strconv"
	"strings"
	"sync"
	"time"

	"git.metabarcoding.org/obitools/obitools4/obitools4/pkg/obifp"
	"git.metabarcoding.org/obitools/obitools4/obitools4/pkg/obikmer"
	"git.metabarcoding.org/obitools/obitools4/obitools4/pkg/obiseq"
)

// one sub-case.  alone builds what the workers share and answers alone; conc runs call u again from goroutine gid
// ("" = same answer as alone, otherwise what was obtained)
type c19ConcSub interface {
	alone(g int) string
	units() int
	owner(u int) int // -1: every goroutine runs the call on its own record; j: the record is reference j, one worker only
	conc(u, gid int) string
	label(u int) string
	expected(u int) string
}

func c19Short(s string) string {
	if len(s) > 200 {
		return s[:200] + "…"
	}
	return s
}

func c19Rec(s []byte) *obiseq.BioSequence {
	return obiseq.NewBioSequence("x", append([]byte{}, s...), "")
}

// ---------------------------------------------------------------------------------------------
// e4: Encode4mer without buffer, with the buffer of the worker, Index4mer on the index and buffer of the worker

type c19SubE4 struct {
	seq   []byte
	res   string
	codes []byte
	pos   [256][]int
	recs  []*obiseq.BioSequence
	bufs  [][]byte
	idxs  [][][]int
}

func (s *c19SubE4) alone(g int) string {
	var got []byte
	if c19Try(func() { got = obikmer.Encode4mer(c19Rec(s.seq), nil) }) {
		s.res = "panic"
		return s.res
	}
	s.codes = append([]byte{}, got...)
	for p, c := range s.codes {
		s.pos[c] = append(s.pos[c], p)
	}
	s.recs = make([]*obiseq.BioSequence, g)
	s.bufs = make([][]byte, g)
	s.idxs = make([][][]int, g)
	for i := range s.recs {
		s.recs[i] = c19Rec(s.seq)
		s.bufs[i] = make([]byte, 3, 64)
	}
	s.res = hx(s.codes)
	return s.res
}
func (s *c19SubE4) units() int          { return 1 }
func (s *c19SubE4) owner(int) int       { return -1 }
func (s *c19SubE4) label(int) string    { return fmt.Sprintf("e4 on %d bases", len(s.seq)) }
func (s *c19SubE4) expected(int) string { return s.res }
func (s *c19SubE4) conc(u, gid int) string {
	if s.res == "panic" {
		return ""
	}
	rec := s.recs[gid]
	if got := obikmer.Encode4mer(rec, nil); !bytes.Equal(got, s.codes) {
		return hx(got)
	}
	if got := obikmer.Encode4mer(rec, &s.bufs[gid]); !bytes.Equal(got, s.codes) {
		return "with the buffer of the worker: " + hx(got)
	}
	idx := obikmer.Index4mer(rec, &s.idxs[gid], &s.bufs[gid])
	for c := 0; c < 256; c++ {
		if !slices.Equal(idx[c], s.pos[c]) && !(len(idx[c]) == 0 && len(s.pos[c]) == 0) {
			return fmt.Sprintf("Index4mer: positions of 4-mer %d: %v", c, idx[c])
		}
	}
	return ""
}

// ---------------------------------------------------------------------------------------------
// c4: Count4Mer(record, nil, nil) as obitag does, Count4Mer on the buffer and table of the worker, Common4Mer against a
// shared reference table

type c19SubC4 struct {
	unit []byte
	reps int
	seq  []byte
	res  string
	tab  obikmer.Table4mer
	sum  int
	recs []*obiseq.BioSequence
	bufs [][]byte
	tabs []obikmer.Table4mer
}

func c19ShowTab(tab *obikmer.Table4mer) string {
	var parts []string
	for i := 0; i < 256; i++ {
		if tab[i] != 0 {
			parts = append(parts, fmt.Sprintf("%d:%d", i, tab[i]))
		}
	}
	if len(parts) == 0 {
		return "-"
	}
	return strings.Join(parts, ",")
}

func (s *c19SubC4) alone(g int) string {
	s.seq = bytes.Repeat(s.unit, s.reps)
	var tab *obikmer.Table4mer
	if c19Try(func() { tab = obikmer.Count4Mer(c19Rec(s.seq), nil, nil) }) {
		s.res = "panic"
		return s.res
	}
	s.tab = *tab
	s.sum = obikmer.Sum4Mer(tab)
	s.recs = make([]*obiseq.BioSequence, g)
	s.bufs = make([][]byte, g)
	s.tabs = make([]obikmer.Table4mer, g)
	for i := range s.recs {
		s.recs[i] = c19Rec(s.seq)
		s.bufs[i] = make([]byte, 0, 1000)
	}
	s.res = c19ShowTab(tab)
	return s.res
}
func (s *c19SubC4) units() int          { return 1 }
func (s *c19SubC4) owner(int) int       { return -1 }
func (s *c19SubC4) label(int) string    { return fmt.Sprintf("c4 on %d bases", len(s.seq)) }
func (s *c19SubC4) expected(int) string { return s.res }
func (s *c19SubC4) conc(u, gid int) string {
	if s.res == "panic" {
		return ""
	}
	rec := s.recs[gid]
	if t := obikmer.Count4Mer(rec, nil, nil); *t != s.tab {
		return c19ShowTab(t)
	}
	t := obikmer.Count4Mer(rec, &s.bufs[gid], &s.tabs[gid])
	if *t != s.tab {
		return "with the buffer and table of the worker: " + c19ShowTab(t)
	}
	if c := obikmer.Common4Mer(t, &s.tab); c != s.sum {
		return fmt.Sprintf("Common4Mer with the shared reference table = %d, the table holds %d 4-mers", c, s.sum)
	}
	return ""
}

// ---------------------------------------------------------------------------------------------
// nk: one KmerMap shared by the goroutines; NormalizedKmerSlice without buffer (as Push and Query call it) and with the
// buffer of the worker; KmerAsString on a sample of the k-mers

type c19SubNK[T obifp.FPUint[T]] struct {
	w, k   int
	sparse bool
	seq    []byte
	limbs  func(T) []uint64
	res    string
	km     *obikmer.KmerMap[T]
	kmers  []T
	strs   []string
	recs   []*obiseq.BioSequence
	bufs   [][]T
	turn   []int
}

func (s *c19SubNK[T]) alone(g int) string {
	if c19Try(func() {
		s.km = obikmer.NewKmerMap[T](obiseq.BioSequenceSlice{}, uint(s.k), s.sparse, -1)
		s.kmers = append([]T{}, s.km.NormalizedKmerSlice(c19Rec(s.seq), nil)...)
		s.strs = make([]string, len(s.kmers))
		for i, x := range s.kmers {
			s.strs[i] = s.km.KmerAsString(x)
		}
	}) {
		s.res = "panic"
		return s.res
	}
	s.recs = make([]*obiseq.BioSequence, g)
	s.bufs = make([][]T, g)
	s.turn = make([]int, g)
	for i := range s.recs {
		s.recs[i] = c19Rec(s.seq)
		s.bufs[i] = make([]T, 2, 16)
	}
	parts := make([]string, len(s.kmers))
	for i, x := range s.kmers {
		parts[i] = c19Big(s.limbs(x)).Text(16) + "/" + s.strs[i]
	}
	out := "-"
	if len(parts) > 0 {
		out = strings.Join(parts, ",")
	}
	s.res = fmt.Sprintf("k=%d sp=%d %s", s.km.Kmersize, s.km.SparseAt, out)
	return s.res
}
func (s *c19SubNK[T]) units() int    { return 1 }
func (s *c19SubNK[T]) owner(int) int { return -1 }
func (s *c19SubNK[T]) label(int) string {
	return fmt.Sprintf("nk W=%d k=%d sparse=%v on %d bases", s.w, s.k, s.sparse, len(s.seq))
}
func (s *c19SubNK[T]) expected(int) string { return s.res }
func (s *c19SubNK[T]) show(k []T) string {
	parts := make([]string, len(k))
	for i, x := range k {
		parts[i] = c19Big(s.limbs(x)).Text(16)
	}
	return fmt.Sprintf("%d k-mers %s", len(k), strings.Join(parts, ","))
}
func (s *c19SubNK[T]) conc(u, gid int) string {
	if s.res == "panic" {
		return ""
	}
	rec := s.recs[gid]
	if got := s.km.NormalizedKmerSlice(rec, nil); !slices.Equal(got, s.kmers) {
		return s.show(got)
	}
	got := s.km.NormalizedKmerSlice(rec, &s.bufs[gid])
	if !slices.Equal(got, s.kmers) {
		return "with the buffer of the worker: " + s.show(got)
	}
	s.bufs[gid] = got[:0]
	s.turn[gid]++
	for i := s.turn[gid] % 4; i < len(s.kmers); i += 4 {
		if str := s.km.KmerAsString(s.kmers[i]); str != s.strs[i] {
			return fmt.Sprintf("KmerAsString of k-mer %d = %s", i, str)
		}
	}
	return ""
}

// ---------------------------------------------------------------------------------------------
// kq: the index of obikmersim: one KmerMap built from the references before the goroutines start, then Query,
// FilterMinCount, Len from all of them

type c19SubKQ[T obifp.FPUint[T]] struct {
	w, k             int
	sparse           bool
	maxocc, mincount int
	refs             [][]byte
	queries          [][]byte // nil for a @j query
	self             []int    // j for a @j query, -1 otherwise
	res              string
	km               *obikmer.KmerMap[T]
	rrecs            obiseq.BioSequenceSlice
	id               map[*obiseq.BioSequence]int
	ans              []string
	qrecs            [][]*obiseq.BioSequence
}

func (s *c19SubKQ[T]) query(rec *obiseq.BioSequence) string {
	match := s.km.Query(rec)
	m := map[int]int{}
	for q, n := range match {
		m[s.id[q]] = n
	}
	match.FilterMinCount(s.mincount)
	f := map[int]int{}
	for q, n := range match {
		f[s.id[q]] = n
	}
	if match.Len() != len(f) {
		f[-1] = match.Len()
	}
	return fmt.Sprintf("m=%s f=%s", c19ShowMatch(m), c19ShowMatch(f))
}

func (s *c19SubKQ[T]) alone(g int) string {
	if c19Try(func() {
		s.rrecs = make(obiseq.BioSequenceSlice, len(s.refs))
		s.id = map[*obiseq.BioSequence]int{}
		for i, r := range s.refs {
			s.rrecs[i] = obiseq.NewBioSequence(fmt.Sprintf("s%d", i), append([]byte{}, r...), "")
			s.id[s.rrecs[i]] = i
		}
		s.km = obikmer.NewKmerMap[T](s.rrecs, uint(s.k), s.sparse, s.maxocc)
		s.ans = make([]string, len(s.queries))
		s.qrecs = make([][]*obiseq.BioSequence, len(s.queries))
		for u, q := range s.queries {
			if s.self[u] >= 0 {
				s.ans[u] = s.query(s.rrecs[s.self[u]])
				continue
			}
			s.ans[u] = s.query(c19Rec(q))
			s.qrecs[u] = make([]*obiseq.BioSequence, g)
			for i := range s.qrecs[u] {
				s.qrecs[u][i] = c19Rec(q)
			}
		}
	}) {
		s.res = "panic"
		return s.res
	}
	s.res = fmt.Sprintf("len=%d %s", s.km.Len(), strings.Join(s.ans, " / "))
	return s.res
}
func (s *c19SubKQ[T]) units() int { return len(s.queries) }
func (s *c19SubKQ[T]) owner(u int) int {
	return s.self[u]
}
func (s *c19SubKQ[T]) label(u int) string {
	q := fmt.Sprintf("a fresh record of %d bases", len(s.queries[u]))
	if s.self[u] >= 0 {
		q = fmt.Sprintf("reference %d", s.self[u])
	}
	return fmt.Sprintf("kq W=%d k=%d sparse=%v maxocc=%d on %d references, query %d (%s)", s.w, s.k, s.sparse, s.maxocc, len(s.refs), u, q)
}
func (s *c19SubKQ[T]) expected(u int) string {
	if s.res == "panic" {
		return s.res
	}
	return s.ans[u]
}
func (s *c19SubKQ[T]) conc(u, gid int) string {
	if s.res == "panic" {
		return ""
	}
	rec := (*obiseq.BioSequence)(nil)
	if s.self[u] >= 0 {
		rec = s.rrecs[s.self[u]]
	} else {
		rec = s.qrecs[u][gid]
	}
	if got := s.query(rec); got != s.ans[u] {
		return got
	}
	return ""
}

// ---------------------------------------------------------------------------------------------
// g / gf: what BuildConsensus does with a graph of its own: MakeDeBruijnGraph, Push, (FilterMinWeight, MaxWeight, Len,)
// Nexts, Previouses, HasCycle, HaviestPath, LongestConsensus

type c19SubG struct {
	k      int
	filt   *int
	reads  [][]byte
	counts []int
	res    string
}

// the result line of the g / gf operation, from the real code only (no oracle)
func c19GraphLine(k int, reads [][]byte, counts []int, filt *int) string {
	g := obikmer.MakeDeBruijnGraph(k)
	for i, r := range reads {
		s := obiseq.NewBioSequence(fmt.Sprintf("r%d", i), append([]byte{}, r...), "")
		s.SetCount(counts[i])
		if c19Try(func() { g.Push(s) }) {
			return "panic"
		}
	}
	prefix := ""
	if filt != nil {
		if c19Try(func() { g.FilterMinWeight(*filt) }) {
			return "panic-filter"
		}
		prefix = fmt.Sprintf("mw=%d len=%d ", g.MaxWeight(), g.Len())
	}
	nodes := g.VerifNodes()
	keys := make([]uint64, 0, len(nodes))
	for n := range nodes {
		keys = append(keys, n)
	}
	sort.Slice(keys, func(i, j int) bool { return keys[i] < keys[j] })
	parts := make([]string, len(keys))
	for i, n := range keys {
		var nx, pv []uint64
		if c19Try(func() { nx = g.Nexts(n); pv = g.Previouses(n) }) {
			return "panic-nexts"
		}
		nm, pm := 0, 0
		for _, x := range nx {
			nm |= 1 << (x & 3)
		}
		for _, x := range pv {
			pm |= 1 << ((x >> (2 * uint(k-1))) & 3)
		}
		parts[i] = fmt.Sprintf("%x:%d:%x:%x", n, nodes[n], nm, pm)
	}
	nodeStr := "-"
	if len(parts) > 0 {
		nodeStr = strings.Join(parts, ",")
	}
	var cyc bool
	if c19Try(func() { cyc = g.HasCycle() }) {
		return "n=" + nodeStr + " cyc=panic"
	}
	var path []uint64
	pathStr := ""
	if c19Try(func() { path = g.HaviestPath() }) {
		pathStr = "panic"
	} else if path == nil {
		pathStr = "nil"
	} else {
		ps := make([]string, len(path))
		for i, n := range path {
			ps[i] = fmt.Sprintf("%x", n)
		}
		pathStr = strings.Join(ps, ",")
	}
	consStr := ""
	var cons *obiseq.BioSequence
	var cerr error
	if c19Try(func() { cons, cerr = g.LongestConsensus("x", 0) }) {
		consStr = "panic"
	} else if cerr != nil || cons == nil {
		consStr = "err"
	} else {
		consStr = hx(cons.Sequence())
	}
	return prefix + fmt.Sprintf("n=%s cyc=%d path=%s cons=%s", nodeStr, map[bool]int{false: 0, true: 1}[cyc], pathStr, consStr)
}

func (s *c19SubG) alone(int) string {
	s.res = c19GraphLine(s.k, s.reads, s.counts, s.filt)
	return s.res
}
func (s *c19SubG) units() int    { return 1 }
func (s *c19SubG) owner(int) int { return -1 }
func (s *c19SubG) label(int) string {
	op := "g"
	if s.filt != nil {
		op = fmt.Sprintf("gf min=%d", *s.filt)
	}
	return fmt.Sprintf("%s k=%d on %d reads", op, s.k, len(s.reads))
}
func (s *c19SubG) expected(int) string { return s.res }
func (s *c19SubG) conc(u, gid int) string {
	if got := c19GraphLine(s.k, s.reads, s.counts, s.filt); got != s.res {
		return got
	}
	return ""
}

// ---------------------------------------------------------------------------------------------
// parsing

func c19ParseSub(f []string) c19ConcSub {
	if len(f) == 0 {
		return nil
	}
	switch {
	case f[0] == "e4" && len(f) == 2:
		s, ok := unhx(f[1])
		if !ok {
			return nil
		}
		return &c19SubE4{seq: s}
	case f[0] == "c4" && len(f) == 3:
		u, ok := unhx(f[1])
		reps, err := strconv.Atoi(f[2])
		if !ok || err != nil || reps < 0 || reps*len(u) > 1<<22 {
			return nil
		}
		return &c19SubC4{unit: u, reps: reps}
	case f[0] == "nk" && len(f) == 5:
		w, e1 := strconv.Atoi(f[1])
		k, e2 := strconv.Atoi(f[2])
		s, ok := unhx(f[4])
		if e1 != nil || e2 != nil || !ok || (w != 64 && w != 128 && w != 256) || k < 1 || k > 200 || (f[3] != "0" && f[3] != "1") {
			return nil
		}
		sp := f[3] == "1"
		switch w {
		case 64:
			return &c19SubNK[obifp.Uint64]{w: w, k: k, sparse: sp, seq: s, limbs: func(x obifp.Uint64) []uint64 { return x.VerifLimbs() }}
		case 128:
			return &c19SubNK[obifp.Uint128]{w: w, k: k, sparse: sp, seq: s, limbs: func(x obifp.Uint128) []uint64 { return x.VerifLimbs() }}
		}
		return &c19SubNK[obifp.Uint256]{w: w, k: k, sparse: sp, seq: s, limbs: func(x obifp.Uint256) []uint64 { return x.VerifLimbs() }}
	case f[0] == "kq" && len(f) >= 8:
		w, e1 := strconv.Atoi(f[1])
		k, e2 := strconv.Atoi(f[2])
		mo, e3 := strconv.Atoi(f[4])
		mc, e4 := strconv.Atoi(f[5])
		nref, e5 := strconv.Atoi(f[6])
		if e1 != nil || e2 != nil || e3 != nil || e4 != nil || e5 != nil || (w != 64 && w != 128 && w != 256) || k < 1 || k > 200 ||
			(f[3] != "0" && f[3] != "1") || mo < -1 || mo > 1000000 || mc < -1000000 || mc > 1000000 || nref < 0 || len(f) < 7+nref+1 {
			return nil
		}
		var refs, queries [][]byte
		var self []int
		for _, h := range f[7 : 7+nref] {
			s, ok := unhx(h)
			if !ok {
				return nil
			}
			refs = append(refs, s)
		}
		for _, h := range f[7+nref:] {
			if strings.HasPrefix(h, "@") {
				j, err := strconv.Atoi(h[1:])
				if err != nil || j < 0 || j >= nref || h != fmt.Sprintf("@%d", j) {
					return nil
				}
				queries = append(queries, nil)
				self = append(self, j)
				continue
			}
			s, ok := unhx(h)
			if !ok {
				return nil
			}
			queries = append(queries, s)
			self = append(self, -1)
		}
		sp := f[3] == "1"
		switch w {
		case 64:
			return &c19SubKQ[obifp.Uint64]{w: w, k: k, sparse: sp, maxocc: mo, mincount: mc, refs: refs, queries: queries, self: self}
		case 128:
			return &c19SubKQ[obifp.Uint128]{w: w, k: k, sparse: sp, maxocc: mo, mincount: mc, refs: refs, queries: queries, self: self}
		}
		return &c19SubKQ[obifp.Uint256]{w: w, k: k, sparse: sp, maxocc: mo, mincount: mc, refs: refs, queries: queries, self: self}
	case f[0] == "g" && len(f) >= 2, f[0] == "gf" && len(f) >= 3:
		k, e1 := strconv.Atoi(f[1])
		if e1 != nil || k < 1 || k > 32 {
			return nil
		}
		rest := f[2:]
		var filt *int
		if f[0] == "gf" {
			mn, e2 := strconv.Atoi(f[2])
			if e2 != nil || mn < -1000000 || mn > 1000000 {
				return nil
			}
			filt = &mn
			rest = f[3:]
		}
		reads, counts, ok := c19ParseReads(rest)
		if !ok {
			return nil
		}
		return &c19SubG{k: k, filt: filt, reads: reads, counts: counts}
	}
	return nil
}

func c19ParseConc(f []string) (g, r int, subs []c19ConcSub, ok bool) {
	if len(f) < 5 || f[3] != "|" {
		return
	}
	g, e1 := strconv.Atoi(f[1])
	r, e2 := strconv.Atoi(f[2])
	if e1 != nil || e2 != nil || g < 1 || g > 64 || r < 1 || r > 50 {
		return
	}
	cur := []string{}
	flush := func() bool {
		s := c19ParseSub(cur)
		if s == nil {
			return false
		}
		subs = append(subs, s)
		cur = []string{}
		return true
	}
	for _, w := range f[4:] {
		if w == "|" {
			if !flush() {
				return
			}
			continue
		}
		cur = append(cur, w)
	}
	if !flush() || len(subs) > 32 {
		return
	}
	return g, r, subs, true
}

// ---------------------------------------------------------------------------------------------
// execution

// c19ExecConc runs the case in a child process (this executable, `C19 exec`): an unsynchronised map shared by two
// goroutines ends in "fatal error: concurrent map writes", which no recover() catches - the child dies, the parent
// reports conc.crash with the message and the first frame in pkg/obikmer, and answers with the sub-cases run alone.
func c19ExecConc(f []string) (string, []Fail) {
	g, r, subs, ok := c19ParseConc(f)
	if !ok {
		return "bad-op", nil
	}
	exe, err := os.Executable()
	if os.Getenv("VERIF_C19_CONC_CHILD") != "" || err != nil {
		return c19ExecConcHere(g, r, subs)
	}
	ctx, cancel := context.WithTimeout(context.Background(), 240*time.Second*watchdogScale())
	defer cancel()
	cmd := exec.CommandContext(ctx, exe, "C19", "exec")
	cmd.Stdin = strings.NewReader(strings.Join(f, " ") + "\n")
	cmd.Env = append(os.Environ(), "VERIF_C19_CONC_CHILD=1")
	var stdout, stderr bytes.Buffer
	cmd.Stdout, cmd.Stderr = &stdout, &stderr
	_ = cmd.Run()
	res, done := "", false
	var fails []Fail
	for _, l := range strings.Split(stdout.String(), "\n") {
		w := strings.Split(l, "\t")
		switch {
		case w[0] == "C" && len(w) >= 3:
			res, done = w[2], true
		case w[0] == "F" && len(w) >= 4:
			fails = append(fails, Fail{w[1], w[3]})
		case w[0] == "S" && len(w) >= 3 && !strings.HasPrefix(w[1], "op:"):
			for n, _ := strconv.Atoi(w[2]); n > 0; n-- {
				stat(w[1])
			}
		}
	}
	if done {
		return res, fails
	}
	// the child died
	if ctx.Err() != nil {
		stat("conc:child-timeout")
		return "hang", nil // a loaded machine is not a defect: the driver replays hangs alone with a longer delay
	}
	why, where := "no output", ""
	for _, l := range strings.Split(stderr.String(), "\n") {
		t := strings.TrimSpace(l)
		if why == "no output" && (strings.HasPrefix(t, "fatal error:") || strings.HasPrefix(t, "panic:") || strings.HasPrefix(t, "unexpected fault") || strings.HasPrefix(t, "SIG")) {
			why = t
		}
		if where == "" && strings.Contains(t, "/pkg/obikmer/") && strings.Contains(t, ".go:") {
			where = t[strings.LastIndex(t, "/pkg/")+1:]
			if k := strings.IndexByte(where, ' '); k > 0 {
				where = where[:k]
			}
		}
	}
	for _, env := range []string{"out of memory", "cannot allocate", "failed to create new OS thread", "newosproc", "pthread_create", "resource temporarily unavailable"} {
		if strings.Contains(stderr.String(), env) {
			why = "no output" // the machine, not the code
		}
	}
	if why == "no output" { // killed from outside (memory pressure ...): no evidence against the code, run it here
		stat("conc:child-killed")
		return c19ExecConcHere(g, r, subs)
	}
	stat("conc:child-died")
	res = guardT(180*time.Second, func() string {
		alone := make([]string, len(subs))
		for i, s := range subs {
			alone[i] = s.alone(g)
		}
		return strings.Join(alone, " ; ")
	})
	return res, []Fail{{"conc.crash", fmt.Sprintf("the process running the %d sub-cases from %d goroutines died: %s (first frame in the anchored package: %s); every sub-case run alone answers", len(subs), g, why, where)}}
}

func c19ExecConcHere(g, r int, subs []c19ConcSub) (string, []Fail) {
	var fails []Fail
	res := guardT(180*time.Second, func() string {
		alone := make([]string, len(subs))
		for i, s := range subs {
			alone[i] = s.alone(g)
			stat("conc:sub-" + strings.Fields(s.label(0))[0])
		}
		type bad struct {
			i, u, gid int
			got       string
		}
		var mu sync.Mutex
		var first *bad
		nbad, total, want := 0, 0, 0
		for k := 0; k < g; k++ {
			for _, s := range subs {
				for u := 0; u < s.units(); u++ {
					if o := s.owner(u); o < 0 || o%g == k {
						want += r
					}
				}
			}
		}
		start := make(chan struct{})
		var wg sync.WaitGroup
		for k := 0; k < g; k++ {
			wg.Add(1)
			go func(k int) {
				defer wg.Done()
				defer func() { recover() }()
				<-start
				for round := 0; round < r; round++ {
					for j := range subs {
						i := (j + k) % len(subs)
						s := subs[i]
						n := s.units()
						for v := 0; v < n; v++ {
							u := (v + k) % n
							if o := s.owner(u); o >= 0 && o%g != k {
								continue
							}
							got := s.conc(u, k)
							mu.Lock()
							total++
							if got != "" {
								nbad++
								if first == nil {
									first = &bad{i, u, k, got}
								}
							}
							mu.Unlock()
						}
					}
				}
			}(k)
		}
		t0 := time.Now()
		close(start)
		wg.Wait()
		stat(fmt.Sprintf("conc:g%d", g))
		stat(fmt.Sprintf("conc:calls~%d", c19Bucket(total)))
		if d := time.Since(t0); d >= 20*time.Millisecond {
			stat("conc:overlap>=20ms")
		} else {
			stat("conc:overlap<20ms")
		}
		if total != want {
			fails = append(fails, Fail{"conc.panic", fmt.Sprintf("%d of %d concurrent calls did not finish (panic in a goroutine)", want-total, want)})
		}
		if first != nil {
			s := subs[first.i]
			fails = append(fails, Fail{"conc.differs", fmt.Sprintf(
				"%d of %d concurrent calls differ from the call run alone; e.g. sub-case %d (%s) in goroutine %d: alone %s, concurrently %s",
				nbad, total, first.i, s.label(first.u), first.gid, c19Short(s.expected(first.u)), c19Short(first.got))})
		}
		return strings.Join(alone, " ; ")
	})
	return res, fails
}

// ---------------------------------------------------------------------------------------------
// race <conc case>: the case replayed through a `go build -race` build of this harness (thorough tier, first seed); a
// report of the race detector one of whose two racing accesses lies in pkg/obikmer or pkg/obifp is a failure

var (
	c19RaceBin   string
	c19RaceTried bool
)

func c19FirstSeed() bool {
	for i, a := range os.Args {
		if a == "-seed" && i+1 < len(os.Args) {
			s, err := strconv.Atoi(os.Args[i+1])
			return err == nil && s%1000 == 0
		}
	}
	return false
}

func c19RaceBuild() string {
	if c19RaceTried {
		return c19RaceBin
	}
	c19RaceTried = true
	root := os.Getenv("VERIF_ROOT")
	if root == "" {
		root = "/verif"
	}
	bin := filepath.Join(binDir(), "harness_C19_race")
	args := []string{"build", "-race", "-tags", "verif,c19", "-o", bin}
	if repo := os.Getenv("VERIF_REPO"); repo != "" && repo != "/repo" {
		// a scratch tree is under check: the driver wrote go.alt.mod (module replaced by that tree)
		alt := filepath.Join(root, "harness", "go.alt.mod")
		if b, err := os.ReadFile(alt); err == nil && strings.Contains(string(b), "=> "+repo) {
			args = append(args, "-modfile", alt)
		} else {
			stat("race-build:no-alt-mod")
			return ""
		}
	}
	build := exec.Command("go", append(args, ".")...)
	build.Dir = filepath.Join(root, "harness")
	build.Env = append(os.Environ(), "GOWORK=off", "GOFLAGS=-mod=mod", "GOPROXY=off", "GOSUMDB=off", "GOTOOLCHAIN=local", "CGO_CFLAGS=-w -O2 -g")
	if _, err := build.CombinedOutput(); err != nil {
		stat("race-build:failed")
		return ""
	}
	stat("race-build:ok")
	c19RaceBin = bin
	return bin
}

func c19Race(f []string) (string, []Fail) {
	if os.Getenv("VERIF_C19_CONC_CHILD") != "" {
		return c19ExecConc(f)
	}
	bin := c19RaceBuild()
	if bin == "" {
		stat("race:unavailable")
		return c19ExecConc(f)
	}
	ctx, cancel := context.WithTimeout(context.Background(), 300*time.Second*watchdogScale())
	defer cancel()
	cmd := exec.CommandContext(ctx, bin, "C19", "exec")
	cmd.Stdin = strings.NewReader(strings.Join(f, " ") + "\n")
	cmd.Env = append(os.Environ(), "VERIF_C19_CONC_CHILD=1", "GORACE=halt_on_error=0")
	var stdout, stderr bytes.Buffer
	cmd.Stdout, cmd.Stderr = &stdout, &stderr
	_ = cmd.Run()
	res, done := "", false
	var fails []Fail
	for _, l := range strings.Split(stdout.String(), "\n") {
		w := strings.Split(l, "\t")
		if w[0] == "C" && len(w) >= 3 {
			res, done = w[2], true
		}
		if w[0] == "F" && len(w) >= 4 {
			fails = append(fails, Fail{w[1], w[3]})
		}
	}
	if !done { // the race-built child died: the plain replay says why
		stat("race-replay:died")
		return c19ExecConc(f)
	}
	stat("race-replay:done")
	ours, other := 0, 0
	var where []string
	for _, block := range strings.Split(stderr.String(), "==================") {
		if !strings.Contains(block, "WARNING: DATA RACE") {
			continue
		}
		inAccess, mine := false, false
		for _, l := range strings.Split(block, "\n") {
			t := strings.TrimSpace(l)
			switch {
			case strings.HasPrefix(t, "Read at"), strings.HasPrefix(t, "Write at"), strings.HasPrefix(t, "Previous read at"),
				strings.HasPrefix(t, "Previous write at"), strings.HasPrefix(t, "Atomic"), strings.HasPrefix(t, "Previous atomic"):
				inAccess = true
			case strings.HasPrefix(t, "Goroutine "):
				inAccess = false
			case inAccess && strings.Contains(t, ".go:"):
				// innermost frame of a racing access (runtime frames of map / slice helpers skipped)
				if strings.Contains(t, "/runtime/") || strings.Contains(t, "/internal/") {
					continue
				}
				inAccess = false
				if (strings.Contains(t, "/pkg/obikmer/") || strings.Contains(t, "/pkg/obifp/")) && !strings.Contains(t, "verif_hooks") {
					mine = true
					loc := t[strings.LastIndex(t, "/pkg/")+1:]
					if k := strings.IndexByte(loc, ' '); k > 0 {
						loc = loc[:k]
					}
					if !slices.Contains(where, loc) && len(where) < 4 {
						where = append(where, loc)
					}
				}
			}
		}
		if mine {
			ours++
		} else {
			other++
		}
	}
	if other > 0 {
		stat("race-replay:race-elsewhere")
	}
	if ours > 0 {
		fails = append(fails, Fail{"race.detector", fmt.Sprintf("the Go race detector reports %d data race(s) whose racing access lies in the anchored packages (at %s)", ours, strings.Join(where, ", "))})
		stat("race-replay:DATA-RACE")
	} else {
		stat("race-replay:no-race-in-anchored-packages")
	}
	return res, fails
}

// ---------------------------------------------------------------------------------------------
// generator

func c19ConcMutate(rng *rand.Rand, tpl []byte, nsub int, pAmb int) []byte {
	s := append([]byte{}, tpl...)
	for m := 0; m < nsub && len(s) > 0; m++ {
		s[rng.Intn(len(s))] = "acgt"[rng.Intn(4)]
	}
	if pAmb > 0 && rng.Intn(pAmb) == 0 && len(s) > 0 {
		s[rng.Intn(len(s))] = c19Amb[rng.Intn(len(c19Amb))]
	}
	return s
}

// reads of a consensus graph: a template without repeated (k-1)-mer most of the time, reads = the template or a long
// piece of it with a few substitutions
func c19ConcGraphSub(rng *rand.Rand, big bool) string {
	k := 12 + rng.Intn(14)
	if rng.Intn(5) == 0 {
		k = 27 + rng.Intn(5)
	}
	tl, nr := 150+rng.Intn(100), 14+rng.Intn(10)
	if big {
		tl, nr = 180+rng.Intn(120), 16+rng.Intn(12)
	}
	tpl := c19RandSeq(rng, tl, "acgt", 0)
	var reads [][]byte
	var counts []int
	for i := 0; i < nr; i++ {
		s := c19ConcMutate(rng, tpl, rng.Intn(3), 12)
		if rng.Intn(3) == 0 {
			a := rng.Intn(len(s) / 3)
			s = s[a : len(s)-rng.Intn(len(s)/3)]
		}
		reads = append(reads, s)
		counts = append(counts, 1+rng.Intn(20))
	}
	if rng.Intn(3) == 0 {
		return fmt.Sprintf("gf %d %d%s", k, rng.Intn(25), c19Reads(reads, counts))
	}
	return fmt.Sprintf("g %d%s", k, c19Reads(reads, counts))
}

// the index of obikmersim: references derived from a few templates (both strands), queries = fresh variants and references
func c19ConcIndexSub(rng *rand.Rand, big bool) string {
	w := []int{128, 128, 128, 64, 256}[rng.Intn(5)]
	k := 6 + rng.Intn(24)
	if w == 256 && rng.Intn(2) == 0 {
		k = 40 + rng.Intn(60)
	}
	sparse := rng.Intn(2)
	nt, nref, rl, nq := 3, 16+rng.Intn(8), 160+rng.Intn(80), 8
	if big {
		nt, nref, rl, nq = 5, 24+rng.Intn(12), 200+rng.Intn(100), 14
	}
	tpls := make([][]byte, nt)
	for i := range tpls {
		tpls[i] = c19RandSeq(rng, rl, "acgt", 0)
	}
	variant := func() []byte {
		s := c19ConcMutate(rng, tpls[rng.Intn(nt)], rng.Intn(6), 10)
		if rng.Intn(3) == 0 {
			s = []byte(c19RcLoose(s))
		}
		if rng.Intn(4) == 0 {
			a := rng.Intn(len(s) / 2)
			s = s[a:]
		}
		return s
	}
	var b strings.Builder
	maxocc := -1
	if rng.Intn(3) == 0 {
		maxocc = 3 + rng.Intn(nref)
	}
	fmt.Fprintf(&b, "kq %d %d %d %d %d %d", w, k, sparse, maxocc, rng.Intn(2*rl/3), nref)
	for i := 0; i < nref; i++ {
		b.WriteString(" " + hx(variant()))
	}
	for i := 0; i < nq; i++ {
		switch rng.Intn(4) {
		case 0:
			fmt.Fprintf(&b, " @%d", rng.Intn(nref))
		case 1: // a long record: several variants in a row
			s := variant()
			for j := rng.Intn(4); j >= 0; j-- {
				s = append(s, variant()...)
			}
			b.WriteString(" " + hx(s))
		default:
			b.WriteString(" " + hx(variant()))
		}
	}
	return b.String()
}

func c19GenConc(rng *rand.Rand, tier string, emit func(string)) {
	ncase, g, r, big := 4, 8, 6, false
	if tier == "thorough" {
		ncase, g, r, big = 6, 16, 10, true
	}
	long := 6000
	if big {
		long = 20000
	}
	for c := 0; c < ncase; c++ {
		var subs []string
		// every case holds the three families; the goroutines start on different sub-cases
		ng := 1 + rng.Intn(2)
		for i := 0; i < ng; i++ {
			subs = append(subs, c19ConcGraphSub(rng, big))
		}
		subs = append(subs, c19ConcIndexSub(rng, big))
		nnk := 2
		if big {
			nnk = 3
		}
		for i := 0; i < nnk; i++ {
			w := []int{128, 128, 64, 256}[rng.Intn(4)]
			k := 4 + rng.Intn(w/2-4)
			subs = append(subs, fmt.Sprintf("nk %d %d %d %s", w, k, rng.Intn(2), hx(c19RandSeq(rng, 1500+rng.Intn(1500), "acgt", 40*rng.Intn(2)))))
		}
		for i := 0; i < 2; i++ {
			subs = append(subs, "e4 "+hx(c19RandSeq(rng, long+rng.Intn(long), "acgt", 20*rng.Intn(2))))
		}
		subs = append(subs, fmt.Sprintf("c4 %s 1", hx(c19RandSeq(rng, long+rng.Intn(long), "acgt", 0))))
		subs = append(subs, fmt.Sprintf("c4 %s %d", hx(c19RandSeq(rng, 1+rng.Intn(9), "acgt", 0)), 2000+rng.Intn(5000)))
		rng.Shuffle(len(subs), func(i, j int) { subs[i], subs[j] = subs[j], subs[i] })
		emit(fmt.Sprintf("conc %d %d | %s", g, r, strings.Join(subs, " | ")))
		stat("gen:conc")
		if tier == "thorough" && c < 3 && c19FirstSeed() {
			emit(fmt.Sprintf("race conc %d 2 | %s", g, strings.Join(subs, " | ")))
			stat("gen:race-conc")
		}
	}
}
