//go:build c19

package main

// C19, short glue pass: the obiconsensus command level.
//
//	cons <kopt> <read:count>...     the real obiconsensus.BuildConsensus(seqs, "cid", kopt, 0, false, "") on one pack of reads
//
// result (recomputed by Model/Consensus.lean, `cons` clause of Driver/C19.lean):
//
//	noseq | single <seq> <count> | panic | err | k=<kmer_size> cons=<seq> w=<weight> mo=<kmer_max_occur> fg=<graph size>
//
// oracle, independent of pkg/obikmer and of the glue: brute-force graph on STRINGS (IUPAC readings of every window, a node =
// the last min(k,32) bases of a window) at every size of the code's sequence of trials k0, k0+1, ...: Kahn elimination says
// which is the first acyclic one -> the reported obiconsensus_kmer_size must be that one (cons.kmer-size), the consensus must
// be a walk of THAT graph from a node without predecessor whose weight is the maximum over all such walks (cons.not-a-walk,
// cons.not-heaviest), weight = sum of the counts (cons.weight), max occurrence, graph sizes, seq_length, the flag
// (cons.annotation), error iff that graph is empty (cons.fallback), 0 / 1 read (cons.noseq, cons.single).

import (
	"fmt"
	"math/rand"
	"sort"
	"strconv"
	"strings"
	"time"

	"git.metabarcoding.org/obitools/obitools4/obitools4/pkg/obiseq"
	"git.metabarcoding.org/obitools/obitools4/obitools4/pkg/obitools/obiconsensus"
)

// brute-force graph: node string -> weight
func c19cGraph(k int, reads [][]byte, counts []int) map[string]int {
	nl := k
	if nl > 32 {
		nl = 32
	}
	g := map[string]int{}
	for i, r := range reads {
		for p := 0; p+k <= len(r); p++ {
			win := r[p+k-nl : p+k]
			seen := map[string]bool{}
			for _, rd := range c19Expand(win) {
				if !seen[rd] {
					seen[rd] = true
					g[rd] += counts[i]
				}
			}
		}
	}
	return g
}

func c19cNexts(g map[string]int, u string) []string {
	var out []string
	for _, c := range "acgt" {
		v := u[1:] + string(c)
		if _, ok := g[v]; ok {
			out = append(out, v)
		}
	}
	return out
}

// Kahn elimination; returns the topological order, nil + false when a cycle remains
func c19cTopo(g map[string]int) ([]string, bool) {
	indeg := map[string]int{}
	for u := range g {
		for _, v := range c19cNexts(g, u) {
			indeg[v]++
		}
	}
	var queue, order []string
	for u := range g {
		if indeg[u] == 0 {
			queue = append(queue, u)
		}
	}
	sort.Strings(queue)
	for len(queue) > 0 {
		u := queue[0]
		queue = queue[1:]
		order = append(order, u)
		for _, v := range c19cNexts(g, u) {
			indeg[v]--
			if indeg[v] == 0 {
				queue = append(queue, v)
			}
		}
	}
	return order, len(order) == len(g)
}

// longest substring occurring at two positions of s
func c19cLrs(s []byte) int {
	best := 0
	for i := 0; i < len(s); i++ {
		for j := i + 1; j < len(s); j++ {
			p := 0
			for j+p < len(s) && s[i+p] == s[j+p] {
				p++
			}
			if p > best {
				best = p
			}
		}
	}
	return best
}

func c19ExecCons(f []string, fail func(sig, format string, a ...any)) string {
	if len(f) < 2 {
		return "bad-op"
	}
	kopt, err := strconv.Atoi(f[1])
	if err != nil || kopt < -1 || kopt == 0 || kopt > 64 || strconv.Itoa(kopt) != f[1] {
		return "bad-op"
	}
	reads, counts, ok := c19ParseReads(f[2:])
	if !ok || len(reads) > 400 {
		return "bad-op"
	}
	maxLen, sum, hasEmpty := 0, 0, false
	for i := range reads {
		reads[i] = c19Lower(reads[i])
		if len(reads[i]) > 400 || counts[i] > 1<<30 {
			return "bad-op"
		}
		for _, b := range reads[i] {
			if _, isIupac := c19Iupac[b]; !isIupac {
				return "bad-op"
			}
		}
		if len(reads[i]) > maxLen {
			maxLen = len(reads[i])
		}
		if len(reads[i]) == 0 {
			hasEmpty = true
		}
		sum += counts[i]
	}
	mk := func() obiseq.BioSequenceSlice {
		seqs := obiseq.MakeBioSequenceSlice(0)
		for i, r := range reads {
			s := obiseq.NewBioSequence(fmt.Sprintf("r%d", i), append([]byte{}, r...), "")
			s.SetCount(counts[i])
			seqs = append(seqs, s)
		}
		return seqs
	}
	var seq *obiseq.BioSequence
	var berr error
	seqs := mk()
	res := guardT(20*time.Second, func() string {
		seq, berr = obiconsensus.BuildConsensus(seqs, "cid", kopt, 0.0, false, "")
		return "ok"
	})
	switch {
	case res == "panic" && len(reads) >= 2 && kopt < 0 && hasEmpty:
		stat("cons:empty-read-estimate-panic") // slices.Max of an empty list: a read without base is outside the contract of the estimate
		return "panic"
	case res != "ok":
		fail("cons."+res, "BuildConsensus: %s", res)
		return res
	}
	if len(reads) == 0 {
		if seq != nil || berr == nil {
			fail("cons.noseq", "no read: expected (nil, error), got %v, %v", seq, berr)
		}
		return "noseq"
	}
	if len(reads) == 1 {
		if seq == nil || berr != nil {
			fail("cons.single", "one read: expected a copy, got %v, %v", seq, berr)
			return "err"
		}
		flag, has := seq.GetAttribute("obiconsensus_consensus")
		if seq == seqs[0] || string(seq.Sequence()) != string(reads[0]) || seq.Count() != counts[0] || !has || flag != false || seq.Id() != "r0" {
			fail("cons.single", "one read %q x %d: got %q x %d flag %v id %s (copy expected, flagged false)", reads[0], counts[0], seq.Sequence(), seq.Count(), flag, seq.Id())
		}
		stat("cons:single")
		return fmt.Sprintf("single %s %d", hx(seq.Sequence()), seq.Count())
	}
	// ---- the code's sequence of trials on the brute-force graphs
	k0 := kopt
	if kopt < 0 {
		k0 = 1
		for _, r := range reads {
			if l := c19cLrs(r) + 1; l > k0 {
				k0 = l
			}
		}
	}
	k := k0
	var g map[string]int
	var order []string
	for ; ; k++ {
		g = c19cGraph(k, reads, counts)
		var acyclic bool
		if order, acyclic = c19cTopo(g); acyclic {
			break
		}
		if k > maxLen+1 {
			fail("cons.oracle", "internal: cyclic graph beyond the longest read")
			return "bad-oracle"
		}
	}
	switch t := k - k0 + 1; {
	case t == 1:
		stat("cons:trials=1")
	case t <= 3:
		stat("cons:trials=2-3")
	default:
		stat("cons:trials>=4")
	}
	if k > 32 {
		stat("cons:k>32")
	}
	if kopt < 0 {
		stat("cons:estimated")
	}
	if len(g) == 0 {
		stat("cons:fallback-empty-graph")
		if seq != nil || berr == nil {
			got := ""
			if seq != nil {
				got = string(seq.Sequence())
			}
			fail("cons.fallback", "the first acyclic graph of the trials %d, %d, ... is the empty one (k = %d): expected an error, got %q", k0, k0+1, k, got)
			return "k=? cons=" + hx([]byte(got))
		}
		return "err"
	}
	if seq == nil || berr != nil {
		fail("cons.fallback", "the graph at k = %d (first acyclic size from %d) has %d nodes: expected a consensus, got error %v", k, k0, len(g), berr)
		return "err"
	}
	// ---- heaviest walk from a source, dynamic programming in topological order
	best := map[string]int{}
	top := 0
	for _, u := range order {
		if best[u] == 0 {
			best[u] = g[u] // source (weights are >= 1, so 0 means "no predecessor has set it")
		}
		if best[u] > top {
			top = best[u]
		}
		for _, v := range c19cNexts(g, u) {
			if best[u]+g[v] > best[v] {
				best[v] = best[u] + g[v]
			}
		}
	}
	cons := string(seq.Sequence())
	geti := func(key string) int {
		v, ok := seq.GetIntAttribute(key)
		if !ok {
			fail("cons.annotation", "%s missing", key)
			return -1
		}
		return v
	}
	ks, w, sl, mo, fg, fu := geti("obiconsensus_kmer_size"), geti("obiconsensus_weight"), geti("obiconsensus_seq_length"), geti("obiconsensus_kmer_max_occur"),
		geti("obiconsensus_filtered_graph_size"), geti("obiconsensus_full_graph_size")
	if ks != k {
		fail("cons.kmer-size", "obiconsensus_kmer_size = %d, but the smallest acyclic size of the trials %d, %d, ... is %d (reads %s)", ks, k0, k0+1, k, c19Reads(reads, counts))
	}
	if w != sum {
		fail("cons.weight", "obiconsensus_weight = %d, sum of the read counts = %d", w, sum)
	}
	maxw := 0
	for _, x := range g {
		if x > maxw {
			maxw = x
		}
	}
	if flag, has := seq.GetAttribute("obiconsensus_consensus"); !has || flag != true || sl != len(cons) || mo != maxw || fg != len(g) || fu != len(g) || seq.Id() != "cid" {
		fail("cons.annotation", "flag %v seq_length %d (len %d) kmer_max_occur %d (expected %d) graph sizes %d / %d (expected %d) id %s", flag, sl, len(cons), mo, maxw, fg, fu, len(g), seq.Id())
	}
	if ks == k {
		nl := k
		if nl > 32 {
			nl = 32
		}
		body := cons
		if k > 32 && len(cons) >= k-32 && strings.Trim(cons[:k-32], "a") == "" {
			body = cons[k-32:] // DecodeNode prints k bases of a word that holds 32
		}
		walk, wsum := len(body) >= nl, 0
		for p := 0; walk && p+nl <= len(body); p++ {
			x, in := g[body[p:p+nl]]
			walk = in
			wsum += x
		}
		if walk {
			for _, c := range "acgt" { // no predecessor
				if _, in := g[string(c)+body[:nl-1]]; in {
					walk = false
				}
			}
		}
		if k > 32 && (!walk || wsum != top) {
			// beyond 32 the uint64 word holds the last 32 bases only and prevc/prevg/prevt are 0: Previouses sees the predecessor
			// starting with 'a' alone, Heads() is wrong and the "consensus" starts with k-32 spurious a's. Outside the domain of the
			// property (k = 2..31); counted, reported as a proposed finding (sig cons.k-above-32), not an alarm.
			stat("cons:k>32-consensus-not-a-heaviest-walk")
		} else if !walk {
			fail("cons.not-a-walk", "k = %d: %q is not a walk of the graph of the reads from a node without predecessor (reads %s)", k, cons, c19Reads(reads, counts))
		} else if wsum != top {
			fail("cons.not-heaviest", "k = %d: the consensus %q weighs %d, the heaviest walk from a source %d", k, cons, wsum, top)
		}
	}
	return fmt.Sprintf("k=%d cons=%s w=%d mo=%d fg=%d", ks, hx([]byte(cons)), w, mo, fg)
}

func c19GenCons(rng *rand.Rand, tier string, emit func(string)) {
	h := func(s string) string { return hx([]byte(s)) }
	// ---- corpus
	emit("cons -1")
	emit("cons 5")
	emit("cons -1 " + h("acgtcag") + ":3")
	emit("cons 4 " + h("acacacac") + ":2") // a single read is copied, whatever its repeats
	emit("cons 2 " + h("aca") + ":1 " + h("cac") + ":1")            // cyclic at 2 and 3, empty at 4 = longest read + 1: error
	emit("cons 3 " + h("acgtcag") + ":5 " + h("acgtaag") + ":1 " + h("cagacg") + ":1") // chimera: 3 and 4 cyclic, 5
	emit("cons -1 " + h("acgtcag") + ":5 " + h("acgtaag") + ":1 " + h("cagacg") + ":1")
	emit("cons 9 " + h("acgtcag") + ":5 " + h("acgtaag") + ":1") // every read shorter than k
	emit("cons 7 " + h("acgtcag") + ":5 " + h("acgtaag") + ":1") // reads of exactly k bases
	emit("cons -1 " + h("acgtcag") + ":5 -:1")                    // an empty read with the estimate
	emit("cons 3 " + h("acgtcag") + ":5 -:1")
	emit("cons 30 " + h(strings.Repeat("ac", 20)) + ":3 " + h(strings.Repeat("ac", 20)+"g") + ":2") // the loop goes through 33..41
	emit("cons -1 " + h(strings.Repeat("ac", 20)) + ":3 " + h(strings.Repeat("ac", 20)+"g") + ":2")
	emit("cons 31 " + h("ttgacctagcatcgatcgatgcatgcatcgactagcatcgacttt") + ":4 " + h("ttgacctagcatcgatcgatgcatgcatcgactagcatcgacttt"[3:]+"ttgacctagcatcgatcgatgcatgcatcgactagcatcgacttt"[:40]) + ":1")
	emit("cons 4 " + h("acgtnag") + ":2 " + h("acrtcag") + ":3 " + h("ACGTCAG") + ":1")
	n := 110
	if tier == "thorough" {
		n = 700
	}
	mut := func(s []byte, amb int) []byte {
		t := append([]byte{}, s...)
		p := rng.Intn(len(t))
		if amb > 0 && rng.Intn(amb) == 0 {
			t[p] = c19Amb[rng.Intn(len(c19Amb))]
		} else {
			t[p] = "acgt"[rng.Intn(4)]
		}
		return t
	}
	for i := 0; i < n; i++ {
		var reads [][]byte
		var counts []int
		kopt := -1
		switch c := rng.Intn(10); {
		case c < 3: // clean amplicon + low-count variants
			a := c19RandSeq(rng, 25+rng.Intn(40), "acgt", 0)
			reads, counts = append(reads, a), append(counts, 5+rng.Intn(30))
			for j := 1 + rng.Intn(4); j > 0; j-- {
				v := mut(a, 3)
				if rng.Intn(3) == 0 {
					v = v[rng.Intn(4) : len(v)-rng.Intn(4)]
				}
				reads, counts = append(reads, v), append(counts, 1+rng.Intn(3))
			}
			if rng.Intn(2) == 0 {
				kopt = 3 + rng.Intn(12)
			}
		case c < 6: // amplicon + chimera closing a cycle at small k: forces the increase of k
			a := c19RandSeq(rng, 20+rng.Intn(30), "acgt", 0)
			i0, j0 := 2+rng.Intn(len(a)/2), 2+rng.Intn(len(a)/2)
			ch := append(append([]byte{}, a[len(a)-i0:]...), a[:j0]...)
			reads, counts = append(reads, a, ch), append(counts, 4+rng.Intn(20), 1+rng.Intn(2))
			if rng.Intn(2) == 0 {
				reads, counts = append(reads, mut(a, 4)), append(counts, 1+rng.Intn(3))
			}
			if rng.Intn(4) > 0 {
				kopt = 2 + rng.Intn(8)
			}
			if rng.Intn(6) == 0 { // near / across the 32 boundary
				kopt = 29 + rng.Intn(5)
			}
		case c < 7: // option larger than some / all reads, reads of exactly k bases
			l := 6 + rng.Intn(20)
			a := c19RandSeq(rng, l, "acgt", 8)
			reads, counts = append(reads, a, mut(a, 0)), append(counts, 1+rng.Intn(9), 1+rng.Intn(9))
			if rng.Intn(2) == 0 {
				reads, counts = append(reads, a[:len(a)-1-rng.Intn(3)]), append(counts, 1+rng.Intn(4))
			}
			kopt = l - 2 + rng.Intn(5)
		case c < 8: // periodic reads: cycles at every size, up to beyond 32
			u := c19RandSeq(rng, 1+rng.Intn(3), "acgt", 0)
			r1 := []byte(strings.Repeat(string(u), 2+rng.Intn(40/len(u))))
			r2 := append(append([]byte{}, r1...), c19RandSeq(rng, 1+rng.Intn(3), "acgt", 0)...)
			reads, counts = append(reads, r1, r2), append(counts, 1+rng.Intn(5), 1+rng.Intn(5))
			if rng.Intn(2) == 0 {
				kopt = 1 + rng.Intn(34)
			}
		case c < 9: // 0 / 1 read, empty reads
			if rng.Intn(2) == 0 {
				reads, counts = append(reads, c19RandSeq(rng, rng.Intn(30), "acgt", 6)), append(counts, 1+rng.Intn(9))
			}
			if rng.Intn(3) == 0 {
				reads, counts = append(reads, []byte{}, c19RandSeq(rng, 1+rng.Intn(9), "acgt", 0)), append(counts, 1, 2)
			}
			if rng.Intn(2) == 0 {
				kopt = 1 + rng.Intn(8)
			}
		default: // dense small graphs
			al := []string{"ac", "acg", "at"}[rng.Intn(3)]
			for j := 2 + rng.Intn(4); j > 0; j-- {
				reads, counts = append(reads, c19RandSeq(rng, 3+rng.Intn(22), al, 0)), append(counts, 1+rng.Intn(6))
			}
			if rng.Intn(2) == 0 {
				kopt = 1 + rng.Intn(8)
			}
		}
		if rng.Intn(3) == 0 { // the order of the reads must not matter
			rng.Shuffle(len(reads), func(a, b int) { reads[a], reads[b] = reads[b], reads[a]; counts[a], counts[b] = counts[b], counts[a] })
		}
		emit(fmt.Sprintf("cons %d%s", kopt, c19Reads(reads, counts)))
	}
}
