//go:build c16

// C16 glue pass: the pattern predicates / workers between the options and the C10 matcher
//
//	obigrep --approx-pattern P [--pattern-error e] [--allows-indels] [--only-forward]
//	    -> CLISequencePatternPredicate -> obiapat.IsPatternMatchSequence(P, e, both, indel) -> pat.IsMatching / cpat.IsMatching
//	obiannotate --pattern P [--pattern-name] [--pattern-error e] [--allows-indels] [--only-forward]
//	    -> MatchPatternWorker(P, name, e, both, indel) -> pat.BestMatch / cpat.BestMatch
//
// Until this pass the verdicts of these builders were DATA for the C16 model and for the reference interpreter (c16Table.apat called
// the real IsPatternMatchSequence, c16Table.bestMatch the real BestMatch): a pre-filter added in front of the matcher inside the
// builder was invisible (seeded C10-m6: "a sequence shorter than the pattern cannot match" - false with indels).  Here the verdict
// handed to the model is itself checked against a brute-force reference on the raw inputs: Hamming distance of the IUPAC pattern
// against every window, or the smallest edit distance of the pattern to a substring ending at each position, on both strands (the
// reverse strand = the mirrored pattern on the same sequence).  The reference is the one of harness/c10.go (build tag c10: copied).

package main

import (
	"fmt"
	"math/rand"
	"strings"
)

// ---------------------------------------------------------------------------------------------
// reference (IUPAC letters only: the patterns of the C16 cases; anything else = no oracle)

type c16apTok [26]bool

var c16apIupac = map[byte]string{
	'A': "a", 'C': "c", 'G': "g", 'T': "t", 'U': "t", 'R': "ag", 'Y': "ct", 'M': "ac", 'K': "gt", 'S': "cg", 'W': "at",
	'B': "cgt", 'D': "agt", 'H': "act", 'V': "acg", 'N': "acgt",
}

func c16apParse(pat string) ([]c16apTok, bool) {
	p := strings.ToUpper(pat)
	toks := make([]c16apTok, len(p))
	for i := 0; i < len(p); i++ {
		b, ok := c16apIupac[p[i]]
		if !ok {
			return nil, false
		}
		for _, x := range []byte(b) {
			toks[i][x-'a'] = true
		}
	}
	return toks, len(toks) > 0 && len(toks) < 64
}

func (t c16apTok) match(c byte) bool { return c >= 'a' && c <= 'z' && t[c-'a'] }

// mirrored pattern: complement of each class, order reversed
func c16apRc(toks []c16apTok) []c16apTok {
	out := make([]c16apTok, len(toks))
	for i, t := range toks {
		u := t
		u[0], u['t'-'a'] = t['t'-'a'], t[0]
		u['c'-'a'], u['g'-'a'] = t['g'-'a'], t['c'-'a']
		out[len(toks)-1-i] = u
	}
	return out
}

const c16apInf = 1 << 20

func c16apHamming(toks []c16apTok, w []byte) int {
	k := 0
	for i, t := range toks {
		if !t.match(w[i]) {
			k++
		}
	}
	return k
}

// plain edit distance between the pattern and t
func c16apEdit(toks []c16apTok, t []byte) int {
	m := len(toks)
	prev := make([]int, len(t)+1)
	cur := make([]int, len(t)+1)
	for i := range prev {
		prev[i] = i
	}
	for j := 1; j <= m; j++ {
		cur[0] = j
		for i := 1; i <= len(t); i++ {
			d := prev[i-1]
			if !toks[j-1].match(t[i-1]) {
				d++
			}
			if prev[i]+1 < d {
				d = prev[i] + 1
			}
			if cur[i-1]+1 < d {
				d = cur[i-1] + 1
			}
			cur[i] = d
		}
		prev, cur = cur, prev
	}
	return prev[len(t)]
}

// smallest number of errors of an occurrence of the pattern in w as the matcher counts them (c16apInf: none at all):
// mismatch only = Hamming distance over the windows of the pattern length; indels (budget > 0) = edit distance to a substring
// ending at q, 1 <= q <= len(w) (the raw hits of FindAllIndex, see harness/c10.go find.indel), brute force over all substrings
func c16apBest(toks []c16apTok, indel bool, e int, w []byte) int {
	best := c16apInf
	m := len(toks)
	if !indel || e == 0 {
		for i := 0; i+m <= len(w); i++ {
			if k := c16apHamming(toks, w[i:i+m]); k < best {
				best = k
			}
		}
		return best
	}
	for q := 1; q <= len(w); q++ {
		for a := 0; a <= q; a++ {
			if a < q-m-e-1 {
				continue // longer than pattern + budget: the distance is above the budget
			}
			if d := c16apEdit(toks, w[a:q]); d < best {
				best = d
			}
		}
	}
	return best
}

func c16apSeqOK(seq []byte) bool {
	if len(seq) == 0 || len(seq) > 400 {
		return false
	}
	for _, c := range seq {
		if !(c >= 'a' && c <= 'z') {
			return false
		}
	}
	return true
}

// ---------------------------------------------------------------------------------------------
// oracle failures raised while the table of library verdicts is filled (collected by Exec)

var c16apFails []Fail

func c16apFail(sig, format string, a ...any) {
	f := Fail{Sig: sig, Text: fmt.Sprintf(format, a...)}
	for _, g := range c16apFails {
		if g == f {
			return
		}
	}
	c16apFails = append(c16apFails, f)
}

// the verdict of obiapat.IsPatternMatchSequence(pat, e, both, indel) on seq, as obtained from the real code ("0" / "1")
func c16apCheckPredicate(pat string, e int, both, indel bool, seq []byte, got string) {
	toks, sane := c16apParse(pat)
	low := []byte(strings.ToLower(string(seq)))
	if !sane || e < 0 || e > 63 || !c16apSeqOK(low) || (got != "0" && got != "1") {
		stat("apat.oracle.skipped")
		return
	}
	fw := c16apBest(toks, indel, e, low) <= e
	rv := both && c16apBest(c16apRc(toks), indel, e, low) <= e
	want := b01(fw || rv)
	m, n := len(toks), len(low)
	cls := "longer"
	switch {
	case n < m-e:
		cls = "shorter-beyond-budget"
	case n < m:
		cls = "shorter-within-budget"
	case n == m:
		cls = "equal"
	case n == m+1:
		cls = "one-longer"
	}
	mode := "sub"
	if indel && e > 0 {
		mode = "indel"
	}
	stat("apat.pred." + mode + "." + cls + "=" + want)
	if fw {
		stat("apat.pred.strand=direct")
	} else if rv {
		stat("apat.pred.strand=reverse-only")
	}
	if want != got {
		what := "no occurrence within the budget on the searched strand(s)"
		if want == "1" {
			what = fmt.Sprintf("an occurrence within the budget exists (direct strand: %v, reverse strand: %v)", fw, rv)
		}
		c16apFail("grep.apat."+mode+"."+cls, "IsPatternMatchSequence(%q, errors=%d, bothStrand=%v, indels=%v) on %q (%d symbols, pattern %d) says %s: %s",
			pat, e, both, indel, low, n, m, got, what)
	}
}

// the best match MatchPatternWorker gets from BestMatch (pattern itself: direct, or its reverse complement) on seq
func c16apCheckBest(pat string, e int, indel, direct bool, seq []byte, st, en, nerr int, found bool) {
	toks, sane := c16apParse(pat)
	low := []byte(strings.ToLower(string(seq)))
	if !sane || e < 0 || e > 63 || !c16apSeqOK(low) {
		stat("apat.oracle.skipped")
		return
	}
	strand := "direct"
	if !direct {
		toks = c16apRc(toks)
		strand = "reverse"
	}
	m, n := len(toks), len(low)
	best := c16apBest(toks, indel, e, low)
	mode := "sub"
	if indel && e > 0 {
		mode = "indel"
	}
	cls := "longer"
	switch {
	case n < m:
		cls = "shorter"
	case n == m:
		cls = "equal"
	case n == m+1:
		cls = "one-longer"
	}
	stat("apat.best." + mode + "." + cls + "=" + b01(best <= e))
	if (best <= e) != found {
		if e >= m {
			stat("apat.best.budget>=patlen") // every end position is a hit of the empty occurrence: not a case of the generators
			return
		}
		c16apFail("annot.apat.iff."+mode+"."+cls, "BestMatch of %q (%s strand, errors=%d, indels=%v) on %q: matched=%v but the least error count of an occurrence is %s",
			pat, strand, e, indel, low, found, c16apShowBest(best))
		return
	}
	if !found {
		return
	}
	if st < 0 || st >= en || en > n {
		c16apFail("annot.apat.span", "BestMatch of %q on %q: span [%d,%d) is not inside the sequence", pat, low, st, en)
		return
	}
	if nerr > e {
		c16apFail("annot.apat.budget", "BestMatch of %q (%s strand) on %q: %d errors reported with budget %d", pat, strand, low, nerr, e)
	}
	d := c16apInf
	if mode == "indel" {
		d = c16apEdit(toks, low[st:en])
	} else if en-st == m {
		d = c16apHamming(toks, low[st:en])
	}
	if d != nerr {
		c16apFail("annot.apat.errcount."+mode, "BestMatch of %q (%s strand, errors=%d, indels=%v) on %q: span [%d,%d) = %q reported with %d errors, its distance to the pattern is %s",
			pat, strand, e, indel, low, st, en, low[st:en], nerr, c16apShowBest(d))
	} else if nerr != best {
		// the hit with the least error count is the one BestMatch keeps; the re-alignment window holds the best occurrence ending there
		c16apFail("annot.apat.notbest."+mode, "BestMatch of %q (%s strand, errors=%d, indels=%v) on %q: span [%d,%d) has %d errors, an occurrence with %d exists",
			pat, strand, e, indel, low, st, en, nerr, best)
	}
}

func c16apShowBest(d int) string {
	if d >= c16apInf {
		return "none"
	}
	return fmt.Sprint(d)
}

// ---------------------------------------------------------------------------------------------
// generators: records shorter than / as long as / one longer than the pattern, budgets 0..3, both strands

func c16apRevComp(s []byte) []byte {
	out := make([]byte, len(s))
	for i, c := range s {
		switch c {
		case 'a':
			c = 't'
		case 't':
			c = 'a'
		case 'c':
			c = 'g'
		case 'g':
			c = 'c'
		}
		out[len(s)-1-i] = c
	}
	return out
}

var c16apPatterns = []string{"acgttgca", "ACGTTGCA", "ggatcca", "ttagacc", "acgtwnry", "GGWACNT", "ccktamag", "tgcatg", "aacgt", "gattacaggt", "CGTAYGCAAT", "acgtacgt"}

// a sequence the pattern accepts symbol by symbol
func c16apInstance(rng *rand.Rand, toks []c16apTok) []byte {
	out := make([]byte, len(toks))
	for i, t := range toks {
		var ok []byte
		for _, c := range []byte("acgt") {
			if t.match(c) {
				ok = append(ok, c)
			}
		}
		out[i] = ok[rng.Intn(len(ok))]
	}
	return out
}

// one record sequence around the boundary; the name says what was done
func c16apSeq(rng *rand.Rand, toks []c16apTok, e int) ([]byte, string) {
	m := len(toks)
	w := c16apInstance(rng, toks)
	del := func(w []byte, i int) []byte { return append(append([]byte{}, w[:i]...), w[i+1:]...) }
	other := func(t c16apTok) byte { // a base the position refuses (any base if it accepts all)
		cs := []byte("acgt")
		for _, k := range rng.Perm(4) {
			if !t.match(cs[k]) {
				return cs[k]
			}
		}
		return cs[rng.Intn(4)]
	}
	name := ""
	switch k := rng.Intn(12); k {
	case 0, 1, 2, 3: // shorter by d = 1..e+1 symbols: deletions at the start / the end / inside
		d := 1 + rng.Intn(e+1)
		if rng.Intn(4) == 0 {
			d = e // exactly the budget
		}
		if d < 1 {
			d = 1
		}
		if d > m-2 {
			d = m - 2
		}
		where := []string{"first", "last", "inner", "mixed"}[rng.Intn(4)]
		for j := 0; j < d; j++ {
			switch where {
			case "first":
				w = del(w, 0)
			case "last":
				w = del(w, len(w)-1)
			case "inner":
				if len(w) >= 3 {
					w = del(w, 1+rng.Intn(len(w)-2))
				} else {
					w = del(w, 0)
				}
			default:
				w = del(w, rng.Intn(len(w)))
			}
		}
		name = fmt.Sprintf("del%d%s", d, where)
	case 4, 5: // as long as the pattern: 0..e+1 substitutions
		s := rng.Intn(e + 2)
		for _, i := range rng.Perm(m)[:min(s, m)] {
			w[i] = other(toks[i])
		}
		name = fmt.Sprintf("sub%d", s)
	case 6: // as long as the pattern: one deletion and one flanking base (edit distance <= 2, Hamming distance usually large)
		w = del(w, rng.Intn(len(w)))
		if rng.Intn(2) == 0 {
			w = append(w, "acgt"[rng.Intn(4)])
		} else {
			w = append([]byte{"acgt"[rng.Intn(4)]}, w...)
		}
		name = "shift"
	case 7, 8: // one longer: an insertion inside, or a flanking base
		i := rng.Intn(len(w) + 1)
		w = append(append(append([]byte{}, w[:i]...), "acgt"[rng.Intn(4)]), w[i:]...)
		name = "ins1"
		if rng.Intn(2) == 0 {
			s := rng.Intn(e + 1)
			for _, j := range rng.Perm(len(w))[:min(s, 2)] {
				w[j] = "acgt"[rng.Intn(4)]
			}
			name = "ins1sub"
		}
	case 9: // a read holding an approximate occurrence
		s := rng.Intn(e + 2)
		for _, i := range rng.Perm(m)[:min(s, m)] {
			w[i] = other(toks[i])
		}
		fl := func() []byte {
			b := make([]byte, rng.Intn(6))
			for i := range b {
				b[i] = "acgt"[rng.Intn(4)]
			}
			return b
		}
		w = append(append(fl(), w...), fl()...)
		name = "read"
	default: // random, length m-1 .. m+1
		w = make([]byte, m-1+rng.Intn(3))
		for i := range w {
			w[i] = "acgt"[rng.Intn(4)]
		}
		name = "rnd"
	}
	if rng.Intn(2) == 0 {
		w = c16apRevComp(w)
		name += "rc"
	}
	return w, name
}

func c16GenApat(rng *rand.Rand, tier string, emit func(string), join func(string, []string, []c16Pair) string) {
	// corpus: the records of the seeded regression C10-m6 (pattern acgttgca, 1 error, indels: the pattern with one symbol
	// missing at the end / the start / inside, and the same on the reverse strand), with every strand / indel setting
	rec := "6578616374,6163677474676361,- ; 6c6f6e676572,74746163677474676361676761,- ; 64656c6c617374,61636774746763,- ; 64656c6669727374,63677474676361,- ; " +
		"64656c696e6e6572,61636774676361,- ; 726364656c6c617374,67636161636774,- ; 6f74686572,61616161616161,- ; 73686f7274,6163,-"
	for _, opts := range []string{"pe=1 indel", "pe=1 indel fwd", "pe=1", "pe=2 indel", "pe=3 indel v", "indel", "pe=1 fwd", ""} {
		emit(strings.Join(strings.Fields("grep ap=6163677474676361 "+opts), " ") + " | " + rec)
		emit(strings.Join(strings.Fields("annot pat=6163677474676361 "+opts), " ") + " | " + rec)
	}
	emit("grepio ap=6163677474676361 pe=1 indel bs=2 w=2 | " + rec)
	emit("grepio ap=6163677474676361 pe=1 indel bs=3 w=3 nosd | " + rec)
	emit("grepio ap=4143475457 ap=6163677474676361 pe=2 indel v bs=2 w=2 | " + rec)
	n := 90
	if tier == "thorough" {
		n = 420
	}
	for i := 0; i < n; i++ {
		pat := c16apPatterns[rng.Intn(len(c16apPatterns))]
		toks, _ := c16apParse(pat)
		e := i % 4 // budgets 0..3
		if e > len(toks)-3 {
			e = len(toks) - 3
		}
		nrec := 5 + rng.Intn(4)
		recs := make([]c16Pair, nrec)
		for j := range recs {
			s, name := c16apSeq(rng, toks, e)
			recs[j].r = c16Rec{id: fmt.Sprintf("%s_%d", name, j), seq: s, attrs: map[string]c16Val{}}
			if rng.Intn(5) == 0 {
				recs[j].r.attrs["count"] = c16Val{kind: 'i', n: 1 + rng.Intn(4)}
			}
		}
		indel := rng.Intn(3) != 0
		fwd := rng.Intn(3) == 0
		var flags []string
		if e > 0 || rng.Intn(2) == 0 {
			flags = append(flags, fmt.Sprintf("pe=%d", e))
		}
		if indel {
			flags = append(flags, "indel")
		}
		if fwd {
			flags = append(flags, "fwd")
		}
		st := fmt.Sprintf("e=%d", e)
		if indel {
			st += ".indel"
		}
		if fwd {
			st += ".fwd"
		}
		switch i % 5 {
		case 0, 1: // the predicate alone / negated / with a second pattern / with a length criterion
			toks := append([]string{"ap=" + hs(pat)}, flags...)
			switch rng.Intn(5) {
			case 0:
				toks = append(toks, "v")
			case 1:
				toks = append(toks, "ap="+hs(c16apPatterns[rng.Intn(len(c16apPatterns))]))
			case 2:
				toks = append(toks, fmt.Sprintf("l=%d", len(pat)-1+rng.Intn(3)))
			}
			emit(join("grep", toks, recs))
			stat("apat.gen.grep." + st)
		case 2, 3: // the annotation worker
			toks := append([]string{"pat=" + hs(pat)}, flags...)
			if rng.Intn(3) == 0 {
				toks = append(toks, "patname="+hs([]string{"primer", "pattern", "p_x"}[rng.Intn(3)]))
			}
			emit(join("annot", toks, recs))
			stat("apat.gen.annot." + st)
		default: // the whole command path (CLIFilterSequence)
			toks := append([]string{"ap=" + hs(pat)}, flags...)
			if rng.Intn(4) == 0 {
				toks = append(toks, "v")
			}
			toks = append(toks, fmt.Sprintf("bs=%d", 1+rng.Intn(3)), fmt.Sprintf("w=%d", 1+rng.Intn(4)))
			if rng.Intn(2) == 0 {
				toks = append(toks, "nosd")
			}
			emit(join("grepio", toks, recs))
			stat("apat.gen.grepio." + st)
		}
	}
}
