//go:build c15

package main

// C15, round 4 — THE SET-UP CODE AROUND THE SEARCHES AND ITS ERROR PATHS (Model/TagSetup.lean).
//
//	cl1 <Q1,..> <R1,..> <T1,..> <TAXO> <ALIAS>   obitag.CLIAssignTaxonomy(iterator over the queries, references, taxonomy):
//	                          Ti = taxid attribute of record i (0 = no attribute), possibly ABSENT from the taxonomy (the
//	                          record is dropped with a warning) or an alias (ALIAS = old:new,.. | _); every query is pushed
//	                          through the returned iterator            -> "taxid bestmatch count ; ..." | panic
//	rx  <R1,..> <T1,..> <TAXO> <ALIAS>           obirefidx.IndexReferenceDB on the same kind of data base
//	                                                                    -> "r<i> index ; ..." | none
//	s2  <R1,..> <T1,..> <TAXO> <ALIAS>           set-up of obitag2.CLIAssignTaxonomy (empty query iterator) -> ok | panic
//	fw  <R1,..> <T1,..> <TAXO> <ALIAS> <i:j,..>  obirefidx.MakeIndexingSliceWorker on the members i of the data base, member
//	                          i carrying the id attribute j ("-" = none); the 4-mer tables are those of the whole data base
//	                                                                    -> "index ; ..." | err | panic | none
//
// The model decides itself which records are kept and builds the parallel arrays with the verbatim compaction loops;
// Exec appends only the candidate orders of the real unstable sort (positions in the KEPT list).  bestmatch / r<i> are
// positions in the file.
//
// A panic inside a worker goroutine of the iterator cannot be recovered: the outcome of the queries is first obtained
// from the real obitag.Identify on arrays built HERE (aligned, the map taxa holding a nil node after the last kept
// record when the last record of the file is dropped, as the set-up leaves it); a predicted panic is answered without
// pushing the queries (the set-up itself is still run, with an empty iterator, and its in-place compaction checked).
//
// Oracles (brute force over the kept references, unbounded FastLCSScore): obitag_match_count = number of kept
// references at minimal distance, obitag_bestmatch one of them, obitag_bestid the largest identity among them, the
// assigned taxon an ancestor-or-self of the taxon of each of them and equal to the naive LCA of the taxa of the kept
// references within that distance of one of them; every index written (lazily by Identify, by IndexReferenceDB, by the
// slice worker) obeys the index statement on the kept list; the kept list is exactly the records with a known taxid,
// in file order.

import (
	log "github.com/sirupsen/logrus"
	"fmt"
	"math"
	"math/rand"
	"os"
	"sort"
	"strconv"
	"strings"
	"time"

	"git.metabarcoding.org/obitools/obitools4/obitools4/pkg/obiiter"
	"git.metabarcoding.org/obitools/obitools4/obitools4/pkg/obikmer"
	"git.metabarcoding.org/obitools/obitools4/obitools4/pkg/obiseq"
	"git.metabarcoding.org/obitools/obitools4/obitools4/pkg/obitax"
	"git.metabarcoding.org/obitools/obitools4/obitools4/pkg/obitools/obifind"
	"git.metabarcoding.org/obitools/obitools4/obitools4/pkg/obitools/obirefidx"
	"git.metabarcoding.org/obitools/obitools4/obitools4/pkg/obitools/obitag"
	"git.metabarcoding.org/obitools/obitools4/obitools4/pkg/obitools/obitag2"
)

type c15DB struct {
	refs   [][]byte
	taxids []int
	taxo   [][2]int
	alias  [][2]int
	par    map[int]int
	tax    *obitax.Taxonomy
	// naive reference: the records with a known taxid, in file order
	kept  []int
	krefs [][]byte
	ktax  []int // resolved taxid (alias -> node; no attribute -> 1)
	// glue pass: the obitag_ref_index attribute record i ALREADY carries when the data base is loaded (nil = no case word)
	given []c15Given
	gform int // Go type of the stored attribute: 0 map[int]string, 1 map[string]interface{}, 2 map[string]string
}

// resolve: the node a taxid attribute designates (0 = no attribute = root), -1 if unknown to the taxonomy
func (db *c15DB) resolve(t int) int {
	if t == 0 {
		t = 1
	}
	if _, ok := db.par[t]; ok {
		return t
	}
	for _, a := range db.alias {
		if a[0] == t {
			if _, ok := db.par[a[1]]; ok {
				return a[1]
			}
			return -1
		}
	}
	return -1
}

func c15ParseDB(rs, ts, tx, al string) (*c15DB, bool) {
	refs, ok1 := c15ParseList(rs)
	taxids, ok2 := c15ParseInts(ts)
	taxo, ok3 := c15ParseTaxo(tx)
	alias, ok4 := c15ParseTaxo(al)
	if !ok1 || !ok2 || !ok3 || !ok4 || len(refs) != len(taxids) {
		return nil, false
	}
	par, wf := c15WellFormed(taxo)
	if !wf {
		return nil, false
	}
	seen := map[int]bool{}
	for _, a := range alias {
		if _, isNode := par[a[0]]; isNode || seen[a[0]] || a[0] == 0 {
			return nil, false
		}
		seen[a[0]] = true
	}
	for _, r := range refs {
		if !c15Acgt(r) {
			return nil, false
		}
	}
	db := &c15DB{refs: refs, taxids: taxids, taxo: taxo, alias: alias, par: par}
	db.tax = c15BuildTaxo(taxo)
	if db.tax == nil {
		return nil, false
	}
	for _, a := range alias {
		db.tax.AddNewAlias(a[1], a[0]) // an alias of an unknown taxon is refused (error ignored, as the NCBI loader does)
	}
	for i, t := range taxids {
		if r := db.resolve(t); r >= 0 {
			db.kept = append(db.kept, i)
			db.krefs = append(db.krefs, refs[i])
			db.ktax = append(db.ktax, r)
		}
	}
	return db, true
}

// the records as the reader hands them to the commands
func (db *c15DB) records() obiseq.BioSequenceSlice {
	rs := make(obiseq.BioSequenceSlice, len(db.refs))
	for i, r := range db.refs {
		rs[i] = c15Seq(fmt.Sprintf("r%d", i), r)
		if db.taxids[i] != 0 {
			rs[i].SetTaxid(db.taxids[i])
		}
		if db.given != nil && !db.given[i].isNil {
			c15SetStored(rs[i], db.given[i].m, db.gform+i)
		}
	}
	return rs
}

func (db *c15DB) stats(op string) {
	n, k := len(db.refs), len(db.kept)
	switch {
	case n == 0:
		stat(op + ":db-empty")
	case k == 0:
		stat(op + ":db-empty-after-dropping")
	case k == n:
		stat(op + ":nothing-dropped")
	default:
		stat(op + ":some-dropped")
	}
	if n > 0 && k < n {
		if db.resolve(db.taxids[0]) < 0 {
			stat(op + ":dropped-first")
		}
		if db.resolve(db.taxids[n-1]) < 0 {
			stat(op + ":dropped-last")
		}
		for i := 1; i < n; i++ {
			if db.resolve(db.taxids[i]) < 0 && db.resolve(db.taxids[i-1]) < 0 {
				stat(op + ":dropped-consecutive")
				break
			}
		}
		for i := 1; i+1 < n; i++ {
			if db.resolve(db.taxids[i]) < 0 {
				stat(op + ":dropped-middle")
				break
			}
		}
	}
	for i, t := range db.taxids {
		if t == 0 {
			stat(op + ":record-without-taxid")
		} else if _, node := db.par[t]; !node && db.resolve(t) >= 0 {
			stat(op + ":alias-taxid")
		}
		_ = i
	}
}

func c15ExecSetup(x *c15Ctx, op, base string, w []string) (string, []Fail) {
	x.verb = true // only candidate orders are handed to the model
	switch op {
	case "cl1":
		if len(w) != 6 && len(w) != 7 {
			return "bad-op", nil
		}
		queries, ok := c15ParseList(w[1])
		db, ok2 := c15ParseDB(w[2], w[3], w[4], w[5])
		if !ok || !ok2 || len(queries) == 0 {
			return "bad-op", nil
		}
		if len(w) == 7 && !db.setGiven(w[6]) {
			return "bad-op", nil
		}
		for _, q := range queries {
			if !c15Acgt(q) || len(q) == 0 {
				return "bad-op", nil
			}
		}
		return c15ExecCL1(x, base, queries, db)
	case "rx", "s2":
		if len(w) != 5 && !(op == "rx" && len(w) == 6) {
			return "bad-op", nil
		}
		db, ok := c15ParseDB(w[1], w[2], w[3], w[4])
		if !ok {
			return "bad-op", nil
		}
		if len(w) == 6 && !db.setGiven(w[5]) {
			return "bad-op", nil
		}
		if op == "rx" {
			return c15ExecRX(x, base, db)
		}
		return c15ExecS2(x, base, db)
	case "fw":
		if len(w) != 6 {
			return "bad-op", nil
		}
		db, ok := c15ParseDB(w[1], w[2], w[3], w[4])
		if !ok {
			return "bad-op", nil
		}
		var members [][2]int // (record, id attribute or -1)
		if w[5] != "_" {
			for _, m := range strings.Split(w[5], ",") {
				ab := strings.Split(m, ":")
				if len(ab) != 2 {
					return "bad-op", nil
				}
				i, e1 := strconv.Atoi(ab[0])
				j := -1
				var e2 error
				if ab[1] != "-" {
					j, e2 = strconv.Atoi(ab[1])
					if e2 != nil || j < 0 || strconv.Itoa(j) != ab[1] {
						return "bad-op", nil
					}
				}
				if e1 != nil || i < 0 || i >= len(db.refs) || strconv.Itoa(i) != ab[0] {
					return "bad-op", nil
				}
				members = append(members, [2]int{i, j})
			}
		}
		return c15ExecFW(x, base, db, members)
	}
	return "bad-op", nil
}

// the answer of the exhaustive search over the kept references, compared with what the command wrote on the query
func c15CheckAssigned(x *c15Ctx, op string, db *c15DB, q []byte, ps []c15Pair, rows [][]c15Pair, assigned, bmFile, count int, bestid float64) {
	wantD, wantSet := c15Brute(ps)
	if count != len(wantSet) {
		x.addf(op+".best-set", "obitag_match_count=%d, %d kept references %v are at the minimal distance %d", count, len(wantSet), c15Short(wantSet), wantD)
	}
	bmKept := -1
	for p, i := range db.kept {
		if i == bmFile {
			bmKept = p
		}
	}
	inSet := false
	bestIdent := 0.0
	for _, b := range wantSet {
		if b == bmKept {
			inSet = true
		}
		bestIdent = math.Max(bestIdent, float64(ps[b].lcs)/float64(ps[b].ali))
	}
	if !inSet {
		x.addf(op+".bestmatch-not-best", "obitag_bestmatch=r%d is not one of the kept references at minimal distance %d: %v (positions in the kept list)", bmFile, wantD, c15Short(wantSet))
	}
	if bestid != bestIdent {
		x.addf(op+".bestid", "obitag_bestid=%v, the largest identity among the references at minimal distance is %v", bestid, bestIdent)
	}
	for _, b := range wantSet {
		if !c15IsAnc(db.par, assigned, db.ktax[b]) {
			x.addf(op+".assigned-not-ancestor", "assigned taxon %d is not an ancestor-or-self of taxon %d of best reference r%d", assigned, db.ktax[b], db.kept[b])
		}
	}
	ok := true
	var tx []int
	for _, b := range wantSet {
		if wantD >= len(db.krefs[b]) {
			ok = false
		}
		for j := range db.krefs {
			if rows[b][j].dist() <= wantD {
				tx = append(tx, db.ktax[j])
			}
		}
	}
	if ok && bestIdent >= 0.5 {
		stat(op + ":exact-lca-checked")
		if want := c15LcaSet(db.par, tx); want != assigned {
			x.addf(op+".assigned-not-lca", "LCA of the taxa of the kept references within %d of a best reference: %d, assigned %d", wantD, want, assigned)
		}
	} else if ok && assigned != 1 {
		x.addf(op+".assigned-not-root", "identity of the best match %v < 0.5 but taxon %d assigned", bestIdent, assigned)
	}
	if assigned != 1 {
		stat(op + ":assigned-below-root")
	}
}

func c15ExecCL1(x *c15Ctx, base string, queries [][]byte, db *c15DB) (string, []Fail) {
	stat("op:cl1")
	db.stats("cl1")
	aug := base
	qps := make([][]c15Pair, len(queries))
	for i, q := range queries {
		var rd string
		qps[i], rd = x.row(q, db.krefs)
		aug += " | " + rd
	}
	rows := make([][]c15Pair, len(db.krefs))
	for b := range db.krefs {
		var rd string
		rows[b], rd = x.row(db.krefs[b], db.krefs)
		aug += " | " + rd
	}
	caseOverride = aug
	n, k := len(db.refs), len(db.kept)
	lastDropped := n > 0 && db.resolve(db.taxids[n-1]) < 0
	// ---- prediction with the real Identify on arrays built here
	predicted := ""
	if k == 0 {
		predicted = "panic" // references[o[0]] on the empty list
	} else {
		prs, pcounts := c15MakeRefs(db.krefs)
		ptaxa := make(obitax.TaxonSet, k+1)
		for i, t := range db.ktax {
			ptaxa[i], _ = db.tax.Taxon(t)
		}
		if lastDropped {
			ptaxa[k] = nil // taxa[j], err = taxo.Taxon(..) of the dropped record, never overwritten
		}
		if db.given != nil { // the stored indices travel with the records
			for p, i := range db.kept {
				if !db.given[i].isNil {
					c15SetStored(prs[p], db.given[i].m, 0)
				}
			}
			c15SpinCount, c15Spin, c15HookOn = 0, false, true
			log.SetLevel(log.DebugLevel)
		}
		pre := guardT(30*time.Second, func() string {
			for i, q := range queries {
				c15SpinCount = 0
				obitag.Identify(c15Seq(fmt.Sprintf("q%d", i), q), prs, pcounts, ptaxa, db.tax, false)
			}
			return ""
		})
		if db.given != nil {
			log.SetLevel(log.PanicLevel)
			c15HookOn = false
			if c15Spin {
				pre = "hang" // the selection loop of Identify repeats itself on a trusted stored index
			}
		}
		predicted = pre
	}
	rs := db.records()
	checkKept := func() {
		for p, i := range db.kept {
			if rs[p].Id() != fmt.Sprintf("r%d", i) {
				x.addf("cl1.kept-order", "after the set-up references[%d] is %s, the %d-th record with a known taxid is r%d", p, rs[p].Id(), p, i)
				break
			}
		}
	}
	if predicted != "" {
		stat("cl1:predicted-" + predicted + ":queries-not-pushed")
		if lastDropped && k > 0 && predicted == "panic" {
			stat("cl1:nil-taxon-after-last-kept:IndexSequence-panics")
		}
		// the set-up alone (no query): must not fail, compacts `references` in place
		pre := guardT(30*time.Second, func() string {
			out := obitag.CLIAssignTaxonomy(obiiter.IBatchOver("q", obiseq.BioSequenceSlice{}, 1), rs, db.tax)
			for out.Next() {
				out.Get()
			}
			return "ok"
		})
		if pre != "ok" {
			x.addf("cl1.setup."+pre, "set-up of CLIAssignTaxonomy without any query: %s", pre)
			return pre, x.fails
		}
		checkKept()
		return predicted, x.fails
	}
	qs := make(obiseq.BioSequenceSlice, len(queries))
	for i, q := range queries {
		qs[i] = c15Seq(fmt.Sprintf("q%d", i), q)
	}
	got := map[string]*obiseq.BioSequence{}
	res := guardT(60*time.Second, func() string {
		out := obitag.CLIAssignTaxonomy(obiiter.IBatchOver("q", qs, len(qs)), rs, db.tax)
		nrec := 0
		for out.Next() {
			for _, s := range out.Get().Slice() {
				got[s.Id()] = s
				nrec++
			}
		}
		if nrec != len(qs) || len(got) != len(qs) {
			return fmt.Sprintf("%d-sequences", nrec)
		}
		parts := make([]string, len(qs))
		for i := range qs {
			s := got[fmt.Sprintf("q%d", i)]
			if s == nil {
				return "missing-query"
			}
			bm, _ := s.GetStringAttribute("obitag_bestmatch")
			cnt, _ := s.GetIntAttribute("obitag_match_count")
			parts[i] = fmt.Sprintf("%d %s %d", s.Taxid(), c15IdxOf(bm), cnt)
		}
		return strings.Join(parts, " ; ")
	})
	if res == "panic" || res == "hang" || res == "fatal" {
		x.addf("cl1."+res, "CLIAssignTaxonomy / Identify: %s", res)
		return res, x.fails
	}
	if strings.HasSuffix(res, "-sequences") || res == "missing-query" {
		x.addf("cl1.output", "the iterator returned %s for %d queries", res, len(qs))
		return res, x.fails
	}
	checkKept()
	// glue pass: obitag TRUSTS a stored index. The assignment oracle is the property only when every stored index of a
	// kept record obeys the index statement on the kept list of THIS data base (the hypothesis of
	// cli_assign_stored_lossless_partial); otherwise only the search part is checked and the model (which trusts
	// the stored index as the code does) is the reference
	stale := false
	if db.given != nil {
		for p, i := range db.kept {
			if db.given[i].isNil {
				continue
			}
			stat("cl1:stored-index-on-kept-record")
			y := &c15Ctx{}
			c15CheckIndex(y, "stored", db.given[i].m, rows[p], db.ktax, db.par, len(db.krefs[p]))
			if len(y.fails) > 0 {
				stale = true
			}
		}
		if stale {
			stat("cl1:stale-stored-index:assignment-oracle-not-applied")
		} else {
			stat("cl1:stored-indices-all-valid:assignment-oracle-applied")
		}
	}
	for i, q := range queries {
		s := got[fmt.Sprintf("q%d", i)]
		bm, _ := s.GetStringAttribute("obitag_bestmatch")
		bmFile, _ := strconv.Atoi(c15IdxOf(bm))
		cnt, _ := s.GetIntAttribute("obitag_match_count")
		bestid, _ := s.GetFloatAttribute("obitag_bestid")
		if stale {
			y := &c15Ctx{}
			c15CheckAssigned(y, "cl1", db, q, qps[i], rows, s.Taxid(), bmFile, cnt, bestid)
			for _, f := range y.fails {
				if strings.HasPrefix(f.Sig, "cl1.assigned-") {
					stat("cl1:stale-stored-index:" + strings.TrimPrefix(f.Sig, "cl1.") + " (trusted, not a failure)")
				} else {
					x.addf(f.Sig, "%s", f.Text)
				}
			}
			continue
		}
		c15CheckAssigned(x, "cl1", db, q, qps[i], rows, s.Taxid(), bmFile, cnt, bestid)
	}
	for p, i := range db.kept { // the indices built lazily by Identify, on the arrays of the set-up
		if db.given != nil && !db.given[i].isNil {
			continue // a stored index is left as it is
		}
		if idx := rs[p].OBITagRefIndex(); idx != nil {
			stat("cl1:lazy-index-checked")
			c15CheckIndex(x, "cl1.index", idx, rows[p], db.ktax, db.par, len(db.krefs[p]))
		}
	}
	return res, x.fails
}

func c15Quiet(f func()) {
	old := os.Stderr
	if null, err := os.OpenFile(os.DevNull, os.O_WRONLY, 0); err == nil {
		os.Stderr = null
		defer func() { os.Stderr = old; null.Close() }()
	}
	f()
}

func c15ExecRX(x *c15Ctx, base string, db *c15DB) (string, []Fail) {
	stat("op:rx")
	db.stats("rx")
	if db.given != nil {
		all := len(db.kept) > 0
		for _, i := range db.kept {
			if db.given[i].isNil {
				all = false
			}
		}
		if all {
			stat("rx:every-kept-record-already-indexed")
		} else {
			stat("rx:some-records-already-indexed")
		}
	}
	aug := base
	rows := make([][]c15Pair, len(db.krefs))
	for b := range db.krefs {
		var rd string
		rows[b], rd = x.row(db.krefs[b], db.krefs)
		aug += " | " + rd
	}
	caseOverride = aug
	rs := db.records()
	idxOf := map[int]map[int]string{}
	var order []int
	dup := false
	res := guardT(60*time.Second, func() string {
		obifind.VerifSetFindOptions(db.tax, nil, "")
		var out obiiter.IBioSequence
		c15Quiet(func() {
			out = obirefidx.IndexReferenceDB(obiiter.IBatchOver("db", rs, 3))
			for out.Next() {
				for _, s := range out.Get().Slice() {
					i, err := strconv.Atoi(c15IdxOf(s.Id()))
					if err != nil {
						i = -1
					}
					if _, seen := idxOf[i]; seen {
						dup = true
					}
					idxOf[i] = s.OBITagRefIndex()
					order = append(order, i)
				}
			}
		})
		if len(order) == 0 {
			return "none"
		}
		keys := append([]int{}, order...)
		sort.Ints(keys)
		parts := make([]string, len(keys))
		for p, i := range keys {
			parts[p] = fmt.Sprintf("r%d %s", i, c15ShowIndex(x, idxOf[i], db.par))
		}
		return strings.Join(parts, " ; ")
	})
	if res == "panic" || res == "hang" || res == "fatal" {
		x.addf("rx."+res, "IndexReferenceDB: %s", res)
		return res, x.fails
	}
	if dup || len(order) != len(db.kept) {
		x.addf("rx.kept-set", "IndexReferenceDB wrote records %v, the records with a known taxid are %v", c15Short(order), c15Short(db.kept))
		return res, x.fails
	}
	if !sort.IntsAreSorted(order) {
		stat("rx:output-not-in-file-order")
	}
	for p, i := range db.kept {
		idx, ok := idxOf[i]
		if !ok {
			x.addf("rx.kept-set", "record r%d has a known taxid and is missing from the output %v", i, c15Short(order))
			continue
		}
		c15CheckIndex(x, "rx.index", idx, rows[p], db.ktax, db.par, len(db.krefs[p]))
	}
	return res, x.fails
}

func c15ExecS2(x *c15Ctx, base string, db *c15DB) (string, []Fail) {
	stat("op:s2")
	db.stats("s2")
	rs := db.records()
	res := guardT(30*time.Second, func() string {
		out := obitag2.CLIAssignTaxonomy(obiiter.IBatchOver("q", obiseq.BioSequenceSlice{}, 1), rs, db.tax)
		for out.Next() {
			out.Get()
		}
		return "ok"
	})
	stat("s2:" + res)
	for i := range rs { // nothing is dropped, nothing is moved
		if rs[i].Id() != fmt.Sprintf("r%d", i) {
			x.addf("s2.moved", "references[%d] is %s after the set-up", i, rs[i].Id())
			break
		}
	}
	return res, x.fails
}

func c15ExecFW(x *c15Ctx, base string, db *c15DB, members [][2]int) (string, []Fail) {
	stat("op:fw")
	full := db.records()
	kmers := make([]*obikmer.Table4mer, len(full))
	for i, s := range full { // as IndexFamilyDB does
		kmers[i] = obikmer.Count4Mer(s, nil, nil)
	}
	seqs := make(obiseq.BioSequenceSlice, len(members))
	mrefs := make([][]byte, len(members))
	mtax := make([]int, len(members))
	aligned, unknown, setup := true, false, ""
	for p, m := range members {
		seqs[p] = c15Seq(fmt.Sprintf("r%d", m[0]), db.refs[m[0]])
		if db.taxids[m[0]] != 0 {
			seqs[p].SetTaxid(db.taxids[m[0]])
		}
		if m[1] >= 0 {
			seqs[p].SetAttribute("reffamidx_id", m[1])
		}
		mrefs[p] = db.refs[m[0]]
		mtax[p] = db.resolve(db.taxids[m[0]])
		if mtax[p] < 0 {
			unknown = true
		}
		if m[1] != m[0] {
			aligned = false
		}
		if setup == "" {
			if m[1] < 0 {
				setup = "err"
			} else if m[1] >= len(full) {
				setup = "panic"
			}
		}
	}
	// sections: the candidate order of each member, from the tables fetched through the id attribute
	aug := base
	if setup == "" && !unknown {
		for b := range members {
			cw := make([]int, len(members))
			for i := range members {
				cw[i] = obikmer.Common4Mer(kmers[members[b][1]], kmers[members[i][1]])
			}
			aug += " | " + c15Ints(c15Order(cw))
		}
	}
	caseOverride = aug
	if setup == "" && unknown && len(members) > 0 {
		// taxa[i] is nil: IndexSequence ends in log.Panicf inside a goroutine of the worker
		stat("fw:predicted-panic:nil-taxon:not-run")
		// observed on the real IndexSequence, called here (a panic in this goroutine is recovered) on the arrays the
		// worker builds: kmercounts[i] = (*kmers)[j], taxa[i] = nil for an unknown taxid
		kc := make([]*obikmer.Table4mer, len(members))
		ta := make(obitax.TaxonSet, len(members))
		for p, m := range members {
			kc[p] = kmers[m[1]]
			ta[p], _ = db.tax.Taxon(seqs[p].Taxid())
		}
		if obs := guardT(20*time.Second, func() string {
			obirefidx.IndexSequence(0, seqs, &kc, &ta, db.tax)
			return "ok"
		}); obs != "panic" {
			x.addf("fw.prediction", "IndexSequence on a map holding a nil taxon: %s, predicted panic", obs)
		}
		return "panic", x.fails
	}
	if !aligned {
		stat("fw:tables-misaligned-on-purpose")
	}
	res := guardT(60*time.Second, func() string {
		worker := obirefidx.MakeIndexingSliceWorker("reffamidx_in", "reffamidx_id", &kmers, db.tax)
		out, err := worker(seqs)
		if err != nil {
			return "err"
		}
		if len(out) == 0 {
			return "none"
		}
		parts := make([]string, len(out))
		for p, s := range out {
			v, _ := s.GetAttribute("reffamidx_in")
			idx, _ := v.(map[int]string)
			parts[p] = c15ShowIndex(x, idx, db.par)
		}
		return strings.Join(parts, " ; ")
	})
	if res == "err" || res == "panic" || res == "none" || res == "hang" || res == "fatal" {
		stat("fw:" + res)
	} else {
		stat("fw:indexed")
	}
	if res == "hang" || res == "fatal" || (res == "panic" && setup != "panic") || (res == "err" && setup != "err") {
		x.addf("fw."+res, "MakeIndexingSliceWorker: %s", res)
		return res, x.fails
	}
	if aligned && setup == "" && !unknown && len(members) > 0 {
		stat("fw:aligned:index-statement-checked")
		for p, s := range seqs {
			v, _ := s.GetAttribute("reffamidx_in")
			idx, _ := v.(map[int]string)
			ps := make([]c15Pair, len(members))
			for i := range members {
				ps[i] = x.measure(mrefs[p], mrefs[i], false)
			}
			c15CheckIndex(x, "fw.index", idx, ps, mtax, db.par, len(mrefs[p]))
		}
	}
	return res, x.fails
}

// ---------------------------------------------------------------------------------------------
// generator (its own PRNG: the draws of the older cases are unchanged)

func c15SeedArg() int64 {
	for i, a := range os.Args {
		if (a == "-seed" || a == "--seed") && i+1 < len(os.Args) {
			if v, err := strconv.ParseInt(os.Args[i+1], 10, 64); err == nil {
				return v
			}
		}
	}
	return 0
}

func c15GenSetup(tier string, emit func(string)) {
	rng := rand.New(rand.NewSource(c15SeedArg()*7919 + 1504))
	g := &c15Gen{rng}
	T := "1:1,10:1,20:10,21:10,100:20,101:20,110:21,11:1,30:11,300:30,301:30"
	// ---- corpus: the data base of seeded/C15-m5 (R1 carries a taxid unknown to the taxonomy: dropped; the true best
	// R3 of the queries comes after it in the file, its predecessor R2 is unrelated, R4 / R7 are close)
	{
		cg := &c15Gen{rand.New(rand.NewSource(20150515))}
		L := 80
		sub := func(s []byte, pos ...int) []byte {
			b := append([]byte{}, s...)
			for _, p := range pos {
				b[p] = map[byte]byte{'a': 'c', 'c': 'g', 'g': 't', 't': 'a'}[b[p]]
			}
			return b
		}
		target := cg.word(L, "acgt")
		near := sub(target, 20, 60)
		twin := sub(target, 40)
		r0, r1, r2 := cg.word(L, "acgt"), cg.word(L, "acgt"), cg.word(L, "acgt")
		r5, r6, r8 := cg.word(L, "acgt"), cg.word(L+7, "acgt"), cg.word(L-5, "acgt")
		refs := [][]byte{r0, r1, r2, target, near, r5, r6, twin, r8}
		queries := [][]byte{target, sub(target, 5), sub(target, 40, 70), append(append([]byte{}, target[:30]...), target[31:]...),
			sub(r5, 3, 33, 66), append(append(append([]byte{}, target[:50]...), 'a'), target[50:]...), sub(near, 10), sub(r0, 11, 12, 13)}
		for _, orphan := range []int{999, 300, 0, 777} { // unknown; known (control); no taxid attribute; alias of 300
			tx := []int{300, orphan, 301, 100, 110, 300, 301, 101, 300}
			emit(fmt.Sprintf("cl1 %s %s %s %s 777:300", c15List(queries), c15List(refs), c15Ints(tx), T))
			emit(fmt.Sprintf("rx %s %s %s 777:300", c15List(refs), c15Ints(tx), T))
		}
		// the unknown taxid first / several consecutive / last (nil taxon left in the map: IndexSequence panics) / every record
		for _, tx := range [][]int{
			{999, 300, 301, 100, 110, 300, 301, 101, 300},
			{300, 999, 998, 997, 110, 300, 301, 101, 300},
			{300, 999, 301, 100, 110, 999, 301, 101, 998},
			{300, 300, 301, 100, 110, 300, 301, 101, 999},
			{999, 998, 997, 996, 995, 994, 993, 992, 991},
		} {
			emit(fmt.Sprintf("cl1 %s %s %s %s _", c15List(queries[:4]), c15List(refs), c15Ints(tx), T))
			emit(fmt.Sprintf("rx %s %s %s _", c15List(refs), c15Ints(tx), T))
			emit(fmt.Sprintf("s2 %s %s %s _", c15List(refs), c15Ints(tx), T))
		}
		// last record dropped, but the query is far from everything (identity < 0.5): IndexSequence is not called
		emit(fmt.Sprintf("cl1 %s %s %s %s _", hx(cg.word(40, "a")), c15List(refs[:3]), "300,301,999", T))
	}
	// small hand-made data bases: duplicates, sequences shorter than 4 bases, empty data base
	A, B, C := c15Hex("acgtacgtac"), c15Hex("acgtacgtaa"), c15Hex("ttgcattgca")
	for _, c := range []string{
		"cl1 " + A + " _ _ " + T + " _",
		"cl1 " + A + " " + A + " 999 " + T + " _",
		"cl1 " + A + "," + B + " " + A + "," + A + "," + B + " 100,999,101 " + T + " _",
		"cl1 " + A + "," + B + " " + A + "," + A + "," + B + " 999,100,101 " + T + " _",
		"cl1 " + A + " " + A + "," + B + "," + C + " 100,101,999 " + T + " _", // last dropped, close query: panic
		"cl1 " + c15Hex("acg") + "," + c15Hex("a") + " " + c15Hex("ac") + "," + c15Hex("acg") + "," + c15Hex("t") + "," + c15Hex("acgt") + " 100,999,0,555 " + T + " 555:101",
		"cl1 " + A + " " + A + "," + B + " 555,556 " + T + " 555:100,556:999", // alias of an unknown taxon: refused
		"rx _ _ " + T + " _",
		"rx " + A + " 999 " + T + " _",
		"rx " + A + "," + A + "," + B + "," + c15Hex("ac") + " 100,999,101,0 " + T + " _",
		"s2 _ _ " + T + " _",
		"s2 " + A + "," + B + " 999,100 " + T + " _",         // a nil taxon in the exact-match table, no panic at set-up
		"s2 " + A + "," + A + " 999,100 " + T + " _",         // LCA of a nil taxon: log.Panicf
		"s2 " + A + "," + B + "," + A + " 100,999,101 " + T + " _", // duplicates all known
		"s2 " + A + "," + B + "," + B + " 100,101,999 " + T + " _",
		"fw " + A + "," + B + "," + C + " 100,101,300 " + T + " _ 0:0,1:1,2:2",
		"fw " + A + "," + B + "," + C + " 100,101,300 " + T + " _ 2:2,0:0",
		"fw " + A + "," + B + "," + C + " 100,101,300 " + T + " _ 2:0,0:2,1:1", // tables of other records
		"fw " + A + "," + B + "," + C + " 100,101,300 " + T + " _ 0:0,1:-",
		"fw " + A + "," + B + "," + C + " 100,101,300 " + T + " _ 0:0,1:7,2:-",
		"fw " + A + "," + B + "," + C + " 100,999,300 " + T + " _ 0:0,1:1",
		"fw " + A + "," + B + "," + C + " 100,999,300 " + T + " _ _",
	} {
		emit(c)
	}
	// ---- random data bases
	n := 260
	if tier == "thorough" {
		n = 450
	}
	for it := 0; it < n; it++ {
		L := 24 + rng.Intn(70)
		base := g.word(L, "acgt")
		nref := 2 + rng.Intn(11)
		refs := make([][]byte, nref)
		for i := range refs {
			switch rng.Intn(8) {
			case 0, 1, 2:
				refs[i] = g.word(max(1, L-5+rng.Intn(11)), "acgt") // unrelated
			case 3, 4:
				refs[i] = g.spreadSubs(base, 1+rng.Intn(3))
			case 5:
				refs[i] = g.randEdits(base, 1+rng.Intn(4))
			case 6:
				if i > 0 {
					refs[i] = append([]byte{}, refs[rng.Intn(i)]...) // duplicate
				} else {
					refs[i] = append([]byte{}, base...)
				}
			default:
				refs[i] = append([]byte{}, base...)
			}
			if len(refs[i]) == 0 {
				refs[i] = []byte("a")
			}
		}
		if rng.Intn(25) == 0 {
			refs[rng.Intn(nref)] = g.word(1+rng.Intn(3), "acgt") // shorter than 4 bases
		}
		t := g.taxo(2 + rng.Intn(10))
		tx := g.taxids(t, nref)
		// taxids absent from the taxonomy / records without attribute / aliases
		var alias [][2]int
		unknownAt := func(i int) { tx[i] = 900 + rng.Intn(60) }
		switch rng.Intn(20) {
		case 0, 1: // all known (control)
		case 2, 3:
			unknownAt(0)
		case 4:
			unknownAt(nref - 1)
		case 5, 6, 7:
			s := rng.Intn(nref)
			for i := s; i < min(nref, s+2+rng.Intn(2)); i++ {
				unknownAt(i)
			}
		case 8:
			if rng.Intn(3) == 0 {
				for i := range tx {
					unknownAt(i)
				}
			}
		default:
			for i := range tx {
				if rng.Intn(4) == 0 && i+1 < nref {
					unknownAt(i)
				}
			}
			if rng.Intn(12) == 0 {
				unknownAt(nref - 1)
			}
		}
		for i := range tx {
			switch rng.Intn(14) {
			case 0:
				tx[i] = 0
			case 1:
				old := 800 + len(alias)
				tgt := t[rng.Intn(len(t))][0]
				if rng.Intn(8) == 0 {
					tgt = 990 // alias of an unknown taxon: refused by AddNewAlias
				}
				alias = append(alias, [2]int{old, tgt})
				tx[i] = old
			}
		}
		al := c15Taxo(alias)
		// queries: variants of a reference (preferably one located AFTER a dropped record), of the base, unrelated
		nq := 1 + rng.Intn(3)
		queries := make([][]byte, nq)
		for i := range queries {
			var q []byte
			switch rng.Intn(6) {
			case 0:
				q = g.spreadSubs(base, rng.Intn(4))
			case 1:
				q = g.word(L, "acgt")
			default:
				k := rng.Intn(nref)
				switch rng.Intn(3) {
				case 0:
					q = append([]byte{}, refs[k]...)
				case 1:
					q = g.spreadSubs(refs[k], 1+rng.Intn(2))
				default:
					q = g.randEdits(refs[k], 1+rng.Intn(2))
				}
			}
			if len(q) == 0 {
				q = []byte("c")
			}
			queries[i] = q
		}
		switch r := rng.Intn(20); {
		case r < 11:
			emit(fmt.Sprintf("cl1 %s %s %s %s %s", c15List(queries), c15List(refs), c15Ints(tx), c15Taxo(t), al))
		case r < 15:
			emit(fmt.Sprintf("rx %s %s %s %s", c15List(refs), c15Ints(tx), c15Taxo(t), al))
		case r < 17:
			emit(fmt.Sprintf("s2 %s %s %s %s", c15List(refs), c15Ints(tx), c15Taxo(t), al))
		default:
			// the slice worker on a shuffled subset; mostly aligned ids, sometimes the table of another record,
			// a missing attribute, an id out of range; unknown taxids only sometimes (predicted panic)
			if rng.Intn(4) > 0 {
				for i := range tx {
					if tx[i] >= 900 {
						tx[i] = t[rng.Intn(len(t))][0]
					}
				}
			}
			perm := rng.Perm(nref)[:1+rng.Intn(nref)]
			ms := make([]string, len(perm))
			mode := rng.Intn(8)
			for p, i := range perm {
				j := strconv.Itoa(i)
				switch {
				case mode == 0 && rng.Intn(3) == 0:
					j = strconv.Itoa(rng.Intn(nref))
				case mode == 1 && rng.Intn(4) == 0:
					j = "-"
				case mode == 2 && rng.Intn(4) == 0:
					j = strconv.Itoa(nref + rng.Intn(3))
				}
				ms[p] = fmt.Sprintf("%d:%s", i, j)
			}
			emit(fmt.Sprintf("fw %s %s %s %s %s", c15List(refs), c15Ints(tx), c15Taxo(t), al, strings.Join(ms, ",")))
		}
	}
	c15GenStored(tier, emit)
}
