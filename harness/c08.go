//go:build c08

package main

// C08 — paired-end assembly: valid path, optimal score, correct consensus.
//
// Case lines (bytes in hex, "-" = empty):
//
//	pe <fast> <rel> <delta> <gi> <si> <minov> <idn> <idd> <A> <QA> <B> <QB> [F=<frag>:<a0>:<b0>]
//	pl ... same fields (reads longer than c08Small: the model replays the real path instead of running the DP)
//	cons <A> <QA> <B> <QB> <path csv>
//	fm <side 1=left 0=right> <gi> <si> <A> <QA> <B> <QB>   one fill + backtracking, both flat matrices compared
//	bt <la> <lb> <cap> <flat path matrix csv>   _Backtracking alone on an arbitrary (valid) path matrix, path buffer of capacity cap
//
// Exec appends, after " | ", the data the Lean model takes as parameters (§3.4 of DESIGN.md: floats are
// never modelled): the integer gap penalty, the 94-entry mismatch quality adjustment table and the
// per-cell scores produced by the real scoring function (pe), or the real path and the scores of its
// diagonal columns (pl). Everything after " | " is ignored when a line is replayed.

import (
	"fmt"
	"math"
	"math/rand"
	"os"
	"sort"
	"strconv"
	"strings"
	"sync"
	"time"

	"git.metabarcoding.org/obitools/obitools4/obitools4/pkg/obialign"
	"git.metabarcoding.org/obitools/obitools4/obitools4/pkg/obiiter"
	"git.metabarcoding.org/obitools/obitools4/obitools4/pkg/obioptions"
	"git.metabarcoding.org/obitools/obitools4/obitools4/pkg/obikmer"
	"git.metabarcoding.org/obitools/obitools4/obitools4/pkg/obiseq"
	"git.metabarcoding.org/obitools/obitools4/obitools4/pkg/obitools/obipairing"
)

type c08 struct{}

func init() { props["C08"] = c08{} }

const c08Small = 40

var c08Debug = os.Getenv("C08_DEBUG") != ""

var c08Gaps = []float64{2.0, 1.0, 0.5, 3.0, 0.0}
var c08Scales = []float64{1.0, 0.5, 1.5}

// the arena and the shift map are shared by all cases of a run, as one obipairing worker does
var c08Arena = obialign.MakePEAlignArena(150, 150)
var c08Shifts = map[int]int{}

// ---------------------------------------------------------------------------------------------
// generator

const c08Iupac = "rymkswbdhvn"

type c08Gen struct {
	rng  *rand.Rand
	emit func(string)
}

func (g *c08Gen) frag(n int, kind int) []byte {
	f := make([]byte, n)
	switch kind {
	case 0: // random
		for i := range f {
			f[i] = "acgt"[g.rng.Intn(4)]
		}
	case 1: // two-letter alphabet: many ties between diagonals
		for i := range f {
			f[i] = "at"[g.rng.Intn(2)]
		}
	case 2: // homopolymer
		b := "acgt"[g.rng.Intn(4)]
		for i := range f {
			f[i] = b
		}
	case 3: // short tandem repeat
		p := 1 + g.rng.Intn(6)
		u := make([]byte, p)
		for i := range u {
			u[i] = "acgt"[g.rng.Intn(4)]
		}
		for i := range f {
			f[i] = u[i%p]
		}
	}
	return f
}

func (g *c08Gen) quals(n int) []byte {
	q := make([]byte, n)
	switch g.rng.Intn(7) {
	case 6: // the extremes of the table
		for i := range q {
			q[i] = []byte{0, 1, 40, 93}[g.rng.Intn(4)]
		}
	case 0:
		for i := range q {
			q[i] = 40
		}
	case 1:
		for i := range q {
			q[i] = byte(g.rng.Intn(94))
		}
	case 2: // decaying towards the 3' end
		for i := range q {
			v := 41 - (i*41)/(n+1) + g.rng.Intn(5) - 2
			if v < 0 {
				v = 0
			}
			q[i] = byte(v)
		}
	case 3: // few distinct values: many quality ties
		for i := range q {
			q[i] = []byte{0, 1, 20, 20, 30, 93}[g.rng.Intn(6)]
		}
	case 4:
		for i := range q {
			q[i] = byte(30 + g.rng.Intn(12))
		}
	default:
		for i := range q {
			q[i] = 0
		}
		if g.rng.Intn(2) == 0 {
			for i := range q {
				q[i] = byte(g.rng.Intn(3))
			}
		}
	}
	return q
}

// mutate injects substitutions, indels and IUPAC symbols
func (g *c08Gen) mutate(s []byte, psub, pindel, piupac float64) []byte {
	out := make([]byte, 0, len(s)+4)
	for _, b := range s {
		r := g.rng.Float64()
		switch {
		case r < psub:
			out = append(out, "acgt"[g.rng.Intn(4)])
		case r < psub+pindel/2:
			// deletion
		case r < psub+pindel:
			out = append(out, b, "acgt"[g.rng.Intn(4)])
		case r < psub+pindel+piupac:
			out = append(out, c08Iupac[g.rng.Intn(len(c08Iupac))])
		default:
			out = append(out, b)
		}
	}
	return out
}

func (g *c08Gen) settings() (fast, rel, delta, gi, si, minov, idn, idd int) {
	fast = g.rng.Intn(2)
	rel = g.rng.Intn(2)
	delta = []int{0, 1, 5}[g.rng.Intn(3)]
	if g.rng.Intn(3) > 0 {
		gi, si = 0, 0
	} else {
		gi, si = g.rng.Intn(len(c08Gaps)), g.rng.Intn(len(c08Scales))
	}
	minov = []int{20, 1, 4, 10, 0}[g.rng.Intn(5)]
	switch g.rng.Intn(4) {
	case 0:
		idn, idd = 9, 10
	case 1:
		idn, idd = 0, 1
	case 2:
		idn, idd = 1, 1
	default:
		idn, idd = 1+g.rng.Intn(9), 10
	}
	return
}

func c08Line(fast, rel, delta, gi, si, minov, idn, idd int, A, QA, B, QB []byte, F []byte, a0, b0 int) string {
	op := "pe"
	if len(A) > c08Small || len(B) > c08Small {
		op = "pl"
	}
	s := fmt.Sprintf("%s %d %d %d %d %d %d %d %d %s %s %s %s", op, fast, rel, delta, gi, si, minov, idn, idd,
		hx(A), hx(QA), hx(B), hx(QB))
	if F != nil {
		s += fmt.Sprintf(" F=%s:%d:%d", hx(F), a0, b0)
	}
	return s
}

// pair draws one read pair cut from a fragment with the given geometry.
func (g *c08Gen) pair(maxLen int) {
	rng := g.rng
	kind := 0
	if rng.Intn(5) == 0 {
		kind = 1 + rng.Intn(3)
	}
	rl := func() int {
		switch rng.Intn(8) {
		case 0:
			return 1 + rng.Intn(4)
		case 1:
			return maxLen - rng.Intn(3)
		default:
			return 1 + rng.Intn(maxLen)
		}
	}
	la, lb := rl(), rl()
	if la < 1 {
		la = 1
	}
	if lb < 1 {
		lb = 1
	}
	var a0, b0 int
	geo := rng.Intn(9)
	switch geo {
	case 0: // standard: A first, B ends last, random overlap >= 1
		ov := 1 + rng.Intn(min(la, lb))
		a0, b0 = 0, la-ov
	case 1: // B contained in A
		if lb > la {
			la, lb = lb, la
		}
		a0, b0 = 0, rng.Intn(la-lb+1)
	case 2: // A contained in B
		if la > lb {
			la, lb = lb, la
		}
		b0, a0 = 0, rng.Intn(lb-la+1)
	case 3: // identical starts
		a0, b0 = 0, 0
	case 4: // overlap shorter than a 4-mer
		ov := 1 + rng.Intn(min(3, min(la, lb)))
		a0, b0 = 0, la-ov
	case 5: // no overlap (abutting or separated)
		a0, b0 = 0, la+rng.Intn(5)
	case 6: // B first (reads swapped): right alignment
		ov := 1 + rng.Intn(min(la, lb))
		b0, a0 = 0, lb-ov
	case 7: // identical ends
		if la >= lb {
			a0, b0 = 0, la-lb
		} else {
			b0, a0 = 0, lb-la
		}
	default: // long overlap, the usual amplicon case
		ov := min(la, lb) - rng.Intn(1+min(la, lb)/4)
		if ov < 1 {
			ov = 1
		}
		a0, b0 = 0, la-ov
	}
	L := max(a0+la, b0+lb)
	F := g.frag(L, kind)
	A := append([]byte(nil), F[a0:a0+la]...)
	B := append([]byte(nil), F[b0:b0+lb]...)
	withF := true
	if rng.Intn(2) == 0 { // sequencing errors
		psub := []float64{0, 0.02, 0.1, 0.3}[rng.Intn(4)]
		pind := []float64{0, 0, 0.02, 0.1}[rng.Intn(4)]
		piu := []float64{0, 0, 0.03, 0.2}[rng.Intn(4)]
		A = g.mutate(A, psub, pind, piu)
		B = g.mutate(B, psub, pind, piu)
		if len(A) == 0 {
			A = []byte{'a'}
		}
		if len(B) == 0 {
			B = []byte{'c'}
		}
		if len(A) > 300 {
			A = A[:300]
		}
		if len(B) > 300 {
			B = B[:300]
		}
	}
	if rng.Intn(12) == 0 { // unrelated reads
		B = g.frag(len(B), 0)
		withF = false
	}
	fast, rel, delta, gi, si, minov, idn, idd := g.settings()
	var Fp []byte
	if withF {
		Fp = F
	}
	g.emit(c08Line(fast, rel, delta, gi, si, minov, idn, idd, A, g.quals(len(A)), B, g.quals(len(B)), Fp, a0, b0))
}

// randPath draws a random path consuming (la, lb) exactly, in the run-length (indel, diag) encoding,
// including shapes the aligner rarely produces: leading run of either sign, adjacent indel runs of
// opposite signs, (0,0) pairs.
func (g *c08Gen) randPath(la, lb int) []int {
	rng := g.rng
	var p []int
	i, j := 0, 0
	for i < la || j < lb {
		ind := 0
		switch rng.Intn(4) {
		case 0:
			if i < la {
				ind = -(1 + rng.Intn(min(3, la-i)))
			}
		case 1:
			if j < lb {
				ind = 1 + rng.Intn(min(3, lb-j))
			}
		}
		if ind < 0 {
			i -= ind
		} else {
			j += ind
		}
		d := 0
		if m := min(la-i, lb-j); m > 0 && rng.Intn(4) > 0 {
			d = 1 + rng.Intn(m)
		}
		i += d
		j += d
		if ind == 0 && d == 0 {
			if i == la && j < lb {
				ind = lb - j
				j = lb
			} else if j == lb && i < la {
				ind = -(la - i)
				i = la
			} else if rng.Intn(3) > 0 {
				continue
			}
		}
		p = append(p, ind, d)
	}
	if len(p) == 0 {
		p = []int{0, 0}
	}
	return p
}

func c08PathStr(p []int) string {
	if len(p) == 0 {
		return "-"
	}
	s := make([]string, len(p))
	for i, x := range p {
		s[i] = strconv.Itoa(x)
	}
	return strings.Join(s, ",")
}

func (c08) Gen(rng *rand.Rand, tier string, emit func(string)) {
	g := &c08Gen{rng: rng, emit: emit}
	q := func(n int, v byte) []byte {
		r := make([]byte, n)
		for i := range r {
			r[i] = v
		}
		return r
	}
	// ---- corpus of hand-picked cases
	frag := []byte("acgtacgatcgatcgtagctagctagcatcgatgcatgcaagtcgatgcatgcgatatcgcgatagc")
	for _, fast := range []int{0, 1} {
		for _, rel := range []int{0, 1} {
			for _, delta := range []int{0, 1, 5} {
				// standard overlap of 20, error free
				emit(c08Line(fast, rel, delta, 0, 0, 20, 9, 10, frag[0:40], q(40, 40), frag[20:60], q(40, 40), frag[0:60], 0, 20))
				// B contained in A, A contained in B, identical reads, identical starts
				emit(c08Line(fast, rel, delta, 0, 0, 10, 9, 10, frag[0:40], q(40, 40), frag[10:30], q(20, 40), frag[0:40], 0, 10))
				emit(c08Line(fast, rel, delta, 0, 0, 10, 9, 10, frag[10:30], q(20, 40), frag[0:40], q(40, 40), frag[0:40], 10, 0))
				emit(c08Line(fast, rel, delta, 0, 0, 10, 9, 10, frag[0:30], q(30, 40), frag[0:30], q(30, 30), frag[0:30], 0, 0))
				emit(c08Line(fast, rel, delta, 0, 0, 10, 9, 10, frag[0:20], q(20, 40), frag[0:35], q(35, 30), frag[0:35], 0, 0))
				// overlap of 3, of 1, none
				emit(c08Line(fast, rel, delta, 0, 0, 1, 9, 10, frag[0:20], q(20, 40), frag[17:40], q(23, 40), frag[0:40], 0, 17))
				emit(c08Line(fast, rel, delta, 0, 0, 1, 9, 10, frag[0:20], q(20, 40), frag[19:40], q(21, 40), frag[0:40], 0, 19))
				emit(c08Line(fast, rel, delta, 0, 0, 1, 9, 10, frag[0:20], q(20, 40), frag[25:40], q(15, 40), nil, 0, 0))
				// reads shorter than a 4-mer
				emit(c08Line(fast, rel, delta, 0, 0, 1, 0, 1, []byte("a"), q(1, 40), []byte("a"), q(1, 40), nil, 0, 0))
				emit(c08Line(fast, rel, delta, 0, 0, 1, 0, 1, []byte("a"), q(1, 40), []byte("acg"), q(3, 40), nil, 0, 0))
				emit(c08Line(fast, rel, delta, 0, 0, 1, 0, 1, []byte("acg"), q(3, 40), []byte("a"), q(1, 40), nil, 0, 0))
				emit(c08Line(fast, rel, delta, 0, 0, 1, 0, 1, []byte("acgtac"), q(6, 40), []byte("tac"), q(3, 40), nil, 0, 0))
				emit(c08Line(fast, rel, delta, 0, 0, 1, 0, 1, []byte("ac"), q(2, 40), []byte("acgtacgt"), q(8, 40), nil, 0, 0))
			}
		}
	}
	// D11: exact mode on an error-free pair (score must be the optimum, not 0)
	emit(c08Line(0, 1, 5, 0, 0, 20, 9, 10, frag[0:40], q(40, 40), frag[15:55], q(40, 40), frag[0:55], 0, 15))
	// 4-mer identical but IUPAC-different overlaps (fast mode "identical" branch)
	emit(c08Line(1, 1, 5, 0, 0, 4, 0, 1, []byte("ggacgtnacgt"), q(11, 40), []byte("acgtaacgtcc"), q(11, 40), nil, 0, 0))
	emit(c08Line(1, 0, 0, 0, 0, 4, 0, 1, []byte("acgtracgt"), q(9, 30), []byte("acgtaacgt"), q(9, 35), nil, 0, 0))
	// low-complexity reads: ties between diagonals
	emit(c08Line(1, 1, 0, 0, 0, 4, 0, 1, q(30, 'a'), q(30, 40), q(25, 'a'), q(25, 40), nil, 0, 0))
	emit(c08Line(0, 1, 0, 0, 0, 4, 0, 1, q(30, 'a'), q(30, 40), q(25, 'a'), q(25, 40), nil, 0, 0))
	emit(c08Line(1, 0, 1, 0, 0, 4, 0, 1, []byte("atatatatatatatatat"), q(18, 40), []byte("tatatatatatatata"), q(16, 40), nil, 0, 0))
	// D12 witnesses found by the search (kept): fast mode, local alignment beginning / ending with the other gap
	for _, l := range c08Witnesses {
		emit(l)
	}
	// consensus on explicit paths
	emit("cons 61636774 28282828 61636774 28282828 0,4")
	emit("cons 61636774 28281428 61676774 28282828 0,4")
	emit("cons 61636774 28282828 61746774 28282828 0,4")
	emit("cons 61636774 28282828 6e746774 28282828 -1,3,1,0")
	emit("cons 61636774 00000000 61746774 00000000 -2,2,2,0")
	emit("cons 61636774 28282828 61746774 28282828 2,2,-2,0")
	emit("cons 61636774 5d5d5d5d 61746774 5d5d5d5d 0,4")

	// ---- quality / base boundary cases of the consensus column rule
	syms := []byte("acgtrymkswbdhvn")
	for _, x := range syms {
		for _, qx := range []byte{0, 1, 2, 90, 91, 93} {
			// x opposite a gap: internal (gap in B / gap in A), leading, trailing
			emit(fmt.Sprintf("cons %s %s %s %s 0,1,-1,1", hx([]byte{'g', x, 'c'}), hx([]byte{40, qx, 40}), hx([]byte("gc")), hx(q(2, 40))))
			emit(fmt.Sprintf("cons %s %s %s %s 0,1,1,1", hx([]byte("gc")), hx(q(2, 40)), hx([]byte{'g', x, 'c'}), hx([]byte{40, qx, 40})))
			emit(fmt.Sprintf("cons %s %s %s %s -1,2", hx([]byte{x, 'a', 'c'}), hx([]byte{qx, 40, 40}), hx([]byte("ac")), hx(q(2, 40))))
			emit(fmt.Sprintf("cons %s %s %s %s 0,2,1,0", hx([]byte("ac")), hx(q(2, 40)), hx([]byte{'a', 'c', x}), hx([]byte{40, 40, qx})))
			emit(fmt.Sprintf("cons %s %s %s %s 1,2", hx([]byte("ac")), hx(q(2, 40)), hx([]byte{x, 'a', 'c'}), hx([]byte{qx, 40, 40})))
			emit(fmt.Sprintf("cons %s %s %s %s 0,2,-1,0", hx([]byte{'a', 'c', x}), hx([]byte{40, 40, qx}), hx([]byte("ac")), hx(q(2, 40))))
		}
	}
	// every ordered pair of symbols at equal qualities (IUPAC union), with the stale qM/qm taken from
	// nothing (first column), from an unequal column, from a gap column
	for rot := 0; rot < len(syms); rot++ {
		rs := append(append([]byte{}, syms[rot:]...), syms[:rot]...)
		for _, qv := range []byte{0, 1, 40, 93} {
			emit(fmt.Sprintf("cons %s %s %s %s 0,%d", hx(syms), hx(q(15, qv)), hx(rs), hx(q(15, qv)), len(syms)))
			qa2 := append([]byte{50}, q(15, qv)...)
			qb2 := append([]byte{10}, q(15, qv)...)
			emit(fmt.Sprintf("cons %s %s %s %s 0,%d", hx(append([]byte{'a'}, syms...)), hx(qa2), hx(append([]byte{'c'}, rs...)), hx(qb2), len(syms)+1))
			emit(fmt.Sprintf("cons %s %s %s %s -1,%d", hx(append([]byte{'a'}, syms...)), hx(qa2), hx(rs), hx(q(15, qv)), len(syms)))
			emit(fmt.Sprintf("cons %s %s %s %s 1,%d", hx(syms), hx(q(15, qv)), hx(append([]byte{'c'}, rs...)), hx(qb2), len(syms)))
		}
	}
	// n opposite a base / a base opposite n, every order of the two qualities; mismatch quality
	// qM - adj(qm) at the ends of the table (wrap of the byte subtraction, cap at 90)
	for _, x := range []byte("acgtn") {
		for _, qq := range [][2]byte{{0, 0}, {0, 1}, {1, 0}, {1, 1}, {1, 2}, {2, 1}, {40, 40}, {40, 41}, {41, 40}, {93, 93}, {93, 1}, {1, 93}, {93, 92}, {80, 10}, {89, 1}, {90, 0}} {
			emit(fmt.Sprintf("cons %s %s %s %s 0,3", hx([]byte{'g', 'n', 'c'}), hx([]byte{30, qq[0], 30}), hx([]byte{'g', x, 'c'}), hx([]byte{30, qq[1], 30})))
			emit(fmt.Sprintf("cons %s %s %s %s 0,3", hx([]byte{'g', x, 'c'}), hx([]byte{30, qq[0], 30}), hx([]byte{'g', 'n', 'c'}), hx([]byte{30, qq[1], 30})))
			emit(fmt.Sprintf("cons %s %s %s %s 0,3", hx([]byte{'g', x, 'c'}), hx([]byte{30, qq[0], 30}), hx([]byte{'g', 't', 'c'}), hx([]byte{30, qq[1], 30})))
		}
	}
	// pairs whose quality-0 / quality-1 bases sit in the unpaired ends and opposite an internal indel
	// (alignment mode: the record returned by AssemblePESequences is the consensus)
	for _, fast := range []int{0, 1} {
		for _, qe := range []byte{0, 1} {
			qa3, qb3 := q(40, 35), q(40, 35)
			for _, k := range []int{0, 7, 8, 19} {
				qa3[k] = qe
			}
			for _, k := range []int{20, 33, 39} {
				qb3[k] = qe
			}
			emit(c08Line(fast, 1, 5, 0, 0, 10, 9, 10, frag[0:40], qa3, frag[20:60], qb3, frag[0:60], 0, 20))
			// one base deleted from B inside the overlap: A's base faces a gap, with quality qe
			bd := append(append([]byte{}, frag[20:30]...), frag[31:60]...)
			qa4 := q(40, 35)
			qa4[30] = qe
			emit(c08Line(fast, 1, 5, 0, 0, 10, 5, 10, frag[0:40], qa4, bd, q(39, 35), nil, 0, 0))
		}
	}

	// qualities at the extremes (0, 1, 40, 93) on every geometry, N / IUPAC reads, overlaps 0 / 1 / full,
	// reads of unequal length, every option value
	for _, qv := range [][2]byte{{0, 0}, {0, 93}, {1, 1}, {1, 40}, {93, 93}, {40, 93}, {93, 0}} {
		for _, fast := range []int{0, 1} {
			for _, rel := range []int{0, 1} {
				emit(c08Line(fast, rel, 1, 0, 0, 1, 0, 1, frag[0:30], q(30, qv[0]), frag[12:44], q(32, qv[1]), frag[0:44], 0, 12)) // overlap 18
				emit(c08Line(fast, rel, 1, 0, 0, 1, 0, 1, frag[0:24], q(24, qv[0]), frag[23:40], q(17, qv[1]), frag[0:40], 0, 23)) // overlap 1
				emit(c08Line(fast, rel, 1, 0, 0, 0, 0, 1, frag[0:24], q(24, qv[0]), frag[24:40], q(16, qv[1]), nil, 0, 0))          // overlap 0 (abutting)
				emit(c08Line(fast, rel, 1, 0, 0, 1, 0, 1, frag[5:35], q(30, qv[0]), frag[5:35], q(30, qv[1]), frag[5:35], 0, 0))   // full overlap
				emit(c08Line(fast, rel, 0, 0, 0, 1, 0, 1, frag[0:9], q(9, qv[0]), frag[3:40], q(37, qv[1]), frag[0:40], 0, 3))      // very unequal lengths
			}
		}
	}
	nn := []byte("nnnnnnnnnnnnnnnnnnnn")
	iu := []byte("acgtrymkswbdhvnacgtrymkswbdhvn")
	for _, fast := range []int{0, 1} {
		for _, rel := range []int{0, 1} {
			emit(c08Line(fast, rel, 1, 0, 0, 4, 0, 1, nn, q(20, 40), nn[:15], q(15, 40), nil, 0, 0))
			emit(c08Line(fast, rel, 1, 0, 0, 4, 5, 10, nn, q(20, 0), frag[0:18], q(18, 93), nil, 0, 0))
			emit(c08Line(fast, rel, 5, 0, 0, 4, 5, 10, iu, q(30, 40), iu[8:30], q(22, 40), nil, 0, 0))
			emit(c08Line(fast, rel, 5, 0, 0, 4, 5, 10, iu, q(30, 1), iu[8:30], q(22, 93), nil, 0, 0))
			emit(c08Line(fast, rel, 0, 0, 0, 4, 9, 10, append(append([]byte{}, frag[0:12]...), append([]byte("nnnn"), frag[16:30]...)...), q(30, 40), frag[10:40], q(30, 40), nil, 0, 0))
			// every threshold value around the actual overlap of 18 / identity 1
			for _, mo := range []int{0, 17, 18, 19, 40} {
				for _, id := range [][2]int{{0, 1}, {1, 1}, {99, 100}, {101, 100}} {
					emit(c08Line(fast, rel, 1, 0, 0, mo, id[0], id[1], frag[0:30], q(30, 40), frag[12:44], q(32, 40), frag[0:44], 0, 12))
				}
			}
		}
	}
	// flat matrices of both fills on hand-picked shapes (1x1, 1xn, nx1, equal, unequal)
	for _, side := range []int{0, 1} {
		emit(fmt.Sprintf("fm %d 0 0 %s %s %s %s", side, hx([]byte("a")), hx(q(1, 40)), hx([]byte("a")), hx(q(1, 40))))
		emit(fmt.Sprintf("fm %d 0 0 %s %s %s %s", side, hx([]byte("a")), hx(q(1, 0)), hx([]byte("cagt")), hx(q(4, 93))))
		emit(fmt.Sprintf("fm %d 1 2 %s %s %s %s", side, hx([]byte("cagtn")), hx(q(5, 1)), hx([]byte("g")), hx(q(1, 40))))
		emit(fmt.Sprintf("fm %d 3 1 %s %s %s %s", side, hx(frag[0:12]), hx(q(12, 40)), hx(frag[6:18]), hx(q(12, 30))))
		emit(fmt.Sprintf("fm %d 4 0 %s %s %s %s", side, hx(frag[0:7]), hx(q(7, 93)), hx(frag[2:16]), hx(q(14, 0))))
	}

	// fast mode on an arena with a history (op fa): the seeded/C08-m1 shape first — the previous forward read
	// holds, at another offset, the 4-mers of the part of B that extends beyond A
	{
		A := frag[0:30]
		B := frag[10:50]
		prev := append(append([]byte{}, frag[34:50]...), frag[0:8]...)
		for _, cp := range []int{0, 1, 2, 3, 4, 5, 140, 143, 300} {
			for _, rel := range []int{0, 1} {
				emit(fmt.Sprintf("fa %d 0 0 0 %d %s %s %s %s %s", rel, cp, hx(A), hx(q(30, 40)), hx(B), hx(q(40, 30)), hx(prev)))
				emit(fmt.Sprintf("fa %d 5 0 0 %d %s %s %s %s %s", rel, cp, hx(B[:25]), hx(q(25, 40)), hx(A), hx(q(30, 30)), hx(frag)))
			}
		}
	}
	// the obipairing command line (op cl): every option alone on the standard pair (overlap 20, one substitution),
	// thresholds around the real overlap / identity, then random combinations
	{
		A := append([]byte{}, frag[0:40]...)
		B := append([]byte{}, frag[20:60]...)
		B[7] = 'a'
		for _, t := range []string{"-", "--exact-mode", "--fast-absolute", "--without-stat", "-S", "--delta,0", "-D,1", "--min-overlap,20",
			"--min-overlap,21", "--min-overlap,0", "--min-identity,0.95", "--min-identity,0.96", "-X,1", "-X,0", "--gap-penality,0.5",
			"-G,3", "--penality-scale,0.5", "--penality-scale,1.5", "--exact-mode,--fast-absolute", "--exact-mode,--delta,0",
			"--exact-mode,--without-stat,--min-overlap,21", "-S,--min-identity,0.96", "--fast-absolute,-X,0.5,-G,1,--penality-scale,1.5,-D,5"} {
			emit(fmt.Sprintf("cl %s %s %s %s %s", t, hx(A), hx(q(40, 40)), hx(B), hx(q(40, 35))))
			emit(fmt.Sprintf("cl %s %s %s %s %s", t, hx(frag[0:30]), hx(q(30, 40)), hx(frag[12:44]), hx(q(32, 40))))
		}
	}
	ncl := 150
	if tier == "thorough" {
		ncl = 1500
	}
	for i := 0; i < ncl; i++ {
		la, lb := 4+rng.Intn(c08Small-3), 4+rng.Intn(c08Small-3)
		ov := 1 + rng.Intn(min(la, lb))
		F := g.frag(la+lb-ov, []int{0, 0, 0, 1, 3}[rng.Intn(5)])
		A := append([]byte{}, F[:la]...)
		B := append([]byte{}, F[la-ov:]...)
		if rng.Intn(3) == 0 {
			A, B = B, A
		}
		if rng.Intn(2) == 0 {
			A = g.mutate(A, 0.08, 0.02, 0.03)
			B = g.mutate(B, 0.08, 0.02, 0.03)
			if len(A) == 0 || len(A) > c08Small {
				A = append([]byte{}, F[:la]...)
			}
			if len(B) == 0 || len(B) > c08Small {
				B = append([]byte{}, F[la-ov:]...)
			}
		}
		var t []string
		if rng.Intn(2) == 0 {
			t = append(t, "--exact-mode")
		}
		if rng.Intn(2) == 0 {
			t = append(t, "--fast-absolute")
		}
		if rng.Intn(4) == 0 {
			t = append(t, []string{"--without-stat", "-S"}[rng.Intn(2)])
		}
		if rng.Intn(2) == 0 {
			t = append(t, []string{"--delta", "-D"}[rng.Intn(2)], strconv.Itoa([]int{0, 1, 5, 12}[rng.Intn(4)]))
		}
		if rng.Intn(3) > 0 {
			t = append(t, "--min-overlap", strconv.Itoa([]int{0, 1, ov - 1 + rng.Intn(3), 10, 20, 45}[rng.Intn(6)]))
		}
		if rng.Intn(3) > 0 {
			t = append(t, []string{"--min-identity", "-X"}[rng.Intn(2)], []string{"0", "1", "0.9", "0.5", "0.85", "0.95", "0.975", "1.0"}[rng.Intn(8)])
		}
		if rng.Intn(3) == 0 {
			t = append(t, []string{"--gap-penality", "-G"}[rng.Intn(2)], []string{"2.0", "1", "0.5", "3", "0"}[rng.Intn(5)])
		}
		if rng.Intn(3) == 0 {
			t = append(t, "--penality-scale", []string{"1.0", "0.5", "1.5"}[rng.Intn(3)])
		}
		rng.Shuffle(len(t), func(i, j int) {}) // options keep their argument next to them: no shuffling of tokens
		ts := "-"
		if len(t) > 0 {
			ts = strings.Join(t, ",")
		}
		emit(fmt.Sprintf("cl %s %s %s %s %s", ts, hx(A), hx(g.quals(len(A))), hx(B), hx(g.quals(len(B)))))
	}
	nfa := 250
	if tier == "thorough" {
		nfa = 2500
	}
	for i := 0; i < nfa; i++ {
		la, lb := 4+rng.Intn(c08Small-3), 4+rng.Intn(c08Small-3)
		if i%9 == 0 {
			la = 1 + rng.Intn(5)
		}
		ov := 1 + rng.Intn(min(la, lb))
		F := g.frag(la+lb-ov, []int{0, 0, 0, 1, 3}[rng.Intn(5)])
		A := append([]byte{}, F[:la]...)
		B := append([]byte{}, F[la-ov:]...)
		if rng.Intn(2) == 0 {
			A, B = B, A
		}
		if rng.Intn(2) == 0 {
			A = g.mutate(A, 0.05, 0.02, 0.02)
			B = g.mutate(B, 0.05, 0.02, 0.02)
			if len(A) == 0 {
				A = []byte{'a'}
			}
			if len(B) == 0 {
				B = []byte{'g'}
			}
			if len(A) > c08Small {
				A = A[:c08Small]
			}
			if len(B) > c08Small {
				B = B[:c08Small]
			}
		}
		// previous forward read: the tail of B (beyond A) moved to another offset + random bases, or unrelated
		var prev []byte
		switch rng.Intn(3) {
		case 0:
			prev = g.frag(10+rng.Intn(100), 0)
		case 1:
			prev = append(append([]byte{}, B[len(B)/2:]...), g.frag(1+rng.Intn(20), 0)...)
		default:
			prev = append(g.frag(1+rng.Intn(9), 0), B...)
		}
		cp := []int{0, 1, 2, 3, 4, 5, 2 * (len(A) + len(B)), 2*(len(A)+len(B)) + 3, 600}[rng.Intn(9)]
		gi, si := 0, 0
		if rng.Intn(3) == 0 {
			gi, si = rng.Intn(len(c08Gaps)), rng.Intn(len(c08Scales))
		}
		emit(fmt.Sprintf("fa %d %d %d %d %d %s %s %s %s %s", rng.Intn(2), []int{0, 1, 5}[rng.Intn(3)], gi, si, cp,
			hx(A), hx(g.quals(len(A))), hx(B), hx(g.quals(len(B))), hx(prev)))
	}

	n, nbig, ncons, nfm := 1500, 60, 400, 300
	if tier == "thorough" {
		n, nbig, ncons, nfm = 9000, 500, 2500, 2500
	}
	// _Backtracking alone: valid path matrices of every shape, among them the alternating ones that fill
	// the 2*(la+lb) cells of the path buffer completely; buffers too small (regrown), exact, larger
	nbt := 250
	if tier == "thorough" {
		nbt = 2500
	}
	for i := 0; i < nbt; i++ {
		la, lb := 1+rng.Intn(9), 1+rng.Intn(9)
		if i < 40 {
			la, lb = 1+i%5, 1+(i/5)%5
		}
		mode := rng.Intn(4)
		pm := make([]int, (la+1)*(lb+1))
		for j := 0; j <= lb; j++ {
			for ii := 0; ii <= la; ii++ {
				v := 0
				switch {
				case ii == 0 && j == 0:
					v = []int{0, 7, -7}[rng.Intn(3)] // never read
				case ii == 0:
					v = 1
					if mode == 3 && rng.Intn(3) == 0 {
						v = 1 + rng.Intn(j)
					}
				case j == 0:
					v = -1
					if mode == 3 && rng.Intn(3) == 0 {
						v = -(1 + rng.Intn(ii))
					}
				case mode == 0: // alternate single-base runs of A and of B: the longest possible path
					if (ii+j)%2 == 0 {
						v = 1
					} else {
						v = -1
					}
				case mode == 1:
					if (ii+j)%2 == 0 {
						v = -1
					} else {
						v = 1
					}
				default:
					switch rng.Intn(4) {
					case 0:
						v = 1
						if mode == 3 {
							v = 1 + rng.Intn(j)
						}
					case 1:
						v = -1
						if mode == 3 {
							v = -(1 + rng.Intn(ii))
						}
					}
				}
				pm[j*(la+1)+ii] = v
			}
		}
		cp := []int{0, 1, la + lb, 2*(la+lb) - 1, 2 * (la + lb), 2*(la+lb) + 1, 2*(la+lb) + 9, 300}[rng.Intn(8)]
		emit(fmt.Sprintf("bt %d %d %d %s", la, lb, cp, strings.ReplaceAll(c08Ints(pm), " ", ",")))
	}
	for i := 0; i < nfm; i++ {
		la, lb := 1+rng.Intn(14), 1+rng.Intn(14)
		if i%5 == 0 {
			la = 1 + rng.Intn(3)
		}
		if i%7 == 0 {
			lb = 1 + rng.Intn(3)
		}
		F := g.frag(la+lb, []int{0, 0, 1, 2, 3}[rng.Intn(5)])
		A := g.mutate(F[:la], 0.1, 0, 0.1)
		B := g.mutate(F[rng.Intn(la+1):][:lb], 0.1, 0, 0.1)
		gi, si := 0, 0
		if rng.Intn(2) == 0 {
			gi, si = rng.Intn(len(c08Gaps)), rng.Intn(len(c08Scales))
		}
		emit(fmt.Sprintf("fm %d %d %d %s %s %s %s", rng.Intn(2), gi, si, hx(A), hx(g.quals(len(A))), hx(B), hx(g.quals(len(B)))))
	}
	for i := 0; i < n; i++ {
		switch {
		case i%7 == 0:
			g.pair(12)
		default:
			g.pair(c08Small)
		}
	}
	for i := 0; i < nbig; i++ {
		if i%3 == 0 {
			g.pair(150)
		} else {
			g.pair(300)
		}
	}
	for i := 0; i < ncons; i++ {
		la, lb := 1+rng.Intn(30), 1+rng.Intn(30)
		if i%10 == 0 {
			la, lb = 1+rng.Intn(300), 1+rng.Intn(300)
		}
		A := g.mutate(g.frag(la, 0), 0, 0, 0.2)
		B := g.mutate(g.frag(lb, 0), 0, 0, 0.2)
		if rng.Intn(2) == 0 && la == lb {
			copy(B, A)
		}
		emit(fmt.Sprintf("cons %s %s %s %s %s", hx(A), hx(g.quals(la)), hx(B), hx(g.quals(lb)), c08PathStr(g.randPath(la, lb))))
	}
	// concurrent use (c08_conc.go); last, so that the cases above keep their PRNG draws
	c08GenConc(rng, tier, emit)
}

// witnesses for D12 found on the unpatched code (see notes/patches/C08-*.msg)
var c08Witnesses = []string{
	// D12: local alignment starts with the other gap; unpatched path -1,1,-1,3,-1,1,-2,0 uses 10 of 11 bases of A
	"pe 1 0 1 0 0 0 0 1 6363677463616761636763 14140014145d141e000114 746361676163 010001000000 F=6363677463616761636763:0:3",
	// D12: local alignment ends with the other gap (40 x 16, delta 5)
	"pe 1 0 5 0 0 0 5 10 6763646163676377636167677467686176677463616174637474746367677767616e616867676174 145d0000141e141e0101140014011414001400141414145d1e141e01001e14145d5d5d0014011e01 74676763746163636363636167677467 00010202000100020201020001010102 F=746767637461636363636361676774677461636774636161746361747463676761676163616767676174:2:0",
	"pe 1 1 5 4 0 0 1 1 63616763726774617463746174686368796e6d637974637463 28282828282828282828282828282828282828282828282828 6e67676e 28292526 F=63616763676774617463746174746367636761636374637463:0:3",
	// non-finite score table entry: mismatch between two quality-0 bases (unpatched: -9223372036854775808, sums wrap)
	"pe 0 0 1 0 0 10 7 10 677467 000000 7467 0000 F=677467:0:1",
	"pe 1 0 1 0 0 1 0 1 6763636761 0000000000 67616761 00000000",
	// seq_a_single / seq_b_single: identical starts, B longer, one substitution (fast: shift 0 is a right alignment ending with bases of B)
	"pe 1 0 5 0 0 4 0 1 6163677461636761746367617463677461676374 2828282828282828282828282828282828282828 616367746163676174636761746367746167637461676374 282828282828282828282828282828282828282828282828",
	"pe 1 0 5 0 0 4 0 1 6163677461636761746367617463677461676774 2828282828282828282828282828282828282828 616367746163676174636761746367746167637461676374 282828282828282828282828282828282828282828282828",
	// reads without any common 4-mer and shorter than 4 bases (unpatched: taken as an identical overlap, A read past its end)
	"pe 1 0 0 0 0 1 0 1 61 28 616367 282828",
	"pe 1 1 5 0 0 1 0 1 6174 2828 676761 282828",
	"pe 1 1 1 0 0 1 0 1 6174616774677461676363 2828282828282828282828 6761 2828",
}

// ---------------------------------------------------------------------------------------------
// independent reference

type c08Ref struct {
	A, QA, B, QB []byte
	scale        float64
	g            int
}

func (r *c08Ref) s(i, j int) int {
	return obialign.VerifPairingScore(r.A[i], r.QA[i], r.B[j], r.QB[j], r.scale)
}

// cost of consuming one base of A alone when j bases of B are already consumed / of B when i of A are.
// Documented scheme: left = gaps at the beginning of B and at the end of A are free,
// right = gaps at the beginning of A and at the end of B are free.
func (r *c08Ref) costA(left bool, j int) int {
	if (left && j == 0) || (!left && j == len(r.B)) {
		return 0
	}
	return r.g
}

func (r *c08Ref) costB(left bool, i int) int {
	if (left && i == len(r.A)) || (!left && i == 0) {
		return 0
	}
	return r.g
}

// opt is the O(la*lb) dynamic program over prefix lengths: best score of any path from (0,0) to (la,lb)
// and the number (capped at 2) of paths reaching it.
func (r *c08Ref) opt(left bool) (int, int) {
	la, lb := len(r.A), len(r.B)
	prev := make([]int, lb+1)
	cur := make([]int, lb+1)
	pc := make([]int, lb+1)
	cc := make([]int, lb+1)
	prev[0], pc[0] = 0, 1
	for j := 1; j <= lb; j++ {
		prev[j] = prev[j-1] + r.costB(left, 0)
		pc[j] = 1
	}
	for i := 1; i <= la; i++ {
		cur[0] = prev[0] + r.costA(left, 0)
		cc[0] = 1
		for j := 1; j <= lb; j++ {
			d := prev[j-1] + r.s(i-1, j-1)
			u := prev[j] + r.costA(left, j)
			l := cur[j-1] + r.costB(left, i)
			m := max(d, max(u, l))
			n := 0
			if d == m {
				n += pc[j-1]
			}
			if u == m {
				n += pc[j]
			}
			if l == m {
				n += cc[j-1]
			}
			cur[j], cc[j] = m, min(n, 2)
		}
		prev, cur = cur, prev
		pc, cc = cc, pc
	}
	return prev[lb], pc[lb]
}

// consumes: the path is a list of (indel, diag) pairs using exactly la bases of A and lb of B
func c08Consumes(p []int, la, lb int) bool {
	if len(p)%2 != 0 {
		return false
	}
	i, j := 0, 0
	for k := 0; k < len(p); k += 2 {
		if p[k] < 0 {
			i -= p[k]
		} else {
			j += p[k]
		}
		if p[k+1] < 0 {
			return false
		}
		i += p[k+1]
		j += p[k+1]
	}
	return i == la && j == lb
}

// pathScore recomputes the score of a consuming path under the scheme
func (r *c08Ref) pathScore(p []int, left bool) int {
	i, j, sc := 0, 0, 0
	for k := 0; k < len(p); k += 2 {
		for n := p[k]; n < 0; n++ {
			sc += r.costA(left, j)
			i++
		}
		for n := p[k]; n > 0; n-- {
			sc += r.costB(left, i)
			j++
		}
		for n := 0; n < p[k+1]; n++ {
			sc += r.s(i, j)
			i++
			j++
		}
	}
	return sc
}

func c08Code(b byte) int {
	switch b {
	case 'c', 'C':
		return 1
	case 'g', 'G':
		return 2
	case 't', 'T', 'u', 'U':
		return 3
	}
	return 0
}

// naive 4-mer diagonal vote: count per shift, and the code's normalisation for the relative score
func c08Vote(A, B []byte, rel bool) (shift, count, num, den int, strict func(int) bool) {
	la, lb := len(A), len(B)
	counts := map[int]int{}
	for i := 0; i+4 <= la; i++ {
		for j := 0; j+4 <= lb; j++ {
			ok := true
			for k := 0; k < 4; k++ {
				if c08Code(A[i+k]) != c08Code(B[j+k]) {
					ok = false
					break
				}
			}
			if ok {
				counts[i-j]++
			}
		}
	}
	dn := func(sh int) int {
		if !rel {
			return 1
		}
		switch {
		case sh > 0:
			return la - sh - 3
		case sh < 0:
			return lb + sh - 3
		}
		return min(la, lb) - 3
	}
	found := false
	for sh := -lb; sh <= la; sh++ {
		c, ok := counts[sh]
		if !ok {
			continue
		}
		d := dn(sh)
		if !found || c*den > num*d { // strictly better; ascending shifts keep the smallest on ties
			shift, count, num, den, found = sh, c, c, d, true
		}
	}
	if !found {
		return 0, 0, -1, 1, func(int) bool { return false }
	}
	strict = func(t int) bool {
		ct, ok := counts[t]
		if !ok {
			return false
		}
		dt := dn(t)
		for sh, c := range counts {
			if sh != t && c*dt >= ct*dn(sh) {
				return false
			}
		}
		return true
	}
	return
}

// ---------------------------------------------------------------------------------------------
// execution

type c08Case struct {
	op                                          string
	fast, rel                                   bool
	delta, gi, si, minov, idn, idd              int
	A, QA, B, QB                                []byte
	F                                           []byte
	a0, b0                                      int
	path                                        []int
	side                                        int
	toks                                        []string
	stats                                       bool
	gapV, scaleV                                float64
}

// cliNaive: the harness's own reading of the obipairing options it generates (independent of go-getoptions):
// the INTENDED parameters, from which the data handed to the model (gap penalty, column scores) is computed
func (cs *c08Case) cliNaive() bool {
	cs.fast, cs.rel, cs.stats, cs.delta, cs.minov, cs.idn, cs.idd, cs.gapV, cs.scaleV = true, true, true, 5, 20, 9, 10, 2.0, 1.0
	t := cs.toks
	for i := 0; i < len(t); i++ {
		val := func() (string, bool) {
			if i+1 >= len(t) {
				return "", false
			}
			i++
			return t[i], true
		}
		switch t[i] {
		case "--delta", "-D", "--min-overlap":
			k := t[i]
			v, ok := val()
			n, err := strconv.Atoi(v)
			if !ok || err != nil || n < 0 || n > 1000 {
				return false
			}
			if k == "--min-overlap" {
				cs.minov = n
			} else {
				cs.delta = n
			}
		case "--min-identity", "-X":
			v, ok := val()
			if !ok {
				return false
			}
			ip, fp, has := strings.Cut(v, ".")
			n, e1 := strconv.Atoi(ip)
			if e1 != nil || n < 0 || len(fp) > 6 || (has && fp == "") {
				return false
			}
			d := 1
			for _, c := range fp {
				if c < '0' || c > '9' {
					return false
				}
				n, d = n*10+int(c-'0'), d*10
			}
			cs.idn, cs.idd = n, d
		case "--gap-penality", "-G", "--penality-scale":
			k := t[i]
			v, ok := val()
			x, err := strconv.ParseFloat(v, 64)
			if !ok || err != nil || x < 0 || x > 10 {
				return false
			}
			if k == "--penality-scale" {
				cs.scaleV = x
			} else {
				cs.gapV = x
			}
		case "--without-stat", "-S":
			cs.stats = false
		case "--exact-mode":
			cs.fast = false
		case "--fast-absolute":
			cs.rel = false
		default:
			return false
		}
	}
	return true
}

var c08Comp = map[byte]byte{'a': 't', 't': 'a', 'c': 'g', 'g': 'c', 'r': 'y', 'y': 'r', 'm': 'k', 'k': 'm', 's': 's', 'w': 'w',
	'b': 'v', 'v': 'b', 'd': 'h', 'h': 'd', 'n': 'n'}

// c08RevComp: the read as the sequencer gives it (reverse strand), so that the worker's ReverseComplement restores B
func c08RevComp(b, q []byte) ([]byte, []byte, bool) {
	rb, rq := make([]byte, len(b)), make([]byte, len(q))
	for i := range b {
		c, ok := c08Comp[b[len(b)-1-i]]
		if !ok {
			return nil, nil, false
		}
		rb[i], rq[i] = c, q[len(q)-1-i]
	}
	return rb, rq, true
}

func c08Parse(c string) (*c08Case, bool) {
	if k := strings.Index(c, " | "); k >= 0 {
		c = c[:k]
	}
	f := strings.Fields(c)
	if len(f) == 0 {
		return nil, false
	}
	cs := &c08Case{op: f[0]}
	hexes := func(ws []string) bool {
		var ok [4]bool
		cs.A, ok[0] = unhx(ws[0])
		cs.QA, ok[1] = unhx(ws[1])
		cs.B, ok[2] = unhx(ws[2])
		cs.QB, ok[3] = unhx(ws[3])
		if !(ok[0] && ok[1] && ok[2] && ok[3]) || len(cs.A) != len(cs.QA) || len(cs.B) != len(cs.QB) ||
			len(cs.A) == 0 || len(cs.B) == 0 {
			return false
		}
		for _, q := range append(append([]byte(nil), cs.QA...), cs.QB...) {
			if q > 93 {
				return false
			}
		}
		return true
	}
	switch f[0] {
	case "pe", "pl":
		if len(f) != 13 && len(f) != 14 {
			return nil, false
		}
		var v [8]int
		for i := 0; i < 8; i++ {
			x, err := strconv.Atoi(f[1+i])
			if err != nil || x < 0 {
				return nil, false
			}
			v[i] = x
		}
		if v[0] > 1 || v[1] > 1 || v[3] >= len(c08Gaps) || v[4] >= len(c08Scales) || v[7] == 0 {
			return nil, false
		}
		cs.fast, cs.rel, cs.delta, cs.gi, cs.si, cs.minov, cs.idn, cs.idd = v[0] == 1, v[1] == 1, v[2], v[3], v[4], v[5], v[6], v[7]
		if !hexes(f[9:13]) {
			return nil, false
		}
		small := len(cs.A) <= c08Small && len(cs.B) <= c08Small
		if small != (f[0] == "pe") {
			return nil, false
		}
		if len(f) == 14 {
			if !strings.HasPrefix(f[13], "F=") {
				return nil, false
			}
			parts := strings.Split(f[13][2:], ":")
			if len(parts) != 3 {
				return nil, false
			}
			var ok bool
			cs.F, ok = unhx(parts[0])
			a0, e1 := strconv.Atoi(parts[1])
			b0, e2 := strconv.Atoi(parts[2])
			if !ok || e1 != nil || e2 != nil || a0 < 0 || b0 < 0 {
				return nil, false
			}
			cs.a0, cs.b0 = a0, b0
		}
		return cs, true
	case "fm":
		if len(f) != 8 {
			return nil, false
		}
		var v [3]int
		for i := 0; i < 3; i++ {
			x, err := strconv.Atoi(f[1+i])
			if err != nil || x < 0 {
				return nil, false
			}
			v[i] = x
		}
		if v[0] > 1 || v[1] >= len(c08Gaps) || v[2] >= len(c08Scales) || !hexes(f[4:8]) {
			return nil, false
		}
		cs.side, cs.gi, cs.si = v[0], v[1], v[2]
		return cs, true
	case "cl":
		if len(f) != 6 || !hexes(f[2:6]) || len(cs.A) > c08Small || len(cs.B) > c08Small {
			return nil, false
		}
		if f[1] != "-" {
			cs.toks = strings.Split(f[1], ",")
		}
		if !cs.cliNaive() {
			return nil, false
		}
		return cs, true
	case "fa":
		if len(f) != 11 {
			return nil, false
		}
		var v [5]int
		for i := 0; i < 5; i++ {
			x, err := strconv.Atoi(f[1+i])
			if err != nil || x < 0 {
				return nil, false
			}
			v[i] = x
		}
		if v[0] > 1 || v[1] > 50 || v[2] >= len(c08Gaps) || v[3] >= len(c08Scales) || v[4] > 1000 || !hexes(f[6:10]) {
			return nil, false
		}
		if len(cs.A) > c08Small || len(cs.B) > c08Small {
			return nil, false
		}
		a0, ok := unhx(f[10])
		if !ok || len(a0) == 0 || len(a0) > 400 {
			return nil, false
		}
		cs.fast, cs.rel, cs.delta, cs.gi, cs.si, cs.side, cs.F = true, v[0] == 1, v[1], v[2], v[3], v[4], a0
		return cs, true
	case "bt":
		if len(f) != 5 {
			return nil, false
		}
		var v [3]int
		for i := 0; i < 3; i++ {
			x, err := strconv.Atoi(f[1+i])
			if err != nil || x < 0 || x > 400 {
				return nil, false
			}
			v[i] = x
		}
		if v[0] < 1 || v[1] < 1 || v[0] > 20 || v[1] > 20 {
			return nil, false
		}
		for _, w := range strings.Split(f[4], ",") {
			x, err := strconv.Atoi(w)
			if err != nil {
				return nil, false
			}
			cs.path = append(cs.path, x)
		}
		la, lb := v[0], v[1]
		if len(cs.path) != (la+1)*(lb+1) {
			return nil, false
		}
		// valid: every step stays inside the matrix (the real code would read another cell, not panic)
		for j := 0; j <= lb; j++ {
			for i := 0; i <= la; i++ {
				if i == 0 && j == 0 {
					continue
				}
				st := cs.path[j*(la+1)+i]
				if (st == 0 && (i == 0 || j == 0)) || st > j || -st > i {
					return nil, false
				}
			}
		}
		cs.delta, cs.gi, cs.si = la, lb, v[2]
		return cs, true
	case "cons":
		if len(f) != 6 || !hexes(f[1:5]) {
			return nil, false
		}
		if f[5] != "-" {
			for _, w := range strings.Split(f[5], ",") {
				x, err := strconv.Atoi(w)
				if err != nil {
					return nil, false
				}
				cs.path = append(cs.path, x)
			}
		}
		if !c08Consumes(cs.path, len(cs.A), len(cs.B)) {
			return nil, false
		}
		return cs, true
	}
	return nil, false
}

// c08Adj: the mismatch quality adjustment of BuildQualityConsensus, byte(log10(1-10^(-qm/30))*10+0.5),
// as a table over qm = 0..93 (float-derived: data for the model; a change of the formula in /repo shows
// as a correspondence mismatch).
func c08Adj() []byte {
	t := make([]byte, 94)
	for qm := range t {
		t[qm] = byte(math.Log10(1-math.Pow(10, -float64(qm)/30))*10 + 0.5)
	}
	return t
}

func c08Ints(v []int) string {
	s := make([]string, len(v))
	for i, x := range v {
		s[i] = strconv.Itoa(x)
	}
	return strings.Join(s, " ")
}

// c08ConsOracle checks "one base and one quality per column, higher quality wins".
func c08ConsOracle(sig string, cs *c08Case, path []int, seq, qual []byte) (fails []Fail) {
	type col struct {
		a, b   byte
		qa, qb byte
		ha, hb bool
	}
	var cols []col
	i, j := 0, 0
	for k := 0; k+1 < len(path); k += 2 {
		for n := path[k]; n < 0; n++ {
			cols = append(cols, col{a: cs.A[i], qa: cs.QA[i], ha: true})
			i++
		}
		for n := path[k]; n > 0; n-- {
			cols = append(cols, col{b: cs.B[j], qb: cs.QB[j], hb: true})
			j++
		}
		for n := 0; n < path[k+1]; n++ {
			cols = append(cols, col{a: cs.A[i], qa: cs.QA[i], ha: true, b: cs.B[j], qb: cs.QB[j], hb: true})
			i++
			j++
		}
	}
	if len(seq) != len(cols) || len(qual) != len(cols) {
		return []Fail{{sig + ".columns", fmt.Sprintf("path has %d columns, consensus has %d bases and %d qualities", len(cols), len(seq), len(qual))}}
	}
	iupac := map[byte]byte{'a': 1, 'c': 2, 'g': 4, 't': 8, 'u': 8, 'm': 3, 'r': 5, 's': 6, 'v': 7, 'w': 9, 'y': 10, 'h': 11, 'k': 12, 'd': 13, 'b': 14, 'n': 15}
	dec := ".acmgrsvtwyhkdbn"
	for k, c := range cols {
		var want byte
		switch {
		case c.ha && !c.hb:
			want = c.a
		case c.hb && !c.ha:
			want = c.b
		case c.qa > c.qb:
			want = c.a
		case c.qb > c.qa:
			want = c.b
		case c.a == c.b:
			want = c.a
		default:
			want = dec[iupac[c.a]|iupac[c.b]]
		}
		if want == 'u' && seq[k] == 't' && !(c.ha && c.hb) {
			continue
		}
		if seq[k] != want {
			fails = append(fails, Fail{sig + ".base", fmt.Sprintf("column %d: A=%c/%d B=%c/%d (present %v/%v): expected %c, consensus has %c", k, c.a, c.qa, c.b, c.qb, c.ha, c.hb, want, seq[k])})
			break
		}
	}
	// "one quality per column": the quality of a column where both reads are present is a function of that
	// column — the same two (base, quality) pairs aligned alone (reads of one base, path 0,1) get the same value,
	// whatever the other columns of the alignment hold (formula-free, metamorphic)
	for k, c := range cols {
		if !(c.ha && c.hb) {
			continue
		}
		alone, ok := c08ColumnAlone(c.a, c.qa, c.b, c.qb)
		if !ok {
			fails = append(fails, Fail{sig + ".qual-local-panic", fmt.Sprintf("column %d alone: BuildQualityConsensus panics", k)})
			break
		}
		if alone != qual[k] {
			stat("cons:qual-not-local")
			fails = append(fails, Fail{sig + ".qual-local", fmt.Sprintf("column %d: A=%c/%d B=%c/%d gets quality %d in this alignment, %d when the two bases are aligned alone (the value depends on another column)", k, c.a, c.qa, c.b, c.qb, qual[k], alone)})
			break
		}
	}
	return fails
}

var c08TableOnce sync.Once

func bitsLen(v int) int {
	n := 0
	for v > 0 {
		n++
		v >>= 1
	}
	return n
}

var c08ColArena = obialign.MakePEAlignArena(1, 1)

// arena and shift map of the `fa` cases: one worker's state, kept from case to case
var c08FaArena = obialign.MakePEAlignArena(1, 1)
var c08FaShifts = map[int]int{}

// c08ColumnAlone: the consensus quality of the single column (a,qa)/(b,qb) computed by the real code
func c08ColumnAlone(a, qa, b, qb byte) (q byte, ok bool) {
	defer func() {
		if recover() != nil {
			ok = false
		}
	}()
	sa := obiseq.NewBioSequenceWithQualities("a", []byte{a}, "", []byte{qa})
	sb := obiseq.NewBioSequenceWithQualities("b", []byte{b}, "", []byte{qb})
	cons, _ := obialign.BuildQualityConsensus(sa, sb, []int{0, 1}, false, c08ColArena)
	return cons.Qualities()[0], true
}

func (c08) Exec(c string) (string, []Fail) {
	if strings.HasPrefix(c, "conc ") {
		return c08ExecConc(c) // c08_conc.go
	}
	cs, ok := c08Parse(c)
	if !ok {
		caseTrivial = true
		return "bad-op", nil
	}
	base := c
	if k := strings.Index(c, " | "); k >= 0 {
		base = c[:k]
	}
	seqA := obiseq.NewBioSequenceWithQualities("A", cs.A, "", cs.QA)
	seqB := obiseq.NewBioSequenceWithQualities("B", cs.B, "", cs.QB)
	adj := c08Adj()
	var fails []Fail
	addf := func(sig, format string, a ...any) { fails = append(fails, Fail{sig, fmt.Sprintf(format, a...)}) }

	if cs.op == "bt" {
		stat("op:bt")
		la, lb, cp := cs.delta, cs.gi, cs.si
		var path []int
		res := guardT(5*time.Second, func() string {
			path = obialign.VerifBacktrack(cs.path, la, lb, cp, 4242)
			return "ok"
		})
		if res != "ok" {
			addf("backtrack."+res, "_Backtracking %s on a valid path matrix (la=%d lb=%d, path buffer of %d cells)", res, la, lb, cp)
			return res, fails
		}
		if !c08Consumes(path, la, lb) {
			addf("backtrack.consumes", "path %s does not consume (%d, %d)", c08PathStr(path), la, lb)
		}
		if len(path) == 2*(la+lb) {
			stat("bt:buffer-full")
		}
		return "p=" + c08PathStr(path), fails
	}

	if cs.op == "cons" {
		stat("op:cons")
		var seq, qual []byte
		match := 0
		res := guardT(5*time.Second, func() string {
			cons, m := obialign.BuildQualityConsensus(seqA, seqB, cs.path, true, c08Arena)
			seq, qual, match = append([]byte(nil), cons.Sequence()...), append([]byte(nil), cons.Qualities()...), m
			return "ok"
		})
		caseOverride = base + " | " + hx(adj)
		if res != "ok" {
			addf("cons."+res, "BuildQualityConsensus %s on a consuming path", res)
			return res, fails
		}
		fails = append(fails, c08ConsOracle("cons", cs, cs.path, seq, qual)...)
		return fmt.Sprintf("c=%s q=%s m=%d", hx(seq), hx(qual), match), fails
	}

	if cs.op == "cl" {
		stat("op:cl")
		la, lb := len(cs.A), len(cs.B)
		ref := &c08Ref{A: cs.A, QA: cs.QA, B: cs.B, QB: cs.QB, scale: cs.scaleV, g: obialign.VerifGapPenalty(cs.gapV, cs.scaleV)}
		sc := make([]int, 0, la*lb)
		for i := 0; i < la; i++ {
			for j := 0; j < lb; j++ {
				sc = append(sc, ref.s(i, j))
			}
		}
		caseOverride = fmt.Sprintf("%s | %d %s %s", base, ref.g, hx(adj), c08Ints(sc))
		rB, rQB, ok := c08RevComp(cs.B, cs.QB)
		if !ok {
			caseTrivial = true
			return "bad-op", nil
		}
		var out *obiseq.BioSequence
		res := guardT(20*time.Second, func() string {
			obipairing.VerifResetOptions()
			argv := append([]string{"obipairing", "-F", "verif_f.fastq", "-R", "verif_r.fastq"}, cs.toks...)
			_, rest := obioptions.GenerateOptionParser(obipairing.OptionSet)(argv)
			if len(rest) != 0 {
				return "rest"
			}
			// one batch of two pairs for one worker: a previous pair (its forward read holds B, the arena and the
			// 4-mer index keep its traces), then the pair of the case; reverse reads as the sequencer gives them
			mk := func(id string, s, q []byte) *obiseq.BioSequence {
				return obiseq.NewBioSequenceWithQualities(id, append([]byte(nil), s...), "", append([]byte(nil), q...))
			}
			q0 := make([]byte, la+lb)
			for i := range q0 {
				q0[i] = 30
			}
			p1 := mk("prev", append(append([]byte{}, cs.B...), cs.A...), q0)
			p1.PairTo(mk("prev", rB, rQB))
			s1 := mk("pair", cs.A, cs.QA)
			s1.PairTo(mk("pair", rB, rQB))
			it := obiiter.MakeIBioSequence()
			it.Add(1)
			go func() {
				it.Push(obiiter.MakeBioSequenceBatch("src", 0, obiseq.BioSequenceSlice{p1, s1}))
				it.Done()
			}()
			go it.WaitAndClose()
			it.MarkAsPaired()
			// the call of cmd/obitools/obipairing/main.go
			paired := obipairing.IAssemblePESequencesBatch(it,
				obipairing.CLIGapPenality(), obipairing.CLIPenalityScale(), obipairing.CLIDelta(), obipairing.CLIMinOverlap(),
				obipairing.CLIMinIdentity(), obipairing.CLIFastMode(), obipairing.CLIFastRelativeScore(), obipairing.CLIWithStats(), 2)
			for paired.Next() {
				for _, o := range paired.Get().Slice() {
					if o.Id() == "pair" {
						out = o
					}
				}
			}
			if out == nil {
				return "lost"
			}
			return "ok"
		})
		if res != "ok" {
			addf("cli."+res, "obipairing %s: %s", strings.Join(cs.toks, " "), res)
			return res, fails
		}
		an := out.Annotations()
		md, _ := an["mode"].(string)
		al, _ := an["ali_length"].(int)
		ma, _ := an["seq_ab_match"].(int)
		_, _, vnum, vden, _ := c08Vote(cs.A, cs.B, cs.rel)
		stat("cl:" + md)
		// oracle: the branch is decided by the thresholds of the command line, on the direct call with the intended parameters
		direct := guardT(10*time.Second, func() string {
			o := obipairing.AssemblePESequences(seqA, seqB, cs.gapV, cs.scaleV, cs.delta, cs.minov, float64(cs.idn)/float64(cs.idd),
				cs.stats, false, cs.fast, cs.rel, obialign.MakePEAlignArena(la, lb), &map[int]int{})
			m, _ := o.Annotations()["mode"].(string)
			return m + " " + string(o.Sequence())
		})
		if direct != md+" "+string(out.Sequence()) {
			addf("cli.options", "obipairing %s returns mode %s %q; AssemblePESequences with delta %d min-overlap %d min-identity %d/%d gap %v scale %v fast %v rel %v: %s",
				strings.Join(cs.toks, " "), md, out.Sequence(), cs.delta, cs.minov, cs.idn, cs.idd, cs.gapV, cs.scaleV, cs.fast, cs.rel, direct)
		}
		if _, has := an["score"]; has != cs.stats {
			addf("cli.without-stat", "statistics present %v, --without-stat given %v", has, !cs.stats)
		}
		if _, has := an["paring_fast_count"]; has && !cs.fast {
			addf("cli.exact-mode", "--exact-mode: paring_fast_count present")
		}
		return fmt.Sprintf("%s s=%s q=%s ann=%s", md, hx(out.Sequence()), hx(out.Qualities()), c08Annotations(an, al, ma, vnum, vden)), fails
	}

	if cs.op == "fa" {
		stat("op:fa")
		gap, scale := c08Gaps[cs.gi], c08Scales[cs.si]
		ref := &c08Ref{A: cs.A, QA: cs.QA, B: cs.B, QB: cs.QB, scale: scale, g: obialign.VerifGapPenalty(gap, scale)}
		la, lb, cp := len(cs.A), len(cs.B), cs.side
		var isLeft bool
		var score, fastCount, over int
		var fastScore float64
		var path, buf []int
		left := 0
		res := guardT(10*time.Second, func() string {
			// history: the previous pair of this worker had the forward read A0 (the 4-mer index keeps its positions),
			// then the path buffer is what a pair of another size left (capacity cp, stale values)
			q0 := make([]byte, len(cs.F))
			for i := range q0 {
				q0[i] = 40
			}
			prev := obiseq.NewBioSequenceWithQualities("P", cs.F, "", q0)
			obialign.PEAlign(prev, seqB, gap, scale, true, cs.delta, cs.rel, c08FaArena, &c08FaShifts)
			obialign.VerifSetPathBuffer(c08FaArena, cp, 4242)
			l, sc, p, fc, ov, fsc := obialign.PEAlign(seqA, seqB, gap, scale, true, cs.delta, cs.rel, c08FaArena, &c08FaShifts)
			isLeft, score, path, fastCount, over, fastScore = l, sc, append([]int(nil), p...), fc, ov, fsc
			buf = obialign.VerifPathBuffer(c08FaArena)
			left = len(c08FaShifts)
			return "ok"
		})
		for k := range c08FaShifts {
			delete(c08FaShifts, k)
		}
		sc := make([]int, 0, la*lb)
		for i := 0; i < la; i++ {
			for j := 0; j < lb; j++ {
				sc = append(sc, ref.s(i, j))
			}
		}
		caseOverride = fmt.Sprintf("%s | %d %s", base, ref.g, c08Ints(sc))
		if res != "ok" {
			addf("pealign.fast-arena-"+res, "PEAlign %s on a reused arena (path buffer of %d cells)", res, cp)
			c08FaArena = obialign.MakePEAlignArena(1, 1)
			return res, fails
		}
		shift, vcount, vnum, vden, _ := c08Vote(cs.A, cs.B, cs.rel)
		_ = shift
		fsStr := "-1"
		if vnum < 0 {
			if fastScore != -1.0 {
				fsStr = "?" + strconv.FormatUint(math.Float64bits(fastScore), 16)
			}
		} else if fastScore == float64(fastCount)/float64(vden) {
			fsStr = fmt.Sprintf("%d/%d", fastCount, vden)
		} else {
			fsStr = "?" + strconv.FormatUint(math.Float64bits(fastScore), 16)
		}
		if fastCount != vcount {
			addf("fast.vote-history", "paring_fast_count %d on the reused index, the naive vote on this pair counts %d", fastCount, vcount)
		}
		if !c08Consumes(path, la, lb) {
			addf("path.fast-consumes", "path %s does not consume (%d, %d) exactly", c08PathStr(path), la, lb)
		} else if ps := ref.pathScore(path, isLeft); ps != score {
			addf("score.fast-path", "reported score %d, score recomputed along the path (%s scheme) %d", score, lr(isLeft), ps)
		}
		// the same pair on a brand new arena: nothing of the history may show
		r2 := guardT(10*time.Second, func() string {
			sh := map[int]int{}
			l, s2, p, fc, ov, fsc := obialign.PEAlign(seqA, seqB, gap, scale, true, cs.delta, cs.rel, obialign.MakePEAlignArena(la, lb), &sh)
			if l != isLeft || s2 != score || c08PathStr(p) != c08PathStr(path) || fc != fastCount || ov != over || fsc != fastScore {
				return fmt.Sprintf("L=%v sc=%d p=%s fc=%d ov=%d", l, s2, c08PathStr(p), fc, ov)
			}
			return "ok"
		})
		if r2 != "ok" {
			addf("arena.fast-history", "reused arena: L=%v sc=%d p=%s fc=%d ov=%d; fresh arena: %s", isLeft, score, c08PathStr(path), fastCount, over, r2)
		}
		if vcount >= 1 && !(vcount+3 < over) {
			stat("fa:identical-branch")
		} else {
			stat("fa:dp-branch")
		}
		bufS := "grown"
		if len(buf) == cp {
			bufS = c08PathStr(buf)
			stat("fa:buffer-compared")
		}
		return fmt.Sprintf("L=%d sc=%d p=%s fc=%d ov=%d fs=%s left=%d buf=%s", b2i(isLeft), score, c08PathStr(path), fastCount, over, fsStr, left, bufS), fails
	}

	if cs.op == "fm" {
		left := cs.side == 1
		stat("op:fm." + lr(left))
		gap, scale := c08Gaps[cs.gi], c08Scales[cs.si]
		ref := &c08Ref{A: cs.A, QA: cs.QA, B: cs.B, QB: cs.QB, scale: scale, g: obialign.VerifGapPenalty(gap, scale)}
		la, lb := len(cs.A), len(cs.B)
		var score int
		var path, sm, pm []int
		res := guardT(5*time.Second, func() string {
			// on the shared arena: the matrices hold what the previous cases left there
			score, path, sm, pm = obialign.VerifFillMats(left, cs.A, cs.QA, cs.B, cs.QB, gap, scale, c08Arena)
			return "ok"
		})
		sc := make([]int, 0, la*lb)
		for i := 0; i < la; i++ {
			for j := 0; j < lb; j++ {
				sc = append(sc, ref.s(i, j))
			}
		}
		caseOverride = fmt.Sprintf("%s | %d %s", base, ref.g, c08Ints(sc))
		if res != "ok" {
			addf("fill."+lr(left)+"-"+res, "fill %s (la=%d lb=%d)", res, la, lb)
			return res, fails
		}
		if len(sm) != (la+1)*(lb+1) || len(pm) != (la+1)*(lb+1) {
			addf("fill.size", "matrices of %d / %d cells, expected %d", len(sm), len(pm), (la+1)*(lb+1))
		}
		if want, _ := ref.opt(left); score != want {
			addf("fill."+lr(left)+"-optimum", "fill returns %d, optimum of the independent DP under the %s scheme %d", score, lr(left), want)
		}
		if !c08Consumes(path, la, lb) {
			addf("fill."+lr(left)+"-consumes", "path %s does not consume (%d, %d)", c08PathStr(path), la, lb)
		} else if ps := ref.pathScore(path, left); ps != score {
			addf("fill."+lr(left)+"-path", "score %d, recomputed along the path %d", score, ps)
		}
		// the same fill on a fresh arena: every cell must be rewritten (no stale cell survives)
		r2 := guardT(5*time.Second, func() string {
			s2, p2, sm2, pm2 := obialign.VerifFillMats(left, cs.A, cs.QA, cs.B, cs.QB, gap, scale, obialign.MakePEAlignArena(1, 1))
			if s2 != score || c08PathStr(p2) != c08PathStr(path) || c08Ints(sm2) != c08Ints(sm) || c08Ints(pm2) != c08Ints(pm) {
				return "differs"
			}
			return "ok"
		})
		if r2 != "ok" {
			addf("arena.fill-stale", "fill on the shared arena and on a fresh arena: %s", r2)
		}
		cm := func(v []int) string { return strings.ReplaceAll(c08Ints(v), " ", ",") }
		return fmt.Sprintf("sc=%d p=%s M=%s P=%s", score, c08PathStr(path), cm(sm), cm(pm)), fails
	}

	gap, scale := c08Gaps[cs.gi], c08Scales[cs.si]
	ref := &c08Ref{A: cs.A, QA: cs.QA, B: cs.B, QB: cs.QB, scale: scale, g: obialign.VerifGapPenalty(gap, scale)}
	la, lb := len(cs.A), len(cs.B)
	mode := "exact"
	if cs.fast {
		mode = "fast"
	}
	stat("op:" + cs.op + "." + mode)

	// the scoring function must return finite log-odds (an int derived from NaN/Inf wraps around in the sums)
	for i := 0; i < la && len(fails) == 0; i++ {
		for j := 0; j < lb; j++ {
			if v := ref.s(i, j); v > 1<<40 || v < -(1<<40) {
				addf("score.table-nonfinite", "score of column %c/%d vs %c/%d is %d", cs.A[i], cs.QA[i], cs.B[j], cs.QB[j], v)
				break
			} else if v > 1<<20 || v < -(1<<20) {
				// hypothesis of int_model_valid (Props/C08.lean): |score| <= 2^20
				addf("score.bound-2pow20", "score of column %c/%d vs %c/%d is %d: beyond the bound under which the Int model is proved valid", cs.A[i], cs.QA[i], cs.B[j], cs.QB[j], v)
				break
			}
		}
	}

	if ref.g > 1<<20 || ref.g < -(1<<20) {
		addf("score.bound-2pow20", "gap penalty %d: beyond the bound under which the Int model is proved valid", ref.g)
	}
	c08TableOnce.Do(func() {
		// the whole tables, once per run: every entry of the match / mismatch tables, times the largest scale
		worst := 0
		for qa := 0; qa < 94; qa++ {
			for qb := 0; qb < 94; qb++ {
				for _, v := range []int{obialign.VerifMatchScore(byte(qa), byte(qb)), obialign.VerifMismatchScore(byte(qa), byte(qb))} {
					if v < 0 {
						v = -v
					}
					if v > worst {
						worst = v
					}
				}
			}
		}
		stat(fmt.Sprintf("table:max-abs-entry<=%d", 1<<uint(bitsLen(worst))))
		if worst*2 > 1<<20 {
			addf("score.bound-2pow20", "largest table entry %d (x scale 1.5) is beyond 2^20", worst)
		}
	})

	// ---- 1. PEAlign on the shared arena
	var isLeft bool
	var score, fastCount, over int
	var fastScore float64
	var path []int
	r1 := guardT(10*time.Second, func() string {
		l, s, p, fc, ov, fsc := obialign.PEAlign(seqA, seqB, gap, scale, cs.fast, cs.delta, cs.rel, c08Arena, &c08Shifts)
		isLeft, score, path, fastCount, over, fastScore = l, s, append([]int(nil), p...), fc, ov, fsc
		return "ok"
	})
	for k := range c08Shifts { // a panic may leave entries behind
		delete(c08Shifts, k)
	}
	// the 4-mer vote, real and naive
	shift, vcount, vnum, vden, strict := 0, 0, -1, 1, func(int) bool { return false }
	fsStr := "-1"
	if cs.fast {
		shift, vcount, vnum, vden, strict = c08Vote(cs.A, cs.B, cs.rel)
		var rshift, rcount int
		var rscore float64
		rv := guardT(5*time.Second, func() string {
			fresh := obialign.MakePEAlignArena(1, 1)
			_ = fresh
			var idx [][]int
			var buf []byte
			index := obikmer.Index4mer(seqA, &idx, &buf)
			rshift, rcount, rscore = obikmer.FastShiftFourMer(index, &c08Shifts, la, seqB, cs.rel, nil)
			return "ok"
		})
		if rv != "ok" {
			addf("fast.vote-"+rv, "Index4mer/FastShiftFourMer %s", rv)
		} else if rshift != shift || rcount != vcount {
			addf("fast.vote", "FastShiftFourMer returns shift %d count %d; naive diagonal vote (max score, smallest shift on ties): shift %d count %d", rshift, rcount, shift, vcount)
		} else if vnum >= 0 && rscore != float64(vnum)/float64(vden) {
			addf("fast.vote-score", "FastShiftFourMer score %v, expected %d/%d", rscore, vnum, vden)
		}
		if r1 == "ok" {
			if vnum < 0 {
				if fastScore == -1.0 {
					fsStr = "-1"
				} else {
					fsStr = "?" + strconv.FormatUint(math.Float64bits(fastScore), 16)
				}
			} else if fastScore == float64(fastCount)/float64(vden) {
				fsStr = fmt.Sprintf("%d/%d", fastCount, vden)
			} else {
				fsStr = "?" + strconv.FormatUint(math.Float64bits(fastScore), 16)
			}
		}
	}

	// augmented case line for the model
	aug := fmt.Sprintf("%s | %d %s", base, ref.g, hx(adj))

	var sb strings.Builder
	if r1 != "ok" {
		addf("pealign."+mode+"-"+r1, "PEAlign %s (la=%d lb=%d)", r1, la, lb)
		sb.WriteString(r1)
	} else {
		fmt.Fprintf(&sb, "L=%d sc=%d p=%s fc=%d ov=%d fs=%s", b2i(isLeft), score, c08PathStr(path), fastCount, over, fsStr)
	}
	if cs.op == "pe" {
		sc := make([]int, 0, la*lb)
		for i := 0; i < la; i++ {
			for j := 0; j < lb; j++ {
				sc = append(sc, ref.s(i, j))
			}
		}
		aug += " " + c08Ints(sc)
	}

	consumes := r1 == "ok" && c08Consumes(path, la, lb)
	if r1 == "ok" {
		if !consumes {
			addf("path."+mode+"-consumes", "path %s does not consume (%d, %d) exactly (shift %d)", c08PathStr(path), la, lb, shift)
		} else {
			if ps := ref.pathScore(path, isLeft); ps != score {
				cls := mode
				if cs.fast && !(vcount+3 < over) {
					cls = "fast-identical"
				}
				addf("score."+cls+"-path", "reported score %d, score recomputed along the path (%s scheme) %d", score, lr(isLeft), ps)
			}
		}
		if !cs.fast {
			oL, nL := ref.opt(true)
			oR, _ := ref.opt(false)
			want := max(oL, oR)
			if score != want {
				addf("score.exact-optimum", "reported score %d, optimum of the independent DP %d (left %d, right %d)", score, want, oL, oR)
			}
			if consumes {
				if ps := ref.pathScore(path, isLeft); ps != want {
					addf("path.exact-optimum", "returned path scores %d under the %s scheme, optimum is %d (left %d, right %d)", ps, lr(isLeft), want, oL, oR)
				}
			}
			if isLeft != (oL > oR) {
				addf("path.exact-side", "isLeft=%v but optimum left %d right %d", isLeft, oL, oR)
			}
			_ = nL
		}
	}
	if cs.op == "pl" {
		ps := []int{}
		if consumes {
			i, j := 0, 0
			for k := 0; k < len(path); k += 2 {
				if path[k] < 0 {
					i -= path[k]
				} else {
					j += path[k]
				}
				for n := 0; n < path[k+1]; n++ {
					ps = append(ps, ref.s(i, j))
					i++
					j++
				}
			}
		}
		pss := "-"
		if len(ps) > 0 {
			pss = strings.ReplaceAll(c08Ints(ps), " ", ",")
		}
		aug += fmt.Sprintf(" %d %s %s", b2i(isLeft), c08PathStr(path), pss)
	}
	caseOverride = aug

	// ---- 2. the same alignment on a fresh arena: the result must not depend on the arena's history
	if r1 == "ok" {
		r2 := guardT(10*time.Second, func() string {
			fresh := obialign.MakePEAlignArena(la, lb)
			sh := map[int]int{}
			l, s, p, fc, ov, fsc := obialign.PEAlign(seqA, seqB, gap, scale, cs.fast, cs.delta, cs.rel, fresh, &sh)
			if l != isLeft || s != score || c08PathStr(p) != c08PathStr(path) || fc != fastCount || ov != over || fsc != fastScore {
				return fmt.Sprintf("L=%v sc=%d p=%s fc=%d ov=%d", l, s, c08PathStr(p), fc, ov)
			}
			return "ok"
		})
		if r2 != "ok" {
			addf("arena.reuse", "shared arena: L=%v sc=%d p=%s; fresh arena: %s", isLeft, score, c08PathStr(path), r2)
		}
	}

	// ---- 3. consensus along the returned path
	var cseq, cqual []byte
	cmatch := 0
	r3 := "skip"
	if r1 == "ok" {
		r3 = guardT(5*time.Second, func() string {
			cons, m := obialign.BuildQualityConsensus(seqA, seqB, path, true, c08Arena)
			cseq, cqual, cmatch = append([]byte(nil), cons.Sequence()...), append([]byte(nil), cons.Qualities()...), m
			return "ok"
		})
		if r3 != "ok" {
			if consumes {
				addf("cons."+r3, "BuildQualityConsensus %s on a consuming path", r3)
			}
			fmt.Fprintf(&sb, " | %s", r3)
		} else {
			fmt.Fprintf(&sb, " | c=%s q=%s m=%d", hx(cseq), hx(cqual), cmatch)
			if consumes {
				fails = append(fails, c08ConsOracle("cons", cs, path, cseq, cqual)...)
			}
		}
	}

	// ---- 4. AssemblePESequences
	r4 := guardT(10*time.Second, func() string {
		minid := float64(cs.idn) / float64(cs.idd)
		out := obipairing.AssemblePESequences(seqA, seqB, gap, scale, cs.delta, cs.minov, minid, true, false,
			cs.fast, cs.rel, c08Arena, &c08Shifts)
		an := out.Annotations()
		geti := func(k string) (int, bool) {
			v, ok := an[k]
			if !ok {
				return 0, false
			}
			x, ok := v.(int)
			return x, ok
		}
		md, _ := an["mode"].(string)
		dir := "-"
		if d, ok := an["ali_dir"].(string); ok {
			dir = d
		}
		as, okA := geti("seq_a_single")
		bs, okB := geti("seq_b_single")
		al, _ := geti("ali_length")
		ma, _ := geti("seq_ab_match")
		sc, _ := geti("score")
		oseq := append([]byte(nil), out.Sequence()...)
		oq := append([]byte(nil), out.Qualities()...)
		ass, bss := "-", "-"
		if okA {
			ass = strconv.Itoa(as)
		}
		if okB {
			bss = strconv.Itoa(bs)
		}
		// oracle on the record
		if consumes && r3 == "ok" {
			lead, trail := 0, 0 // single-read columns at both ends of the path, signed (A negative)
			// empty (0,0) runs at the end carry no column: the end gap is the last non-empty run
			np := path
			for len(np) > 2 && np[len(np)-1] == 0 && np[len(np)-2] == 0 {
				np = np[:len(np)-2]
			}
			lead = np[0]
			if np[len(np)-1] == 0 && len(np) > 2 {
				trail = np[len(np)-2]
			}
			// columns at the two ends where only A / only B is present
			aOnly, bOnly := 0, 0
			for _, v := range []int{lead, trail} {
				if v < 0 {
					aOnly -= v
				} else {
					bOnly += v
				}
			}
			wantAli := len(cseq) - aOnly - bOnly
			if al != wantAli {
				addf("stats.ali-length", "ali_length %d, consensus of %d columns with %d leading/trailing single-read columns", al, len(cseq), aOnly+bOnly)
			}
			if ma != cmatch {
				addf("stats.match", "seq_ab_match %d, BuildQualityConsensus counted %d", ma, cmatch)
			}
			if sc != score {
				addf("stats.score", "score annotation %d, PEAlign returned %d", sc, score)
			}
			idOK := wantAli > 0 && cmatch*cs.idd >= cs.idn*wantAli || wantAli <= 0 && cs.idn == 0
			wantMode := "join"
			if wantAli >= cs.minov && idOK {
				wantMode = "alignment"
			}
			if md != wantMode {
				addf("stats.mode", "mode %q, expected %q (ali_length %d, min overlap %d, %d matches, min identity %d/%d)", md, wantMode, wantAli, cs.minov, cmatch, cs.idn, cs.idd)
			}
			if md == "alignment" {
				if string(oseq) != string(cseq) || string(oq) != string(cqual) {
					addf("stats.sequence", "alignment mode: record differs from the consensus of the path")
				}
				if okA && okB {
					if al+as+bs != len(oseq) {
						addf("stats.sum", "ali_length %d + seq_a_single %d + seq_b_single %d != %d", al, as, bs, len(oseq))
					}
					if as != aOnly || bs != bOnly {
						addf("stats.single-side", "seq_a_single %d seq_b_single %d (ali_dir %s), but the path has %d end columns from A only and %d from B only (path %s)", as, bs, dir, aOnly, bOnly, c08PathStr(path))
					}
					if (dir == "left") != isLeft {
						addf("stats.dir", "ali_dir %s, isLeft %v", dir, isLeft)
					}
				} else {
					addf("stats.missing", "seq_a_single / seq_b_single missing in alignment mode")
				}
			}
			if md == "join" {
				want := string(cs.A) + ".........." + string(cs.B)
				if string(oseq) != want || len(oq) != len(oseq) {
					addf("stats.join", "join mode: sequence is not A + 10 dots + B")
				}
			}
		}
		// ---- the fast-mode annotations and the effect of the options
		fcA, okFc := geti("paring_fast_count")
		ovA, okOv := geti("paring_fast_overlap")
		fsA, okFs := an["paring_fast_score"].(float64)
		if cs.fast && r1 == "ok" && md == "join" && !(okFc || okOv || okFs) {
			// the fast annotations are written on the consensus record, which join mode discards
			stat("annot:fast-dropped-in-join")
		} else if cs.fast && r1 == "ok" {
			if !okFc || !okOv || !okFs {
				addf("annot.fast-missing", "fast mode: paring_fast_count/overlap/score present %v/%v/%v", okFc, okOv, okFs)
			} else {
				if fcA != fastCount || ovA != over {
					addf("annot.fast-count", "paring_fast_count %d paring_fast_overlap %d, PEAlign returned %d / %d", fcA, ovA, fastCount, over)
				}
				if fsA != math.Round(fastScore*1000)/1000 {
					addf("annot.fast-score", "paring_fast_score %v, PEAlign returned %v", fsA, fastScore)
				}
				if !cs.rel && vnum >= 0 && fsA != float64(fastCount) {
					addf("annot.fast-absolute", "absolute fast score %v is not the 4-mer count %d", fsA, fastCount)
				}
				if cs.rel && vnum >= 0 && fsA != math.Round(float64(vnum)/float64(vden)*1000)/1000 {
					addf("annot.fast-relative", "relative fast score %v is not %d/%d", fsA, vnum, vden)
				}
			}
		} else if !cs.fast && (okFc || okOv || okFs) {
			addf("annot.exact-fast", "exact mode: paring_fast_* annotations present")
		}
		if consumes && r3 == "ok" {
			run := func(minov int, minid float64, stats bool) (*obiseq.BioSequence, string) {
				o := obipairing.AssemblePESequences(seqA, seqB, gap, scale, cs.delta, minov, minid, stats, false,
					cs.fast, cs.rel, c08Arena, &c08Shifts)
				m, _ := o.Annotations()["mode"].(string)
				return o, m
			}
			// one base more than the aligned length: always a join; no threshold: always the alignment
			if o, m := run(al+1, 0, true); m != "join" || string(o.Sequence()) != string(cs.A)+".........."+string(cs.B) {
				addf("option.min-overlap", "min-overlap %d > ali_length %d: mode %q", al+1, al, m)
			}
			if al >= 0 {
				if o, m := run(al, 0, true); m != "alignment" || string(o.Sequence()) != string(cseq) {
					addf("option.min-overlap-eq", "min-overlap = ali_length = %d, min-identity 0: mode %q", al, m)
				}
				if al > 0 && ma < al {
					if _, m := run(0, 1, true); m != "join" {
						addf("option.min-identity", "min-identity 1 with %d matches on %d columns: mode %q", ma, al, m)
					}
					if _, m := run(0, float64(ma)/float64(al), true); m != "alignment" {
						addf("option.min-identity-eq", "min-identity = identity = %d/%d: mode %q", ma, al, m)
					}
				}
				// without statistics: the mode is still there, the statistics are not
				o, m := run(0, 0, false)
				a2 := o.Annotations()
				_, h1 := a2["score"]
				_, h2 := a2["ali_length"]
				_, h3 := a2["seq_a_single"]
				_, h4 := a2["ali_dir"]
				if m != "alignment" || h1 || h2 || h3 || h4 {
					addf("option.no-stats", "withStats=false: mode %q, score/ali_length/seq_a_single/ali_dir present %v/%v/%v/%v", m, h1, h2, h3, h4)
				}
			}
		}
		return fmt.Sprintf("%s s=%s q=%s dir=%s as=%s bs=%s al=%d ma=%d sc=%d ann=%s", md, hx(oseq), hx(oq), dir, ass, bss, al, ma, sc,
			c08Annotations(an, al, ma, vnum, vden))
	})
	for k := range c08Shifts {
		delete(c08Shifts, k)
	}
	if r4 == "panic" || r4 == "fatal" || r4 == "hang" {
		if consumes {
			addf("assemble."+r4, "AssemblePESequences %s", r4)
		} else if r1 != "ok" {
			// same root cause as PEAlign, already reported
		} else {
			addf("assemble."+mode+"-"+r4, "AssemblePESequences %s (path %s does not consume the reads)", r4, c08PathStr(path))
		}
	}
	fmt.Fprintf(&sb, " | %s", r4)

	// ---- 5. error-free reads are reassembled into the original fragment
	if cs.F != nil && cs.a0+la <= len(cs.F) && cs.b0+lb <= len(cs.F) &&
		string(cs.F[cs.a0:cs.a0+la]) == string(cs.A) && string(cs.F[cs.b0:cs.b0+lb]) == string(cs.B) {
		lo, hi := min(cs.a0, cs.b0), max(cs.a0+la, cs.b0+lb)
		ov := min(cs.a0+la, cs.b0+lb) - max(cs.a0, cs.b0)
		if ov >= 1 {
			frag := cs.F[lo:hi]
			// the true path
			var tp []int
			if cs.a0 < cs.b0 {
				tp = append(tp, -(cs.b0 - cs.a0), ov)
			} else {
				tp = append(tp, cs.a0-cs.b0, ov)
			}
			switch ea, eb := cs.a0+la, cs.b0+lb; {
			case ea < eb:
				tp = append(tp, eb-ea, 0)
			case ea > eb:
				tp = append(tp, -(ea - eb), 0)
			}
			stat("errorfree:" + mode)
			if !cs.fast {
				// hypothesis: the true path is the unique optimum of the better scheme
				oL, nL := ref.opt(true)
				oR, nR := ref.opt(false)
				tL, tR := ref.pathScore(tp, true), ref.pathScore(tp, false)
				hyp := (oL > oR && tL == oL && nL == 1) || (!(oL > oR) && tR == oR && nR == 1)
				if cs.op == "pe" && r1 == "ok" && r3 == "ok" && r4 != "panic" && r4 != "fatal" && r4 != "hang" {
					// both formulations of the uniqueness hypothesis, per scheme: here "the independent DP counts one
					// optimal path and the true path reaches the optimum"; the model prints strictAlong of the true path
					fmt.Fprintf(&sb, " sa=%d%d", b2i(tL == oL && nL == 1), b2i(tR == oR && nR == 1))
					if (tL == oL && nL == 1) || (tR == oR && nR == 1) {
						stat("errorfree:strict-some-scheme")
					}
				}
				contained := (cs.a0 < cs.b0 && cs.a0+la > cs.b0+lb) || (cs.b0 < cs.a0 && cs.b0+lb > cs.a0+la)
				if hyp {
					stat("errorfree:exact-unique-optimum")
					if r3 != "ok" || string(cseq) != string(frag) {
						addf("reassembly.exact", "error-free reads (overlap %d), true path %s is the unique optimum; consensus %q != fragment %q", ov, c08PathStr(tp), cseq, frag)
					}
				} else if contained && ov >= max(cs.minov, 4) && (r3 != "ok" || string(cseq) != string(frag)) {
					// strict containment: neither scheme has both overhangs of the same read free (by design)
					addf("reassembly.exact-containment", "error-free reads, one strictly contained in the other (overlap %d, true path %s scores %d/%d, optimum %d/%d); path %s; consensus %q != fragment %q", ov, c08PathStr(tp), tL, tR, oL, oR, c08PathStr(path), cseq, frag)
				} else if !contained {
					stat("errorfree:exact-ambiguous")
					if r3 != "ok" || string(cseq) != string(frag) {
						stat("errorfree:exact-ambiguous-differs")
						if ov >= 20 {
							stat("errorfree:exact-ambiguous-differs-ov20")
							if c08Debug {
								addf("debug.ambiguous", "ov %d tp %s tL %d tR %d oL %d(%d) oR %d(%d) path %s", ov, c08PathStr(tp), tL, tR, oL, nL, oR, nR, c08PathStr(path))
							}
						}
					}
				}
			} else {
				if strict(cs.b0 - cs.a0) {
					stat("errorfree:fast-strict-maximiser")
					if r3 != "ok" || string(cseq) != string(frag) {
						geo := "overlap"
						if (cs.a0 <= cs.b0 && cs.a0+la >= cs.b0+lb) || (cs.b0 <= cs.a0 && cs.b0+lb >= cs.a0+la) {
							geo = "containment"
						}
						addf("reassembly.fast-"+geo, "error-free reads (overlap %d, true offset %d is the strict maximiser of the 4-mer vote, delta %d); path %s; consensus %q != fragment %q", ov, cs.b0-cs.a0, cs.delta, c08PathStr(path), cseq, frag)
					}
				}
			}
		}
	}
	stat("outcome:" + strings.Fields(sb.String())[0][:1])
	return sb.String(), fails
}

// c08Thousandths prints math.Round(x*1000) of a float annotation that is a rounded ratio num/den of small
// integers; "~" when the exact ratio sits on a rounding boundary (float and exact rounding may differ there).
func c08Thousandths(v float64, num, den int) string {
	if den > 0 && num >= 0 && (2000*num)%(2*den) == den {
		return "~"
	}
	return strconv.Itoa(int(math.Round(v * 1000)))
}

// c08Annotations prints EVERY annotation of the record, keys sorted, in the canonical form of the model
// (Model/PEAnnot.lean `annotations`): an unexpected or a missing key is a correspondence mismatch.
func c08Annotations(an obiseq.Annotation, al, ma, vnum, vden int) string {
	keys := make([]string, 0, len(an))
	for k := range an {
		keys = append(keys, k)
	}
	sort.Strings(keys)
	ents := make([]string, 0, len(keys))
	for _, k := range keys {
		var val string
		switch x := an[k].(type) {
		case int:
			val = strconv.Itoa(x)
		case string:
			val = x
		case float64:
			switch k {
			case "score_norm":
				val = c08Thousandths(x, ma, al)
			case "paring_fast_score":
				if vnum < 0 {
					val = strconv.Itoa(int(math.Round(x * 1000)))
				} else {
					val = c08Thousandths(x, vnum, vden)
				}
			default:
				val = "float?" + strconv.FormatUint(math.Float64bits(x), 16)
			}
		case map[string]int:
			ks := make([]string, 0, len(x))
			for kk := range x {
				ks = append(ks, kk)
			}
			sort.Strings(ks)
			for i, kk := range ks {
				ks[i] = kk + ":" + strconv.Itoa(x[kk])
			}
			val = "{" + strings.Join(ks, ",") + "}"
		default:
			val = fmt.Sprintf("?%T", x)
		}
		ents = append(ents, k+"="+strings.ReplaceAll(val, " ", "_"))
	}
	return strings.Join(ents, ";")
}

func b2i(b bool) int {
	if b {
		return 1
	}
	return 0
}

func lr(left bool) string {
	if left {
		return "left"
	}
	return "right"
}
