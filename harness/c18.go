//go:build c18

package main

import (
	"bytes"
	"compress/gzip"
	"context"
	"errors"
	"fmt"
	"io"
	"math/rand"
	"os"
	"os/exec"
	"path/filepath"
	"runtime"
	"strconv"
	"strings"
	"sync"
	"syscall"
	"time"

	log "github.com/sirupsen/logrus"

	"git.metabarcoding.org/obitools/obitools4/obitools4/pkg/obiformats"
	"git.metabarcoding.org/obitools/obitools4/obitools4/pkg/obiiter"
	"git.metabarcoding.org/obitools/obitools4/obitools4/pkg/obiseq"
	"git.metabarcoding.org/obitools/obitools4/obitools4/pkg/obiutils"
)

type c18 struct{}

func init() { props["C18"] = c18{} }

// failSink accepts `limit` bytes, then fails every write; Close can fail too.
type failSink struct {
	mu       sync.Mutex
	limit    int
	buf      bytes.Buffer
	closeErr bool
	closes   int
	ek       int   // kind of the errors returned (c18Kinds)
	werr     error // the error returned by the failing writes (set lazily: one value, as a sticky device error)
	calls    []int // size of every Write call received (the write boundaries of the layer above)
	failedAt int   // number of Write calls received before the first failing one (-1: none yet)
}

var errSinkFull = errors.New("no space left on device")

// the KINDS of error an output can return: the writers must treat every one of them as fatal
var c18Kinds = []string{"plain", "epipe", "enospc", "eio", "shortwrite", "closedpipe", "osclosed", "ctx-epipe", "bare-epipe", "eagain", "ctx-ctx-enospc", "deadline", "ctx-canceled"}

func c18Err(ek int, op string) error {
	pe := func(e error) error { return &os.PathError{Op: op, Path: "/injected/out", Err: e} }
	switch ek {
	case 1:
		return pe(syscall.EPIPE) // what (*os.File).Write returns on a pipe whose reader is gone
	case 2:
		return pe(syscall.ENOSPC)
	case 3:
		return pe(syscall.EIO)
	case 4:
		return io.ErrShortWrite
	case 5:
		return io.ErrClosedPipe
	case 6:
		return pe(os.ErrClosed)
	case 7:
		return fmt.Errorf("writing the result: %w", pe(syscall.EPIPE))
	case 8:
		return syscall.EPIPE
	case 9:
		return pe(syscall.EAGAIN) // Temporary() and Timeout() are true
	case 10:
		return fmt.Errorf("flush: %w", fmt.Errorf("device: %w", syscall.ENOSPC))
	case 11:
		return pe(os.ErrDeadlineExceeded)
	case 12:
		return fmt.Errorf("%s interrupted: %w", op, context.Canceled)
	}
	if op == "close" {
		return errors.New("close: input/output error")
	}
	return errSinkFull
}

func (s *failSink) Write(p []byte) (int, error) {
	s.mu.Lock()
	defer s.mu.Unlock()
	n := len(p)
	if room := s.limit - s.buf.Len(); n > room {
		n = room
	}
	if n < 0 {
		n = 0
	}
	s.buf.Write(p[:n])
	s.calls = append(s.calls, len(p))
	if n < len(p) {
		if s.werr == nil {
			s.werr = c18Err(s.ek, "write")
			s.failedAt = len(s.calls) - 1
		}
		return n, s.werr
	}
	return n, nil
}

func (s *failSink) Close() error {
	s.mu.Lock()
	defer s.mu.Unlock()
	s.closes++
	if s.closeErr {
		return c18Err(s.ek, "close")
	}
	return nil
}

func c18Record(k, j int, withQual bool) *obiseq.BioSequence {
	r := rand.New(rand.NewSource(int64(k*1000 + j + 11)))
	n := 20 + r.Intn(120)
	sq := make([]byte, n)
	for i := range sq {
		sq[i] = "acgt"[r.Intn(4)]
	}
	s := obiseq.NewBioSequence(fmt.Sprintf("s%d_%d", k, j), sq, "")
	s.SetAttribute("count", 1+r.Intn(50))
	if withQual {
		q := make([]byte, n)
		for i := range q {
			q[i] = byte(r.Intn(42))
		}
		s.SetQualities(q)
	}
	return s
}

func c18Batch(k, n int, withQual bool) obiiter.BioSequenceBatch {
	sl := obiseq.MakeBioSequenceSlice()
	for j := 0; j < n; j++ {
		sl = append(sl, c18Record(k, j, withQual))
	}
	return obiiter.MakeBioSequenceBatch("src", k, sl)
}

type c18Arr struct{ order, n int }

// c18Start starts the real writer over the sink with the forced arrival order (one formatting worker).
func c18Start(w string, gz bool, own bool, arrival []c18Arr, out io.WriteCloser) (obiiter.IBioSequence, error) {
	opts := []obiformats.WithOption{obiformats.OptionsParallelWorkers(1), obiformats.OptionsCompressed(gz)}
	if own {
		opts = append(opts, obiformats.OptionCloseFile())
	} else {
		opts = append(opts, obiformats.OptionDontCloseFile())
	}
	it := obiiter.MakeIBioSequence()
	it.Add(1)
	go func() {
		for _, a := range arrival {
			it.Push(c18Batch(a.order, a.n, w == "fastq"))
		}
		it.Done()
	}()
	go it.WaitAndClose()
	switch w {
	case "fasta":
		return obiformats.WriteFasta(it, out, opts...)
	case "fastq":
		return obiformats.WriteFastq(it, out, opts...)
	case "json":
		return obiformats.WriteJSON(it, out, opts...)
	case "csv":
		return obiformats.WriteCSV(it, out, opts...)
	}
	return obiiter.NilIBioSequence, errors.New("bad-op")
}

type closeCounter interface{ nclosed() int }

// c18Run drives the real writer over the sink and waits as the commands' main() does.
func c18Run(w string, gz bool, own bool, arrival []c18Arr, out io.WriteCloser) string {
	return guardT(6*time.Second, func() string {
		ni, err := c18Start(w, gz, own, arrival, out)
		if err != nil {
			if err.Error() == "bad-op" {
				return "bad-op"
			}
			return "fatal"
		}
		ni.Consume()
		if c18IsChild() {
			// exactly what the commands' main() does: wait for the pipe registry, then exit.  (Usable
			// because such cases run in a child process of their own: the registry is process wide and
			// is left unbalanced by every writer that died in log.Fatal.)
			obiiter.WaitForLastPipe()
			return "ok"
		}
		// in the parent process the global pipe registry cannot be used (a writer that died in log.Fatal never
		// unregisters): wait for the Close of the sink, the last thing the writer goroutine does
		if fs, ok := out.(closeCounter); ok && own {
			for i := 0; i < 2000; i++ {
				if fs.nclosed() > 0 {
					return "ok"
				}
				time.Sleep(time.Millisecond)
			}
			return "hang"
		}
		return "ok"
	})
}

func (s *failSink) nclosed() int {
	s.mu.Lock()
	defer s.mu.Unlock()
	return s.closes
}

// behSink is a scripted io.Writer: short writes with a nil error, temporary errors (the model: Dev).
type behSink struct {
	mu       sync.Mutex
	kind     string // short | temp | partial | errfull
	a, b     int
	calls    int
	buf      bytes.Buffer
	closeErr bool
	closes   int
	ek       int
}

func (s *behSink) Write(p []byte) (int, error) {
	s.mu.Lock()
	defer s.mu.Unlock()
	c := s.calls
	s.calls++
	n, fail := len(p), false
	switch s.kind {
	case "short":
		if n > s.a {
			n = s.a
		}
	case "temp":
		if c == s.a {
			n, fail = 0, true
		}
	case "partial":
		if c == s.a {
			if n > s.b {
				n = s.b
			}
			fail = true
		}
	case "errfull":
		if c == s.a {
			fail = true
		}
	}
	s.buf.Write(p[:n])
	if fail {
		if s.ek == 0 {
			return n, errors.New("input/output error (temporary)")
		}
		return n, c18Err(s.ek, "write")
	}
	return n, nil
}

func (s *behSink) Close() error {
	s.mu.Lock()
	defer s.mu.Unlock()
	s.closes++
	if s.closeErr {
		return c18Err(s.ek, "close")
	}
	return nil
}

func (s *behSink) nclosed() int {
	s.mu.Lock()
	defer s.mu.Unlock()
	return s.closes
}

// ---------------------------------------------------------------------------------------------
// generation

var c18Writers = []string{"fasta", "fastq", "json", "csv"}

func c18ArrStr(arr []c18Arr) string {
	parts := make([]string, len(arr))
	for i, a := range arr {
		parts[i] = fmt.Sprintf("%d:%d:-", a.order, a.n)
	}
	return strings.Join(parts, " ")
}

func c18RandArr(rng *rand.Rand, maxb, maxn int) ([]c18Arr, int) {
	nb := 1 + rng.Intn(maxb)
	perm := rng.Perm(nb)
	arr := make([]c18Arr, nb)
	total := 0
	for i, o := range perm {
		m := rng.Intn(maxn)
		if rng.Intn(4) == 0 {
			m = 0
		}
		arr[i] = c18Arr{o, m}
		total += m * 130
	}
	return arr, total
}

// the commands run as subprocesses: name -> can take `-o`
var c18Commands = []string{"obiconvert", "obigrep", "obiannotate", "obiuniq", "obicomplement", "obipairing", "obicsv", "obidistribute"}

// commands whose second output is written by a goroutine that registers its pipes itself (dynamic registration): only the dyn-* scenarios
var c18DynCommands = []string{"obimultiplex", "obitagpcr"}

func (c18) Gen(rng *rand.Rand, tier string, emit func(string)) {
	var lines []string
	add := func(l string) { lines = append(lines, l) }
	oneE := func(w string, gz int, k string, cf, own, ek int, arr []c18Arr) {
		add(fmt.Sprintf("%s gz=%d k=%s cf=%d zlen=0 own=%d ek=%d %s", w, gz, k, cf, own, ek, c18ArrStr(arr)))
	}
	oneK := func(w string, gz int, k string, cf, own int, arr []c18Arr) { oneE(w, gz, k, cf, own, 0, arr) }
	oneOwn := func(w string, gz, k, cf, own int, arr []c18Arr) { oneK(w, gz, strconv.Itoa(k), cf, own, arr) }
	one := func(w string, gz, k, cf int, arr []c18Arr) { oneOwn(w, gz, k, cf, 1, arr) }
	small := []c18Arr{{0, 2}, {1, 1}}
	big := []c18Arr{{1, 30}, {0, 30}, {2, 30}} // chunk 1 is written from the buffer (drained)
	// corpus: small result (< 4 KiB: reaches the sink only at the final flush), drained chunks, close failure
	for _, w := range c18Writers {
		for _, k := range []int{0, 1, 100, 300, 1 << 20} {
			one(w, 0, k, 0, small)
		}
		one(w, 0, 1<<20, 1, small)
		for _, k := range []int{0, 2000, 4095, 4096, 4097, 5000, 9000, 12000, 1 << 20} {
			one(w, 0, k, 0, big)
		}
		// the fault falls on the last byte / nothing is missing: k = result size - 1, result size, result size + 1
		for _, k := range []string{"z-1", "z", "z+1"} {
			oneK(w, 0, k, 0, 1, small)
			oneK(w, 0, k, 0, 1, big)
			oneK(w, 1, k, 0, 1, small) // compressed: the fault falls in the gzip trailer
			oneK(w, 0, k, 0, 0, small)
		}
		oneK(w, 1, "z-1", 0, 0, big)
		oneK(w, 1, "z-8", 0, 1, big) // first byte of the trailer
		oneK(w, 1, "z-9", 0, 1, big) // last byte of the last block
		oneK(w, 1, "z", 1, 1, small)
		one(w, 1, 0, 0, small)
		one(w, 1, 9, 0, small)  // inside the gzip header
		one(w, 1, 10, 0, small) // header written, nothing else
		one(w, 1, 1<<20, 0, small)
		one(w, 1, 200, 0, big)
		// a writer that does not own its output (what the ...ToStdout variants use)
		for _, k := range []int{0, 100, 1 << 20} {
			oneOwn(w, 0, k, 0, 0, small)
		}
		oneOwn(w, 0, 1<<20, 1, 0, small) // a failing Close that is never called
		oneOwn(w, 0, 5000, 0, 0, big)
		oneOwn(w, 1, 10, 0, 0, small)
		// every KIND of error at every kind of fault point: first write, final flush of a small result, a chunk written
		// in turn, a chunk drained from the buffer, the last byte, Close of the output, gzip header / blocks / trailer
		for ek := 1; ek < len(c18Kinds); ek++ {
			oneE(w, 0, "0", 0, 1, ek, small)
			oneE(w, 0, "100", 0, 1, ek, small)  // surfaces at the final flush only
			oneE(w, 0, "2000", 0, 1, ek, big)   // chunk 0, written in turn
			oneE(w, 0, "5000", 0, 1, ek, big)   // chunk 1, drained from the re-sequencing buffer
			oneE(w, 0, "z-1", 0, 1, ek, big)    // last byte
			oneE(w, 0, "z", 1, 1, ek, small)    // only Close fails
			oneE(w, 0, "100", 0, 0, ek, small)  // not owned
			oneE(w, 1, "z/2", 0, 1, ek, small)  // compressed: last block
			oneE(w, 1, []string{"9", "z-1", "z-8", "10"}[ek%4], 0, 1, ek, big)
		}
		for _, ek := range []int{1, 7, 8} {
			add(fmt.Sprintf("dev %s beh=temp:1 cf=0 own=1 ek=%d %s", w, ek, c18ArrStr(big)))
			add(fmt.Sprintf("dev %s beh=partial:0:7 cf=0 own=1 ek=%d %s", w, ek, c18ArrStr(big)))
			add(fmt.Sprintf("multi %s gz=0 own=1 / k=1048576 cf=0 zlen=0 ek=%d %s / k=100 cf=0 zlen=0 ek=%d %s", w, ek, c18ArrStr(small), ek, c18ArrStr(small)))
		}
		// scripted io.Writer: short writes with a nil error, temporary errors
		for _, beh := range []string{"short:1", "short:100", "short:4096", "short:5000", "temp:0", "temp:1", "temp:2", "partial:0:7", "partial:1:100", "errfull:0", "errfull:1"} {
			add(fmt.Sprintf("dev %s beh=%s cf=0 own=1 %s", w, beh, c18ArrStr(big)))
		}
		add(fmt.Sprintf("dev %s beh=short:4096 cf=0 own=1 %s", w, c18ArrStr(small)))
		add(fmt.Sprintf("dev %s beh=short:3 cf=0 own=0 %s", w, c18ArrStr(small)))
		add(fmt.Sprintf("dev %s beh=temp:0 cf=1 own=1 %s", w, c18ArrStr(small)))
		add(fmt.Sprintf("dev %s beh=temp:9 cf=1 own=0 %s", w, c18ArrStr(small)))
		// several writers in one process (paired files, obidistribute, --unidentified): one of them fails
		add(fmt.Sprintf("multi %s gz=0 own=1 / k=1048576 cf=0 zlen=0 %s / k=100 cf=0 zlen=0 %s", w, c18ArrStr(small), c18ArrStr(small)))
		add(fmt.Sprintf("multi %s gz=0 own=1 / k=z-1 cf=0 zlen=0 %s / k=1048576 cf=0 zlen=0 %s / k=1048576 cf=0 zlen=0 %s", w, c18ArrStr(small), c18ArrStr(big), c18ArrStr(small)))
		add(fmt.Sprintf("multi %s gz=0 own=1 / k=1048576 cf=0 zlen=0 %s / k=1048576 cf=1 zlen=0 %s", w, c18ArrStr(big), c18ArrStr(small)))
		add(fmt.Sprintf("multi %s gz=1 own=1 / k=1048576 cf=0 zlen=0 %s / k=z-1 cf=0 zlen=0 %s", w, c18ArrStr(small), c18ArrStr(small)))
		add(fmt.Sprintf("multi %s gz=0 own=1 / k=z cf=0 zlen=0 %s / k=z cf=0 zlen=0 %s / k=z+1 cf=0 zlen=0 %s", w, c18ArrStr(small), c18ArrStr(big), c18ArrStr(small)))
	}
	// the real WriterDispatcher (obidistribute) over injected sinks: one file per key, one of them fails
	for _, w := range []string{"fasta", "fastq"} {
		for _, k := range []string{"0", "100", "z-1", "z/2", "4096", "z"} {
			add(fmt.Sprintf("disp %s gz=0 own=1 / k=1048576 cf=0 zlen=0 0:7:- / k=%s cf=0 zlen=0 0:60:- / k=1048576 cf=0 zlen=0 0:3:-", w, k))
		}
		add(fmt.Sprintf("disp %s gz=1 own=1 / k=z-1 cf=0 zlen=0 0:7:- / k=1048576 cf=0 zlen=0 0:60:-", w))
		add(fmt.Sprintf("disp %s gz=0 own=1 / k=1048576 cf=0 zlen=0 0:7:- / k=1048576 cf=1 zlen=0 0:5:-", w))
		add(fmt.Sprintf("disp %s gz=0 own=1 / k=z cf=0 zlen=0 0:7:- / k=z+1 cf=0 zlen=0 0:45:-", w))
		for _, ek := range []int{1, 2, 5, 7, 8} {
			add(fmt.Sprintf("disp %s gz=0 own=1 / k=1048576 cf=0 zlen=0 ek=%d 0:7:- / k=z/2 cf=0 zlen=0 ek=%d 0:60:-", w, ek, ek))
		}
	}
	// obiutils.Wfile directly, a fault at every offset of the stream (in-process sweep), every error kind
	for ek := 0; ek < len(c18Kinds); ek++ {
		// compressed, every offset of a small stream (each run of pgzip allocates its 1 MiB block buffers: kept small)
		add(fmt.Sprintf("wf gz=1 own=1 cf=0 ek=%d ks=all zlen=0 g%dx70 - g%dx50", ek, ek+1, ek+2))
		add(fmt.Sprintf("wf gz=%d own=1 cf=0 ek=%d ks=bounds zlen=0 g%dx4096 g%dx1 g%dx4095 g%dx9000", ek%2, ek, ek+1, ek+2, ek+3, ek+4))
		add(fmt.Sprintf("wf gz=0 own=1 cf=0 ek=%d ks=all zlen=0 g%dx30 g%dx70 - g%dx20", ek, ek+1, ek+2, ek+3))
	}
	// uncompressed, every offset of a stream larger than the buffer (buffered chunk, direct write of a large chunk)
	add("wf gz=0 own=1 cf=0 ek=1 ks=all zlen=0 g1x300 g2x4200 - g3x200")
	add("wf gz=0 own=0 cf=0 ek=8 ks=all zlen=0 g1x4096 g2x1 g3x300")
	if tier == "thorough" {
		add("wf gz=1 own=1 cf=0 ek=7 ks=all zlen=0 g1x700 g2x5000 - g3x300")
	}
	add("wf gz=0 own=1 cf=1 ek=3 ks=bounds zlen=0 g1x700 g2x5000")
	add("wf gz=1 own=1 cf=1 ek=1 ks=bounds zlen=0 g1x700 g2x5000")
	add("wf gz=0 own=0 cf=1 ek=1 ks=bounds zlen=0 g1x700 g2x5000")
	add("wf gz=1 own=0 cf=1 ek=7 ks=all zlen=0 g1x70 g2x50")
	add("wf gz=1 own=1 cf=0 ek=0 ks=all zlen=0")    // nothing is ever written: header, empty last block and trailer at Close
	add("wf gz=0 own=1 cf=0 ek=0 ks=all zlen=0 - -") // empty result
	if tier == "thorough" {
		// more than two pgzip blocks (1 MiB of input each): faults at every write boundary of the listener goroutine
		add(fmt.Sprintf("wf gz=1 own=1 cf=0 ek=%d ks=bounds zlen=0 g7x1200000 g8x1100000 g9x50000", 1+rng.Intn(len(c18Kinds)-1)))
	}
	// the real commands as subprocesses: cmd <command> <scenario> <nrecords> <k> <format>
	cmd := func(name, sc string, n, k int, fm string) { add(fmt.Sprintf("cmd %s %s %d %d %s", name, sc, n, k, fm)) }
	cmd("obiconvert", "devfull", 3, 0, "fasta")
	cmd("obiconvert", "devfull", 2000, 0, "fasta")
	cmd("obiconvert", "closedpipe", 2000, 0, "fasta")
	for _, name := range c18Commands {
		fm := "fasta"
		if name == "obipairing" {
			fm = "fastq"
		}
		if name == "obicsv" {
			fm = "csv"
		}
		if name == "obidistribute" {
			for _, fm := range []string{"fasta", "fastq", "gz"} {
				cmd(name, "distribute", 40, 0, fm)
				cmd(name, "distribute-append", 40, 0, fm)
			}
			cmd(name, "nofault-distribute", 40, 0, "fasta")
			continue
		}
		cmd(name, "stdoutfull", 3, 0, fm)
		cmd(name, "stdoutfull", 1500, 0, fm)
		cmd(name, "closedpipe", 1500, 0, fm)
		cmd(name, "nofault", 30, 0, fm)
		if name != "obicsv" { // obicsv has no -o: it always writes to stdout
			cmd(name, "devfull", 3, 0, fm)
			cmd(name, "devfull", 1500, 0, fm)
			cmd(name, "nodir", 3, 0, fm)
			cmd(name, "notdir", 3, 0, fm)
			cmd(name, "sysdir", 3, 0, fm)
			cmd(name, "fifo", 4000, 0, fm) // the reader is gone before the first byte: EPIPE on the first write to the file
			cmd(name, "fifo", 4000, []int{1, 4095, 4096, 4097}[rng.Intn(4)], fm)
		}
	}
	// the output cannot be opened (missing / not writable directory, a directory in place of the file), a device
	// answering EIO, FIFOs in place of one file of a paired output / of obidistribute, --append on existing files
	for _, fm := range []string{"fasta", "fastq", "json", "gz"} {
		cmd("obiconvert", "isdir", 3, 0, fm)
		cmd("obiconvert", "rodir", 3, 0, fm)
		cmd("obiconvert", "eio", 3, 0, fm)
		cmd("obiconvert", "eio", 1500, 0, fm)
	}
	cmd("obiconvert", "fifo", 4000, 0, "fastq")
	cmd("obiconvert", "fifo", 4000, 4097, "fastq")
	cmd("obiconvert", "fifo", 20000, 0, "gz")
	cmd("obiconvert", "fifo", 20000, 11, "json-gz")
	cmd("obiconvert", "paired-fifo", 4000, 0, "fastq")
	cmd("obiconvert", "paired-fifo", 4000, 4096, "fasta")
	cmd("obidistribute", "distribute-fifo", 4000, 0, "fasta")
	cmd("obidistribute", "distribute-fifo", 4000, 4097, "fastq")
	cmd("obidistribute", "distribute-nodir", 40, 0, "fasta")
	cmd("obidistribute", "distribute-isdir", 40, 0, "fasta")
	cmd("obidistribute", "nofault-distribute-append", 40, 0, "fasta")
	cmd("obidistribute", "nofault-distribute-append", 40, 0, "fastq")
	for _, fm := range []string{"fastq", "json", "gz", "fastq-gz", "json-gz"} {
		cmd("obiconvert", "devfull", 3, 0, fm)
		cmd("obiconvert", "devfull", 1500, 0, fm)
		cmd("obiconvert", "stdoutfull", 3, 0, fm)
		cmd("obiconvert", "nofault", 30, 0, fm)
	}
	for _, k := range []int{0, 1, 4095, 4096, 4097} {
		cmd("obiconvert", "fifo", 4000, k, "fasta")
		cmd("obiconvert", "fifo", 4000, k, "json")
	}
	cmd("obicsv", "stdoutfull", 3, 0, "csv-gz")
	// a command whose result is EMPTY (obigrep selecting nothing), default format and every explicit one, -Z or not:
	// `-o /dev/full`, `> /dev/full`, `-o <missing or read-only directory>/x`
	for _, fm := range []string{"fasta", "gz", "xfasta", "xfasta-gz", "fastq-gz", "json", "json-gz"} {
		cmd("obigrep", "empty-devfull", 3, 0, fm)
		if fm == "gz" || fm == "xfasta-gz" || fm == "json" {
			cmd("obigrep", "empty-stdoutfull", 3, 0, fm)
		}
	}
	cmd("obigrep", "empty-nodir", 3, 0, "gz")
	cmd("obigrep", "empty-rodir", 3, 0, "gz")
	cmd("obigrep", "empty-nofault", 3, 0, "gz")
	for _, fm := range []string{"fasta", "fastq", "json", "gz"} {
		cmd("obiconvert", "paired2", 30, 0, fm) // the second file of a paired output fails
		cmd("obiconvert", "paired1", 30, 0, fm) // the first one
	}
	cmd("obiconvert", "nofault-paired", 30, 0, "fastq")
	// the side files of obiclean (--save-ratio FILE, --save-graph DIR): outputs written by the main goroutine before the
	// writer of the sequences starts (harness/c18_side.go, Model/WriteSide.lean, Props/C18S.lean)
	cmd("obiclean", "side-ratio-devfull", 3, 0, "fasta")   // the table fits the buffer: the fault shows at Flush
	cmd("obiclean", "side-ratio-devfull", 150, 0, "fasta") // several buffers
	cmd("obiclean", "side-ratio-nodir", 3, 0, "fasta")
	cmd("obiclean", "side-ratio-isdir", 3, 0, "fasta")
	cmd("obiclean", "side-graph-devfull", 3, 0, "fasta")
	cmd("obiclean", "side-graph-isdir", 3, 0, "fasta")
	cmd("obiclean", "side-graph-mkdir", 3, 0, "fasta")
	cmd("obiclean", "nofault-side-ratio", 150, 0, "fasta")
	cmd("obiclean", "nofault-side-graph", 5, 0, "fasta")
	cmd("obiclean", "nofault-side-both", 1+rng.Intn(40), 0, "fasta")
	// BOTH options, 2 or 3 samples: graph faulted + table fine (the later success must not erase the failure: seeded
	// C18-m7), graph fine + table faulted, both faulted, both fine; every sample in turn owns the faulted graph, so that it
	// is met first / last in the map order of SaveGMLGraphs
	for _, sc := range []string{"both2-fullA-ok", "both2-fullB-ok", "both3-fullA-ok", "both3-fullB-ok", "both3-fullC-ok", "both3-isdirB-ok", "both2-isdirA-ok",
		"both2-ok-full", "both3-ok-nodir", "both2-fullA-full", "both3-isdirC-full", "both3-fullB-nodir", "both2-ok-ok", "both3-ok-ok"} {
		cmd("obiclean", sc, 3, 0, "fasta")
	}
	cmd("obiclean", fmt.Sprintf("both3-%s%c-%s", []string{"full", "isdir"}[rng.Intn(2)], "ABC"[rng.Intn(3)], []string{"ok", "ok", "full", "nodir"}[rng.Intn(4)]), 1+rng.Intn(150), 0, "fasta")
	// second outputs written by a goroutine that registers its pipes itself (dynamic registration, Props/C18Reg.lean)
	for _, name := range []string{"obigrep", "obimultiplex", "obitagpcr"} {
		cmd(name, "dyn-devfull", 3, 0, "fasta")
		cmd(name, "dyn-devfull", 1500, 0, "fasta")
		cmd(name, "dyn-nodir", 3, 0, "fasta") // nothing to write to the second output: only the cover keeps main waiting
		cmd(name, "nofault-dyn-ok", 30, 0, "fasta")
		if name != "obigrep" || tier == "thorough" {
			cmd(name, "nofault-dyn-fifo", 3, 0, "fasta") // the output is opened 400 ms late: the command must still be there
		}
	}
	n := 500
	if tier == "thorough" {
		n = 2500
	}
	for i := 0; i < n; i++ {
		w := c18Writers[rng.Intn(4)]
		arr, total := c18RandArr(rng, 5, 25)
		gz := 0
		if rng.Intn(4) == 0 {
			gz = 1
		}
		own := 1
		if rng.Intn(6) == 0 {
			own = 0
		}
		switch r := rng.Intn(20); {
		case r < 2:
			behs := []string{fmt.Sprintf("short:%d", 1+rng.Intn(6000)), fmt.Sprintf("temp:%d", rng.Intn(4)),
				fmt.Sprintf("partial:%d:%d", rng.Intn(4), rng.Intn(5000)), fmt.Sprintf("errfull:%d", rng.Intn(4))}
			add(fmt.Sprintf("dev %s beh=%s cf=%d own=%d ek=%d %s", w, behs[rng.Intn(4)], rng.Intn(8)/7, own, rng.Intn(len(c18Kinds)), c18ArrStr(arr)))
			continue
		case r < 5 && (w == "fasta" || w == "fastq"):
			nf := 1 + rng.Intn(4)
			bad := rng.Intn(nf + 1)
			l := fmt.Sprintf("disp %s gz=%d own=1", w, gz)
			for j := 0; j < nf; j++ {
				m := 1 + rng.Intn(70)
				k := "1048576"
				if j == bad {
					k = []string{"z-1", "0", strconv.Itoa(rng.Intn(m*130 + 50)), "z/2"}[rng.Intn(4)]
				}
				l += fmt.Sprintf(" / k=%s cf=0 zlen=0 ek=%d 0:%d:-", k, rng.Intn(len(c18Kinds)), m)
			}
			add(l)
			continue
		case r < 4:
			nf := 2 + rng.Intn(3)
			bad := rng.Intn(nf + 1) // nf: none fails
			l := fmt.Sprintf("multi %s gz=%d own=1", w, gz)
			for j := 0; j < nf; j++ {
				a, tot := c18RandArr(rng, 4, 12)
				k := "1048576"
				if j == bad {
					k = []string{"z-1", "0", strconv.Itoa(rng.Intn(tot + 50)), "z/2"}[rng.Intn(4)]
				}
				l += fmt.Sprintf(" / k=%s cf=0 zlen=0 ek=%d %s", k, rng.Intn(len(c18Kinds)), c18ArrStr(a))
			}
			add(l)
			continue
		}
		k := strconv.Itoa(rng.Intn(total + 400))
		switch rng.Intn(12) {
		case 0, 1:
			k = "1048576"
		case 2:
			k = []string{"z-1", "z", "z+1", "z/2", "z-8", "z-9"}[rng.Intn(6)]
		case 3:
			k = strconv.Itoa([]int{0, 1, 4095, 4096, 4097, 8191, 8192, 8193}[rng.Intn(8)])
		}
		cf := 0
		if rng.Intn(12) == 0 {
			cf = 1
		}
		oneE(w, gz, k, cf, own, rng.Intn(len(c18Kinds)), arr)
	}
	for i := 0; i < n/50; i++ {
		l := fmt.Sprintf("wf gz=%d own=%d cf=%d ek=%d ks=%s zlen=0", rng.Intn(2), 1-rng.Intn(4)/3, rng.Intn(6)/5, rng.Intn(len(c18Kinds)), []string{"bounds", "all"}[rng.Intn(4)/3])
		for j, nc := 0, 1+rng.Intn(5); j < nc; j++ {
			l += fmt.Sprintf(" g%dx%d", rng.Intn(1000), []int{0, 1, rng.Intn(300), rng.Intn(5000), 4096, rng.Intn(9000)}[rng.Intn(6)])
		}
		add(l)
	}
	if tier == "thorough" && rng.Intn(2) == 0 {
		// results larger than one pgzip block (1 MiB of input): blocks are written before Close
		for _, w := range []string{"fasta", "json"} {
			huge := []c18Arr{{1, 4500}, {0, 4500}}
			for _, k := range []string{"z/2", "z-1", "z", "300000"} {
				oneK(w, 1, k, 0, 1, huge)
			}
		}
	}
	c18GenGlue(rng, tier, add) // the glue between the commands and the writers (c18_glue.go)
	c18Precompute(lines)
	for _, l := range lines {
		emit(l)
	}
}

// ---------------------------------------------------------------------------------------------
// parallel pre-execution: every fault-injected case runs in a process of its own; they are run ahead
// by a pool of workers and Exec picks the result up

type c18Res struct {
	over, res string
	fails     []Fail
	trivial   bool
	stats     map[string]int
}

var (
	c18Cache   = map[string]c18Res{}
	c18CacheMu sync.Mutex
)

func c18NeedsChild(f []string) bool {
	if len(f) == 0 {
		return false
	}
	switch f[0] {
	case "cmd", "wf":
		return false
	case "dev", "multi", "disp", "glue":
		return true
	}
	if len(f) < 6 {
		return false
	}
	k, err := strconv.Atoi(strings.TrimPrefix(f[2], "k="))
	return err != nil || f[5] != "own=1" || f[3] != "cf=0" || k < 1<<20
}

func c18Precompute(lines []string) {
	go c18BuildCommands()
	nw := runtime.NumCPU()
	if nw > 12 {
		nw = 12
	}
	if nw < 2 {
		nw = 2
	}
	ch := make(chan string)
	var wg sync.WaitGroup
	for i := 0; i < nw; i++ {
		wg.Add(1)
		go func() {
			defer wg.Done()
			for l := range ch {
				f := strings.Fields(l)
				var r c18Res
				if f[0] == "cmd" {
					r = c18Cmd(f)
				} else {
					r = c18Child(l)
				}
				c18CacheMu.Lock()
				c18Cache[l] = r
				c18CacheMu.Unlock()
			}
		}()
	}
	// the subprocess scenarios last: the commands are being built meanwhile
	for pass := 0; pass < 2; pass++ {
		for _, l := range lines {
			f := strings.Fields(l)
			if (pass == 0 && c18NeedsChild(f)) || (pass == 1 && len(f) > 0 && f[0] == "cmd") {
				ch <- l
			}
		}
	}
	close(ch)
	wg.Wait()
}

func (r c18Res) deliver() (string, []Fail) {
	caseOverride = r.over
	caseTrivial = r.trivial
	for k, v := range r.stats {
		for i := 0; i < v; i++ {
			stat(k)
		}
	}
	return r.res, r.fails
}

func (c18) Exec(c string) (string, []Fail) {
	c18InstallHook()
	if !c18IsChild() {
		c18CacheMu.Lock()
		r, ok := c18Cache[c]
		c18CacheMu.Unlock()
		if ok {
			return r.deliver()
		}
	}
	f := strings.Fields(c)
	if len(f) == 0 {
		return "bad-op", nil
	}
	if f[0] == "cmd" {
		if len(f) < 6 {
			return "bad-op", nil
		}
		return c18Cmd(f).deliver()
	}
	if !c18IsChild() && c18NeedsChild(f) {
		return c18Child(c).deliver()
	}
	switch f[0] {
	case "wf":
		return c18ExecWf(f)
	case "dev":
		return c18ExecDev(f)
	case "multi":
		return c18ExecMulti(f)
	case "disp":
		return c18ExecDisp(f)
	case "glue":
		return c18ExecGlue(f)
	}
	return c18ExecOne(f)
}

// ---------------------------------------------------------------------------------------------
// one writer, one sink

func c18ParseArr(fs []string) ([]c18Arr, bool) {
	var arrival []c18Arr
	for _, p := range fs {
		q := strings.Split(p, ":")
		if len(q) < 2 {
			return nil, false
		}
		o, e1 := strconv.Atoi(q[0])
		n, e2 := strconv.Atoi(q[1])
		if e1 != nil || e2 != nil {
			return nil, false
		}
		arrival = append(arrival, c18Arr{o, n})
	}
	return arrival, true
}

// c18Reference: the output of the writer on a sink that never fails, the chunk texts (data for the model), and the
// complete result assembled independently of any run of the writer (uncompressed: compared with the reference)
func c18Reference(w string, gz, own bool, arrival []c18Arr) (expected []byte, texts []string, fails []Fail, ok bool) {
	ref := &failSink{limit: 1 << 30}
	if r := c18Run(w, gz, own, arrival, ref); r != "ok" {
		return nil, nil, []Fail{{Sig: w + ".reference-run", Text: "writer fails on a sink that never fails: " + r}}, false
	}
	expected = append([]byte{}, ref.buf.Bytes()...)
	texts = make([]string, len(arrival))
	raw := make([][]byte, len(arrival))
	opt := obiformats.MakeOptions([]obiformats.WithOption{})
	for i, a := range arrival {
		b := c18Batch(a.order, a.n, w == "fastq")
		var t []byte
		switch w {
		case "fasta":
			t = obiformats.FormatFastaBatch(b, opt.FormatFastSeqHeader(), false).Bytes()
		case "fastq":
			t = obiformats.FormatFastqBatch(b, opt.FormatFastSeqHeader(), false).Bytes()
		case "json":
			t = obiformats.FormatJSONBatch(b)
		case "csv":
			t = obiformats.FormatCVSBatch(b, opt)
		}
		raw[i] = t
		texts[i] = fmt.Sprintf("%d:%d:%s", a.order, a.n, hx(t))
	}
	byOrder := make([][]byte, len(arrival))
	for i, a := range arrival {
		if a.order < 0 || a.order >= len(arrival) {
			return expected, texts, nil, true
		}
		byOrder[a.order] = raw[i]
	}
	var want []byte
	if w == "json" {
		want = append(want, "[\n"...)
		first := true
		for _, t := range byOrder {
			if len(t) == 0 {
				continue
			}
			if !first {
				want = append(want, ",\n"...)
			}
			want = append(want, t...)
			first = false
		}
		want = append(want, "\n]\n"...)
	} else {
		for _, t := range byOrder {
			want = append(want, t...)
		}
	}
	have := expected
	if gz {
		have = c18Gunzip(expected)
	}
	if !bytes.Equal(want, have) {
		fails = append(fails, Fail{Sig: w + ".silent-loss.no-fault", Text: fmt.Sprintf("on a sink that never fails the writer ended normally with %d of %d bytes written", len(have), len(want))})
	}
	return expected, texts, fails, true
}

func c18Gunzip(b []byte) []byte {
	zr, err := gzip.NewReader(bytes.NewReader(b))
	if err != nil {
		return nil
	}
	d, err := io.ReadAll(zr)
	if err != nil {
		return nil
	}
	return d
}

// c18ResolveK: k is a number or z, z-1, z+1, z/2, z-8, z-9 (z = size of the complete output)
func c18ResolveK(s string, z int) (int, bool) {
	if k, err := strconv.Atoi(s); err == nil {
		return k, true
	}
	k := -1
	switch s {
	case "z":
		k = z
	case "z-1":
		k = z - 1
	case "z+1":
		k = z + 1
	case "z/2":
		k = z / 2
	case "z-8":
		k = z - 8
	case "z-9":
		k = z - 9
	default:
		return 0, false
	}
	if k < 0 {
		k = 0
	}
	return k, true
}

func c18Class(expected []byte, gz, cf, own int) string {
	class := "small"
	if len(expected) >= 4096 {
		class = "large"
	}
	if gz == 1 {
		class = "gz"
	}
	if cf == 1 {
		class += "-closefail"
	}
	if own == 0 {
		class += "-notowned"
	}
	return class
}

// c18Judge: the property oracle on one sink
func c18Judge(w, class, out string, got, expected []byte, gz, closeMustFail bool) []Fail {
	var fails []Fail
	if !bytes.HasPrefix(expected, got) {
		fails = append(fails, Fail{Sig: w + ".not-a-prefix." + class, Text: fmt.Sprintf("the sink holds %d bytes that are not a prefix of the %d bytes of the complete result", len(got), len(expected))})
	}
	if out == "ok" {
		complete := bytes.Equal(got, expected)
		if gz && !complete {
			d1, d2 := c18Gunzip(got), c18Gunzip(expected)
			complete = d1 != nil && bytes.Equal(d1, d2)
		}
		if !complete {
			fails = append(fails, Fail{Sig: w + ".silent-loss." + class, Text: fmt.Sprintf("writer ended normally but the sink holds %d of %d bytes", len(got), len(expected))})
		}
		if closeMustFail {
			fails = append(fails, Fail{Sig: w + ".silent-loss." + class, Text: "Close failed but the writer ended normally"})
		}
	} else if out != "fatal" {
		fails = append(fails, Fail{Sig: w + ".outcome", Text: "writer neither completed nor reported: " + out})
	}
	return fails
}

func c18Get(s, key string) (int, bool) {
	if !strings.HasPrefix(s, key+"=") {
		return 0, false
	}
	v, err := strconv.Atoi(s[len(key)+1:])
	return v, err == nil
}

// c18TakeEk: an optional `ek=<kind>` field in front of the chunks (absent: kind 0, the plain error)
func c18TakeEk(fs []string) (int, []string, bool) {
	if len(fs) > 0 && strings.HasPrefix(fs[0], "ek=") {
		ek, err := strconv.Atoi(fs[0][3:])
		if err != nil || ek < 0 || ek >= len(c18Kinds) {
			return 0, nil, false
		}
		return ek, fs[1:], true
	}
	return 0, fs, true
}

func c18ExecOne(f []string) (string, []Fail) {
	if len(f) < 6 {
		return "bad-op", nil
	}
	w := f[0]
	gz, ok1 := c18Get(f[1], "gz")
	cf, ok3 := c18Get(f[3], "cf")
	own, ok4 := c18Get(f[5], "own")
	if !ok1 || !ok3 || !ok4 || !strings.HasPrefix(f[2], "k=") || !strings.HasPrefix(f[4], "zlen=") {
		return "bad-op", nil
	}
	ek, rest, okk := c18TakeEk(f[6:])
	if !okk {
		return "bad-op", nil
	}
	arrival, ok := c18ParseArr(rest)
	if !ok {
		return "bad-op", nil
	}
	stat("writer:" + w)
	expected, texts, fails, ok := c18Reference(w, gz == 1, own == 1, arrival)
	if !ok {
		return "bad-op", fails
	}
	zlen := len(expected)
	k, ok := c18ResolveK(f[2][2:], zlen)
	if !ok {
		return "bad-op", nil
	}
	caseOverride = fmt.Sprintf("%s gz=%d k=%d cf=%d zlen=%d own=%d ek=%d %s", w, gz, k, cf, zlen, own, ek, strings.Join(texts, " "))
	sink := &failSink{limit: k, closeErr: cf == 1, ek: ek}
	if k < zlen || (cf == 1 && own == 1) {
		stat("errkind:" + c18Kinds[ek])
	}
	out := c18Run(w, gz == 1, own == 1, arrival, sink)
	sink.mu.Lock()
	got := append([]byte{}, sink.buf.Bytes()...)
	sink.mu.Unlock()
	if k < zlen {
		stat("fault-injected")
		switch {
		case gz == 1 && k < 10:
			stat("fault:gz-header")
		case gz == 1 && k >= zlen-8:
			stat("fault:gz-trailer")
		case gz == 1:
			stat("fault:gz-blocks")
		case k >= zlen-zlen%4096 || zlen < 4096:
			stat("fault:final-flush")
		default:
			stat("fault:mid-stream")
		}
	}
	if k == zlen || k == zlen+1 || k == zlen-1 {
		stat("k=size+-1")
	}
	if len(expected) < 4096 {
		stat("result<4KiB")
	}
	if gz == 1 {
		stat("compressed")
	}
	if own == 0 {
		stat("not-owned")
	}
	fails = append(fails, c18Judge(w, c18Class(expected, gz, cf, own), out, got, expected, gz == 1, cf == 1 && own == 1)...)
	return fmt.Sprintf("%s got=%d", out, len(got)), fails
}

// one writer over a scripted io.Writer: dev <writer> beh=<..> cf=<0|1> own=<0|1> chunks
func c18ExecDev(f []string) (string, []Fail) {
	if len(f) < 5 || !strings.HasPrefix(f[2], "beh=") {
		return "bad-op", nil
	}
	w := f[1]
	cf, ok1 := c18Get(f[3], "cf")
	own, ok2 := c18Get(f[4], "own")
	ek, rest, okk := c18TakeEk(f[5:])
	arrival, ok3 := c18ParseArr(rest)
	bp := strings.Split(f[2][4:], ":")
	if !ok1 || !ok2 || !ok3 || !okk || len(bp) < 2 {
		return "bad-op", nil
	}
	sink := &behSink{kind: bp[0], closeErr: cf == 1, ek: ek}
	var err error
	if sink.a, err = strconv.Atoi(bp[1]); err != nil {
		return "bad-op", nil
	}
	if len(bp) > 2 {
		if sink.b, err = strconv.Atoi(bp[2]); err != nil {
			return "bad-op", nil
		}
	}
	if sink.kind == "short" && sink.a < 1 {
		return "bad-op", nil // an io.Writer returning (0, nil) for ever makes bufio.Writer loop for ever
	}
	stat("dev:" + sink.kind)
	expected, texts, fails, ok := c18Reference(w, false, own == 1, arrival)
	if !ok {
		return "bad-op", fails
	}
	caseOverride = fmt.Sprintf("dev %s %s cf=%d own=%d ek=%d %s", w, f[2], cf, own, ek, strings.Join(texts, " "))
	if sink.kind != "short" {
		stat("errkind:" + c18Kinds[ek])
	}
	out := c18Run(w, false, own == 1, arrival, sink)
	sink.mu.Lock()
	got := append([]byte{}, sink.buf.Bytes()...)
	sink.mu.Unlock()
	if out == "fatal" {
		stat("dev-fatal")
	}
	fails = append(fails, c18Judge(w, "dev-"+sink.kind, out, got, expected, false, cf == 1 && own == 1)...)
	return fmt.Sprintf("%s got=%d", out, len(got)), fails
}

// several writers in one process: multi <writer> gz=<g> own=<o> / k=.. cf=.. zlen=.. chunks / ...
func c18ExecMulti(f []string) (string, []Fail) {
	if len(f) < 5 || f[4] != "/" {
		return "bad-op", nil
	}
	w := f[1]
	gz, ok1 := c18Get(f[2], "gz")
	own, ok2 := c18Get(f[3], "own")
	if !ok1 || !ok2 {
		return "bad-op", nil
	}
	var groups [][]string
	cur := []string{}
	for _, x := range f[5:] {
		if x == "/" {
			groups = append(groups, cur)
			cur = []string{}
		} else {
			cur = append(cur, x)
		}
	}
	groups = append(groups, cur)
	type file struct {
		arrival  []c18Arr
		expected []byte
		sink     *failSink
		k, cf    int
	}
	var files []file
	var fails []Fail
	over := fmt.Sprintf("multi %s gz=%d own=%d", w, gz, own)
	for _, g := range groups {
		if len(g) < 3 || !strings.HasPrefix(g[0], "k=") {
			return "bad-op", nil
		}
		cf, okc := c18Get(g[1], "cf")
		ek, rest, okk := c18TakeEk(g[3:])
		arrival, oka := c18ParseArr(rest)
		if !okc || !oka || !okk {
			return "bad-op", nil
		}
		expected, texts, fs, ok := c18Reference(w, gz == 1, own == 1, arrival)
		fails = append(fails, fs...)
		if !ok {
			return "bad-op", fails
		}
		k, ok := c18ResolveK(g[0][2:], len(expected))
		if !ok {
			return "bad-op", nil
		}
		over += fmt.Sprintf(" / k=%d cf=%d zlen=%d ek=%d %s", k, cf, len(expected), ek, strings.Join(texts, " "))
		files = append(files, file{arrival, expected, &failSink{limit: k, closeErr: cf == 1, ek: ek}, k, cf})
		if k < len(expected) || (cf == 1 && own == 1) {
			stat("errkind:" + c18Kinds[ek])
		}
	}
	caseOverride = over
	stat(fmt.Sprintf("multi:%d-writers", len(files)))
	out := guardT(8*time.Second, func() string {
		var its []obiiter.IBioSequence
		for _, fl := range files {
			ni, err := c18Start(w, gz == 1, own == 1, fl.arrival, fl.sink)
			if err != nil {
				return "fatal"
			}
			its = append(its, ni)
		}
		var wg sync.WaitGroup
		for _, ni := range its {
			wg.Add(1)
			go func(ni obiiter.IBioSequence) { defer wg.Done(); ni.Consume() }(ni)
		}
		wg.Wait()
		obiiter.WaitForLastPipe() // what main() does
		return "ok"
	})
	anyBad := false
	for i, fl := range files {
		fl.sink.mu.Lock()
		got := append([]byte{}, fl.sink.buf.Bytes()...)
		fl.sink.mu.Unlock()
		if fl.k < len(fl.expected) || (fl.cf == 1 && own == 1) {
			anyBad = true
		}
		o := out
		if out == "fatal" && bytes.Equal(got, fl.expected) {
			continue // this one is complete; another one failed
		}
		if out == "fatal" {
			o = "fatal"
		}
		for _, x := range c18Judge(w, fmt.Sprintf("multi-%d", i), o, got, fl.expected, gz == 1, fl.cf == 1 && own == 1) {
			fails = append(fails, x)
		}
	}
	if anyBad {
		stat("multi:one-fails")
	}
	switch out {
	case "ok":
		return "exit0", fails
	case "fatal":
		return "exit1", fails
	}
	return out, fails
}

// c18Dispatch drives the real obiformats.WriterDispatcher (what obidistribute runs): file j receives counts[j]
// sequences; the formater opens the injected sinks instead of files.  Returns what main() would see.
func c18Dispatch(w string, gz bool, counts []int, sinks []*failSink) string {
	return guardT(8*time.Second, func() string {
		it := obiiter.MakeIBioSequence()
		it.Add(1)
		go func() {
			sl := obiseq.MakeBioSequenceSlice()
			order := 0
			left := append([]int{}, counts...)
			for more := true; more; {
				more = false
				for j := range left { // interleave the keys
					if left[j] > 0 {
						s := c18Record(100+j, left[j], w == "fastq")
						s.SetAttribute("key", fmt.Sprintf("f%d", j))
						sl = append(sl, s)
						left[j]--
						more = true
					}
					if len(sl) == 9 {
						it.Push(obiiter.MakeBioSequenceBatch("src", order, sl))
						order++
						sl = obiseq.MakeBioSequenceSlice()
					}
				}
			}
			if len(sl) > 0 {
				it.Push(obiiter.MakeBioSequenceBatch("src", order, sl))
			}
			it.Done()
		}()
		go it.WaitAndClose()
		var mu sync.Mutex
		formater := func(data obiiter.IBioSequence, filename string, options ...obiformats.WithOption) (obiiter.IBioSequence, error) {
			name := strings.TrimSuffix(filename, ".gz")
			j, err := strconv.Atoi(strings.TrimPrefix(name, "f"))
			mu.Lock()
			defer mu.Unlock()
			if err != nil || j < 0 || j >= len(sinks) {
				return obiiter.NilIBioSequence, errors.New("unknown file " + filename)
			}
			options = append(options, obiformats.OptionCloseFile())
			if w == "fastq" {
				return obiformats.WriteFastq(data, sinks[j], options...)
			}
			return obiformats.WriteFasta(data, sinks[j], options...)
		}
		dispatcher := it.Distribute(obiseq.AnnotationClassifier("key", "NA"), 11)
		obiformats.WriterDispatcher("%s", dispatcher, formater,
			obiformats.OptionsParallelWorkers(2), obiformats.OptionsCompressed(gz))
		obiiter.WaitForLastPipe() // what main() does
		return "ok"
	})
}

// disp <writer> gz=<g> own=1 / k=.. cf=.. zlen=.. 0:<nseq>:<text> / ...   (one group per file of the dispatcher)
func c18ExecDisp(f []string) (string, []Fail) {
	if len(f) < 5 || f[4] != "/" || (f[1] != "fasta" && f[1] != "fastq") {
		return "bad-op", nil
	}
	w := f[1]
	gz, ok1 := c18Get(f[2], "gz")
	if !ok1 || f[3] != "own=1" {
		return "bad-op", nil
	}
	var groups [][]string
	cur := []string{}
	for _, x := range f[5:] {
		if x == "/" {
			groups = append(groups, cur)
			cur = []string{}
		} else {
			cur = append(cur, x)
		}
	}
	groups = append(groups, cur)
	var counts, cfs, eks []int
	var ks []string
	for _, g := range groups {
		if len(g) < 4 || !strings.HasPrefix(g[0], "k=") {
			return "bad-op", nil
		}
		cf, okc := c18Get(g[1], "cf")
		ek, rest, okk := c18TakeEk(g[3:])
		arr, oka := c18ParseArr(rest)
		if !okc || !oka || !okk || len(arr) != 1 || arr[0].n < 1 {
			return "bad-op", nil
		}
		counts, cfs, ks, eks = append(counts, arr[0].n), append(cfs, cf), append(ks, g[0][2:]), append(eks, ek)
	}
	// reference run: sinks that never fail
	refs := make([]*failSink, len(counts))
	for j := range refs {
		refs[j] = &failSink{limit: 1 << 30}
	}
	if r := c18Dispatch(w, gz == 1, counts, refs); r != "ok" {
		return "bad-op", []Fail{{Sig: w + ".dispatcher.reference-run", Text: "dispatcher fails on sinks that never fail: " + r}}
	}
	sinks := make([]*failSink, len(counts))
	over := fmt.Sprintf("disp %s gz=%d own=1", w, gz)
	var fails []Fail
	anyBad := false
	for j := range counts {
		exp := refs[j].buf.Bytes()
		k, ok := c18ResolveK(ks[j], len(exp))
		if !ok {
			return "bad-op", nil
		}
		// the text of the file as data for the model (one chunk: the result of FASTA/FASTQ is the concatenation)
		text := exp
		if gz == 1 {
			text = c18Gunzip(exp)
		}
		nrec := bytes.Count(text, []byte{'\n', '>'}) + 1
		if w == "fastq" {
			nrec = bytes.Count(text, []byte("\n+\n"))
		}
		if nrec != counts[j] {
			fails = append(fails, Fail{Sig: w + ".dispatcher.silent-loss.no-fault", Text: fmt.Sprintf("file %d holds %d of %d records on a sink that never fails", j, nrec, counts[j])})
		}
		over += fmt.Sprintf(" / k=%d cf=%d zlen=%d ek=%d 0:%d:%s", k, cfs[j], len(exp), eks[j], counts[j], hx(text))
		sinks[j] = &failSink{limit: k, closeErr: cfs[j] == 1, ek: eks[j]}
		if k < len(exp) || cfs[j] == 1 {
			anyBad = true
			stat("errkind:" + c18Kinds[eks[j]])
		}
	}
	caseOverride = over
	stat(fmt.Sprintf("dispatcher:%d-files", len(counts)))
	if anyBad {
		stat("dispatcher:one-fails")
	}
	out := c18Dispatch(w, gz == 1, counts, sinks)
	for j := range sinks {
		sinks[j].mu.Lock()
		got := append([]byte{}, sinks[j].buf.Bytes()...)
		sinks[j].mu.Unlock()
		exp := refs[j].buf.Bytes()
		if out == "fatal" && bytes.Equal(got, exp) && cfs[j] == 0 {
			continue
		}
		fails = append(fails, c18Judge(w, fmt.Sprintf("dispatcher-%d", j), out, got, exp, gz == 1, cfs[j] == 1)...)
	}
	switch out {
	case "ok":
		return "exit0", fails
	case "fatal":
		return "exit1", fails
	}
	return out, fails
}

// ---------------------------------------------------------------------------------------------
// obiutils.Wfile (bufio over [pgzip over] the output) driven directly, a fault at EVERY offset of the (compressed)
// stream: no writer goroutine, no log.Fatal, so the whole sweep runs in-process.
//   wf gz=<g> own=<o> cf=<c> ek=<kind> ks=<all|bounds|k,k,...> zlen=<n> <chunk> ...     chunk = hex | g<seed>x<len>

func c18GenBytes(seed, n int) []byte {
	b := make([]byte, n)
	x := uint64(seed)
	for i := range b {
		x = (x*1103515245 + 12345) & 0x7fffffff
		b[i] = "acgt"[(x>>16)&3]
	}
	return b
}

func c18WfChunk(spec string) ([]byte, bool) {
	if strings.HasPrefix(spec, "g") {
		q := strings.Split(spec[1:], "x")
		if len(q) != 2 {
			return nil, false
		}
		seed, e1 := strconv.Atoi(q[0])
		n, e2 := strconv.Atoi(q[1])
		if e1 != nil || e2 != nil || n < 0 || n > 1<<23 {
			return nil, false
		}
		return c18GenBytes(seed, n), true
	}
	if spec == "-" {
		return []byte{}, true
	}
	return unhx(spec)
}

type c18WfRun struct {
	got      []byte
	calls    []int
	first    int // index of the first call that returned an error (len(chunks) = Close), -1: none
	failCall int // index of the call during which the sink refused a byte for the first time, -1: never
	sticky   bool
	same     bool // every error returned is (wraps) the error injected by the sink
}

func c18WfOnce(gz, own bool, chunks [][]byte, sink *failSink) c18WfRun {
	r := c18WfRun{first: -1, failCall: -1, sticky: true, same: true}
	wf, _ := obiutils.CompressStream(sink, gz, own)
	note := func(i int, err error) {
		sink.mu.Lock()
		injected := sink.werr
		sink.mu.Unlock()
		if injected != nil && r.failCall < 0 {
			r.failCall = i
		}
		if err != nil {
			if r.first < 0 {
				r.first = i
			}
			isClose := i == len(chunks) && sink.closeErr && own
			if !(injected != nil && errors.Is(err, injected)) && !isClose {
				r.same = false
			}
		} else if r.first >= 0 {
			r.sticky = false
		}
	}
	for i, c := range chunks {
		_, err := wf.Write(c)
		note(i, err)
	}
	note(len(chunks), wf.Close())
	sink.mu.Lock()
	r.got = append([]byte{}, sink.buf.Bytes()...)
	r.calls = append([]int{}, sink.calls...)
	sink.mu.Unlock()
	return r
}

func c18ExecWf(f []string) (string, []Fail) {
	if len(f) < 7 {
		return "bad-op", nil
	}
	gz, ok1 := c18Get(f[1], "gz")
	own, ok2 := c18Get(f[2], "own")
	cf, ok3 := c18Get(f[3], "cf")
	ek, ok4 := c18Get(f[4], "ek")
	if !ok1 || !ok2 || !ok3 || !ok4 || ek < 0 || ek >= len(c18Kinds) || !strings.HasPrefix(f[5], "ks=") || !strings.HasPrefix(f[6], "zlen=") {
		return "bad-op", nil
	}
	var chunks [][]byte
	for _, c := range f[7:] {
		b, ok := c18WfChunk(c)
		if !ok {
			return "bad-op", nil
		}
		chunks = append(chunks, b)
	}
	ref := c18WfOnce(gz == 1, own == 1, chunks, &failSink{limit: 1 << 30})
	var fails []Fail
	sig := "wfile." + []string{"plain", "gz"}[gz&1]
	if ref.first >= 0 {
		return "bad-op", []Fail{{Sig: sig + ".reference-run", Text: "Wfile fails on a sink that never fails"}}
	}
	expected := ref.got
	zlen := len(expected)
	var all []byte
	for _, c := range chunks {
		all = append(all, c...)
	}
	plain := expected
	if gz == 1 {
		plain = c18Gunzip(expected)
	}
	if !bytes.Equal(plain, all) {
		fails = append(fails, Fail{Sig: sig + ".silent-loss.no-fault", Text: fmt.Sprintf("no fault: the sink holds %d of %d bytes", len(plain), len(all))})
	}
	// the offsets swept
	var ks []int
	switch spec := f[5][3:]; spec {
	case "all":
		for k := 0; k <= zlen+1; k++ {
			ks = append(ks, k)
		}
	case "bounds":
		seen := map[int]bool{}
		addk := func(k int) {
			if k >= 0 && k <= zlen+1 && !seen[k] {
				seen[k] = true
				ks = append(ks, k)
			}
		}
		b := 0
		for _, c := range ref.calls { // the write boundaries of bufio / of pgzip (header, blocks, last block, trailer)
			for d := -1; d <= 1; d++ {
				addk(b + d)
			}
			b += c
		}
		for d := -1; d <= 1; d++ {
			addk(zlen + d)
		}
		for i := 1; i < 24; i++ {
			addk(zlen * i / 24)
		}
	default:
		for _, x := range strings.Split(spec, ",") {
			k, err := strconv.Atoi(x)
			if err != nil || k < 0 {
				return "bad-op", nil
			}
			ks = append(ks, k)
		}
	}
	kss := make([]string, len(ks))
	for i, k := range ks {
		kss[i] = strconv.Itoa(k)
	}
	caseOverride = fmt.Sprintf("wf gz=%d own=%d cf=%d ek=%d ks=%s zlen=%d %s", gz, own, cf, ek, strings.Join(kss, ","), zlen, strings.Join(f[7:], " "))
	stat("wfile-sweep")
	stat("errkind:" + c18Kinds[ek])
	if len(ref.calls) > 4 && gz == 1 {
		stat("wfile-sweep:several-pgzip-blocks")
	}
	nfatal, nok, sumgot, firstok, sumfirst := 0, 0, 0, -1, 0
	closeMustFail := cf == 1 && own == 1
	for _, k := range ks {
		r := c18WfOnce(gz == 1, own == 1, chunks, &failSink{limit: k, closeErr: cf == 1, ek: ek})
		stat("wfile-sweep:offsets")
		at := fmt.Sprintf(" (fault after %d of %d bytes, error kind %s)", k, zlen, c18Kinds[ek])
		if !bytes.HasPrefix(expected, r.got) {
			fails = append(fails, Fail{Sig: sig + ".not-a-prefix", Text: "the sink does not hold a prefix of the complete stream" + at})
		}
		if r.first < 0 {
			nok++
			if firstok < 0 {
				firstok = k
			}
			if !bytes.Equal(r.got, expected) {
				fails = append(fails, Fail{Sig: sig + ".silent-loss", Text: fmt.Sprintf("no call of Wfile returned an error but the sink holds %d bytes", len(r.got)) + at})
			}
			if closeMustFail {
				fails = append(fails, Fail{Sig: sig + ".silent-loss.close", Text: "the Close of the output failed but Wfile.Close returned nil" + at})
			}
			sumfirst += len(chunks) + 1
		} else {
			nfatal++
			sumfirst += r.first
			if k >= zlen && !closeMustFail {
				fails = append(fails, Fail{Sig: sig + ".false-alarm", Text: "every byte fits but Wfile returned an error" + at})
			}
			if !r.sticky {
				fails = append(fails, Fail{Sig: sig + ".not-sticky", Text: "a call of Wfile returned nil after an earlier call had returned an error" + at})
			}
			if !r.same {
				fails = append(fails, Fail{Sig: sig + ".error-replaced", Text: "Wfile returned an error that is not the one injected by the output" + at})
			}
			if r.failCall > r.first {
				fails = append(fails, Fail{Sig: sig + ".visibility", Text: "an error was returned before the output had refused a byte" + at})
			}
		}
		sumgot += len(r.got)
	}
	res := fmt.Sprintf("n=%d fatal=%d ok=%d sumgot=%d firstok=%d", len(ks), nfatal, nok, sumgot, firstok)
	if gz == 0 {
		res += fmt.Sprintf(" sumfirst=%d", sumfirst) // bufio is deterministic: the call that reports the error is predicted
	}
	return res, fails
}

// ---------------------------------------------------------------------------------------------
// the real commands as subprocesses

var (
	c18BuildOnce sync.Once
	c18BuildErr  error
)

func c18CmdDir() string { return filepath.Join(binDir(), "c18cmds") }

// c18BuildCommands builds cmd/obitools/<name> for every command used, from the tree under check, once per run.
func c18BuildCommands() error {
	c18BuildOnce.Do(func() {
		repo := os.Getenv("VERIF_REPO")
		if repo == "" {
			repo = "/repo"
		}
		os.MkdirAll(c18CmdDir(), 0o755)
		args := []string{"build", "-o", c18CmdDir() + "/"}
		for _, n := range append(append(append([]string{}, c18Commands...), c18DynCommands...), c18SideCommands...) {
			args = append(args, "./cmd/obitools/"+n)
		}
		cmd := exec.Command("go", args...)
		cmd.Dir = repo
		env := []string{}
		for _, e := range os.Environ() {
			if strings.HasPrefix(e, "GOFLAGS=") || strings.HasPrefix(e, "GOWORK=") || strings.HasPrefix(e, "C18_CHILD=") {
				continue
			}
			env = append(env, e)
		}
		cmd.Env = append(env, "GOPROXY=off", "GOSUMDB=off", "GOTOOLCHAIN=local", "CGO_CFLAGS=-w -O2")
		if b, err := cmd.CombinedOutput(); err != nil {
			c18BuildErr = fmt.Errorf("go build: %v: %s", err, b)
		}
	})
	return c18BuildErr
}

func c18Inputs(dir string, n int) (fasta, r1, r2 string) {
	fasta, r1, r2 = filepath.Join(dir, "in.fasta"), filepath.Join(dir, "r1.fastq"), filepath.Join(dir, "r2.fastq")
	var a, b, c strings.Builder
	rc := map[byte]byte{'a': 't', 'c': 'g', 'g': 'c', 't': 'a'}
	for i := 0; i < n; i++ {
		r := rand.New(rand.NewSource(int64(i + 5)))
		sq := make([]byte, 60)
		for j := range sq {
			sq[j] = "acgt"[r.Intn(4)]
		}
		rv := make([]byte, 60)
		for j := range sq {
			rv[59-j] = rc[sq[j]]
		}
		q := strings.Repeat("I", 60)
		fmt.Fprintf(&a, ">s%d {\"sample\":\"%c\"}\n%s\n", i, "ABC"[i%3], sq)
		fmt.Fprintf(&b, "@s%d {\"sample\":\"%c\"}\n%s\n+\n%s\n", i, "ABC"[i%3], sq, q)
		fmt.Fprintf(&c, "@s%d\n%s\n+\n%s\n", i, rv, q)
	}
	os.WriteFile(fasta, []byte(a.String()), 0o644)
	os.WriteFile(r1, []byte(b.String()), 0o644)
	os.WriteFile(r2, []byte(c.String()), 0o644)
	return
}

// c18TagInputs: reads for obimultiplex / obitagpcr with their sample sheet; assigned: every read carries the tags
// and primers of sample s1 (nothing is unassigned), otherwise random reads (everything is unassigned)
func c18TagInputs(dir string, n int, assigned bool) (single, g1, g2, sheet string) {
	single, g1, g2, sheet = filepath.Join(dir, "tag.fastq"), filepath.Join(dir, "tag_1.fastq"), filepath.Join(dir, "tag_2.fastq"), filepath.Join(dir, "sheet.csv")
	rcm := map[byte]byte{'a': 't', 'c': 'g', 'g': 'c', 't': 'a'}
	rc := func(x string) string {
		b := make([]byte, len(x))
		for i := range x {
			b[len(x)-1-i] = rcm[x[i]]
		}
		return string(b)
	}
	fw, rv := "ggtagcgtatcgtaca", "ttgcatcgatcggatc"
	os.WriteFile(sheet, []byte("experiment,sample,sample_tag,forward_primer,reverse_primer\nexp,s1,aacgt:aacgt,"+fw+","+rv+"\nexp,s2,ccatg:ccatg,"+fw+","+rv+"\n"), 0o644)
	var a, b, c strings.Builder
	for i := 0; i < n; i++ {
		r := rand.New(rand.NewSource(int64(i + 77)))
		dna := func(m int) string {
			x := make([]byte, m)
			for j := range x {
				x[j] = "acgt"[r.Intn(4)]
			}
			return string(x)
		}
		read := "aacgt" + fw + dna(50) + rc(rv) + rc("aacgt")
		if !assigned {
			read = dna(92)
		}
		f, v := read[:80], rc(read)[:80]
		fmt.Fprintf(&a, "@t%d\n%s\n+\n%s\n", i, read, strings.Repeat("I", len(read)))
		fmt.Fprintf(&b, "@t%d\n%s\n+\n%s\n", i, f, strings.Repeat("I", 80))
		fmt.Fprintf(&c, "@t%d\n%s\n+\n%s\n", i, v, strings.Repeat("I", 80))
	}
	os.WriteFile(single, []byte(a.String()), 0o644)
	os.WriteFile(g1, []byte(b.String()), 0o644)
	os.WriteFile(g2, []byte(c.String()), 0o644)
	return
}

// c18Cmd runs a real command as a subprocess: cmd <command> <scenario> <nrecords> <k> <format>
func c18Cmd(f []string) (res c18Res) {
	res.over = strings.Join(f, " ")
	res.stats = map[string]int{}
	bad := func(sig, text string) c18Res {
		res.res = "bad-op"
		if sig != "" {
			res.fails = []Fail{{Sig: sig, Text: text}}
		}
		return res
	}
	if len(f) < 6 {
		return bad("", "")
	}
	if f[1] == "obiclean" {
		return c18CmdSide(f) // the side files of obiclean: harness/c18_side.go
	}
	name, sc, fm := f[1], f[2], f[5]
	n, e1 := strconv.Atoi(f[3])
	k, e2 := strconv.Atoi(f[4])
	known := false
	for _, c := range append(append([]string{}, c18Commands...), c18DynCommands...) {
		known = known || c == name
	}
	// empty-<scenario>: the same scenario with a result that holds NO sequence (obigrep selecting nothing): what has to
	// reach the output is what the same command writes on a regular file (N bytes, measured first)
	scFull := sc
	empty := strings.HasPrefix(sc, "empty-")
	if empty {
		sc = sc[len("empty-"):]
		if name != "obigrep" {
			return bad("", "")
		}
	}
	isDyn := strings.Contains(sc, "dyn-")
	if (name == "obimultiplex" || name == "obitagpcr") && !isDyn {
		return bad("", "")
	}
	if e1 != nil || e2 != nil || !known {
		return bad("", "")
	}
	if err := c18BuildCommands(); err != nil {
		return bad("cmd.build", err.Error())
	}
	bin := filepath.Join(c18CmdDir(), name)
	dir, _ := os.MkdirTemp("", "c18")
	defer os.RemoveAll(dir)
	fasta, r1, r2 := c18Inputs(dir, n)
	var args []string
	ext := "fasta"
	for _, p := range strings.Split(fm, "-") {
		switch p {
		case "fastq":
			args = append(args, "--fastq-output")
			ext = "fastq"
		case "json":
			args = append(args, "--json-output")
			ext = "json"
		case "xfasta":
			args = append(args, "--fasta-output")
		case "gz":
			args = append(args, "-Z")
		}
	}
	in := []string{fasta}
	if ext == "fastq" {
		in = []string{r1}
	}
	switch name {
	case "obipairing":
		in = []string{"-F", r1, "-R", r2}
	case "obicsv":
		in = append([]string{"-i", "-s"}, in...)
	case "obigrep":
		if empty {
			in = append([]string{"-l", "100000"}, in...) // selects nothing
		} else {
			in = append([]string{"-l", "10"}, in...)
		}
	case "obiannotate":
		in = append([]string{"--length"}, in...)
	case "obimultiplex", "obitagpcr":
		// reads that are all assigned to a sample (nothing for -u: only the cover keeps main waiting) or all unassigned
		single, g1, g2, sheet := c18TagInputs(dir, n, !strings.Contains(sc, "devfull"))
		if name == "obimultiplex" {
			in = []string{"-t", sheet, single}
		} else {
			in = []string{"-t", sheet, "-F", g1, "-R", g2}
		}
	}
	if isDyn && name == "obigrep" {
		// -l 10 keeps every read (nothing for --save-discarded), -l 1000 discards every read
		if strings.Contains(sc, "devfull") {
			in = []string{"-l", "1000", fasta}
		}
	}
	fmtArgs := append([]string{}, args...)
	var keptOld func() bool
	var lateReader func(done chan error) bool // dyn-*-fifo: true = the command exited before its second output was opened
	outFile := filepath.Join(dir, "out."+ext)
	var stdout *os.File
	var after func()
	var fifoReader func(pid int)
	var produced func() int64 // bytes that reached the outputs in a no-fault scenario
	fileSize := func(p string) int64 {
		st, err := os.Stat(p)
		if err != nil {
			return -1
		}
		return st.Size()
	}
	// mkFifo: p is a FIFO whose reader (this process) goes away after k bytes, once the command has opened it
	mkFifo := func(fifo string) bool {
		if err := syscall.Mkfifo(fifo, 0o600); err != nil {
			return false
		}
		rd, err := os.OpenFile(fifo, os.O_RDWR, 0)
		if err != nil {
			return false
		}
		fifoReader = func(pid int) {
			// wait until the command has opened the FIFO (k = 0: the reader would be gone before)
			for i := 0; i < 3000; i++ {
				ents, _ := os.ReadDir(fmt.Sprintf("/proc/%d/fd", pid))
				for _, e := range ents {
					if l, err := os.Readlink(fmt.Sprintf("/proc/%d/fd/%s", pid, e.Name())); err == nil && l == fifo {
						i = 1 << 30
					}
				}
				if i < 1<<30 {
					time.Sleep(2 * time.Millisecond)
				}
			}
			io.CopyN(io.Discard, rd, int64(k))
			rd.Close()
		}
		after = func() { rd.Close() }
		return true
	}
	switch sc {
	case "devfull":
		args = append(args, "-o", "/dev/full")
	case "nodir":
		args = append(args, "-o", filepath.Join(dir, "no", "such", "dir", "out."+ext))
	case "stdoutfull":
		stdout, _ = os.OpenFile("/dev/full", os.O_WRONLY, 0)
	case "closedpipe":
		pr, pw, _ := os.Pipe()
		pr.Close()
		stdout = pw
	case "fifo":
		// the output is a FIFO whose reader goes away after k bytes; the result is far larger than k + the pipe buffer
		fifo := filepath.Join(dir, "out.fifo")
		if !mkFifo(fifo) {
			return bad("", "")
		}
		args = append(args, "-o", fifo)
	case "paired-fifo":
		// the second file of a paired output is a FIFO whose reader goes away
		in = []string{r1, "--paired-with", r2}
		if ext == "fasta" {
			in = append(in, "--fasta-output")
		}
		if !mkFifo(filepath.Join(dir, "out_R2."+ext)) {
			return bad("", "")
		}
		args = append(args, "-o", outFile)
	case "distribute-fifo":
		// one of the files of obidistribute is a FIFO whose reader goes away
		suffix := ""
		if strings.Contains(fm, "gz") {
			suffix = ".gz"
		}
		if !mkFifo(filepath.Join(dir, "d_B."+ext+suffix)) {
			return bad("", "")
		}
		args = append(args, "-p", filepath.Join(dir, "d_%s."+ext), "-c", "sample")
	case "notdir":
		// a component of the path of the output is a regular file
		os.WriteFile(filepath.Join(dir, "afile"), []byte("x"), 0o644)
		args = append(args, "-o", filepath.Join(dir, "afile", "out."+ext))
	case "isdir":
		os.Mkdir(filepath.Join(dir, "adir."+ext), 0o755)
		args = append(args, "-o", filepath.Join(dir, "adir."+ext))
	case "sysdir":
		// a directory in which nobody, not even root, can create a file
		args = append(args, "-o", "/sys/c18-verif-out."+ext)
	case "rodir", "nofault-rodir":
		// a directory without write permission; a process that can write there all the same (root) makes it a no-fault scenario
		ro := filepath.Join(dir, "ro")
		os.Mkdir(ro, 0o555)
		defer os.Chmod(ro, 0o755)
		sc = "rodir"
		if pf, err := os.Create(filepath.Join(ro, "probe")); err == nil {
			pf.Close()
			os.Remove(filepath.Join(ro, "probe"))
			sc = "nofault-rodir"
			f[2] = sc
			if empty {
				f[2] = "empty-" + sc
			}
			scFull = f[2]
			res.over = strings.Join(f, " ")
		}
		args = append(args, "-o", filepath.Join(ro, "out."+ext))
		produced = func() int64 { return fileSize(filepath.Join(ro, "out."+ext)) }
	case "eio":
		// a device every write on which fails with EIO (the memory of the process itself, address 0)
		args = append(args, "-o", "/proc/self/mem")
	case "distribute-nodir", "distribute-isdir":
		if sc == "distribute-isdir" {
			os.Mkdir(filepath.Join(dir, "d_B."+ext), 0o755)
			args = append(args, "-p", filepath.Join(dir, "d_%s."+ext), "-c", "sample")
		} else {
			args = append(args, "-p", filepath.Join(dir, "no", "such", "dir", "d_%s."+ext), "-c", "sample")
		}
	case "nofault-distribute-append":
		// --append on files that exist: what the run adds is what a run without --append writes
		refdir := filepath.Join(dir, "ref")
		os.Mkdir(refdir, 0o755)
		rc := exec.Command(bin, append(append([]string{}, in...), append(append([]string{}, args...), "-p", filepath.Join(refdir, "d_%s."+ext), "-c", "sample")...)...)
		rc.Env = c18CmdEnv()
		if err := rc.Run(); err != nil {
			return bad("cmd.obidistribute.reference-run", err.Error())
		}
		old := []byte(">old\nacgt\n")
		for _, x := range []string{"A", "B"} { // C does not exist before
			os.WriteFile(filepath.Join(dir, "d_"+x+"."+ext), old, 0o644)
		}
		args = append(args, "--append", "-p", filepath.Join(dir, "d_%s."+ext), "-c", "sample")
		produced = func() int64 {
			t := int64(0)
			for _, x := range []string{"A", "B", "C"} {
				want, e1 := os.ReadFile(filepath.Join(refdir, "d_"+x+"."+ext))
				have, e2 := os.ReadFile(filepath.Join(dir, "d_"+x+"."+ext))
				if x != "C" {
					want = append(append([]byte{}, old...), want...)
				}
				if e1 != nil || e2 != nil || len(want) == 0 || !bytes.Equal(want, have) {
					return 0
				}
				t += int64(len(have))
			}
			return t
		}
	case "nofault":
		if name == "obicsv" {
			stdout, _ = os.Create(outFile)
		} else {
			args = append(args, "-o", outFile)
		}
		produced = func() int64 { return fileSize(outFile) }
	case "paired1", "paired2", "nofault-paired":
		in = []string{r1, "--paired-with", r2}
		if ext == "fasta" {
			in = append(in, "--fasta-output")
		}
		o1, o2 := filepath.Join(dir, "out_R1."+ext), filepath.Join(dir, "out_R2."+ext)
		switch sc {
		case "paired1":
			os.Symlink("/dev/full", o1)
		case "paired2":
			os.Symlink("/dev/full", o2)
		}
		args = append(args, "-o", outFile)
		produced = func() int64 {
			if fileSize(o1) <= 0 || fileSize(o2) <= 0 {
				return 0
			}
			return fileSize(o1) + fileSize(o2)
		}
	case "distribute", "distribute-append", "nofault-distribute":
		suffix := ""
		if strings.Contains(fm, "gz") {
			suffix = ".gz"
		}
		if sc != "nofault-distribute" {
			os.Symlink("/dev/full", filepath.Join(dir, "d_B."+ext+suffix))
		}
		if sc == "distribute-append" {
			args = append(args, "--append")
			oldA := []byte{}
			if suffix == "" {
				oldA = []byte(">old\nacgt\n")
			}
			pa := filepath.Join(dir, "d_A."+ext+suffix)
			os.WriteFile(pa, oldA, 0o644)
			// Props/C18Open.lean append_keeps_old: what was in a file opened with --append is still there, in front
			keptOld = func() bool {
				have, err := os.ReadFile(pa)
				return err == nil && bytes.HasPrefix(have, oldA)
			}
		}
		args = append(args, "-p", filepath.Join(dir, "d_%s."+ext), "-c", "sample")
		produced = func() int64 {
			t := int64(0)
			for _, x := range []string{"A", "B", "C"} {
				s := fileSize(filepath.Join(dir, "d_"+x+"."+ext+suffix))
				if s <= 0 {
					return 0
				}
				t += s
			}
			return t
		}
	case "dyn-devfull", "dyn-nodir", "nofault-dyn-ok", "nofault-dyn-fifo":
		// the second output (obigrep --save-discarded, obimultiplex -u, obitagpcr -u) is written by a goroutine that
		// registers its pipes once it runs; the first output goes to a regular file
		opt := "-u"
		if name == "obigrep" {
			opt = "--save-discarded"
		}
		u := filepath.Join(dir, "second.fastq")
		parts := []string{u}
		if name == "obitagpcr" {
			parts = []string{filepath.Join(dir, "second_R1.fastq"), filepath.Join(dir, "second_R2.fastq")}
		}
		switch sc {
		case "dyn-devfull":
			os.Symlink("/dev/full", parts[len(parts)-1])
		case "dyn-nodir":
			u = filepath.Join(dir, "no", "such", "dir", "second.fastq")
		case "nofault-dyn-fifo":
			for _, q := range parts {
				if err := syscall.Mkfifo(q, 0o600); err != nil {
					return bad("", "")
				}
			}
			lateReader = func(done chan error) bool {
				select {
				case e := <-done:
					done <- e
					return true
				case <-time.After(400 * time.Millisecond):
				}
				for _, q := range parts {
					go func(q string) {
						if rd, err := os.OpenFile(q, os.O_RDONLY, 0); err == nil {
							io.Copy(io.Discard, rd)
							rd.Close()
						}
					}(q)
				}
				return false
			}
		}
		args = append(args, opt, u, "-o", outFile)
		produced = func() int64 {
			for _, q := range parts {
				if fileSize(q) < 0 {
					return 0
				}
			}
			first := outFile
			if name == "obitagpcr" {
				first = filepath.Join(dir, "out_R1."+ext)
			}
			if fileSize(first) < 0 {
				return 0
			}
			return 1
		}
	default:
		return bad("", "")
	}
	needed := int64(-1)
	if empty {
		refOut := filepath.Join(dir, "reference.out")
		rc := exec.Command(bin, append(append(append([]string{}, in...), fmtArgs...), "-o", refOut)...)
		rc.Env = c18CmdEnv()
		if err := rc.Run(); err != nil {
			return bad("cmd."+name+".reference-run", err.Error())
		}
		needed = fileSize(refOut)
		if needed < 0 {
			needed = 0
		}
		f[4] = strconv.FormatInt(needed, 10) // data for the model: the size of the complete output
		res.over = strings.Join(f, " ")
		res.stats[fmt.Sprintf("subprocess:empty-result:needs-bytes=%v", needed > 0)]++
	}
	cmd := exec.Command(bin, append(in, args...)...)
	var stderr bytes.Buffer
	cmd.Stderr = &stderr
	if stdout != nil {
		cmd.Stdout = stdout
		defer stdout.Close()
	}
	cmd.Env = c18CmdEnv()
	done := make(chan error, 1)
	if err := cmd.Start(); err != nil {
		return bad("cmd.start", err.Error())
	}
	go func() { done <- cmd.Wait() }()
	if fifoReader != nil {
		go fifoReader(cmd.Process.Pid)
	}
	exitedEarly := false
	if lateReader != nil {
		exitedEarly = lateReader(done)
	}
	signaled := false
	select {
	case err := <-done:
		if err == nil {
			res.res = "exit0"
		} else {
			res.res = "exit-nonzero"
			if ee, ok := err.(*exec.ExitError); ok {
				if ws, ok := ee.Sys().(syscall.WaitStatus); ok && ws.Signaled() {
					signaled = true
				}
			}
		}
	case <-time.After(40 * time.Second):
		cmd.Process.Kill()
		res.res = "hang"
	}
	if after != nil {
		after()
	}
	res.stats["subprocess:"+scFull]++
	res.stats["subprocess-cmd:"+name]++
	class := "small"
	if n > 100 {
		class = "large"
	}
	sig := "cmd." + name + "." + scFull + "." + class
	if empty && needed == 0 && (sc == "devfull" || sc == "stdoutfull") {
		// nothing has to reach the output: the command must not fail (no false alarm), and must leave nothing behind
		if res.res != "exit0" {
			res.fails = append(res.fails, Fail{Sig: sig, Text: name + " with an empty result that needs no byte ended with " + res.res + ": " + c18Tail(stderr.String())})
		}
		return res
	}
	if exitedEarly {
		// the window of Props/C18Reg.lean uncovered_window on the real command: main passed WaitForLastPipe before the
		// writer of the second output had registered (nobody ever opened the output: the FIFO has no reader yet)
		res.stats["subprocess:dyn-window"]++
		res.fails = append(res.fails, Fail{Sig: "cmd." + name + ".dyn-window", Text: name + " ended (" + res.res + ") before its second output was ever opened: main passed WaitForLastPipe before the writer goroutine registered its pipe"})
		return res
	}
	if strings.HasPrefix(sc, "nofault") {
		if res.res != "exit0" {
			res.fails = append(res.fails, Fail{Sig: sig, Text: name + " whose outputs can all be written ended with " + res.res + ": " + c18Tail(stderr.String())})
		} else if empty {
			if produced != nil && produced() != needed {
				res.fails = append(res.fails, Fail{Sig: sig, Text: fmt.Sprintf("%s ended with status 0 but its output holds %d bytes instead of %d", name, produced(), needed)})
			}
		} else if produced != nil && produced() <= 0 {
			res.fails = append(res.fails, Fail{Sig: sig, Text: name + " ended with status 0 but an output is missing or empty"})
		}
		return res
	}
	if keptOld != nil && !keptOld() {
		res.fails = append(res.fails, Fail{Sig: sig + ".append-lost-old", Text: name + " --append: the previous content of an output file is no longer in front of it"})
	}
	if res.res != "exit-nonzero" {
		res.fails = append(res.fails, Fail{Sig: sig, Text: name + " one of whose outputs cannot be written ended with " + res.res})
	} else if !signaled {
		// a normal exit with a non-zero status must come with a message (a death by SIGPIPE is reported by the shell)
		low := strings.ToLower(stderr.String())
		if !strings.Contains(low, "fatal") && !strings.Contains(low, "cannot") && !strings.Contains(low, "error") {
			res.fails = append(res.fails, Fail{Sig: sig + ".no-message", Text: name + " failed without reporting the failure on stderr: " + c18Tail(stderr.String())})
		}
		res.stats["subprocess:reported-on-stderr"]++
	} else {
		res.stats["subprocess:killed-by-signal"]++
	}
	return res
}

func c18CmdEnv() []string {
	env := []string{}
	for _, e := range os.Environ() {
		if !strings.HasPrefix(e, "C18_CHILD=") {
			env = append(env, e)
		}
	}
	return env
}

func c18Tail(s string) string {
	if len(s) > 300 {
		s = s[len(s)-300:]
	}
	return s
}

// ---------------------------------------------------------------------------------------------
// child processes

func c18IsChild() bool { return os.Getenv("C18_CHILD") != "" }

// slowFatal delays the report of a fatal error by a few milliseconds (a logrus hook runs before the
// exit function): if the code under test has already told the rest of the program that the output is
// complete (pipe unregistered, iterator ended) before it reports the failure, main() wins the race
// deterministically here, as it does about one time in two in the real command.
type slowFatal struct{}

func (slowFatal) Levels() []log.Level { return []log.Level{log.FatalLevel} }
func (slowFatal) Fire(*log.Entry) error {
	time.Sleep(30 * time.Millisecond)
	return nil
}

// c18Hooked installs the hook once; main() sets the log level after init, so this is done lazily
var c18Hooked bool

func c18InstallHook() {
	if c18IsChild() && !c18Hooked {
		c18Hooked = true
		log.SetLevel(log.FatalLevel) // hooks only fire for enabled levels (output is discarded anyway)
		log.AddHook(slowFatal{})
	}
}

// c18Child runs one case in a process of its own (the pipe registry of the real code is process wide
// and is left unbalanced by every case that ends in log.Fatal).
func c18Child(c string) (r c18Res) {
	r.stats = map[string]int{"child-process": 1}
	cmd := exec.Command(os.Args[0], "C18", "exec")
	cmd.Env = append(os.Environ(), "C18_CHILD=1")
	cmd.Stdin = strings.NewReader(c + "\n")
	outb, err := cmd.Output()
	if err != nil {
		r.res = "child-error"
		r.fails = []Fail{{Sig: "child.error", Text: err.Error()}}
		return r
	}
	r.res = "child-error"
	for _, l := range strings.Split(string(outb), "\n") {
		p := strings.Split(l, "\t")
		switch {
		case p[0] == "C" && len(p) >= 3:
			r.over = p[1]
			r.res = p[2]
		case p[0] == "F" && len(p) >= 4:
			r.fails = append(r.fails, Fail{Sig: p[1], Text: p[3]})
		case p[0] == "S" && len(p) >= 3:
			if v, err := strconv.Atoi(p[2]); err == nil {
				r.stats[p[1]] += v
			}
		}
	}
	return r
}
