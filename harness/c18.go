//go:build c18

package main

import (
	"bytes"
	"compress/gzip"
	"errors"
	"fmt"
	"io"
	"math/rand"
	"os"
	"os/exec"
	"path/filepath"
	"strconv"
	"strings"
	"sync"
	"time"

	log "github.com/sirupsen/logrus"

	"git.metabarcoding.org/obitools/obitools4/obitools4/pkg/obiformats"
	"git.metabarcoding.org/obitools/obitools4/obitools4/pkg/obiiter"
	"git.metabarcoding.org/obitools/obitools4/obitools4/pkg/obiseq"
)

type c18 struct{}

func init() { props["C18"] = c18{} }

// failSink accepts `limit` bytes, then fails every write; Close can fail too.
type failSink struct {
	mu       sync.Mutex
	limit    int
	buf      bytes.Buffer
	closeErr bool
	closes   int
}

var errSinkFull = errors.New("no space left on device")

func (s *failSink) Write(p []byte) (int, error) {
	s.mu.Lock()
	defer s.mu.Unlock()
	n := len(p)
	if room := s.limit - s.buf.Len(); n > room {
		n = room
	}
	if n < 0 {
		n = 0
	}
	s.buf.Write(p[:n])
	if n < len(p) {
		return n, errSinkFull
	}
	return n, nil
}

func (s *failSink) Close() error {
	s.mu.Lock()
	defer s.mu.Unlock()
	s.closes++
	if s.closeErr {
		return errors.New("close: input/output error")
	}
	return nil
}

func c18Record(k, j int, withQual bool) *obiseq.BioSequence {
	r := rand.New(rand.NewSource(int64(k*1000 + j + 11)))
	n := 20 + r.Intn(120)
	sq := make([]byte, n)
	for i := range sq {
		sq[i] = "acgt"[r.Intn(4)]
	}
	s := obiseq.NewBioSequence(fmt.Sprintf("s%d_%d", k, j), sq, "")
	s.SetAttribute("count", 1+r.Intn(50))
	if withQual {
		q := make([]byte, n)
		for i := range q {
			q[i] = byte(r.Intn(42))
		}
		s.SetQualities(q)
	}
	return s
}

func c18Batch(k, n int, withQual bool) obiiter.BioSequenceBatch {
	sl := obiseq.MakeBioSequenceSlice()
	for j := 0; j < n; j++ {
		sl = append(sl, c18Record(k, j, withQual))
	}
	return obiiter.MakeBioSequenceBatch("src", k, sl)
}

type c18Arr struct{ order, n int }

// c18Run drives the real writer over the sink with the forced arrival order (one formatting worker).
func c18Run(w string, gz bool, own bool, arrival []c18Arr, out io.WriteCloser) string {
	return guardT(4*time.Second, func() string {
		opts := []obiformats.WithOption{obiformats.OptionsParallelWorkers(1), obiformats.OptionsCompressed(gz)}
		if own {
			opts = append(opts, obiformats.OptionCloseFile())
		} else {
			opts = append(opts, obiformats.OptionDontCloseFile())
		}
		it := obiiter.MakeIBioSequence()
		it.Add(1)
		go func() {
			for _, a := range arrival {
				it.Push(c18Batch(a.order, a.n, w == "fastq"))
			}
			it.Done()
		}()
		go it.WaitAndClose()
		var ni obiiter.IBioSequence
		var err error
		switch w {
		case "fasta":
			ni, err = obiformats.WriteFasta(it, out, opts...)
		case "fastq":
			ni, err = obiformats.WriteFastq(it, out, opts...)
		case "json":
			ni, err = obiformats.WriteJSON(it, out, opts...)
		case "csv":
			ni, err = obiformats.WriteCSV(it, out, opts...)
		default:
			return "bad-op"
		}
		if err != nil {
			return "fatal"
		}
		ni.Consume()
		// the writer goroutine closes the output last; the global pipe registry cannot be used here
		// because a writer that died in log.Fatal never unregisters
		if c18IsChild() {
			// exactly what the commands' main() does: wait for the pipe registry, then exit.  (Usable
			// because such cases run in a child process of their own: the registry is process wide and
			// is left unbalanced by every writer that died in log.Fatal.)
			obiiter.WaitForLastPipe()
			return "ok"
		}
		if fs, ok := out.(*failSink); ok {
			for i := 0; i < 2000; i++ {
				fs.mu.Lock()
				c := fs.closes
				fs.mu.Unlock()
				if c > 0 {
					return "ok"
				}
				time.Sleep(time.Millisecond)
			}
			return "hang"
		}
		return "ok"
	})
}

func (c18) Gen(rng *rand.Rand, tier string, emit func(string)) {
	writers := []string{"fasta", "fastq", "json", "csv"}
	oneOwn := func(w string, gz, k, cf, own int, arr []c18Arr) {
		parts := make([]string, len(arr))
		for i, a := range arr {
			parts[i] = fmt.Sprintf("%d:%d:-", a.order, a.n)
		}
		emit(fmt.Sprintf("%s gz=%d k=%d cf=%d zlen=0 own=%d %s", w, gz, k, cf, own, strings.Join(parts, " ")))
	}
	one := func(w string, gz, k, cf int, arr []c18Arr) { oneOwn(w, gz, k, cf, 1, arr) }
	// corpus: small result (< 4 KiB: reaches the sink only at the final flush), drained chunks, close failure
	for _, w := range writers {
		small := []c18Arr{{0, 2}, {1, 1}}
		for _, k := range []int{0, 1, 100, 300, 1 << 20} {
			one(w, 0, k, 0, small)
		}
		one(w, 0, 1<<20, 1, small)
		big := []c18Arr{{1, 30}, {0, 30}, {2, 30}} // chunk 1 is written from the buffer (drained)
		for _, k := range []int{0, 2000, 4096, 5000, 9000, 12000, 1 << 20} {
			one(w, 0, k, 0, big)
		}
		one(w, 1, 10, 0, small)
		one(w, 1, 1<<20, 0, small)
		one(w, 1, 200, 0, big)
		// a writer that does not own its output (what the ...ToStdout variants use)
		for _, k := range []int{0, 100, 1 << 20} {
			oneOwn(w, 0, k, 0, 0, small)
		}
		oneOwn(w, 0, 5000, 0, 0, big)
		oneOwn(w, 1, 10, 0, 0, small)
	}
	emit("cmd obiconvert devfull 3")
	emit("cmd obiconvert devfull 2000")
	emit("cmd obiconvert closedpipe 2000")
	n := 300
	if tier == "thorough" {
		n = 2500
	}
	for i := 0; i < n; i++ {
		w := writers[rng.Intn(4)]
		nb := 1 + rng.Intn(5)
		perm := rng.Perm(nb)
		arr := make([]c18Arr, nb)
		total := 0
		for i, o := range perm {
			m := rng.Intn(25)
			if rng.Intn(4) == 0 {
				m = 0
			}
			arr[i] = c18Arr{o, m}
			total += m * 130
		}
		gz := 0
		if rng.Intn(5) == 0 {
			gz = 1
		}
		k := rng.Intn(total + 400)
		if rng.Intn(6) == 0 {
			k = 1 << 20
		}
		cf := 0
		if rng.Intn(12) == 0 {
			cf = 1
		}
		own := 1
		if rng.Intn(8) == 0 {
			own = 0
		}
		oneOwn(w, gz, k, cf, own, arr)
	}
}

var c18CmdOnce = map[string]string{}

// repoCommand builds cmd/obitools/<name> from /repo's working tree once per run.
func repoCommand(name string) (string, error) {
	if p, ok := c18CmdOnce[name]; ok {
		return p, nil
	}
	root := os.Getenv("VERIF_ROOT")
	if root == "" {
		root = "/verif"
	}
	repo := os.Getenv("VERIF_REPO")
	if repo == "" {
		repo = "/repo"
	}
	out := filepath.Join(binDir(), "cmd_"+name)
	cmd := exec.Command("go", "build", "-o", out, "./cmd/obitools/"+name)
	cmd.Dir = repo
	env := []string{}
	for _, e := range os.Environ() {
		if strings.HasPrefix(e, "GOFLAGS=") || strings.HasPrefix(e, "GOWORK=") {
			continue
		}
		env = append(env, e)
	}
	cmd.Env = append(env, "GOPROXY=off", "GOSUMDB=off", "GOTOOLCHAIN=local", "CGO_CFLAGS=-w -O2")
	if b, err := cmd.CombinedOutput(); err != nil {
		return "", fmt.Errorf("go build %s: %v: %s", name, err, b)
	}
	c18CmdOnce[name] = out
	return out, nil
}

func (c18) Exec(c string) (string, []Fail) {
	c18InstallHook()
	f := strings.Fields(c)
	if len(f) >= 4 && f[0] == "cmd" {
		return c18Cmd(f)
	}
	if len(f) < 6 {
		return "bad-op", nil
	}
	w := f[0]
	get := func(s, key string) (int, bool) {
		if !strings.HasPrefix(s, key+"=") {
			return 0, false
		}
		v, err := strconv.Atoi(s[len(key)+1:])
		return v, err == nil
	}
	gz, ok1 := get(f[1], "gz")
	k, ok2 := get(f[2], "k")
	cf, ok3 := get(f[3], "cf")
	own, ok4 := get(f[5], "own")
	if !ok1 || !ok2 || !ok3 || !ok4 || !strings.HasPrefix(f[4], "zlen=") {
		return "bad-op", nil
	}
	if !c18IsChild() && (own == 0 || cf == 1 || k < 1<<20) {
		// every fault-injected case runs like a command: its own process, main waiting on the pipe registry
		return c18Child(c)
	}
	var arrival []c18Arr
	for _, p := range f[6:] {
		q := strings.Split(p, ":")
		if len(q) < 2 {
			return "bad-op", nil
		}
		o, e1 := strconv.Atoi(q[0])
		n, e2 := strconv.Atoi(q[1])
		if e1 != nil || e2 != nil {
			return "bad-op", nil
		}
		arrival = append(arrival, c18Arr{o, n})
	}
	stat("writer:" + w)
	// reference run on a sink that never fails: the expected bytes
	ref := &failSink{limit: 1 << 30}
	if r := c18Run(w, gz == 1, own == 1, arrival, ref); r != "ok" {
		return "bad-op", []Fail{{Sig: w + ".reference-run", Text: "writer fails on a sink that never fails: " + r}}
	}
	expected := append([]byte{}, ref.buf.Bytes()...)
	zlen := len(expected)
	// chunk texts as data for the model
	texts := make([]string, len(arrival))
	opt := obiformats.MakeOptions([]obiformats.WithOption{})
	for i, a := range arrival {
		b := c18Batch(a.order, a.n, w == "fastq")
		var t []byte
		switch w {
		case "fasta":
			t = obiformats.FormatFastaBatch(b, opt.FormatFastSeqHeader(), false).Bytes()
		case "fastq":
			t = obiformats.FormatFastqBatch(b, opt.FormatFastSeqHeader(), false).Bytes()
		case "json":
			t = obiformats.FormatJSONBatch(b)
		case "csv":
			t = obiformats.FormatCVSBatch(b, opt)
		}
		texts[i] = fmt.Sprintf("%d:%d:%s", a.order, a.n, hx(t))
	}
	caseOverride = fmt.Sprintf("%s gz=%d k=%d cf=%d zlen=%d own=%d %s", w, gz, k, cf, zlen, own, strings.Join(texts, " "))
	// the complete result, assembled independently of any run of the writer: the chunk texts in batch order
	var refFails []Fail
	if gz == 0 {
		byOrder := make([][]byte, len(arrival))
		okOrders := true
		for i, a := range arrival {
			if a.order < 0 || a.order >= len(arrival) {
				okOrders = false
				break
			}
			t, _ := unhx(strings.SplitN(texts[i], ":", 3)[2])
			byOrder[a.order] = t
		}
		if okOrders {
			var want []byte
			if w == "json" {
				want = append(want, "[\n"...)
				first := true
				for _, t := range byOrder {
					if len(t) == 0 {
						continue
					}
					if !first {
						want = append(want, ",\n"...)
					}
					want = append(want, t...)
					first = false
				}
				want = append(want, "\n]\n"...)
			} else {
				for _, t := range byOrder {
					want = append(want, t...)
				}
			}
			if !bytes.Equal(want, expected) {
				refFails = append(refFails, Fail{Sig: w + ".silent-loss.no-fault", Text: fmt.Sprintf("on a sink that never fails the writer ended normally with %d of %d bytes written", len(expected), len(want))})
			}
		}
	}
	sink := &failSink{limit: k, closeErr: cf == 1}
	out := c18Run(w, gz == 1, own == 1, arrival, sink)
	sink.mu.Lock()
	got := append([]byte{}, sink.buf.Bytes()...)
	sink.mu.Unlock()
	if k < zlen {
		stat("fault-injected")
	}
	if len(expected) < 4096 {
		stat("result<4KiB")
	}
	fails := refFails
	class := "small"
	if len(expected) >= 4096 {
		class = "large"
	}
	if gz == 1 {
		class = "gz"
	}
	if cf == 1 {
		class += "-closefail"
	}
	if own == 0 {
		class += "-notowned"
	}
	if out == "ok" {
		complete := bytes.Equal(got, expected)
		if gz == 1 && !complete {
			// compressed streams may differ in block layout; decode instead
			if zr, err := gzip.NewReader(bytes.NewReader(got)); err == nil {
				d1, e1 := io.ReadAll(zr)
				zr2, _ := gzip.NewReader(bytes.NewReader(expected))
				d2, _ := io.ReadAll(zr2)
				complete = e1 == nil && bytes.Equal(d1, d2)
			}
		}
		if !complete {
			fails = append(fails, Fail{Sig: w + ".silent-loss." + class, Text: fmt.Sprintf("writer ended normally but the sink holds %d of %d bytes", len(got), len(expected))})
		}
		if cf == 1 && own == 1 {
			fails = append(fails, Fail{Sig: w + ".silent-loss." + class, Text: "Close failed but the writer ended normally"})
		}
	} else if out != "fatal" {
		fails = append(fails, Fail{Sig: w + ".outcome", Text: "writer neither completed nor reported: " + out})
	}
	if gz == 1 {
		return out, fails
	}
	return fmt.Sprintf("%s got=%d", out, len(got)), fails
}

// c18Cmd runs the real command as a subprocess: `cmd obiconvert devfull|closedpipe <nrecords>`.
func c18Cmd(f []string) (string, []Fail) {
	caseTrivial = false
	n, err := strconv.Atoi(f[3])
	if err != nil || f[1] != "obiconvert" {
		return "bad-op", nil
	}
	bin, err := repoCommand("obiconvert")
	if err != nil {
		return "bad-op", []Fail{{Sig: "cmd.build", Text: err.Error()}}
	}
	dir, _ := os.MkdirTemp("", "c18")
	defer os.RemoveAll(dir)
	in := filepath.Join(dir, "in.fasta")
	var sb strings.Builder
	for i := 0; i < n; i++ {
		fmt.Fprintf(&sb, ">s%d\nacgtacgtacgtacgtacgtacgtacgtacgt\n", i)
	}
	os.WriteFile(in, []byte(sb.String()), 0o644)
	var cmd *exec.Cmd
	switch f[2] {
	case "devfull":
		cmd = exec.Command(bin, in, "-o", "/dev/full")
	case "closedpipe":
		cmd = exec.Command(bin, in)
		pr, pw, _ := os.Pipe()
		pr.Close()
		cmd.Stdout = pw
		defer pw.Close()
	default:
		return "bad-op", nil
	}
	done := make(chan error, 1)
	cmd.Start()
	go func() { done <- cmd.Wait() }()
	var res string
	select {
	case err := <-done:
		if err == nil {
			res = "exit0"
		} else {
			res = "exit-nonzero"
		}
	case <-time.After(60 * time.Second):
		cmd.Process.Kill()
		res = "hang"
	}
	stat("subprocess:" + f[2])
	var fails []Fail
	if res != "exit-nonzero" {
		class := "small"
		if n > 100 {
			class = "large"
		}
		fails = append(fails, Fail{Sig: "cmd." + f[2] + "." + class, Text: "obiconvert whose output cannot be written ended with " + res})
	}
	// the model has no process: the expected result is part of the line protocol
	caseOverride = strings.Join(f, " ")
	return res, fails
}

func c18IsChild() bool { return os.Getenv("C18_CHILD") != "" }

// slowFatal delays the report of a fatal error by a few milliseconds (a logrus hook runs before the
// exit function): if the code under test has already told the rest of the program that the output is
// complete (pipe unregistered, iterator ended) before it reports the failure, main() wins the race
// deterministically here, as it does about one time in two in the real command.
type slowFatal struct{}

func (slowFatal) Levels() []log.Level { return []log.Level{log.FatalLevel} }
func (slowFatal) Fire(*log.Entry) error {
	time.Sleep(30 * time.Millisecond)
	return nil
}

// c18Hooked installs the hook once; main() sets the log level after init, so this is done lazily
var c18Hooked bool

func c18InstallHook() {
	if c18IsChild() && !c18Hooked {
		c18Hooked = true
		log.SetLevel(log.FatalLevel) // hooks only fire for enabled levels (output is discarded anyway)
		log.AddHook(slowFatal{})
	}
}

// c18Child runs one case in a process of its own (the pipe registry of the real code is process wide
// and is left unbalanced by every case that ends in log.Fatal).
func c18Child(c string) (string, []Fail) {
	cmd := exec.Command(os.Args[0], "C18", "exec")
	cmd.Env = append(os.Environ(), "C18_CHILD=1")
	cmd.Stdin = strings.NewReader(c + "\n")
	outb, err := cmd.Output()
	if err != nil {
		return "child-error", []Fail{{Sig: "child.error", Text: err.Error()}}
	}
	res := "child-error"
	var fails []Fail
	for _, l := range strings.Split(string(outb), "\n") {
		p := strings.Split(l, "\t")
		switch {
		case p[0] == "C" && len(p) >= 3:
			caseOverride = p[1]
			res = p[2]
		case p[0] == "F" && len(p) >= 4:
			fails = append(fails, Fail{Sig: p[1], Text: p[3]})
		}
	}
	stat("child-process")
	return res, fails
}
