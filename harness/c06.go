//go:build c06

package main

// C06 — dereplication conserves counts and merges exactly the identical records.
//
// case line (see lean/ObiVerif/Driver/C06.lean):
//
//	uniq <mem|disk> c=<chunks> w=<workers> b=<batch size> ns=<0|1> na=<hex> cats=<hex,..|-> stats=<hex,..|-> dm=<hex|*> <rec> ...
//	<rec> = <id hex>:<seq hex>:<count|->:<attrs>:<merged>
//
// Exec builds fresh obiseq.BioSequence records, pushes them in batches of <batch size> through the real
// obichunk.IUniqueSequence (memory or disk, <chunks> hash chunks, <workers> workers), canonicalises the
// drained records (sorted; the id of the representative and the output order are not part of the result),
// and, when dm names a key, applies the real obidemerge worker to every output record and dereplicates
// the result again.  The oracle recounts everything from the input with Go maps.

import (
	"bytes"
	"fmt"
	"hash/crc32"
	"math"
	"math/rand"
	"os"
	"os/exec"
	"path/filepath"
	"sort"
	"strconv"
	"strings"
	"time"

	gojson "github.com/goccy/go-json"

	"git.metabarcoding.org/obitools/obitools4/obitools4/pkg/obichunk"
	"git.metabarcoding.org/obitools/obitools4/obitools4/pkg/obiformats"
	"git.metabarcoding.org/obitools/obitools4/obitools4/pkg/obiiter"
	"git.metabarcoding.org/obitools/obitools4/obitools4/pkg/obiseq"
	"git.metabarcoding.org/obitools/obitools4/obitools4/pkg/obitools/obidemerge"
	"git.metabarcoding.org/obitools/obitools4/obitools4/pkg/obiutils"
)

type c06 struct{}

func init() {
	props["C06"] = c06{}
	// goccy/go-json compiles and caches its decoder for a type at first use without synchronisation (build
	// without -race: `cachedDecoder[index] = dec`); the header-parsing workers of a reader all start with that
	// first use, and about once in 10^4 process starts one of them sees a half-published decoder and dies with
	// a nil dereference in internal/decoder/map.go.  That is a defect of the external library at process start
	// (every disk case is a fresh child process here), not of dereplication: the decoder is warmed up once,
	// single-threaded, before any case runs.
	a := obiseq.Annotation{}
	_ = gojson.Unmarshal([]byte(`{"a":1,"b":"x","c":{"d":2}}`), &a)
}

type c06Attr struct {
	key   string
	isInt bool
	sval  string
	ival  int
}

func (a c06Attr) str() string {
	if a.isInt {
		return strconv.Itoa(a.ival)
	}
	return a.sval
}

type c06Entry struct {
	val string
	w   int
}

type c06Merged struct {
	key     string
	entries []c06Entry
}

type c06Rec struct {
	id     string
	seq    []byte
	count  int // -1: no count attribute
	attrs  []c06Attr
	merged []c06Merged
}

func (r *c06Rec) cnt() int {
	if r.count < 0 {
		return 1
	}
	return r.count
}

func (r *c06Rec) attr(k string) (string, bool) {
	for _, a := range r.attrs {
		if a.key == k {
			return a.str(), true
		}
	}
	return "", false
}

func (r *c06Rec) mergedMap(k string) (map[string]int, bool) {
	for _, m := range r.merged {
		if m.key == k {
			res := map[string]int{}
			for _, e := range m.entries {
				res[e.val] += e.w
			}
			return res, true
		}
	}
	return nil, false
}

type c06Case struct {
	disk    bool
	chunks  int
	workers int
	bsize   int
	ns      bool
	na      string
	cats    []string
	stats   []string
	dm      string
	hasDm   bool
	recs    []c06Rec
}

func c06hs(s string) string { return hx([]byte(s)) }

func c06List(l []string) string {
	if len(l) == 0 {
		return "-"
	}
	h := make([]string, len(l))
	for i, s := range l {
		h[i] = c06hs(s)
	}
	return strings.Join(h, ",")
}

func (r *c06Rec) line() string {
	cnt := "-"
	if r.count >= 0 {
		cnt = strconv.Itoa(r.count)
	}
	as := "-"
	if len(r.attrs) > 0 {
		p := make([]string, len(r.attrs))
		for i, a := range r.attrs {
			if a.isInt {
				p[i] = c06hs(a.key) + "=i" + strconv.Itoa(a.ival)
			} else {
				p[i] = c06hs(a.key) + "=s" + c06hs(a.sval)
			}
		}
		as = strings.Join(p, ",")
	}
	ms := "-"
	if len(r.merged) > 0 {
		p := make([]string, len(r.merged))
		for i, m := range r.merged {
			q := []string{c06hs(m.key)}
			for _, e := range m.entries {
				q = append(q, c06hs(e.val)+"="+strconv.Itoa(e.w))
			}
			p[i] = strings.Join(q, "~")
		}
		ms = strings.Join(p, ",")
	}
	return fmt.Sprintf("%s:%s:%s:%s:%s", c06hs(r.id), hx(r.seq), cnt, as, ms)
}

func (c *c06Case) line() string {
	mode := "mem"
	if c.disk {
		mode = "disk"
	}
	ns := 0
	if c.ns {
		ns = 1
	}
	dm := "*"
	if c.hasDm {
		dm = c06hs(c.dm)
	}
	p := []string{"uniq", mode, fmt.Sprintf("c=%d w=%d b=%d ns=%d", c.chunks, c.workers, c.bsize, ns),
		"na=" + c06hs(c.na), "cats=" + c06List(c.cats), "stats=" + c06List(c.stats), "dm=" + dm}
	for i := range c.recs {
		p = append(p, c.recs[i].line())
	}
	return strings.Join(p, " ")
}

func c06unhs(s string) (string, bool) {
	b, ok := unhx(s)
	return string(b), ok
}

func c06ParseList(s string) ([]string, bool) {
	if s == "-" {
		return nil, true
	}
	var res []string
	for _, h := range strings.Split(s, ",") {
		v, ok := c06unhs(h)
		if !ok {
			return nil, false
		}
		res = append(res, v)
	}
	return res, true
}

func c06ParseRec(s string) (c06Rec, bool) {
	var r c06Rec
	f := strings.Split(s, ":")
	if len(f) != 5 {
		return r, false
	}
	var ok bool
	if r.id, ok = c06unhs(f[0]); !ok {
		return r, false
	}
	if r.seq, ok = unhx(f[1]); !ok {
		return r, false
	}
	r.count = -1
	if f[2] != "-" {
		n, err := strconv.Atoi(f[2])
		if err != nil || n < 0 {
			return r, false
		}
		r.count = n
	}
	if f[3] != "-" {
		for _, kv := range strings.Split(f[3], ",") {
			p := strings.Split(kv, "=")
			if len(p) != 2 || len(p[1]) < 1 {
				return r, false
			}
			var a c06Attr
			if a.key, ok = c06unhs(p[0]); !ok {
				return r, false
			}
			switch p[1][0] {
			case 's':
				if a.sval, ok = c06unhs(p[1][1:]); !ok {
					return r, false
				}
			case 'i':
				n, err := strconv.Atoi(p[1][1:])
				if err != nil {
					return r, false
				}
				a.isInt, a.ival = true, n
			default:
				return r, false
			}
			r.attrs = append(r.attrs, a)
		}
	}
	if f[4] != "-" {
		for _, ms := range strings.Split(f[4], ",") {
			p := strings.Split(ms, "~")
			var m c06Merged
			if m.key, ok = c06unhs(p[0]); !ok {
				return r, false
			}
			for _, es := range p[1:] {
				q := strings.Split(es, "=")
				if len(q) != 2 {
					return r, false
				}
				v, ok := c06unhs(q[0])
				w, err := strconv.Atoi(q[1])
				if !ok || err != nil || w < 0 {
					return r, false
				}
				m.entries = append(m.entries, c06Entry{v, w})
			}
			r.merged = append(r.merged, m)
		}
	}
	return r, true
}

func c06Parse(line string) (*c06Case, bool) {
	f := strings.Fields(line)
	if len(f) < 10 || f[0] != "uniq" {
		return nil, false
	}
	c := &c06Case{}
	switch f[1] {
	case "mem":
	case "disk":
		c.disk = true
	default:
		return nil, false
	}
	num := func(s, pre string) (int, bool) {
		if !strings.HasPrefix(s, pre) {
			return 0, false
		}
		n, err := strconv.Atoi(s[len(pre):])
		return n, err == nil && n >= 0
	}
	var ok bool
	var ns int
	if c.chunks, ok = num(f[2], "c="); !ok || c.chunks == 0 {
		return nil, false
	}
	if c.workers, ok = num(f[3], "w="); !ok || c.workers == 0 {
		return nil, false
	}
	if c.bsize, ok = num(f[4], "b="); !ok || c.bsize == 0 {
		return nil, false
	}
	if ns, ok = num(f[5], "ns="); !ok {
		return nil, false
	}
	c.ns = ns != 0
	str := func(s, pre string) (string, bool) {
		if !strings.HasPrefix(s, pre) {
			return "", false
		}
		return s[len(pre):], true
	}
	var s string
	if s, ok = str(f[6], "na="); !ok {
		return nil, false
	}
	if c.na, ok = c06unhs(s); !ok {
		return nil, false
	}
	if s, ok = str(f[7], "cats="); !ok {
		return nil, false
	}
	if c.cats, ok = c06ParseList(s); !ok {
		return nil, false
	}
	if s, ok = str(f[8], "stats="); !ok {
		return nil, false
	}
	if c.stats, ok = c06ParseList(s); !ok {
		return nil, false
	}
	seen := map[string]bool{}
	for _, k := range c.stats {
		if seen[k] {
			return nil, false
		}
		seen[k] = true
	}
	if s, ok = str(f[9], "dm="); !ok {
		return nil, false
	}
	if s != "*" {
		c.hasDm = true
		if c.dm, ok = c06unhs(s); !ok {
			return nil, false
		}
	}
	for _, rs := range f[10:] {
		r, ok := c06ParseRec(rs)
		if !ok {
			return nil, false
		}
		c.recs = append(c.recs, r)
	}
	return c, true
}

// build makes the real record; variant chooses the Go type of the merged maps
func (r *c06Rec) build(variant int) *obiseq.BioSequence {
	s := obiseq.NewBioSequence(r.id, r.seq, "")
	if r.count >= 0 {
		s.SetAttribute("count", r.count)
	}
	for _, a := range r.attrs {
		if a.isInt {
			s.SetAttribute(a.key, a.ival)
		} else {
			s.SetAttribute(a.key, a.sval)
		}
	}
	for j, m := range r.merged {
		switch (variant + j) % 4 {
		case 0:
			v := obiseq.StatsOnValues{}
			for _, e := range m.entries {
				v[e.val] += e.w
			}
			s.SetAttribute("merged_"+m.key, v)
		case 1:
			v := map[string]int{}
			for _, e := range m.entries {
				v[e.val] += e.w
			}
			s.SetAttribute("merged_"+m.key, v)
		case 2: // as the JSON header parser delivers it
			v := map[string]interface{}{}
			for _, e := range m.entries {
				old, _ := v[e.val].(float64)
				v[e.val] = old + float64(e.w)
			}
			s.SetAttribute("merged_"+m.key, v)
		default:
			v := map[string]interface{}{}
			for _, e := range m.entries {
				old, _ := v[e.val].(int)
				v[e.val] = old + e.w
			}
			s.SetAttribute("merged_"+m.key, v)
		}
	}
	return s
}

func c06ValStr(v interface{}) string {
	switch v := v.(type) {
	case string:
		return v
	case float64:
		if math.Floor(v) == v && math.Abs(v) < 1e15 {
			return strconv.Itoa(int(v))
		}
		return fmt.Sprint(v)
	default:
		return fmt.Sprint(v)
	}
}

func c06StatsOf(v interface{}) (map[string]int, bool) {
	switch m := v.(type) {
	case obiseq.StatsOnValues:
		return m, true
	case map[string]int:
		return m, true
	case map[string]interface{}:
		res := map[string]int{}
		for k, x := range m {
			n, err := obiutils.InterfaceToInt(x)
			if err != nil {
				return nil, false
			}
			res[k] = n
		}
		return res, true
	}
	return nil, false
}

func c06ShowMap(k string, m map[string]int) string {
	es := make([]string, 0, len(m))
	for v, w := range m {
		es = append(es, c06hs(v)+"="+strconv.Itoa(w))
	}
	sort.Strings(es)
	return strings.Join(append([]string{c06hs(k)}, es...), "~")
}

func c06ShowParts(seq []byte, count int, attrs map[string]string, merged map[string]map[string]int) string {
	as := make([]string, 0, len(attrs))
	for k, v := range attrs {
		as = append(as, c06hs(k)+"="+c06hs(v))
	}
	sort.Strings(as)
	ms := make([]string, 0, len(merged))
	for k, m := range merged {
		ms = append(ms, c06ShowMap(k, m))
	}
	sort.Strings(ms)
	a, m := "-", "-"
	if len(as) > 0 {
		a = strings.Join(as, ",")
	}
	if len(ms) > 0 {
		m = strings.Join(ms, ",")
	}
	return fmt.Sprintf("%s:%d:%s:%s", hx(seq), count, a, m)
}

// canonical form of a record of the real code
func c06Canon(s *obiseq.BioSequence, stats []string) string {
	attrs := map[string]string{}
	merged := map[string]map[string]int{}
	if s.HasAnnotation() {
		for k, v := range s.Annotations() {
			if k == "count" || strings.HasPrefix(k, "merged_") {
				continue
			}
			attrs[k] = c06ValStr(v)
		}
		for _, k := range stats {
			if v, ok := s.Annotations()["merged_"+k]; ok {
				if m, ok := c06StatsOf(v); ok {
					merged[k] = m
				} else {
					merged[k] = map[string]int{"?bad-type": -1}
				}
			}
		}
	}
	return c06ShowParts(s.Sequence(), s.Count(), attrs, merged)
}

func c06ShowAll(tag string, l []string) string {
	sort.Strings(l)
	return strings.Join(append([]string{tag, strconv.Itoa(len(l))}, l...), " ")
}

// runUniq pushes recs through the real IUniqueSequence and drains it
func (c *c06Case) runUniq(recs []*obiseq.BioSequence) ([]*obiseq.BioSequence, error) {
	it := obiiter.MakeIBioSequence()
	it.Add(1)
	go func() {
		order := 0
		for i := 0; i < len(recs); i += c.bsize {
			j := i + c.bsize
			if j > len(recs) {
				j = len(recs)
			}
			sl := obiseq.MakeBioSequenceSlice()
			sl = append(sl, recs[i:j]...)
			it.Push(obiiter.MakeBioSequenceBatch("src", order, sl))
			order++
		}
		it.Done()
	}()
	go it.WaitAndClose()
	opts := []obichunk.WithOption{
		obichunk.OptionBatchCount(c.chunks),
		obichunk.OptionsParallelWorkers(c.workers),
		obichunk.OptionNAValue(c.na),
		obichunk.OptionStatOn(c.stats...),
		obichunk.OptionSubCategory(c.cats...),
	}
	if c.disk {
		opts = append(opts, obichunk.OptionSortOnDisk())
	} else {
		opts = append(opts, obichunk.OptionSortOnMemory())
	}
	if c.ns {
		opts = append(opts, obichunk.OptionsNoSingleton())
	} else {
		opts = append(opts, obichunk.OptionsWithSingleton())
	}
	out, err := obichunk.IUniqueSequence(it, opts...)
	if err != nil {
		return nil, err
	}
	var res []*obiseq.BioSequence
	for out.Next() {
		b := out.Get()
		res = append(res, b.Slice()...)
	}
	return res, nil
}

// ---------------------------------------------------------------------------------------------
// the oracle: recount from the input

type c06Class struct {
	seq    []byte
	cat    []string
	count  int
	n      int
	merged map[string]map[string]int
	attrs  map[string]string // annotations common to all members so far
}

func (c *c06Case) key(r *c06Rec) string {
	p := []string{hx(r.seq)}
	for _, k := range c.cats {
		v, ok := r.attr(k)
		if !ok {
			v = c.na
		}
		p = append(p, c06hs(v))
	}
	return strings.Join(p, "|")
}

// expected classes of a list of records
func (c *c06Case) recount(recs []c06Rec) (map[string]*c06Class, []string) {
	classes := map[string]*c06Class{}
	var order []string
	for i := range recs {
		r := &recs[i]
		k := c.key(r)
		cl, ok := classes[k]
		if !ok {
			cl = &c06Class{seq: r.seq, merged: map[string]map[string]int{}, attrs: map[string]string{}}
			for _, a := range r.attrs {
				cl.attrs[a.key] = a.str()
			}
			for _, s := range c.stats {
				cl.merged[s] = map[string]int{}
			}
			classes[k] = cl
			order = append(order, k)
		} else {
			for ak, av := range cl.attrs {
				if v, ok := r.attr(ak); !ok || v != av {
					delete(cl.attrs, ak)
				}
			}
		}
		cl.n++
		cl.count += r.cnt()
		for _, s := range c.stats {
			if m, ok := r.mergedMap(s); ok {
				for v, w := range m {
					cl.merged[s][v] += w
				}
			} else {
				v, ok := r.attr(s)
				if !ok {
					v = c.na
				}
				cl.merged[s][v] += r.cnt()
			}
		}
	}
	return classes, order
}

func (c *c06Case) expected(recs []c06Rec) (lines []string, total int, ones int) {
	classes, order := c.recount(recs)
	for _, k := range order {
		cl := classes[k]
		total += cl.count
		if cl.count == 1 {
			ones++
			if c.ns {
				continue
			}
		}
		lines = append(lines, c06ShowParts(cl.seq, cl.count, cl.attrs, cl.merged))
	}
	sort.Strings(lines)
	return
}

func c06Diff(exp, got []string) string {
	e := map[string]int{}
	for _, x := range exp {
		e[x]++
	}
	var miss, extra []string
	for _, x := range got {
		if e[x] > 0 {
			e[x]--
		} else {
			extra = append(extra, x)
		}
	}
	for x, n := range e {
		for ; n > 0; n-- {
			miss = append(miss, x)
		}
	}
	sort.Strings(miss)
	if len(miss) > 4 {
		miss = miss[:4]
	}
	if len(extra) > 4 {
		extra = extra[:4]
	}
	return fmt.Sprintf("expected-but-missing=%v unexpected=%v", miss, extra)
}

// classify an output mismatch: which clause of the property fails
func c06Classify(exp, got []string) string {
	part := func(l []string, upto int) map[string]int {
		m := map[string]int{}
		for _, x := range l {
			f := strings.SplitN(x, ":", 4)
			// key of an output record = seq + category attributes; approximated by seq + attrs for the
			// signature only (never used to decide whether there is a failure)
			m[strings.Join(f[:upto], ":")]++
		}
		return m
	}
	same := func(a, b map[string]int) bool {
		if len(a) != len(b) {
			return false
		}
		for k, v := range a {
			if b[k] != v {
				return false
			}
		}
		return true
	}
	if !same(part(exp, 1), part(got, 1)) {
		return "keys"
	}
	if !same(part(exp, 2), part(got, 2)) {
		return "count"
	}
	if !same(part(exp, 3), part(got, 3)) {
		return "annot"
	}
	return "merged"
}

// c06Child runs one case in a child process: a panic in a goroutine of the code under test (the on-disk
// mode reads chunk files in goroutines of its own) cannot be recovered in-process and would take the whole
// harness down; in a child it is the outcome "panic" of that case.
func c06Child(line string) (string, []Fail) {
	exe, err := os.Executable()
	if err != nil {
		return "err", []Fail{{"harness.child", err.Error()}}
	}
	cmd := exec.Command(exe, "C06", "exec")
	cmd.Env = append(os.Environ(), "C06_CHILD=1")
	cmd.Stdin = strings.NewReader(line + "\n")
	var out, errb bytes.Buffer
	cmd.Stdout, cmd.Stderr = &out, &errb
	done := make(chan error, 1)
	if err := cmd.Start(); err != nil {
		return "err", []Fail{{"harness.child", err.Error()}}
	}
	go func() { done <- cmd.Wait() }()
	select {
	case err = <-done:
	case <-time.After(60 * time.Second):
		cmd.Process.Kill()
		<-done
		return "hang", []Fail{{"uniq.hang.disk", "no result after 60 s"}}
	}
	if err != nil {
		lines := strings.Split(errb.String(), "\n")
		msg := lines[0]
		nf := 0
		for _, l := range lines[1:] {
			l = strings.TrimSpace(l)
			if strings.HasPrefix(l, "/") && strings.Contains(l, ".go:") && nf < 12 { // the first frames
				if i := strings.Index(l, " +0x"); i > 0 {
					l = l[:i]
				}
				if i := strings.Index(l, "/pkg/mod/"); i >= 0 {
					l = l[i+9:]
				}
				msg += " < " + strings.TrimPrefix(l, "/repo/")
				nf++
			}
			if strings.HasPrefix(l, "goroutine ") && nf > 0 {
				break
			}
		}
		return "panic", []Fail{{"uniq.panic.disk", "the process died: " + msg}}
	}
	res := "err"
	var fails []Fail
	for _, l := range strings.Split(out.String(), "\n") {
		f := strings.Split(l, "\t")
		if f[0] == "C" && len(f) >= 3 {
			res = f[2]
		} else if f[0] == "F" && len(f) >= 4 {
			fails = append(fails, Fail{f[1], f[3]})
		}
	}
	return res, fails
}

// c06Dispatch: what ISequenceChunkOnDisk does before it reads the chunk files back — WriterDispatcher over
// Distribute(HashClassifier(chunks)) with WriteSequencesToFile — and then, as ISequenceChunkOnDisk does,
// looks at the files at once.  result: `disp <code>:<records in chunk_<code>.fastx> ...` by increasing code.
func c06Dispatch(line string) (string, []Fail) {
	f := strings.Fields(line)
	if len(f) < 3 || !strings.HasPrefix(f[1], "c=") || !strings.HasPrefix(f[2], "b=") {
		caseTrivial = true
		return "bad-op", nil
	}
	chunks, e1 := strconv.Atoi(f[1][2:])
	bsize, e2 := strconv.Atoi(f[2][2:])
	if e1 != nil || e2 != nil || chunks < 1 || bsize < 1 {
		caseTrivial = true
		return "bad-op", nil
	}
	var recs []c06Rec
	for _, rs := range f[3:] {
		r, ok := c06ParseRec(rs)
		if !ok {
			caseTrivial = true
			return "bad-op", nil
		}
		recs = append(recs, r)
	}
	stat("dispatch")
	exp := map[int]int{}
	for i := range recs {
		exp[int(crc32.ChecksumIEEE(bytes.ToLower(recs[i].seq))%uint32(chunks))]++
	}
	want := c06ShowDisp(exp)
	// the files are looked at right after WriterDispatcher returns; whether the writer goroutines have flushed
	// and closed them by then is a matter of scheduling, so small cases are repeated
	rounds := 1
	if len(recs) <= 60 {
		rounds = 25
	}
	once := func() string {
		got := map[int]int{}
		dir, err := os.MkdirTemp(os.TempDir(), "verif_c06_")
		if err != nil {
			return "err"
		}
		defer os.RemoveAll(dir)
		it := obiiter.MakeIBioSequence()
		it.Add(1)
		go func() {
			order := 0
			for i := 0; i < len(recs); i += bsize {
				j := i + bsize
				if j > len(recs) {
					j = len(recs)
				}
				sl := obiseq.MakeBioSequenceSlice()
				for k := i; k < j; k++ {
					sl = append(sl, recs[k].build(k))
				}
				it.Push(obiiter.MakeBioSequenceBatch("src", order, sl))
				order++
			}
			it.Done()
		}()
		go it.WaitAndClose()
		obiformats.WriterDispatcher(dir+"/chunk_%s.fastx",
			it.Distribute(obiseq.HashClassifier(chunks)),
			obiformats.WriteSequencesToFile)
		names, _ := filepath.Glob(dir + "/chunk_*.fastx")
		for _, n := range names {
			b, err := os.ReadFile(n)
			if err != nil {
				return "err"
			}
			code, err := strconv.Atoi(strings.TrimSuffix(strings.TrimPrefix(filepath.Base(n), "chunk_"), ".fastx"))
			if err != nil {
				return "err"
			}
			cnt := 0
			for i, ch := range b {
				if ch == '>' && (i == 0 || b[i-1] == '\n') {
					cnt++
				}
			}
			got[code] = cnt
		}
		return c06ShowDisp(got)
	}
	res := guardT(60*time.Second, func() string {
		r := ""
		for i := 0; i < rounds; i++ {
			r = once()
			if r != want {
				return r
			}
		}
		return r
	})
	if res == "panic" || res == "fatal" || res == "hang" || res == "err" {
		return res, []Fail{{"dispatch." + res, "WriterDispatcher ended with " + res}}
	}
	var fails []Fail
	if e := want; e != res {
		fails = append(fails, Fail{"dispatch.incomplete-files",
			"records in the chunk files when WriterDispatcher returns: expected " + e + " got " + res})
	}
	return res, fails
}

// c06Stage: one ISequenceSubChunk stage (one worker, one classifier object, as IUniqueSequence uses it) on a
// sequence of batches.  result: `B <n> <ids of batch 1> ... C <codes> V <values>`: the batches pushed, in the order
// they are pushed (ids sorted inside a batch: sort.Sort is not stable), then, asked from the classifier after the
// run, the codes of the records of the last batch that was coded (len > 1) and Value(code) of each distinct code.
//
//	stage k=<s|a:keyhex> na=<hex> <rec> ... / <rec> ... / ...
func c06Stage(line string) (string, []Fail) {
	f := strings.Fields(line)
	bad := func() (string, []Fail) { caseTrivial = true; return "bad-op", nil }
	if len(f) < 3 || !strings.HasPrefix(f[1], "k=") || !strings.HasPrefix(f[2], "na=") {
		return bad()
	}
	na, ok := c06unhs(f[2][3:])
	if !ok {
		return bad()
	}
	kd := f[1][2:]
	var key string
	isSeq := kd == "s"
	if !isSeq {
		if !strings.HasPrefix(kd, "a:") {
			return bad()
		}
		if key, ok = c06unhs(kd[2:]); !ok {
			return bad()
		}
	}
	var batches [][]c06Rec
	cur := []c06Rec{}
	for _, w := range f[3:] {
		if w == "/" {
			batches = append(batches, cur)
			cur = []c06Rec{}
			continue
		}
		r, ok := c06ParseRec(w)
		if !ok {
			return bad()
		}
		cur = append(cur, r)
	}
	batches = append(batches, cur)
	stat("stage")
	if isSeq {
		stat("stage:seq")
	} else {
		stat("stage:annot")
	}
	valOf := func(r *c06Rec) string {
		if isSeq {
			return string(r.seq)
		}
		if v, ok := r.attr(key); ok {
			return v
		}
		return na
	}
	var got [][]string
	var codes []int
	var vals []string
	var cl *obiseq.BioSequenceClassifier
	res := guardT(30*time.Second, func() string {
		if isSeq {
			cl = obiseq.SequenceClassifier()
		} else {
			cl = obiseq.AnnotationClassifier(key, na)
		}
		it := obiiter.MakeIBioSequence()
		it.Add(1)
		var last []*obiseq.BioSequence
		built := make([][]*obiseq.BioSequence, len(batches))
		for bi, b := range batches {
			for i := range b {
				built[bi] = append(built[bi], b[i].build(i))
			}
			if len(b) > 1 {
				last = built[bi]
			}
		}
		go func() {
			for bi := range batches {
				sl := obiseq.MakeBioSequenceSlice()
				sl = append(sl, built[bi]...)
				it.Push(obiiter.MakeBioSequenceBatch("src", bi, sl))
			}
			it.Done()
		}()
		go it.WaitAndClose()
		out, err := obichunk.ISequenceSubChunk(it, cl, 1)
		if err != nil {
			return "err"
		}
		type ob struct {
			order int
			ids   []string
		}
		var obs []ob
		for out.Next() {
			b := out.Get()
			o := ob{order: b.Order()}
			for _, s := range b.Slice() {
				o.ids = append(o.ids, c06hs(s.Id()))
			}
			sort.Strings(o.ids)
			obs = append(obs, o)
		}
		sort.SliceStable(obs, func(i, j int) bool { return obs[i].order < obs[j].order })
		for _, o := range obs {
			got = append(got, o.ids)
		}
		for _, s := range last {
			codes = append(codes, cl.Code(s))
		}
		return "ok"
	})
	if res != "ok" {
		return res, []Fail{{"stage." + res, "ISequenceSubChunk ended with " + res}}
	}
	// Value(code) of every distinct code, each call guarded on its own (log.Fatalf / index out of range)
	seen := map[int]bool{}
	p := []string{"B", strconv.Itoa(len(got))}
	for _, ids := range got {
		if len(ids) == 0 {
			p = append(p, "-")
		} else {
			p = append(p, strings.Join(ids, ","))
		}
	}
	cs := make([]string, len(codes))
	for i, c := range codes {
		cs[i] = strconv.Itoa(c)
		if seen[c] {
			continue
		}
		seen[c] = true
		c := c
		v := guardT(5*time.Second, func() string { return "ok:" + cl.Value(c) })
		if strings.HasPrefix(v, "ok:") {
			v = c06hs(v[3:])
		}
		if v != "panic" && v != "fatal" {
			stat("stage:value-ok")
		} else {
			stat("stage:value-" + v)
		}
		vals = append(vals, v)
	}
	p = append(p, "C", c06JoinOrDash(cs), "V", c06JoinOrDash(vals))
	result := strings.Join(p, " ")

	// ---- oracle: the batches pushed are exactly the classes of each input batch -----------------
	var fails []Fail
	var exp [][]string
	for _, b := range batches {
		if len(b) <= 1 {
			ids := []string{}
			for i := range b {
				ids = append(ids, c06hs(b[i].id))
			}
			exp = append(exp, ids)
			continue
		}
		idx := map[string]int{}
		var cls [][]string
		for i := range b {
			v := valOf(&b[i])
			k, ok := idx[v]
			if !ok {
				k = len(cls)
				idx[v] = k
				cls = append(cls, nil)
			}
			cls[k] = append(cls[k], c06hs(b[i].id))
		}
		for _, c := range cls {
			sort.Strings(c)
			exp = append(exp, c)
		}
	}
	flat := func(l [][]string) string {
		q := make([]string, len(l))
		for i, x := range l {
			q[i] = strings.Join(x, ",")
		}
		sort.Strings(q) // the order of the classes is not part of the property
		return strings.Join(q, " ")
	}
	if flat(exp) != flat(got) {
		fails = append(fails, Fail{"stage.classes", "sub-batches: expected " + flat(exp) + " got " + flat(got)})
	}
	return result, fails
}

func c06JoinOrDash(l []string) string {
	if len(l) == 0 {
		return "-"
	}
	return strings.Join(l, ",")
}

func c06ShowDisp(m map[int]int) string {
	codes := make([]int, 0, len(m))
	for k := range m {
		codes = append(codes, k)
	}
	sort.Ints(codes)
	p := []string{"disp"}
	for _, k := range codes {
		p = append(p, fmt.Sprintf("%d:%d", k, m[k]))
	}
	return strings.Join(p, " ")
}

func (c06) Exec(line string) (string, []Fail) {
	if strings.HasPrefix(line, "dispatch ") {
		return c06Dispatch(line)
	}
	if strings.HasPrefix(line, "stage ") {
		return c06Stage(line)
	}
	if strings.HasPrefix(line, "dist ") {
		return c06Dist(line)
	}
	if strings.HasPrefix(line, "chunk ") {
		return c06Chunk(line)
	}
	if strings.HasPrefix(line, "pipe ") {
		return c06Pipe(line)
	}
	if strings.HasPrefix(line, "idem ") {
		return c06Idem(line)
	}
	if strings.HasPrefix(line, "big ") {
		return c06Big(line)
	}
	if strings.HasPrefix(line, "glue ") {
		return c06Glue(line)
	}
	if strings.HasPrefix(line, "gattr ") {
		return c06Gattr(line)
	}
	c, ok := c06Parse(line)
	if !ok {
		caseTrivial = true
		return "bad-op", nil
	}
	mode := "mem"
	if c.disk {
		mode = "disk"
	}
	stat("mode:" + mode)
	stat(fmt.Sprintf("chunks:%d", c.chunks))
	stat(fmt.Sprintf("workers:%d", c.workers))
	stat(fmt.Sprintf("cats:%d", len(c.cats)))
	stat(fmt.Sprintf("stats:%d", len(c.stats)))
	if c.ns {
		stat("no-singleton")
	}
	if c.hasDm {
		stat("demerge")
	}
	for i := range c.recs {
		if len(c.recs[i].merged) > 0 {
			stat("rec:already-merged")
		}
		if c.recs[i].count < 0 {
			stat("rec:no-count")
		}
	}
	if len(c.recs) < 2 {
		caseTrivial = true
	}
	if c.disk && os.Getenv("C06_CHILD") == "" {
		return c06Child(line)
	}

	var gotU, gotD, gotR []string
	var repFails []Fail
	var demerged []c06Rec
	res := guardT(30*time.Second, func() string {
		in := make([]*obiseq.BioSequence, len(c.recs))
		for i := range c.recs {
			in[i] = c.recs[i].build(i)
		}
		out, err := c.runUniq(in)
		if err != nil {
			return "err"
		}
		gotU = make([]string, len(out))
		// the representative: id and sequence of a member of the class of its key, qualities dropped
		members := map[string]map[string]bool{}
		for i := range c.recs {
			k := c.key(&c.recs[i])
			if members[k] == nil {
				members[k] = map[string]bool{}
			}
			members[k][c.recs[i].id] = true
		}
		for i, s := range out {
			gotU[i] = c06Canon(s, c.stats)
			o := c06Rec{seq: s.Sequence()}
			for _, k := range c.cats {
				if v, ok := s.GetAttribute(k); ok {
					o.attrs = append(o.attrs, c06Attr{key: k, sval: c06ValStr(v)})
				}
			}
			if !members[c.key(&o)][s.Id()] && len(repFails) < 3 {
				repFails = append(repFails, Fail{"uniq.rep." + mode, fmt.Sprintf("output record %s (%s) has not the id of an input record with its key", s.Id(), gotU[i])})
			}
			if s.HasQualities() && len(repFails) < 3 {
				repFails = append(repFails, Fail{"uniq.qual." + mode, "output record " + s.Id() + " still carries qualities"})
			}
		}
		r := c06ShowAll("U", append([]string{}, gotU...))
		if c.hasDm {
			worker := obidemerge.MakeDemergeWorker(c.dm)
			var dseqs []*obiseq.BioSequence
			for _, s := range out {
				sl, err := worker(s)
				if err != nil {
					return "err"
				}
				dseqs = append(dseqs, sl...)
			}
			gotD = make([]string, len(dseqs))
			for i, s := range dseqs {
				gotD[i] = c06Canon(s, c.stats)
				// the demerged record as data for the oracle of the second dereplication
				d := c06Rec{id: s.Id(), seq: append([]byte{}, s.Sequence()...), count: s.Count()}
				keys := make([]string, 0)
				for k := range s.Annotations() {
					keys = append(keys, k)
				}
				sort.Strings(keys)
				for _, k := range keys {
					v := s.Annotations()[k]
					if k == "count" {
						continue
					}
					if strings.HasPrefix(k, "merged_") {
						if m, ok := c06StatsOf(v); ok {
							mm := c06Merged{key: strings.TrimPrefix(k, "merged_")}
							vs := make([]string, 0, len(m))
							for x := range m {
								vs = append(vs, x)
							}
							sort.Strings(vs)
							for _, x := range vs {
								mm.entries = append(mm.entries, c06Entry{x, m[x]})
							}
							d.merged = append(d.merged, mm)
						}
						continue
					}
					d.attrs = append(d.attrs, c06Attr{key: k, sval: c06ValStr(v)})
				}
				demerged = append(demerged, d)
			}
			r += " " + c06ShowAll("D", append([]string{}, gotD...))
			out2, err := c.runUniq(dseqs)
			if err != nil {
				return "err"
			}
			gotR = make([]string, len(out2))
			for i, s := range out2 {
				gotR[i] = c06Canon(s, c.stats)
			}
			r += " " + c06ShowAll("R", append([]string{}, gotR...))
		}
		return r
	})

	var fails []Fail
	if res == "panic" || res == "fatal" || res == "hang" || res == "err" {
		fails = append(fails, Fail{"uniq." + res + "." + mode, "dereplication ended with " + res})
		return res, fails
	}
	// ---- oracle -------------------------------------------------------------------------------
	for i := range c.recs {
		if c.recs[i].count == 0 {
			stat("zero-count:model-only")
			return res, fails
		}
	}
	fails = append(fails, repFails...)
	expU, total, ones := c.expected(c.recs)
	sort.Strings(gotU)
	if strings.Join(expU, " ") != strings.Join(gotU, " ") {
		fails = append(fails, Fail{"uniq." + c06Classify(expU, gotU) + "." + mode, c06Diff(expU, gotU)})
	}
	// total count conserved (minus the classes of total 1 with --no-singleton)
	gotTotal := 0
	for _, l := range gotU {
		n, _ := strconv.Atoi(strings.Split(l, ":")[1])
		gotTotal += n
	}
	want := total
	if c.ns {
		want -= ones
	}
	if gotTotal != want {
		fails = append(fails, Fail{"uniq.total." + mode, fmt.Sprintf("total count: expected %d got %d", want, gotTotal)})
	}
	if c.hasDm {
		// obidemerge: one record per value of merged_<dm> with exactly that count
		var expD []string
		classes, order := c.recount(c.recs)
		inStats := false
		for _, s := range c.stats {
			if s == c.dm {
				inStats = true
			}
		}
		for _, k := range order {
			cl := classes[k]
			if c.ns && cl.count == 1 {
				continue
			}
			if !inStats {
				expD = append(expD, c06ShowParts(cl.seq, cl.count, cl.attrs, cl.merged))
				continue
			}
			rest := map[string]map[string]int{}
			for s, m := range cl.merged {
				if s != c.dm {
					rest[s] = m
				}
			}
			for v, w := range cl.merged[c.dm] {
				attrs := map[string]string{}
				for ak, av := range cl.attrs {
					attrs[ak] = av
				}
				attrs[c.dm] = v
				expD = append(expD, c06ShowParts(cl.seq, w, attrs, rest))
			}
		}
		sort.Strings(expD)
		sort.Strings(gotD)
		if strings.Join(expD, " ") != strings.Join(gotD, " ") {
			fails = append(fails, Fail{"demerge.counts." + mode, c06Diff(expD, gotD)})
		}
		// second dereplication = recount of the demerged records
		expR, _, _ := c.expected(demerged)
		sort.Strings(gotR)
		if strings.Join(expR, " ") != strings.Join(gotR, " ") {
			fails = append(fails, Fail{"reuniq." + c06Classify(expR, gotR) + "." + mode, c06Diff(expR, gotR)})
		}
		// uniq -m k | demerge -d k | uniq -m k  ==  uniq -m k   on (key, merged_k) — claimed when k is the only
		// requested map, k is not a category and the input counts agree with the input merged_k maps
		if inStats && len(c.stats) == 1 && c.consistent() {
			proj := func(l []string) []string {
				res := make([]string, len(l))
				for i, x := range l {
					f := strings.SplitN(x, ":", 4)
					res[i] = f[0] + ":" + f[1] + ":" + c.catPart(f[2]) + ":" + f[3]
				}
				sort.Strings(res)
				return res
			}
			a, b := proj(gotU), proj(gotR)
			if strings.Join(a, " ") != strings.Join(b, " ") {
				fails = append(fails, Fail{"demerge.uniq." + mode, c06Diff(a, b)})
			} else {
				stat("demerge-roundtrip-checked")
			}
		}
	}
	return res, fails
}

// catPart keeps the category attributes of a canonical attribute list
func (c *c06Case) catPart(attrs string) string {
	if attrs == "-" {
		return "-"
	}
	var keep []string
	for _, kv := range strings.Split(attrs, ",") {
		k := strings.SplitN(kv, "=", 2)[0]
		for _, cat := range c.cats {
			if c06hs(cat) == k {
				keep = append(keep, kv)
			}
		}
	}
	if len(keep) == 0 {
		return "-"
	}
	return strings.Join(keep, ",")
}

// consistent: the round trip claim needs dm not to be a category, counts >= 1 and, for records that
// already carry merged_<dm>, count = sum of its weights, weights >= 1
func (c *c06Case) consistent() bool {
	for _, k := range c.cats {
		if k == c.dm {
			return false
		}
	}
	for i := range c.recs {
		r := &c.recs[i]
		if r.cnt() < 1 {
			return false
		}
		if m, ok := r.mergedMap(c.dm); ok {
			sum := 0
			for _, w := range m {
				if w < 1 {
					return false
				}
				sum += w
			}
			if sum != r.cnt() {
				return false
			}
		}
	}
	return true
}

// ---------------------------------------------------------------------------------------------
// generator

var c06Vals = []string{"x1", "x2", "A b", "NA", "", "{k:v}", "a,b;c=d", "é", "[1]", "'q'"}

// c06ManyKeys makes the next call of c06GenRecs draw its sequences from a pool of that many distinct
// sequences (more than 100 classes in one run: the merged classes are delivered in batches of 100).
var c06ManyKeys int

// c06ZeroCounts makes c06GenRecs give a quarter of the records the attribute count=0 (outside the property's
// quantifier — counts >= 1 —: such cases are compared with the model only, the recount oracle is skipped)
var c06ZeroCounts bool

func c06GenRecs(rng *rand.Rand, n int, na string, consistentMerged bool) []c06Rec {
	nseq := 1 + rng.Intn(6)
	minlen := 1
	if c06ManyKeys > 0 {
		nseq = c06ManyKeys
		minlen = 8
		c06ManyKeys = 0
	}
	seqs := make([][]byte, nseq)
	for i := range seqs {
		l := minlen + rng.Intn(6)
		s := make([]byte, l)
		for j := range s {
			s[j] = "acgt"[rng.Intn(4)]
		}
		seqs[i] = s
	}
	nval := 1 + rng.Intn(4)
	pick := func() string {
		if rng.Intn(8) == 0 {
			return na
		}
		return c06Vals[rng.Intn(nval+1)%len(c06Vals)]
	}
	if rng.Intn(3) == 0 {
		pick = func() string {
			if rng.Intn(8) == 0 {
				return na
			}
			return c06Vals[rng.Intn(len(c06Vals))]
		}
	}
	recs := make([]c06Rec, n)
	for i := range recs {
		r := c06Rec{id: fmt.Sprintf("r%d", i), seq: seqs[rng.Intn(nseq)], count: -1}
		switch rng.Intn(5) {
		case 0, 1:
		case 2:
			r.count = 1
		default:
			r.count = 1 + rng.Intn(30)
		}
		if c06ZeroCounts && rng.Intn(4) == 0 {
			r.count = 0
		}
		for _, k := range []string{"sample", "run", "tag", "extra"} {
			if rng.Intn(3) != 0 {
				r.attrs = append(r.attrs, c06Attr{key: k, sval: pick()})
			}
		}
		if rng.Intn(2) == 0 {
			r.attrs = append(r.attrs, c06Attr{key: "n_lib", isInt: true, ival: rng.Intn(3)})
		}
		if rng.Intn(4) == 0 {
			r.attrs = append(r.attrs, c06Attr{key: "note", sval: fmt.Sprintf("n%d", rng.Intn(2))})
		}
		for _, k := range []string{"sample", "tag", "n_lib", "other"} {
			if rng.Intn(6) == 0 {
				m := c06Merged{key: k}
				ne := rng.Intn(4)
				used := map[string]bool{}
				sum := 0
				for e := 0; e < ne; e++ {
					v := pick()
					if k == "n_lib" {
						v = strconv.Itoa(rng.Intn(3))
					}
					if used[v] {
						continue
					}
					used[v] = true
					w := 1 + rng.Intn(9)
					sum += w
					m.entries = append(m.entries, c06Entry{v, w})
				}
				if consistentMerged {
					// a record produced by an earlier obiuniq: count = sum of the weights, no attribute k
					if len(m.entries) == 0 {
						m.entries = append(m.entries, c06Entry{pick(), 1 + rng.Intn(5)})
						sum = m.entries[0].w
					}
					r.count = sum
					var keep []c06Attr
					for _, a := range r.attrs {
						if a.key != k {
							keep = append(keep, a)
						}
					}
					r.attrs = keep
					r.merged = append(r.merged, m)
					break
				}
				r.merged = append(r.merged, m)
			}
		}
		rng.Shuffle(len(r.attrs), func(a, b int) { r.attrs[a], r.attrs[b] = r.attrs[b], r.attrs[a] })
		recs[i] = r
	}
	return recs
}

func c06Subset(rng *rand.Rand, pool []string, max int) []string {
	p := rng.Perm(len(pool))
	n := rng.Intn(max + 1)
	res := make([]string, 0, n)
	for _, i := range p[:n] {
		res = append(res, pool[i])
	}
	return res
}

func (c06) Gen(rng *rand.Rand, tier string, emit func(string)) {
	if os.Getenv("C06_ONLY") == "glue" { // sweeps of the fifth-pass cases alone
		c06GenGlue(rng, tier, emit)
		return
	}
	// ---- corpus ---------------------------------------------------------------------------------
	corpus := []string{
		// empty input
		"uniq mem c=7 w=1 b=2 ns=0 na=4e41 cats=- stats=- dm=*",
		"uniq disk c=7 w=1 b=2 ns=0 na=4e41 cats=- stats=- dm=*",
		// one record, no annotation at all
		"uniq mem c=1 w=1 b=1 ns=0 na=4e41 cats=- stats=73 dm=* 61:61636774:-:-:-",
		"uniq mem c=1 w=1 b=1 ns=1 na=4e41 cats=- stats=73 dm=* 61:61636774:-:-:-",
		// value equal to the NA string next to an absent value: same class
		"uniq mem c=2 w=2 b=1 ns=0 na=4e41 cats=73 stats=73 dm=* 61:6163:2:73=s4e41:- 62:6163:3:-:- 63:6163:-:73=s78:-",
		// already merged on input, with and without the attribute; demerge round trip
		"uniq mem c=7 w=1 b=2 ns=0 na=4e41 cats=- stats=73 dm=73 61:61636774:-:73=s78:- 62:61636774:3:73=s79,7a=i5:- 63:61636774:2:-:73~78=1~7a=1 64:6161:-:-:-",
		"uniq disk c=7 w=3 b=2 ns=0 na=4e41 cats=- stats=73 dm=73 61:61636774:-:73=s78:- 62:61636774:3:73=s79,7a=i5:- 63:61636774:2:-:73~78=1~7a=1 64:6161:-:-:-",
		// the category is also the merged key
		"uniq mem c=7 w=1 b=2 ns=0 na=4e41 cats=73 stats=73 dm=73 61:61636774:-:73=s78:- 62:61636774:3:73=s79,7a=i5:- 63:61636774:2:-:73~78=1~7a=1 64:6161:-:-:-",
		// --no-singleton: class of two records of count 1 stays, single record of count 1 goes, single record of count 2 stays
		"uniq mem c=100 w=4 b=3 ns=1 na=4e41 cats=- stats=- dm=* 61:6161:-:-:- 62:6161:1:-:- 63:6363:1:-:- 64:6767:2:-:- 65:7474:-:-:-",
		"uniq disk c=100 w=4 b=3 ns=1 na=4e41 cats=- stats=- dm=* 61:6161:-:-:- 62:6161:1:-:- 63:6363:1:-:- 64:6767:2:-:- 65:7474:-:-:-",
		// two categories, an empty merged map on input, an unrequested merged map
		"uniq mem c=2 w=1 b=10 ns=0 na=- cats=73,72 stats=74 dm=* 61:6161:-:73=s78,72=s31:74 62:6161:4:72=s31,73=s78:6f~71=3 63:6161:-:73=s78:- 64:6161:-:73=s78,72=s:-",
	}
	for _, l := range corpus {
		emit(l)
	}
	// count = 0 (outside the quantifier counts >= 1): observation of what the code does, compared with the model only;
	// classes whose merged count does not depend on the member order ([0], [0,0], [0,3]; [0,0,1] would: see
	// zero_count_order_dependent in Props/C06.lean)
	for _, l := range []string{
		"uniq mem c=1 w=1 b=1 ns=0 na=4e41 cats=- stats=- dm=* 61:6161:0:-:-",
		"uniq mem c=1 w=1 b=1 ns=1 na=4e41 cats=- stats=- dm=* 61:6161:0:-:-",
		"uniq disk c=1 w=1 b=1 ns=0 na=4e41 cats=- stats=73 dm=* 61:6161:0:-:-",
		"uniq mem c=2 w=2 b=2 ns=0 na=4e41 cats=- stats=73 dm=* 61:6161:0:73=s78:- 62:6161:0:73=s79:- 63:6767:0:-:- 64:6767:3:-:-",
		"uniq mem c=2 w=1 b=4 ns=1 na=4e41 cats=- stats=73 dm=* 64:6767:3:-:- 63:6767:0:-:- 62:6161:0:73=s79:- 61:6161:0:73=s78:-",
	} {
		emit(l)
	}
	c06GenChunk(rng, tier, emit)
	// a classifier that carries something over the per-batch Reset: sequence class X (values s2, s1) followed, in
	// the same chain, by class Y whose records arrive as s1, s2, s1 — and the orders around it
	{
		mk := func(id, seq, v string) c06Rec {
			r := c06Rec{id: id, seq: []byte(seq), count: -1}
			if v != "" {
				r.attrs = []c06Attr{{key: "sample", sval: v}}
			}
			return r
		}
		orders := [][]c06Rec{
			{mk("r1", "acgt", "s2"), mk("r2", "acgt", "s1"), mk("r3", "ttga", "s1"), mk("r4", "ttga", "s2"), mk("r5", "ttga", "s1")},
			{mk("r1", "acgt", "s1"), mk("r2", "acgt", "s2"), mk("r3", "ttga", "s1"), mk("r4", "ttga", "s1"), mk("r5", "ttga", "s2")},
			{mk("r1", "acgt", "s2"), mk("r2", "acgt", ""), mk("r3", "ttga", ""), mk("r4", "ttga", "s2"), mk("r5", "ttga", "NA")},
			{mk("r3", "ttga", "s1"), mk("r4", "ttga", "s2"), mk("r5", "ttga", "s1"), mk("r1", "acgt", "s1"), mk("r2", "acgt", "s2"), mk("r6", "acgt", "s1")},
		}
		for _, recs := range orders {
			for _, disk := range []bool{false, true} {
				for _, ns := range []bool{false, true} {
					for _, ch := range []int{1, 2} {
						cc := c06Case{disk: disk, chunks: ch, workers: 1, bsize: 6, ns: ns, na: "NA", cats: []string{"sample"}, recs: recs}
						emit(cc.line())
					}
				}
			}
		}
	}
	// one ISequenceSubChunk stage on a history of batches (classifier state across Reset)
	emit("stage k=a:73 na=4e41 61:6161:-:73=s78:- 62:6161:-:73=s79:- 63:6161:-:73=s78:- / 64:6161:-:73=s79:- 65:6161:-:-:- 66:6161:-:73=s79:- / 67:6161:-:-:-")
	emit("stage k=s na=4e41 61:6161:-:73=s78:- 62:6163:-:73=s79:- 63:6161:-:73=s78:-")
	emit("stage k=a:73 na=78 61:6161:-:73=s78:- 62:6161:-:-:- / / 63:6161:-:-:- 64:6163:-:73=s78:- 65:6163:-:73=s79:-")
	nstage := 200
	if tier == "thorough" {
		nstage = 600
	}
	for i := 0; i < nstage; i++ {
		na := []string{"NA", "", "x1"}[rng.Intn(3)]
		kd := "s"
		if rng.Intn(3) != 0 {
			kd = "a:" + c06hs([]string{"sample", "run", "n_lib"}[rng.Intn(3)])
		}
		p := []string{"stage", "k=" + kd, "na=" + c06hs(na)}
		nb := 1 + rng.Intn(6)
		id := 0
		for b := 0; b < nb; b++ {
			if b > 0 {
				p = append(p, "/")
			}
			n := rng.Intn(9)
			if rng.Intn(6) == 0 {
				n = 20 + rng.Intn(150) // more than the 100 slots `ordered` starts with
			}
			recs := c06GenRecs(rng, n, na, false)
			for j := range recs {
				recs[j].id = fmt.Sprintf("r%d", id)
				id++
				p = append(p, recs[j].line())
			}
		}
		emit(strings.Join(p, " "))
	}
	// the chunk files must be complete when WriterDispatcher returns (ISequenceChunkOnDisk reads them at once)
	emit("dispatch c=1 b=2 61:61636774:-:-:- 62:61636774:3:73=s79:- 63:6161:2:-:73~78=1~7a=1")
	emit("dispatch c=7 b=1 61:61636774:-:-:- 62:61636774:3:73=s79:- 63:6161:2:-:73~78=1~7a=1 64:67:-:-:- 65:74:-:-:- 66:6163:-:-:-")
	ndisp := 40
	if tier == "thorough" {
		ndisp = 100
	}
	for i := 0; i < ndisp; i++ {
		n := 1 + rng.Intn(60)
		if rng.Intn(8) == 0 {
			n = 300 + rng.Intn(600) // chunk files larger than the 4 KiB write buffer
		}
		recs := c06GenRecs(rng, n, "NA", false)
		p := []string{"dispatch", fmt.Sprintf("c=%d", []int{1, 2, 7, 100}[rng.Intn(4)]), fmt.Sprintf("b=%d", 1+rng.Intn(n+1))}
		for j := range recs {
			p = append(p, recs[j].line())
		}
		emit(strings.Join(p, " "))
	}

	nbase := 450
	if tier == "thorough" {
		nbase = 1000
	}
	chunkChoices := []int{1, 2, 7, 100, 3, 16}
	for i := 0; i < nbase; i++ {
		na := "NA"
		switch rng.Intn(6) {
		case 0:
			na = ""
		case 1:
			na = "x1"
		}
		n := rng.Intn(25)
		switch rng.Intn(10) {
		case 0:
			n = rng.Intn(4)
		case 1:
			n = 40 + rng.Intn(80)
		}
		if i%20 == 7 {
			// more than 100 distinct keys in one run
			c06ManyKeys = 101 + rng.Intn(160)
			n = c06ManyKeys + 40 + rng.Intn(120)
		}
		if i%20 == 13 {
			// an input that is (almost) dereplicated already: nearly every class holds one record
			n = 2 + rng.Intn(60)
			c06ManyKeys = 4 * n
		}
		if tier == "thorough" && i == 250 {
			// more than 10000 distinct classes (once per seed: 3 orders x configurations)
			c06ManyKeys = 16000 + rng.Intn(500)
			n = 20000 // about 11400 distinct sequences drawn
		}
		consistent := rng.Intn(2) == 0
		// count=0 records are not generated: SetCount turns every intermediate sum < 1 into 1, so that the merged
		// count of a class with such members depends on the order in which sort.Sort leaves them (observed:
		// model layers with a stable and an anti-stable sort differ) — outside the quantifier (counts >= 1)
		c06ZeroCounts = false
		base := c06GenRecs(rng, n, na, consistent)
		c06ZeroCounts = false
		cats := c06Subset(rng, []string{"sample", "run", "n_lib"}, 2)
		stats := c06Subset(rng, []string{"sample", "tag", "n_lib", "run"}, 2)
		if rng.Intn(3) == 0 && len(stats) == 0 {
			stats = []string{"sample"}
		}
		cs := c06Case{na: na, cats: cats, stats: stats, ns: rng.Intn(4) == 0}
		if len(stats) > 0 && rng.Intn(2) == 0 {
			cs.hasDm = true
			cs.dm = stats[rng.Intn(len(stats))]
			if rng.Intn(2) == 0 {
				// the round trip claim: a single requested map that is not a category
				cs.stats = []string{cs.dm}
				var keep []string
				for _, k := range cs.cats {
					if k != cs.dm {
						keep = append(keep, k)
					}
				}
				cs.cats = keep
			}
			if rng.Intn(10) == 0 {
				// a key no record carries a merged_ map for: obidemerge leaves the records alone (an unrequested
				// merged_<k> map of the input survives only on the representative, whose choice is not claimed)
				cs.dm = "absent"
			}
		}
		// the same multiset in several input orders and configurations
		nvar := 3
		if len(base) > 5000 {
			nvar = 1
		}
		for v := 0; v < nvar; v++ {
			cc := cs
			cc.recs = append([]c06Rec{}, base...)
			if v > 0 {
				rng.Shuffle(len(cc.recs), func(a, b int) { cc.recs[a], cc.recs[b] = cc.recs[b], cc.recs[a] })
			}
			cc.chunks = chunkChoices[rng.Intn(len(chunkChoices))]
			if rng.Intn(5) == 0 {
				cc.chunks = 1 + rng.Intn(len(base)+2) // every chunk count 1..N
			}
			if len(base) > 5000 {
				// the model recomputes the CRC of a record once per chunk: keep the chunk count small here
				cc.chunks = []int{7, 16}[rng.Intn(2)]
			}
			cc.workers = 1 + rng.Intn(16)
			cc.bsize = 1 + rng.Intn(len(base)+2)
			cc.disk = rng.Intn(3) == 0
			emit(cc.line())
		}
	}
	// fifth pass: the command-line glue (drawn last, so that the cases above are the same as before)
	c06GenGlue(rng, tier, emit)
}
