package main

import (
	"encoding/hex"
	"os"
	"path/filepath"
)

// hx / unhx: byte strings on case lines are lower-case hex, "-" being the empty string.
func hx(b []byte) string {
	if len(b) == 0 {
		return "-"
	}
	return hex.EncodeToString(b)
}

func unhx(s string) ([]byte, bool) {
	if s == "-" {
		return []byte{}, true
	}
	b, err := hex.DecodeString(s)
	return b, err == nil
}

// binDir is where binaries built from the tree under check go: VERIF_BIN when the driver gives it
// (a separate directory per checked tree, so that a check of a scratch worktree never replaces the
// binaries a concurrent check of /repo is using), else <VERIF_ROOT>/bin.
func binDir() string {
	if d := os.Getenv("VERIF_BIN"); d != "" {
		return d
	}
	root := os.Getenv("VERIF_ROOT")
	if root == "" {
		root = "/verif"
	}
	return filepath.Join(root, "bin")
}
