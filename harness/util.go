package main

import "encoding/hex"

// hx / unhx: byte strings on case lines are lower-case hex, "-" being the empty string.
func hx(b []byte) string {
	if len(b) == 0 {
		return "-"
	}
	return hex.EncodeToString(b)
}

func unhx(s string) ([]byte, bool) {
	if s == "-" {
		return []byte{}, true
	}
	b, err := hex.DecodeString(s)
	return b, err == nil
}
