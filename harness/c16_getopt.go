//go:build c16

package main

// C16 — the command-line tokenizer through the real code path, error paths included.
//
//	argvx grep|annot|dist <expectation> <hex argv words…> | -
//
// GenerateOptionParser ends the process (os.Exit) on --help, --version and on every parsing error: each
// case is run in a child process (this binary re-executed with VERIF_C16_CHILD set), its exit status,
// the class of the message printed on stderr, or the option globals (VerifOptionState hooks) and the
// remaining words are the result.  Expectations (the property oracle, from the way the case was built):
//
//	E            an invalid command line (unknown option, missing argument, invalid value, ambiguous
//	             abbreviation, missing required option): non-zero exit and a message, never a silent success
//	S:<w.w.w>    another spelling (bundled short flags, abbreviated long names, --) of the canonical argv
//	             <w.w.w>: it must succeed and leave the same option globals
//	N            no expectation (random words): only compared with the model

import (
	"bytes"
	"fmt"
	"math/rand"
	"os"
	"os/exec"
	"regexp"
	"strings"
	"sync"
	"time"

	"git.metabarcoding.org/obitools/obitools4/obitools4/pkg/obioptions"
	"git.metabarcoding.org/obitools/obitools4/obitools4/pkg/obitools/obiannotate"
	"git.metabarcoding.org/obitools/obitools4/obitools4/pkg/obitools/obidistribute"
	"git.metabarcoding.org/obitools/obitools4/obitools4/pkg/obitools/obigrep"
)

func init() {
	if spec := os.Getenv("VERIF_C16_CHILD"); spec != "" {
		c16Child(spec)
	}
}

func c16HexWords(ws []string) ([]string, bool) {
	out := make([]string, len(ws))
	for i, h := range ws {
		if h == "-" {
			continue
		}
		w, ok := c16Ascii(h)
		if !ok || strings.Contains(w, "\n") {
			return nil, false
		}
		out[i] = w
	}
	return out, true
}

func c16HexJoin(ws []string) string {
	p := make([]string, len(ws))
	for i, w := range ws {
		p[i] = hx([]byte(w))
	}
	return strings.Join(p, ",")
}

// the child: parse, print the option globals, exit 0 (the parser itself exits on errors)
func c16Child(spec string) {
	f := strings.Fields(spec)
	words, ok := c16HexWords(f[1:])
	if !ok {
		os.Exit(3)
	}
	argv := append([]string{"verif"}, words...)
	var state string
	var rest []string
	switch f[0] {
	case "grep":
		_, rest = obioptions.GenerateOptionParser(obigrep.OptionSet)(argv)
		state = obigrep.VerifOptionState()
	case "annot":
		_, rest = obioptions.GenerateOptionParser(obiannotate.OptionSet)(argv)
		state = obigrep.VerifOptionState() + " " + obiannotate.VerifOptionState() + " lca-error=" + obiannotate.VerifLCAError()
	case "dist":
		_, rest = obioptions.GenerateOptionParser(obidistribute.OptionSet)(argv)
		state = obidistribute.VerifOptionState()
	default:
		os.Exit(3)
	}
	fmt.Printf("OK %s rest=[%s]\n", state, c16HexJoin(rest))
	os.Exit(0)
}

var c16ErrRes = []struct {
	re    *regexp.Regexp
	class string
}{
	{regexp.MustCompile(`^ERROR: Ambiguous option '(.*)', matches`), "ambiguous"},
	{regexp.MustCompile(`^ERROR: Missing argument for option '(.*)'!\nIf passing`), "dash-arg"},
	{regexp.MustCompile(`^ERROR: Missing argument for option '(.*)'!`), "missing-arg"},
	{regexp.MustCompile(`^ERROR: Argument error for option '(.*)': Can't convert string to int: '(.*)'\n`), "int"},
	{regexp.MustCompile(`^ERROR: Argument error for option '(.*)': Can't convert string to float64: '(.*)'\n`), "float"},
	{regexp.MustCompile(`^ERROR: Argument error for option '(.*)': Should be of type 'key=value'!`), "keyvalue"},
	{regexp.MustCompile(`^ERROR: Unknown option '(.*)'\n`), "unknown"},
	{regexp.MustCompile(`^ERROR: You must provide at pattern`), "required"},
}

type c16ChildRes struct {
	res     string
	exit    int
	message bool
}

var c16ChildCache = map[string]c16ChildRes{}

func c16RunChild(cmd string, hexWords []string) c16ChildRes {
	key := cmd + " " + strings.Join(hexWords, " ")
	if r, ok := c16ChildCache[key]; ok {
		return r
	}
	r := c16RunChildRaw(cmd, hexWords)
	c16ChildCache[key] = r
	return r
}

func c16RunChildRaw(cmd string, hexWords []string) c16ChildRes {
	key := cmd + " " + strings.Join(hexWords, " ")
	c := exec.Command(os.Args[0])
	c.Env = []string{"VERIF_C16_CHILD=" + key, "HOME=" + os.Getenv("HOME"), "PATH=" + os.Getenv("PATH")}
	var so, se bytes.Buffer
	c.Stdout, c.Stderr = &so, &se
	done := make(chan error, 1)
	if err := c.Start(); err != nil {
		return c16ChildRes{res: "spawn-error"}
	}
	go func() { done <- c.Wait() }()
	var r c16ChildRes
	select {
	case <-done:
		r.exit = c.ProcessState.ExitCode()
	case <-time.After(20 * time.Second):
		c.Process.Kill()
		return c16ChildRes{res: "hang", exit: -1}
	}
	// the messages of logrus (time=… level=…) are not the parser's
	var lines []string
	for _, l := range strings.SplitAfter(se.String(), "\n") {
		if !strings.HasPrefix(l, "time=") {
			lines = append(lines, l)
		}
	}
	msg := strings.Join(lines, "")
	r.message = strings.TrimSpace(msg) != ""
	out := so.String()
	switch {
	case r.exit == 0 && strings.HasPrefix(out, "OK "):
		r.res = "ok " + strings.TrimSpace(out[3:])
	case r.exit == 0 && strings.HasPrefix(msg, "OBITools "):
		r.res = "exit=0 version"
	case strings.HasPrefix(msg, "ERROR: "):
		r.res = fmt.Sprintf("exit=%d other", r.exit)
		for _, e := range c16ErrRes {
			if m := e.re.FindStringSubmatch(msg); m != nil {
				r.res = fmt.Sprintf("exit=%d %s", r.exit, e.class)
				for _, g := range m[1:] {
					r.res += " " + hx([]byte(g))
				}
				break
			}
		}
	case strings.Contains(msg, "SYNOPSIS") || strings.Contains(msg, "USAGE"):
		r.res = fmt.Sprintf("exit=%d help", r.exit)
	default:
		r.res = fmt.Sprintf("exit=%d ?", r.exit)
	}
	return r
}

var c16StateOf = regexp.MustCompile(`^ok (.*) rest=\[[^\]]*\]$`)

func (c16) execArgvx(ws []string) (string, []Fail) {
	if len(ws) < 2 || (ws[0] != "grep" && ws[0] != "annot" && ws[0] != "dist") {
		return "bad-op", nil
	}
	if _, ok := c16HexWords(ws[2:]); !ok {
		return "bad-op", nil
	}
	expect := ws[1]
	var canon []string
	switch {
	case expect == "E" || expect == "N":
	case strings.HasPrefix(expect, "S:"):
		canon = strings.Split(expect[2:], ".")
		if expect == "S:" {
			canon = nil
		}
		if _, ok := c16HexWords(canon); !ok {
			return "bad-op", nil
		}
	default:
		return "bad-op", nil
	}
	r := c16RunChild(ws[0], ws[2:])
	var fails []Fail
	words, _ := c16HexWords(ws[2:])
	switch {
	case expect == "E":
		if r.exit == 0 || !r.message {
			fails = append(fails, Fail{Sig: "argvx.silent." + ws[0], Text: fmt.Sprintf("invalid command line %q: exit status %d, message on stderr: %v (%s)", words, r.exit, r.message, r.res)})
		}
	case canon != nil || expect == "S:":
		rc := c16RunChild(ws[0], canon)
		m1, m2 := c16StateOf.FindStringSubmatch(r.res), c16StateOf.FindStringSubmatch(rc.res)
		if m1 == nil || m2 == nil || m1[1] != m2[1] {
			cw, _ := c16HexWords(canon)
			fails = append(fails, Fail{Sig: "argvx.spelling." + ws[0], Text: fmt.Sprintf("%q and its canonical spelling %q differ: %s vs %s", words, cw, r.res, rc.res)})
		}
	}
	return r.res, fails
}

// ---------------------------------------------------------------------------------------------
// generator

type c16OptDecl struct {
	long  string
	short string
	kind  byte // 'b' flag, 'i' int, 'f' float, 's' string, 'l' list of strings, 'n' list of ints, 'm' map
}

var c16DeclCommon = []c16OptDecl{{"debug", "", 'b'}, {"max-cpu", "", 'j'}, {"batch-size", "", 'j'}, {"solexa", "", 'b'},
	{"fasta", "", 'b'}, {"fastq", "", 'b'}, {"no-order", "", 'b'}, {"compress", "Z", 'b'}, {"out", "o", 's'},
	{"fasta-output", "", 'b'}, {"output-OBI-header", "O", 'b'}, {"skip-empty", "", 'b'}}
var c16DeclGrep = []c16OptDecl{{"taxdump", "t", 's'}, {"restrict-to-taxon", "r", 'l'}, {"ignore-taxon", "i", 'n'}, {"require-rank", "", 'l'},
	{"save-discarded", "", 's'}, {"id-list", "", 's'}, {"inverse-match", "v", 'b'}, {"min-length", "l", 'i'}, {"max-length", "L", 'i'},
	{"min-count", "c", 'i'}, {"max-count", "C", 'i'}, {"predicate", "p", 'l'}, {"sequence", "s", 'l'}, {"definition", "D", 'l'},
	{"identifier", "I", 'l'}, {"has-attribute", "A", 'l'}, {"attribute", "a", 'm'}, {"paired-mode", "", 's'}, {"approx-pattern", "", 'l'},
	{"pattern-error", "", 'i'}, {"allows-indels", "", 'b'}, {"only-forward", "", 'b'}, {"paired-with", "", 's'}}
var c16DeclAnnot = []c16OptDecl{{"clear", "", 'b'}, {"length", "", 'b'}, {"aho-corasick", "", 's'}, {"pattern", "", 's'}, {"pattern-name", "", 's'},
	{"add-lca-in", "", 's'}, {"set-identifier", "", 's'}, {"lca-error", "", 'f'}, {"cut", "", 's'}, {"set-tag", "S", 'm'}, {"rename-tag", "R", 'm'},
	{"delete-tag", "", 'l'}, {"with-taxon-at-rank", "", 'l'}, {"taxonomic-path", "", 'b'}, {"taxonomic-rank", "", 'b'}, {"scientific-name", "", 'b'},
	{"keep", "k", 'l'}}
var c16DeclDist = []c16OptDecl{{"pattern", "p", 's'}, {"classifier", "c", 's'}, {"directory", "d", 's'}, {"na-value", "", 's'}, {"batches", "n", 'i'},
	{"append", "A", 'b'}, {"hash", "H", 'i'}}

func c16DeclsOf(cmd string) []c16OptDecl {
	switch cmd {
	case "grep":
		return append(append([]c16OptDecl{}, c16DeclCommon...), c16DeclGrep...)
	case "annot":
		return append(append(append([]c16OptDecl{}, c16DeclCommon...), c16DeclGrep...), c16DeclAnnot...)
	}
	d := append([]c16OptDecl{}, c16DeclCommon...)
	return append(d, c16DeclDist...)
}

func c16GoodValue(rng *rand.Rand, k byte) string {
	pick := func(l ...string) string { return l[rng.Intn(len(l))] }
	switch k {
	case 'j': // runtime.GOMAXPROCS / batch sizes: small values only
		return pick("1", "2", "3", "4", "+2", "08")
	case 'i', 'n':
		return pick("0", "1", "3", "12", "2000000000", "+7", "007")
	case 'f':
		return pick("0", "0.1", "0.25", "0.5", "1")
	case 'm':
		return pick("a=b", "k=x.y", "count=^3$", "t=1", "a=b=c")
	}
	return pick("abc", "x_1", "a.b", "forward", "3", "k=v", "a b", "é"[:0]+"zz", "2:5", "%s.fa")
}

func c16BadValue(rng *rand.Rand, k byte) string {
	pick := func(l ...string) string { return l[rng.Intn(len(l))] }
	switch k {
	case 'i', 'j':
		return pick("abc", "1.5", "3x", "0x10", "1e3", "99999999999999999999", "1..3", " 4")
	case 'n':
		return pick("abc", "1.5", "3x", "3..1", "2..2", "a..3")
	case 'f':
		return pick("abc", "1.5x", "0,3", "--", "e5", ".")
	case 'm':
		return pick("ab", "key", "k:v")
	}
	return ""
}

// one valid occurrence of an option in the canonical spelling (--long=value / --long)
func c16CanonOcc(rng *rand.Rand, d c16OptDecl) []string {
	if d.kind == 'b' {
		return []string{"--" + d.long}
	}
	return []string{"--" + d.long + "=" + c16GoodValue(rng, d.kind)}
}

func c16Argvx(cmd, expect string, words []string) string {
	p := make([]string, len(words))
	for i, w := range words {
		p[i] = hx([]byte(w))
	}
	return strings.TrimSpace("argvx "+cmd+" "+expect+" "+strings.Join(p, " ")) + " | -"
}

func c16CanonTok(words []string) string {
	p := make([]string, len(words))
	for i, w := range words {
		p[i] = hx([]byte(w))
	}
	return "S:" + strings.Join(p, ".")
}

// the shortest prefix of the long name that no other declared name or alias starts with ("" if none shorter)
func c16Abbrev(all []string, long string) string {
	for n := 2; n < len(long); n++ {
		p := long[:n]
		cnt := 0
		exact := false
		for _, k := range all {
			if k == p {
				exact = true
			}
			if strings.HasPrefix(k, p) {
				cnt++
			}
		}
		if !exact && cnt == 1 {
			return p
		}
	}
	return ""
}

// every name and alias the three commands declare (incl. the options of GenerateOptionParser)
func c16AllKeys(cmd string) []string {
	keys := []string{"help", "h", "?", "version", "debug", "pprof", "max-cpu", "force-one-cpu", "pprof-mutex", "pprof-goroutine", "batch-size", "solexa",
		"input-json-header", "input-OBI-header", "ecopcr", "embl", "genbank", "fastq", "fasta", "no-order",
		"fasta-output", "fastq-output", "json-output", "output-json-header", "output-OBI-header", "O", "no-progressbar", "compress", "Z", "skip-empty", "out", "o"}
	add := func(ds []c16OptDecl) {
		for _, d := range ds {
			keys = append(keys, d.long)
			if d.short != "" {
				keys = append(keys, d.short)
			}
		}
	}
	switch cmd {
	case "grep":
		add(c16DeclGrep)
	case "annot":
		add(c16DeclGrep)
		add(c16DeclAnnot)
	default:
		add(c16DeclDist)
	}
	return keys
}

// the children of all the cases are run first, by a pool of workers; Exec then finds their results in the cache
func c16Prewarm(cases []string) {
	type job struct {
		cmd   string
		words []string
	}
	var jobs []job
	seen := map[string]bool{}
	add := func(cmd string, words []string) {
		k := cmd + " " + strings.Join(words, " ")
		if !seen[k] {
			seen[k] = true
			jobs = append(jobs, job{cmd, words})
		}
	}
	for _, c := range cases {
		f := strings.Fields(strings.TrimSuffix(c, " | -"))
		if len(f) < 3 {
			continue
		}
		add(f[1], f[3:])
		if strings.HasPrefix(f[2], "S:") {
			if f[2] == "S:" {
				add(f[1], nil)
			} else {
				add(f[1], strings.Split(f[2][2:], "."))
			}
		}
	}
	var mu sync.Mutex
	var wg sync.WaitGroup
	ch := make(chan job)
	for w := 0; w < 12; w++ {
		wg.Add(1)
		go func() {
			defer wg.Done()
			for j := range ch {
				r := c16RunChildRaw(j.cmd, j.words)
				mu.Lock()
				c16ChildCache[j.cmd+" "+strings.Join(j.words, " ")] = r
				mu.Unlock()
			}
		}()
	}
	for _, j := range jobs {
		ch <- j
	}
	close(ch)
	wg.Wait()
}

func c16GenArgvx(rng *rand.Rand, tier string, emitReal func(string)) {
	var buffered []string
	emit := func(c string) { buffered = append(buffered, c) }
	defer func() {
		c16Prewarm(buffered)
		for _, c := range buffered {
			emitReal(c)
		}
	}()
	// corpus
	for _, c := range []string{
		c16Argvx("grep", "E", []string{"--min-lenght=3"}),
		c16Argvx("grep", "E", []string{"-l"}),
		c16Argvx("grep", "E", []string{"-l", "-3"}),
		c16Argvx("grep", "E", []string{"-l", "abc"}),
		c16Argvx("grep", "E", []string{"--m=3"}),
		c16Argvx("grep", "E", []string{"-a", "count"}),
		c16Argvx("grep", "E", []string{"-x"}),
		c16Argvx("grep", "E", []string{"-"}),
		c16Argvx("grep", "E", []string{"-vq"}),
		c16Argvx("grep", "E", []string{"-i", "3..1"}),
		c16Argvx("annot", "E", []string{"--lca-error", "abc"}),
		c16Argvx("annot", "E", []string{"--set-tag", "novalue"}),
		c16Argvx("annot", "E", []string{"--pat=acgt"}),
		c16Argvx("dist", "E", []string{"-c", "sample"}),
		c16Argvx("dist", "E", []string{"-p", "x%s", "-n", "two"}),
		c16Argvx("grep", "N", []string{"--help"}),
		c16Argvx("grep", "N", []string{"-h", "--bogus"}),
		c16Argvx("grep", "N", []string{"--bogus", "-?"}),
		c16Argvx("grep", "N", []string{"--version"}),
		c16Argvx("grep", "N", []string{"-l", "x", "--help"}),
		c16Argvx("grep", c16CanonTok([]string{"--inverse-match", "--min-length=3"}), []string{"-vl", "3"}),
		c16Argvx("grep", c16CanonTok([]string{"--inverse-match", "--min-length=3"}), []string{"-vl=3"}),
		c16Argvx("grep", c16CanonTok([]string{"--min-length=3", "--inverse-match"}), []string{"-lv", "3"}),
		// an option taking a value inside a bundle takes the next word(s), in order (the theorem canonical_spelling covers it)
		c16Argvx("grep", c16CanonTok([]string{"--min-length=3", "--min-count=4", "--inverse-match"}), []string{"-lcv", "3", "4"}),
		c16Argvx("grep", c16CanonTok([]string{"--min-length=3", "--min-count=4"}), []string{"-lc=4", "3"}),
		c16Argvx("grep", c16CanonTok([]string{"--inverse-match", "--sequence=acgt", "--min-length=5", "--max-count=7"}), []string{"-vsl", "acgt", "5", "--max-co", "7"}),
		c16Argvx("grep", "E", []string{"-lc", "3"}),
		c16Argvx("grep", "E", []string{"-lc", "3", "-4"}),
		c16Argvx("dist", c16CanonTok([]string{"--pattern=x%s", "--batches=2", "--append"}), []string{"-pnA", "x%s", "2"}),
		c16Argvx("grep", c16CanonTok([]string{"--min-length=3"}), []string{"--min-l", "3", "--", "-v", "--bogus"}),
		c16Argvx("grep", c16CanonTok([]string{"--ignore-taxon=1", "--ignore-taxon=2", "--ignore-taxon=3"}), []string{"-i", "1..3"}),
		c16Argvx("grep", c16CanonTok([]string{"--sequence=--"}), []string{"-s", "--"}),
		c16Argvx("grep", c16CanonTok([]string{"--sequence=x"}), []string{"--sequence=", "x"}),
		c16Argvx("grep", c16CanonTok([]string{"--compress", "--inverse-match", "--output-OBI-header"}), []string{"-ZvO"}),
		c16Argvx("grep", "N", []string{"--inverse-match=false", "-v", "--inverse-match=false"}),
		c16Argvx("grep", "N", []string{"--=x"}),
		c16Argvx("grep", "N", []string{"-=x", "file"}),
		c16Argvx("annot", c16CanonTok([]string{"--set-tag=a=b"}), []string{"-S", "a=b=c"}),
		c16Argvx("annot", c16CanonTok([]string{"--keep=a", "--clear"}), []string{"--kee", "a", "--cle"}),
		c16Argvx("dist", c16CanonTok([]string{"--pattern=x%s", "--append", "--batches=2"}), []string{"-Ap", "x%s", "-n", "2"}),
		c16Argvx("dist", c16CanonTok([]string{"--pattern=x%s", "--hash=3"}), []string{"--pat", "x%s", "--ha=3", "in.fasta"}),
	} {
		emit(c)
		stat("argvx.corpus")
	}
	cmds := []string{"grep", "annot", "dist"}
	req := func(cmd string) []string {
		if cmd == "dist" {
			return []string{"--pattern=o_%s"}
		}
		return nil
	}
	// every declared option: canonical, short, abbreviated, separate value; missing argument, invalid value
	for _, cmd := range cmds {
		decls := c16DeclsOf(cmd)
		all := c16AllKeys(cmd)
		for _, d := range decls {
			if tier != "thorough" && cmd == "annot" && rng.Intn(3) != 0 && len(decls) > 30 {
				// the obigrep options are swept under "grep" already
				isGrep := false
				for _, g := range append(append([]c16OptDecl{}, c16DeclCommon...), c16DeclGrep...) {
					isGrep = isGrep || g.long == d.long
				}
				if isGrep {
					continue
				}
			}
			base := req(cmd)
			if cmd == "dist" && d.long == "pattern" {
				base = nil
			}
			occ := c16CanonOcc(rng, d)
			canon := append(append([]string{}, base...), occ...)
			val := ""
			if d.kind != 'b' {
				val = occ[0][len(d.long)+3:]
			}
			spell := func(name string) []string {
				if d.kind == 'b' {
					return []string{name}
				}
				if strings.HasPrefix(val, "-") || val == "" {
					return []string{name + "=" + val}
				}
				return []string{name, val}
			}
			emit(c16Argvx(cmd, c16CanonTok(canon), canon))
			emit(c16Argvx(cmd, c16CanonTok(canon), append(append([]string{}, base...), spell("--"+d.long)...)))
			stat("argvx.option")
			if d.short != "" {
				emit(c16Argvx(cmd, c16CanonTok(canon), append(append([]string{}, base...), spell("-"+d.short)...)))
				stat("argvx.short")
			}
			if ab := c16Abbrev(all, d.long); ab != "" {
				emit(c16Argvx(cmd, c16CanonTok(canon), append(append([]string{}, base...), spell("--"+ab)...)))
				stat("argvx.abbrev")
			}
			if d.kind != 'b' {
				emit(c16Argvx(cmd, "E", append(append([]string{}, base...), "--"+d.long)))
				emit(c16Argvx(cmd, "E", append(append([]string{}, base...), "--"+d.long, "--debug")))
				stat("argvx.missing")
				if bad := c16BadValue(rng, d.kind); bad != "" {
					emit(c16Argvx(cmd, "E", append(append([]string{}, base...), "--"+d.long+"="+bad)))
					stat("argvx.badvalue")
				}
			}
		}
	}
	n := 40
	if tier == "thorough" {
		n = 250
	}
	// random valid command lines in mixed spellings, with bundled flags and --
	for i := 0; i < n; i++ {
		cmd := cmds[rng.Intn(3)]
		decls := c16DeclsOf(cmd)
		all := c16AllKeys(cmd)
		canon := req(cmd)
		words := append([]string{}, canon...)
		var flags []string // bundle of short flags under construction
		flush := func() {
			if len(flags) > 0 {
				words = append(words, "-"+strings.Join(flags, ""))
				flags = nil
			}
		}
		for k := 0; k < 1+rng.Intn(5); k++ {
			d := decls[rng.Intn(len(decls))]
			if cmd == "dist" && d.long == "pattern" {
				continue
			}
			occ := c16CanonOcc(rng, d)
			canon = append(canon, occ...)
			val := ""
			if d.kind != 'b' {
				val = occ[0][len(d.long)+3:]
			}
			switch {
			case d.kind == 'b' && d.short != "" && rng.Intn(2) == 0:
				flags = append(flags, d.short)
				if rng.Intn(2) == 0 {
					flush()
				}
			case d.kind == 'b':
				flush()
				name := d.long
				if ab := c16Abbrev(all, d.long); ab != "" && rng.Intn(3) == 0 {
					name = ab
				}
				words = append(words, "--"+name)
			default:
				name := "--" + d.long
				if ab := c16Abbrev(all, d.long); ab != "" && rng.Intn(4) == 0 {
					name = "--" + ab
				}
				if d.short != "" && rng.Intn(2) == 0 {
					name = "-" + strings.Join(flags, "") + d.short // the bundle ends with an option taking a value
					flags = nil
				} else {
					flush()
				}
				if rng.Intn(2) == 0 && !strings.HasPrefix(val, "-") && val != "" {
					words = append(words, name, val)
				} else {
					words = append(words, name+"="+val)
				}
			}
		}
		flush()
		if rng.Intn(3) == 0 {
			words = append(words, "file1.fasta")
		}
		if rng.Intn(4) == 0 {
			words = append(words, "--", "-v", "--not-an-option", "x")
		}
		emit(c16Argvx(cmd, c16CanonTok(canon), words))
		stat("argvx.valid")
	}
	// bundles holding several options that take a value: each takes the next word, in order
	for i := 0; i < n/4; i++ {
		cmd := cmds[rng.Intn(3)]
		var shorts []c16OptDecl
		for _, d := range c16DeclsOf(cmd) {
			if d.short != "" && !(cmd == "dist" && d.long == "pattern") {
				shorts = append(shorts, d)
			}
		}
		canon := req(cmd)
		words := append([]string{}, canon...)
		bundle := "-"
		var vals []string
		nval := 0
		for k := 0; k < 2+rng.Intn(3); k++ {
			d := shorts[rng.Intn(len(shorts))]
			occ := c16CanonOcc(rng, d)
			if d.kind != 'b' {
				val := occ[0][len(d.long)+3:]
				for try := 0; (val == "" || strings.HasPrefix(val, "-")) && try < 20; try++ {
					occ = c16CanonOcc(rng, d)
					val = occ[0][len(d.long)+3:]
				}
				if val == "" || strings.HasPrefix(val, "-") {
					continue
				}
				vals = append(vals, val)
				nval++
			}
			canon = append(canon, occ...)
			bundle += d.short
		}
		if len(bundle) < 3 {
			continue
		}
		words = append(words, bundle)
		words = append(words, vals...)
		if rng.Intn(3) == 0 {
			words = append(words, "file1.fasta")
		}
		emit(c16Argvx(cmd, c16CanonTok(canon), words))
		if nval >= 2 {
			stat("argvx.bundle.values>=2")
		} else {
			stat("argvx.bundle.values<2")
		}
	}
	// one defect injected in a valid command line
	for i := 0; i < n; i++ {
		cmd := cmds[rng.Intn(3)]
		decls := c16DeclsOf(cmd)
		words := req(cmd)
		for k := 0; k < rng.Intn(3); k++ {
			d := decls[rng.Intn(len(decls))]
			if cmd == "dist" && d.long == "pattern" {
				continue
			}
			words = append(words, c16CanonOcc(rng, d)...)
		}
		var bad []string
		switch rng.Intn(6) {
		case 0:
			bad = []string{"--" + []string{"min-lenght", "sequences", "attr", "bogus", "taxdum-p", "Pattern", "keepp", "x"}[rng.Intn(8)] + []string{"", "=3"}[rng.Intn(2)]}
			stat("argvx.bad.unknown-long")
		case 1:
			bad = []string{"-" + []string{"x", "q", "Zq", "Zx", "9", "qx"}[rng.Intn(6)]}
			stat("argvx.bad.unknown-short")
		case 2:
			var cand []c16OptDecl
			for _, d := range decls {
				if d.kind != 'b' {
					cand = append(cand, d)
				}
			}
			d := cand[rng.Intn(len(cand))]
			bad = []string{"--" + d.long}
			if rng.Intn(2) == 0 {
				bad = append(bad, []string{"-v", "--debug", "-", "-3"}[rng.Intn(4)])
			}
			stat("argvx.bad.missing")
			words = append(words, bad...) // must be last or followed by an option
			emit(c16Argvx(cmd, "E", words))
			continue
		case 3:
			var cand []c16OptDecl
			for _, d := range decls {
				if d.kind == 'i' || d.kind == 'j' || d.kind == 'n' || d.kind == 'f' || d.kind == 'm' {
					cand = append(cand, d)
				}
			}
			d := cand[rng.Intn(len(cand))]
			if rng.Intn(2) == 0 {
				bad = []string{"--" + d.long + "=" + c16BadValue(rng, d.kind)}
			} else {
				bad = []string{"--" + d.long, c16BadValue(rng, d.kind)}
				if strings.HasPrefix(bad[1], "-") || bad[1] == "" {
					bad = []string{"--" + d.long + "=" + bad[1]}
				}
			}
			stat("argvx.bad.value")
		case 4:
			bad = []string{"--" + []string{"m", "p", "min", "max", "f", "out", "pa", "s", "n"}[rng.Intn(9)]}
			// ambiguous or unknown or (for a few) a valid abbreviation: no expectation
			stat("argvx.abbrev-random")
			pos := rng.Intn(len(words) + 1)
			w2 := append(append(append([]string{}, words[:pos]...), bad...), words[pos:]...)
			emit(c16Argvx(cmd, "N", w2))
			continue
		default:
			if cmd != "dist" {
				bad = []string{"--bogus-" + fmt.Sprint(rng.Intn(9))}
			} else {
				words = nil // the required --pattern is missing
				bad = []string{"-n", "3"}
			}
			stat("argvx.bad.other")
		}
		pos := rng.Intn(len(words) + 1)
		w2 := append(append(append([]string{}, words[:pos]...), bad...), words[pos:]...)
		emit(c16Argvx(cmd, "E", w2))
	}
}
