//go:build c13

package main

// Property C13: the obiclean graph is exact and identical for any worker count.
//
// Case lines
//
//	g <workers> <maxError> <p> <q> <count>:<hexseq> ...      one sample; ratio = p/q (no filter when p >= q)
//	a <workers> <maxError> <p> <q> <hexseq>/<s>=<n>,<s>=<n> ...   several samples (s = sample name), annotations
//
// Result of `g`: the nodes of the count-sorted sample,
// `orig/count/weight/sons/status/father.dist.pos.from.to,.../mutations` separated by spaces.
// Result of `a`: per input sequence `head/hc/ic/sc/n/status/weight/mutation`.
//
//	c <workers> <maxError> <p> <q> <head 0|1> <hexseq>/<s>=<n>,...  the same data set through the REAL CLIOBIClean
//	                                                         (--distance, --ratio, --head, workers): `orig:` + the record
//
// Oracle (on the real code): (1) for distance one, and for distance > 1 on plain acgt sequences, an independent
// sequential recomputation (full-matrix Levenshtein distance, textbook LCS matrix, integer arithmetic for the weights,
// exact rational test for the ratio); every reported mutation must reproduce the edit; for `a` / `c` every
// annotation of every record and the --head selection are recomputed from that reference; (2) for every setting, equality of everything returned across worker counts
// 1..32 and repeated runs; (3) thorough tier: a `-race` build of this harness replays the contention cases and
// the Go race detector must stay silent.

import (
	"bytes"
	"fmt"
	"go/ast"
	"go/parser"
	"go/token"
	"math/rand"
	"os"
	"os/exec"
	"path/filepath"
	"sort"
	"strconv"
	"strings"
	"time"

	"git.metabarcoding.org/obitools/obitools4/obitools4/pkg/obitools/obiclean"
)

type c13 struct{}

func init() {
	props["C13"] = c13{}
	// BuildSeqGraph draws progress bars on os.Stderr; the race detector writes to fd 2 directly
	if f, err := os.OpenFile(os.DevNull, os.O_WRONLY, 0); err == nil {
		os.Stderr = f
	}
}

type c13Case struct {
	op       string
	workers  int
	maxErr   int
	p, q     int
	seqs     [][]byte
	counts   []int            // op g
	smaps    []map[string]int // op a, c
	onlyHead bool             // op c, x
	minEval  int              // op x: --min-eval-rate
	attr     string           // op x: --sample
	inputs   []obiclean.VerifInput
}

func c13Parse(c string) (cs c13Case, ok bool) {
	f := strings.Fields(c)
	if len(f) >= 1 && f[0] == "x" {
		return c13ParseX(f)
	}
	if len(f) < 5 || (f[0] != "g" && f[0] != "a" && f[0] != "c" && f[0] != "f") {
		return cs, false
	}
	cs.op = f[0]
	if cs.op == "c" { // c <workers> <maxError> <p> <q> <head 0|1> items...
		if len(f) < 6 || (f[5] != "0" && f[5] != "1") {
			return cs, false
		}
		cs.onlyHead = f[5] == "1"
		f = append(append([]string{}, f[:5]...), f[6:]...)
	}
	var err error
	nums := make([]int, 4)
	for i := 0; i < 4; i++ {
		nums[i], err = strconv.Atoi(f[1+i])
		if err != nil || nums[i] < 0 {
			return cs, false
		}
	}
	cs.workers, cs.maxErr, cs.p, cs.q = nums[0], nums[1], nums[2], nums[3]
	if cs.workers < 1 || cs.workers > 64 || cs.q < 1 || cs.maxErr > 8 {
		return cs, false
	}
	for _, w := range f[5:] {
		if cs.op == "g" || cs.op == "f" {
			k := strings.IndexByte(w, ':')
			if k < 0 {
				return cs, false
			}
			n, err := strconv.Atoi(w[:k])
			if err != nil || n < 1 || n > 1<<30 {
				return cs, false
			}
			s, ok := unhx(w[k+1:])
			if !ok || !c13Plain(s) {
				return cs, false
			}
			cs.counts = append(cs.counts, n)
			cs.seqs = append(cs.seqs, s)
		} else {
			k := strings.IndexByte(w, '/')
			if k < 0 {
				return cs, false
			}
			s, ok := unhx(w[:k])
			if !ok || !c13Plain(s) {
				return cs, false
			}
			m := map[string]int{}
			for _, kv := range strings.Split(w[k+1:], ",") {
				e := strings.IndexByte(kv, '=')
				if e != 1 || kv[0] < 'a' || kv[0] > 'z' {
					return cs, false
				}
				n, err := strconv.Atoi(kv[e+1:])
				if err != nil || n < 1 || n > 1<<30 {
					return cs, false
				}
				if _, dup := m[kv[:1]]; dup {
					return cs, false
				}
				m[kv[:1]] = n
			}
			cs.smaps = append(cs.smaps, m)
			cs.seqs = append(cs.seqs, s)
		}
	}
	return cs, true
}

// sequences are lower-case ASCII letters (SetSequence lower-cases A-Z; %c of a byte >= 0x80 is UTF-8 encoded)
func c13Plain(s []byte) bool {
	for _, b := range s {
		if b < 'a' || b > 'z' {
			return false
		}
	}
	return true
}

func c13Nodes(ns []obiclean.VerifNode) string {
	parts := make([]string, len(ns))
	for i, n := range ns {
		es := make([]string, len(n.Edges))
		for k, e := range n.Edges {
			es[k] = fmt.Sprintf("%d.%d.%d.%d.%d", e.Father, e.Dist, e.Pos, e.From, e.To)
		}
		ms := make([]string, 0, len(n.Mutation))
		for k, v := range n.Mutation {
			ms = append(ms, k+"="+v)
		}
		sort.Strings(ms)
		st := n.Status
		if n.AStatus != n.Status || n.AWeight != n.Weight {
			st = fmt.Sprintf("%s!annot:%s:%d", n.Status, n.AStatus, n.AWeight)
		}
		parts[i] = fmt.Sprintf("%d/%d/%d/%d/%s/%s/%s", n.Orig, n.Count, n.Weight, n.SonCount, st,
			strings.Join(es, ","), strings.Join(ms, ","))
	}
	if len(parts) == 0 {
		return "-"
	}
	return strings.Join(parts, " ")
}

func c13Annots(as []obiclean.VerifAnnot) string {
	parts := make([]string, len(as))
	b := func(x bool) int {
		if x {
			return 1
		}
		return 0
	}
	for i, a := range as {
		parts[i] = fmt.Sprintf("%d/%d/%d/%d/%d/%s/%s/%s", b(a.Head), a.HeadCount, a.InternalCount, a.SingletonCount,
			a.SampleCount, strings.Join(a.Status, ","), strings.Join(a.Weight, ","), strings.Join(a.Mutation, ","))
	}
	if len(parts) == 0 {
		return "-"
	}
	return strings.Join(parts, " ")
}

func (cs c13Case) ratio() float64 { return float64(cs.p) / float64(cs.q) }

func (cs c13Case) run(workers int) string {
	return guardT(20*time.Second, func() string {
		seqs := make([][]byte, len(cs.seqs))
		for i, s := range cs.seqs {
			seqs[i] = append([]byte{}, s...)
		}
		if cs.op == "g" || cs.op == "f" {
			return c13Nodes(obiclean.VerifBuildGraph(seqs, append([]int{}, cs.counts...), workers, cs.maxErr, cs.ratio()))
		}
		if cs.op == "x" {
			return cs.runX(workers)
		}
		if cs.op == "c" {
			// the batches of the iterator CLIOBIClean returns, in ARRIVAL order; the consumer below re-sequences them by
			// their order number, as the writers do (cli_output_any_size of Props/C13W.lean): the numbers must be 0..k-1
			batches := obiclean.VerifCLIOBICleanBatches(seqs, cs.smaps, workers, cs.maxErr, cs.ratio(), cs.onlyHead)
			inOrder := true
			for k, b := range batches {
				if b.Order != k {
					inOrder = false
				}
			}
			if len(batches) > 1 {
				stat("batches:2+")
				if !inOrder {
					stat("batches:arrival-out-of-order")
				}
			}
			sort.SliceStable(batches, func(i, j int) bool { return batches[i].Order < batches[j].Order })
			var recs []obiclean.VerifRecord
			for k, b := range batches {
				if b.Order != k {
					return fmt.Sprintf("!batch-numbers:%d-at-%d", b.Order, k)
				}
				if k+1 < len(batches) && len(b.Records) != 1000 {
					return fmt.Sprintf("!batch-size:%d-at-%d", len(b.Records), k)
				}
				recs = append(recs, b.Records...)
			}
			if len(recs) == 0 {
				return "-"
			}
			parts := make([]string, len(recs))
			for i, r := range recs {
				parts[i] = fmt.Sprintf("%d:%s", r.Orig, c13Annots([]obiclean.VerifAnnot{r.Annot}))
			}
			return strings.Join(parts, " ")
		}
		return c13Annots(obiclean.VerifAnnotate(seqs, cs.smaps, workers, cs.maxErr, cs.ratio()))
	})
}

// ---- independent reference (distance one) ----

func c13Lev(a, b []byte) int {
	prev := make([]int, len(b)+1)
	for j := range prev {
		prev[j] = j
	}
	for i := 1; i <= len(a); i++ {
		cur := make([]int, len(b)+1)
		cur[0] = i
		for j := 1; j <= len(b); j++ {
			c := prev[j-1]
			if a[i-1] != b[j-1] {
				c++
			}
			if prev[j]+1 < c {
				c = prev[j] + 1
			}
			if cur[j-1]+1 < c {
				c = cur[j-1] + 1
			}
			cur[j] = c
		}
		prev = cur
	}
	return prev[len(b)]
}

type c13Ref struct {
	order   []int   // sorted position -> original index
	fathers [][]int // sorted position -> fathers (ascending), after the ratio filter
	dists   [][]int // the distance carried by the edge to fathers[i][k]
	weight  []int
	sons    []int
	status  []string
}

// c13ACGT : only a, c, g, t (then the IUPAC matching of the LCS kernel is plain equality)
func c13ACGT(seqs [][]byte) bool {
	for _, s := range seqs {
		for _, b := range s {
			if b != 'a' && b != 'c' && b != 'g' && b != 't' {
				return false
			}
		}
	}
	return true
}

// c13LCS : textbook full matrix: (LCS length, length of the shortest alignment achieving it), plain equality
func c13LCS(a, b []byte) (int, int) {
	type cell struct{ s, l int }
	better := func(x, y cell) bool { return x.s > y.s || (x.s == y.s && x.l <= y.l) }
	prev := make([]cell, len(b)+1)
	for j := range prev {
		prev[j] = cell{0, j}
	}
	for i := 1; i <= len(a); i++ {
		cur := make([]cell, len(b)+1)
		cur[0] = cell{0, i}
		for j := 1; j <= len(b); j++ {
			d := cell{prev[j-1].s, prev[j-1].l + 1}
			if a[i-1] == b[j-1] {
				d.s++
			}
			u := cell{prev[j].s, prev[j].l + 1}
			l := cell{cur[j-1].s, cur[j-1].l + 1}
			best := d
			if !better(best, u) {
				best = u
			}
			if !better(best, l) {
				best = l
			}
			cur[j] = best
		}
		prev = cur
	}
	return prev[len(b)].s, prev[len(b)].l
}

func c13Pow(b, e int) int {
	r := 1
	for ; e > 0; e-- {
		r *= b
	}
	return r
}

// c13Reference recomputes, sequentially, the graph of one sample: the distance-one edges (more abundant father at
// Levenshtein distance exactly one), the weights, then (maxErr > 1, sequences over acgt only) for the rows WITHOUT
// distance-one father the edges to every later row of the stable count order at Levenshtein distance >= 2 whose
// optimal LCS alignment has at most maxErr differences, then the ratio filter w_son * q^dist <= p^dist * w_father.
func c13Reference(seqs [][]byte, counts []int, p, q, maxErr int) c13Ref {
	n := len(seqs)
	r := c13Ref{order: make([]int, n), fathers: make([][]int, n), dists: make([][]int, n), weight: make([]int, n), sons: make([]int, n), status: make([]string, n)}
	for i := range r.order {
		r.order[i] = i
	}
	sort.SliceStable(r.order, func(a, b int) bool { return counts[r.order[a]] < counts[r.order[b]] })
	cnt := func(i int) int { return counts[r.order[i]] }
	for i := 0; i < n; i++ {
		for j := 0; j < n; j++ {
			if cnt(j) > cnt(i) && c13Lev(seqs[r.order[i]], seqs[r.order[j]]) == 1 {
				r.fathers[i] = append(r.fathers[i], j)
				r.dists[i] = append(r.dists[i], 1)
			}
		}
	}
	// weights: every node hands its (final) weight to its fathers in proportion of their counts; sons always
	// precede fathers in the count order
	for i := 0; i < n; i++ {
		r.weight[i] = cnt(i)
	}
	for i := 0; i < n; i++ {
		swf := 0
		for _, f := range r.fathers[i] {
			swf += cnt(f)
		}
		for _, f := range r.fathers[i] {
			// round half away from zero of weight*count/swf, in integers
			r.weight[f] += c13RoundDiv(r.weight[i], cnt(f), swf)
		}
	}
	if maxErr > 1 {
		for i := 0; i < n; i++ {
			if len(r.fathers[i]) > 0 {
				continue
			}
			for j := i + 1; j < n; j++ {
				a, b := seqs[r.order[i]], seqs[r.order[j]]
				if c13Lev(a, b) < 2 {
					continue
				}
				if lcs, lali := c13LCS(a, b); lali-lcs <= maxErr {
					r.fathers[i] = append(r.fathers[i], j)
					r.dists[i] = append(r.dists[i], lali-lcs)
				}
			}
		}
	}
	if p < q {
		for i := 0; i < n; i++ {
			var keep, kd []int
			for k, f := range r.fathers[i] {
				d := r.dists[i][k]
				cmp := c13RatioCmp(r.weight[i], r.weight[f], p, q, d)
				if cmp == 0 {
					stat(fmt.Sprintf("ratio:exactly-on-the-boundary(d=%d)", d))
				}
				if cmp <= 0 {
					keep = append(keep, f)
					kd = append(kd, d)
				}
			}
			r.fathers[i], r.dists[i] = keep, kd
		}
	}
	for i := 0; i < n; i++ {
		for _, f := range r.fathers[i] {
			r.sons[f]++
		}
	}
	for i := 0; i < n; i++ {
		switch {
		case len(r.fathers[i]) > 0:
			r.status[i] = "i"
		case r.sons[i] > 0:
			r.status[i] = "h"
		default:
			r.status[i] = "s"
		}
	}
	return r
}

// c13MutationOK : the edge (pos, from, to) of son -> father reproduces the one edit between them:
// father[pos] = from replaced by to gives the son ('-' = nothing on that side).
func c13MutationOK(son, father []byte, pos int, from, to byte) bool {
	if pos < 0 {
		return false
	}
	switch {
	case from != '-' && to != '-':
		if len(son) != len(father) || pos >= len(son) || father[pos] != from || son[pos] != to || from == to {
			return false
		}
		return bytes.Equal(son[:pos], father[:pos]) && bytes.Equal(son[pos+1:], father[pos+1:])
	case to == '-' && from != '-': // the father has one more symbol
		if len(father) != len(son)+1 || pos >= len(father) || father[pos] != from {
			return false
		}
		return bytes.Equal(son[:pos], father[:pos]) && bytes.Equal(son[pos:], father[pos+1:])
	case from == '-' && to != '-': // the son has one more symbol
		if len(son) != len(father)+1 || pos >= len(son) || son[pos] != to {
			return false
		}
		return bytes.Equal(son[:pos], father[:pos]) && bytes.Equal(son[pos+1:], father[pos:])
	}
	return false
}

func c13Oracle(cs c13Case, ns []obiclean.VerifNode) (fails []Fail) {
	ref := c13Reference(cs.seqs, cs.counts, cs.p, cs.q, cs.maxErr)
	if len(ns) != len(cs.seqs) {
		return []Fail{{"graph.nodes", fmt.Sprintf("%d nodes returned for %d sequences", len(ns), len(cs.seqs))}}
	}
	add := func(sig, text string) {
		for _, f := range fails {
			if f.Sig == sig {
				return
			}
		}
		fails = append(fails, Fail{sig, text})
	}
	for i, n := range ns {
		if n.Orig != ref.order[i] {
			add("graph.order", fmt.Sprintf("node %d is input %d, expected %d (stable sort by count)", i, n.Orig, ref.order[i]))
			continue
		}
		var fs []int
		for _, e := range n.Edges {
			fs = append(fs, e.Father)
			if e.Father < 0 || e.Father >= len(ns) {
				add("graph.edge", fmt.Sprintf("node %d: father index %d out of range", i, e.Father))
				continue
			}
			wantD := -1
			for k, f := range ref.fathers[i] {
				if f == e.Father {
					wantD = ref.dists[i][k]
				}
			}
			if wantD >= 0 && e.Dist != wantD {
				add("graph.edge", fmt.Sprintf("node %d -> %d: distance %d reported, expected %d", i, e.Father, e.Dist, wantD))
			}
			if e.Dist > 1 {
				if e.Pos != -1 || e.From != '-' || e.To != '-' {
					add("graph.mutation", fmt.Sprintf("node %d -> %d: distance %d edge carries (%c)->(%c)@%d", i, e.Father, e.Dist, e.From, e.To, e.Pos+1))
				}
			} else if !c13MutationOK(cs.seqs[n.Orig], cs.seqs[ns[e.Father].Orig], e.Pos, e.From, e.To) {
				add("graph.mutation", fmt.Sprintf("node %d -> %d: (%c)->(%c)@%d does not turn %q into %q", i, e.Father, e.From, e.To, e.Pos+1,
					cs.seqs[ns[e.Father].Orig], cs.seqs[n.Orig]))
			}
			want := fmt.Sprintf("(%c)->(%c)@%d", e.From, e.To, e.Pos+1)
			if got := n.Mutation[fmt.Sprintf("s%d", ns[e.Father].Orig)]; got != want {
				add("graph.mutation", fmt.Sprintf("node %d -> %d: obiclean_mutation is %q, expected %q", i, e.Father, got, want))
			}
		}
		if len(n.Mutation) != len(n.Edges) {
			add("graph.mutation", fmt.Sprintf("node %d: %d mutations for %d edges", i, len(n.Mutation), len(n.Edges)))
		}
		sort.Ints(fs)
		if fmt.Sprint(fs) != fmt.Sprint(ref.fathers[i]) {
			add("graph.edge", fmt.Sprintf("node %d (input %d): fathers %v, expected %v (distance-one fathers: more abundant and at edit distance exactly one; distance %d, ratio %d/%d)",
				i, n.Orig, fs, ref.fathers[i], cs.maxErr, cs.p, cs.q))
		}
		if n.SonCount != ref.sons[i] {
			add("graph.soncount", fmt.Sprintf("node %d (input %d): SonCount %d, expected %d", i, n.Orig, n.SonCount, ref.sons[i]))
		}
		if n.Weight != ref.weight[i] || n.AWeight != ref.weight[i] {
			add("graph.weight", fmt.Sprintf("node %d (input %d): weight %d (annotation %d), expected %d", i, n.Orig, n.Weight, n.AWeight, ref.weight[i]))
		}
		if n.Status != ref.status[i] || n.AStatus != ref.status[i] {
			add("graph.status", fmt.Sprintf("node %d (input %d): status %s (annotation %s), expected %s", i, n.Orig, n.Status, n.AStatus, ref.status[i]))
		}
	}
	return fails
}

// c13AnnotOracle (ops a, c): every obiclean_* annotation of every record written, recomputed from the independent
// per-sample reference: obiclean_status / obiclean_weight per sample, the key set of obiclean_mutation and that each
// value reproduces the edit (or is the `(-)->(-)@0` of a distance > 1 edge), obiclean_head, the three counters and
// obiclean_samplecount; with --head exactly the records with obiclean_head, in input order.
func c13AnnotOracle(cs c13Case, res string) (fails []Fail) {
	add := func(sig, text string) {
		for _, f := range fails {
			if f.Sig == sig {
				return
			}
		}
		fails = append(fails, Fail{sig, text})
	}
	n := len(cs.seqs)
	names := map[string]bool{}
	for _, m := range cs.smaps {
		for k := range m {
			names[k] = true
		}
	}
	var sorted []string
	for k := range names {
		sorted = append(sorted, k)
	}
	sort.Strings(sorted)
	status := make([][]string, n)
	weight := make([][]string, n)
	muts := make([]map[string]int, n) // father record -> distance of the edge
	for i := range muts {
		muts[i] = map[string]int{}
	}
	nh, ni, ns := make([]int, n), make([]int, n), make([]int, n)
	for _, name := range sorted {
		var idx []int
		var seqs [][]byte
		var counts []int
		for i, m := range cs.smaps {
			if c, ok := m[name]; ok {
				idx = append(idx, i)
				seqs = append(seqs, cs.seqs[i])
				counts = append(counts, c)
			}
		}
		ref := c13Reference(seqs, counts, cs.p, cs.q, cs.maxErr)
		for pos, o := range ref.order {
			rec := idx[o]
			status[rec] = append(status[rec], name+"="+ref.status[pos])
			weight[rec] = append(weight[rec], fmt.Sprintf("%s=%d", name, ref.weight[pos]))
			switch ref.status[pos] {
			case "h":
				nh[rec]++
			case "i":
				ni[rec]++
			default:
				ns[rec]++
			}
			for k, f := range ref.fathers[pos] {
				muts[rec][fmt.Sprintf("s%d", idx[ref.order[f]])] = ref.dists[pos][k]
			}
		}
	}
	var want []int
	for i := 0; i < n; i++ {
		if cs.op == "a" || !cs.onlyHead || nh[i]+ns[i] > 0 {
			want = append(want, i)
		}
	}
	items := strings.Fields(res)
	if res == "-" {
		items = nil
	}
	if len(items) != len(want) {
		add("annot.records", fmt.Sprintf("%d records written, expected %d (head=%v)", len(items), len(want), cs.onlyHead))
		return fails
	}
	for k, it := range items {
		rec := want[k]
		if cs.op == "c" {
			c := strings.IndexByte(it, ':')
			if c < 0 || it[:c] != strconv.Itoa(rec) {
				add("annot.records", fmt.Sprintf("record %d of the output is %q, expected input record %d (input order, head=%v)", k, it, rec, cs.onlyHead))
				continue
			}
			it = it[c+1:]
		}
		f := strings.Split(it, "/")
		if len(f) != 8 {
			add("annot.format", "unexpected record "+it)
			continue
		}
		head := "0"
		if nh[rec]+ns[rec] > 0 {
			head = "1"
		}
		if f[0] != head {
			add("annot.head", fmt.Sprintf("record %d: obiclean_head %s, expected %s", rec, f[0], head))
		}
		if exp := fmt.Sprintf("%d/%d/%d/%d", nh[rec], ni[rec], ns[rec], nh[rec]+ni[rec]+ns[rec]); strings.Join(f[1:5], "/") != exp {
			add("annot.counts", fmt.Sprintf("record %d: head/internal/singleton/sample counts %s, expected %s", rec, strings.Join(f[1:5], "/"), exp))
		}
		if exp := strings.Join(status[rec], ","); f[5] != exp {
			add("annot.status", fmt.Sprintf("record %d: obiclean_status %s, expected %s", rec, f[5], exp))
		}
		if exp := strings.Join(weight[rec], ","); f[6] != exp {
			add("annot.weight", fmt.Sprintf("record %d: obiclean_weight %s, expected %s", rec, f[6], exp))
		}
		got := map[string]string{}
		if f[7] != "" {
			for _, kv := range strings.Split(f[7], ",") {
				e := strings.IndexByte(kv, '=')
				if e < 0 {
					add("annot.format", "unexpected mutation "+kv)
					continue
				}
				got[kv[:e]] = kv[e+1:]
			}
		}
		if len(got) != len(muts[rec]) {
			add("annot.mutation", fmt.Sprintf("record %d: obiclean_mutation has %d keys %v, expected %d %v", rec, len(got), got, len(muts[rec]), muts[rec]))
		}
		for key, d := range muts[rec] {
			v, ok := got[key]
			if !ok {
				add("annot.mutation", fmt.Sprintf("record %d: obiclean_mutation lacks the father %s", rec, key))
				continue
			}
			if d > 1 {
				if v != "(-)->(-)@0" {
					add("annot.mutation", fmt.Sprintf("record %d: mutation %s for the distance %d father %s", rec, v, d, key))
				}
				continue
			}
			var from, to byte
			var pos int
			father, _ := strconv.Atoi(key[1:])
			if _, err := fmt.Sscanf(v, "(%c)->(%c)@%d", &from, &to, &pos); err != nil ||
				!c13MutationOK(cs.seqs[rec], cs.seqs[father], pos-1, from, to) {
				add("annot.mutation", fmt.Sprintf("record %d: mutation %s does not turn father %s %q into %q", rec, v, key, cs.seqs[father], cs.seqs[rec]))
			}
		}
	}
	return fails
}

// ---- Exec ----

var c13Tier = "quick"

func c13WorkerPlan(workers int) (ws []int, repeats int) {
	if os.Getenv("VERIF_C13_SINGLE") != "" { // used by the -race replay: one run per worker count, no repeats
		return []int{workers, 1, 4, 16}, 1
	}
	if c13Tier == "thorough" {
		for w := 1; w <= 32; w++ {
			ws = append(ws, w)
		}
		ws = append(ws, 40, 48, 64)
		return ws, 14
	}
	return []int{1, 2, 3, 4, 5, 6, 8, 12, 16, 24, 32, 64}, 3
}

// c13Fact (op `fact`): the structural fact the interleaving model is instantiated with (DESIGN T3): in the two
// functions that run the worker pools, is every write of `.SonCount` done between Lock()/Unlock() of the same
// block, or through sync/atomic? Result `synchronised` (the model's hypothesis `atomic = true`), else
// `unsynchronised` / `unknown` and an oracle failure.
func c13Fact() (string, []Fail) {
	repo := os.Getenv("VERIF_REPO")
	if repo == "" {
		repo = "/repo"
	}
	file := filepath.Join(repo, "pkg", "obitools", "obiclean", "graph.go")
	fset := token.NewFileSet()
	f, err := parser.ParseFile(fset, file, nil, 0)
	if err != nil {
		return "unknown", []Fail{{"fact.unreadable", "cannot parse " + file + ": " + err.Error()}}
	}
	isCall := func(st ast.Stmt, name string) bool {
		es, ok := st.(*ast.ExprStmt)
		if !ok {
			return false
		}
		call, ok := es.X.(*ast.CallExpr)
		if !ok {
			return false
		}
		sel, ok := call.Fun.(*ast.SelectorExpr)
		return ok && sel.Sel.Name == name
	}
	touches := func(e ast.Expr) bool {
		found := false
		ast.Inspect(e, func(n ast.Node) bool {
			if sel, ok := n.(*ast.SelectorExpr); ok && sel.Sel.Name == "SonCount" {
				found = true
			}
			return true
		})
		return found
	}
	seen := map[string]bool{}
	writes, unsync := 0, []string{}
	for _, d := range f.Decls {
		fd, ok := d.(*ast.FuncDecl)
		if !ok || (fd.Name.Name != "buildSamplePairs" && fd.Name.Name != "extendSimilarityGraph") {
			continue
		}
		seen[fd.Name.Name] = true
		ast.Inspect(fd.Body, func(n ast.Node) bool {
			switch x := n.(type) {
			case *ast.BlockStmt:
				for i, st := range x.List {
					w := false
					switch y := st.(type) {
					case *ast.IncDecStmt:
						w = touches(y.X)
					case *ast.AssignStmt:
						for _, l := range y.Lhs {
							w = w || touches(l)
						}
					}
					if w {
						writes++
						if !(i > 0 && isCall(x.List[i-1], "Lock") && i+1 < len(x.List) && isCall(x.List[i+1], "Unlock")) {
							unsync = append(unsync, fmt.Sprintf("%s:%d", fd.Name.Name, fset.Position(st.Pos()).Line))
						}
					}
				}
			case *ast.CallExpr:
				if sel, ok := x.Fun.(*ast.SelectorExpr); ok {
					if id, ok := sel.X.(*ast.Ident); ok && id.Name == "atomic" && strings.HasPrefix(sel.Sel.Name, "Add") {
						for _, a := range x.Args {
							if touches(a) {
								writes++
							}
						}
					}
				}
			}
			return true
		})
	}
	switch {
	case !seen["buildSamplePairs"] || !seen["extendSimilarityGraph"] || writes == 0:
		return "unknown", []Fail{{"fact.unknown", "buildSamplePairs / extendSimilarityGraph or their SonCount updates not found in graph.go: the tie of the interleaving model is broken"}}
	case len(unsync) > 0:
		return "unsynchronised", []Fail{{"fact.soncount-unsynchronised", "father.SonCount is written by the pool workers without lock or atomic at " + strings.Join(unsync, ", ")}}
	}
	return "synchronised", nil
}

func (c13) Exec(c string) (string, []Fail) {
	if c == "fact soncount" {
		stat("op:fact")
		return c13Fact()
	}
	if strings.HasPrefix(c, "race ") {
		stat("op:race")
		return c13Race(strings.TrimPrefix(c, "race "))
	}
	cs, ok := c13Parse(c)
	if !ok {
		return "bad-op", nil
	}
	stat("op:" + cs.op)
	stat(fmt.Sprintf("maxError:%d", cs.maxErr))
	if cs.p < cs.q {
		stat("ratio:filter")
	} else {
		stat("ratio:none")
	}
	if len(cs.seqs) <= 1 {
		caseTrivial = true
	}
	stat(fmt.Sprintf("nseq:%d", (len(cs.seqs)+9)/10*10))
	var fails []Fail
	res := cs.run(cs.workers)
	c13Unsafe = false
	isG := cs.op == "g" || cs.op == "f"
	fx := "0"

	// (1) exactness: distance one, and distance > 1 on plain acgt sequences
	exact := cs.maxErr <= 1 || c13ACGT(cs.seqs)
	if exact {
		stat("oracle:exact")
	} else {
		stat("oracle:determinism-only(iupac,d>1)")
	}
	if !isG && exact && res != "panic" && res != "fatal" && res != "hang" {
		if cs.op == "x" {
			parts := strings.Split(res, " | ")
			if len(parts) != 4 {
				fails = append(fails, Fail{"x.format", "unexpected result " + res})
			} else {
				as := cs
				as.op = "c"
				fails = append(fails, c13AnnotOracle(as, parts[0])...)
				fails = append(fails, c13CsvOracle(cs, parts[1])...)
				if parts[1] != "-" {
					stat("csv:rows")
				} else {
					stat("csv:empty")
				}
			}
		} else {
			fails = append(fails, c13AnnotOracle(cs, res)...)
		}
		fails = c13DomainFilter(fails)
	}
	if isG && exact && res != "panic" && res != "fatal" && res != "hang" {
		seqs := make([][]byte, len(cs.seqs))
		for i, s := range cs.seqs {
			seqs[i] = append([]byte{}, s...)
		}
		var ns []obiclean.VerifNode
		r := guardT(20*time.Second, func() string {
			ns = obiclean.VerifBuildGraph(seqs, append([]int{}, cs.counts...), 1, cs.maxErr, cs.ratio())
			return "ok"
		})
		if r == "ok" {
			fails = append(fails, c13DomainFilter(c13Oracle(cs, ns))...)
			if cs.op == "f" {
				if c13Differs(cs, ns) {
					fx = "1"
					stat("float:fx=1(real code differs from the exact-rational reference)")
				} else {
					stat("float:fx=0")
				}
				if c13Unsafe {
					stat("float:f-case-outside-domain")
				} else {
					stat("float:f-case-inside-domain")
				}
			}
			nedges, maxsons := 0, 0
			for _, n := range ns {
				nedges += len(n.Edges)
				if n.SonCount > maxsons {
					maxsons = n.SonCount
				}
				stat("status:" + n.Status)
			}
			switch {
			case nedges == 0:
				stat("edges:0")
			case nedges < 10:
				stat("edges:1-9")
			case nedges < 100:
				stat("edges:10-99")
			default:
				stat("edges:100+")
			}
			if maxsons >= 20 {
				stat("contention:star>=20")
			}
		}
	} else if res == "panic" || res == "fatal" || res == "hang" {
		fails = append(fails, Fail{"graph." + res, "the graph construction ended in " + res})
	}

	// (2) identical for every worker count and from run to run
	ws, rep := c13WorkerPlan(cs.workers)
	if len(cs.seqs) > 500 && rep > 2 { // data sets of several batches: every worker count, fewer repetitions
		rep = 2
		if c13Tier != "thorough" {
			rep = 1
		}
	}
	if cs.op == "x" && rep > 3 { // every run writes and reads back the table and the GML files: every worker count, three repetitions
		rep = 3
	}
	ref := cs.run(1)
	if ref != res {
		fails = append(fails, Fail{"schedule." + cs.op, fmt.Sprintf("workers=%d differs from workers=1: %s", cs.workers, c13Diff(ref, res))})
	}
loop:
	for r := 0; r < rep; r++ {
		for _, w := range ws {
			got := cs.run(w)
			if got != ref {
				fails = append(fails, Fail{"schedule." + cs.op, fmt.Sprintf("workers=%d (run %d) differs from workers=1: %s", w, r, c13Diff(ref, got))})
				stat("schedule:differs")
				break loop
			}
		}
	}
	if cs.op == "f" && res != "panic" && res != "fatal" && res != "hang" {
		res += " fx=" + fx
	}
	return res, fails
}

func c13Diff(a, b string) string {
	fa, fb := strings.Fields(a), strings.Fields(b)
	if len(fa) != len(fb) {
		return fmt.Sprintf("%d vs %d items", len(fa), len(fb))
	}
	for i := range fa {
		if fa[i] != fb[i] {
			return fmt.Sprintf("item %d: %s vs %s", i, fa[i], fb[i])
		}
	}
	return "identical"
}

// ---- Gen ----

var c13Alpha = []byte("acgt")

func c13RandSeq(rng *rand.Rand, n int) []byte {
	s := make([]byte, n)
	// low-complexity stretches make the position of an indel ambiguous
	for i := range s {
		if i > 0 && rng.Intn(3) == 0 {
			s[i] = s[i-1]
		} else {
			s[i] = c13Alpha[rng.Intn(4)]
		}
	}
	return s
}

func c13Mutate(rng *rand.Rand, s []byte, iupac bool) []byte {
	alpha := c13Alpha
	if iupac && rng.Intn(4) == 0 {
		alpha = []byte("acgtnrykmswbdhv")
	}
	switch k := rng.Intn(4); {
	case k <= 1 && len(s) > 0: // substitution
		t := append([]byte{}, s...)
		p := rng.Intn(len(t))
		if rng.Intn(4) == 0 {
			p = []int{0, len(t) - 1}[rng.Intn(2)]
		}
		for {
			c := alpha[rng.Intn(len(alpha))]
			if c != t[p] {
				t[p] = c
				break
			}
		}
		return t
	case k == 2 && len(s) > 1: // deletion
		p := rng.Intn(len(s))
		if rng.Intn(4) == 0 {
			p = []int{0, len(s) - 1}[rng.Intn(2)]
		}
		return append(append([]byte{}, s[:p]...), s[p+1:]...)
	default: // insertion
		p := rng.Intn(len(s) + 1)
		if rng.Intn(4) == 0 {
			p = []int{0, len(s)}[rng.Intn(2)]
		}
		t := append([]byte{}, s[:p]...)
		t = append(t, alpha[rng.Intn(len(alpha))])
		return append(t, s[p:]...)
	}
}

type c13Item struct {
	seq   []byte
	count int
}

// c13Sample builds one sample: stars (a hub and many one-difference variants), chains, two-difference variants,
// duplicates, unrelated sequences; counts with ties.
func c13Sample(rng *rand.Rand, maxN int, iupac bool) []c13Item {
	var items []c13Item
	length := 6 + rng.Intn(30)
	if rng.Intn(6) == 0 {
		length = 1 + rng.Intn(5)
	}
	nhubs := 1 + rng.Intn(3)
	smallCounts := rng.Intn(3) == 0 // many ties
	count := func(max int) int {
		if smallCounts {
			return 1 + rng.Intn(3)
		}
		switch rng.Intn(4) {
		case 0:
			return 1
		case 1:
			return 1 + rng.Intn(5)
		default:
			return 1 + rng.Intn(max)
		}
	}
	for h := 0; h < nhubs && len(items) < maxN; h++ {
		hub := c13RandSeq(rng, length)
		hc := 10 + rng.Intn(5000)
		if smallCounts {
			hc = 2 + rng.Intn(4)
		}
		items = append(items, c13Item{hub, hc})
		switch rng.Intn(3) {
		case 0: // star
			k := 1 + rng.Intn(maxN)
			for i := 0; i < k && len(items) < maxN; i++ {
				items = append(items, c13Item{c13Mutate(rng, hub, iupac), count(hc)})
			}
		case 1: // chain(s)
			for c := 0; c < 1+rng.Intn(3); c++ {
				cur, cc := hub, hc
				for i := 0; i < 1+rng.Intn(6) && len(items) < maxN; i++ {
					cur = c13Mutate(rng, cur, iupac)
					if rng.Intn(4) != 0 && cc > 1 {
						cc = 1 + rng.Intn(cc)
					}
					items = append(items, c13Item{cur, cc})
				}
			}
		default: // star of stars: variants of variants, all pointing to several fathers
			k := 1 + rng.Intn(8)
			var lvl1 [][]byte
			for i := 0; i < k && len(items) < maxN; i++ {
				v := c13Mutate(rng, hub, iupac)
				lvl1 = append(lvl1, v)
				items = append(items, c13Item{v, 2 + rng.Intn(hc)})
			}
			for i := 0; i < 2*k && len(items) < maxN && len(lvl1) > 0; i++ {
				items = append(items, c13Item{c13Mutate(rng, lvl1[rng.Intn(len(lvl1))], iupac), count(10)})
			}
		}
	}
	// noise: duplicates of an existing sequence, unrelated sequences, equal-count twins
	for i := 0; i < rng.Intn(4) && len(items) < maxN && len(items) > 0; i++ {
		switch rng.Intn(3) {
		case 0:
			it := items[rng.Intn(len(items))]
			items = append(items, c13Item{append([]byte{}, it.seq...), count(20)})
		case 1:
			items = append(items, c13Item{c13RandSeq(rng, length), count(100)})
		default:
			it := items[rng.Intn(len(items))]
			items = append(items, c13Item{c13Mutate(rng, it.seq, iupac), it.count})
		}
	}
	rng.Shuffle(len(items), func(i, j int) { items[i], items[j] = items[j], items[i] })
	return items
}

// c13Contention : one hub and n sons, each at one difference, plus a second hub one difference away from most
// of them: every row ends with increments of the same two counters.
func c13Contention(rng *rand.Rand, n int) []c13Item {
	length := 40 + rng.Intn(20)
	hub := c13RandSeq(rng, length)
	items := []c13Item{{hub, 100000}}
	seen := map[string]bool{string(hub): true}
	for tries := 0; len(items) < n && tries < 50*n; tries++ {
		v := c13Mutate(rng, hub, false)
		if seen[string(v)] {
			continue
		}
		seen[string(v)] = true
		items = append(items, c13Item{v, 1 + rng.Intn(3)})
	}
	return items
}

// c13Subst : s with the symbol at position p replaced by another one of acgt
func c13Subst(rng *rand.Rand, s []byte, p int) []byte {
	t := append([]byte{}, s...)
	for {
		c := c13Alpha[rng.Intn(4)]
		if c != t[p] {
			t[p] = c
			return t
		}
	}
}

// c13Boundary : a hub and k variants whose weight ratio to the hub is EXACTLY (p/q)^d when delta = 0 (the edge is
// kept: `<=`), just above / below it for delta = -1 / +1 on the hub count. d = 1: k sons at one substitution, count
// c = p*m each, hub count m*(q - k*p) (+ delta): weights c and m*q. d > 1: one son at d substitutions, c = p^d * m,
// hub q^d * m (the second phase moves no weight). ok = false when the ratio has no such configuration.
func c13Boundary(rng *rand.Rand, p, q, d, delta int) (items []c13Item, ok bool) {
	if p <= 0 || p >= q {
		return nil, false
	}
	length := 8 + rng.Intn(14)
	hub := make([]byte, length)
	for i := range hub {
		hub[i] = c13Alpha[rng.Intn(4)] // no forced runs: d substitutions stay d differences
	}
	m := 1 + rng.Intn(4)
	if d <= 1 {
		kmax := (q - p - 1) / p // k*p + p < q
		if kmax < 1 {
			return nil, false
		}
		if kmax > 5 {
			kmax = 5
		}
		k := 1 + rng.Intn(kmax)
		c := p * m
		hc := m*(q-k*p) + delta
		if hc <= c {
			return nil, false
		}
		items = append(items, c13Item{hub, hc})
		for _, pos := range rng.Perm(length)[:k] {
			items = append(items, c13Item{c13Subst(rng, hub, pos), c})
		}
	} else {
		c, hc := c13Pow(p, d)*m, c13Pow(q, d)*m+delta
		if hc <= c || hc > 1<<28 {
			return nil, false
		}
		son := hub
		for _, pos := range rng.Perm(length / 2)[:d] {
			son = c13Subst(rng, son, 2*pos) // never two adjacent positions
		}
		items = append(items, c13Item{hub, hc}, c13Item{son, c})
	}
	rng.Shuffle(len(items), func(i, j int) { items[i], items[j] = items[j], items[i] })
	return items, true
}

// c13Ends : a hub and its variants by one (d > 1: also two) indels / substitutions at the FIRST and LAST positions
func c13Ends(rng *rand.Rand, d int) []c13Item {
	n := 5 + rng.Intn(16)
	hub := c13RandSeq(rng, n)
	x := func() byte { return c13Alpha[rng.Intn(4)] }
	cat := func(parts ...[]byte) []byte {
		var t []byte
		for _, p := range parts {
			t = append(t, p...)
		}
		return t
	}
	vs := [][]byte{hub[1:], hub[:n-1], cat([]byte{x()}, hub), cat(hub, []byte{x()}), c13Subst(rng, hub, 0), c13Subst(rng, hub, n-1)}
	if d > 1 {
		vs = append(vs, hub[2:], hub[:n-2], hub[1:n-1], cat([]byte{x(), x()}, hub), cat(hub, []byte{x(), x()}),
			cat([]byte{x()}, hub, []byte{x()}), cat([]byte{x()}, hub[:n-1]), cat(hub[1:], []byte{x()}),
			c13Subst(rng, c13Subst(rng, hub, 0), n-1), c13Subst(rng, hub[1:], n-2))
	}
	hc := 5 + rng.Intn(200)
	ties := rng.Intn(3) == 0
	items := []c13Item{{hub, hc}}
	seen := map[string]bool{string(hub): true}
	for _, v := range vs {
		if seen[string(v)] && rng.Intn(4) != 0 {
			continue
		}
		seen[string(v)] = true
		c := 1 + rng.Intn(hc)
		if ties {
			c = 1 + rng.Intn(2)
		}
		items = append(items, c13Item{append([]byte{}, v...), c})
	}
	rng.Shuffle(len(items), func(i, j int) { items[i], items[j] = items[j], items[i] })
	return items
}

// c13Ties : every count equal (or two values only): no distance-one edge between equals, but the second phase
// (--distance > 1) does not look at the counts, so its edges follow the STABLE order of the sort
func c13Ties(rng *rand.Rand, n int) []c13Item {
	items := c13Sample(rng, n, false)
	c := 1 + rng.Intn(3)
	two := rng.Intn(3) == 0
	for i := range items {
		items[i].count = c
		if two && rng.Intn(3) == 0 {
			items[i].count = c + 1
		}
	}
	return items
}

// c13Multi : the items spread over nsamp samples sharing sequences (op `a`, or `c` = the real CLIOBIClean with
// --head = head): in the first sample an item keeps its count, elsewhere a small one (ties) or the same
func c13Multi(rng *rand.Rand, op string, w, d int, r [2]int, head bool, items []c13Item, nsamp int) string {
	var sb strings.Builder
	fmt.Fprintf(&sb, "%s %d %d %d %d", op, w, d, r[0], r[1])
	if op == "c" {
		h := 0
		if head {
			h = 1
		}
		fmt.Fprintf(&sb, " %d", h)
	}
	mode := rng.Intn(3)
	for _, it := range items {
		fmt.Fprintf(&sb, " %s/", hx(it.seq))
		first := true
		for s := 0; s < nsamp; s++ {
			if rng.Intn(3) != 0 || (s == nsamp-1 && first) {
				if !first {
					sb.WriteByte(',')
				}
				c := it.count
				if s > 0 {
					switch mode {
					case 0:
						c = 1 + rng.Intn(30)
					case 1:
						c = 1 + rng.Intn(3)
					}
				}
				fmt.Fprintf(&sb, "%c=%d", 'a'+s, c)
				first = false
			}
		}
	}
	return sb.String()
}

// c13BoundaryMulti : the three hub counts (boundary - 1, boundary, boundary + 1) as three samples of one data set
func c13BoundaryMulti(rng *rand.Rand, w, p, q, d int, head bool) (string, bool) {
	seed := rng.Int63()
	var sets [3][]c13Item
	for k, delta := range []int{-1, 0, 1} {
		it, ok := c13Boundary(rand.New(rand.NewSource(seed)), p, q, d, delta)
		if !ok {
			return "", false
		}
		sets[k] = it
	}
	var sb strings.Builder
	h := 0
	if head {
		h = 1
	}
	fmt.Fprintf(&sb, "c %d %d %d %d %d", w, d, p, q, h)
	for i := range sets[0] {
		fmt.Fprintf(&sb, " %s/a=%d,b=%d,c=%d", hx(sets[0][i].seq), sets[0][i].count, sets[1][i].count, sets[2][i].count)
	}
	return sb.String(), true
}

var c13Ratios = [][2]int{{1, 1}, {1, 1}, {1, 2}, {1, 10}, {5, 100}, {1, 4}, {1, 3}, {2, 3}, {1, 1000}, {0, 1}, {2, 1}, {99, 100}}
var c13Dyadic = [][2]int{{1, 1}, {1, 2}, {1, 4}, {3, 4}, {1, 16}, {1, 64}}

func c13Line(op string, w, d int, r [2]int, items []c13Item) string {
	var sb strings.Builder
	fmt.Fprintf(&sb, "%s %d %d %d %d", op, w, d, r[0], r[1])
	for _, it := range items {
		fmt.Fprintf(&sb, " %d:%s", it.count, hx(it.seq))
	}
	return sb.String()
}

// c13Big : a data set of nrec records (more than one batch of 1000) spread over 26 samples: each record belongs to the
// sample it was generated for and, one time in five, to a second one; op `c` (the real CLIOBIClean)
func c13Big(rng *rand.Rand, nrec int, head bool, w, d int, r [2]int) string {
	var sb strings.Builder
	h := 0
	if head {
		h = 1
	}
	fmt.Fprintf(&sb, "c %d %d %d %d %d", w, d, r[0], r[1], h)
	n := 0
	for n < nrec {
		samp := rng.Intn(26)
		items := c13Sample(rng, 8+rng.Intn(12), false)
		for _, it := range items {
			if n >= nrec {
				break
			}
			fmt.Fprintf(&sb, " %s/%c=%d", hx(it.seq), 'a'+samp, it.count)
			if rng.Intn(5) == 0 {
				o := (samp + 1 + rng.Intn(25)) % 26
				fmt.Fprintf(&sb, ",%c=%d", 'a'+o, 1+rng.Intn(4))
			}
			n++
		}
	}
	return sb.String()
}

func (c13) Gen(rng *rand.Rand, tier string, emit func(string)) {
	c13Tier = tier
	// corpus. First line: the star on which the unsynchronised `father.SonCount++` (D13) loses updates.
	emit("fact soncount")
	star := c13Contention(rand.New(rand.NewSource(13)), 120)
	emit(c13Line("g", 16, 1, [2]int{1, 1}, star))
	emit(c13Line("g", 32, 1, [2]int{1, 2}, star))
	for _, c := range []string{
		"g 1 1 1 1",
		"g 4 1 1 1 5:61636774",
		"g 4 1 1 1 5:61636774 1:61636761",                                      // acgt <- acga : substitution at the end
		"g 4 1 1 1 1:61636761 5:61636774",                                      // same, other input order
		"g 2 1 1 1 5:61616274 1:616274",                                        // aabt <- abt : deletion inside a run
		"g 2 1 1 1 5:616274 1:61616274",                                        // insertion inside a run
		"g 2 1 1 1 5:61636774 5:61636761",                                      // tie: no edge
		"g 2 1 1 1 5:61636774 2:61636774",                                      // identical sequences: no edge
		"g 3 1 1 1 9:61636774 3:61636761 1:61636361",                           // chain t<-a<-(g->c)
		"g 3 1 1 2 9:61636774 3:61636761 1:61636361",                           // ratio 1/2
		"g 3 1 1 10 90:61636774 3:61636761 1:61636361",                         // ratio 1/10
		"g 3 1 0 1 9:61636774 3:61636761",                                      // ratio 0: every edge removed
		"g 3 1 1 1 10:61636774 10:61636775 4:61636776 1:61636777",              // two fathers with equal counts, rounding .5
		"g 3 1 1 1 3:61636774 2:61636775 1:61636776",                           // weights split in thirds
		"g 8 2 1 1 9:6163677461 3:6163676161 1:6163636361 2:7474747474",        // distance 2
		"g 8 2 1 2 9:6163677461 3:6163676161 1:6163636361 1:6163636363 2:74",   // distance 2, dyadic ratio
		"g 8 3 1 4 9:6163677461 3:6163676161 1:6163636361 1:6163636363 2:6e6e", // distance 3, n matches everything in the LCS kernel
		"g 2 0 1 1 9:61636774 3:61636761",                                      // --distance 0
		"a 4 1 1 1 61636774/a=5,b=1 61636761/a=1,b=5 61636361/b=2",
		"a 4 1 1 2 61636774/a=5 61636761/a=1,c=1 63/c=7",
		"a 2 2 1 1 6163677461/a=9,b=1 6163676161/a=3,b=1 6163636361/a=1,b=1",
		"g 4 1 1 3 2:61636774 1:61636761",                                            // ratio boundary: 1/(2+1) = 1/3 exactly: kept (<=)
		// round 3, float frontier: 7/10 at distance 2 on the exact boundary 49/100: math.Pow(0.7, 2) = 0.48999999999999994 < 49/100
		"f 2 2 7 10 100:6163677461636774 49:6163677461636161",
		"f 2 2 1 10 100:6163677461636774 1:6163677461636161", // 1/10 at distance 2, boundary 1/100: kept by both
		"f 2 1 1 1 1073741824:61636774 1073741823:61636761 1073741822:61636763", // w*c = 2^60: float64(w)*float64(c) is rounded
		"x 3 1 1 1 0 0 sample 61636774/a=9,b=1 61636761/a=3,b=5 61636361/a=1 61636363/b~2 7474/~4",
		"x 2 1 1 2 1 2 pcr 61636774/a=9,b=1 61636761/a=3,b=5 61636361/a=1 61636363/b~2 7474/~4 7474/a=1,c=8 7475/c=1",
		"g 4 1 1 3 3:61636774 1:61636761",                                            // 1/4 < 1/3: kept
		"g 4 1 2 7 3:61636774 1:61636761",                                            // 1/4 <= 2/7: kept
		"g 4 1 1 4 2:61636774 1:61636761",                                            // 1/3 > 1/4: removed, the hub becomes a singleton
		"g 4 2 1 2 4:6163677461 1:6167677761",                                        // distance 2, 1/4 = (1/2)^2 exactly: kept
		"g 4 2 1 2 3:6163677461 1:6167677761",                                        // 1/3 > 1/4: removed
		"g 4 3 3 4 64:616367746163 27:636367676167",                                  // distance 3, 27/64 = (3/4)^3 exactly
		"g 4 3 3 4 63:616367746163 27:636367676167",                                  // just above
		"g 4 2 1 1 1:6163677461 1:6167677761 1:6163677761",                           // all counts equal, distance 2: edges follow the input order
		"g 4 2 1 1 1:6163677761 1:6167677761 1:6163677461",                           // same sequences, other input order
		"g 4 1 1 1 5:6163677461 1:63677461 1:61636774 1:746163677461 1:616367746174", // indels at the first / last position
		"g 4 2 1 1 5:6163677461 1:677461 1:616367 1:636774 1:74746163677461",         // two indels at the ends
		"c 4 1 1 1 1 61636774/a=5,b=1 61636761/a=1,b=5 61636361/b=2",                 // --head through the real CLIOBIClean
		"c 4 1 1 1 0 61636774/a=5,b=1 61636761/a=1,b=5 61636361/b=2",
		"c 3 2 1 2 1 6163677461/a=9,b=1 6163676161/a=3,b=1 6163636361/a=1,b=1",
		"c 2 1 1 1 1 61636774/a=5 61636761/a=1",
		"c 2 1 0 1 1 61636774/a=5 61636761/a=1", // ratio 0: both singletons, both written
		"c 2 1 1 1 1",
	} {
		emit(c)
	}
	// data sets of several batches of 1000 records (annotateOBIClean: IBatchOver / MakeISliceWorker / FilterOn(IsHead)),
	// with and without --head; 26 samples of moderate size
	bigs := [][2]int{{1100, 0}, {1250, 1}}
	if tier == "thorough" {
		bigs = [][2]int{{2300, 0}, {2600, 1}, {1001, 1}, {2000, 0}}
	}
	for _, b := range bigs {
		emit(c13Big(rng, b[0], b[1] == 1, 2+rng.Intn(31), 1, c13Ratios[rng.Intn(len(c13Ratios))]))
	}
	ncase, nstar, maxN := 400, 10, 40
	if tier == "thorough" {
		ncase, nstar, maxN = 300, 10, 60
	}
	workers := func() int {
		if rng.Intn(3) == 0 {
			return []int{1, 2, 16, 32}[rng.Intn(4)]
		}
		return 1 + rng.Intn(32)
	}
	for i := 0; i < nstar; i++ {
		items := c13Contention(rng, 40+rng.Intn(160))
		emit(c13Line("g", 8+rng.Intn(25), 1, c13Ratios[rng.Intn(len(c13Ratios))], items))
	}
	for i := 0; i < ncase; i++ {
		d := 1
		r := c13Ratios[rng.Intn(len(c13Ratios))]
		k := rng.Intn(10)
		if k == 0 {
			d = 2 + rng.Intn(2)
			r = c13Dyadic[rng.Intn(len(c13Dyadic))]
		} else if k == 1 && rng.Intn(4) == 0 {
			d = 0
		}
		n := maxN
		if rng.Intn(3) == 0 {
			n = 2 + rng.Intn(8)
		}
		if d > 1 {
			n = 2 + rng.Intn(14)
		}
		items := c13Sample(rng, n, d > 1)
		if rng.Intn(8) == 0 {
			// several samples sharing sequences
			var sb strings.Builder
			fmt.Fprintf(&sb, "a %d %d %d %d", workers(), d, r[0], r[1])
			if len(items) > 16 {
				items = items[:16]
			}
			for _, it := range items {
				fmt.Fprintf(&sb, " %s/", hx(it.seq))
				first := true
				for s := 0; s < 3; s++ {
					if rng.Intn(2) == 0 || (s == 2 && first) {
						if !first {
							sb.WriteByte(',')
						}
						c := it.count
						if s > 0 {
							c = 1 + rng.Intn(30)
						}
						fmt.Fprintf(&sb, "%c=%d", 'a'+s, c)
						first = false
					}
				}
			}
			emit(sb.String())
			continue
		}
		emit(c13Line("g", workers(), d, r, items))
	}
	// round 3: the float frontier (op f) and every option of the command with its side outputs (op x)
	c13GenFrontier(rng, tier, emit)
	c13GenX(rng, tier, emit)
	// deepening round: ratio boundaries, ends, ties, --distance 2 / 3, data sets of several samples, the real CLI
	nb, ne, nt, nm := 60, 40, 40, 80
	if tier == "thorough" {
		nb, ne, nt, nm = 60, 40, 40, 100
	}
	pqs := [][2]int{{1, 3}, {1, 4}, {1, 10}, {5, 100}, {2, 7}, {1, 1000}, {3, 10}}
	for i := 0; i < nb; i++ {
		d := 1 + rng.Intn(3)
		r := pqs[rng.Intn(len(pqs))]
		if d > 1 {
			r = [][2]int{{1, 2}, {1, 4}, {3, 4}, {1, 16}}[rng.Intn(4)]
		}
		if rng.Intn(3) == 0 {
			if l, ok := c13BoundaryMulti(rng, workers(), r[0], r[1], d, rng.Intn(2) == 0); ok {
				stat("gen:boundary-multi")
				emit(l)
			}
			continue
		}
		delta := rng.Intn(3) - 1
		if items, ok := c13Boundary(rng, r[0], r[1], d, delta); ok {
			stat(fmt.Sprintf("gen:boundary%+d", delta))
			emit(c13Line("g", workers(), d, r, items))
		}
	}
	for i := 0; i < ne; i++ {
		d := 1 + rng.Intn(3)
		r := c13Dyadic[rng.Intn(len(c13Dyadic))]
		if d == 1 {
			r = c13Ratios[rng.Intn(len(c13Ratios))]
		}
		stat("gen:ends")
		if rng.Intn(4) == 0 {
			emit(c13Multi(rng, "c", workers(), d, r, rng.Intn(2) == 0, c13Ends(rng, d), 2+rng.Intn(2)))
		} else {
			emit(c13Line("g", workers(), d, r, c13Ends(rng, d)))
		}
	}
	for i := 0; i < nt; i++ {
		d := 1 + rng.Intn(3)
		r := c13Dyadic[rng.Intn(len(c13Dyadic))]
		n := 3 + rng.Intn(14)
		if d == 1 {
			n = 3 + rng.Intn(maxN)
		}
		stat("gen:ties")
		emit(c13Line("g", workers(), d, r, c13Ties(rng, n)))
	}
	for i := 0; i < nm; i++ {
		d := 1
		r := c13Ratios[rng.Intn(len(c13Ratios))]
		n := 2 + rng.Intn(maxN)
		if rng.Intn(3) == 0 {
			d = 2 + rng.Intn(2)
			r = c13Dyadic[rng.Intn(len(c13Dyadic))]
			n = 2 + rng.Intn(14)
		}
		op := "c"
		if rng.Intn(4) == 0 {
			op = "a"
		}
		stat("gen:multi-" + op)
		emit(c13Multi(rng, op, workers(), d, r, rng.Intn(2) == 0, c13Sample(rng, n, d > 1 && rng.Intn(2) == 0), 2+rng.Intn(4)))
	}
	if tier == "thorough" && c13FirstSeed() {
		emit("race c 6 2 1 2 1 6163677461/a=9,b=1 6163676161/a=3,b=1 6163636361/a=1,b=1 6163636363/a=1,b=4")
		emit("race " + c13Line("g", 16, 1, [2]int{1, 1}, star))
		emit("race " + c13Line("g", 8, 2, [2]int{1, 2}, c13Sample(rand.New(rand.NewSource(14)), 14, true)))
		emit("race a 4 1 1 1 61636774/a=5,b=1 61636761/a=1,b=5 61636361/b=2")
	}
}

// c13FirstSeed : of the parallel thorough processes (seeds s*1000+i) only the first replays under the race detector
func c13FirstSeed() bool {
	for i, a := range os.Args {
		if a == "-seed" && i+1 < len(os.Args) {
			s, err := strconv.Atoi(os.Args[i+1])
			return err == nil && s%1000 == 0
		}
	}
	return false
}

// c13Race (op `race <case line>`, thorough tier): build this harness with the Go race detector (once per
// process; the go build cache makes later builds cheap) and replay the inner case through it. The result is the
// result of the inner case as computed by the race-built binary; any report of the detector is the oracle failure
// `race.detector`. When the race build is not possible the inner case is executed in-process (stat race:unavailable).
var (
	c13RaceBin   string
	c13RaceTried bool
)

func c13RaceBuild() string {
	if c13RaceTried {
		return c13RaceBin
	}
	c13RaceTried = true
	root := os.Getenv("VERIF_ROOT")
	if root == "" {
		root = "/verif"
	}
	bin := filepath.Join(binDir(), "harness_C13_race")
	build := exec.Command("go", "build", "-race", "-tags", "verif,c13", "-o", bin, ".")
	build.Dir = filepath.Join(root, "harness")
	build.Env = append(os.Environ(), "GOWORK=off", "GOFLAGS=-mod=mod", "GOPROXY=off", "GOSUMDB=off", "GOTOOLCHAIN=local", "CGO_CFLAGS=-w -O2 -g")
	if _, err := build.CombinedOutput(); err != nil {
		stat("race-build:failed")
		return ""
	}
	stat("race-build:ok")
	c13RaceBin = bin
	return bin
}

func c13Race(inner string) (string, []Fail) {
	if os.Getenv("VERIF_C13_SINGLE") != "" { // we ARE the race-built binary
		return c13{}.Exec(inner)
	}
	bin := c13RaceBuild()
	if bin == "" {
		stat("race:unavailable")
		return c13{}.Exec(inner)
	}
	cmd := exec.Command(bin, "C13", "exec")
	cmd.Stdin = strings.NewReader(inner + "\n")
	cmd.Env = append(os.Environ(), "VERIF_C13_SINGLE=1", "GORACE=halt_on_error=0")
	var stdout, stderr bytes.Buffer
	cmd.Stderr = &stderr
	cmd.Stdout = &stdout
	_ = cmd.Run()
	res := "race-replay-failed"
	var fails []Fail
	for _, l := range strings.Split(stdout.String(), "\n") {
		f := strings.Split(l, "\t")
		if f[0] == "C" && len(f) >= 3 {
			res = f[2]
		}
		if f[0] == "F" && len(f) >= 4 {
			fails = append(fails, Fail{f[1], f[3]})
		}
	}
	stat("race-replay:done")
	// a report concerns this property when one of the two racing ACCESSES (not the goroutine creation stacks)
	// has a frame in the anchored packages; races elsewhere (e.g. the debug counter of the obiiter pipe registry)
	// are only counted
	ours, other := 0, 0
	var where []string
	for _, block := range strings.Split(stderr.String(), "==================") {
		if !strings.Contains(block, "WARNING: DATA RACE") {
			continue
		}
		inAccess, mine := false, false
		for _, l := range strings.Split(block, "\n") {
			t := strings.TrimSpace(l)
			switch {
			case strings.HasPrefix(t, "Read at"), strings.HasPrefix(t, "Write at"), strings.HasPrefix(t, "Previous read at"),
				strings.HasPrefix(t, "Previous write at"), strings.HasPrefix(t, "Atomic"), strings.HasPrefix(t, "Previous atomic"):
				inAccess = true
			case strings.HasPrefix(t, "Goroutine "):
				inAccess = false
			case inAccess && strings.Contains(t, ".go:"):
				inAccess = false // only the innermost frame of the access: where the racing read / write IS
				if strings.Contains(t, "verif_hooks") ||
					!(strings.Contains(t, "/pkg/obitools/obiclean/") || strings.Contains(t, "/pkg/obialign/")) {
					continue
				}
				mine = true
				loc := t[strings.LastIndex(t, "/pkg/")+1:]
				if k := strings.IndexByte(loc, ' '); k > 0 {
					loc = loc[:k]
				}
				dup := false
				for _, w := range where {
					dup = dup || w == loc
				}
				if !dup && len(where) < 4 {
					where = append(where, loc)
				}
			}
		}
		if mine {
			ours++
		} else {
			other++
		}
	}
	if other > 0 {
		stat("race-replay:race-in-other-package")
	}
	if ours > 0 {
		fails = append(fails, Fail{"race.detector", fmt.Sprintf("the Go race detector reports %d data race(s) in the graph construction (at %s)", ours, strings.Join(where, ", "))})
		stat("race-replay:DATA-RACE")
	}
	return res, fails
}
