//go:build c04

package main

// The glue between the commands and the writers, seen from the batches (Model/WriterPeek.lean, Props/C04G.lean):
//
//	glue ent=<ws|wsf|cli> fo=<auto|fasta|fastq|json> to=<sink|file|stdout> hd=<json|obi> w=<workers> z=<0|1> se=<0|1>
//	     p=<0|1> pl=<n> f=<flavour> <order>:<n>:<q>:<keep>[:e] …
//
// The chunks are the batches of the SOURCE in the order it pushes them: n records, with qualities iff q=1.  A
// one-to-many worker (the PCR / demultiplexer / filtering annotation of a command) then keeps of every batch: a = all
// records, n = none (the batch goes on EMPTY under its number), h = the records of odd rank, d = every record twice (the
// copy under <id>_b); `:e` = the first record kept has an empty sequence.  pl=0: the batches are pushed as the worker
// would leave them (forced order); pl>0: the records go through a real MakeISliceWorker stage of pl goroutines running
// that worker and a recording relay tells in which order the batches came out.
// ent=ws : obiformats.WriteSequence over an in-memory sink (closes counted);
// ent=wsf: obiformats.WriteSequencesToFile (p=1: with WritePairedReadsTo);
// ent=cli: obiconvert.CLIWriteBioSequences under a command line parsed by the real option parser, in a child process
//          (to=stdout: os.Stdout is a regular file there); fo = --fasta-output / --fastq-output / --json-output / none,
//          hd=obi = --output-OBI-header, z = --compress, se = --skip-empty, w = --max-cpu 4w, p=1 = a paired iterator.
// The oracle is independent of the glue: the records the worker keeps, batch by batch in batch number order, must be
// read back from the file (line readers / encoding/json), in the format of the option or — guessed — read on the first
// batch that came out; the mates at the same positions of the second file; a writer that was started closed its output
// exactly once.

import (
	"bytes"
	"encoding/json"
	"fmt"
	"math/rand"
	"os"
	"path/filepath"
	"runtime"
	"strconv"
	"strings"
	"sync"
	"time"

	"git.metabarcoding.org/obitools/obitools4/obitools4/pkg/obiformats"
	"git.metabarcoding.org/obitools/obitools4/obitools4/pkg/obiiter"
	"git.metabarcoding.org/obitools/obitools4/obitools4/pkg/obioptions"
	"git.metabarcoding.org/obitools/obitools4/obitools4/pkg/obiseq"
	"git.metabarcoding.org/obitools/obitools4/obitools4/pkg/obitools/obiconvert"
)

type c04gChunk struct {
	order, n, q int
	keep        byte
	e           bool
}

type c04gCase struct {
	ent, fo, to, hd string
	w, pl, flavour  int
	z, se, paired   bool
	chunks          []c04gChunk
}

func c04gParse(line string) (*c04gCase, bool) {
	f := strings.Fields(line)
	if len(f) < 1 || f[0] != "glue" {
		return nil, false
	}
	c := &c04gCase{ent: "ws", fo: "auto", to: "sink", hd: "json", w: 1}
	for _, t := range f[1:] {
		if t == "|" {
			break
		}
		if i := strings.IndexByte(t, '='); i > 0 {
			k, v := t[:i], t[i+1:]
			n, _ := strconv.Atoi(v)
			switch k {
			case "ent":
				c.ent = v
			case "fo":
				c.fo = v
			case "to":
				c.to = v
			case "hd":
				c.hd = v
			case "w":
				c.w = n
			case "pl":
				c.pl = n
			case "f":
				c.flavour = n
			case "z":
				c.z = v == "1"
			case "se":
				c.se = v == "1"
			case "p":
				c.paired = v == "1"
			default:
				return nil, false
			}
			continue
		}
		q := strings.Split(t, ":")
		if len(q) < 4 || len(q[3]) != 1 {
			return nil, false
		}
		o, e1 := strconv.Atoi(q[0])
		n, e2 := strconv.Atoi(q[1])
		qq, e3 := strconv.Atoi(q[2])
		if e1 != nil || e2 != nil || e3 != nil || o < 0 || n < 0 || n > 5000 || !strings.Contains("anhd", q[3]) {
			return nil, false
		}
		c.chunks = append(c.chunks, c04gChunk{order: o, n: n, q: qq, keep: q[3][0], e: len(q) > 4 && q[4] == "e"})
	}
	ok := (c.ent == "ws" && c.to == "sink" && !c.paired) ||
		(c.ent == "wsf" && c.to == "file") ||
		(c.ent == "cli" && (c.to == "file" || c.to == "stdout"))
	for _, f := range strings.Split(c.fo, "+") {
		ok = ok && strings.Contains(" auto fasta fastq json ", " "+f+" ") && (f != "auto" || c.fo == "auto")
	}
	ok = ok && (c.hd == "json" || c.hd == "obi") &&
		c.w >= 1 && c.w <= 16 && c.pl >= 0 && c.pl <= 32 && c.flavour >= 0 && c.flavour <= 2 &&
		!(c.hd == "obi" && c.flavour > 1) &&
		!(c.ent == "wsf" && c.paired && c.se) && // (API level: skip-empty would reach both files; no caller does that, Props/C04 paired_skip_empty_out_of_step)
		!(c.paired && c.fo == "auto" && c.w > 1 && c.to == "file") && // the delivery order at the second writer must be known
		(c.ent == "cli" || c.fo == "auto")
	// the batch numbers are 0..n-1, each once
	seen := map[int]bool{}
	for _, ch := range c.chunks {
		if ch.order >= len(c.chunks) || seen[ch.order] {
			ok = false
		}
		seen[ch.order] = true
	}
	return c, ok
}

func (c *c04gCase) header() obiformats.FormatHeader {
	if c.hd == "obi" {
		return obiformats.FormatFastSeqOBIHeader
	}
	return obiformats.FormatFastSeqJsonHeader
}

// format: the format asked for on the command line ("auto": none) — independent statement of the priority of the three
// format options: --fastq-output, then --fasta-output, then --json-output
func (c *c04gCase) format() string {
	for _, f := range []string{"fastq", "fasta", "json"} {
		for _, g := range strings.Split(c.fo, "+") {
			if f == g {
				return f
			}
		}
	}
	return "auto"
}

// secondFile: the command / WriteSequencesToFile writes the file of the mates
func (c *c04gCase) secondFile() bool { return c.paired && c.to == "file" }

// skipEff: the value of skip-empty that reaches the formatters (independent statement of the rule of the command)
func (c *c04gCase) skipEff() bool { return c.se && !(c.ent == "cli" && c.secondFile()) }

// in / out: the records of a batch before and after the worker, and the mates of the latter
func (c *c04gCase) in(ch c04gChunk) []c04rec {
	rs := make([]c04rec, ch.n)
	for j := range rs {
		rs[j] = c04Record(ch.order, j, 0, c.flavour, ch.q == 1)
	}
	return rs
}

func c04gMate(c *c04gCase, ch c04gChunk, j int, id string) c04rec {
	m := c04Record(ch.order+1000, j, 0, c.flavour, ch.q == 1)
	m.id = id
	return m
}

func (c *c04gCase) out(ch c04gChunk) (recs, mates []c04rec) {
	first := true
	for j, r := range c.in(ch) {
		if ch.keep == 'n' || (ch.keep == 'h' && j%2 == 0) {
			continue
		}
		if first && ch.e {
			r = c04Record(ch.order, j, -1, c.flavour, ch.q == 1)
		}
		first = false
		recs = append(recs, r)
		mates = append(mates, c04gMate(c, ch, j, r.id))
		if ch.keep == 'd' {
			d := r
			d.id = r.id + "_b"
			recs = append(recs, d)
			mates = append(mates, c04gMate(c, ch, j, d.id))
		}
	}
	return
}

func c04gBatch(order int, rs, mates []c04rec, paired bool) obiiter.BioSequenceBatch {
	sl := obiseq.MakeBioSequenceSlice()
	for j, r := range rs {
		s := r.build()
		if paired {
			s.PairTo(mates[j].build())
		}
		sl = append(sl, s)
	}
	return obiiter.MakeBioSequenceBatch("src", order, sl)
}

func (c *c04gCase) describe(order int, rs []c04rec) string {
	var sb strings.Builder
	fmt.Fprintf(&sb, "%d:", order)
	hf := c.header()
	for j, rc := range rs {
		if j > 0 {
			sb.WriteByte(';')
		}
		q := "~"
		if len(rc.qual) > 0 {
			q = hx(rc.qual)
		}
		info := hf(rc.build())
		sb.WriteString(hx([]byte(rc.id)) + "," + hx(rc.seq) + "," + q + "," + hx([]byte(info)) + ",")
		c04val{kind: 'm', m: rc.ann}.enc(&sb)
	}
	return sb.String()
}

// source builds the iterator handed to the writer entry point and returns the function that tells, once the stream
// has been consumed, in which order the batches came out of it
func (c *c04gCase) source() (obiiter.IBioSequence, func() []int) {
	it := obiiter.MakeIBioSequence()
	it.Add(1)
	if c.paired {
		it.MarkAsPaired()
	}
	if c.pl == 0 {
		go func() {
			for _, ch := range c.chunks {
				rs, ms := c.out(ch)
				it.Push(c04gBatch(ch.order, rs, ms, c.paired))
			}
			it.Done()
		}()
		go it.WaitAndClose()
		return it, func() []int {
			src := make([]int, len(c.chunks))
			for i, ch := range c.chunks {
				src[i] = ch.order
			}
			return src
		}
	}
	// the one-to-many worker of a command, run by a real stage of pl goroutines
	byID := map[string]c04gChunk{}
	for _, ch := range c.chunks {
		for _, r := range c.in(ch) {
			byID[r.id] = ch
		}
	}
	worker := func(sl obiseq.BioSequenceSlice) (obiseq.BioSequenceSlice, error) {
		res := obiseq.MakeBioSequenceSlice()
		if len(sl) == 0 {
			return res, nil
		}
		ch := byID[sl[0].Id()]
		for i := (ch.order * 7) % 5; i > 0; i-- {
			runtime.Gosched()
		}
		if ch.order%3 == 0 {
			time.Sleep(time.Duration(30+ch.order%5*40) * time.Microsecond)
		}
		rs, ms := c.out(ch)
		for j, r := range rs {
			s := r.build()
			if c.paired {
				s.PairTo(ms[j].build())
			}
			res = append(res, s)
		}
		return res, nil
	}
	go func() {
		for _, ch := range c.chunks {
			it.Push(c04gBatch(ch.order, c.in(ch), nil, false))
		}
		it.Done()
	}()
	go it.WaitAndClose()
	st := it.MakeISliceWorker(worker, false, c.pl)
	relay := obiiter.MakeIBioSequence()
	relay.Add(1)
	if c.paired {
		relay.MarkAsPaired()
	}
	var mu sync.Mutex
	var src []int
	go func() {
		for st.Next() {
			b := st.Get()
			mu.Lock()
			src = append(src, b.Order())
			mu.Unlock()
			relay.Push(b)
		}
		relay.Done()
	}()
	go relay.WaitAndClose()
	return relay, func() []int {
		mu.Lock()
		defer mu.Unlock()
		return append([]int{}, src...)
	}
}

func (c *c04gCase) wopts() []obiformats.WithOption {
	return []obiformats.WithOption{obiformats.OptionsFastSeqHeaderFormat(c.header()), obiformats.OptionsParallelWorkers(c.w),
		obiformats.OptionsCompressed(c.z), obiformats.OptionsSkipEmptySequence(c.se)}
}

var c04gStale = bytes.Repeat([]byte(">stale record of a previous run\nacgt\n"), 6000)

func c04gSrcStr(src []int) string {
	p := make([]string, len(src))
	for i, o := range src {
		p[i] = strconv.Itoa(o)
	}
	if len(p) == 0 {
		return "~"
	}
	return strings.Join(p, ",")
}

// c04gUnz: the content of an output written with compression; a file of 0 bytes (no writer was started) is empty
func c04gUnz(c *c04gCase, raw []byte) ([]byte, bool) {
	if !c.z || len(raw) == 0 {
		return raw, true
	}
	b, err := c04gunzip(raw)
	return b, err == nil
}

// run executes the case in this process; the result carries ` src=<orders>` (stripped by Exec)
func (c *c04gCase) run() string {
	return guardT(30*time.Second, func() string {
		it, order := c.source()
		var raw, raw2 []byte
		closes := ""
		switch c.ent {
		case "ws":
			out := &sink{}
			ni, err := obiformats.WriteSequence(it, out, append(c.wopts(), obiformats.OptionCloseFile())...)
			if err != nil {
				return "err"
			}
			for ni.Next() {
			}
			obiiter.WaitForLastPipe()
			out.mu.Lock()
			raw = append([]byte{}, out.buf.Bytes()...)
			closes = fmt.Sprintf("closes=%d", out.closes)
			if out.afterClose > 0 {
				closes += " write-after-close"
			}
			out.mu.Unlock()
		case "wsf":
			dir, e := os.MkdirTemp("", "c04g")
			if e != nil {
				return "tmp-err"
			}
			defer os.RemoveAll(dir)
			f1, f2 := filepath.Join(dir, "fwd"), filepath.Join(dir, "rev")
			os.WriteFile(f1, c04gStale, 0644) // the files exist and are longer than the output: they must be truncated
			o := c.wopts()
			if c.paired {
				os.WriteFile(f2, c04gStale, 0644)
				o = append(o, obiformats.WritePairedReadsTo(f2))
			}
			ni, err := obiformats.WriteSequencesToFile(it, f1, o...)
			if err != nil {
				return "err"
			}
			for ni.Next() {
			}
			obiiter.WaitForLastPipe()
			raw, _ = os.ReadFile(f1)
			if c.paired {
				raw2, _ = os.ReadFile(f2)
			}
		case "cli":
			dir, e := os.MkdirTemp("", "c04g")
			if e != nil {
				return "tmp-err"
			}
			defer os.RemoveAll(dir)
			av := []string{"verif", "--max-cpu", strconv.Itoa(4 * c.w)}
			if c.fo != "auto" {
				for _, f := range strings.Split(c.fo, "+") {
					av = append(av, "--"+f+"-output")
				}
			}
			if c.hd == "obi" {
				av = append(av, "--output-OBI-header")
			}
			if c.se {
				av = append(av, "--skip-empty")
			}
			if c.z {
				av = append(av, "--compress")
			}
			name := filepath.Join(dir, "o.seq")
			f1, f2 := name, ""
			if c.to == "file" {
				av = append(av, "--out", name)
				if c.paired {
					f1, f2 = obiconvert.BuildPairedFileNames(name)
					os.WriteFile(f2, c04gStale, 0644)
				}
				os.WriteFile(f1, c04gStale, 0644) // the files exist and are longer than the output: they must be truncated
			}
			obiconvert.VerifResetOptions()
			_, rest := obioptions.GenerateOptionParser(obiconvert.OptionSet)(av)
			if len(rest) != 0 {
				return "rest"
			}
			if obioptions.CLIWriteParallelWorkers() != c.w {
				return fmt.Sprintf("workers=%d", obioptions.CLIWriteParallelWorkers())
			}
			if c.to == "stdout" {
				f, e := os.Create(name)
				if e != nil {
					return "tmp-err"
				}
				saved := os.Stdout
				os.Stdout = f
				_, err := obiconvert.CLIWriteBioSequences(it, true)
				obiiter.WaitForLastPipe()
				os.Stdout = saved
				f.Close() // (already closed by the writer when one was started)
				if err != nil {
					return "err"
				}
			} else {
				if _, err := obiconvert.CLIWriteBioSequences(it, true); err != nil {
					return "err"
				}
				obiiter.WaitForLastPipe()
			}
			raw, _ = os.ReadFile(f1)
			if f2 != "" {
				raw2, _ = os.ReadFile(f2)
			}
		}
		var ok bool
		if raw, ok = c04gUnz(c, raw); !ok {
			return "gunzip-error"
		}
		if raw2, ok = c04gUnz(c, raw2); !ok {
			return "gunzip-error-paired"
		}
		r := "out=" + hx(raw)
		if closes != "" {
			r = closes + " " + r
		}
		if c.secondFile() {
			r += " out2=" + hx(raw2)
		}
		return r + " src=" + c04gSrcStr(order())
	})
}

// c04gRead: identifiers and sequences read back from a file, and the format seen ("" for an empty file)
func c04gRead(out []byte) (kind string, ids, seqs []string) {
	if len(out) == 0 {
		return "", nil, nil
	}
	switch out[0] {
	case '>':
		kind = "fasta"
	case '@':
		kind = "fastq"
	case '[':
		var v []map[string]interface{}
		if err := json.Unmarshal(out, &v); err != nil {
			return "json", []string{"<invalid JSON>"}, []string{""}
		}
		for _, o := range v {
			id, _ := o["id"].(string)
			sq, _ := o["sequence"].(string)
			ids, seqs = append(ids, id), append(seqs, sq)
		}
		return "json", ids, seqs
	default:
		return "?", []string{"<unknown first byte>"}, []string{""}
	}
	ids, seqs = c04readSeqFile(kind, out)
	return
}

func c04gExec(line string) (string, []Fail) {
	c, ok := c04gParse(line)
	if !ok {
		return "bad-op", nil
	}
	if os.Getenv("C04_CHILD") != "" {
		return c.run(), nil
	}
	gen := line
	if i := strings.Index(line, " | "); i >= 0 {
		gen = line[:i]
	}
	stat("glue:" + c.ent + " fo=" + c.fo + " to=" + c.to)
	if c.pl > 0 {
		stat("glue: through a real worker stage")
	}
	if c.w > 1 {
		stat("glue: several formatting workers")
	}
	if c.paired {
		stat("glue: paired iterator")
	}
	if c.z {
		stat("glue: compressed")
	}
	if len(c.chunks) < 2 {
		caseTrivial = true
	}
	// the reference, independent of the glue: what the worker keeps, batch by batch
	nb := len(c.chunks)
	recs, mates := make([][]c04rec, nb), make([][]c04rec, nb)
	anyEmptySeq, anyEmptyBatch := false, false
	for _, ch := range c.chunks {
		recs[ch.order], mates[ch.order] = c.out(ch)
		if len(recs[ch.order]) == 0 {
			anyEmptyBatch = true
		}
		for _, r := range recs[ch.order] {
			anyEmptySeq = anyEmptySeq || len(r.seq) == 0
		}
	}
	if anyEmptyBatch {
		stat("glue: stream with an empty batch")
	}
	var res string
	if c.ent == "cli" || (anyEmptySeq && !c.se) {
		// a child process: the command line is parsed there, and a fatal outcome leaves goroutines behind
		res = c04cmdParent(gen)
	} else {
		res = c.run()
	}
	// the order in which the batches came out of the iterator handed to the glue
	var src []int
	if i := strings.Index(res, " src="); i >= 0 {
		if s := res[i+5:]; s != "~" {
			for _, t := range strings.Split(s, ",") {
				o, _ := strconv.Atoi(t)
				src = append(src, o)
			}
		}
		res = res[:i]
	} else {
		for _, ch := range c.chunks {
			src = append(src, ch.order)
		}
	}
	model, modelMates := make([]string, 0, nb), make([]string, 0, nb)
	for _, o := range src {
		if o < nb {
			model = append(model, c.describe(o, recs[o]))
			if c.secondFile() {
				modelMates = append(modelMates, c.describe(o, mates[o]))
			}
		}
	}
	b2 := map[bool]int{false: 0, true: 1}
	caseOverride = fmt.Sprintf("%s | sh=%d se=%d fo=%s to=%s p=%d C %s", gen, int(obioptions.OutputQualityShift()), b2[c.se], c.fo, c.to,
		b2[c.paired], strings.Join(model, " "))
	if c.secondFile() {
		caseOverride += " P " + strings.Join(modelMates, " ")
	}
	var fails []Fail
	sig := "glue." + c.ent
	fo := c.format()
	seqFmt := fo != "json"
	fatalExpected := seqFmt && anyEmptySeq && !c.skipEff()
	if res == "fatal" {
		if !fatalExpected {
			fails = append(fails, Fail{Sig: sig + ".fatal", Text: "the writer died although no sequence that reaches a formatter is empty (or --skip-empty is in force)"})
		}
		return res, fails
	}
	if !strings.Contains(res, "out=") {
		return res, append(fails, Fail{Sig: sig + ".outcome", Text: "the writer did not complete: " + res})
	}
	if fatalExpected {
		fails = append(fails, Fail{Sig: sig + ".empty-sequence-written", Text: "a sequence is empty, skip-empty does not reach the formatter, and the command completed"})
	}
	var out, out2 []byte
	closes := -1
	for _, t := range strings.Fields(res) {
		switch {
		case strings.HasPrefix(t, "out="):
			out, _ = unhx(t[4:])
		case strings.HasPrefix(t, "out2="):
			out2, _ = unhx(t[5:])
		case strings.HasPrefix(t, "closes="):
			closes, _ = strconv.Atoi(t[7:])
		}
	}
	if len(src) != nb {
		fails = append(fails, Fail{Sig: sig + ".source", Text: fmt.Sprintf("%d batches came out of the source stage instead of %d", len(src), nb)})
		return res, fails
	}
	if closes >= 0 {
		want := 1
		if nb == 0 {
			want = 0
		}
		if closes != want || strings.Contains(res, "write-after-close") {
			fails = append(fails, Fail{Sig: sig + ".close", Text: fmt.Sprintf("the output was closed %d time(s) (write after close: %v), expected %d", closes, strings.Contains(res, "write-after-close"), want)})
		}
	}
	// the format: the option, else read on the first batch that came out
	guess := func(first []c04rec) string {
		if len(first) > 0 && len(first[0].qual) > 0 {
			return "fastq"
		}
		return "fasta"
	}
	check := func(which string, out []byte, byOrder [][]c04rec) {
		var wantIDs, wantSeqs []string
		for _, rs := range byOrder {
			for _, r := range rs {
				if len(r.seq) == 0 && seqFmt {
					continue
				}
				wantIDs, wantSeqs = append(wantIDs, r.id), append(wantSeqs, string(r.seq))
			}
		}
		kind, ids, seqs := c04gRead(out)
		wantKind := fo
		if fo == "auto" && nb > 0 {
			wantKind = guess(byOrder[src[0]])
		}
		if kind != "" && fo != "auto" && kind != wantKind {
			fails = append(fails, Fail{Sig: sig + ".format", Text: which + ": written as " + kind + " although " + wantKind + " was asked for"})
		}
		if kind != "" && fo == "auto" && kind != wantKind {
			fails = append(fails, Fail{Sig: sig + ".format-guess", Text: which + ": written as " + kind + "; the first batch delivered calls for " + wantKind})
		}
		if kind == "fasta" && fo == "auto" {
			for _, rs := range byOrder {
				if len(rs) > 0 && len(rs[0].qual) > 0 {
					stat("glue: observation: reads with qualities written as FASTA (first batch delivered empty or without qualities)")
					break
				}
			}
		}
		if strings.Join(ids, "\x00") != strings.Join(wantIDs, "\x00") || strings.Join(seqs, "\x00") != strings.Join(wantSeqs, "\x00") {
			show := func(l []string) string {
				if len(l) > 6 {
					return fmt.Sprintf("%v… (%d)", l[:6], len(l))
				}
				return fmt.Sprintf("%v", l)
			}
			fails = append(fails, Fail{Sig: sig + ".batches", Text: fmt.Sprintf("%s: %d records read back %s, expected the %d records of batches 0..%d in order %s (delivery order %v)",
				which, len(ids), show(ids), len(wantIDs), nb-1, show(wantIDs), src)})
		}
		if fo == "json" && !bytes.HasPrefix(out, []byte("[")) {
			fails = append(fails, Fail{Sig: sig + ".json-frame", Text: which + ": not a JSON array"})
		}
	}
	check("file 1", out, recs)
	if c.secondFile() {
		check("file 2", out2, mates)
	}
	return res, fails
}

func c04gGen(rng *rand.Rand, tier string, emit func(string)) {
	type g struct {
		ent, fo, to, hd string
		w, pl, fl       int
		z, se, p        bool
	}
	one := func(o g, chunks string) {
		if o.ent == "" {
			o.ent = "ws"
		}
		if o.to == "" {
			o.to = "sink"
		}
		if o.fo == "" {
			o.fo = "auto"
		}
		if o.hd == "" {
			o.hd = "json"
		}
		if o.w == 0 {
			o.w = 1
		}
		if o.p && o.fo == "auto" {
			o.w = 1 // the delivery order at the second writer is that of the first one only with one formatting worker
		}
		if o.hd == "obi" && o.fl > 1 {
			o.fl = 1 // (OBI title lines do not escape the line feeds of the nasty attribute values of flavour 2)
		}
		b2 := map[bool]int{false: 0, true: 1}
		emit(strings.TrimSpace(fmt.Sprintf("glue ent=%s fo=%s to=%s hd=%s w=%d z=%d se=%d p=%d pl=%d f=%d %s", o.ent, o.fo, o.to, o.hd, o.w,
			b2[o.z], b2[o.se], b2[o.p], o.pl, o.fl, chunks)))
	}
	// corpus: the streams on which a wrong peek / push-back / format choice / option forwarding differs from the right one
	streams := []string{
		"",                                   // a result without any batch
		"0:0:0:a",                            // one empty batch
		"0:2:0:n",                            // one batch emptied by the worker
		"0:2:0:a",                            // one batch
		"0:2:1:a",                            // one batch with qualities
		"0:0:0:a 1:2:0:a",                    // leading empty batch (what obipcr gives when the first chunk has no amplicon)
		"0:3:1:n 1:2:1:a",                    // the same with reads: FASTQ data written as FASTA
		"0:0:1:a 1:0:1:a 2:2:1:a 3:1:1:a",    // several leading empty batches
		"1:0:0:a 0:2:0:a 2:1:0:a",            // empty batch 1 delivered first
		"2:2:1:n 0:2:1:a 1:2:1:a",            // empty LAST batch delivered first
		"0:2:0:a 1:2:0:n 2:2:0:a",            // empty batch in the middle
		"0:2:0:a 1:2:0:a 2:2:0:n",            // trailing empty batch
		"0:1:0:n 1:1:0:n 2:1:0:n",            // every batch empty
		"0:2:0:n 1:2:0:a 2:2:0:n 3:2:0:a 4:2:0:n", // alternating
		"1:2:0:a 0:2:0:a",                    // late batch 0
		"2:1:0:a 1:2:1:a 0:3:0:a",            // reverse, mixed qualities
		"0:2:1:a 1:2:0:a",                    // first batch with qualities, second without
		"0:2:0:a 1:2:1:a",                    // first batch without qualities, second with
		"0:4:1:h 1:4:1:d 2:1:1:h 3:3:1:a",    // one-to-many: halves, doubles, a batch of one record emptied by `h`
		"3:2:0:a 2:2:0:n 1:2:0:d 0:2:0:n",    // reverse with empties at both ends
	}
	for _, s := range streams {
		one(g{}, s)
		one(g{w: 3}, s)
		one(g{ent: "wsf", to: "file", fl: 1}, s)
		one(g{ent: "cli", to: "file", fl: 1}, s)
		one(g{ent: "cli", to: "stdout"}, s)
	}
	for i, s := range streams {
		if i%2 == 0 {
			one(g{ent: "wsf", to: "file", p: true}, s)
			one(g{ent: "cli", to: "file", p: true, fl: 2}, s)
			one(g{ent: "cli", to: "stdout", p: true}, s) // a paired iterator on standard output: the mates are not written
			one(g{ent: "cli", to: "file", fo: "fasta", w: 2}, s)
			one(g{ent: "cli", to: "stdout", fo: "json", hd: "obi"}, s)
		} else {
			one(g{ent: "cli", to: "file", fo: "fastq", p: true, w: 2}, s)
			one(g{ent: "cli", to: "stdout", fo: "fastq", z: true}, s)
			one(g{ent: "cli", to: "file", z: true, hd: "obi"}, s)
			one(g{ent: "ws", z: true, w: 2}, s)
			one(g{pl: 3}, s)
		}
	}
	// the priority of the format options when several are given
	for _, fo := range []string{"fasta+fastq", "json+fasta", "json+fastq", "json+fasta+fastq"} {
		one(g{ent: "cli", to: "file", fo: fo}, "1:2:1:a 0:0:0:a 2:2:0:a")
		one(g{ent: "cli", to: "stdout", fo: fo, p: true}, "0:2:0:n 1:2:1:a")
	}
	// the options of the command: --skip-empty with an empty sequence (first / last batch), unpaired and paired
	for _, s := range []string{"0:2:0:a:e 1:2:0:a", "0:0:0:a 1:2:0:a 2:3:1:h:e", "0:1:0:a:e"} {
		for _, se := range []bool{false, true} {
			one(g{ent: "cli", to: "file", se: se}, s)
			one(g{ent: "cli", to: "stdout", se: se, fo: "fasta"}, s)
			one(g{ent: "cli", to: "file", se: se, p: true}, s)
			one(g{ent: "cli", to: "stdout", se: se, p: true}, s)
			one(g{ent: "cli", to: "file", se: se, fo: "json"}, s)
		}
		one(g{se: true}, s)
		one(g{ent: "wsf", to: "file", se: true}, s)
	}
	// random streams
	n := 60
	if tier == "thorough" {
		n = 400
	}
	for i := 0; i < n; i++ {
		nb := rng.Intn(7)
		if rng.Intn(6) == 0 {
			nb = 7 + rng.Intn(20)
		}
		if tier == "thorough" && rng.Intn(12) == 0 {
			nb = 30 + rng.Intn(150)
		}
		perm := rng.Perm(nb)
		if rng.Intn(3) == 0 {
			for k := range perm {
				perm[k] = k
			}
		}
		allQ := rng.Intn(3) // 0: no qualities, 1: all with qualities, 2: mixed
		pEmpty := []int{0, 2, 4}[rng.Intn(3)]
		parts := make([]string, nb)
		for k, o := range perm {
			q := 0
			if allQ == 1 || (allQ == 2 && rng.Intn(2) == 0) {
				q = 1
			}
			nrec := 1 + rng.Intn(4)
			keep := "ahd"[rng.Intn(3)]
			if pEmpty > 0 && rng.Intn(pEmpty) == 0 {
				if rng.Intn(2) == 0 {
					nrec = 0
				} else {
					keep = 'n'
				}
			}
			if k == 0 && rng.Intn(3) == 0 {
				keep = 'n' // the first batch pushed is empty
			}
			parts[k] = fmt.Sprintf("%d:%d:%d:%c", o, nrec, q, keep)
		}
		o := g{fl: rng.Intn(3)}
		switch rng.Intn(5) {
		case 0:
		case 1:
			o.ent, o.to = "wsf", "file"
		default:
			o.ent, o.to = "cli", []string{"file", "stdout"}[rng.Intn(2)]
			o.fo = []string{"auto", "auto", "auto", "fasta", "fastq", "json"}[rng.Intn(6)]
			o.hd = []string{"json", "json", "obi"}[rng.Intn(3)]
		}
		o.w = []int{1, 1, 2, 4}[rng.Intn(4)]
		if o.ent != "cli" && rng.Intn(4) == 0 {
			o.w = 1 + rng.Intn(16)
		}
		o.z = rng.Intn(5) == 0
		o.p = o.ent != "ws" && rng.Intn(4) == 0
		if rng.Intn(3) == 0 || (tier == "thorough" && rng.Intn(2) == 0) {
			o.pl = 2 + rng.Intn(7)
		}
		one(o, strings.Join(parts, " "))
	}
}
