//go:build c17

package main

/*
#cgo LDFLAGS: -lz
#include <zlib.h>
#include <stdlib.h>
#include <string.h>

// what zlib delivers for a file read with successive gzread(f, buf, bufsz) calls (the access pattern of
// kseq.h): the bytes, the result of the last call and gzerror at the end.
static int c17_gzscan(const char *path, int bufsz, char *out, int outcap, int *outlen, int *lastn) {
    gzFile f = gzopen(path, "r");
    if (f == NULL) return -100;
    char *buf = (char*)malloc(bufsz);
    int total = 0, n = 0;
    for (;;) {
        n = gzread(f, buf, bufsz);
        if (n > 0) {
            if (total + n <= outcap) memcpy(out + total, buf, n);
            total += n;
        }
        if (n < bufsz) break;
    }
    *lastn = n;
    *outlen = total;
    int errnum = 0;
    gzerror(f, &errnum);
    gzclose(f);
    free(buf);
    return errnum;
}
*/
import "C"

import "unsafe"

// c17GzScan returns the bytes delivered by zlib for the file and the class of its final status:
// clean (Z_OK / Z_STREAM_END), trunc (error reported with a short read: Z_BUF_ERROR) or hard (gzread = -1).
func c17GzScan(path string) (data []byte, fin string, ok bool) {
	cp := C.CString(path)
	defer C.free(unsafe.Pointer(cp))
	capacity := 1 << 22
	out := C.malloc(C.size_t(capacity))
	defer C.free(out)
	var outlen, lastn C.int
	errnum := int(C.c17_gzscan(cp, 4096, (*C.char)(out), C.int(capacity), &outlen, &lastn))
	if errnum == -100 || int(outlen) > capacity {
		return nil, "", false
	}
	data = C.GoBytes(out, outlen)
	switch {
	case int(lastn) < 0:
		fin = "hard"
	case errnum == 0 || errnum == 1: // Z_OK, Z_STREAM_END
		fin = "clean"
	default:
		fin = "trunc"
	}
	return data, fin, true
}
