//go:build c17

package main

// Multi-member / concatenated-stream files, codec variants without content checksum, the independent
// decompression stack (the libraries called directly, without xopen.go) and the record digests of C17.

import (
	"bytes"
	"compress/gzip"
	"crypto/sha1"
	"errors"
	"fmt"
	"io"
	"math/rand"
	"os"
	"os/exec"
	"path/filepath"
	"sort"
	"strconv"
	"strings"
	"sync"
	"time"

	"github.com/dsnet/compress/bzip2"
	kflate "github.com/klauspost/compress/flate"
	kgzip "github.com/klauspost/compress/gzip"
	"github.com/klauspost/compress/zstd"
	"github.com/ulikunitz/xz"

	"git.metabarcoding.org/obitools/obitools4/obitools4/pkg/obiformats"
)

// c17Spec is the file description of a `file` / `cmd` case:  <codec>[~variant][:format][+layout]
//
//	variant  zst~nocrc (frames without content checksum), xz~nocrc (check type None), xz~crc32
//	layout   rK  K members / concatenated streams (2..4), the text cut at record boundaries
//	         iK  K members, the text cut inside records
//	         bS  bgzip style: members of S bytes of text, each with a BGZF extra field, followed by the
//	             empty end-of-file member of bgzip (gz only)
type c17Spec struct{ codec, variant, format, layout string }

func c17ParseSpec(s string) (sp c17Spec, ok bool) {
	if i := strings.IndexByte(s, '+'); i >= 0 {
		sp.layout = s[i+1:]
		s = s[:i]
	}
	sp.format = "fasta"
	if i := strings.IndexByte(s, ':'); i >= 0 {
		sp.format = s[i+1:]
		s = s[:i]
	}
	if i := strings.IndexByte(s, '~'); i >= 0 {
		sp.variant = s[i+1:]
		s = s[:i]
	}
	sp.codec = s
	switch sp.codec {
	case "gz", "bz2":
		ok = sp.variant == ""
	case "xz":
		ok = sp.variant == "" || sp.variant == "nocrc" || sp.variant == "crc32"
	case "zst":
		ok = sp.variant == "" || sp.variant == "nocrc"
	}
	okf := sp.format == "ecopcr"
	for _, f := range c17Formats {
		okf = okf || f == sp.format
	}
	ok = ok && okf
	if sp.layout != "" {
		if len(sp.layout) < 2 {
			return sp, false
		}
		n, err := strconv.Atoi(sp.layout[1:])
		switch sp.layout[0] {
		case 'r', 'i':
			ok = ok && err == nil && n >= 2 && n <= 4
		case 'b':
			ok = ok && err == nil && n >= 8 && n <= 4096 && sp.codec == "gz"
		default:
			ok = false
		}
	}
	return sp, ok
}

// c17CompressV: c17Compress with the codec variants
func c17CompressV(codec, variant string, data []byte) []byte {
	var b bytes.Buffer
	switch {
	case codec == "zst" && variant == "nocrc":
		w, _ := zstd.NewWriter(&b, zstd.WithEncoderCRC(false))
		w.Write(data)
		w.Close()
	case codec == "xz" && variant == "nocrc":
		w, _ := xz.WriterConfig{NoCheckSum: true}.NewWriter(&b)
		w.Write(data)
		w.Close()
	case codec == "xz" && variant == "crc32":
		w, _ := xz.WriterConfig{CheckSum: xz.CRC32}.NewWriter(&b)
		w.Write(data)
		w.Close()
	default:
		return c17Compress(codec, data)
	}
	return b.Bytes()
}

// the 28-byte empty member bgzip writes at the end of every file
var c17BgzfEOF = []byte{0x1f, 0x8b, 0x08, 0x04, 0, 0, 0, 0, 0, 0xff, 0x06, 0, 0x42, 0x43, 0x02, 0, 0x1b, 0, 0x03, 0, 0, 0, 0, 0, 0, 0, 0, 0}

// c17Bgzf: one BGZF block (a gzip member whose extra field `BC` holds the size of the block - 1)
func c17Bgzf(data []byte) []byte {
	var b bytes.Buffer
	w := gzip.NewWriter(&b)
	w.Header.Extra = []byte{'B', 'C', 2, 0, 0, 0}
	w.Header.OS = 0xff
	w.Write(data)
	w.Close()
	z := b.Bytes()
	z[16], z[17] = byte((len(z)-1)&0xff), byte((len(z)-1)>>8)
	return z
}

// c17RecordStarts: the offsets at which the records of the generated text start (the first one excluded)
func c17RecordStarts(format string, data []byte) []int {
	marker := map[string]string{"fasta": ">", "fastq": "@", "genbank": "LOCUS", "embl": "ID   ", "csv": "s", "ecopcr": "s"}[format]
	var res []int
	for i := 1; i < len(data); i++ {
		if data[i-1] == '\n' && bytes.HasPrefix(data[i:], []byte(marker)) {
			res = append(res, i)
		}
	}
	return res
}

// c17Parts cuts the text as the layout says
func c17Parts(sp c17Spec, data []byte) [][]byte {
	if sp.layout == "" {
		return [][]byte{data}
	}
	n, _ := strconv.Atoi(sp.layout[1:])
	var cuts []int
	switch sp.layout[0] {
	case 'b':
		for p := n; p < len(data); p += n {
			cuts = append(cuts, p)
		}
	default:
		starts := c17RecordStarts(sp.format, data)
		for j := 1; j < n; j++ {
			var c int
			if len(starts) == 0 {
				c = len(data) * j / n
			} else {
				k := len(starts) * j / n
				if k >= len(starts) {
					k = len(starts) - 1
				}
				c = starts[k]
				if sp.layout[0] == 'i' {
					// inside the record that starts here: a third of the way to the next record / the end
					next := len(data)
					if k+1 < len(starts) {
						next = starts[k+1]
					}
					c += 1 + (next-c)/3
				}
			}
			if c > 0 && c < len(data) && (len(cuts) == 0 || c > cuts[len(cuts)-1]) {
				cuts = append(cuts, c)
			}
		}
	}
	var parts [][]byte
	p := 0
	for _, c := range cuts {
		parts = append(parts, data[p:c])
		p = c
	}
	return append(parts, data[p:])
}

type c17Built struct {
	z     []byte // the whole (undamaged) file
	offs  []int  // offset of each member in z
	sizes []int  // decoded size of each member
}

var (
	c17BuildMu    sync.Mutex
	c17BuildCache = map[string]*c17Built{}
)

// c17Build: the undamaged file of a spec (cached: a pure function of its arguments)
func c17Build(sp c17Spec, nrec int) *c17Built {
	key := fmt.Sprintf("%v/%d", sp, nrec)
	c17BuildMu.Lock()
	defer c17BuildMu.Unlock()
	if b, ok := c17BuildCache[key]; ok {
		return b
	}
	data := c17FormatData(sp.format, nrec)
	b := &c17Built{}
	for _, p := range c17Parts(sp, data) {
		var m []byte
		if sp.layout != "" && sp.layout[0] == 'b' {
			m = c17Bgzf(p)
		} else {
			m = c17CompressV(sp.codec, sp.variant, p)
		}
		b.offs = append(b.offs, len(b.z))
		b.sizes = append(b.sizes, len(p))
		b.z = append(b.z, m...)
	}
	if sp.layout != "" && sp.layout[0] == 'b' {
		b.offs = append(b.offs, len(b.z))
		b.sizes = append(b.sizes, 0)
		b.z = append(b.z, c17BgzfEOF...)
	}
	if len(c17BuildCache) > 64 {
		c17BuildCache = map[string]*c17Built{}
	}
	c17BuildCache[key] = b
	return b
}

// c17LoneHeaderCut: is `cut=k` a cut exactly between two members whose text so far ends with a lone header character
// (`\n>` / `\n@`)?  Such a file is a complete, valid compressed file of a truncated text, on which FastaChunkParser dies
// of an index panic in its own goroutine (`start[1]` on the one-byte chunk `>`: a crash report, C01's domain, that the
// harness cannot recover from): these cuts are not generated.
func c17LoneHeaderCut(sp c17Spec, nrec int, b *c17Built, k int) bool {
	data := c17FormatData(sp.format, nrec)
	pre := 0
	for m := 1; m < len(b.offs); m++ {
		pre += b.sizes[m-1]
		if b.offs[m] == k && pre > 0 && pre <= len(data) {
			c := data[pre-1]
			return (c == '>' || c == '@') && (pre == 1 || data[pre-2] == '\n')
		}
	}
	return false
}

// c17ApplyDamage: cut=K | flip=B | byte=K (byte K xor 0xff) | tail=N | none, on a copy of z
func c17ApplyDamage(z []byte, d string) ([]byte, string, bool) {
	z = append([]byte{}, z...)
	if d == "none" {
		return z, "none", true
	}
	if k, is := c17KV(d, "cut"); is {
		if k < 0 || k > len(z) {
			return nil, "", false
		}
		return z[:k], fmt.Sprintf("cut=%d/%d", k, len(z)), true
	}
	if b, is := c17KV(d, "flip"); is {
		if b < 0 || b >= len(z)*8 {
			return nil, "", false
		}
		z[b/8] ^= 1 << (b % 8)
		return z, fmt.Sprintf("flip=%d", b), true
	}
	if k, is := c17KV(d, "byte"); is {
		if k < 0 || k >= len(z) {
			return nil, "", false
		}
		z[k] ^= 0xff
		return z, fmt.Sprintf("byte=%d", k), true
	}
	if n, is := c17KV(d, "tail"); is {
		if n < 1 || n > 64 {
			return nil, "", false
		}
		for i := 0; i < n; i++ {
			z = append(z, byte(0x41+i%7))
		}
		return z, fmt.Sprintf("tail=%d", n), true
	}
	return nil, "", false
}

// c17LibScan: what the decompression LIBRARY (called directly, not through xopen.go) makes of the bytes:
// the bytes it delivers and the class of the error that ends them.  The stack is chosen from the magic number
// (an unrecognised file is `raw`: read as it is).
//
//	eof | ueof (io.ErrUnexpectedEOF) | header (gzip.ErrHeader, zstd.ErrMagicMismatch: met where a member was
//	expected) | checksum | corrupt (deflate data) | other
func c17LibScan(z []byte) (decoded []byte, class string) {
	var r io.Reader
	var err error
	br := bytes.NewReader(z)
	switch {
	case bytes.HasPrefix(z, []byte{0x1f, 0x8b}):
		r, err = kgzip.NewReader(br)
	case bytes.HasPrefix(z, []byte{0x28, 0xb5, 0x2f, 0xfd}):
		var d *zstd.Decoder
		d, err = zstd.NewReader(br)
		if err == nil {
			defer d.Close()
			r = d
		}
	case bytes.HasPrefix(z, []byte{0xfd, 0x37, 0x7a, 0x58, 0x5a, 0x00}):
		r, err = xz.NewReader(br)
	case bytes.HasPrefix(z, []byte{0x42, 0x5a, 0x68}) && len(z) >= 6:
		// (xopen.go looks for the 6-byte xz magic before the 3-byte bzip2 one: a file shorter than 6 bytes is plain text)
		r, err = bzip2.NewReader(br, &bzip2.ReaderConfig{})
	default:
		if len(z) == 0 {
			return nil, "eof"
		}
		return z, "raw"
	}
	buf := make([]byte, 1<<16)
	for err == nil {
		var nn int
		nn, err = r.Read(buf)
		decoded = append(decoded, buf[:nn]...)
	}
	var cie kflate.CorruptInputError
	switch {
	case err == io.EOF:
		class = "eof"
	case errors.Is(err, io.ErrUnexpectedEOF):
		class = "ueof"
	case err == kgzip.ErrHeader || errors.Is(err, zstd.ErrMagicMismatch):
		class = "header"
	case err == kgzip.ErrChecksum || errors.Is(err, zstd.ErrCRCMismatch):
		class = "checksum"
	case errors.As(err, &cie):
		class = "corrupt"
	default:
		class = "other"
	}
	return decoded, class
}

// c17Digest: the records delivered by ReadSequencesFromFile as a digest of (batch order, rank, id, sequence,
// qualities)
func c17Digest(path string, openFails bool) (nrec int, digest string, res string) {
	var lines []string
	// when the toolkit's opener refuses the file, ReadSequencesFromFile ends in log.Fatalf in the calling goroutine before
	// any other goroutine exists: no need for the 50 ms guardT waits after a log.Fatal for the other goroutines to settle
	run := guardT
	if openFails {
		run = c17Fast
	}
	res = run(10*time.Second, func() string {
		it, err := obiformats.ReadSequencesFromFile(path, obiformats.OptionsParallelWorkers(1))
		if err != nil {
			return "fail"
		}
		for it.Next() {
			b := it.Get()
			for i, s := range b.Slice() {
				q := ""
				if s.HasQualities() {
					q = string(s.Qualities())
				}
				lines = append(lines, fmt.Sprintf("%08d:%06d:%s|%s|%x", b.Order(), i, s.Id(), s.Sequence(), q))
			}
		}
		return "ok"
	})
	if res != "ok" {
		return 0, "", res
	}
	sort.Strings(lines)
	h := sha1.New()
	for _, l := range lines {
		io.WriteString(h, l+"\n")
	}
	return len(lines), fmt.Sprintf("%x", h.Sum(nil)[:8]), res
}

func c17Sizes(s []int) string {
	parts := make([]string, len(s))
	for i, v := range s {
		parts[i] = strconv.Itoa(v)
	}
	return strings.Join(parts, ",")
}

// c17GenMulti: the cases of the third pass —
//
//	(a) multi-member gzip files (members cut at record boundaries / inside records, bgzip-style small members) and
//	    concatenated bzip2 / xz / zstd streams: truncation at every offset, single-bit and single-byte damage at every
//	    offset of every member header and trailer, through ReadSequencesFromFile (`file`) and, for gzip, through the
//	    C reader of the standard input (`kseq`), plus the real command on a file, a redirected file and a pipe;
//	(b) FASTQ / GenBank / EMBL / CSV files compressed and truncated at every byte;
//	(c) single bit flips at every bit of small files of every codec, including the variants without content checksum.
func c17GenMulti(rng *rand.Rand, tier string, emit func(string)) {
	thorough := tier == "thorough"
	hdrLen := func(sp c17Spec) int {
		if sp.layout != "" && sp.layout[0] == 'b' {
			return 18
		}
		if !thorough && sp.codec == "xz" {
			return 13
		}
		return map[string]int{"gz": 10, "bz2": 14, "xz": 24, "zst": 9}[sp.codec]
	}
	trlLen := func(sp c17Spec) int {
		if !thorough && sp.codec == "xz" {
			return 12
		}
		return map[string]int{"gz": 8, "bz2": 10, "xz": 28, "zst": 7}[sp.codec]
	}
	// (c) corruption rather than truncation: every bit of a small file (thorough), a sample (quick)
	for _, spec := range []string{"gz", "bz2", "xz", "zst", "zst~nocrc", "xz~nocrc", "xz~crc32"} {
		sp, _ := c17ParseSpec(spec)
		z := c17Build(sp, 2).z
		if thorough && spec != "xz~crc32" {
			for b := 0; b < len(z)*8; b++ {
				emit(fmt.Sprintf("file %s nrec=2 flip=%d n=0 err=eof", spec, b))
			}
			for k := 0; k < len(z); k++ {
				emit(fmt.Sprintf("file %s nrec=2 byte=%d n=0 err=eof", spec, k))
			}
		} else {
			for i := 0; i < 12; i++ {
				emit(fmt.Sprintf("file %s nrec=2 flip=%d n=0 err=eof", spec, rng.Intn(len(z)*8)))
				emit(fmt.Sprintf("file %s nrec=2 byte=%d n=0 err=eof", spec, rng.Intn(len(z))))
			}
			emit(fmt.Sprintf("file %s nrec=2 none n=0 err=eof", spec))
		}
	}
	// damage of the headers and trailers of every member of a file
	members := func(op, spec, dataspec string, nrec int, allCuts, allBits bool, nsample int) {
		sp, _ := c17ParseSpec(spec)
		if op == "kseq" && strings.HasPrefix(dataspec, "fq=") {
			sp.format = "fastq"
		}
		b := c17Build(sp, nrec)
		line := func(d string) {
			if k, is := c17KV(d, "cut"); is && c17LoneHeaderCut(sp, nrec, b, k) {
				stat("skipped:lone-header-cut")
				return
			}
			if op == "file" {
				emit(fmt.Sprintf("file %s %s %s n=0 err=eof", spec, dataspec, d))
			} else {
				emit(fmt.Sprintf("kseq %s %s %s", spec, dataspec, d))
			}
		}
		line("none")
		hl, tl := hdrLen(sp), trlLen(sp)
		for m, off := range b.offs {
			end := len(b.z)
			if m+1 < len(b.offs) {
				end = b.offs[m+1]
			}
			var region []int
			for p := off; p < off+hl && p < end; p++ {
				region = append(region, p)
			}
			for p := end - tl; p < end; p++ {
				if p >= off+hl {
					region = append(region, p)
				}
			}
			for _, p := range region {
				line(fmt.Sprintf("byte=%d", p))
				if !allCuts && p > 0 && (thorough || sp.layout[0] != 'b') {
					line(fmt.Sprintf("cut=%d", p))
				}
				for bit := 0; bit < 8; bit++ {
					// the identification bytes of every member (the damage that looks like "trailing garbage") always,
					// the other header / trailer bits in thorough
					if allBits || p-off < 3 || (p-off == 3 && bit < 5) || rng.Intn(24) == 0 {
						line(fmt.Sprintf("flip=%d", p*8+bit))
					}
				}
			}
		}
		if allCuts {
			for k := 1; k < len(b.z); k++ {
				line(fmt.Sprintf("cut=%d", k))
			}
		}
		for i := 0; i < nsample; i++ {
			switch rng.Intn(3) {
			case 0:
				line(fmt.Sprintf("cut=%d", 1+rng.Intn(len(b.z)-1)))
			case 1:
				line(fmt.Sprintf("flip=%d", rng.Intn(len(b.z)*8)))
			default:
				line(fmt.Sprintf("byte=%d", rng.Intn(len(b.z))))
			}
		}
		line(fmt.Sprintf("tail=%d", 1+rng.Intn(20)))
	}
	// (a) gzip, file path and stdin path
	members("file", "gz+r3", "nrec=6", 6, true, thorough, 10)
	members("kseq", "gz+r3", "nrec=6", 6, thorough, thorough, 10)
	if thorough {
		members("file", "gz+i2", "nrec=4", 4, true, true, 10)
		members("file", "gz+b64", "nrec=3", 3, true, true, 20)
		members("file", "gz+r4", "nrec=8", 8, true, false, 10)
		members("kseq", "gz+i3", "fq=4", 4, true, true, 10)
		members("kseq", "gz+b64", "nrec=3", 3, true, true, 10)
		members("file", "gz:fastq+i3", "nrec=5", 5, true, true, 40)
		members("file", "gz:genbank+r2", "nrec=3", 3, true, false, 40)
		members("file", "gz+b48", "nrec=12", 12, false, false, 200)
		members("kseq", "gz+i4", "nrec=9", 9, true, false, 60)
	} else {
		members("file", "gz+i2", "nrec=4", 4, false, false, 0)
		members("file", "gz+b96", "nrec=3", 3, false, false, 10)
	}
	// concatenated bzip2 / xz / zstd streams
	for _, codec := range []string{"bz2", "xz", "zst"} {
		members("file", codec+"+r2", "nrec=4", 4, thorough, thorough, 10)
		if thorough {
			members("file", codec+"+i3", "nrec=5", 5, true, false, 60)
			members("file", codec+":fastq+r2", "nrec=3", 3, false, false, 40)
		}
	}
	// the real command on a multi-member gzip input: the identification bytes of member 2 damaged, member 3 cut
	b3 := c17Build(c17Spec{codec: "gz", format: "fasta", layout: "r3"}, 6)
	for _, how := range []string{"file", "stdin", "pipe"} {
		emit(fmt.Sprintf("cmd obiconvert %s gz+r3 nrec=6 cut=%d", how, b3.offs[2]+15))
		if how == "file" {
			emit(fmt.Sprintf("cmd obiconvert %s gz+r3 nrec=6 flip=%d", how, b3.offs[1]*8+rng.Intn(24)))
			emit(fmt.Sprintf("cmd obiconvert %s gz+r3 nrec=6 byte=%d", how, b3.offs[2]+2))
		} else {
			// (zlib stops silently at a member whose magic number is damaged: known finding D22z; a damaged deflate block is reported)
			emit(fmt.Sprintf("cmd obiconvert %s gz+r3 nrec=6 byte=%d", how, b3.offs[1]+20))
		}
	}
	for _, codec := range []string{"bz2", "xz", "zst"} {
		b2 := c17Build(c17Spec{codec: codec, format: "fasta", layout: "r2"}, 4)
		emit(fmt.Sprintf("cmd obiconvert file %s+r2 nrec=4 byte=%d", codec, b2.offs[1]+rng.Intn(3)))
	}
	// files larger than the 1 MiB peek of the format guesser: the error reported at the boundary of member 2 (or inside
	// member 2) is met by the chunk reader
	big := c17Build(c17Spec{codec: "gz", format: "fasta", layout: "r2"}, 26000)
	emit(fmt.Sprintf("file gz+r2 nrec=26000 flip=%d n=0 err=eof", big.offs[1]*8+rng.Intn(24)))
	emit(fmt.Sprintf("file gz+r2 nrec=26000 cut=%d n=0 err=eof", len(big.z)-1-rng.Intn(8)))
	if thorough {
		emit(fmt.Sprintf("file gz+r2 nrec=26000 byte=%d n=0 err=eof", big.offs[1]+2))
		emit(fmt.Sprintf("file gz+r2 nrec=26000 cut=%d n=0 err=eof", big.offs[1]+1+rng.Intn(17)))
		emit("file gz+r2 nrec=26000 none n=0 err=eof")
		emit(fmt.Sprintf("file gz+r2 nrec=26000 tail=%d n=0 err=eof", 1+rng.Intn(20)))
	}
	// (b) every truncation point of the other formats
	for _, format := range c17Formats[1:] {
		codecs := []string{"gz"}
		nrec := 1
		if thorough {
			codecs, nrec = []string{"gz", "bz2", "xz", "zst"}, 2
		}
		for _, codec := range codecs {
			z := c17Build(c17Spec{codec: codec, format: format}, nrec).z
			step, k0 := 1, 1
			if !thorough && (format == "genbank" || format == "embl") {
				step, k0 = 2, 1+rng.Intn(2) // quick: every other truncation point of the two long formats
			}
			for k := k0; k <= len(z); k += step {
				emit(fmt.Sprintf("file %s:%s nrec=%d cut=%d n=0 err=eof", codec, format, nrec, k))
			}
		}
	}
}

// a command that does not end is a failure of the property: the ecoPCR cases, whose reader used to spin on a
// truncated header, are given 20 s, the others 60 s
func c17CmdTimeout(mode string) time.Duration {
	if mode == "ecopcr" {
		return 20 * time.Second
	}
	return 60 * time.Second
}

// c17EcoOK: does the ecoPCR reader of the tree under check end normally on a complete file?  (It used to die of a nil
// pointer dereference in its own goroutine at the end of every file, which the harness cannot recover from: the
// in-process ecoPCR cases are emitted only when this probe, run in a subprocess, passes; the `cmd … ecopcr` cases always.)
func c17EcoOK() bool {
	bin, err := repoCommandC17("obiconvert")
	if err != nil {
		return false
	}
	path := c17TmpFile("t.ecopcr", c17FormatData("ecopcr", 2))
	defer os.RemoveAll(filepath.Dir(path))
	cmd := exec.Command(bin, "--ecopcr", path)
	var out bytes.Buffer
	cmd.Stdout = &out
	done := make(chan error, 1)
	if cmd.Start() != nil {
		return false
	}
	go func() { done <- cmd.Wait() }()
	select {
	case err := <-done:
		return err == nil && bytes.Count(out.Bytes(), []byte(">")) == 2
	case <-time.After(20 * time.Second):
		cmd.Process.Kill()
		return false
	}
}

// c17GenEco: ecoPCR files (ReadEcoPCR, reached by `--ecopcr` and by the format guesser)
func c17GenEco(rng *rand.Rand, tier string, emit func(string)) {
	z := c17Build(c17Spec{codec: "gz", format: "ecopcr"}, 3).z
	emit("cmd obiconvert ecopcr gz:ecopcr nrec=3 none")
	emit(fmt.Sprintf("cmd obiconvert ecopcr gz:ecopcr nrec=3 cut=%d", 30+rng.Intn(60)))       // inside the header
	emit(fmt.Sprintf("cmd obiconvert ecopcr gz:ecopcr nrec=3 cut=%d", len(z)-1-rng.Intn(60))) // inside the records
	emit(fmt.Sprintf("cmd obiconvert file gz:ecopcr nrec=3 cut=%d", len(z)-1-rng.Intn(60)))
	emit(fmt.Sprintf("cmd obiconvert ecopcr bz2:ecopcr nrec=3 cut=%d", 40+rng.Intn(100)))
	if !c17EcoOK() {
		stat("ecopcr-reader-broken")
		return
	}
	codecs, step := []string{"gz"}, 4
	if tier == "thorough" {
		codecs, step = []string{"gz", "bz2", "xz", "zst"}, 1
	}
	for _, codec := range codecs {
		z := c17Build(c17Spec{codec: codec, format: "ecopcr"}, 2).z
		emit(fmt.Sprintf("file %s:ecopcr nrec=2 none n=0 err=eof", codec))
		for k := 1 + rng.Intn(step); k < len(z); k += step {
			emit(fmt.Sprintf("file %s:ecopcr nrec=2 cut=%d n=0 err=eof", codec, k))
		}
		for i := 0; i < 6; i++ {
			emit(fmt.Sprintf("file %s:ecopcr nrec=2 flip=%d n=0 err=eof", codec, 64+rng.Intn(len(z)*8-64)))
		}
	}
}

// c17RawProne: does the damage of a `file` case touch the first 6 bytes of the file (the magic numbers)?  The file is
// then usually not recognised as compressed and its bytes match no format: OBIMimeTypeGuesser, which attaches twelve new
// detectors to the mimetype tree at EVERY call, then runs all the detectors accumulated so far - these cases are run
// first, while the tree is small.
func c17RawProne(line string) bool {
	f := strings.Fields(line)
	if len(f) < 4 || f[0] != "file" {
		return false
	}
	if k, is := c17KV(f[3], "cut"); is {
		return k < 6
	}
	if k, is := c17KV(f[3], "byte"); is {
		return k < 6
	}
	if b, is := c17KV(f[3], "flip"); is {
		return b < 48
	}
	return false
}

// c17Partition: (seed mod 8, 8) in the thorough tier when the seed is on the command line of the harness, else (0, 1);
// 8 = `thorough_seeds` of lib/cfg/C17.py (the check runs the seeds 1000*seed + 0..7)
func c17Partition(tier string) (int, int) {
	if tier != "thorough" {
		return 0, 1
	}
	for i, a := range os.Args {
		if (a == "-seed" || a == "--seed") && i+1 < len(os.Args) {
			if v, err := strconv.Atoi(os.Args[i+1]); err == nil && v >= 0 {
				return v % 8, 8
			}
		}
		if strings.HasPrefix(a, "-seed=") || strings.HasPrefix(a, "--seed=") {
			if v, err := strconv.Atoi(a[strings.IndexByte(a, '=')+1:]); err == nil && v >= 0 {
				return v % 8, 8
			}
		}
	}
	return 0, 1
}
