//go:build c19

package main

// C19, fourth pass — HISTORIES ON ONE OBJECT.
//
//   gh <k> <step> ...      ONE DeBruijnGraph object; steps, in any order and repeated:
//        p:<hexread>:<count>      Push                                   -> "p"
//        f:<min>                  FilterMinWeight(min)                   -> "f"
//        q                        MaxWeight, Len, the weight table with Nexts / Previouses, HasCycle, HaviestPath,
//                                 LongestConsensus(id, 0)                -> "mw= len= n= cyc= path= cons=" (as gf)
//        c:<float64 bits>:<obs>   LongestConsensus(id, min_cov)          -> "cons=<hexseq|err|panic>"; <obs> as in gc
//      result: the answers of the steps joined by " ; " — the model is the functional model applied step by step
//      (Model/DeBruijnHist.lean, Graph.apply / Graph.trace), so every answer after every prefix is compared.
//      Oracles on the real code (theorems query_after_history, history_metamorphic are the specification):
//        hist.query-not-repeatable   the same query asked twice in a row answers differently
//        hist.stale-answer           the answers differ from those of a FRESH graph holding the real object's own weight
//                                    table (every k-mer pushed as a read of k bases, its weight as count)
//        hist.hascycle / hist.none-iff-cycle   against topological elimination on the table
//        hist.push.weights / hist.filter.value table after a mutator = independent recomputation from the table before
//        hist.metamorphic            a second object given the same mutators without any query, each run of pushes in the
//                                    opposite order and each run of filters collapsed into one, ends with other answers
//
//   kh <W> <k> <sparse> <step> ...   ONE KmerMap[UintW] object (NewKmerMap(nil, k, sparse, -1)); steps:
//        p:<hexseq>:<maxocc>      Push(sequence, maxocc); the sequence gets the next identifier    -> "len=<Len>"
//        q:<hexseq|@j>:<mincount> Query (a fresh record, or the j-th pushed record itself), FilterMinCount(mincount) on
//                                 the returned KmerMatch                                            -> "len= m= f="
//      oracles: kh.query-not-repeatable (Query again after FilterMinCount on the first answer), kh.stale-answer (a fresh
//      KmerMap given the same pushes, never queried before), kh.len

import (
	"fmt"
	"math"
	"math/rand"
	"sort"
	"strconv"
	"strings"

	"git.metabarcoding.org/obitools/obitools4/obitools4/pkg/obifp"
	"git.metabarcoding.org/obitools/obitools4/obitools4/pkg/obikmer"
	"git.metabarcoding.org/obitools/obitools4/obitools4/pkg/obiseq"
)

type c19Step struct {
	op    byte // p f q c
	read  []byte
	count int
	min   int
	bits  string
	mc    float64
}

func c19ParseSteps(f []string) ([]c19Step, bool) {
	var out []c19Step
	for _, w := range f {
		p := strings.Split(w, ":")
		switch {
		case w == "q":
			out = append(out, c19Step{op: 'q'})
		case p[0] == "f" && len(p) == 2:
			mn, err := strconv.Atoi(p[1])
			if err != nil || mn < -1000000 || mn > 1000000 {
				return nil, false
			}
			out = append(out, c19Step{op: 'f', min: mn})
		case p[0] == "p" && len(p) == 3:
			s, ok := unhx(p[1])
			cnt, err := strconv.Atoi(p[2])
			if !ok || err != nil || cnt < 1 || cnt > 1<<53+8 {
				return nil, false
			}
			out = append(out, c19Step{op: 'p', read: s, count: cnt})
		case p[0] == "c" && len(p) == 3:
			bits, err := strconv.ParseUint(p[1], 16, 64)
			mc := math.Float64frombits(bits)
			if err != nil || len(p[1]) != 16 || !(mc > 0) || math.IsInf(mc, 0) {
				return nil, false
			}
			out = append(out, c19Step{op: 'c', bits: p[1], mc: mc})
		default:
			return nil, false
		}
	}
	return out, len(out) > 0
}

func c19SortedKeys(nodes map[uint64]uint) []uint64 {
	keys := make([]uint64, 0, len(nodes))
	for n := range nodes {
		keys = append(keys, n)
	}
	sort.Slice(keys, func(i, j int) bool { return keys[i] < keys[j] })
	return keys
}

// everything a query step asks of the object, in the format of gf
func c19Observe(g *obikmer.DeBruijnGraph, k int) string {
	nodes := g.VerifNodes()
	keys := c19SortedKeys(nodes)
	parts := make([]string, len(keys))
	for i, n := range keys {
		var nx, pv []uint64
		if c19Try(func() { nx = g.Nexts(n); pv = g.Previouses(n) }) {
			return "panic-nexts"
		}
		nm, pm := 0, 0
		for _, x := range nx {
			nm |= 1 << (x & 3)
		}
		for _, x := range pv {
			pm |= 1 << ((x >> (2 * uint(k-1))) & 3)
		}
		parts[i] = fmt.Sprintf("%x:%d:%x:%x", n, nodes[n], nm, pm)
	}
	nodeStr := "-"
	if len(parts) > 0 {
		nodeStr = strings.Join(parts, ",")
	}
	var mw, ln int
	if c19Try(func() { mw = g.MaxWeight(); ln = g.Len() }) {
		return "panic-len"
	}
	head := fmt.Sprintf("mw=%d len=%d n=%s", mw, ln, nodeStr)
	var cyc bool
	if c19Try(func() { cyc = g.HasCycle() }) {
		return head + " cyc=panic"
	}
	var path []uint64
	pathStr := ""
	if c19Try(func() { path = g.HaviestPath() }) {
		pathStr = "panic"
	} else if path == nil {
		pathStr = "nil"
	} else {
		ps := make([]string, len(path))
		for i, n := range path {
			ps[i] = fmt.Sprintf("%x", n)
		}
		pathStr = strings.Join(ps, ",")
	}
	return head + fmt.Sprintf(" cyc=%d path=%s cons=%s", map[bool]int{false: 0, true: 1}[cyc], pathStr, c19Consensus(g, 0))
}

func c19Consensus(g *obikmer.DeBruijnGraph, mc float64) string {
	var cons *obiseq.BioSequence
	var cerr error
	if c19Try(func() { cons, cerr = g.LongestConsensus("x", mc) }) {
		return "panic"
	} else if cerr != nil || cons == nil {
		return "err"
	}
	return hx(cons.Sequence())
}

// a fresh graph holding a weight table: every k-mer pushed as a read of exactly k bases, its weight as count
func c19FreshFromTable(k int, nodes map[uint64]uint, keys []uint64, rev bool) *obikmer.DeBruijnGraph {
	g := obikmer.MakeDeBruijnGraph(k)
	for i := range keys {
		n := keys[i]
		if rev {
			n = keys[len(keys)-1-i]
		}
		s := obiseq.NewBioSequence("t", []byte(c19Str(n, k)), "")
		s.SetCount(int(nodes[n]))
		g.Push(s)
	}
	return g
}

// cyclic ? by topological elimination on the table (successor of x by base b: the last k-1 bases of x followed by b)
func c19TableCyclic(k int, nodes map[uint64]uint, keys []uint64) bool {
	mask := ^uint64(0)
	if k < 32 {
		mask = uint64(1)<<(2*uint(k)) - 1
	}
	indeg := map[uint64]int{}
	succ := func(n uint64) []uint64 {
		var out []uint64
		for b := uint64(0); b < 4; b++ {
			x := (n<<2)&mask | b
			if _, ok := nodes[x]; ok {
				out = append(out, x)
			}
		}
		return out
	}
	for _, n := range keys {
		for _, x := range succ(n) {
			indeg[x]++
		}
	}
	var ready []uint64
	for _, n := range keys {
		if indeg[n] == 0 {
			ready = append(ready, n)
		}
	}
	done := 0
	for len(ready) > 0 {
		n := ready[len(ready)-1]
		ready = ready[:len(ready)-1]
		done++
		for _, x := range succ(n) {
			indeg[x]--
			if indeg[x] == 0 {
				ready = append(ready, x)
			}
		}
	}
	return done != len(keys)
}

func c19SameTable(a, b map[uint64]uint) bool {
	if len(a) != len(b) {
		return false
	}
	for n, w := range a {
		if v, ok := b[n]; !ok || v != w {
			return false
		}
	}
	return true
}

func c19NewRead(r []byte, count int) *obiseq.BioSequence {
	s := obiseq.NewBioSequence("r", append([]byte{}, r...), "")
	s.SetCount(count)
	return s
}

// is the answer of obistats.Mode on the weights of the heaviest path independent of the map iteration order ?
func c19ModeUnique(g *obikmer.DeBruijnGraph, nodes map[uint64]uint) bool {
	var path []uint64
	if len(nodes) == 0 || c19Try(func() { path = g.HaviestPath() }) {
		return true
	}
	occ := map[uint]int{}
	top, ntop := 0, 0
	for _, n := range path {
		occ[nodes[n]]++
	}
	for _, c := range occ {
		if c > top {
			top, ntop = c, 1
		} else if c == top {
			ntop++
		}
	}
	return ntop <= 1
}

func c19ExecHist(f []string, fail func(sig, format string, a ...any)) string {
	k, e1 := strconv.Atoi(f[1])
	steps, ok := c19ParseSteps(f[2:])
	if e1 != nil || !ok || k < 1 || k > 32 {
		return "bad-op"
	}
	g := obikmer.MakeDeBruijnGraph(k)
	var out []string
	words := make([]string, len(steps)) // the case line with the observed outcome of the c steps
	nq, everCyclic, wasCyclicAtQuery, cycleRemoved := 0, false, false, false
	for i, st := range steps {
		before := g.VerifNodes()
		switch st.op {
		case 'p':
			words[i] = fmt.Sprintf("p:%s:%d", hx(st.read), st.count)
			if c19Try(func() { g.Push(c19NewRead(st.read, st.count)) }) {
				fail("hist.push.panic", "step %d: Push panics", i+1)
				out = append(out, "panic")
				return strings.Join(out, " ; ")
			}
			out = append(out, "p")
			// the table after = the table before + count x windows (IUPAC expansion), up to the first byte outside the table
			low := c19Lower(st.read)
			want := map[uint64]uint{}
			for n, w := range before {
				want[n] = w
			}
			valid := len(low)
			for j, b := range low {
				if _, in := c19Iupac[b]; !in {
					valid = j
					break
				}
			}
			if k <= 31 && len(low) >= k {
				for p := 0; p+k <= valid; p++ {
					for _, e := range c19Expand(low[p : p+k]) {
						want[c19Val(e).Uint64()] += uint(st.count)
					}
				}
				if !c19SameTable(want, g.VerifNodes()) {
					fail("hist.push.weights", "step %d: after Push of %q x %d on a graph of %d k-mers the table holds %d k-mers, expected %d (old weights + count x windows)", i+1, low, st.count, len(before), g.Len(), len(want))
				}
			}
			if len(before) > 0 {
				stat("gh:push-on-non-empty")
			}
		case 'f':
			words[i] = fmt.Sprintf("f:%d", st.min)
			if c19Try(func() { g.FilterMinWeight(st.min) }) {
				fail("hist.filter.panic", "step %d: FilterMinWeight(%d) panics", i+1, st.min)
				out = append(out, "panic")
				return strings.Join(out, " ; ")
			}
			out = append(out, "f")
			want := map[uint64]uint{}
			for n, w := range before {
				if st.min >= 0 && w >= uint(st.min) {
					want[n] = w
				}
			}
			after := g.VerifNodes()
			if !c19SameTable(want, after) {
				fail("hist.filter.value", "step %d: FilterMinWeight(%d) leaves %d nodes, expected the %d nodes of weight >= %d with their weights", i+1, st.min, len(after), len(want), st.min)
			}
			switch {
			case len(after) == len(before):
				stat("gh:filter-removes-none")
			case len(after) == 0:
				stat("gh:filter-removes-all")
			default:
				stat("gh:filter-removes-some")
			}
			if k <= 31 && c19TableCyclic(k, before, c19SortedKeys(before)) && !c19TableCyclic(k, after, c19SortedKeys(after)) {
				stat("gh:filter-removes-the-cycles")
				if wasCyclicAtQuery {
					cycleRemoved = true
					stat("gh:cycle-seen-by-a-query-then-removed")
				}
				wasCyclicAtQuery = false
			}
		case 'q', 'c':
			nodes := before
			keys := c19SortedKeys(nodes)
			var ans string
			if st.op == 'q' {
				words[i] = "q"
				ans = c19Observe(g, k)
				if again := c19Observe(g, k); again != ans {
					fail("hist.query-not-repeatable", "step %d: the same query asked twice in a row: %s then %s", i+1, ans, again)
				}
			} else {
				ans = "cons=" + c19Consensus(g, st.mc)
				words[i] = fmt.Sprintf("c:%s:%s", st.bits, strings.TrimPrefix(ans, "cons="))
			}
			out = append(out, ans)
			nq++
			if !c19SameTable(nodes, g.VerifNodes()) {
				fail("hist.query-mutates", "step %d: the weight table changed during a query", i+1)
			}
			cyclic := false
			if k <= 31 {
				cyclic = c19TableCyclic(k, nodes, keys)
				if cyclic {
					everCyclic, wasCyclicAtQuery = true, true
				}
			}
			// ---- the answers are a function of the current table: a fresh graph holding the same table says the same
			if len(keys) <= 4000 {
				for _, rev := range []bool{false, true} {
					fg := c19FreshFromTable(k, nodes, keys, rev)
					if !c19SameTable(nodes, fg.VerifNodes()) {
						fail("oracle.inconsistent", "step %d: the graph rebuilt from the table holds another table", i+1)
						break
					}
					var want string
					if st.op == 'q' {
						want = c19Observe(fg, k)
					} else if c19ModeUnique(fg, nodes) {
						want = "cons=" + c19Consensus(fg, st.mc)
					} else {
						stat("gh:cov-mode-tie")
						break
					}
					if want != ans {
						fail("hist.stale-answer", "step %d (after %d earlier queries on the same object): %s — a fresh graph holding the same weight table answers: %s", i+1, nq-1, ans, want)
						break
					}
				}
			}
			if st.op == 'q' && k <= 31 && strings.Contains(ans, " cyc=") {
				if strings.Contains(ans, " cyc=1") != cyclic {
					fail("hist.hascycle", "step %d: HasCycle = %v, topological elimination on the table says cyclic = %v", i+1, !cyclic, cyclic)
				}
				if len(keys) > 0 && strings.Contains(ans, " path=nil") != cyclic {
					fail("hist.none-iff-cycle", "step %d: cyclic = %v but path returned = %v", i+1, cyclic, !strings.Contains(ans, " path=nil"))
				}
			}
		}
	}
	if everCyclic {
		stat("gh:some-state-cyclic")
	}
	if cycleRemoved {
		stat("gh:history-of-the-stale-cache-kind")
	}
	// ---- metamorphic: the same mutators on a second object, no query, every run of pushes in the opposite order, every
	// run of filters collapsed into one (the larger threshold as uint) — same final answers (history_metamorphic)
	g2 := obikmer.MakeDeBruijnGraph(k)
	var muts []c19Step
	for _, st := range steps {
		if st.op == 'p' || st.op == 'f' {
			muts = append(muts, st)
		}
	}
	bad := false
	for i := 0; i < len(muts) && !bad; {
		j := i
		for j < len(muts) && muts[j].op == muts[i].op {
			j++
		}
		if muts[i].op == 'p' {
			for x := j - 1; x >= i; x-- {
				if c19Try(func() { g2.Push(c19NewRead(muts[x].read, muts[x].count)) }) {
					bad = true
				}
			}
		} else {
			mn := muts[i].min
			for x := i + 1; x < j; x++ {
				if uint(muts[x].min) > uint(mn) {
					mn = muts[x].min
				}
			}
			if j-i > 1 {
				stat("gh:filter-after-filter")
			}
			if c19Try(func() { g2.FilterMinWeight(mn) }) {
				bad = true
			}
		}
		i = j
	}
	if !bad {
		if a, b := c19Observe(g, k), c19Observe(g2, k); a != b {
			fail("hist.metamorphic", "after the history the object answers %s — a second object given the same mutators without any query (runs of pushes reversed, runs of filters collapsed) answers %s", a, b)
		}
	}
	stat(fmt.Sprintf("gh:steps~%d", len(steps)/4*4))
	caseOverride = fmt.Sprintf("gh %d %s", k, strings.Join(words, " "))
	return strings.Join(out, " ; ")
}

// ---------------------------------------------------------------------------------------------
// KmerMap histories

type c19IStep struct {
	push     bool
	seq      []byte
	self     int // >= 0: the query is the pushed record number self
	maxocc   int
	mincount int
}

func c19KH[T obifp.FPUint[T]](k uint, sparse bool, steps []c19IStep, fail func(sig, format string, a ...any)) string {
	km := obikmer.NewKmerMap[T](nil, k, sparse, -1)
	var pushed obiseq.BioSequenceSlice
	var occs []int
	id := map[*obiseq.BioSequence]int{}
	show := func(m obikmer.KmerMatch) string {
		r := map[int]int{}
		for s, n := range m {
			if i, ok := id[s]; ok {
				r[i] = n
			} else {
				r[-1-len(r)] = n
			}
		}
		return c19ShowMatch(r)
	}
	var out []string
	for i, st := range steps {
		if st.push {
			s := obiseq.NewBioSequence(fmt.Sprintf("s%d", len(pushed)), append([]byte{}, st.seq...), "")
			id[s] = len(pushed)
			pushed = append(pushed, s)
			occs = append(occs, st.maxocc)
			km.Push(s, st.maxocc)
			out = append(out, fmt.Sprintf("len=%d", km.Len()))
			continue
		}
		var q *obiseq.BioSequence
		if st.self >= 0 {
			q = pushed[st.self]
			stat("kh:query-is-a-reference")
		} else {
			q = obiseq.NewBioSequence("q", append([]byte{}, st.seq...), "")
		}
		ln := km.Len()
		match := km.Query(q)
		m := show(match)
		match.FilterMinCount(st.mincount)
		fl := show(match)
		if match.Len() != len(match) {
			fail("kh.len", "step %d: KmerMatch.Len = %d, %d entries", i+1, match.Len(), len(match))
		}
		if m != fl {
			stat("kh:filter-removes-some")
		}
		// the match belongs to the caller: filtering it changes neither the index nor the next answer
		if m2 := show(km.Query(q)); m2 != m || km.Len() != ln {
			fail("kh.query-not-repeatable", "step %d: Query answered m=%s, then after FilterMinCount(%d) on that answer m=%s (Len %d then %d)", i+1, m, st.mincount, m2, ln, km.Len())
		}
		// a fresh index given the same pushes and never asked before
		fk := obikmer.NewKmerMap[T](nil, k, sparse, -1)
		for j, s := range pushed {
			fk.Push(s, occs[j])
		}
		if m3 := show(fk.Query(q)); m3 != m || fk.Len() != ln {
			fail("kh.stale-answer", "step %d: Query answered m=%s (Len %d), a fresh index given the same %d pushes answers m=%s (Len %d)", i+1, m, ln, len(pushed), m3, fk.Len())
		}
		out = append(out, fmt.Sprintf("len=%d m=%s f=%s", ln, m, fl))
	}
	return strings.Join(out, " ; ")
}

func c19ExecKH(f []string, fail func(sig, format string, a ...any)) string {
	w, e1 := strconv.Atoi(f[1])
	k, e2 := strconv.Atoi(f[2])
	if e1 != nil || e2 != nil || (w != 64 && w != 128 && w != 256) || k < 1 || k > 200 || (f[3] != "0" && f[3] != "1") || len(f) < 5 {
		return "bad-op"
	}
	var steps []c19IStep
	np := 0
	for _, wd := range f[4:] {
		p := strings.Split(wd, ":")
		if len(p) != 3 {
			return "bad-op"
		}
		v, err := strconv.Atoi(p[2])
		if err != nil {
			return "bad-op"
		}
		switch p[0] {
		case "p":
			s, ok := unhx(p[1])
			if !ok || v < -1 || v > 1000000 {
				return "bad-op"
			}
			steps = append(steps, c19IStep{push: true, seq: s, maxocc: v})
			np++
		case "q":
			if v < -1000000 || v > 1000000 {
				return "bad-op"
			}
			if strings.HasPrefix(p[1], "@") {
				j, err := strconv.Atoi(p[1][1:])
				if err != nil || j < 0 || j >= np || strconv.Itoa(j) != p[1][1:] {
					return "bad-op"
				}
				steps = append(steps, c19IStep{self: j, mincount: v})
			} else {
				s, ok := unhx(p[1])
				if !ok {
					return "bad-op"
				}
				steps = append(steps, c19IStep{self: -1, seq: s, mincount: v})
			}
		default:
			return "bad-op"
		}
	}
	stat(fmt.Sprintf("kh:steps~%d", len(steps)/4*4))
	sparse := f[3] == "1"
	panicked := false
	res := ""
	if c19Try(func() {
		switch w {
		case 64:
			res = c19KH[obifp.Uint64](uint(k), sparse, steps, fail)
		case 128:
			res = c19KH[obifp.Uint128](uint(k), sparse, steps, fail)
		default:
			res = c19KH[obifp.Uint256](uint(k), sparse, steps, fail)
		}
	}) {
		panicked = true
	}
	if panicked {
		return "panic"
	}
	return res
}

// ---------------------------------------------------------------------------------------------
// generator: histories of 3-12 steps built so that cycles appear and disappear, weights cross the filter threshold, the
// graph becomes empty and is pushed to again

func c19GenHist(rng *rand.Rand, tier string, emit func(string)) {
	h := func(s string) string { return hx([]byte(s)) }
	half := c19Bits(0.5)
	// ---- corpus
	// the stale-cache history: amplicon x 10, chimera x 1 closing a cycle, a query, the filter that removes the chimera, a query
	amp := "acgtagctaggatcctgaacttgcat"
	chim := amp[14:22] + amp[2:10]
	emit(fmt.Sprintf("gh 5 p:%s:10 p:%s:1 q f:2 q", h(amp), h(chim)))
	emit(fmt.Sprintf("gh 5 p:%s:10 p:%s:1 c:%s:? f:2 c:%s:? q", h(amp), h(chim), half, half))
	emit(fmt.Sprintf("gh 5 p:%s:10 p:%s:1 f:2 q q", h(amp), h(chim)))                                   // no query before the filter
	emit(fmt.Sprintf("gh 5 p:%s:10 q p:%s:1 q f:2 q p:%s:3 q f:4 q f:11 q p:%s:2 q", h(amp), h(chim), h(chim), h(amp))) // cycle appears, disappears, reappears, disappears; empty graph; re-push
	emit(fmt.Sprintf("gh 3 p:%s:5 q p:%s:1 q f:2 q q c:%s:? f:100 q p:%s:2 q", h("acgtcag"), h("cagacg"), half, h("acgt")))
	emit(fmt.Sprintf("gh 3 q f:0 q f:-1 q p:%s:1 q f:-1 q", h("acgtacgt")))                              // queries on the empty graph, negative threshold
	emit(fmt.Sprintf("gh 3 p:%s:3 p:%s:5 f:4 f:2 q", h("acgtcag"), h("gtcagg")))                         // filter after filter
	emit(fmt.Sprintf("gh 3 p:%s:3 p:%s:5 f:2 f:4 f:-1 f:3 q", h("acgtcag"), h("gtcagg")))                //   ... with a negative one in the run
	emit(fmt.Sprintf("gh 3 p:%s:3 f:3 q p:%s:3 f:4 q f:6 q f:7 q", h("acgtcag"), h("acgtcag")))          // weights crossing the threshold after a re-push
	emit(fmt.Sprintf("gh 2 p:%s:1 q f:1 q f:2 q p:%s:4 q", h("aca"), h("acgt")))                         // cycle of weight 1 kept by f:1
	emit(fmt.Sprintf("gh 4 p:%s:6 p:%s:2 q f:3 q", h("acgtnacgtt"), h("ttacgta")))                       // ambiguity code, cycle
	emit(fmt.Sprintf("gh 31 p:%s:7 q f:8 q p:%s:9 q", h("acgtgcatgcaatgccgtagctagctaagctagcaatcgg"), h("acgtgcatgcaatgccgtagctagctaagctagcaatcgg")))
	emit(fmt.Sprintf("gh 32 p:%s:7 q f:7 q", h("acgtgcatgcaatgccgtagctagctaagctagcaatcgg")))
	emit(fmt.Sprintf("kh 128 4 0 p:%s:-1 q:%s:1 p:%s:-1 q:@0:2 q:@1:0 q:%s:3", h("acgtacgt"), h("acgtgg"), h("acgtgg"), h("ccacgt")))
	emit(fmt.Sprintf("kh 128 4 0 q:%s:0 p:%s:1 p:%s:1 p:%s:1 q:%s:0 q:@2:0", h("acgt"), h("acgtaa"), h("ccacgt"), h("acgtacgt"), h("acgt"))) // occurrence limit reached during the history
	emit(fmt.Sprintf("kh 64 5 1 p:%s:-1 q:%s:3 q:%s:3 p:%s:-1 q:%s:3", h("acgtnacgtta"), h("aacgtta"), h("aacgtta"), h("taacgt"), h("aacgtta")))

	n := 350
	if tier == "thorough" {
		n = 1500
	}
	for i := 0; i < n; i++ {
		var k int
		switch rng.Intn(8) {
		case 0:
			k = 2 + rng.Intn(2)
		case 1:
			k = 8 + rng.Intn(12)
		case 2:
			k = 28 + rng.Intn(4)
		default:
			k = 4 + rng.Intn(4)
		}
		alpha := "acgt"
		if rng.Intn(6) == 0 {
			alpha = "ac" // dense small graphs: cycles on their own
		}
		tl := 2*k + 6 + rng.Intn(3*k+8)
		tpl := c19RandSeq(rng, tl, alpha, 0)
		big := 5 + rng.Intn(16)
		low := 1 + rng.Intn(3)
		mkChim := func() []byte { // the end of the amplicon joined to an earlier part: closes a cycle
			a := 1 + rng.Intn(k+2)
			j := k + 2 + rng.Intn(len(tpl)-2*k-3)
			i0 := rng.Intn(j - k - 1)
			e1 := j + k + rng.Intn(3)
			if e1 > len(tpl) {
				e1 = len(tpl)
			}
			e0 := i0 + k + a
			if e0 > len(tpl) {
				e0 = len(tpl)
			}
			return append(append([]byte{}, tpl[j:e1]...), tpl[i0:e0]...)
		}
		variant := func() []byte {
			s := append([]byte{}, tpl...)
			switch rng.Intn(5) {
			case 0:
				a := rng.Intn(len(s) - k)
				s = s[a : a+k+rng.Intn(len(s)-a-k+1)]
			case 1:
				s[rng.Intn(len(s))] = "acgt"[rng.Intn(4)]
			case 2:
				s[rng.Intn(len(s))] = c19Amb[rng.Intn(len(c19Amb))]
			case 3:
				s = s[:rng.Intn(k+2)] // shorter than, equal to k, k+1
			}
			return s
		}
		var st []string
		push := func(r []byte, c int) { st = append(st, fmt.Sprintf("p:%s:%d", hx(r), c)) }
		query := func() {
			switch rng.Intn(7) {
			case 0:
				st = append(st, fmt.Sprintf("c:%s:?", c19Bits(c19Covs[rng.Intn(len(c19Covs))])))
			case 1:
				st = append(st, "q", "q")
			default:
				st = append(st, "q")
			}
		}
		switch rng.Intn(6) {
		case 0, 1: // a chimera of low count closes a cycle; a query; a filter above its count; a query
			push(tpl, big)
			if rng.Intn(2) == 0 {
				query()
			}
			push(mkChim(), low)
			if rng.Intn(5) > 0 {
				query()
			}
			st = append(st, fmt.Sprintf("f:%d", low+1+rng.Intn(2)))
			query()
			if rng.Intn(2) == 0 { // the cycle comes back, heavier
				push(mkChim(), low+rng.Intn(big))
				query()
				st = append(st, fmt.Sprintf("f:%d", big+rng.Intn(3)))
				query()
			}
		case 2: // weights crossing the threshold: the same read pushed again between filters
			c := 1 + rng.Intn(4)
			push(tpl, c)
			push(variant(), c)
			for j := 0; j < 2+rng.Intn(3); j++ {
				st = append(st, fmt.Sprintf("f:%d", c*(j+1)+rng.Intn(3)-1))
				query()
				push(tpl, c)
				if rng.Intn(3) == 0 {
					query()
				}
			}
		case 3: // the empty graph after a filter, re-push
			push(tpl, big)
			push(mkChim(), low)
			query()
			st = append(st, fmt.Sprintf("f:%d", []int{big + low + 1, -1, 1000000, big + 1}[rng.Intn(4)]))
			query()
			push(variant(), low)
			query()
			push(tpl, big)
			query()
		case 4: // runs of filters (filter m after filter m' = filter max)
			push(tpl, big)
			push(variant(), low)
			push(mkChim(), low+1)
			if rng.Intn(2) == 0 {
				query()
			}
			for j := 0; j < 2+rng.Intn(2); j++ {
				st = append(st, fmt.Sprintf("f:%d", []int{0, 1, low, low + 1, low + 2, big, big + 1, -1}[rng.Intn(8)]))
				if rng.Intn(3) == 0 {
					query()
				}
			}
			query()
		default: // anything
			for j := 3 + rng.Intn(9); j > 0; j-- {
				switch rng.Intn(6) {
				case 0, 1:
					push(variant(), 1+rng.Intn(big))
				case 2:
					push(mkChim(), low)
				case 3:
					st = append(st, fmt.Sprintf("f:%d", rng.Intn(big+3)))
				default:
					query()
				}
			}
		}
		if len(st) > 14 {
			st = st[:14]
		}
		emit(fmt.Sprintf("gh %d %s", k, strings.Join(st, " ")))
	}
	// ---- KmerMap histories
	nk := 120
	if tier == "thorough" {
		nk = 500
	}
	for i := 0; i < nk; i++ {
		w := []int{64, 128, 128, 256}[rng.Intn(4)]
		k := 2 + rng.Intn(7)
		sparse := rng.Intn(2)
		alpha := "acgt"
		if rng.Intn(5) == 0 {
			alpha = "ac"
		}
		tpl := c19RandSeq(rng, k+2+rng.Intn(4*k+10), alpha, 0)
		seq := func() []byte {
			s := append([]byte{}, tpl...)
			switch rng.Intn(5) {
			case 0:
				s = c19RandSeq(rng, rng.Intn(3*k+4), alpha, 0)
			case 1:
				s = []byte(c19RcLoose(s))
			case 2:
				a := rng.Intn(len(s))
				s = s[a : a+rng.Intn(len(s)-a+1)]
			}
			for m := rng.Intn(3); m > 0 && len(s) > 0; m-- {
				s[rng.Intn(len(s))] = alpha[rng.Intn(len(alpha))]
			}
			return s
		}
		maxocc := -1
		if rng.Intn(3) == 0 {
			maxocc = rng.Intn(6)
		}
		var st []string
		np := 0
		for j := 3 + rng.Intn(9); j > 0; j-- {
			if np == 0 || rng.Intn(2) == 0 {
				st = append(st, fmt.Sprintf("p:%s:%d", hx(seq()), maxocc))
				np++
			} else if rng.Intn(3) == 0 {
				st = append(st, fmt.Sprintf("q:@%d:%d", rng.Intn(np), rng.Intn(6)))
			} else {
				st = append(st, fmt.Sprintf("q:%s:%d", hx(seq()), rng.Intn(6)))
			}
		}
		if rng.Intn(4) == 0 {
			st = append([]string{fmt.Sprintf("q:%s:0", hx(seq()))}, st...) // a query on the empty index
		}
		emit(fmt.Sprintf("kh %d %d %d %s", w, k, sparse, strings.Join(st, " ")))
	}
}
