//go:build c10

package main

// conc — the matcher under concurrent use (the parallel batch workers of obipcr, obigrep, obimultiplex all call
// FindAllIndex at the same time, one compiled pattern shared by the workers, one ApatSequence per record).
//
//	conc <g> <r> <n>  n × [ <pat> <emax> <indel> <seq> ]      -> <hits of sub-case 1> ; <hits of sub-case 2> ; ...
//
// The result line is what the n scans answer one after the other (the model recomputes it: findAllIndex of each
// sub-case); the oracle then runs the same n scans from g goroutines released together, r rounds, and demands the same
// answer from every one of them: a scan shares no state with another scan (seeded change C10-m4: a static state array).

import (
	"fmt"
	"math/rand"
	"strconv"
	"strings"
	"sync"
	"time"

	"git.metabarcoding.org/obitools/obitools4/obitools4/pkg/obiapat"
	"git.metabarcoding.org/obitools/obitools4/obitools4/pkg/obiseq"
)

type c10Sub struct {
	pat   string
	e     int
	indel bool
	seq   []byte
}

func c10ParseConc(f []string) (g, r int, subs []c10Sub, ok bool) {
	if len(f) < 4 {
		return
	}
	g, e1 := strconv.Atoi(f[1])
	r, e2 := strconv.Atoi(f[2])
	n, e3 := strconv.Atoi(f[3])
	if e1 != nil || e2 != nil || e3 != nil || g < 1 || g > 64 || r < 1 || r > 50 || n < 1 || n > 32 || len(f) != 4+4*n {
		return
	}
	for i := 0; i < n; i++ {
		w := f[4+4*i : 8+4*i]
		pb, ok1 := unhx(w[0])
		e, e4 := strconv.Atoi(w[1])
		sb, ok2 := unhx(w[3])
		if !ok1 || !ok2 || e4 != nil || e < 0 || e > 63 || (w[2] != "0" && w[2] != "1") || len(pb) == 0 || len(pb) > 60 {
			return
		}
		subs = append(subs, c10Sub{string(pb), e, w[2] == "1", sb})
	}
	return g, r, subs, true
}

func c10ExecConc(f []string) (string, []Fail) {
	g, r, subs, ok := c10ParseConc(f)
	if !ok {
		return "bad-op", nil
	}
	var fails []Fail
	res := guardT(120*time.Second, func() string {
		pats := make([]obiapat.ApatPattern, len(subs))
		for i, s := range subs {
			p, err := obiapat.MakeApatPattern(s.pat, s.e, s.indel)
			if err != nil {
				return "bad-op"
			}
			pats[i] = p
		}
		scan := func(i int) string {
			bs := obiseq.NewBioSequence("s", append([]byte{}, subs[i].seq...), "")
			as, err := obiapat.MakeApatSequence(bs, false)
			if err != nil {
				return "seqerr"
			}
			defer as.Free()
			return c10Hits(pats[i].FindAllIndex(as, 0, -1))
		}
		alone := make([]string, len(subs))
		for i := range subs {
			alone[i] = scan(i)
		}
		// the same scans, from g goroutines released together
		type bad struct {
			i        int
			got      string
			goroutine int
		}
		var mu sync.Mutex
		var first *bad
		nbad, total := 0, 0
		start := make(chan struct{})
		var wg sync.WaitGroup
		for k := 0; k < g; k++ {
			wg.Add(1)
			go func(k int) {
				defer wg.Done()
				defer func() { recover() }()
				<-start
				for round := 0; round < r; round++ {
					for j := range subs {
						i := (j + k) % len(subs)
						got := scan(i)
						mu.Lock()
						total++
						if got != alone[i] {
							nbad++
							if first == nil {
								first = &bad{i, got, k}
							}
						}
						mu.Unlock()
					}
				}
			}(k)
		}
		close(start)
		wg.Wait()
		stat(fmt.Sprintf("conc:g%d", g))
		if total != g*r*len(subs) {
			fails = append(fails, Fail{"conc.panic", fmt.Sprintf("%d of %d concurrent scans did not finish (panic)", g*r*len(subs)-total, g*r*len(subs))})
		}
		if first != nil {
			short := func(s string) string {
				if len(s) > 160 {
					return s[:160] + "…"
				}
				return s
			}
			fails = append(fails, Fail{"conc.differs", fmt.Sprintf(
				"%d of %d concurrent scans differ from the scan run alone; e.g. sub-case %d (pattern %s, budget %d, indel %v) in goroutine %d: alone %s, concurrently %s",
				nbad, total, first.i, subs[first.i].pat, subs[first.i].e, subs[first.i].indel, first.goroutine, short(alone[first.i]), short(first.got))})
		}
		return strings.Join(alone, " ; ")
	})
	return res, fails
}

// c10GenConc: primers of 14..24 positions with their occurrences (mutated within and beyond the budget) planted in long
// random sequences, so that the state words of every error level are busy while the other goroutines scan
func c10GenConc(rng *rand.Rand, tier string, emit func(string)) {
	ncase, seqlen, g, r := 3, 40000, 8, 3
	if tier == "thorough" {
		ncase, seqlen, g, r = 12, 120000, 16, 4
	}
	for c := 0; c < ncase; c++ {
		n := 3 + rng.Intn(3)
		var b strings.Builder
		fmt.Fprintf(&b, "conc %d %d %d", g, r, n)
		for i := 0; i < n; i++ {
			m := 14 + rng.Intn(11)
			pat := ""
			for j := 0; j < m; j++ {
				if rng.Intn(6) == 0 {
					pat += string("RYSWKMBDHVN"[rng.Intn(11)])
				} else {
					pat += string("ACGT"[rng.Intn(4)])
				}
			}
			e := 1 + rng.Intn(4)
			if i == 0 {
				e = 0 // one scan without error budget (ManberNoErr) among the others
			}
			indel := i == n-1 && rng.Intn(2) == 0
			toks, _ := c10Parse(pat)
			seq := c10RandSeq(rng, seqlen, 0)
			for k := 0; k < seqlen/400; k++ {
				w := c10Mutate(rng, c10Instance(rng, toks), rng.Intn(e+2), indel)
				pos := rng.Intn(seqlen - len(w))
				copy(seq[pos:], w)
			}
			ib := 0
			if indel {
				ib = 1
			}
			fmt.Fprintf(&b, " %s %d %d %s", hx([]byte(pat)), e, ib, hx(seq))
		}
		emit(b.String())
		stat("gen:conc")
	}
}
