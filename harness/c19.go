//go:build c19

package main

// C19 — Exact De Bruijn weights and heaviest path; strand-invariant canonical k-mers.
//
// Case lines
//   e4 <hexseq>                       Encode4mer (nil buffer and a reused buffer)
//   c4 <hexunit> <reps>               Count4Mer on unit repeated reps times
//   nk <W> <k> <sparse> <hexseq>      NewKmerMap[UintW](nil, k, sparse, -1).NormalizedKmerSlice + KmerAsString
//   g <k> <hexseq>:<count> ...        MakeDeBruijnGraph(k), Push each read, nodes/weights/Nexts/Previouses,
//                                     HasCycle, HaviestPath, LongestConsensus(id, 0)
//   conc <g> <r> | <sub-case> | ...   the operations above from g goroutines at the same time (c19_conc.go)
//   gh <k> <step> ... / kh <W> <k> <sparse> <step> ...   histories of mutators and queries on ONE object (c19_hist.go)
// Results are described next to each operation in Exec.

import (
	"fmt"
	"math"
	"math/big"
	"math/rand"
	"os"
	"runtime"
	"slices"
	"sort"
	"strconv"
	"strings"
	"time"
	"unsafe"

	"git.metabarcoding.org/obitools/obitools4/obitools4/pkg/obifp"
	"git.metabarcoding.org/obitools/obitools4/obitools4/pkg/obikmer"
	"git.metabarcoding.org/obitools/obitools4/obitools4/pkg/obiseq"
)

type c19 struct{}

func init() { props["C19"] = c19{} }

// ---------------------------------------------------------------------------------------------
// naive references (independent of the bit manipulations of the code under test)

var c19Iupac = map[byte]string{
	'a': "a", 'c': "c", 'g': "g", 't': "t", 'u': "t",
	'r': "ag", 'y': "ct", 's': "cg", 'w': "at", 'k': "gt", 'm': "ac",
	'b': "cgt", 'd': "agt", 'h': "act", 'v': "acg", 'n': "acgt",
}

var c19Comp = map[byte]byte{
	'a': 't', 'c': 'g', 'g': 'c', 't': 'a', 'u': 'a', 'r': 'y', 'y': 'r', 's': 's', 'w': 'w', 'k': 'm', 'm': 'k',
	'b': 'v', 'd': 'h', 'h': 'd', 'v': 'b', 'n': 'n',
}

func c19Lower(s []byte) []byte {
	o := make([]byte, len(s))
	for i, b := range s {
		if b >= 'A' && b <= 'Z' {
			b |= 32
		}
		o[i] = b
	}
	return o
}

func c19Digit(b byte) int {
	switch b {
	case 'a':
		return 0
	case 'c':
		return 1
	case 'g':
		return 2
	case 't', 'u':
		return 3
	}
	return -1
}

// value of a string over acgt read as a base-4 number
func c19Val(s string) *big.Int {
	v := new(big.Int)
	for i := 0; i < len(s); i++ {
		v.Lsh(v, 2)
		v.Or(v, big.NewInt(int64(c19Digit(s[i]))))
	}
	return v
}

func c19Str(v uint64, k int) string {
	b := make([]byte, k)
	for i := 0; i < k; i++ {
		b[k-1-i] = "acgt"[(v>>(2*uint(i)))&3]
	}
	return string(b)
}

func c19RcStr(s string) string {
	o := make([]byte, len(s))
	for i := 0; i < len(s); i++ {
		o[len(s)-1-i] = c19Comp[s[i]]
	}
	return string(o)
}

// naive 4-mer codes: every letter other than a,c,g,t,u counts as a
func c19Naive4(s []byte) []byte {
	var out []byte
	for i := 0; i+4 <= len(s); i++ {
		c := 0
		for j := 0; j < 4; j++ {
			d := c19Digit(s[i+j])
			if d < 0 {
				d = 0
			}
			c = c*4 + d
		}
		out = append(out, byte(c))
	}
	return out
}

func c19AllLetters(s []byte) bool {
	for _, b := range s {
		if b < 'a' || b > 'z' {
			return false
		}
	}
	return true
}

// naive canonical k-mers of a lower-case sequence: windows of k unambiguous bases, each the smaller of the
// window and its reverse complement, the central base (index k/2) being removed from both in sparse mode
func c19NaiveCanon(s []byte, k int, sparse bool) []*big.Int {
	var out []*big.Int
	for i := 0; i+k <= len(s); i++ {
		ok := true
		for j := 0; j < k; j++ {
			if c19Digit(s[i+j]) < 0 {
				ok = false
				break
			}
		}
		if !ok {
			continue
		}
		fw := strings.ReplaceAll(string(s[i:i+k]), "u", "t")
		rv := c19RcStr(fw)
		if sparse {
			fw = fw[:k/2] + fw[k/2+1:]
			rv = rv[:k/2] + rv[k/2+1:]
		}
		a, b := c19Val(fw), c19Val(rv)
		if b.Cmp(a) < 0 {
			a = b
		}
		out = append(out, a)
	}
	return out
}

func c19Expand(w []byte) []string {
	out := []string{""}
	for _, b := range w {
		alts, ok := c19Iupac[b]
		if !ok {
			return nil
		}
		var nx []string
		for _, p := range out {
			for i := 0; i < len(alts); i++ {
				nx = append(nx, p+string(alts[i]))
			}
		}
		out = nx
	}
	return out
}

// ---------------------------------------------------------------------------------------------
// generator

const c19Amb = "rymkswbdhvn"

func c19RandSeq(rng *rand.Rand, n int, alpha string, pAmb int) []byte {
	s := make([]byte, n)
	for i := range s {
		s[i] = alpha[rng.Intn(len(alpha))]
		if pAmb > 0 && rng.Intn(pAmb) == 0 {
			s[i] = c19Amb[rng.Intn(len(c19Amb))]
		}
	}
	return s
}

func c19Reads(reads [][]byte, counts []int) string {
	var b strings.Builder
	for i, r := range reads {
		fmt.Fprintf(&b, " %s:%d", hx(r), counts[i])
	}
	return b.String()
}

func (c19) Gen(rng *rand.Rand, tier string, emit func(string)) {
	if os.Getenv("VERIF_C19_ONLY") == "ks" { // development aid: the glue-pass cases alone (other PRNG draws than in a full run)
		c19GenGlue(rng, tier, emit)
		return
	}
	if os.Getenv("VERIF_C19_ONLY") == "cons" { // development aid: the obiconsensus cases alone
		c19GenCons(rng, tier, emit)
		return
	}
	if os.Getenv("VERIF_C19_ONLY") == "kmc" { // development aid: the obikmermatch concurrent cases alone
		c19GenKmc(rng, tier, emit)
		return
	}
	h := func(s string) string { return hx([]byte(s)) }
	// ---- corpus: hand-picked cases (the first ones pin the defects found on the unchanged code)
	for _, s := range []string{"", "a", "ac", "acg", "acgt", "acgta", "ACGTU", "nnnnn", "acgtnacgt", "tttttttt", "ac.t-", "xyzacgt", "a4a4a"} {
		emit("e4 " + h(s))
	}
	emit("c4 " + h("acg") + " 1")
	emit("c4 " + h("acgt") + " 1")
	emit("c4 " + h("a") + " 65538")
	emit("c4 " + h("a") + " 65539") // 65536 occurrences of aaaa in a uint16 cell
	emit("c4 " + h("ac") + " 40000")
	// D24: roll without mask, k=6, Uint128 (as in obikmersim), sequence longer than k
	emit("nk 128 6 0 " + h("gattacagattaca"))
	emit("nk 128 6 0 " + h("tgtaatctgtaatc"))
	emit("nk 64 6 0 " + h("gattacagattaca"))
	emit("nk 256 6 0 " + h("gattacagattaca"))
	emit("nk 128 7 1 " + h("atcgggttccaacc"))
	// D26b: k*2 == width
	emit("nk 64 32 0 " + h(strings.Repeat("acgtgcatgcaatgcc", 3)))
	emit("nk 128 64 0 " + h(strings.Repeat("acgtgcatgcaatgcc", 5)))
	emit("nk 256 128 0 " + h(strings.Repeat("acgtgcatgcaatgcc", 9)))
	emit("nk 128 63 1 " + h(strings.Repeat("acgtgcatgcaatgcc", 5)))
	emit("nk 128 31 1 " + h(strings.Repeat("acgtgcatgcaatgcc", 5)))
	emit("nk 128 2 0 " + h("acgtnacgturyacg"))
	emit("nk 128 3 1 " + h("acgtnacgturyacg"))
	emit("nk 128 4 0 " + h("acg"))
	emit("nk 128 4 0 " + h("acgt"))
	emit("nk 128 4 0 -")
	// graphs
	emit("g 4 " + h("acgt") + ":3")                          // D26a: a read of exactly k bases
	emit("g 4 " + h("acgtc") + ":3 " + h("cgtc") + ":2")     // same, together with a longer read
	emit("g 4 " + h("acg") + ":3")                           // shorter than k
	emit("g 2 " + h("aca") + ":1")                           // no repeated k-mer, repeated (k-1)-mer: cycle
	emit("g 3 " + h("acgtcag") + ":1")                       // single read, round trip
	emit("g 3 " + h("ncgtcag") + ":1")                       // ambiguity at the first base: downstream weights
	emit("g 3 " + h("acgtcan") + ":1")                       // ambiguity at the last base
	emit("g 3 " + h("acgncag") + ":2")                       // ambiguity in the middle
	emit("g 3 " + h("acgtcag") + ":5 " + h("acgacag") + ":2") // bubble
	emit("g 3 " + h("acgtacgt") + ":1")                      // cycle
	emit("g 3 " + h("aaaa") + ":1")                          // self loop on node 0
	emit("g 3 " + h("ttttt") + ":1")                         // self loop
	emit("g 3 " + h("acg.cag") + ":1")                       // byte outside the IUPAC table after the first k-mer
	emit("g 3 " + h("a.gtcag") + ":1")                       // ... inside the first k-mer
	emit("g 3")                                              // empty graph
	emit("g 31 " + h("acgtgcatgcaatgccgtagctagctaagctagcaatcgg") + ":7")
	emit("g 32 " + h("acgtgcatgcaatgccgtagctagctaagctagcaatcgg") + ":7")
	emit("g 1 " + h("acgt") + ":1")
	emit("g 5 " + h("acgtuacgga") + ":2")

	n := 1
	if tier == "thorough" {
		n = 8
	}
	// ---- 4-mers
	for i := 0; i < 700*n; i++ {
		l := rng.Intn(12)
		if rng.Intn(4) == 0 {
			l = rng.Intn(300)
		}
		alpha := "acgt"
		switch rng.Intn(6) {
		case 0:
			alpha = "acgtunrykmACGTN"
		case 1:
			alpha = "acgtu.-[]xz019"
		}
		emit("e4 " + hx(c19RandSeq(rng, l, alpha, 0)))
	}
	for i := 0; i < 150*n; i++ {
		u := c19RandSeq(rng, 1+rng.Intn(9), "acgtun", 0)
		emit(fmt.Sprintf("c4 %s %d", hx(u), 1+rng.Intn(60)))
	}
	// ---- canonical k-mers
	widths := []int{64, 128, 256}
	for i := 0; i < 2500*n; i++ {
		wi := rng.Intn(3)
		if rng.Intn(2) == 0 {
			wi = 1 // the instantiation used by obikmersim
		}
		w := widths[wi]
		maxk := w / 2
		var k int
		switch rng.Intn(5) {
		case 0:
			k = 2 + rng.Intn(6)
		case 1:
			k = maxk - rng.Intn(4)
		default:
			k = 2 + rng.Intn(maxk-1)
		}
		if w == 256 && rng.Intn(3) > 0 {
			k = 2 + rng.Intn(63)
		}
		sparse := rng.Intn(2)
		// lengths around k, and beyond the machine word
		var l int
		switch rng.Intn(6) {
		case 0:
			l = rng.Intn(k + 1)
		case 1:
			l = k + rng.Intn(3)
		case 2:
			l = w/2 + rng.Intn(40)
		default:
			l = k + rng.Intn(3*k+10)
		}
		pAmb := 0
		switch rng.Intn(4) {
		case 0:
			pAmb = 25
		case 1:
			pAmb = 6
		}
		alpha := "acgt"
		if rng.Intn(8) == 0 {
			alpha = "acgtu"
		}
		if rng.Intn(12) == 0 {
			alpha = "at" // palindromic k-mers
		}
		emit(fmt.Sprintf("nk %d %d %d %s", w, k, sparse, hx(c19RandSeq(rng, l, alpha, pAmb))))
	}
	// ---- graphs
	for i := 0; i < 2200*n; i++ {
		k, reads, counts := c19GenGraph(rng)
		emit(fmt.Sprintf("g %d%s", k, c19Reads(reads, counts)))
	}
	c19GenMore(rng, n, emit)
	c19GenKM(rng, n, emit)
	c19GenConc(rng, tier, emit) // last: the cases above keep their PRNG draws
	c19GenHist(rng, tier, emit) // fourth pass: histories on one object (after conc: every earlier case keeps its draws)
	c19GenGlue(rng, tier, emit) // glue pass: the commands of pkg/obitools/obikmersim (last: every earlier case keeps its draws)
	c19GenKmc(rng, tier, emit)  // obikmermatch under concurrent use (c19_match.go; last: every earlier case keeps its draws)
	c19GenCons(rng, tier, emit) // obiconsensus command level (c19_cons.go; last: every earlier case keeps its draws)
}

// one random graph case: k, reads derived from a template, counts
func c19GenGraph(rng *rand.Rand) (int, [][]byte, []int) {
	var k int
	switch rng.Intn(6) {
	case 0, 1, 2:
		k = 2 + rng.Intn(4)
	case 3:
		k = 6 + rng.Intn(8)
	case 4:
		k = 14 + rng.Intn(18)
	default:
		k = 2 + rng.Intn(30)
	}
	alpha := "acgt"
	if k <= 4 && rng.Intn(2) == 0 {
		alpha = "cgt"[:2+rng.Intn(2)] // few letters, small k: dense graphs with many branches
	}
	tl := k + rng.Intn(3*k+8)
	if rng.Intn(6) == 0 {
		tl = rng.Intn(k + 2)
	}
	tpl := c19RandSeq(rng, tl, alpha, 0)
	if rng.Intn(5) == 0 && tl > k+2 {
		// a repeat inside the template: branches or cycles
		a := rng.Intn(tl - k)
		tpl = append(tpl, tpl[a:a+k-1+rng.Intn(2)]...)
		tpl = append(tpl, c19RandSeq(rng, rng.Intn(6), alpha, 0)...)
	}
	nr := 1 + rng.Intn(5)
	if rng.Intn(4) == 0 {
		nr = 1
	}
	var reads [][]byte
	var counts []int
	for r := 0; r < nr; r++ {
		rd := append([]byte{}, tpl...)
		// substitutions, truncations
		for m := rng.Intn(3); m > 0 && len(rd) > 0 && r > 0; m-- {
			rd[rng.Intn(len(rd))] = alpha[rng.Intn(len(alpha))]
		}
		if len(rd) > 0 {
			switch rng.Intn(8) {
			case 0:
				rd = rd[:rng.Intn(len(rd)+1)]
			case 1:
				if len(rd) >= k {
					a := rng.Intn(len(rd) - k + 1)
					rd = rd[a : a+k] // exactly k bases
				}
			case 2:
				rd = rd[rng.Intn(len(rd)):]
			}
		}
		// ambiguity codes: at most three per read (the expansion is exponential)
		if rng.Intn(4) == 0 && len(rd) > 0 {
			for m := 1 + rng.Intn(3); m > 0; m-- {
				rd[rng.Intn(len(rd))] = c19Amb[rng.Intn(len(c19Amb))]
			}
		}
		if rng.Intn(30) == 0 && len(rd) > 0 {
			rd[rng.Intn(len(rd))] = 'u'
		}
		if rng.Intn(150) == 0 && len(rd) > 0 {
			rd[rng.Intn(len(rd))] = ".-x"[rng.Intn(3)]
		}
		c := 1
		if rng.Intn(2) == 0 {
			c = 1 + rng.Intn(20)
		}
		reads = append(reads, rd)
		counts = append(counts, c)
	}
	return k, reads, counts
}

// ---------------------------------------------------------------------------------------------
// execution

func c19Try(f func()) (panicked bool) {
	defer func() {
		if r := recover(); r != nil {
			panicked = true
		}
	}()
	f()
	return false
}

func c19Big(limbs []uint64) *big.Int {
	v := new(big.Int)
	for _, l := range limbs {
		v.Lsh(v, 64)
		v.Or(v, new(big.Int).SetUint64(l))
	}
	return v
}

// one instantiation of the k-mer index
func c19Index[T obifp.FPUint[T]](k uint, sparse bool, s []byte, limbs func(T) []uint64) (keff int, sparseAt int, vals []*big.Int, strs []string, bufOK bool) {
	km := obikmer.NewKmerMap[T](obiseq.BioSequenceSlice{}, k, sparse, -1)
	seq := obiseq.NewBioSequence("x", append([]byte{}, s...), "")
	kmers := km.NormalizedKmerSlice(seq, nil)
	for _, x := range kmers {
		vals = append(vals, c19Big(limbs(x)))
		strs = append(strs, km.KmerAsString(x))
	}
	// the same through a reused buffer
	buf := make([]T, 3, 8)
	k2 := km.NormalizedKmerSlice(seq, &buf)
	bufOK = len(k2) == len(kmers)
	for i := range k2 {
		if bufOK && c19Big(limbs(k2[i])).Cmp(vals[i]) != 0 {
			bufOK = false
		}
	}
	return int(km.Kmersize), km.SparseAt, vals, strs, bufOK
}

func c19RunIndex(w int, k uint, sparse bool, s []byte) (int, int, []*big.Int, []string, bool) {
	switch w {
	case 64:
		return c19Index[obifp.Uint64](k, sparse, s, func(x obifp.Uint64) []uint64 { return x.VerifLimbs() })
	case 128:
		return c19Index[obifp.Uint128](k, sparse, s, func(x obifp.Uint128) []uint64 { return x.VerifLimbs() })
	}
	return c19Index[obifp.Uint256](k, sparse, s, func(x obifp.Uint256) []uint64 { return x.VerifLimbs() })
}

func c19Multiset(v []*big.Int) string {
	s := make([]string, len(v))
	for i, x := range v {
		s[i] = fmt.Sprintf("%080s", x.Text(16))
	}
	sort.Strings(s)
	return strings.Join(s, ",")
}

func (c19) Exec(c string) (string, []Fail) {
	f := strings.Fields(c)
	if len(f) == 0 {
		return "bad-op", nil
	}
	var fails []Fail
	fail := func(sig, format string, a ...any) {
		fails = append(fails, Fail{Sig: sig, Text: fmt.Sprintf(format, a...)})
	}
	stat("op:" + f[0])
	if f[0] == "conc" { // concurrent use (c19_conc.go): its own watchdog
		return c19ExecConc(f)
	}
	if f[0] == "kmc" { // obikmermatch under concurrent use (c19_match.go): child process, its own watchdog
		return c19ExecKmc(f)
	}
	if f[0] == "ks" { // glue pass (c19_glue.go): the commands obikmersimcount / obikmermatch, their own watchdog
		res := c19ExecGlue(f, fail)
		return res, fails
	}
	if f[0] == "cons" { // short glue pass (c19_cons.go): obiconsensus.BuildConsensus, its own watchdog
		res := c19ExecCons(f, fail)
		return res, fails
	}
	if f[0] == "race" && len(f) > 1 && f[1] == "conc" { // the same through a -race build
		return c19Race(f[1:])
	}
	res := guardT(20*time.Second, func() string {
		switch {
		// ------------------------------------------------------------------------------------
		case f[0] == "e4" && len(f) == 2:
			// result: hex of the codes ("-" when there is none), or "panic"
			s, ok := unhx(f[1])
			if !ok {
				return "bad-op"
			}
			low := c19Lower(s)
			want := c19Naive4(low)
			stat(fmt.Sprintf("e4:len%s", map[bool]string{true: "<4", false: ">=4"}[len(s) < 4]))
			var got []byte
			if c19Try(func() { got = obikmer.Encode4mer(obiseq.NewBioSequence("x", append([]byte{}, s...), ""), nil) }) {
				if len(s) < 4 {
					fail("e4.short-panic", "Encode4mer panics on a sequence of %d bases, expected no 4-mer", len(s))
				} else {
					fail("e4.panic", "Encode4mer panics on %q", low)
				}
				return "panic"
			}
			if c19AllLetters(low) && string(got) != string(want) {
				fail("e4.value", "Encode4mer(%q) = %v expected %v", low, got, want)
			}
			buf := make([]byte, 5, 16)
			got2 := obikmer.Encode4mer(obiseq.NewBioSequence("x", append([]byte{}, s...), ""), &buf)
			if string(got2) != string(got) {
				fail("e4.buffer", "with a reused buffer %v, without %v", got2, got)
			}
			return hx(got)
		// ------------------------------------------------------------------------------------
		case f[0] == "c4" && len(f) == 3:
			// result: code:count of the non-zero cells, ascending code, comma separated ("-" if none)
			u, ok := unhx(f[1])
			reps, err := strconv.Atoi(f[2])
			if !ok || err != nil || reps < 0 || reps*len(u) > 1<<22 {
				return "bad-op"
			}
			s := []byte(strings.Repeat(string(u), reps))
			low := c19Lower(s)
			var tab *obikmer.Table4mer
			if c19Try(func() { tab = obikmer.Count4Mer(obiseq.NewBioSequence("x", s, ""), nil, nil) }) {
				if len(s) < 4 {
					fail("c4.short-panic", "Count4Mer panics on a sequence of %d bases", len(s))
				} else {
					fail("c4.panic", "Count4Mer panics")
				}
				return "panic"
			}
			want := make([]int, 256)
			for _, cd := range c19Naive4(low) {
				want[cd]++
			}
			var parts []string
			for i := 0; i < 256; i++ {
				if c19AllLetters(low) && int(tab[i]) != want[i] {
					if want[i] > 65535 {
						fail("c4.overflow16", "4-mer %d occurs %d times, table says %d", i, want[i], tab[i])
					} else {
						fail("c4.value", "4-mer %d occurs %d times, table says %d", i, want[i], tab[i])
					}
				}
				if tab[i] != 0 {
					parts = append(parts, fmt.Sprintf("%d:%d", i, tab[i]))
				}
			}
			// a dirty table and a reused buffer must give the same
			var dirty obikmer.Table4mer
			for i := range dirty {
				dirty[i] = 7
			}
			buf := make([]byte, 2, 4)
			t2 := obikmer.Count4Mer(obiseq.NewBioSequence("x", append([]byte{}, low...), ""), &buf, &dirty)
			if *t2 != *tab {
				fail("c4.reuse", "reused table/buffer gives another result")
			}
			if len(parts) == 0 {
				return "-"
			}
			return strings.Join(parts, ",")
		// ------------------------------------------------------------------------------------
		case f[0] == "nk" && len(f) == 5:
			// result: k=<effective k> sp=<SparseAt> <hexvalue>/<KmerAsString>,... ("-" if none), or "panic"
			w, e1 := strconv.Atoi(f[1])
			k, e2 := strconv.Atoi(f[2])
			s, ok := unhx(f[4])
			if e1 != nil || e2 != nil || !ok || (w != 64 && w != 128 && w != 256) || k < 1 || k > 200 || (f[3] != "0" && f[3] != "1") {
				return "bad-op"
			}
			sparse := f[3] == "1"
			low := c19Lower(s)
			// effective k as NewKmerMap documents it: even in dense mode, odd in sparse mode
			keff := k
			if sparse && k%2 == 0 {
				keff++
			}
			if !sparse && k%2 == 1 {
				keff--
			}
			stat(fmt.Sprintf("nk:w%d", w))
			switch {
			case len(s) < keff:
				stat("nk:len<k")
			case len(s) == keff:
				stat("nk:len=k")
			case len(s) > w/2:
				stat("nk:len>word")
			default:
				stat("nk:len>k")
			}
			if sparse {
				stat("nk:sparse")
			}
			switch {
			case 2*keff == w:
				stat("nk:2k=W")
			case 2*keff == w-2:
				stat("nk:2k=W-2")
			case 2*keff > w:
				stat("nk:2k>W")
			}
			if 2*keff > w || keff < 1 {
				caseTrivial = true // outside the domain of the word type
			}
			var (
				gk, gsp int
				vals    []*big.Int
				strs    []string
				bufOK   bool
			)
			if c19Try(func() { gk, gsp, vals, strs, bufOK = c19RunIndex(w, uint(k), sparse, s) }) {
				if 2*keff == w {
					fail("nk.full-width-panic", "NewKmerMap/NormalizedKmerSlice panics for k=%d on %d-bit words", keff, w)
				} else if 2*keff < w && keff >= 1 {
					fail("nk.panic", "panic for k=%d on %d-bit words", keff, w)
				}
				return "panic"
			}
			if !bufOK {
				fail("nk.buffer", "reused buffer gives another result")
			}
			if 2*keff <= w && keff >= 1 {
				if gk != keff {
					fail("nk.keff", "effective k %d expected %d", gk, keff)
				}
				want := c19NaiveCanon(low, keff, sparse)
				same := len(want) == len(vals)
				for i := 0; same && i < len(want); i++ {
					same = want[i].Cmp(vals[i]) == 0
				}
				if !same {
					cls := "nk.canonical"
					if len(low) > keff && !sparse {
						cls = "nk.canonical-dense-long"
					}
					fail(cls, "k=%d sparse=%v W=%d: canonical k-mers %s expected %s", keff, sparse, w, c19Multiset(vals), c19Multiset(want))
				}
				// strand invariance on the real code: the reverse complement gives the same multiset
				rc := []byte(c19RcLoose(low))
				var v2 []*big.Int
				if !c19Try(func() { _, _, v2, _, _ = c19RunIndex(w, uint(k), sparse, rc) }) {
					if c19Multiset(v2) != c19Multiset(vals) {
						cls := "nk.strand"
						if len(low) > keff && !sparse {
							cls = "nk.strand-dense-long"
						}
						fail(cls, "k=%d sparse=%v W=%d: sequence gives %d k-mers, its reverse complement a different multiset", keff, sparse, w, len(vals))
					}
				}
			}
			parts := make([]string, len(vals))
			for i := range vals {
				parts[i] = vals[i].Text(16) + "/" + strs[i]
			}
			out := "-"
			if len(parts) > 0 {
				out = strings.Join(parts, ",")
			}
			return fmt.Sprintf("k=%d sp=%d %s", gk, gsp, out)
		// ------------------------------------------------------------------------------------
		case f[0] == "km" && len(f) >= 9:
			return c19ExecKM(f, fail)
		case f[0] == "gh" && len(f) >= 3: // histories on one graph object (c19_hist.go)
			return c19ExecHist(f, fail)
		case f[0] == "kh" && len(f) >= 5: // histories on one KmerMap object
			return c19ExecKH(f, fail)
		case f[0] == "gf" && len(f) >= 3:
			// result: mw=<MaxWeight> len=<Len> followed by the result of g on the filtered graph
			k, e1 := strconv.Atoi(f[1])
			mn, e2 := strconv.Atoi(f[2])
			reads, counts, ok := c19ParseReads(f[3:])
			if e1 != nil || e2 != nil || !ok || k < 1 || k > 32 || mn < -1000000 || mn > 1000000 {
				return "bad-op"
			}
			return c19Graph(k, reads, counts, fail, &mn)
		case f[0] == "gc" && len(f) >= 4:
			// result: mw=<MaxWeight> len=<Len> cons=<hexseq|err|panic>
			k, e1 := strconv.Atoi(f[1])
			bits, e2 := strconv.ParseUint(f[2], 16, 64)
			reads, counts, ok := c19ParseReads(f[4:])
			mc := math.Float64frombits(bits)
			if e1 != nil || e2 != nil || len(f[2]) != 16 || !ok || k < 1 || k > 32 || !(mc > 0) || math.IsInf(mc, 0) {
				return "bad-op"
			}
			obs, res := c19Cov(k, mc, reads, counts, fail)
			caseOverride = fmt.Sprintf("gc %d %s %s%s", k, f[2], obs, c19Reads(reads, counts))
			return res
		case f[0] == "g" && len(f) >= 2:
			// result: n=<node:weight:nextsmask:prevmask,...> cyc=<0|1> path=<node,...|nil|panic> cons=<hexseq|err|panic>
			// (nodes in hexadecimal, ascending; mask bit b = successor/predecessor obtained with base b exists), or "panic"
			// when a Push panics
			k, e1 := strconv.Atoi(f[1])
			if e1 != nil || k < 1 || k > 32 {
				return "bad-op"
			}
			var reads [][]byte
			var counts []int
			for _, rc := range f[2:] {
				p := strings.Split(rc, ":")
				if len(p) != 2 {
					return "bad-op"
				}
				s, ok := unhx(p[0])
				cnt, err := strconv.Atoi(p[1])
				if !ok || err != nil || cnt < 1 || cnt > 1<<53+8 {
					return "bad-op"
				}
				reads = append(reads, s)
				counts = append(counts, cnt)
			}
			return c19Graph(k, reads, counts, fail, nil)
		}
		return "bad-op"
	})
	return res, fails
}

// reverse complement that keeps bytes outside the table (they break k-mers on both strands alike)
func c19RcLoose(s []byte) string {
	o := make([]byte, len(s))
	for i, b := range s {
		c, ok := c19Comp[b]
		if !ok {
			c = b
		}
		o[len(s)-1-i] = c
	}
	return string(o)
}

func c19Graph(k int, reads [][]byte, counts []int, fail func(sig, format string, a ...any), filt *int) string {
	g := obikmer.MakeDeBruijnGraph(k)
	lows := make([][]byte, len(reads))
	inTable, ambig, hasEqK := true, false, false
	for i, r := range reads {
		lows[i] = c19Lower(r)
		for _, b := range lows[i] {
			alts, ok := c19Iupac[b]
			if !ok {
				inTable = false
			} else if len(alts) > 1 {
				ambig = true
			}
		}
		switch {
		case len(r) < k:
			stat("g:read<k")
		case len(r) == k:
			stat("g:read=k")
			hasEqK = true
		default:
			stat("g:read>k")
		}
	}
	if ambig {
		stat("g:ambiguity")
	}
	if k >= 31 {
		stat(fmt.Sprintf("g:k=%d", k))
	}
	if len(reads) >= 20 {
		stat("g:reads>=20")
	}
	if !inTable {
		stat("g:non-iupac")
	}
	pushPanic := false
	for i, r := range reads {
		s := obiseq.NewBioSequence(fmt.Sprintf("r%d", i), append([]byte{}, r...), "")
		s.SetCount(counts[i])
		if c19Try(func() { g.Push(s) }) {
			pushPanic = true
			break
		}
	}
	if pushPanic {
		if inTable {
			fail("push.panic", "Push panics on IUPAC reads")
		}
		return "panic"
	}
	nodes := g.VerifNodes()
	keys := make([]uint64, 0, len(nodes))
	for n := range nodes {
		keys = append(keys, n)
	}
	sort.Slice(keys, func(i, j int) bool { return keys[i] < keys[j] })

	// ---- oracle 1: weights = sum over reads of count x occurrences, an occurrence of x at window i being x in the
	// IUPAC expansions of the window
	if inTable && k <= 31 {
		want := map[string]int{}
		for i, r := range lows {
			for p := 0; p+k <= len(r); p++ {
				for _, e := range c19Expand(r[p : p+k]) {
					want[e] += counts[i]
				}
			}
		}
		bad := len(want) != len(nodes)
		for _, n := range keys {
			if want[c19Str(n, k)] != int(nodes[n]) {
				bad = true
			}
		}
		if bad {
			// classify: which input class explains the difference
			cls := "push.weights"
			if ambig {
				cls = "push.ambiguity-multiplicity"
				// does the difference disappear when the reads of exactly k bases are left out of the reference ?
			}
			if hasEqK {
				want2 := map[string]int{}
				for i, r := range lows {
					if len(r) == k {
						continue
					}
					for p := 0; p+k <= len(r); p++ {
						for _, e := range c19Expand(r[p : p+k]) {
							want2[e] += counts[i]
						}
					}
				}
				same := len(want2) == len(nodes)
				for _, n := range keys {
					if want2[c19Str(n, k)] != int(nodes[n]) {
						same = false
					}
				}
				if same {
					cls = "push.read-of-k-bases-ignored"
				} else if !ambig {
					cls = "push.weights"
				}
			}
			fail(cls, "k=%d: graph holds %d k-mers %v, expected %d: %v", k, len(nodes), c19ShowNodes(nodes, keys, k), len(want), want)
		}
	}

	// ---- FilterMinWeight, MaxWeight, Len (gf)
	prefix := ""
	if filt != nil {
		before := nodes
		if c19Try(func() { g.FilterMinWeight(*filt) }) {
			fail("filter.panic", "FilterMinWeight(%d) panics", *filt)
			return "panic-filter"
		}
		nodes = g.VerifNodes()
		keys = keys[:0]
		for n := range nodes {
			keys = append(keys, n)
		}
		sort.Slice(keys, func(i, j int) bool { return keys[i] < keys[j] })
		want := map[uint64]uint{}
		maxw := uint(0)
		for n, w := range before {
			if *filt >= 0 && w >= uint(*filt) {
				want[n] = w
				if w > maxw {
					maxw = w
				}
			}
		}
		bad := len(want) != len(nodes)
		for n, w := range want {
			if nodes[n] != w {
				bad = true
			}
		}
		if bad {
			fail("filter.value", "FilterMinWeight(%d) leaves %d nodes, expected the %d nodes of weight >= %d with their weights", *filt, len(nodes), len(want), *filt)
		}
		if g.MaxWeight() != int(maxw) {
			fail("maxweight.value", "MaxWeight = %d, largest weight %d", g.MaxWeight(), maxw)
		}
		if g.Len() != len(nodes) {
			fail("len.value", "Len = %d, %d nodes", g.Len(), len(nodes))
		}
		switch {
		case len(nodes) == len(before):
			stat("gf:removed-none")
		case len(nodes) == 0:
			stat("gf:removed-all")
		default:
			stat("gf:removed-some")
		}
		prefix = fmt.Sprintf("mw=%d len=%d ", g.MaxWeight(), g.Len())
	}

	// ---- nodes, Nexts, Previouses
	inGraph := func(s string) bool {
		if len(s) != k {
			return false
		}
		_, ok := nodes[c19Val(s).Uint64()]
		return ok
	}
	parts := make([]string, len(keys))
	succ := map[uint64][]uint64{}
	indeg := map[uint64]int{}
	for i, n := range keys {
		var nx, pv []uint64
		if c19Try(func() { nx = g.Nexts(n); pv = g.Previouses(n) }) {
			fail("nexts.panic", "Nexts/Previouses panics on a node of the graph")
			return "panic-nexts"
		}
		s := c19Str(n, k)
		nm, pm := 0, 0
		var wantN, wantP []uint64
		for b := 0; b < 4; b++ {
			if t := s[1:] + string("acgt"[b]); inGraph(t) {
				wantN = append(wantN, c19Val(t).Uint64())
			}
			if t := string("acgt"[b]) + s[:k-1]; inGraph(t) {
				wantP = append(wantP, c19Val(t).Uint64())
			}
		}
		if fmt.Sprint(nx) != fmt.Sprint(wantN) && k <= 31 {
			fail("nexts.value", "Nexts(%s) = %v expected %v", s, nx, wantN)
		}
		if fmt.Sprint(pv) != fmt.Sprint(wantP) && k <= 31 {
			fail("previouses.value", "Previouses(%s) = %v expected %v", s, pv, wantP)
		}
		for _, x := range nx {
			nm |= 1 << (x & 3)
		}
		for _, x := range pv {
			pm |= 1 << ((x >> (2 * uint(k-1))) & 3)
		}
		succ[n] = wantN
		indeg[n] += 0
		for _, x := range wantN {
			indeg[x]++
		}
		parts[i] = fmt.Sprintf("%x:%d:%x:%x", n, nodes[n], nm, pm)
	}
	nodeStr := "-"
	if len(parts) > 0 {
		nodeStr = strings.Join(parts, ",")
	}
	stat(fmt.Sprintf("g:nodes~%d", c19Bucket(len(keys))))

	// ---- oracle 2: cycle detection by topological elimination (Kahn)
	deg := map[uint64]int{}
	var ready []uint64
	for _, n := range keys {
		deg[n] = indeg[n]
		if deg[n] == 0 {
			ready = append(ready, n)
		}
	}
	var topo []uint64
	for len(ready) > 0 {
		n := ready[len(ready)-1]
		ready = ready[:len(ready)-1]
		topo = append(topo, n)
		for _, x := range succ[n] {
			deg[x]--
			if deg[x] == 0 {
				ready = append(ready, x)
			}
		}
	}
	cyclic := len(topo) != len(keys)
	var cyc bool
	if c19Try(func() { cyc = g.HasCycle() }) {
		fail("hascycle.panic", "HasCycle panics")
		return "n=" + nodeStr + " cyc=panic"
	}
	if cyc != cyclic && k <= 31 {
		fail("hascycle.value", "HasCycle = %v, topological elimination says cyclic = %v", cyc, cyclic)
	}
	if cyclic {
		stat("g:cyclic")
	} else {
		stat("g:acyclic")
	}

	// ---- heaviest path
	var path []uint64
	pathStr := ""
	if c19Try(func() { path = g.HaviestPath() }) {
		pathStr = "panic"
		if len(keys) > 0 {
			fail("heaviest.panic", "HaviestPath panics on a non-empty graph (cyclic=%v)", cyclic)
		}
	} else if path == nil {
		pathStr = "nil"
	} else {
		ps := make([]string, len(path))
		for i, n := range path {
			ps[i] = fmt.Sprintf("%x", n)
		}
		pathStr = strings.Join(ps, ",")
	}
	if k <= 31 && pathStr != "panic" && len(keys) > 0 {
		if cyclic != (path == nil) {
			fail("heaviest.none-iff-cycle", "cyclic = %v but path returned = %v", cyclic, path != nil)
		}
		if !cyclic && path != nil {
			// valid walk from a source
			valid := len(path) > 0
			wsum := 0
			for i, n := range path {
				if _, ok := nodes[n]; !ok {
					valid = false
					break
				}
				wsum += int(nodes[n])
				if i == 0 && indeg[n] != 0 {
					valid = false
				}
				if i > 0 && c19Str(path[i-1], k)[1:] != c19Str(n, k)[:k-1] {
					valid = false
				}
			}
			if !valid {
				fail("heaviest.not-a-walk", "path %v is not a walk of the graph starting at a source", path)
			}
			// maximal weight: dynamic programming in topological order, and brute force over all walks when few
			best := map[uint64]int{}
			bestAll := 0
			for _, n := range topo {
				if indeg[n] == 0 {
					best[n] = int(nodes[n])
				}
				if v, ok := best[n]; ok {
					if v > bestAll {
						bestAll = v
					}
					for _, x := range succ[n] {
						if c := v + int(nodes[x]); c > best[x] {
							best[x] = c
						}
					}
				}
			}
			budget := 400000
			brute := 0
			var walk func(n uint64, w int) bool
			walk = func(n uint64, w int) bool {
				budget--
				if budget < 0 {
					return false
				}
				if w > brute {
					brute = w
				}
				for _, x := range succ[n] {
					if !walk(x, w+int(nodes[x])) {
						return false
					}
				}
				return true
			}
			complete := true
			for _, n := range keys {
				if indeg[n] == 0 && complete {
					complete = walk(n, int(nodes[n]))
				}
			}
			if complete {
				stat("g:bruteforce-all-walks")
				if brute != bestAll {
					fail("oracle.inconsistent", "brute force %d, dynamic programming %d", brute, bestAll)
				}
			} else {
				stat("g:dp-only")
			}
			if valid && wsum != bestAll {
				fail("heaviest.not-optimal", "path weight %d, heaviest walk from a source weighs %d", wsum, bestAll)
			}
			// ---- tie-breaking: when several walks from a source reach the maximal weight, the one returned must not
			// depend on the iteration order of the Go maps (Heads() ranges over the graph): the same graph asked
			// again, and the graph rebuilt from the reads in the opposite order, must give the same path
			nbest := map[uint64]int{} // number of heaviest walks ending at each node (capped)
			ties := 0
			for _, n := range topo {
				if indeg[n] == 0 {
					nbest[n] = 1
				}
				if best[n] == bestAll && nbest[n] > 0 {
					ties += nbest[n]
				}
				for _, x := range succ[n] {
					if _, ok := best[n]; !ok {
						continue
					}
					c := best[n] + int(nodes[x])
					if c == best[x] {
						nbest[x] += nbest[n]
						if nbest[x] > 1000 {
							nbest[x] = 1000
						}
					}
				}
			}
			if ties > 1 {
				stat("g:several-heaviest-walks")
			}
			// MaxPath / BestConsensus (greedy, not called by any command): MaxHead ranges over the Go map and keeps the first
			// head of strictly larger weight, so heads of equal weight are chosen by iteration order — shown here run to run
			if len(keys) <= 200 {
				mps := map[string]bool{}
				for rep := 0; rep < 12; rep++ {
					var mp []uint64
					if !c19Try(func() { mp = g.MaxPath() }) {
						mps[fmt.Sprint(mp)] = true
					}
				}
				if len(mps) > 1 {
					stat("g:MaxPath-run-to-run-difference")
				}
			}
			if len(keys) <= 3000 {
				g2 := obikmer.MakeDeBruijnGraph(k)
				for i := len(reads) - 1; i >= 0; i-- {
					s := obiseq.NewBioSequence(fmt.Sprintf("r%d", i), append([]byte{}, reads[i]...), "")
					s.SetCount(counts[i])
					g2.Push(s)
				}
				if filt != nil {
					g2.FilterMinWeight(*filt)
				}
				for rep := 0; rep < 4; rep++ {
					gg := g
					if rep >= 2 {
						gg = g2
					}
					var p2 []uint64
					if !c19Try(func() { p2 = gg.HaviestPath() }) && !slices.Equal(p2, path) {
						fail("heaviest.nondeterministic", "HaviestPath returned %x then %x on the same graph (%d heaviest walks)", path, p2, ties)
						break
					}
				}
			}
		}
	}

	// ---- consensus
	consStr := ""
	var cons *obiseq.BioSequence
	var cerr error
	if c19Try(func() { cons, cerr = g.LongestConsensus("x", 0) }) {
		consStr = "panic"
		fail("consensus.panic", "LongestConsensus panics")
	} else if cerr != nil || cons == nil {
		consStr = "err"
	} else {
		consStr = hx(cons.Sequence())
	}
	// single read without repeated k-mer comes back unchanged
	if filt == nil && len(reads) == 1 && k >= 2 && k <= 31 && len(lows[0]) >= k {
		r := lows[0]
		plain := true
		for _, b := range r {
			if b != 'a' && b != 'c' && b != 'g' && b != 't' {
				plain = false
			}
		}
		if plain {
			seen := map[string]bool{}
			seenKm1 := map[string]bool{}
			repK, repKm1 := false, false
			for p := 0; p+k <= len(r); p++ {
				if seen[string(r[p:p+k])] {
					repK = true
				}
				seen[string(r[p:p+k])] = true
			}
			for p := 0; p+k-1 <= len(r); p++ {
				if seenKm1[string(r[p:p+k-1])] {
					repKm1 = true
				}
				seenKm1[string(r[p:p+k-1])] = true
			}
			// characterisation (theorem single_read_roundtrip_iff): the read comes back iff no (k-1)-mer is repeated; a
			// repeated (k-1)-mer closes a cycle: HasCycle is true and the consensus is the error
			if repKm1 {
				stat("g:single-read-repeated-(k-1)-mer")
				if consStr != "err" || !cyc {
					fail("roundtrip.characterisation", "single read %q with a repeated %d-mer: HasCycle = %v, consensus %s (expected a cycle and the error)", r, k-1, cyc, consStr)
				}
			} else if consStr != hx(r) {
				fail("roundtrip.characterisation", "single read %q without repeated %d-mer comes back as %s", r, k-1, consStr)
			}
			if !repK {
				stat("g:single-read-no-repeat")
				if consStr != hx(r) {
					switch {
					case repKm1:
						fail("roundtrip.repeated-k-1-mer", "single read %q without repeated %d-mer but with a repeated %d-mer comes back as %s", r, k, k-1, consStr)
					case len(r) == k:
						fail("roundtrip.read-of-k-bases", "single read %q (k=%d) comes back as %s", r, k, consStr)
					default:
						fail("roundtrip.value", "single read %q (k=%d) comes back as %s", r, k, consStr)
					}
				}
			}
		}
	}
	return prefix + fmt.Sprintf("n=%s cyc=%d path=%s cons=%s", nodeStr, map[bool]int{false: 0, true: 1}[cyc], pathStr, consStr)
}

func c19Bucket(n int) int {
	switch {
	case n == 0:
		return 0
	case n < 10:
		return 1
	case n < 100:
		return 10
	}
	return 100
}

func c19ShowNodes(nodes map[uint64]uint, keys []uint64, k int) string {
	var b strings.Builder
	for i, n := range keys {
		if i > 40 {
			b.WriteString(" ...")
			break
		}
		fmt.Fprintf(&b, " %s:%d", c19Str(n, k), nodes[n])
	}
	return b.String()
}

// ---------------------------------------------------------------------------------------------
// deepening round: boundary generators, FilterMinWeight / MaxWeight / Len (gf), LongestConsensus with min_cov > 0 (gc)
//
//   gf <k> <min> <hexseq>:<count> ...          Push, FilterMinWeight(min), MaxWeight, Len, then everything g shows
//   gc <k> <float64 bits> <obs> <reads> ...    Push, LongestConsensus(id, min_cov); <obs> is what the real code returned
//                                              (filled in by Exec through caseOverride; "?" in generated lines): obistats.Mode
//                                              ranges over a Go map, so with several most frequent weights the outcome is
//                                              one of several — the model checks that obs is one of them

func c19Bits(f float64) string { return fmt.Sprintf("%016x", math.Float64bits(f)) }

var c19Covs = []float64{0.5, 0.25, 0.75, 1, 0.1, 0.3, 0.9, 1.0 / 3, 0.05, 0.125, 0.6, 0.45, 0.55, 1.5, 2, 3.25, 1e-300, 5e-324, 0.49999999999999994, 0.5000000000000001, 0.9999999999999999}

// a template covered fully by some reads and partially (the middle) by others: low coverage at both ends
func c19GenCoverage(rng *rand.Rand) (int, [][]byte, []int) {
	k := 3 + rng.Intn(8)
	if rng.Intn(4) == 0 {
		k = 11 + rng.Intn(21)
	}
	tl := k + 4 + rng.Intn(3*k+10)
	tpl := c19RandSeq(rng, tl, "acgt", 0)
	var reads [][]byte
	var counts []int
	reads = append(reads, tpl)
	counts = append(counts, 1+rng.Intn(4))
	for r := rng.Intn(5); r > 0; r-- {
		a := rng.Intn(tl - k + 1)
		b := a + k + rng.Intn(tl-a-k+1)
		rd := append([]byte{}, tpl[a:b]...)
		if rng.Intn(5) == 0 {
			rd[rng.Intn(len(rd))] = "acgt"[rng.Intn(4)]
		}
		reads = append(reads, rd)
		counts = append(counts, 1+rng.Intn(6))
	}
	return k, reads, counts
}

func c19GenMore(rng *rand.Rand, n int, emit func(string)) {
	h := func(s string) string { return hx([]byte(s)) }
	// ---- corpus
	emit("gc 3 " + c19Bits(0.5) + " ? " + h("acgtcag") + ":4 " + h("cgtca") + ":3") // both ends below half the mode
	emit("gc 3 " + c19Bits(2) + " ? " + h("acgtcag") + ":4")                        // min_cov > 1: every node below the threshold
	emit("gc 3 " + c19Bits(1) + " ? " + h("acgtca") + ":4 " + h("acgt") + ":1")     // two most frequent weights (5, 5, 4, 4)
	emit("gc 3 " + c19Bits(0.9) + " ? " + h("acgtca") + ":4 " + h("acgt") + ":1")
	emit("gc 3 " + c19Bits(0.5) + " ? " + h("acgtacgt") + ":1") // cycle
	emit("gc 3 " + c19Bits(0.5) + " ?")                          // empty graph
	emit("gc 3 " + c19Bits(5e-324) + " ? " + h("acgtcag") + ":4")
	emit("gc 3 " + c19Bits(1e-300) + " ? " + h("acgtcag") + ":4")
	emit("gc 3 " + c19Bits(0.5) + " ? " + h("acgtcag") + ":3 " + h("cgtca") + ":1") // 3*0.5+0.5 = 2 exactly
	emit("gc 4 " + c19Bits(0.5) + " ? " + h("acgt") + ":3")                          // one node
	// weights around 2^52 / 2^53: mode + 0.5 stops being a float64 at 2^52 (odd modes go up to the even neighbour:
	// min_cov = 1 then puts every node below the threshold), float64(mode) itself is rounded from 2^53 on
	emit("gc 3 " + c19Bits(1) + " ? " + h("acgt") + ":4503599627370497")
	emit("gc 3 " + c19Bits(1) + " ? " + h("acgt") + ":4503599627370496")
	emit("gc 3 " + c19Bits(1) + " ? " + h("acgt") + ":4503599627370495")
	emit("gc 3 " + c19Bits(0.9999999999999999) + " ? " + h("acgt") + ":4503599627370495")
	emit("gc 3 " + c19Bits(0.5) + " ? " + h("acgtc") + ":9007199254740993 " + h("cgtc") + ":3")
	emit("gc 3 " + c19Bits(0.1) + " ? " + h("acgtc") + ":4503599627370493 " + h("cgtc") + ":450359962737050")
	emit("gf 3 3 " + h("acgtcag") + ":5 " + h("acgacag") + ":2")
	emit("gf 3 0 " + h("acgtcag") + ":5 " + h("acgacag") + ":2")
	emit("gf 3 -1 " + h("acgtcag") + ":5 " + h("acgacag") + ":2")
	emit("gf 3 8 " + h("acgtcag") + ":5 " + h("acgacag") + ":2")
	emit("gf 3 1")
	// bubbles and tips of equal weight (k = 3, 4): the two branches weigh the same
	emit("g 3 " + h("aacgtcctt") + ":2 " + h("aacgacctt") + ":2")
	emit("g 4 " + h("aacgtgcctta") + ":1 " + h("aacgtccctta") + ":1")
	emit("g 3 " + h("aacgtcc") + ":3 " + h("aacgtca") + ":3") // two ends of equal weight
	emit("g 3 " + h("aacgtcc") + ":3 " + h("tacgtcc") + ":3") // two sources of equal weight
	emit("g 3 " + h("aacgt") + ":1 " + h("ccgta") + ":1 " + h("ttgca") + ":1") // three components of equal weight

	// ---- reads of exactly k, k+1, k+2 bases; ambiguity codes at the edges of the first and last window
	ks := []int{2, 3, 4, 5, 15, 16, 17, 30, 31, 32}
	for i := 0; i < 300*n; i++ {
		k := ks[rng.Intn(len(ks))]
		tl := k + rng.Intn(3)
		if rng.Intn(3) == 0 {
			tl = 2*k + rng.Intn(3)
		}
		tpl := c19RandSeq(rng, tl, "acgt", 0)
		var reads [][]byte
		var counts []int
		nr := 1 + rng.Intn(3)
		for r := 0; r < nr; r++ {
			rd := append([]byte{}, tpl...)
			if r > 0 && rng.Intn(2) == 0 {
				rd = rd[:k+rng.Intn(len(rd)-k+1)]
			}
			if rng.Intn(2) == 0 {
				edges := []int{0, k - 1, k, len(rd) - k, len(rd) - k - 1, len(rd) - 1, 1}
				for m := 1 + rng.Intn(2); m > 0; m-- {
					p := edges[rng.Intn(len(edges))]
					if p >= 0 && p < len(rd) {
						rd[p] = c19Amb[rng.Intn(len(c19Amb))]
					}
				}
			}
			reads = append(reads, rd)
			counts = append(counts, 1+rng.Intn(3))
		}
		emit(fmt.Sprintf("g %d%s", k, c19Reads(reads, counts)))
	}
	// ---- bubbles and tips with equal weights
	for i := 0; i < 300*n; i++ {
		k := 2 + rng.Intn(5)
		if rng.Intn(5) == 0 {
			k = 7 + rng.Intn(25)
		}
		tl := 2*k + 1 + rng.Intn(2*k+6)
		tpl := c19RandSeq(rng, tl, "acgt", 0)
		c := 1 + rng.Intn(3)
		reads := [][]byte{tpl}
		counts := []int{c}
		for r := 1 + rng.Intn(3); r > 0; r-- {
			rd := append([]byte{}, tpl...)
			switch rng.Intn(4) {
			case 0: // bubble: one substitution far from both ends
				p := k + rng.Intn(tl-2*k)
				rd[p] = "acgt"[(strings.IndexByte("acgt", rd[p])+1+rng.Intn(3))%4]
			case 1: // tip at the end
				p := tl - 1 - rng.Intn(k)
				rd[p] = "acgt"[(strings.IndexByte("acgt", rd[p])+1+rng.Intn(3))%4]
				rd = rd[:p+1]
			case 2: // tip at the start
				p := rng.Intn(k)
				rd[p] = "acgt"[(strings.IndexByte("acgt", rd[p])+1+rng.Intn(3))%4]
				rd = rd[p:]
			case 3: // the same read again: every weight doubles
			}
			reads = append(reads, rd)
			counts = append(counts, c)
		}
		emit(fmt.Sprintf("g %d%s", k, c19Reads(reads, counts)))
	}
	// ---- many reads
	for i := 0; i < 12*n; i++ {
		k := 4 + rng.Intn(20)
		tl := k + 10 + rng.Intn(60)
		tpl := c19RandSeq(rng, tl, "acgt", 0)
		nr := 20 + rng.Intn(60)
		if n > 1 && rng.Intn(3) == 0 {
			nr = 150 + rng.Intn(150)
		}
		var reads [][]byte
		var counts []int
		for r := 0; r < nr; r++ {
			a := rng.Intn(tl - k + 1)
			b := a + k + rng.Intn(tl-a-k+1)
			rd := append([]byte{}, tpl[a:b]...)
			if rng.Intn(6) == 0 {
				rd[rng.Intn(len(rd))] = "acgt"[rng.Intn(4)]
			}
			if rng.Intn(25) == 0 {
				rd[rng.Intn(len(rd))] = c19Amb[rng.Intn(len(c19Amb))]
			}
			reads = append(reads, rd)
			counts = append(counts, 1+rng.Intn(3))
		}
		op := "g"
		if rng.Intn(3) == 0 {
			op = "gc " // placeholder replaced below
		}
		if op == "g" {
			emit(fmt.Sprintf("g %d%s", k, c19Reads(reads, counts)))
		} else {
			emit(fmt.Sprintf("gc %d %s ?%s", k, c19Bits(c19Covs[rng.Intn(9)]), c19Reads(reads, counts)))
		}
	}
	// ---- the index at the limits of the word: 2k = W, 2k = W-2, sequences of k, k+1 bases, ambiguity at window edges
	for i := 0; i < 300*n; i++ {
		w := []int{64, 128, 256}[rng.Intn(3)]
		sparse := rng.Intn(2)
		k := w/2 - rng.Intn(3)
		if sparse == 1 && k%2 == 0 {
			k-- // the code would make it k+1 > W/2
		}
		if rng.Intn(6) == 0 {
			k = w/2 + 1 // outside the domain (dense: made even -> W/2; sparse: may exceed the word)
		}
		keff := k
		if sparse == 1 && k%2 == 0 {
			keff++
		}
		if sparse == 0 && k%2 == 1 {
			keff--
		}
		l := keff + rng.Intn(3)
		switch rng.Intn(5) {
		case 0:
			l = keff - 1
		case 1:
			l = 2*keff + rng.Intn(3)
		}
		alpha := "acgt"
		if rng.Intn(6) == 0 {
			alpha = "at"
		}
		s := c19RandSeq(rng, l, alpha, 0)
		if rng.Intn(2) == 0 && l > 0 {
			edges := []int{0, keff - 1, keff, l - keff, l - keff - 1, l - 1}
			p := edges[rng.Intn(len(edges))]
			if p >= 0 && p < l {
				s[p] = c19Amb[rng.Intn(len(c19Amb))]
			}
		}
		emit(fmt.Sprintf("nk %d %d %d %s", w, k, sparse, hx(s)))
	}
	// ---- FilterMinWeight
	for i := 0; i < 400*n; i++ {
		k, reads, counts := c19GenGraph(rng)
		if rng.Intn(2) == 0 {
			k, reads, counts = c19GenCoverage(rng)
		}
		min := []int{-1, 0, 1, 2, 2, 3, 3, 4, 5, 7, 10, 25}[rng.Intn(12)]
		emit(fmt.Sprintf("gf %d %d%s", k, min, c19Reads(reads, counts)))
	}
	// ---- LongestConsensus with min_cov > 0
	for i := 0; i < 900*n; i++ {
		k, reads, counts := c19GenCoverage(rng)
		if rng.Intn(3) == 0 {
			k, reads, counts = c19GenGraph(rng)
		}
		mc := c19Covs[rng.Intn(len(c19Covs))]
		switch rng.Intn(5) {
		case 0:
			mc = rng.Float64()
		case 1:
			mc = float64(1+rng.Intn(31)) / 32
		case 2, 3:
			mc = 0.5 + rng.Float64()/2 // where the ends of a partially covered template are cut
		}
		if mc <= 0 {
			mc = 0.5
		}
		emit(fmt.Sprintf("gc %d %s ?%s", k, c19Bits(mc), c19Reads(reads, counts)))
	}
}

func c19ParseReads(f []string) (reads [][]byte, counts []int, ok bool) {
	for _, rc := range f {
		p := strings.Split(rc, ":")
		if len(p) != 2 {
			return nil, nil, false
		}
		s, ok := unhx(p[0])
		cnt, err := strconv.Atoi(p[1])
		if !ok || err != nil || cnt < 1 || cnt > 1<<53+8 {
			return nil, nil, false
		}
		reads = append(reads, s)
		counts = append(counts, cnt)
	}
	return reads, counts, true
}

// uint(float64(mode)*mc + 0.5) recomputed with arbitrary-precision floats rounded to 53 bits after each operation
func c19RefThreshold(mode uint, mc float64) uint64 {
	nf := func() *big.Float { return new(big.Float).SetPrec(53).SetMode(big.ToNearestEven) }
	x := nf().SetUint64(uint64(mode))
	p := nf().Mul(x, new(big.Float).SetFloat64(mc))
	q := nf().Add(p, big.NewFloat(0.5))
	u, _ := q.Uint64()
	return u
}

func c19DecodePathRef(path []uint64, k int) string {
	if len(path) == 0 {
		return ""
	}
	s := c19Str(path[0], k)
	for _, n := range path[1:] {
		s += string("acgt"[n&3])
	}
	return s
}

func c19Cov(k int, mc float64, reads [][]byte, counts []int, fail func(sig, format string, a ...any)) (obs string, res string) {
	g := obikmer.MakeDeBruijnGraph(k)
	for i, r := range reads {
		s := obiseq.NewBioSequence(fmt.Sprintf("r%d", i), append([]byte{}, r...), "")
		s.SetCount(counts[i])
		if c19Try(func() { g.Push(s) }) {
			return "push-panic", "panic"
		}
	}
	nodes := g.VerifNodes()
	maxw := uint(0)
	for _, w := range nodes {
		if w > maxw {
			maxw = w
		}
	}
	if g.MaxWeight() != int(maxw) {
		fail("maxweight.value", "MaxWeight = %d, largest weight %d", g.MaxWeight(), maxw)
	}
	if g.Len() != len(nodes) {
		fail("len.value", "Len = %d, %d nodes", g.Len(), len(nodes))
	}
	var cons *obiseq.BioSequence
	var cerr error
	if c19Try(func() { cons, cerr = g.LongestConsensus("x", mc) }) {
		obs = "panic"
	} else if cerr != nil || cons == nil {
		obs = "err"
	} else {
		obs = hx(cons.Sequence())
	}
	// ---- reference: the untrimmed heaviest path (checked by the g operation), every value Mode can return
	var path []uint64
	if len(nodes) > 0 && !c19Try(func() { path = g.HaviestPath() }) {
		wp := make([]uint, len(path))
		occ := map[uint]int{}
		top := 0
		for i, n := range path {
			wp[i] = nodes[n]
			occ[wp[i]]++
			if occ[wp[i]] > top {
				top = occ[wp[i]]
			}
		}
		var modes []uint
		for v, c := range occ {
			if c == top {
				modes = append(modes, v)
			}
		}
		if len(path) == 0 {
			modes = []uint{0}
		}
		if len(modes) > 1 {
			stat("gc:mode-tie")
		}
		refs := map[string]bool{}
		bigMode := false // a weight of 2^52 or more: mode + 0.5 is not a float64, outside the domain of the no-panic statement
		for _, md := range modes {
			mp := c19RefThreshold(md, mc)
			if native := uint64(uint(float64(md)*mc + 0.5)); native != mp {
				stat("gc:native-float-differs")
			}
			from, to := 0, len(path)
			for from < len(path) && uint64(wp[from]) < mp {
				from++
			}
			for to > 0 && uint64(wp[to-1]) < mp {
				to--
			}
			switch {
			case from > to:
				refs["panic"] = true
			case from == to:
				refs["err"] = true
			default:
				refs[hx([]byte(c19DecodePathRef(path[from:to], k)))] = true
			}
			if mc <= 1 && from > to && md < 1<<52 {
				fail("oracle.inconsistent", "min_cov <= 1 but every node is below the threshold %d (mode %d)", mp, md)
			}
			if md >= 1<<52 {
				bigMode = true
			}
		}
		if len(refs) > 1 {
			stat("gc:mode-tie-changes-outcome")
			// run-to-run difference on the real code: obistats.Mode ranges over a Go map, the same call repeated on the same
			// graph returns different consensus sequences
			seen := map[string]bool{obs: true}
			for rep := 0; rep < 60 && len(seen) < 2; rep++ {
				var c2 *obiseq.BioSequence
				var e2 error
				o2 := ""
				if c19Try(func() { c2, e2 = g.LongestConsensus("x", mc) }) {
					o2 = "panic"
				} else if e2 != nil || c2 == nil {
					o2 = "err"
				} else {
					o2 = hx(c2.Sequence())
				}
				seen[o2] = true
				if !refs[o2] {
					fail("cov.value", "LongestConsensus(min_cov=%v) = %s on a repeated call, expected one of %v", mc, o2, refs)
				}
			}
			if len(seen) > 1 {
				stat("gc:run-to-run-difference-observed")
			}
		}
		if !refs[obs] {
			fail("cov.value", "LongestConsensus(min_cov=%v) = %s, expected one of %v (path weights %v)", mc, obs, refs, wp)
		}
		full := c19DecodePathRef(path, k)
		switch obs {
		case "panic":
			stat("gc:slice-panic")
			if mc <= 1 && !bigMode {
				fail("cov.panic", "LongestConsensus(min_cov=%v <= 1) panics", mc)
			}
			if bigMode {
				stat("gc:panic-weight>=2^52")
			}
		case "err":
			stat("gc:err")
		default:
			o, _ := unhx(obs)
			if !strings.Contains(full, string(o)) {
				fail("cov.not-a-substring", "trimmed consensus %s is not a part of the full consensus %s", o, full)
			}
			if len(o) < len(full) {
				stat("gc:trimmed")
			} else {
				stat("gc:untrimmed")
			}
		}
	} else if len(nodes) > 0 {
		stat("gc:heaviest-panic")
	}
	return obs, fmt.Sprintf("mw=%d len=%d cons=%s", g.MaxWeight(), g.Len(), obs)
}

// ---------------------------------------------------------------------------------------------
//   km <W> <k> <sparse> <maxocc> <mincount> <self> <ord> <hexseq> ...
//        NewKmerMap[UintW](refs, k, sparse, maxocc), Len, Query(last sequence), FilterMinCount(mincount); self = 1: the
//        query (the last sequence) is also the last reference; <ord> = rank of the address of every sequence (Query sorts
//        pointers by address), filled in by Exec ("?" in generated lines)
//   result: len=<Len> m=<id:count,...> f=<id:count,... after FilterMinCount>

func c19KM[T obifp.FPUint[T]](k uint, sparse bool, maxocc, mincount int, self bool, seqs [][]byte, rev bool) (ord []int, length int, m, f map[int]int) {
	all := make(obiseq.BioSequenceSlice, len(seqs))
	id := map[*obiseq.BioSequence]int{}
	// the sequences are allocated in an order derived from the case, so that the address of the query (the last one)
	// is not always the largest
	perm := make([]int, len(seqs))
	for i := range perm {
		perm[i] = i
	}
	hsh := uint32(2166136261)
	for _, s := range seqs {
		for _, b := range s {
			hsh = (hsh ^ uint32(b)) * 16777619
		}
	}
	for i := len(perm) - 1; i > 0; i-- {
		hsh = hsh*1664525 + 1013904223
		j := int(hsh>>8) % (i + 1)
		perm[i], perm[j] = perm[j], perm[i]
	}
	if rev { // the opposite allocation order: the address ranks are (mostly) reversed
		slices.Reverse(perm)
	}
	for _, i := range perm {
		all[i] = obiseq.NewBioSequence(fmt.Sprintf("s%d", i), append([]byte{}, seqs[i]...), "")
		id[all[i]] = i
	}
	refs := all
	if !self {
		refs = all[:len(all)-1]
	}
	km := obikmer.NewKmerMap[T](refs, k, sparse, maxocc)
	length = km.Len()
	match := km.Query(all[len(all)-1])
	m = map[int]int{}
	for s, n := range match {
		m[id[s]] = n
	}
	match.FilterMinCount(mincount)
	f = map[int]int{}
	for s, n := range match {
		f[id[s]] = n
	}
	if match.Len() != len(f) {
		f[-1] = match.Len()
	}
	// address ranks
	idxs := make([]int, len(all))
	for i := range idxs {
		idxs[i] = i
	}
	sort.Slice(idxs, func(a, b int) bool {
		return uintptr(unsafe.Pointer(all[idxs[a]])) < uintptr(unsafe.Pointer(all[idxs[b]]))
	})
	ord = make([]int, len(all))
	for r, i := range idxs {
		ord[i] = r
	}
	runtime.KeepAlive(all)
	return
}

func c19ShowMatch(m map[int]int) string {
	ks := make([]int, 0, len(m))
	for i := range m {
		ks = append(ks, i)
	}
	sort.Ints(ks)
	p := make([]string, len(ks))
	for j, i := range ks {
		p[j] = fmt.Sprintf("%d:%d", i, m[i])
	}
	if len(p) == 0 {
		return "-"
	}
	return strings.Join(p, ",")
}

func c19RunKM(w int, k uint, sparse bool, maxocc, mincount int, self bool, seqs [][]byte, rev ...bool) ([]int, int, map[int]int, map[int]int) {
	r := len(rev) > 0 && rev[0]
	switch w {
	case 64:
		return c19KM[obifp.Uint64](k, sparse, maxocc, mincount, self, seqs, r)
	case 128:
		return c19KM[obifp.Uint128](k, sparse, maxocc, mincount, self, seqs, r)
	}
	return c19KM[obifp.Uint256](k, sparse, maxocc, mincount, self, seqs, r)
}

func c19ExecKM(f []string, fail func(sig, format string, a ...any)) string {
	w, e1 := strconv.Atoi(f[1])
	k, e2 := strconv.Atoi(f[2])
	maxocc, e3 := strconv.Atoi(f[4])
	mincount, e4 := strconv.Atoi(f[5])
	if e1 != nil || e2 != nil || e3 != nil || e4 != nil || (w != 64 && w != 128 && w != 256) || k < 1 || k > 200 ||
		(f[3] != "0" && f[3] != "1") || (f[6] != "0" && f[6] != "1") || len(f) < 9 || maxocc < -5 || maxocc > 1000 || mincount < -5 || mincount > 100000 {
		return "bad-op"
	}
	sparse, self := f[3] == "1", f[6] == "1"
	var seqs [][]byte
	for _, h := range f[8:] {
		s, ok := unhx(h)
		if !ok {
			return "bad-op"
		}
		seqs = append(seqs, s)
	}
	keff := k
	if sparse && k%2 == 0 {
		keff++
	}
	if !sparse && k%2 == 1 {
		keff--
	}
	if 2*keff > w || keff < 1 {
		caseTrivial = true
	}
	var (
		ord    []int
		length int
		m, fm  map[int]int
	)
	if c19Try(func() { ord, length, m, fm = c19RunKM(w, uint(k), sparse, maxocc, mincount, self, seqs) }) {
		if 2*keff <= w && keff >= 1 {
			fail("km.panic", "NewKmerMap/Query panics for k=%d on %d-bit words", keff, w)
		}
		return "panic"
	}
	os := make([]string, len(ord))
	for i, r := range ord {
		os[i] = strconv.Itoa(r)
	}
	caseOverride = strings.Join(f[:7], " ") + " " + strings.Join(os, ",") + " " + strings.Join(f[8:], " ")
	if self {
		stat("km:self")
		if n, ok := m[len(seqs)-1]; ok {
			stat("km:self-query-reported")
			// Query skips the query sequence (`prevseq != sequence`) everywhere but in the statement that follows the
			// loop: the sequence with the largest address is recorded even when it is the query itself
			fail("km.self-reported", "Query(s) on an index holding s reports s itself (count %d): it does so only when s has the largest address (rank %d of %d) of the matched sequences", n, ord[len(seqs)-1], len(seqs))
		} else {
			stat("km:self-query-not-reported")
		}
	}
	// ---- oracle: the answer of Query is a function of the sequences, not of where they are allocated
	{
		var ord2 []int
		var m2 map[int]int
		if !c19Try(func() { ord2, _, m2, _ = c19RunKM(w, uint(k), sparse, maxocc, mincount, self, seqs, true) }) {
			same := true
			for i := range ord {
				if ord[i] != ord2[i] {
					same = false
				}
			}
			if !same {
				stat("km:address-order-changed")
			}
			if c19ShowMatch(m2) != c19ShowMatch(m) {
				fail("km.address-dependent", "Query = %s with address ranks %v, %s with address ranks %v", c19ShowMatch(m), ord, c19ShowMatch(m2), ord2)
			}
		}
	}
	// ---- oracle (naive canonical k-mers on strings), with or without occurrence limit, the query being a reference or not:
	// a canonical k-mer is indexed iff maxocc = -1 or its total number of occurrences in the references is below maxocc;
	// Len = number of indexed k-mers; reference i is reported iff it is not the query and shares an indexed k-mer occurrence
	// with the query, with the value shared+1; the reverse complement of the query gives the same answer
	if 2*keff <= w && keff >= 1 && maxocc >= -1 {
		lows := make([][]byte, len(seqs))
		for i, s := range seqs {
			lows[i] = c19Lower(s)
		}
		q := len(seqs) - 1
		qk := c19NaiveCanon(lows[q], keff, sparse)
		nrefs := len(seqs)
		if !self {
			nrefs--
		}
		total := map[string]int{}
		rks := make([]map[string]int, nrefs)
		for i := 0; i < nrefs; i++ {
			rks[i] = map[string]int{}
			for _, x := range c19NaiveCanon(lows[i], keff, sparse) {
				rks[i][x.Text(16)]++
				total[x.Text(16)]++
			}
		}
		kept := 0
		dropped := 0
		for _, t := range total {
			if maxocc == -1 || t < maxocc {
				kept++
			} else {
				dropped++
			}
		}
		if maxocc >= 0 {
			stat("km:limit")
			if dropped > 0 && kept > 0 {
				stat("km:limit-drops-some")
			}
		}
		if length != kept {
			fail("km.len", "Len = %d, %d canonical k-mers occur in the references (limit %d: %d of them too frequent)", length, kept+dropped, maxocc, dropped)
		}
		shared := map[int]int{}
		for i := 0; i < nrefs; i++ {
			for _, x := range qk {
				if t := total[x.Text(16)]; maxocc == -1 || t < maxocc {
					shared[i] += rks[i][x.Text(16)]
				}
			}
		}
		for i := 0; i < nrefs; i++ {
			n, got := m[i]
			want := shared[i] > 0 && !(self && i == q)
			if got != want {
				fail("km.match-set", "reference %d shares %d indexed canonical k-mer occurrences with the query (limit %d), reported = %v", i, shared[i], maxocc, got)
			} else if got {
				if n == shared[i]+1 {
					stat("km:count=shared+1")
				} else {
					fail("km.count", "reference %d shares %d indexed canonical k-mer occurrences with the query, reported with %d (expected shared+1)", i, shared[i], n)
				}
			}
		}
		for i := range m {
			if i < 0 || i >= nrefs {
				fail("km.match-set", "sequence %d reported, not a reference", i)
			}
		}
		{
			// the other strand of the query (a fresh sequence object when the query is not a reference; when it is, the last
			// reference is kept and the query is its reverse complement, looked up as a fresh sequence: the reference itself
			// is then an ordinary match)
			rcq := append(append([][]byte{}, seqs[:nrefs]...), []byte(c19RcLoose(lows[q])))
			var m2 map[int]int
			if !c19Try(func() { _, _, m2, _ = c19RunKM(w, uint(k), sparse, maxocc, mincount, false, rcq) }) {
				exp := map[int]int{}
				for i, n := range m {
					exp[i] = n
				}
				if self && shared[q] > 0 {
					exp[q] = shared[q] + 1
				}
				if c19ShowMatch(m2) != c19ShowMatch(exp) {
					fail("km.strand", "Query(sequence) = %s (self=%v), Query(fresh reverse complement) = %s, expected %s", c19ShowMatch(m), self, c19ShowMatch(m2), c19ShowMatch(exp))
				}
			}
		}
	}
	for i, n := range m {
		if (n >= mincount) != (fm[i] == n && fm[i] != 0) && n != 0 {
			fail("km.filter", "FilterMinCount(%d): entry %d:%d kept = %v", mincount, i, n, fm[i] != 0)
		}
	}
	return fmt.Sprintf("len=%d m=%s f=%s", length, c19ShowMatch(m), c19ShowMatch(fm))
}

func c19GenKM(rng *rand.Rand, n int, emit func(string)) {
	h := func(s string) string { return hx([]byte(s)) }
	emit("km 128 4 0 -1 2 0 ? " + h("acgtacgt") + " " + h("acgtgg") + " " + h("acgt"))
	emit("km 128 4 0 -1 2 1 ? " + h("acgtacgt") + " " + h("acgtgg") + " " + h("acgt"))
	emit("km 128 4 0 1 0 0 ? " + h("acgtacgt") + " " + h("acgtgg") + " " + h("ccacgtaa") + " " + h("acgt"))
	emit("km 128 4 0 0 0 0 ? " + h("acgtacgt") + " " + h("acgt"))
	emit("km 64 5 1 -1 3 0 ? " + h("acgtnacgtta") + " " + h("taacgt") + " " + h("aacgtta"))
	emit("km 128 4 0 -1 1 0 ? " + h("acgt"))
	emit("km 128 4 0 -1 1 1 ? " + h("acgt"))
	emit("km 64 32 0 -1 1 0 ? " + h(strings.Repeat("acgtgcatgcaatgcc", 3)) + " " + h(strings.Repeat("acgtgcatgcaatgcc", 2)))
	// defect C19-query-self-last on the unrepaired code: the query (a reference) was reported iff its address was the largest
	emit("km 64 3 1 4 0 1 ? 6763636361 - 6763636361")
	emit("km 64 3 1 -1 1 1 ? 6363 6167676774676767")
	emit("km 128 4 0 -1 0 1 ? " + h("acgtacgt") + " " + h("acgtgg") + " " + h("acgt"))
	emit("km 128 4 0 4 0 1 ? " + h("acgtacgt") + " " + h("acgtgg") + " " + h("acgt")) // acgt occurs 4 times: dropped at limit 4
	emit("km 128 4 0 5 0 1 ? " + h("acgtacgt") + " " + h("acgtgg") + " " + h("acgt")) // kept at limit 5
	emit("km 128 4 0 2 0 0 ? " + h("acgtacgt") + " " + h("ccacgg") + " " + h("ccacgt")) // Push stops at 3 entries, all >= 2 deleted
	emit("km 128 4 0 1 0 0 ? " + h("acgtaa") + " " + h("acgt"))                         // limit 1: the index is empty
	for i := 0; i < 500*n; i++ {
		w := []int{64, 128, 128, 256}[rng.Intn(4)]
		k := 2 + rng.Intn(7)
		if rng.Intn(6) == 0 {
			k = 2 + rng.Intn(w/2-1)
		}
		sparse := rng.Intn(2)
		tl := k + 2 + rng.Intn(4*k+10)
		alpha := "acgt"
		if rng.Intn(5) == 0 {
			alpha = "ac"
		}
		tpl := c19RandSeq(rng, tl, alpha, 0)
		nr := 1 + rng.Intn(6)
		var seqs []string
		for r := 0; r <= nr; r++ {
			s := append([]byte{}, tpl...)
			switch rng.Intn(5) {
			case 0:
				s = c19RandSeq(rng, rng.Intn(3*k+4), alpha, 0) // unrelated
			case 1:
				s = []byte(c19RcLoose(s)) // the other strand
			case 2:
				a := rng.Intn(len(s))
				s = s[a : a+rng.Intn(len(s)-a+1)]
			}
			for m := rng.Intn(3); m > 0 && len(s) > 0; m-- {
				s[rng.Intn(len(s))] = alpha[rng.Intn(len(alpha))]
			}
			if rng.Intn(8) == 0 && len(s) > 0 {
				s[rng.Intn(len(s))] = c19Amb[rng.Intn(len(c19Amb))]
			}
			seqs = append(seqs, hx(s))
		}
		maxocc := -1
		switch rng.Intn(6) {
		case 0:
			maxocc = rng.Intn(5)
		case 1, 2:
			maxocc = 2 + rng.Intn(12) // limits that drop some of the k-mers and keep others
		}
		emit(fmt.Sprintf("km %d %d %d %d %d %d ? %s", w, k, sparse, maxocc, rng.Intn(6), rng.Intn(2), strings.Join(seqs, " ")))
	}
}
