//go:build c15

package main

// C15, glue pass — REFERENCES THAT ALREADY CARRY AN obitag_ref_index (Model/TagStored.lean, Props/C15G.lean).
//
//	rx  <R1,..> <T1,..> <TAXO> <ALIAS> ix=<I1;I2;..>           obirefidx.IndexReferenceDB on records carrying the stored
//	                          indices Ii (format of sl1: k=hex(text),.. | _ = empty map | - = no attribute)
//	cl1 <Q1,..> <R1,..> <T1,..> <TAXO> <ALIAS> ix=<I1;I2;..>   obitag.CLIAssignTaxonomy on the same kind of data base
//
// obirefidx must recompute every index (refidx_recomputes_every_index: the model does not even look at the stored ones);
// obitag trusts a stored index (cli_assign_trusts_stored_index: the model hands the stored text to the selection loop).
// The stored maps are set with the three Go types OBITagRefIndex() accepts (map[int]string as obirefidx leaves it in
// memory, map[string]interface{} / map[string]string as the header parsers leave it), chosen per record.
//
// Generator: scenarios of a data base indexed EARLIER, the stale indices being built by the real IndexSequence on the
// list they pretend to come from: two data bases indexed separately then concatenated (split at a random point or
// interleaved); a data base indexed then filtered (the indices know references that are no longer there); a data
// base indexed then extended (new records without index: mixed); the index of another record; right entries under
// wrong keys (shifted, 999..1002, 2000); empty maps; a taxid foreign to the taxonomy; valid indices (control: the
// assignment oracle applies); attributes on records that are DROPPED (unknown taxid: the attribute of a kept record
// must be the one it carried in the file, not the one of its neighbour).

import (
	"fmt"
	"math/rand"
	"sort"
	"strconv"
	"strings"

	"git.metabarcoding.org/obitools/obitools4/obitools4/pkg/obiseq"
	"git.metabarcoding.org/obitools/obitools4/obitools4/pkg/obitax"
	"git.metabarcoding.org/obitools/obitools4/obitools4/pkg/obitools/obirefidx"
)

func (db *c15DB) setGiven(w string) bool {
	if !strings.HasPrefix(w, "ix=") {
		return false
	}
	g, ok := c15ParseGiven(strings.TrimPrefix(w, "ix="))
	if !ok || len(g) != len(db.refs) {
		return false
	}
	db.given = g
	db.gform = len(w) % 3
	return true
}

// c15SetStored: the attribute as one of the Go types OBITagRefIndex() converts
func c15SetStored(s *obiseq.BioSequence, m map[int]string, form int) {
	switch form % 3 {
	case 0:
		c := make(map[int]string, len(m))
		for k, v := range m {
			c[k] = v
		}
		s.SetAttribute("obitag_ref_index", c)
	case 1:
		c := make(map[string]interface{}, len(m))
		for k, v := range m {
			c[strconv.Itoa(k)] = v
		}
		s.SetAttribute("obitag_ref_index", c)
	default:
		c := make(map[string]string, len(m))
		for k, v := range m {
			c[strconv.Itoa(k)] = v
		}
		s.SetAttribute("obitag_ref_index", c)
	}
}

// the index the real IndexSequence builds for member p of the list (refs, taxids known to tax)
func c15IndexOn(tax *obitax.Taxonomy, refs [][]byte, taxids []int, p int) map[int]string {
	rs, counts := c15MakeRefs(refs)
	taxa := c15Taxa(tax, taxids)
	var idx map[int]string
	guard(func() string {
		idx = obirefidx.IndexSequence(p, rs, &counts, &taxa, tax)
		return ""
	})
	if idx == nil {
		idx = map[int]string{}
	}
	return idx
}

func c15GivenWord(g []c15Given) string { return "ix=" + c15ShowGiven(g) }

func c15GenStored(tier string, emit func(string)) {
	rng := rand.New(rand.NewSource(c15SeedArg()*104729 + 1506))
	g := &c15Gen{rng}
	T := "1:1,10:1,20:10,21:10,100:20,101:20,110:21,11:1,30:11,300:30,301:30"
	ent := func(t int) string { return fmt.Sprintf("%d@%s@%s", t, c15Name(t), c15Rank(t)) }
	// ---- corpus: the demo of seeded/C15-m6 in small: a (species 100) and b (species 110, other genus of family 10)
	// differ by one base; indexed alone, a knows nothing within distance 1; the query is at distance 1 of a only
	{
		a := c15Hex("acgtacgtacggtacatgcatgac")
		b := c15Hex("acgtacgtacggtacatgcatgaa")
		c := c15Hex("ttgcattgcaacgtgtgtcaacca")
		q := c15Hex("aagtacgtacggtacatgcatgac")
		i100, i110, i300 := "0="+hx([]byte(ent(100))), "0="+hx([]byte(ent(110))), "0="+hx([]byte(ent(300)))
		for _, ix := range []string{
			i100 + ";" + i110 + ";" + i300, // A.idx + B.idx + C.idx concatenated: every record indexed, every index stale
			i100 + ";-;-",                  // only a carries its old index
			"-;" + i110 + ";" + i300,
			"_;_;_",                         // empty maps
			"1=" + hx([]byte(ent(100))) + ";-;-", // right entry, wrong key
			"0=" + hx([]byte(ent(100))) + ",1=" + hx([]byte(ent(10))) + ";-;-", // the index of a on this very data base
			"0=" + hx([]byte("9999@x@y")) + ";-;-",                             // taxid foreign to the taxonomy
			"2000=" + hx([]byte(ent(1))) + ";" + i110 + ";" + i300,
		} {
			emit(fmt.Sprintf("rx %s,%s,%s 100,110,300 %s _ ix=%s", a, b, c, T, ix))
			emit(fmt.Sprintf("cl1 %s,%s %s,%s,%s 100,110,300 %s _ ix=%s", q, a, a, b, c, T, ix))
		}
		// a dropped record (unknown taxid) in front of / between / after the indexed ones, itself carrying an attribute
		emit(fmt.Sprintf("rx %s,%s,%s,%s 999,100,110,300 %s _ ix=%s", c, a, b, c, T, i300+";"+i100+";"+i110+";"+i300))
		emit(fmt.Sprintf("rx %s,%s,%s,%s 100,999,110,300 %s _ ix=%s", a, c, b, c, T, i100+";"+i300+";"+i110+";"+i300))
		emit(fmt.Sprintf("cl1 %s %s,%s,%s,%s 100,999,110,300 %s _ ix=%s", q, a, c, b, c, T, "-;"+i100+";"+i110+";"+i300))
		emit(fmt.Sprintf("cl1 %s %s,%s,%s,%s 999,100,110,300 %s _ ix=%s", q, c, a, b, c, T, i100+";-;"+i110+";"+i300))
		emit(fmt.Sprintf("cl1 %s %s,%s,%s 100,110,999 %s _ ix=%s", q, a, b, c, T, i100+";"+i110+";"+i300)) // last dropped, nothing to index: no panic
		emit(fmt.Sprintf("rx %s 100 %s _ ix=%s", a, T, i100))
		emit(fmt.Sprintf("rx %s 999 %s _ ix=%s", a, T, i100))
	}
	// ---- random data bases
	n := 70
	if tier == "thorough" {
		n = 130
	}
	for it := 0; it < n; it++ {
		L := 24 + rng.Intn(60)
		base := g.word(L, "acgt")
		nref := 2 + rng.Intn(9)
		refs := make([][]byte, nref)
		for i := range refs {
			switch rng.Intn(8) {
			case 0, 1:
				refs[i] = g.word(max(4, L-5+rng.Intn(11)), "acgt") // unrelated
			case 2, 3, 4:
				refs[i] = g.spreadSubs(base, 1+rng.Intn(3))
			case 5:
				refs[i] = g.randEdits(base, 1+rng.Intn(3))
			case 6:
				if i > 0 {
					refs[i] = g.spreadSubs(refs[rng.Intn(i)], 1)
				} else {
					refs[i] = append([]byte{}, base...)
				}
			default:
				refs[i] = append([]byte{}, base...)
			}
			if len(refs[i]) == 0 {
				refs[i] = []byte("a")
			}
		}
		t := g.taxo(3 + rng.Intn(9))
		tx := g.taxids(t, nref)
		switch rng.Intn(6) { // some records with a taxid unknown to the taxonomy
		case 0:
			tx[rng.Intn(nref)] = 900 + rng.Intn(60)
		case 1:
			tx[0] = 900 + rng.Intn(60)
			if rng.Intn(2) == 0 && nref > 2 {
				tx[1] = 900 + rng.Intn(60)
			}
		case 2:
			if rng.Intn(3) == 0 {
				tx[nref-1] = 900 + rng.Intn(60)
			}
		}
		db, ok := c15ParseDB(c15List(refs), c15Ints(tx), c15Taxo(t), "_")
		if !ok || len(db.kept) == 0 {
			continue
		}
		k := len(db.kept)
		on := func(members []int, p int) map[int]string { // index of kept record members[p] built on the kept records `members`
			rr := make([][]byte, len(members))
			tt := make([]int, len(members))
			for i, m := range members {
				rr[i], tt[i] = db.krefs[m], db.ktax[m]
			}
			return c15IndexOn(db.tax, rr, tt, p)
		}
		all := make([]int, k)
		for i := range all {
			all[i] = i
		}
		given := make([]c15Given, nref)
		for i := range given {
			given[i] = c15Given{isNil: true}
		}
		posOf := map[int]int{} // kept position -> file position
		for p, i := range db.kept {
			posOf[p] = i
		}
		mode := rng.Intn(8)
		switch mode {
		case 0, 1: // two data bases indexed separately, then concatenated (split point) or interleaved
			var A, B []int
			cut := rng.Intn(k + 1)
			for p := 0; p < k; p++ {
				if (mode == 0 && p < cut) || (mode == 1 && rng.Intn(2) == 0) {
					A = append(A, p)
				} else {
					B = append(B, p)
				}
			}
			for _, part := range [][]int{A, B} {
				for q, p := range part {
					given[posOf[p]] = c15Given{m: on(part, q)}
				}
			}
			stat("gen:stored:two-indexed-data-bases-concatenated")
		case 2: // indexed, then filtered: the indices were built with extra references that are gone
			ne := 1 + rng.Intn(3)
			rr := append([][]byte{}, db.krefs...)
			tt := append([]int{}, db.ktax...)
			for e := 0; e < ne; e++ {
				rr = append(rr, g.spreadSubs(db.krefs[rng.Intn(k)], 1+rng.Intn(2)))
				tt = append(tt, t[rng.Intn(len(t))][0])
			}
			for p := 0; p < k; p++ {
				given[posOf[p]] = c15Given{m: c15IndexOn(db.tax, rr, tt, p)}
			}
			stat("gen:stored:indexed-then-filtered")
		case 3: // indexed, then extended: the first records carry the index built on them alone, the others none
			cut := 1 + rng.Intn(k)
			for p := 0; p < cut; p++ {
				given[posOf[p]] = c15Given{m: on(all[:cut], p)}
			}
			stat("gen:stored:indexed-then-extended")
		case 4: // valid indices (built on this very kept list) on every record or on some
			some := rng.Intn(2) == 0
			for p := 0; p < k; p++ {
				if !some || rng.Intn(2) == 0 {
					given[posOf[p]] = c15Given{m: on(all, p)}
				}
			}
			stat("gen:stored:valid-indices")
		default: // per record
			for p := 0; p < k; p++ {
				var m map[int]string
				switch rng.Intn(9) {
				case 0:
					continue // no attribute
				case 1:
					m = map[int]string{}
				case 2: // built on a random sub-list holding the record
					var sub []int
					me := 0
					for q := 0; q < k; q++ {
						if q == p || rng.Intn(2) == 0 {
							if q == p {
								me = len(sub)
							}
							sub = append(sub, q)
						}
					}
					m = on(sub, me)
				case 3: // the index of ANOTHER record
					m = on(all, rng.Intn(k))
				case 4: // right entries, keys shifted
					sh := 1 + rng.Intn(3)
					m = map[int]string{}
					for key, v := range on(all, p) {
						m[key+sh] = v
					}
				case 5: // far keys
					m = map[int]string{[]int{999, 1000, 1001, 1002, 2000}[rng.Intn(5)]: ent(t[rng.Intn(len(t))][0])}
					if rng.Intn(2) == 0 {
						m[0] = ent(db.ktax[p])
					}
				case 6: // alone
					m = on([]int{p}, 0)
				case 7:
					m = on(all, p)
				default: // one entry: some taxon at key 0 (rarely foreign to the taxonomy)
					if rng.Intn(6) == 0 {
						m = map[int]string{0: "9999@x@y"}
					} else {
						m = map[int]string{0: ent(t[rng.Intn(len(t))][0])}
					}
				}
				given[posOf[p]] = c15Given{m: m}
			}
			stat("gen:stored:per-record-mix")
		}
		// dropped records carry an attribute too (it must stay with them)
		for i := range given {
			if db.resolve(tx[i]) < 0 && rng.Intn(3) > 0 {
				given[i] = c15Given{m: map[int]string{rng.Intn(3): ent(t[rng.Intn(len(t))][0])}}
			}
		}
		ixw := c15GivenWord(given)
		if rng.Intn(5) < 2 {
			emit(fmt.Sprintf("rx %s %s %s _ %s", c15List(refs), c15Ints(tx), c15Taxo(t), ixw))
			continue
		}
		nq := 1 + rng.Intn(3)
		queries := make([][]byte, nq)
		for i := range queries {
			r := db.krefs[rng.Intn(k)]
			switch rng.Intn(5) {
			case 0:
				queries[i] = append([]byte{}, r...)
			case 1:
				queries[i] = g.spreadSubs(base, rng.Intn(3))
			case 2:
				queries[i] = g.randEdits(r, 1+rng.Intn(2))
			default:
				queries[i] = g.spreadSubs(r, 1+rng.Intn(2))
			}
			if len(queries[i]) == 0 {
				queries[i] = []byte("c")
			}
		}
		emit(fmt.Sprintf("cl1 %s %s %s %s _ %s", c15List(queries), c15List(refs), c15Ints(tx), c15Taxo(t), ixw))
	}
	_ = sort.Ints
}
