//go:build c14

package main

// C14 — taxonomy queries agree with the tree.
//
// case line:  tax|taxd n<id>:<parent>:<rankhex>… a<old>:<new>… q<op>:<args>…
//   tax  : the taxonomy is built through the API (NewTaxonomy, AddNewTaxa, ReindexParent, AddNewName, AddNewAlias)
//   taxd : the same data is written as nodes.dmp / names.dmp / merged.dmp and loaded by ncbitaxdump.LoadNCBITaxDump
//   dump N<hex nodes.dmp> M<hex names.dmp> G<hex merged.dmp> [n… a…] q… : the three files are given as bytes and loaded by
//          LoadNCBITaxDump (the model of the loader, Model/TaxLoad.lean, reads the same bytes); the n…/a… words are the tree the
//          generator declared (oracle), absent when the files were damaged on purpose (then the model is the only reference)
// result: one word per query (or reindex-err / panic for a loader panic).
// queries added in the deepening round: str:<hex> (Taxon(string)), rss:<hex>:s (IsSubCladeOfSlot on a string attribute),
// isub:c irank:r ibel:c,c (ITaxonSet filters drained, sorted), tpath:s (taxonomic_path), name:x, state (nodes and alias maps).
//
// second pass: the sequence level entry points of pkg/obitax (sequence_predicate.go, sequence_methods.go, sequence_workers.go)
// called directly: vf:s (IsAValidTaxon(true): answer ':' taxid attribute afterwards), sp:c:s (Taxonomy.IsSubCladeOf(c) closure),
// hq:r:s (Taxonomy.HasRequiredRank(r) closure), sw:k:s (k = sp|ge|fa: MakeSetSpecies/Genus/FamilyWorker + SetSpecies/…, r<hex>:
// MakeSetTaxonAtRankWorker), sn:s (SetScientificName, AddScientificNameWorker), tr:s (SetTaxonomicRank, AddTaxonRankWorker);
// wlo:k=w,… (Taxonomy.LCA(…, 1.0) run 300 times: the sorted set of its answers over Go's map iteration orders).
// third pass: itx (Taxonomy.Iterator() drained: count/sum of the taxids mod 1000003), isl:<ids>:<f> (TaxonSlice source through f = all | sub:c | rank:r |
// bel:c,c | find:r:c,c, TaxonSlice() in order / TaxonSet() keys), isp:<ids>:<sched> (an iterator and its Split(), who calls
// Next), ispp:<ids> (the two handles drained by two goroutines: the sorted union), ifind:r:c,c (obifind ITaxonRestrictions on Taxonomy.Iterator()).
// Alias oracle: every query on a sequence whose taxid is a merged id is run again with the taxid it resolves to; the two
// answers must be the same (<op>.alias).
//
// wave 3 (c14_conc.go): conc <g> <r> tax|taxd … : the queries from g goroutines sharing the taxonomy and the predicates / workers built
// once, as the parallel workers of obigrep / obiannotate / obicleandb / obitag do; race conc …: the same under the race detector.
//
// The oracle is computed from the parent table of the case line only (ancestor chains walked naively).

import (
	"encoding/hex"
	"fmt"
	"math/rand"
	"os"
	"path/filepath"
	"sort"
	"strconv"
	"strings"
	"time"

	"git.metabarcoding.org/obitools/obitools4/obitools4/pkg/obiformats/ncbitaxdump"
	"git.metabarcoding.org/obitools/obitools4/obitools4/pkg/obiseq"
	"git.metabarcoding.org/obitools/obitools4/obitools4/pkg/obitax"
	"git.metabarcoding.org/obitools/obitools4/obitools4/pkg/obitools/obiannotate"
	"git.metabarcoding.org/obitools/obitools4/obitools4/pkg/obitools/obifind"
	"git.metabarcoding.org/obitools/obitools4/obitools4/pkg/obitools/obigrep"
)

type c14 struct{}

func init() { props["C14"] = c14{} }

// the rank labels of the NCBI taxonomy
var c14Ranks = []string{"no rank", "superkingdom", "kingdom", "subkingdom", "superphylum", "phylum", "subphylum",
	"superclass", "class", "subclass", "infraclass", "cohort", "subcohort", "superorder", "order", "suborder",
	"infraorder", "parvorder", "superfamily", "family", "subfamily", "tribe", "subtribe", "genus", "subgenus",
	"section", "subsection", "series", "species group", "species subgroup", "species", "subspecies", "varietas",
	"forma", "forma specialis", "strain", "isolate", "clade", "serotype", "serogroup", "biotype", "genotype",
	"morph", "pathogroup"}

// labels only usable through the API (the dump format trims blanks and splits on '|')
var c14OddRanks = []string{"", "Species", "species ", " genus", "a|b", "rang é", "x:y,z=t"}

type c14Tree struct {
	ids     []int // in AddNewTaxa order
	parent  map[int]int
	rank    map[int]string
	aliases [][2]int // (old, new) in AddNewAlias order
	ref     *c14Ref  // cached by getRef (generators only, once the aliases are in place)
	// mode dump: the bytes of nodes.dmp / names.dmp / merged.dmp (ids etc. then hold the tree the generator
	// declared, empty when the dump is not meant to be one)
	dumpN, dumpM, dumpG []byte
	ncbiLayout          bool // nodes.dmp / merged.dmp are the declared tree in the NCBI layout (word L of the case line)
}

func (t *c14Tree) getRef() *c14Ref {
	if t.ref == nil {
		t.ref = c14NewRef(t)
	}
	return t.ref
}

func c14Hex(s string) string {
	if s == "" {
		return "-"
	}
	return hex.EncodeToString([]byte(s))
}

func c14Unhex(s string) (string, bool) {
	if s == "-" {
		return "", true
	}
	b, err := hex.DecodeString(s)
	if err != nil || s != strings.ToLower(s) {
		return "", false
	}
	return string(b), true
}

func c14UnhexB(s string) ([]byte, bool) {
	r, ok := c14Unhex(s)
	if !ok {
		return nil, false
	}
	for i := 0; i < len(r); i++ {
		if r[i] >= 0x80 {
			return nil, false
		}
	}
	return []byte(r), true
}

// dumpLine: a dump case; the declared tree (n…, a… words) is given when the dump is meant to be that tree
func (t *c14Tree) dumpLine(declared bool, qs []string) string {
	var sb strings.Builder
	fmt.Fprintf(&sb, "dump N%s M%s G%s", c14Hex(string(t.dumpN)), c14Hex(string(t.dumpM)), c14Hex(string(t.dumpG)))
	if declared {
		if t.ncbiLayout {
			sb.WriteString(" L")
		}
		rest := t.line("", nil)
		sb.WriteString(rest)
	}
	for _, q := range qs {
		sb.WriteString(" q")
		sb.WriteString(q)
	}
	return sb.String()
}

func (t *c14Tree) line(mode string, qs []string) string {
	var sb strings.Builder
	sb.WriteString(mode)
	for _, id := range t.ids {
		fmt.Fprintf(&sb, " n%d:%d:%s", id, t.parent[id], c14Hex(t.rank[id]))
	}
	for _, a := range t.aliases {
		fmt.Fprintf(&sb, " a%d:%d", a[0], a[1])
	}
	for _, q := range qs {
		sb.WriteString(" q")
		sb.WriteString(q)
	}
	return sb.String()
}

// ---------------------------------------------------------------------------------------------
// generators

// c14Shape returns parent indices (par[0] = 0 is the root) of a tree with n nodes.
func c14Shape(rng *rand.Rand, n int, kind int) []int {
	par := make([]int, n)
	for i := 1; i < n; i++ {
		switch kind {
		case 0: // uniform attachment
			par[i] = rng.Intn(i)
		case 1: // chain
			par[i] = i - 1
		case 2: // star
			par[i] = 0
		case 3: // mostly deep
			if rng.Intn(5) > 0 {
				par[i] = i - 1
			} else {
				par[i] = rng.Intn(i)
			}
		case 4: // binary heap
			par[i] = (i - 1) / 2
		case 5: // caterpillar: a spine with leaves
			if i%2 == 1 {
				par[i] = max(0, i-2)
			} else {
				par[i] = i - 1
			}
		default: // attach among the last few
			par[i] = i - 1 - rng.Intn(min(i, 3))
		}
	}
	return par
}

// c14Label turns a shape into a tree with taxids and ranks.
func c14Label(rng *rand.Rand, par []int, idMode int, ranks []string) *c14Tree {
	n := len(par)
	ids := make([]int, n)
	switch idMode {
	case 0: // 1..n, root = 1
		for i := range ids {
			ids[i] = i + 1
		}
	case 1: // random distinct, root = 1
		seen := map[int]bool{1: true}
		ids[0] = 1
		for i := 1; i < n; i++ {
			for {
				v := 2 + rng.Intn(20*n+50)
				if !seen[v] {
					seen[v] = true
					ids[i] = v
					break
				}
			}
		}
	default: // random distinct, any root (0 allowed)
		seen := map[int]bool{}
		for i := 0; i < n; i++ {
			for {
				v := rng.Intn(20*n + 50)
				if !seen[v] {
					seen[v] = true
					ids[i] = v
					break
				}
			}
		}
	}
	t := &c14Tree{parent: map[int]int{}, rank: map[int]string{}}
	for i := 0; i < n; i++ {
		t.parent[ids[i]] = ids[par[i]]
		t.rank[ids[i]] = ranks[rng.Intn(len(ranks))]
	}
	t.ids = append(t.ids, ids...)
	if rng.Intn(2) == 0 {
		rng.Shuffle(n, func(i, j int) { t.ids[i], t.ids[j] = t.ids[j], t.ids[i] })
	}
	return t
}

func (t *c14Tree) freshID(rng *rand.Rand) int {
	for {
		v := rng.Intn(25*len(t.ids) + 60)
		if _, ok := t.parent[v]; !ok {
			return v
		}
	}
}

// c14Aliases adds k merged-id records: old ids mostly unused taxids (sometimes a live node, sometimes
// repeated), new ids live nodes, earlier old ids (chains) or unknown taxids.
func c14Aliases(rng *rand.Rand, t *c14Tree, k int) {
	for i := 0; i < k; i++ {
		old := t.freshID(rng)
		switch rng.Intn(10) {
		case 0:
			old = t.ids[rng.Intn(len(t.ids))]
		case 1:
			if len(t.aliases) > 0 {
				old = t.aliases[rng.Intn(len(t.aliases))][0]
			}
		}
		nw := t.ids[rng.Intn(len(t.ids))]
		switch rng.Intn(8) {
		case 0:
			nw = t.freshID(rng)
		case 1, 2:
			if len(t.aliases) > 0 {
				nw = t.aliases[rng.Intn(len(t.aliases))][0]
			}
		}
		t.aliases = append(t.aliases, [2]int{old, nw})
	}
}

// c14AnyID picks a taxid to query: a node, an alias, or an unknown taxid.
func c14AnyID(rng *rand.Rand, t *c14Tree) int {
	switch r := rng.Intn(20); {
	case r == 0:
		return t.freshID(rng)
	case r <= 3 && len(t.aliases) > 0:
		return t.aliases[rng.Intn(len(t.aliases))][0]
	case r == 4: // the root
		for _, x := range t.ids {
			if t.parent[x] == x {
				return x
			}
		}
	}
	return t.ids[rng.Intn(len(t.ids))]
}

func c14SeqAttr(rng *rand.Rand, t *c14Tree) string {
	if rng.Intn(12) == 0 {
		return "-"
	}
	return strconv.Itoa(c14AnyID(rng, t))
}

// c14SeqAttrA: the taxid attribute of a sequence for the sequence level queries: often a merged id (alias,
// alias of an alias), sometimes unknown, the root, absent
func c14SeqAttrA(rng *rand.Rand, t *c14Tree) string {
	switch r := rng.Intn(20); {
	case r < 7 && len(t.aliases) > 0:
		return strconv.Itoa(t.aliases[rng.Intn(len(t.aliases))][0])
	case r < 9:
		return strconv.Itoa(t.freshID(rng))
	case r < 11:
		for _, x := range t.ids {
			if t.parent[x] == x {
				return strconv.Itoa(x)
			}
		}
	case r == 11:
		return "-"
	}
	return strconv.Itoa(t.ids[rng.Intn(len(t.ids))])
}

// c14SeqQueries: the sequence level queries of a small tree for every taxid a sequence can carry (nodes, merged
// ids, an unknown taxid, none) x every clade (nodes, merged ids)
func c14SeqQueries(rng *rand.Rand, t *c14Tree, ranks []string) []string {
	var qs []string
	seen := map[int]bool{}
	var carried, clades []int
	for _, x := range t.ids {
		if !seen[x] {
			seen[x] = true
			carried = append(carried, x)
		}
	}
	for _, a := range t.aliases {
		if !seen[a[0]] {
			seen[a[0]] = true
			carried = append(carried, a[0])
		}
	}
	clades = append(clades, carried...)
	carried = append(carried, t.freshID(rng))
	attrs := []string{"-"}
	for _, x := range carried {
		attrs = append(attrs, strconv.Itoa(x))
	}
	for _, s := range attrs {
		qs = append(qs, "vf:"+s, "val:"+s, "sn:"+s, "tr:"+s, "tpath:"+s, "sw:sp:"+s, "sw:ge:"+s, "sw:fa:"+s)
		for _, r := range ranks {
			qs = append(qs, fmt.Sprintf("sw:r%s:%s", c14Hex(r), s), fmt.Sprintf("hq:%s:%s", c14Hex(r), s), fmt.Sprintf("sr:%s:%s", c14Hex(r), s))
		}
		for _, c := range clades {
			qs = append(qs, fmt.Sprintf("sp:%d:%s", c, s), fmt.Sprintf("rt:%d:%s", c, s), fmt.Sprintf("ig:%d:%s", c, s), fmt.Sprintf("rs:%d:%s", c, s))
		}
	}
	return qs
}

func c14Join(l []int) string {
	s := make([]string, len(l))
	for i, v := range l {
		s[i] = strconv.Itoa(v)
	}
	return strings.Join(s, ",")
}

func c14IDList(rng *rand.Rand, t *c14Tree, k int) string {
	l := make([]int, k)
	for i := range l {
		l[i] = c14AnyID(rng, t)
		if rng.Intn(3) > 0 { // mostly resolvable, else almost every list is fatal
			l[i] = t.ids[rng.Intn(len(t.ids))]
		}
	}
	return c14Join(l)
}

func c14RankList(rng *rand.Rand, t *c14Tree, ranks []string, k int) string {
	l := make([]string, k)
	for i := range l {
		if rng.Intn(6) == 0 {
			l[i] = c14Hex(ranks[rng.Intn(len(ranks))]) // maybe carried by no node: fatal
		} else {
			l[i] = c14Hex(t.rank[t.ids[rng.Intn(len(t.ids))]])
		}
	}
	return strings.Join(l, ",")
}

// c14Weights makes the k=w list of a merged_taxid map: distinct keys, free counts (one in twelve is zero); several
// keys may resolve to the same node (a merged id next to the current taxid, two merged ids) with unrelated counts,
// zero or not: TaxonomicDistribution adds them (5d9c1cf), the answer must be that of the summed counts.
func c14Weights(rng *rand.Rand, t *c14Tree, k int, clade bool) string {
	ref := t.getRef()
	keys := map[int]bool{}
	wOf := map[int]int{}
	var parts []string
	var pool []int
	if clade && len(t.ids) > 0 { // taxa below one node: a non-root answer is likely
		c := t.ids[rng.Intn(len(t.ids))]
		for _, x := range t.ids {
			if len(pool) < 200 && ref.isAnc(c, x) {
				pool = append(pool, x)
			}
		}
	}
	var mergedOf map[int][]int // node -> the merged ids that resolve to it
	add := func(x int) {
		if keys[x] {
			return
		}
		keys[x] = true
		w := 1 + rng.Intn(5)
		if rng.Intn(12) == 0 || (len(wOf) > 0 && rng.Intn(40) == 0) {
			w = 0
		}
		if r, ok := ref.resolve(x); ok {
			if w0, seen := wOf[r]; seen {
				if rng.Intn(3) == 0 { // a zero count next to a positive one, either way round
					if w0 > 0 {
						w = 0
					} else {
						w = 1 + rng.Intn(5)
					}
				}
				stat("gen:wl-dup-node")
				if (w0 == 0) != (w == 0) {
					stat("gen:wl-dup-mixed")
				}
				wOf[r] = w0 + w
			} else {
				wOf[r] = w
			}
		}
		parts = append(parts, fmt.Sprintf("%d=%d", x, w))
	}
	for i := 0; i < k; i++ {
		x := c14AnyID(rng, t)
		if len(pool) > 0 && rng.Intn(10) > 0 {
			x = pool[rng.Intn(len(pool))]
		}
		add(x)
		if len(t.aliases) > 0 && len(t.aliases) <= 400 && rng.Intn(4) == 0 { // a second key for the same taxon
			if mergedOf == nil {
				mergedOf = map[int][]int{}
				for _, a := range t.aliases {
					if _, live := t.parent[a[0]]; live {
						continue
					}
					if y, ok := ref.resolve(a[0]); ok {
						mergedOf[y] = append(mergedOf[y], a[0])
					}
				}
			}
			if r, ok := ref.resolve(x); ok {
				if l := mergedOf[r]; len(l) > 0 {
					add(l[rng.Intn(len(l))])
					if x != r && rng.Intn(2) == 0 {
						add(r)
					}
				}
			}
		}
	}
	if len(parts) > 1 && rng.Intn(2) == 0 {
		rng.Shuffle(len(parts), func(i, j int) { parts[i], parts[j] = parts[j], parts[i] })
	}
	return strings.Join(parts, ",")
}

// c14WeightsDup: a merged_taxid map in which exactly one taxon is present under two keys (a merged id and the
// taxid it resolves to, or two merged ids), once with a zero count and once with a positive one, next to at most
// two other taxa of positive count: before 5d9c1cf TaxonomicDistribution kept whichever of the two keys Go's map
// iteration yielded last (order dependence, now repaired: the wlo query demands one answer, the tree-implied one)
func c14WeightsDup(rng *rand.Rand, t *c14Tree) string {
	ref := t.getRef()
	for try := 0; try < 20; try++ {
		a := t.aliases[rng.Intn(len(t.aliases))][0]
		x, ok := ref.resolve(a)
		if _, live := t.parent[a]; !ok || live {
			continue
		}
		k2 := x
		if rng.Intn(3) == 0 { // another merged id of the same taxon
			for _, b := range t.aliases {
				if y, ok := ref.resolve(b[0]); ok && y == x && b[0] != a {
					if _, live := t.parent[b[0]]; !live {
						k2 = b[0]
					}
				}
			}
		}
		parts := []string{fmt.Sprintf("%d=0", a), fmt.Sprintf("%d=%d", k2, 1+rng.Intn(4))}
		if rng.Intn(2) == 0 {
			parts[0], parts[1] = fmt.Sprintf("%d=%d", a, 1+rng.Intn(4)), fmt.Sprintf("%d=0", k2)
		}
		used := map[int]bool{x: true}
		for i := rng.Intn(3); i > 0; i-- {
			y := t.ids[rng.Intn(len(t.ids))]
			if !used[y] {
				used[y] = true
				parts = append(parts, fmt.Sprintf("%d=%d", y, 1+rng.Intn(4)))
			}
		}
		rng.Shuffle(len(parts), func(i, j int) { parts[i], parts[j] = parts[j], parts[i] })
		return strings.Join(parts, ",")
	}
	return fmt.Sprintf("%d=1", t.ids[0])
}

// c14SrcList: the taxa of a TaxonSlice handed to an iterator: nodes in any order, with repetitions, now and then
// a merged id (Taxon resolves it), rarely an unknown taxid (the whole query is then unk)
func c14SrcList(rng *rand.Rand, t *c14Tree, k int) string {
	l := make([]int, 0, k)
	for i := 0; i < k; i++ {
		switch r := rng.Intn(40); {
		case r == 0 && k > 0 && rng.Intn(3) == 0:
			l = append(l, t.freshID(rng))
		case r < 6 && len(t.aliases) > 0:
			l = append(l, t.aliases[rng.Intn(len(t.aliases))][0])
		case r < 12 && len(l) > 0:
			l = append(l, l[rng.Intn(len(l))])
		default:
			l = append(l, t.ids[rng.Intn(len(t.ids))])
		}
	}
	return c14Join(l)
}

func c14RandQueries(rng *rand.Rand, t *c14Tree, ranks []string, k int) []string {
	qs := make([]string, 0, k)
	rk := func() string {
		if rng.Intn(5) == 0 {
			return c14Hex(ranks[rng.Intn(len(ranks))])
		}
		return c14Hex(t.rank[t.ids[rng.Intn(len(t.ids))]])
	}
	for i := 0; i < k; i++ {
		switch rng.Intn(39) {
		case 36: // a TaxonSlice source (order, duplicates, merged ids) through one filter or the obifind pipeline
			var spec string
			switch rng.Intn(6) {
			case 0:
				spec = "all"
			case 1:
				spec = "rank:" + rk()
			case 2:
				spec = "bel:" + c14IDList(rng, t, rng.Intn(4))
			case 3:
				r := "-"
				if rng.Intn(3) > 0 {
					r = rk()
				}
				spec = "find:" + r + ":" + c14IDList(rng, t, rng.Intn(3))
			default:
				spec = fmt.Sprintf("sub:%d", c14AnyID(rng, t))
			}
			qs = append(qs, "isl:"+c14SrcList(rng, t, rng.Intn(11))+":"+spec)
		case 37: // an iterator and its Split, any order of the Next calls
			src := c14SrcList(rng, t, rng.Intn(9))
			n := 0
			if src != "" {
				n = strings.Count(src, ",") + 1
			}
			var sched []byte
			for j := rng.Intn(n + 4); j > 0; j-- {
				sched = append(sched, "ab"[rng.Intn(2)])
			}
			if rng.Intn(8) == 0 { // one consumer only
				sched = []byte(strings.Repeat([]string{"a", "b"}[rng.Intn(2)], n+1+rng.Intn(2)))
			}
			if rng.Intn(4) == 0 {
				qs = append(qs, "ispp:"+c14SrcList(rng, t, rng.Intn(40)))
			} else {
				qs = append(qs, "isp:"+src+":"+string(sched))
			}
		case 38:
			switch {
			case len(t.ids) > 400 && rng.Intn(4) > 0:
				qs = append(qs, fmt.Sprintf("sub:%d:%d", c14AnyID(rng, t), c14AnyID(rng, t)))
			case rng.Intn(4) == 0:
				qs = append(qs, "itx")
			default:
				r := "-"
				if rng.Intn(2) == 0 {
					r = rk()
				}
				qs = append(qs, "ifind:"+r+":"+c14IDList(rng, t, rng.Intn(3)))
			}
		case 28:
			qs = append(qs, "vf:"+c14SeqAttrA(rng, t))
		case 29:
			qs = append(qs, fmt.Sprintf("sp:%s:%s", c14IDList(rng, t, 1), c14SeqAttrA(rng, t)))
		case 30:
			qs = append(qs, fmt.Sprintf("hq:%s:%s", rk(), c14SeqAttrA(rng, t)))
		case 31:
			k := []string{"sp", "ge", "fa", "r" + rk(), "r" + rk()}[rng.Intn(5)]
			qs = append(qs, fmt.Sprintf("sw:%s:%s", k, c14SeqAttrA(rng, t)))
		case 32:
			qs = append(qs, []string{"sn:", "tr:", "tpath:"}[rng.Intn(3)]+c14SeqAttrA(rng, t))
		case 33:
			qs = append(qs, fmt.Sprintf("%s:%s:%s", []string{"rt", "ig"}[rng.Intn(2)], c14IDList(rng, t, 1+rng.Intn(2)), c14SeqAttrA(rng, t)))
		case 34:
			qs = append(qs, fmt.Sprintf("flt:%s:%s:%s:%s", c14RankList(rng, t, ranks, rng.Intn(2)),
				c14IDList(rng, t, rng.Intn(2)), c14IDList(rng, t, rng.Intn(2)), c14SeqAttrA(rng, t)))
		case 35:
			if len(t.aliases) > 0 && rng.Intn(2) == 0 {
				qs = append(qs, "wlo:"+c14WeightsDup(rng, t))
			} else {
				qs = append(qs, fmt.Sprintf("rs:%d:%s", c14AnyID(rng, t), c14SeqAttrA(rng, t)))
			}
		case 22:
			qs = append(qs, "str:"+c14Hex(c14StrForm(rng, t)))
		case 23:
			qs = append(qs, fmt.Sprintf("rss:%s:%s", c14Hex(c14StrForm(rng, t)), c14SeqAttr(rng, t)))
		case 24:
			if (len(t.ids) > 400 && rng.Intn(4) > 0) || (len(t.ids) > 40 && rng.Intn(2) > 0) { // long listings: not too many
				qs = append(qs, fmt.Sprintf("lca:%d:%d", c14AnyID(rng, t), c14AnyID(rng, t)))
			} else {
				qs = append(qs, fmt.Sprintf("isub:%d", c14AnyID(rng, t)))
			}
		case 25:
			if len(t.ids) > 40 && rng.Intn(2) > 0 {
				qs = append(qs, fmt.Sprintf("rank:%d:%s", c14AnyID(rng, t), rk()))
			} else {
				qs = append(qs, "irank:"+rk())
			}
		case 26:
			if (len(t.ids) > 400 && rng.Intn(4) > 0) || (len(t.ids) > 40 && rng.Intn(2) > 0) {
				qs = append(qs, fmt.Sprintf("sub:%d:%d", c14AnyID(rng, t), c14AnyID(rng, t)))
			} else {
				qs = append(qs, "ibel:"+c14IDList(rng, t, rng.Intn(4)))
			}
		case 27:
			switch r := rng.Intn(3); {
			case r == 0 && len(t.ids) <= 400:
				qs = append(qs, "state")
			case r == 1:
				qs = append(qs, fmt.Sprintf("name:%d", c14AnyID(rng, t)))
			default:
				qs = append(qs, "tpath:"+c14SeqAttr(rng, t))
			}
		case 0, 1:
			qs = append(qs, fmt.Sprintf("path:%d", c14AnyID(rng, t)))
		case 2, 3, 4, 5:
			qs = append(qs, fmt.Sprintf("lca:%d:%d", c14AnyID(rng, t), c14AnyID(rng, t)))
		case 6:
			x := c14AnyID(rng, t)
			qs = append(qs, fmt.Sprintf("lca:%d:%d", x, x))
		case 7, 8:
			qs = append(qs, fmt.Sprintf("sub:%d:%d", c14AnyID(rng, t), c14AnyID(rng, t)))
		case 9:
			// an ancestor pair on purpose
			x := t.ids[rng.Intn(len(t.ids))]
			ch := t.getRef().chain(x)
			qs = append(qs, fmt.Sprintf("sub:%d:%d", x, ch[rng.Intn(len(ch))]))
		case 10, 11:
			qs = append(qs, fmt.Sprintf("rank:%d:%s", c14AnyID(rng, t), rk()))
		case 12:
			qs = append(qs, fmt.Sprintf("has:%d:%s", c14AnyID(rng, t), rk()))
		case 13:
			qs = append(qs, fmt.Sprintf("res:%d", c14AnyID(rng, t)))
			qs = append(qs, "val:"+c14SeqAttr(rng, t))
		case 14:
			qs = append(qs, fmt.Sprintf("rt:%s:%s", c14IDList(rng, t, 1+rng.Intn(3)), c14SeqAttr(rng, t)))
		case 15:
			qs = append(qs, fmt.Sprintf("ig:%s:%s", c14IDList(rng, t, 1+rng.Intn(3)), c14SeqAttr(rng, t)))
		case 16:
			qs = append(qs, fmt.Sprintf("rr:%s:%s", c14RankList(rng, t, ranks, 1+rng.Intn(3)), c14SeqAttr(rng, t)))
		case 17:
			qs = append(qs, fmt.Sprintf("flt:%s:%s:%s:%s", c14RankList(rng, t, ranks, rng.Intn(3)),
				c14IDList(rng, t, rng.Intn(3)), c14IDList(rng, t, rng.Intn(3)), c14SeqAttr(rng, t)))
		case 18:
			c := "-"
			if rng.Intn(6) > 0 {
				c = strconv.Itoa(c14AnyID(rng, t))
			}
			qs = append(qs, fmt.Sprintf("rs:%s:%s", c, c14SeqAttr(rng, t)))
		case 19:
			qs = append(qs, fmt.Sprintf("sr:%s:%s", rk(), c14SeqAttr(rng, t)))
		case 20:
			qs = append(qs, "wl:"+c14Weights(rng, t, 1+rng.Intn(6), rng.Intn(3) > 0))
		case 21:
			if rng.Intn(3) == 0 {
				qs = append(qs, "wls:"+c14SeqAttr(rng, t))
			} else {
				qs = append(qs, "wl:"+c14Weights(rng, t, 2+rng.Intn(12), true))
			}
		}
	}
	return qs
}

// c14StrForm: a string handed to Taxonomy.Taxon(string): the forms it parses and near misses
func c14StrForm(rng *rand.Rand, t *c14Tree) string {
	a, b := c14AnyID(rng, t), c14AnyID(rng, t)
	switch rng.Intn(30) {
	case 0, 1, 2:
		return fmt.Sprintf("%d", a)
	case 3, 4, 5, 6:
		return fmt.Sprintf("TX:%d", a)
	case 7, 8:
		return fmt.Sprintf("Some name [TX:%d]", a)
	case 9:
		return fmt.Sprintf("+%d", a)
	case 10:
		return fmt.Sprintf("-%d", a)
	case 11:
		return fmt.Sprintf("TX:TX:%d", a)
	case 12:
		return fmt.Sprintf("TX:x TX:%d", a)
	case 13:
		return fmt.Sprintf("TX:%d TX:%d", a, b)
	case 14:
		return fmt.Sprintf("%d TX:%d", a, b)
	case 15:
		return fmt.Sprintf("tx:%d", a)
	case 16:
		return fmt.Sprintf("TX: %d", a)
	case 17:
		return fmt.Sprintf("TX:%dabc%d", a, b)
	case 18:
		return fmt.Sprintf("00%d", a)
	case 19:
		return fmt.Sprintf(" %d", a)
	case 20:
		return fmt.Sprintf("%d ", a)
	case 21:
		return fmt.Sprintf("TX:00%d", a)
	case 22:
		return fmt.Sprintf("code:%d [name]@species", a)
	case 23:
		return []string{"", "TX:", "TX", "T", "X:1", "TX:-1", "TX:+1", "-", "+", "-0", "+0", "TX:0", "--1", "1_0", "0x1", "1e1", "TTX:1", "TX:TX:", "TXTX:1"}[rng.Intn(19)]
	case 24:
		return fmt.Sprintf("T%dX:%d:TX:%d", a, b, a)
	case 25:
		return fmt.Sprintf("%d:%d", a, b)
	case 26:
		return fmt.Sprintf("TX:%d|TX:%d", b, a)
	case 27:
		return fmt.Sprintf("X:%d TX%d TX:%d.", a, a, b)
	case 28:
		return fmt.Sprintf("-TX:%d", a)
	}
	return fmt.Sprintf("taxon TX:%d [n%d]@rank", a, a)
}

// ---------------------------------------------------------------------------------------------
// dump files

// ranks usable in a dump meant to be read back unchanged: ASCII, no '|', '"', line break, no blank at either end
var c14DumpOddRanks = []string{"", "Species", "a b", "x:y,z=t", "#rank", "no  rank", "r'1", "sub-species", "0", "-"}

var c14Pads = []string{"", "\t", " ", "  ", "\t ", " \t", "\t\t"}

func c14Pad(rng *rand.Rand, ncbi bool) string {
	if ncbi {
		return "\t"
	}
	return c14Pads[rng.Intn(len(c14Pads))]
}

func c14Num(rng *rand.Rand, v int, ncbi bool) string {
	if !ncbi {
		switch rng.Intn(25) {
		case 0:
			return fmt.Sprintf("+%d", v)
		case 1:
			return fmt.Sprintf("00%d", v)
		}
	}
	return strconv.Itoa(v)
}

// c14RenderDump writes the tree as nodes.dmp / names.dmp / merged.dmp in a random but equivalent layout (ncbi: the
// exact layout of the NCBI files). The rendering must load as exactly the tree t with the names c14Name.
func c14RenderDump(rng *rand.Rand, t *c14Tree, ncbi bool) {
	var nodes, names, merged strings.Builder
	nExtra, endBar, crlf := 2, true, 0
	if !ncbi {
		nExtra, endBar, crlf = rng.Intn(4), rng.Intn(4) > 0, []int{0, 0, 1, 2}[rng.Intn(4)] // 1: all lines, 2: some lines
	}
	nl := func() string {
		if crlf == 1 || (crlf == 2 && rng.Intn(2) == 0) {
			return "\r\n"
		}
		return "\n"
	}
	row := func(sb *strings.Builder, fields []string, last bool) {
		for i, f := range fields {
			if i > 0 {
				sb.WriteString("|")
			}
			if !(ncbi && i == 0) { // NCBI layout: no blank before the first field
				sb.WriteString(c14Pad(rng, ncbi))
			}
			sb.WriteString(f)
			sb.WriteString(c14Pad(rng, ncbi))
		}
		if endBar {
			sb.WriteString("|")
		}
		switch {
		case last && !ncbi && rng.Intn(6) == 0:
		case last && !ncbi && rng.Intn(8) == 0:
			sb.WriteString("\r")
		default:
			sb.WriteString(nl())
		}
	}
	noise := func(sb *strings.Builder) {
		if !ncbi && rng.Intn(12) == 0 {
			sb.WriteString([]string{"# a comment | with \" bars\n", "\n", "\r\n", "#\n", "#1|1|x|\r\n"}[rng.Intn(5)])
		}
	}
	for i, id := range t.ids {
		noise(&nodes)
		f := []string{c14Num(rng, id, ncbi), c14Num(rng, t.parent[id], ncbi), t.rank[id]}
		for k := 0; k < nExtra; k++ {
			if ncbi {
				f = append(f, []string{"", "8"}[k])
			} else {
				f = append(f, []string{"", "8", "code compliant; specified", "x y"}[rng.Intn(4)])
			}
		}
		row(&nodes, f, i == len(t.ids)-1)
	}
	// names: decoys first (other classes, unknown taxids, an earlier scientific name), then the scientific names
	var nameRows [][]string
	for _, id := range t.ids {
		switch rng.Intn(6) {
		case 0:
			nameRows = append(nameRows, []string{strconv.Itoa(id), fmt.Sprintf("old \"name\" %d", id), "", "scientific name"})
		case 1:
			nameRows = append(nameRows, []string{strconv.Itoa(id), fmt.Sprintf("syn %d", id), "", "synonym"})
		case 2:
			nameRows = append(nameRows, []string{strconv.Itoa(t.freshID(rng)), "#ghost", "", "scientific name"})
		}
	}
	order := rng.Perm(len(t.ids))
	for _, i := range order {
		id := t.ids[i]
		nameRows = append(nameRows, []string{c14Num(rng, id, ncbi), c14Name(id), fmt.Sprintf("u%d", id), "scientific name"})
		if rng.Intn(4) == 0 {
			nameRows = append(nameRows, []string{strconv.Itoa(id), fmt.Sprintf("common %d", id), "", []string{"common name", "Scientific name", "scientific  name", "scientific name x", ""}[rng.Intn(5)]})
		}
	}
	for i, r := range nameRows {
		row(&names, r, i == len(nameRows)-1)
	}
	for i, a := range t.aliases {
		noise(&merged)
		row(&merged, []string{c14Num(rng, a[0], ncbi), c14Num(rng, a[1], ncbi)}, i == len(t.aliases)-1)
	}
	t.dumpN, t.dumpM, t.dumpG = []byte(nodes.String()), []byte(names.String()), []byte(merged.String())
}

// c14Spoil damages a rendered dump in one way (the result is no more the declared tree: model-only reference).
// The tree must list parents before children so that a truncated nodes.dmp is still closed under parents.
func c14Spoil(rng *rand.Rand, t *c14Tree) string {
	lines := func(b []byte) []string { return strings.SplitAfter(string(b), "\n") }
	nl, ml, gl := lines(t.dumpN), lines(t.dumpM), lines(t.dumpG)
	late := func(l []string) int { return len(l) - 1 - rng.Intn(min(len(l), 3)) }
	ins := func(l []string, i int, s string) []string {
		if i < 0 {
			i = 0
		}
		out := append([]string{}, l[:i]...)
		out = append(out, s)
		return append(out, l[i:]...)
	}
	kind := []string{"dup", "bare-quote", "field-count", "nan", "short-first", "blank-line", "names-empty", "names-short",
		"names-comment", "names-long", "no-parent", "merged-quote", "merged-nan", "big-id", "too-big-id", "odd-space",
		"merged-count", "names-nan", "quote-comment"}[rng.Intn(19)]
	x := t.ids[rng.Intn(len(t.ids))]
	nodeRow := func(id, parent, rank string) string { return id + "\t|\t" + parent + "\t|\t" + rank + "\t|\t\t|\t8\t|\n" }
	itoa := strconv.Itoa
	switch kind {
	case "dup": // a taxid given twice: the last line wins
		nl = append(nl, nodeRow(itoa(x), itoa(t.ids[0]), "dup rank"))
	case "bare-quote": // ErrBareQuote ends the loop silently
		nl = ins(nl, late(nl), nodeRow(itoa(t.freshID(rng)), itoa(x), "spe\"cies"))
	case "field-count": // ErrFieldCount ends the loop silently
		nl = ins(nl, late(nl), fmt.Sprintf("%d|%d|species|a|b|c|d|e|f|g\n", t.freshID(rng), x))
	case "nan":
		nl = ins(nl, late(nl), nodeRow([]string{"x", "1x", "", "1 2", "1_0", "0x1", "1.0"}[rng.Intn(7)], "1", "species"))
		if rng.Intn(2) == 0 {
			nl = ins(nl, late(nl), nodeRow(itoa(t.freshID(rng)), []string{"y", "", "1-"}[rng.Intn(3)], "species"))
		}
	case "short-first":
		nl = ins(nl, 0, []string{"1|1\n", "1\n", "1|\n", "x\n"}[rng.Intn(4)])
	case "blank-line": // a line of blanks is a record with one empty field
		nl = ins(nl, late(nl), []string{" \n", "\t\n", " \r\n", "\v\n"}[rng.Intn(4)])
	case "names-empty":
		ml = ins(ml, late(ml), "\n")
	case "names-short":
		ml = ins(ml, late(ml), []string{"1|a|b\n", "1|a\n", "1\n", "1|a|b|\n"}[rng.Intn(4)])
	case "names-comment":
		ml = ins(ml, late(ml), "# not a comment here\n")
	case "names-nan":
		ml = ins(ml, late(ml), " |a|b|scientific name|\n")
	case "names-long": // a line that does not fit the 4096 byte buffer ends the names silently
		n := []int{4095, 4096, 4097, 5000, 9000}[rng.Intn(5)]
		tail := "|u|scientific name|" // exactly n bytes before the line break
		ml = ins(ml, rng.Intn(len(ml)), itoa(x)+"|"+strings.Repeat("z", n-len(itoa(x))-1-len(tail))+tail+"\n")
	case "no-parent":
		nl = ins(nl, late(nl), nodeRow(itoa(t.freshID(rng)), itoa(t.freshID(rng)), "species"))
	case "merged-quote":
		gl = ins(gl, late(gl), fmt.Sprintf("%d\t|\t%d\"\t|\n", t.freshID(rng), x))
	case "merged-nan":
		gl = ins(gl, late(gl), []string{"a\t|\t1\t|\n", "1\t|\tb\t|\n", "\t|\t\t|\n"}[rng.Intn(3)])
	case "merged-count":
		gl = ins(gl, late(gl), fmt.Sprintf("%d|%d|x|y|z|t\n", t.freshID(rng), x))
	case "big-id": // the largest int: a leaf below x
		nl = append(nl, nodeRow("9223372036854775807", itoa(x), "species"))
	case "too-big-id":
		nl = ins(nl, late(nl), nodeRow("9223372036854775808", "1", "species"))
	case "odd-space": // \v \f and a carriage return inside a line are blanks for TrimSpace
		nl = append(nl, nodeRow("\v"+itoa(t.freshID(rng))+"\f", "\r"+itoa(x)+"\r", "\fodd\vrank\r"))
	case "quote-comment": // a quote in a comment line is harmless, in an ignored field it is not
		nl = ins(nl, late(nl), "# \"quoted\" comment\n")
		nl = append(nl, fmt.Sprintf("%d\t|\t%d\t|\tspecies\t|\t\t|\t8\"\t|\n", t.freshID(rng), x))
	}
	// the previous last line may lack its terminator
	fix := func(l []string) []byte {
		var sb strings.Builder
		for i, s := range l {
			sb.WriteString(s)
			if i < len(l)-1 && s != "" && !strings.HasSuffix(s, "\n") {
				sb.WriteString("\n")
			}
		}
		return []byte(sb.String())
	}
	t.dumpN, t.dumpM, t.dumpG = fix(nl), fix(ml), fix(gl)
	return kind
}

// c14AllQueries: every pair / node / rank query of a small tree.
func c14AllQueries(rng *rand.Rand, t *c14Tree, ranks []string) []string {
	var qs []string
	ids := append([]int{}, t.ids...)
	sort.Ints(ids)
	for _, x := range ids {
		qs = append(qs, fmt.Sprintf("path:%d", x))
		for _, y := range ids {
			qs = append(qs, fmt.Sprintf("lca:%d:%d", x, y), fmt.Sprintf("sub:%d:%d", x, y))
		}
		for _, r := range ranks {
			qs = append(qs, fmt.Sprintf("rank:%d:%s", x, c14Hex(r)), fmt.Sprintf("has:%d:%s", x, c14Hex(r)))
		}
	}
	// every non-empty subset of the taxa as a merged_taxid map (n <= 4), a sample otherwise
	n := len(ids)
	if n <= 4 {
		for m := 1; m < 1<<n; m++ {
			var p []string
			for i := 0; i < n; i++ {
				if m>>i&1 == 1 {
					p = append(p, fmt.Sprintf("%d=%d", ids[i], 1+(m+i)%3))
				}
			}
			qs = append(qs, "wl:"+strings.Join(p, ","))
		}
	} else {
		for k := 0; k < 12; k++ {
			qs = append(qs, "wl:"+c14Weights(rng, t, 1+rng.Intn(n), false))
		}
	}
	for _, x := range ids {
		s := strconv.Itoa(x)
		for _, c := range ids {
			qs = append(qs, fmt.Sprintf("rt:%d:%s", c, s), fmt.Sprintf("ig:%d:%s", c, s))
		}
		for _, r := range ranks {
			qs = append(qs, fmt.Sprintf("sr:%s:%s", c14Hex(r), s))
		}
	}
	// third pass: the iterator protocol. Every node as a clade of the subtree enumeration, from a source listing
	// the nodes in descending order with the first one repeated; every (rank, clade) pair through obifind;
	// every schedule of two consumers over the nodes (n <= 3: up to n+2 calls), a sample otherwise
	qs = append(qs, "itx")
	desc := make([]int, 0, n+1)
	for i := n - 1; i >= 0; i-- {
		desc = append(desc, ids[i])
	}
	desc = append(desc, ids[n-1])
	for _, c := range ids {
		qs = append(qs, fmt.Sprintf("isl:%s:sub:%d", c14Join(desc), c), fmt.Sprintf("ifind:-:%d", c))
		for _, r := range ranks {
			qs = append(qs, fmt.Sprintf("ifind:%s:%d", c14Hex(r), c))
		}
	}
	if n <= 3 {
		for l := 0; l <= n+2; l++ {
			for m := 0; m < 1<<l; m++ {
				sched := make([]byte, l)
				for i := range sched {
					sched[i] = "ab"[m>>i&1]
				}
				qs = append(qs, "isp:"+c14Join(ids)+":"+string(sched))
			}
		}
	} else {
		for k := 0; k < 6; k++ {
			sched := make([]byte, rng.Intn(n+3))
			for i := range sched {
				sched[i] = "ab"[rng.Intn(2)]
			}
			qs = append(qs, "isp:"+c14Join(desc)+":"+string(sched))
		}
	}
	qs = append(qs, c14RandQueries(rng, t, ranks, 10)...)
	return qs
}

// c14DumpCase: a hand-written dump (the three files as Go strings)
func c14DumpCase(n, m, g string, rest string) string {
	return "dump N" + c14Hex(n) + " M" + c14Hex(m) + " G" + c14Hex(g) + " " + rest
}

// c14GenExtra: the textual taxid forms, the iterators and the dump loader
func c14GenExtra(rng *rand.Rand, tier string, emit func(string)) {
	h := c14Hex
	sp, ge, fa, nr := h("species"), h("genus"), h("family"), h("no rank")
	base := "n1:1:" + nr + " n2:1:" + fa + " n3:2:" + ge + " n4:3:" + sp + " n5:3:" + sp + " n6:2:" + ge + " n7:6:" + sp + " a10:4 a11:10 a12:99 a2:7"
	var strs []string
	for _, s := range []string{"4", "TX:4", "+4", "-4", "-0", "04", " 4", "4 ", "TX:", "", "TX:x", "tx:4", "TX:10", "Homo [TX:11]", "TX:12", "TX:99 TX:4",
		"TX:TX:5", "TXTX:5", "TX:5TX:6", "TX: 5", "5 TX:6", "TX:0005", "TX:9223372036854775808", "9223372036854775807", "9223372036854775808",
		"-9223372036854775808", "-9223372036854775809", "TX:99999999999999999999999", "code:4 [x]@species", "T", "TX", "X:4", "TTX:4", "+", "-", "+-4", "4+",
		"4\n", "TX:4\n", "1_0", "0x4", "4e0", "TX:٤"[:3]} {
		strs = append(strs, "qstr:"+h(s))
	}
	emit("tax " + base + " " + strings.Join(strs, " ") + " qrss:" + h("TX:3") + ":4 qrss:" + h("3") + ":4 qrss:" + h("x [TX:10]") + ":11 qrss:" + h("TX:4") + ":3 qrss:" + h("none") + ":4 qrss:" + h("TX:99") + ":4 qrss:" + h("TX:3") + ":99 qrss:" + h("TX:1") + ":-")
	emit("tax " + base + " qstate qisub:1 qisub:2 qisub:3 qisub:4 qisub:10 qisub:99 qisub:7 qirank:" + sp + " qirank:" + ge + " qirank:" + nr + " qirank:" + h("order") + " qirank:-" +
		" qibel: qibel:3 qibel:3,6 qibel:4,5,7 qibel:1,4 qibel:10,11 qibel:3,99 qibel:2,2 qibel:4,3 qtpath:4 qtpath:11 qtpath:- qtpath:99 qname:10 qname:1 qname:99")
	emit("taxd " + base + " qstate qisub:3 qibel:3,6 qtpath:5 qname:11 qstr:" + h("TX:11"))
	// a star and a chain
	emit("tax n1:1:" + nr + " n2:1:" + sp + " n3:1:" + sp + " n4:1:" + ge + " qisub:1 qisub:3 qibel:2,3 qibel:2,4,3 qirank:" + sp + " qstate")
	emit("tax n5:5:" + nr + " n4:5:" + fa + " n3:4:" + ge + " n2:3:" + sp + " n1:2:" + h("subspecies") + " qisub:5 qisub:3 qisub:1 qibel:1,2 qibel:3,1 qtpath:1 qtpath:- qstate")

	// hand-written dumps
	nodes := "1\t|\t1\t|\tno rank\t|\t\t|\t8\t|\n2\t|\t1\t|\tgenus\t|\t\t|\t8\t|\n3\t|\t2\t|\tspecies\t|\t\t|\t8\t|\n4\t|\t2\t|\tspecies\t|\t\t|\t8\t|\n"
	names := "1\t|\tn1\t|\t\t|\tscientific name\t|\n2\t|\tn2\t|\t\t|\tscientific name\t|\n3\t|\told\t|\t\t|\tscientific name\t|\n3\t|\tn3\t|\tn3 <u>\t|\tscientific name\t|\n3\t|\t\"syn\"\t|\t\t|\tsynonym\t|\n4\t|\tn4\t|\t\t|\tscientific name\t|\n77\t|\tghost\t|\t\t|\tscientific name\t|\n"
	merged := "9\t|\t3\t|\n10\t|\t9\t|\n11\t|\t99\t|\n2\t|\t4\t|\n12\t|\t11\t|\n"
	decl := "n1:1:" + nr + " n2:1:" + ge + " n3:2:" + sp + " n4:2:" + sp + " a9:3 a10:9 a11:99 a2:4 a12:11"
	qs := " qstate qpath:10 qtpath:10 qname:9 qlca:3:4 qlca:10:4 qres:11 qres:12 qres:2 qisub:2 qirank:" + sp + " qstr:" + h("TX:10") + " qrt:2:9 qsr:" + ge + ":10 qwl:3=1,10=1,4=2"
	emit(c14DumpCase(nodes, names, merged, "L "+decl+qs))
	// the same tree in other layouts: no blanks, blanks, CRLF, comments and empty lines, no final line break, final \r, signs and leading zeros
	emit(c14DumpCase("1|1|no rank\n2|1|genus\n3|2|species\n4|2|species\n", "1|n1||scientific name\n2|n2||scientific name\n3|n3||scientific name\n4|n4||scientific name\n", "9|3\n10|9\n11|99\n2|4\n12|11\n", decl+qs))
	emit(c14DumpCase("# nodes\r\n 1 | 1 | no rank |\r\n\r\n2 |1|genus  |\r\n\n\n#3|3|x|\n  +3|002|\tspecies|\n4|2|species|", "1 | n1 | | scientific name |\r\n2|n2||scientific name|\r\n3|n3||scientific name\r\n4|n4|u|  scientific name\t|\r", "9|3|\r\n#\n10|9|\n11|99|\n2|4|\n12|11|\r", decl+qs))
	// a node without any line in names.dmp (taxon 2 here): SetTaxonAtRank dereferenced its nil scientific name
	// (found by the dump generator, fixed by notes/patches/C14-setrank-noname.diff); only name-free queries here
	emit(c14DumpCase(nodes, "1\t|\tn1\t|\t\t|\tscientific name\t|\n3\t|\tn3\t|\t\t|\tscientific name\t|\n", merged,
		decl+" qsr:"+ge+":3 qsr:"+ge+":10 qsr:"+sp+":3 qsr:"+fa+":3 qrank:3:"+ge+" qlca:3:4 qwl:3=1,4=1"))
	// damaged files (the model is the only reference): duplicate taxid, ErrBareQuote / ErrFieldCount end the loading silently,
	// a field that is not a number, a missing field, a line of blanks, an empty line in names.dmp, unknown parent
	st := "qstate qpath:3 qname:3 qres:9"
	emit(c14DumpCase(nodes+"3\t|\t1\t|\tfamily\t|\t\t|\t8\t|\n", names, merged, st))
	emit(c14DumpCase("1|1|no rank|\n2|1|genus|\n3|2|spe\"cies|\n4|2|species|\n", names, merged, st+" qres:4"))
	emit(c14DumpCase("1|1|no rank|\n2|1|genus|\n3|2|species|x\n4|2|species|\n", names, merged, st+" qres:4"))
	emit(c14DumpCase("1|1|no rank|\n2|1|genus|\n3|2|species\n4|2|species|\n", names, merged, st+" qres:4"))
	emit(c14DumpCase("1|1|no rank|\nx|1|genus|\n", names, merged, st))
	emit(c14DumpCase("1|1|no rank|\n2||genus|\n", names, merged, st))
	emit(c14DumpCase("1|1\n2|1\n", names, merged, st))
	emit(c14DumpCase("1\n", names, merged, st))
	emit(c14DumpCase("1|1|no rank|\n \n2|1|genus|\n", names, merged, st))
	emit(c14DumpCase(nodes, "1|n1||scientific name|\n\n2|n2||scientific name|\n", merged, st))
	emit(c14DumpCase(nodes, "1|n1||scientific name|\n2|n2|\n", merged, st))
	emit(c14DumpCase(nodes, "1|n1||scientific name|\n2|n2||\n3|n3||scientific name|x|y\n", merged, st))
	emit(c14DumpCase(nodes, "# names\n1|n1||scientific name|\n", merged, st))
	emit(c14DumpCase(nodes, names, "9|3|\n10|9\"|\n11|3|\n", st+" qres:10 qres:11"))
	emit(c14DumpCase(nodes, names, "9|3|\n10|9|3|\n11|3|\n", st+" qres:10 qres:11"))
	emit(c14DumpCase(nodes, names, "9|3|\nx|9|\n", st))
	emit(c14DumpCase(nodes, names, "9\n", st))
	emit(c14DumpCase(nodes+"5\t|\t6\t|\tspecies\t|\t\t|\t8\t|\n", names, merged, st))
	emit(c14DumpCase("", "", "", st))
	emit(c14DumpCase("\n\n# nothing\n", "", "\r", st))
	emit(c14DumpCase("7|7|r", "7|seven||scientific name", "", "qstate qtpath:7 qtpath:- qpath:7"))
	emit(c14DumpCase("7|7|r\r", "7|seven||scientific name\r", "8|7\r", "qstate qtpath:7 qres:8"))
	emit(c14DumpCase("0|0|\n1|0|\n", "0|||scientific name\n", "", "qstate qtpath:1 qwls:-"))

	nd := 300
	if tier == "thorough" {
		nd = 1000
	}
	for i := 0; i < nd; i++ {
		n := 1 + rng.Intn(30)
		if rng.Intn(10) == 0 {
			n = 30 + rng.Intn(200)
		}
		ranks := c14Ranks
		if rng.Intn(3) == 0 {
			ranks = append(append([]string{}, c14Ranks[22:32]...), c14DumpOddRanks...)
		}
		odd := rng.Intn(3) == 0
		idMode := rng.Intn(3)
		t := c14Label(rng, c14Shape(rng, n, rng.Intn(7)), idMode, ranks)
		if odd { // parents before children: a truncated file is still closed under parents
			sort.SliceStable(t.ids, func(a, b int) bool { return t.getRef().depth[t.ids[a]] < t.getRef().depth[t.ids[b]] })
			t.ref = nil
		}
		c14Aliases(rng, t, rng.Intn(8))
		ncbi := odd || rng.Intn(3) == 0
		c14RenderDump(rng, t, ncbi)
		t.ncbiLayout = ncbi && !odd
		if t.ncbiLayout {
			stat("gen:dump-ncbi-layout")
		}
		qs := append([]string{"state"}, c14RandQueries(rng, t, ranks, 8+rng.Intn(16))...)
		if odd {
			kind := c14Spoil(rng, t)
			emit(t.dumpLine(false, qs))
			stat("gen:dump-" + kind)
		} else {
			emit(t.dumpLine(true, qs))
			stat("gen:dump-clean")
		}
	}
}

// c14Enumerate calls f with every parent vector of a rooted labelled tree on n nodes (root = node 0).
func c14Enumerate(n int, f func(par []int)) {
	par := make([]int, n)
	var rec func(i int)
	rec = func(i int) {
		if i == n {
			for x := 1; x < n; x++ { // every node must reach 0
				y, steps := x, 0
				for y != 0 && steps <= n {
					y = par[y]
					steps++
				}
				if y != 0 {
					return
				}
			}
			f(append([]int{}, par...))
			return
		}
		for p := 0; p < n; p++ {
			if p != i {
				par[i] = p
				rec(i + 1)
			}
		}
	}
	rec(1)
}

func (c14) Gen(rng *rand.Rand, tier string, emit func(string)) {
	h := c14Hex
	sp, ge, fa, nr := h("species"), h("genus"), h("family"), h("no rank")
	// hand-picked corpus
	corpus := []string{
		// a root alone; the sequence default taxid 1
		"tax n1:1:" + nr + " qpath:1 qlca:1:1 qsub:1:1 qrank:1:" + nr + " qrank:1:" + sp + " qhas:1:" + nr + " qval:- qwl:1=3 qwls:- qwls:1 qrt:1:- qig:1:- qsr:" + nr + ":1",
		// one taxon ancestor of the other, root involved, unequal depths
		"tax n1:1:" + nr + " n2:1:" + fa + " n3:2:" + ge + " n4:3:" + sp + " n5:3:" + sp + " n6:2:" + ge + " n7:6:" + sp +
			" qlca:4:3 qlca:3:4 qlca:4:1 qlca:1:4 qlca:4:5 qlca:4:7 qlca:7:4 qlca:2:7 qlca:4:4 qsub:4:2 qsub:2:4 qsub:4:6 qsub:1:4 qsub:4:1" +
			" qrank:4:" + ge + " qrank:4:" + sp + " qrank:4:" + nr + " qrank:2:" + sp + " qhas:2:" + sp + " qhas:7:" + fa +
			" qwl:4=1,5=1 qwl:4=1,5=1,7=1 qwl:4=5,3=1 qwl:4=1,1=1 qwl:4=7 qwl: qwl:4=0,7=0 qwl:4=0,7=2",
		// aliases: chain of merged ids, alias to an unknown taxid, alias shadowed by a live node, alias overwritten
		"tax n1:1:" + nr + " n2:1:" + ge + " n3:2:" + sp + " a10:3 a11:10 a12:99 a2:3 a13:12 a10:2 a14:10" +
			" qres:10 qres:11 qres:12 qres:2 qres:13 qres:14 qres:99 qpath:11 qpath:12 qlca:11:2 qlca:10:11 qsub:11:10 qval:11 qval:12 qrt:10:11 qrt:12:3 qig:11:3 qwl:11=2,3=2 qwl:10=1,11=1 qwl:12=1",
		// root taxid is not 1: a sequence without taxid is unknown
		"tax n7:7:" + nr + " n8:7:" + sp + " qval:- qrt:7:- qig:7:- qrr:" + sp + ":- qsr:" + sp + ":- qwls:- qwls:8 qflt::::- qflt::::8 qflt:" + sp + ":7:8:8 qflt:" + sp + ":7::8",
		// taxid 0 is a node: the \"na\" key of a sequence without taxid resolves to it
		"tax n0:0:" + nr + " n1:0:" + sp + " qwls:- qval:- qpath:0 qlca:0:1",
		// two roots: the LCA of taxa of different trees indexes past the path (the weighted LCA of taxa of
		// different trees depends on the map iteration order: not generated)
		"tax n1:1:" + nr + " n2:2:" + nr + " n3:1:" + sp + " n4:2:" + sp + " qlca:3:4 qlca:3:1 qsub:3:2 qwl:3=1,1=1 qpath:4",
		// a parent that is not a node
		"tax n1:1:" + nr + " n2:5:" + sp + " qpath:2",
		// rank strings that are not NCBI labels; the rank of the root matches
		"tax n1:1:" + h("a|b") + " n2:1:- n3:2:" + h("Species") + " qrank:3:- qrank:3:" + h("a|b") + " qrank:3:" + sp + " qhas:3:" + h("species") + " qrr:-:3 qrr:" + sp + ":3 qsr:-:3 qsr:" + h("a|b") + ":3",
		// taxid of the clade in a sequence attribute
		"tax n1:1:" + nr + " n2:1:" + ge + " n3:2:" + sp + " a9:2 qrs:2:3 qrs:9:3 qrs:3:2 qrs:-:3 qrs:77:3 qrs:2:77 qrs:1:-",
		// the same through a dump directory
		"taxd n1:1:" + nr + " n2:1:" + fa + " n3:2:" + ge + " n4:3:" + sp + " n5:3:" + sp + " a10:4 a11:10 a12:99 qlca:4:5 qlca:11:2 qres:12 qpath:10 qrank:4:" + fa + " qwl:4=1,5=2 qrt:3:4 qsr:" + ge + ":5",
	}
	// second pass: sequences annotated with a merged taxid (40 -> 4, 60 -> 6), an alias of an alias (41 -> 40), an
	// alias overwritten (60 -> 5 then 6), an unknown taxid, the root, no taxid, on every sequence level entry point;
	// the first line is the obigrep -r 2 / -i 2 regression of seeded change C14-m3
	demo := "n1:1:" + nr + " n2:1:" + fa + " n3:1:" + fa + " n4:2:" + sp + " n5:2:" + ge + " n6:3:" + sp + " a40:4 a60:5 a60:6 a41:40 a42:99"
	var dq []string
	for _, sq := range []string{"1", "4", "5", "6", "40", "41", "60", "42", "99", "-"} {
		dq = append(dq, "qrt:2:"+sq, "qig:2:"+sq, "qsp:2:"+sq, "qsp:40:"+sq, "qsp:41:"+sq, "qsp:1:"+sq, "qvf:"+sq, "qval:"+sq, "qhq:"+sp+":"+sq, "qhq:"+fa+":"+sq,
			"qsw:sp:"+sq, "qsw:ge:"+sq, "qsw:fa:"+sq, "qsw:r"+nr+":"+sq, "qsn:"+sq, "qtr:"+sq, "qtpath:"+sq, "qrs:40:"+sq, "qrss:"+h("TX:41")+":"+sq,
			"qflt:"+sp+":2:5:"+sq, "qsr:"+fa+":"+sq, "qwls:"+sq)
	}
	corpus = append(corpus,
		"tax "+demo+" "+strings.Join(dq, " "),
		"taxd "+demo+" "+strings.Join(dq[:60], " "),
		"tax "+demo+" qsp:99:4 qsp:42:4 qhq:"+h("order")+":4 qsw:r"+h("order")+":4 qsw:r"+ge+":40 qsw:r"+ge+":41 qsw:r"+sp+":60",
		// weighted LCA: merged ids as keys, zero counts, a taxon present under several keys (same "count > 0")
		"tax "+demo+" qwl:40=2,4=3 qwl:40=1,41=5,4=2,6=1 qwl:40=0,4=0,6=3 qwl:41=0,40=0,5=2,4=0 qwl:60=2,6=1,3=0 qwl:40=0,41=0 qwl:5=0,4=0,40=0,6=0 qwl:40=3,42=1"+
			" qwlo:40=0,4=2,5=1 qwlo:40=2,4=0,5=1 qwlo:41=0,40=3,6=1 qwlo:40=0,4=2 qwlo:4=1,5=2 qwlo:40=1,4=2,6=1",
		// a taxonomy rooted at taxid 0: auto-correction to the root goes through SetTaxid (0 is stored as 1)
		"tax n0:0:"+nr+" n1:0:"+sp+" n2:0:"+sp+" a7:0 a8:2 a9:8 qvf:7 qvf:8 qvf:9 qvf:0 qvf:- qvf:5 qsp:0:7 qsp:7:9 qsn:7 qtr:9",
	)
	corpus = append(corpus,
		// third pass: iterator protocol. Slice sources with repetitions and merged ids, every filter, the obifind pipeline,
		// an unknown taxon in the source / as a clade, the empty source; Split under several schedules (one consumer
		// only, strict alternation, more calls than taxa, no call at all)
		"tax "+demo+" qitx qisl:6,5,4,3,2,1:all qisl:4,40,41,4,6:all qisl:6,5,4,3,2,1,4:sub:2 qisl:6,5,4,3,2,1:sub:40 qisl:4,5:sub:99 qisl:4,99:sub:2 qisl::sub:2"+
			" qisl:6,5,4,3,2,1:rank:"+sp+" qisl:6,60,4:rank:"+sp+" qisl:1,2,3:rank:"+h("order")+" qisl:6,5,4,3,2,1:bel: qisl:6,5,4,3,2,1:bel:3 qisl:6,5,4,3,2,1:bel:3,5 qisl:6,5,4,3,2,1:bel:5,40,60 qisl:6,5,4:bel:2,99"+
			" qisl:6,5,4,3,2,1:find:-: qisl:6,5,4,3,2,1:find:"+sp+": qisl:6,5,4,3,2,1:find:"+sp+":2 qisl:6,5,4,3,2,1:find:-:2,3 qisl:6,5,4,3,2,1:find:"+fa+":1 qisl:6,5,4:find:"+sp+":42"+
			" qifind:-: qifind:"+sp+": qifind:"+sp+":2 qifind:-:2 qifind:-:40,60 qifind:"+ge+":3 qifind:-:42 qifind:"+h("order")+":1"+
			" qispp:1,2,3,4,5,6,4,40 qispp: qispp:1 qispp:4,99 qisp:1,2,3,4:aaaaa qisp:1,2,3,4:bbbbb qisp:1,2,3,4:ababab qisp:1,2,3,4:ab qisp:1,2,3,4: qisp:1,2,3,4:abbbbaab qisp::a qisp::ba qisp:4,40,4:aba qisp:4,99:ab qisp:1:ba qisp:1:bba",
		"taxd "+demo+" qitx qisl:6,5,4,3,2,1,4:sub:2 qifind:"+sp+":2 qisp:1,2,3,4:abab qisl:6,60,4:bel:5,40",
	)
	for _, c := range corpus {
		emit(c)
	}
	c14GenExtra(rng, tier, emit)

	small := []string{"no rank", "genus", "species"}
	// all rooted labelled trees
	maxn := 5
	if tier == "thorough" {
		maxn = 6
	}
	for n := 1; n <= maxn; n++ {
		c14Enumerate(n, func(par []int) {
			t := c14Label(rng, par, 0, small)
			mode := "tax"
			if rng.Intn(8) == 0 {
				mode = "taxd"
			}
			qranks := append([]string{"family"}, small...)
			if n == 6 {
				qranks = small[:2]
			}
			emit(t.line(mode, c14AllQueries(rng, t, qranks)))
			stat(fmt.Sprintf("gen:exhaustive-n%d", n))
		})
	}
	// the same shapes with arbitrary taxids, aliases and unknown taxids (n <= 4)
	for n := 1; n <= 4; n++ {
		c14Enumerate(n, func(par []int) {
			t := c14Label(rng, par, 2, small)
			c14Aliases(rng, t, 1+rng.Intn(3))
			emit(t.line("tax", c14RandQueries(rng, t, small, 40)))
			emit(t.line([]string{"tax", "tax", "taxd"}[rng.Intn(3)], c14SeqQueries(rng, t, small)))
			stat("gen:seq-exhaustive")
		})
	}

	nrand, nbig := 2500, 12
	if tier == "thorough" {
		nrand, nbig = 5000, 24
	}
	for i := 0; i < nrand; i++ {
		n := 1 + rng.Intn(40)
		switch rng.Intn(10) {
		case 0:
			n = 40 + rng.Intn(300)
		case 1:
			n = 1 + rng.Intn(6)
		}
		mode, ranks := "tax", c14Ranks
		switch rng.Intn(6) {
		case 0:
			mode = "taxd"
		case 1:
			ranks = append(append([]string{}, c14Ranks[20:32]...), c14OddRanks...)
		case 2:
			ranks = c14Ranks[22:32] // few labels: repeated ranks on a path
		}
		t := c14Label(rng, c14Shape(rng, n, rng.Intn(7)), rng.Intn(3), ranks)
		c14Aliases(rng, t, rng.Intn(8))
		emit(t.line(mode, c14RandQueries(rng, t, ranks, 12+rng.Intn(30))))
		stat("gen:random")
	}
	// trees of thousands of nodes: random, chain, star, deep
	for i := 0; i < nbig; i++ {
		n := 1000 + rng.Intn(2500)
		if tier == "thorough" && i%4 == 0 {
			n = 4000 + rng.Intn(3000)
		}
		kind := []int{0, 1, 2, 3, 6, 5}[i%6]
		mode := "tax"
		if i%5 == 4 {
			mode = "taxd"
		}
		t := c14Label(rng, c14Shape(rng, n, kind), rng.Intn(3), c14Ranks)
		c14Aliases(rng, t, rng.Intn(30))
		emit(t.line(mode, c14RandQueries(rng, t, c14Ranks, 60)))
		stat(fmt.Sprintf("gen:big-kind%d", kind))
	}
	// wave 3: the queries from several goroutines sharing the taxonomy and the closures built once (last: the draws of the cases above are unchanged)
	c14GenConc(rng, tier, emit)
}

// ---------------------------------------------------------------------------------------------
// naive reference

type c14Ref struct {
	t     *c14Tree
	alias map[int]int
	wf    bool // one node is its own parent, every parent is a node, every node reaches the root
	root  int
	depth map[int]int // number of parent links to the root
}

func c14NewRef(t *c14Tree) *c14Ref {
	r := &c14Ref{t: t, alias: map[int]int{}, depth: map[int]int{}}
	for _, a := range t.aliases {
		if n, ok := r.resolve(a[1]); ok {
			r.alias[a[0]] = n
		}
	}
	roots := 0
	r.wf = len(t.ids) > 0
	for _, x := range t.ids {
		if t.parent[x] == x {
			roots++
			r.root = x
		}
		if _, ok := t.parent[t.parent[x]]; !ok {
			r.wf = false
		}
	}
	if roots != 1 {
		r.wf = false
	}
	if r.wf {
		r.depth[r.root] = 0
		for _, x := range t.ids {
			var stack []int
			y := x
			for {
				if _, ok := r.depth[y]; ok {
					break
				}
				stack = append(stack, y)
				if len(stack) > len(t.ids) || t.parent[y] == y { // a cycle, or a second root (excluded above)
					r.wf = false
					return r
				}
				y = t.parent[y]
			}
			d := r.depth[y]
			for i := len(stack) - 1; i >= 0; i-- {
				d++
				r.depth[stack[i]] = d
			}
		}
	}
	return r
}

func (r *c14Ref) sortedIDs() []int {
	l := append([]int{}, r.t.ids...)
	sort.Ints(l)
	return l
}

func (r *c14Ref) resolve(id int) (int, bool) {
	if _, ok := r.t.parent[id]; ok {
		return id, true
	}
	n, ok := r.alias[id]
	return n, ok
}

// chain: x, parent(x), parent(parent(x)), … up to a node that is its own parent (at most n steps)
func (r *c14Ref) chain(x int) []int {
	c := []int{x}
	for k := 0; k <= len(r.t.ids); k++ {
		p, ok := r.t.parent[x]
		if !ok || p == x {
			break
		}
		x = p
		c = append(c, x)
	}
	return c
}

// ancestor-or-self set of x
func (r *c14Ref) ancs(x int) map[int]bool {
	m := map[int]bool{}
	for _, y := range r.chain(x) {
		m[y] = true
	}
	return m
}

func (r *c14Ref) isAnc(a, x int) bool { return r.ancs(x)[a] }

// deepest common ancestor-or-self of a non-empty set of nodes: the element of largest depth in the
// intersection of the ancestor sets
func (r *c14Ref) deepest(xs []int) int {
	common := r.ancs(xs[0])
	for _, x := range xs[1:] {
		ax := r.ancs(x)
		for a := range common {
			if !ax[a] {
				delete(common, a)
			}
		}
	}
	best, bestDepth := -1, -1
	for a := range common {
		if d := r.depth[a]; d > bestDepth {
			best, bestDepth = a, d
		}
	}
	return best
}

func (r *c14Ref) atRank(x int, rank string) (int, bool) {
	for _, y := range r.chain(x) {
		if r.t.rank[y] == rank {
			return y, true
		}
	}
	return 0, false
}

func (r *c14Ref) hasRankLabel(rank string) bool {
	for _, x := range r.t.ids {
		if r.t.rank[x] == rank {
			return true
		}
	}
	return false
}

func c14B(b bool) string {
	if b {
		return "T"
	}
	return "F"
}

// seqTaxid: the taxid a sequence carries ("-" : no attribute, BioSequence.Taxid() answers 1)
func c14SeqTaxid(s string) int {
	if s == "-" {
		return 1
	}
	n, _ := strconv.Atoi(s)
	return n
}

// expected answer of a query from the tree alone ("" = the oracle has no opinion)
func (r *c14Ref) expect(f []string) string {
	if !r.wf {
		return ""
	}
	atoi := func(s string) int { n, _ := strconv.Atoi(s); return n }
	ints := func(s string) []int {
		var l []int
		if s == "" {
			return l
		}
		for _, p := range strings.Split(s, ",") {
			l = append(l, atoi(p))
		}
		return l
	}
	rks := func(s string) []string {
		var l []string
		if s == "" {
			return l
		}
		for _, p := range strings.Split(s, ",") {
			x, _ := c14Unhex(p)
			l = append(l, x)
		}
		return l
	}
	inAny := func(cs []int, s string) (res bool, fatal bool) {
		var rc []int
		for _, c := range cs {
			n, ok := r.resolve(c)
			if !ok {
				return false, true
			}
			rc = append(rc, n)
		}
		x, ok := r.resolve(c14SeqTaxid(s))
		if !ok {
			return false, false
		}
		for _, c := range rc {
			if r.isAnc(c, x) {
				return true, false
			}
		}
		return false, false
	}
	allRanks := func(rs []string, s string) (res bool, fatal bool) {
		for _, k := range rs {
			if !r.hasRankLabel(k) {
				return false, true
			}
		}
		x, ok := r.resolve(c14SeqTaxid(s))
		if !ok {
			return false, false
		}
		for _, k := range rs {
			if _, ok := r.atRank(x, k); !ok {
				return false, false
			}
		}
		return true, false
	}
	switch f[0] {
	case "path":
		x, ok := r.resolve(atoi(f[1]))
		if !ok {
			return "err"
		}
		return c14Join(r.chain(x))
	case "lca":
		x, ok1 := r.resolve(atoi(f[1]))
		y, ok2 := r.resolve(atoi(f[2]))
		if !ok1 || !ok2 {
			return "unk"
		}
		return strconv.Itoa(r.deepest([]int{x, y}))
	case "sub":
		x, ok1 := r.resolve(atoi(f[1]))
		y, ok2 := r.resolve(atoi(f[2]))
		if !ok1 || !ok2 {
			return "unk"
		}
		return c14B(r.isAnc(y, x))
	case "rank", "has":
		x, ok := r.resolve(atoi(f[1]))
		if !ok {
			return "unk"
		}
		k, _ := c14Unhex(f[2])
		y, found := r.atRank(x, k)
		if f[0] == "has" {
			return c14B(found)
		}
		if !found {
			return "nil"
		}
		return strconv.Itoa(y)
	case "res":
		x, ok := r.resolve(atoi(f[1]))
		if !ok {
			return "unk"
		}
		return strconv.Itoa(x)
	case "val":
		_, ok := r.resolve(c14SeqTaxid(f[1]))
		return c14B(ok)
	case "rt", "ig":
		b, fatal := inAny(ints(f[1]), f[2])
		if fatal {
			return "fatal"
		}
		return c14B(b != (f[0] == "ig"))
	case "rr":
		b, fatal := allRanks(rks(f[1]), f[2])
		if fatal {
			return "fatal"
		}
		return c14B(b)
	case "flt":
		b1, f1 := allRanks(rks(f[1]), f[4])
		b2, f2 := inAny(ints(f[2]), f[4])
		b3, f3 := inAny(ints(f[3]), f[4])
		if f1 || f2 || f3 {
			return "fatal"
		}
		return c14B((f[1] == "" || b1) && (f[2] == "" || b2) && (f[3] == "" || !b3))
	case "rs":
		if f[1] == "-" {
			return "F"
		}
		c, ok1 := r.resolve(atoi(f[1]))
		x, ok2 := r.resolve(c14SeqTaxid(f[2]))
		return c14B(ok1 && ok2 && r.isAnc(c, x))
	case "sr":
		x, ok := r.resolve(c14SeqTaxid(f[2]))
		if !ok {
			return "none"
		}
		k, _ := c14Unhex(f[1])
		y, found := r.atRank(x, k)
		if !found {
			return "-1"
		}
		return strconv.Itoa(y)
	case "vf":
		tid := c14SeqTaxid(f[1])
		x, ok := r.resolve(tid)
		if !ok {
			return "F:" + f[1]
		}
		if x != tid {
			return "T:" + strconv.Itoa(max(x, 1)) // SetTaxid stores 1 for a taxid below 1
		}
		return "T:" + f[1]
	case "sp":
		b, fatal := inAny(ints(f[1]), f[2])
		if fatal {
			return "fatal"
		}
		return c14B(b)
	case "hq":
		b, fatal := allRanks(rks(f[1]), f[2])
		if fatal {
			return "fatal"
		}
		return c14B(b)
	case "sw":
		var k string
		switch {
		case f[1] == "sp":
			k = "species"
		case f[1] == "ge":
			k = "genus"
		case f[1] == "fa":
			k = "family"
		default:
			k, _ = c14Unhex(f[1][1:])
			if !r.hasRankLabel(k) {
				return "fatal"
			}
		}
		x, ok := r.resolve(c14SeqTaxid(f[2]))
		if !ok {
			return "none"
		}
		y, found := r.atRank(x, k)
		if !found {
			return "-1/" + c14Hex("NA")
		}
		return fmt.Sprintf("%d/%s", y, c14Hex(c14Name(y)))
	case "sn", "tr":
		x, ok := r.resolve(c14SeqTaxid(f[1]))
		if !ok {
			return "fatal"
		}
		if f[0] == "sn" {
			return c14Hex(c14Name(x))
		}
		return c14Hex(r.t.rank[x])
	case "str", "rss":
		str, _ := c14Unhex(f[1])
		for i, run := 0, 0; i < len(str); i++ { // numbers near the int range: the model is the reference
			if str[i] >= '0' && str[i] <= '9' {
				if run++; run > 18 {
					return ""
				}
			} else {
				run = 0
			}
		}
		v, neg, ok := c14RefTaxidString(str)
		var c int
		known := false
		if ok && !neg {
			c, known = r.resolve(v)
		}
		if f[0] == "str" {
			if !ok {
				return "noparse"
			}
			if !known {
				return "unk"
			}
			return strconv.Itoa(c)
		}
		x, ok2 := r.resolve(c14SeqTaxid(f[2]))
		return c14B(known && ok2 && r.isAnc(c, x))
	case "itx":
		n, sum := 0, 0
		for _, x := range r.sortedIDs() {
			n++
			sum = (sum + x%1000003) % 1000003
		}
		return fmt.Sprintf("%d/%d", n, sum)
	case "isl", "ifind":
		// the source: the given taxa in order (isl) / every node (ifind); then the naive selection
		var src []int
		var spec []string
		if f[0] == "isl" {
			if len(f) < 3 {
				return ""
			}
			for _, c := range ints(f[1]) {
				n, ok := r.resolve(c)
				if !ok {
					return "unk"
				}
				src = append(src, n)
			}
			spec = f[2:]
		} else {
			if len(f) != 3 {
				return ""
			}
			src = r.sortedIDs()
			spec = []string{"find", f[1], f[2]}
		}
		rank, useRank := "", false
		var clades []int
		switch {
		case spec[0] == "all" && len(spec) == 1:
		case spec[0] == "sub" && len(spec) == 2:
			clades = []int{atoi(spec[1])}
		case spec[0] == "rank" && len(spec) == 2:
			rank, _ = c14Unhex(spec[1])
			useRank = true
		case spec[0] == "bel" && len(spec) == 2:
			clades = ints(spec[1])
		case spec[0] == "find" && len(spec) == 3:
			rank, _ = c14Unhex(spec[1])
			useRank = rank != ""
			clades = ints(spec[2])
		default:
			return ""
		}
		var cs []int
		for _, c := range clades {
			n, ok := r.resolve(c)
			if !ok {
				return "unk"
			}
			cs = append(cs, n)
		}
		var l []int
		for _, x := range src {
			in := len(cs) == 0
			for _, c := range cs {
				in = in || r.isAnc(c, x)
			}
			if in && (!useRank || r.t.rank[x] == rank) {
				l = append(l, x)
			}
		}
		if f[0] == "ifind" {
			return c14IDs(l)
		}
		set := append([]int{}, l...)
		sort.Ints(set)
		var u []int
		for i, x := range set {
			if i == 0 || x != set[i-1] {
				u = append(u, x)
			}
		}
		return c14IDs(l) + "/" + c14IDs(u)
	case "ispp":
		if len(f) != 2 {
			return ""
		}
		var src []int
		for _, c := range ints(f[1]) {
			n, ok := r.resolve(c)
			if !ok {
				return "unk"
			}
			src = append(src, n)
		}
		sort.Ints(src)
		return c14IDs(src)
	case "isp":
		// every taxon of the source goes, in order, to the consumer that asks next; the first call on the emptied
		// channel finishes both handles (its caller's current becomes nil, the other keeps its last taxon)
		if len(f) != 3 {
			return ""
		}
		var src []int
		for _, c := range ints(f[1]) {
			n, ok := r.resolve(c)
			if !ok {
				return "unk"
			}
			src = append(src, n)
		}
		got := map[byte][]int{}
		cur := map[byte]string{'a': "nil", 'b': "nil"}
		k, fin := 0, 0
		for i := 0; i < len(f[2]); i++ {
			h := f[2][i]
			if fin == 1 {
				continue
			}
			if k < len(src) {
				got[h] = append(got[h], src[k])
				cur[h] = strconv.Itoa(src[k])
				k++
			} else {
				fin = 1
				cur[h] = "nil"
			}
		}
		return fmt.Sprintf("a=%s;b=%s;r=%s;f=%d;ca=%s;cb=%s", c14IDs(got['a']), c14IDs(got['b']), c14IDs(src[k:]), fin, cur['a'], cur['b'])
	case "isub", "ibel":
		var cs []int
		for _, c := range ints(f[1]) {
			n, ok := r.resolve(c)
			if !ok {
				return "unk"
			}
			cs = append(cs, n)
		}
		var l []int
		for _, x := range r.sortedIDs() {
			in := len(cs) == 0
			for _, c := range cs {
				in = in || r.isAnc(c, x)
			}
			if in {
				l = append(l, x)
			}
		}
		return c14IDs(l)
	case "irank":
		k, _ := c14Unhex(f[1])
		var l []int
		for _, x := range r.sortedIDs() {
			if r.t.rank[x] == k {
				l = append(l, x)
			}
		}
		return c14IDs(l)
	case "tpath":
		x, ok := r.resolve(c14SeqTaxid(f[1]))
		if !ok {
			return "fatal"
		}
		ch := r.chain(x)
		var parts []string
		for i := len(ch) - 1; i >= 0; i-- {
			parts = append(parts, fmt.Sprintf("%d@%s@%s", ch[i], c14Name(ch[i]), r.t.rank[ch[i]]))
		}
		return c14Hex(strings.Join(parts, "|"))
	case "name":
		x, ok := r.resolve(atoi(f[1]))
		if !ok {
			return "unk"
		}
		return c14Hex(c14Name(x))
	case "state":
		var ns, as []string
		for _, x := range r.sortedIDs() {
			ns = append(ns, fmt.Sprintf("%d:%d:%s:%s", x, r.t.parent[x], c14Hex(r.t.rank[x]), c14Hex(c14Name(x))))
		}
		keys := make([]int, 0, len(r.alias))
		for k := range r.alias {
			keys = append(keys, k)
		}
		sort.Ints(keys)
		for _, k := range keys {
			as = append(as, fmt.Sprintf("%d:%d", k, r.alias[k]))
		}
		return strings.Join(ns, ";") + "/" + strings.Join(as, ";")
	case "wl", "wls":
		var keys, ws []int
		if f[0] == "wls" {
			k := 0 // the "na" key of a sequence without taxid is strconv.Atoi'd to 0
			if f[1] != "-" {
				k = atoi(f[1])
			}
			keys, ws = []int{k}, []int{1}
		} else if f[1] != "" {
			for _, kv := range strings.Split(f[1], ",") {
				p := strings.Split(kv, "=")
				keys, ws = append(keys, atoi(p[0])), append(ws, atoi(p[1]))
			}
		}
		if len(keys) == 0 {
			return "nil"
		}
		var present []int
		for i, k := range keys {
			x, ok := r.resolve(k)
			if !ok {
				return "panic"
			}
			if ws[i] > 0 {
				present = append(present, x)
			}
		}
		if len(present) == 0 {
			return strconv.Itoa(r.root)
		}
		return strconv.Itoa(r.deepest(present))
	}
	return ""
}

// ---------------------------------------------------------------------------------------------
// real code

func c14Parse(c string) (mode string, t *c14Tree, qs []string, ok bool) {
	f := strings.Fields(c)
	if len(f) == 0 || (f[0] != "tax" && f[0] != "taxd" && f[0] != "dump") {
		return "", nil, nil, false
	}
	t = &c14Tree{parent: map[int]int{}, rank: map[int]string{}}
	if f[0] == "dump" {
		if len(f) < 4 || f[1][0] != 'N' || f[2][0] != 'M' || f[3][0] != 'G' {
			return "", nil, nil, false
		}
		var ok1, ok2, ok3 bool
		t.dumpN, ok1 = c14UnhexB(f[1][1:])
		t.dumpM, ok2 = c14UnhexB(f[2][1:])
		t.dumpG, ok3 = c14UnhexB(f[3][1:])
		if !ok1 || !ok2 || !ok3 {
			return "", nil, nil, false
		}
		f = append([]string{"dump"}, f[4:]...)
	}
	num := func(s string) (int, bool) {
		if s == "" || len(s) > 9 {
			return 0, false
		}
		for _, ch := range s {
			if ch < '0' || ch > '9' {
				return 0, false
			}
		}
		n, _ := strconv.Atoi(s)
		return n, true
	}
	for _, w := range f[1:] {
		switch w[0] {
		case 'n':
			p := strings.Split(w[1:], ":")
			if len(p) != 3 {
				return "", nil, nil, false
			}
			id, ok1 := num(p[0])
			par, ok2 := num(p[1])
			rk, ok3 := c14Unhex(p[2])
			if _, dup := t.parent[id]; !ok1 || !ok2 || !ok3 || dup {
				return "", nil, nil, false
			}
			t.ids = append(t.ids, id)
			t.parent[id] = par
			t.rank[id] = rk
		case 'a':
			p := strings.Split(w[1:], ":")
			if len(p) != 2 {
				return "", nil, nil, false
			}
			o, ok1 := num(p[0])
			n, ok2 := num(p[1])
			if !ok1 || !ok2 {
				return "", nil, nil, false
			}
			t.aliases = append(t.aliases, [2]int{o, n})
		case 'q':
			qs = append(qs, w[1:])
		case 'L':
			if w != "L" || f[0] != "dump" {
				return "", nil, nil, false
			}
			t.ncbiLayout = true
		default:
			return "", nil, nil, false
		}
	}
	return f[0], t, qs, true
}

func c14Name(id int) string { return fmt.Sprintf("n%d", id) }

func c14Build(mode string, t *c14Tree) (*obitax.Taxonomy, string) {
	if mode == "dump" {
		dir, err := os.MkdirTemp("", "c14dump")
		if err != nil {
			return nil, "io-error"
		}
		defer os.RemoveAll(dir)
		os.WriteFile(filepath.Join(dir, "nodes.dmp"), t.dumpN, 0o644)
		os.WriteFile(filepath.Join(dir, "names.dmp"), t.dumpM, 0o644)
		os.WriteFile(filepath.Join(dir, "merged.dmp"), t.dumpG, 0o644)
		tax, err := ncbitaxdump.LoadNCBITaxDump(dir, len(t.dumpN)%2 == 0)
		if err != nil {
			return nil, "load-error"
		}
		if tax.ReindexParent() != nil { // the loader ignores this error
			return nil, "reindex-err"
		}
		return tax, ""
	}
	if mode == "taxd" {
		dir, err := os.MkdirTemp("", "c14dump")
		if err != nil {
			return nil, "io-error"
		}
		defer os.RemoveAll(dir)
		var nodes, names, merged strings.Builder
		for _, id := range t.ids {
			fmt.Fprintf(&nodes, "%d\t|\t%d\t|\t%s\t|\t\t|\t8\t|\n", id, t.parent[id], t.rank[id])
			fmt.Fprintf(&names, "%d\t|\t%s\t|\t\t|\tscientific name\t|\n", id, c14Name(id))
			fmt.Fprintf(&names, "%d\t|\tsyn %d\t|\t\t|\tsynonym\t|\n", id, id)
		}
		for _, a := range t.aliases {
			fmt.Fprintf(&merged, "%d\t|\t%d\t|\n", a[0], a[1])
		}
		os.WriteFile(filepath.Join(dir, "nodes.dmp"), []byte(nodes.String()), 0o644)
		os.WriteFile(filepath.Join(dir, "names.dmp"), []byte(names.String()), 0o644)
		os.WriteFile(filepath.Join(dir, "merged.dmp"), []byte(merged.String()), 0o644)
		tax, err := ncbitaxdump.LoadNCBITaxDump(dir, true)
		if err != nil {
			return nil, "load-error"
		}
		if tax.ReindexParent() != nil { // the loader ignores this error
			return nil, "reindex-err"
		}
		return tax, ""
	}
	tax := obitax.NewTaxonomy()
	for _, id := range t.ids {
		if _, err := tax.AddNewTaxa(id, t.parent[id], t.rank[id], false, true); err != nil {
			return nil, "add-error"
		}
	}
	if tax.ReindexParent() != nil {
		return nil, "reindex-err"
	}
	class := "scientific name"
	for _, id := range t.ids {
		name := c14Name(id)
		tax.AddNewName(id, &name, &class)
	}
	for _, a := range t.aliases {
		tax.AddNewAlias(a[1], a[0])
	}
	return tax, ""
}

func c14Seq(s string) *obiseq.BioSequence {
	seq := obiseq.NewBioSequence("s", []byte("acgt"), "")
	if s != "-" {
		n, _ := strconv.Atoi(s)
		seq.SetAttribute("taxid", n)
	}
	return seq
}

func c14Strs(s string, f func(string) string) []string {
	l := []string{}
	if s == "" {
		return l
	}
	for _, p := range strings.Split(s, ",") {
		l = append(l, f(p))
	}
	return l
}

func c14Ints(s string) []int {
	l := []int{}
	if s == "" {
		return l
	}
	for _, p := range strings.Split(s, ",") {
		n, _ := strconv.Atoi(p)
		l = append(l, n)
	}
	return l
}

func c14Unrank(h string) string { s, _ := c14Unhex(h); return s }

// c14Drain empties an iterator into the sorted list of the taxids it yields; a taxon yielded twice is a failure
func c14Drain(it *obitax.ITaxonSet, fail func(sig, format string, a ...any), op string) []int {
	sl := it.TaxonSlice()
	l := make([]int, 0, sl.Len())
	seen := map[int]bool{}
	for i := 0; i < sl.Len(); i++ {
		x := sl.Get(i).Taxid()
		if seen[x] {
			fail(op+".twice", "taxon %d is yielded twice", x)
		}
		seen[x] = true
		l = append(l, x)
	}
	if !it.Finished() || it.Next() || it.Get() != nil {
		fail(op+".finished", "a drained iterator is not finished")
	}
	sort.Ints(l)
	return l
}

func c14IDs(l []int) string {
	if len(l) == 0 {
		return "-"
	}
	return c14Join(l)
}

// c14RefTaxidString: the taxid a string designates for Taxonomy.Taxon (independent of strconv / regexp):
// a decimal integer with an optional sign, else the digits following the leftmost "TX:" that is followed by a
// digit. neg: a negative integer; ok false: no taxid in the string. (at most 18 digits are generated)
func c14RefTaxidString(s string) (v int, neg bool, ok bool) {
	digits := func(t string) bool {
		if t == "" {
			return false
		}
		for i := 0; i < len(t); i++ {
			if t[i] < '0' || t[i] > '9' {
				return false
			}
		}
		return true
	}
	val := func(t string) int {
		n := 0
		for i := 0; i < len(t); i++ {
			n = n*10 + int(t[i]-'0')
		}
		return n
	}
	body := s
	if len(s) > 0 && (s[0] == '+' || s[0] == '-') {
		body = s[1:]
	}
	if digits(body) && len(body) <= 18 {
		n := val(body)
		return n, s[0] == '-' && n != 0, true
	}
	for i := 0; i+3 < len(s); i++ {
		if s[i:i+3] == "TX:" && s[i+3] >= '0' && s[i+3] <= '9' {
			j := i + 3
			for j < len(s) && s[j] >= '0' && s[j] <= '9' {
				j++
			}
			if j-i-3 > 18 {
				return 0, false, false // not generated
			}
			return val(s[i+3 : j]), false, true
		}
	}
	return 0, false, false
}

// c14Query runs one query on the real code; extra checks that are not part of the result word are
// reported through fail.
func c14Query(tax *obitax.Taxonomy, ref *c14Ref, f []string, fail func(sig, format string, a ...any)) string {
	id := func(s string) int { n, _ := strconv.Atoi(s); return n }
	switch {
	case f[0] == "path" && len(f) == 2:
		p, err := tax.Path(id(f[1]))
		if err != nil {
			return "err"
		}
		l := make([]int, len(*p))
		for i, n := range *p {
			l[i] = n.Taxid()
		}
		if ref.wf {
			// the taxonomic_path annotation: root first, taxid@name@rank
			seq := c14Seq(f[1])
			got := guard(func() string { w := tax.MakeSetPathWorker(); w(seq); v, _ := seq.GetStringAttribute("taxonomic_path"); return v })
			var parts []string
			for i := len(l) - 1; i >= 0; i-- {
				parts = append(parts, fmt.Sprintf("%d@%s@%s", l[i], c14Name(l[i]), ref.t.rank[l[i]]))
			}
			if got != strings.Join(parts, "|") {
				fail("path.setpath", "taxonomic_path %q expected %q", got, strings.Join(parts, "|"))
			}
		}
		return c14Join(l)
	case f[0] == "lca" && len(f) == 3:
		t1, e1 := tax.Taxon(id(f[1]))
		t2, e2 := tax.Taxon(id(f[2]))
		if e1 != nil || e2 != nil {
			return "unk"
		}
		l, err := t1.LCA(t2)
		if err != nil {
			return "err"
		}
		if ref.wf {
			if l2, err := t2.LCA(t1); err != nil || l2.Taxid() != l.Taxid() {
				fail("lca.comm", "LCA(%s,%s)=%d but the converse differs", f[1], f[2], l.Taxid())
			}
			if l1, err := t1.LCA(t1); err != nil || l1.Taxid() != t1.Taxid() {
				fail("lca.idem", "LCA(%s,%s) is not %d", f[1], f[1], t1.Taxid())
			}
			// associativity with a third taxon derived from the two
			t3, _ := tax.Taxon(ref.t.ids[(t1.Taxid()*7+t2.Taxid()*13)%len(ref.t.ids)])
			l23, _ := t2.LCA(t3)
			a, _ := l.LCA(t3)
			b, _ := t1.LCA(l23)
			if a == nil || b == nil || a.Taxid() != b.Taxid() {
				fail("lca.assoc", "LCA(LCA(%s,%s),%d) differs from LCA(%s,LCA(%s,%d))", f[1], f[2], t3.Taxid(), f[1], f[2], t3.Taxid())
			}
		}
		return strconv.Itoa(l.Taxid())
	case f[0] == "sub" && len(f) == 3:
		t1, e1 := tax.Taxon(id(f[1]))
		t2, e2 := tax.Taxon(id(f[2]))
		if e1 != nil || e2 != nil {
			return "unk"
		}
		return c14B(t1.IsSubCladeOf(t2))
	case (f[0] == "rank" || f[0] == "has") && len(f) == 3:
		t1, e1 := tax.Taxon(id(f[1]))
		if e1 != nil {
			return "unk"
		}
		if f[0] == "has" {
			return c14B(t1.HasRankDefined(c14Unrank(f[2])))
		}
		n := t1.TaxonAtRank(c14Unrank(f[2]))
		if n == nil {
			return "nil"
		}
		return strconv.Itoa(n.Taxid())
	case f[0] == "res" && len(f) == 2:
		t1, e1 := tax.Taxon(id(f[1]))
		if e1 != nil {
			return "unk"
		}
		// the string forms accepted by Taxon
		for _, s := range []string{f[1], "TX:" + f[1], "xx TX:" + f[1] + " [species]"} {
			if t2, e2 := tax.Taxon(s); e2 != nil || t2 != t1 {
				fail("res.string", "Taxon(%q) differs from Taxon(%s)", s, f[1])
			}
		}
		return strconv.Itoa(t1.Taxid())
	case f[0] == "val" && len(f) == 2:
		return c14B(tax.IsAValidTaxon()(c14Seq(f[1])))
	case f[0] == "rt" && len(f) == 3:
		obigrep.VerifSetTaxonomyOptions(tax, c14Strs(f[1], func(s string) string { return s }), []int{}, []string{})
		return c14B(obigrep.CLIRestrictTaxonomyPredicate()(c14Seq(f[2])))
	case f[0] == "ig" && len(f) == 3:
		obigrep.VerifSetTaxonomyOptions(tax, []string{}, c14Ints(f[1]), []string{})
		return c14B(obigrep.CLIAvoidTaxonomyPredicate()(c14Seq(f[2])))
	case f[0] == "rr" && len(f) == 3:
		obigrep.VerifSetTaxonomyOptions(tax, []string{}, []int{}, c14Strs(f[1], c14Unrank))
		return c14B(obigrep.CLIHasRankDefinedPredicate()(c14Seq(f[2])))
	case f[0] == "flt" && len(f) == 5:
		obigrep.VerifSetTaxonomyOptions(tax, c14Strs(f[2], func(s string) string { return s }), c14Ints(f[3]), c14Strs(f[1], c14Unrank))
		p := obigrep.CLITaxonomyFilterPredicate()
		if p == nil {
			return "T"
		}
		return c14B(p(c14Seq(f[4])))
	case f[0] == "rs" && len(f) == 3:
		seq := c14Seq(f[2])
		if f[1] != "-" {
			// the forms Taxon(string) parses
			switch id(f[1]) % 3 {
			case 0:
				seq.SetAttribute("clade", id(f[1]))
			case 1:
				seq.SetAttribute("clade", "TX:"+f[1])
			default:
				seq.SetAttribute("clade", "Some name [TX:"+f[1]+"]")
			}
		} else if id(f[2])%2 == 1 {
			seq.SetAttribute("clade", "not a taxid")
		}
		obigrep.VerifSetTaxonomyOptions(tax, []string{"clade"}, []int{}, []string{})
		return c14B(obigrep.CLIRestrictTaxonomyPredicate()(seq))
	case f[0] == "sr" && len(f) == 3:
		rank := c14Unrank(f[1])
		seq := c14Seq(f[2])
		obiannotate.AddTaxonAtRankWorker(tax, rank)(seq)
		v, ok := seq.GetAttribute(rank + "_taxid")
		if !ok {
			return "none"
		}
		n, _ := v.(int)
		name, _ := seq.GetStringAttribute(rank + "_name")
		expName := "NA"
		if n >= 0 {
			if tn, e := tax.Taxon(n); e == nil {
				expName = tn.ScientificName()
			}
		}
		if name != expName {
			fail("sr.name", "%s_taxid=%d with %s_name=%q", rank, n, rank, name)
		}
		return strconv.Itoa(n)
	case f[0] == "vf" && len(f) == 2:
		seq := c14Seq(f[1])
		b := tax.IsAValidTaxon(true)(seq)
		after := "-"
		if seq.HasAttribute("taxid") {
			after = strconv.Itoa(seq.Taxid())
		}
		// without auto-correction: the same answer, the sequence untouched
		seq2 := c14Seq(f[1])
		if b2 := tax.IsAValidTaxon()(seq2); b2 != b || seq2.HasAttribute("taxid") != (f[1] != "-") || (f[1] != "-" && seq2.Taxid() != id(f[1])) {
			fail("vf.noauto", "IsAValidTaxon() answers %v and leaves taxid %d, IsAValidTaxon(true) answers %v", b2, seq2.Taxid(), b)
		}
		return c14B(b) + ":" + after
	case f[0] == "sp" && len(f) == 3:
		return c14B(tax.IsSubCladeOf(id(f[1]))(c14Seq(f[2])))
	case f[0] == "hq" && len(f) == 3:
		return c14B(tax.HasRequiredRank(c14Unrank(f[1]))(c14Seq(f[2])))
	case f[0] == "sw" && len(f) == 3 && len(f[1]) >= 1:
		seq, seq2 := c14Seq(f[2]), c14Seq(f[2])
		var rank string
		var ret *obitax.TaxNode
		switch {
		case f[1] == "sp":
			rank = "species"
			tax.MakeSetSpeciesWorker()(seq)
			ret = tax.SetSpecies(seq2)
		case f[1] == "ge":
			rank = "genus"
			tax.MakeSetGenusWorker()(seq)
			ret = tax.SetGenus(seq2)
		case f[1] == "fa":
			rank = "family"
			tax.MakeSetFamilyWorker()(seq)
			ret = tax.SetFamily(seq2)
		case f[1][0] == 'r':
			rank = c14Unrank(f[1][1:])
			tax.MakeSetTaxonAtRankWorker(rank)(seq)
			ret = tax.SetTaxonAtRank(seq2, rank)
		default:
			return "bad-op"
		}
		v, ok := seq.GetAttribute(rank + "_taxid")
		if !ok {
			if ret != nil || seq2.HasAttribute(rank+"_taxid") {
				fail("sw.ret", "the worker writes nothing but Set… returns a taxon")
			}
			return "none"
		}
		n, _ := v.(int)
		name, _ := seq.GetStringAttribute(rank + "_name")
		v2, _ := seq2.GetIntAttribute(rank + "_taxid")
		if (ret == nil) != (n < 0) || (ret != nil && ret.Taxid() != n) || v2 != n {
			fail("sw.ret", "the worker writes %s_taxid=%d, the method writes %d and returns %v", rank, n, v2, ret)
		}
		return fmt.Sprintf("%d/%s", n, c14Hex(name))
	case f[0] == "sn" && len(f) == 2:
		seq, seq2 := c14Seq(f[1]), c14Seq(f[1])
		name := tax.SetScientificName(seq)
		obiannotate.AddScientificNameWorker(tax)(seq2)
		a1, _ := seq.GetStringAttribute("scienctific_name") // sic: the key the code writes
		a2, _ := seq2.GetStringAttribute("scienctific_name")
		if a1 != name || a2 != name {
			fail("sn.attr", "SetScientificName returns %q, writes %q, the worker %q", name, a1, a2)
		}
		return c14Hex(name)
	case f[0] == "tr" && len(f) == 2:
		seq, seq2 := c14Seq(f[1]), c14Seq(f[1])
		rank := tax.SetTaxonomicRank(seq)
		obiannotate.AddTaxonRankWorker(tax)(seq2)
		a1, _ := seq.GetStringAttribute("taxonomic_rank")
		a2, _ := seq2.GetStringAttribute("taxonomic_rank")
		if a1 != rank || a2 != rank {
			fail("tr.attr", "SetTaxonomicRank returns %q, writes %q, the worker %q", rank, a1, a2)
		}
		return c14Hex(rank)
	case f[0] == "wlo" && len(f) == 2:
		m := map[string]int{}
		for _, kv := range strings.Split(f[1], ",") {
			p := strings.Split(kv, "=")
			if len(p) != 2 {
				return "bad-op"
			}
			m[p[0]] = id(p[1])
		}
		if len(m) > 4 {
			return "bad-op"
		}
		seen := map[int]bool{}
		for i := 0; i < 300; i++ {
			seq := obiseq.NewBioSequence("s", []byte("acgt"), "")
			m2 := map[string]int{}
			for k, v := range m {
				m2[k] = v
			}
			seq.SetAttribute("merged_taxid", m2)
			l, _, _ := tax.LCA(seq, 1.0)
			if l == nil {
				seen[-1] = true
			} else {
				seen[l.Taxid()] = true
			}
		}
		if seen[-1] {
			return "nil"
		}
		var l []int
		for k := range seen {
			l = append(l, k)
		}
		sort.Ints(l)
		if ref.wf { // what the tree implies: the deepest common ancestor of the taxa having a positive count under some key
			var present []int
			for k, w := range m {
				if x, ok := ref.resolve(id(k)); ok && w > 0 {
					present = append(present, x)
				}
			}
			if len(present) > 0 {
				stat("wlo:positive")
				if exp := ref.deepest(present); len(l) != 1 || l[0] != exp {
					fail("wlo.order", "Taxonomy.LCA(…, 1.0) answers %v over the map iteration orders, the tree implies the single answer %d", l, exp)
				}
			} else if len(m) > 0 {
				stat("wlo:all-zero")
				if len(l) != 1 || l[0] != ref.root {
					fail("wlo.order", "Taxonomy.LCA(…, 1.0) on an all-zero map answers %v over the map iteration orders, expected the root %d", l, ref.root)
				}
			}
		}
		return c14Join(l)
	case f[0] == "str" && len(f) == 2:
		str, ok := c14Unhex(f[1])
		if !ok {
			return "bad-op"
		}
		t1, e1 := tax.Taxon(str)
		if e1 != nil {
			if strings.HasPrefix(e1.Error(), "I cannot parse") {
				return "noparse"
			}
			return "unk"
		}
		return strconv.Itoa(t1.Taxid())
	case f[0] == "rss" && len(f) == 3:
		str, ok := c14Unhex(f[1])
		if !ok {
			return "bad-op"
		}
		seq := c14Seq(f[2])
		seq.SetAttribute("clade", str)
		obigrep.VerifSetTaxonomyOptions(tax, []string{"clade"}, []int{}, []string{})
		return c14B(obigrep.CLIRestrictTaxonomyPredicate()(seq))
	case f[0] == "itx" && len(f) == 1:
		l := c14Drain(tax.Iterator(), fail, "itx")
		if set := tax.Iterator().TaxonSet(); set.Len() != len(l) {
			fail("itx.taxonset", "Taxonomy.Iterator().TaxonSet() holds %d taxa, the slice %d", set.Len(), len(l))
		}
		sum := 0
		for _, x := range l { // taxids go up to 2^63-1: a checksum that does not overflow
			sum = (sum + x%1000003) % 1000003
		}
		return fmt.Sprintf("%d/%d", len(l), sum)
	case (f[0] == "isl" && len(f) >= 3) || (f[0] == "ifind" && len(f) == 3):
		// source: a TaxonSlice of the given taxa (isl) or the taxonomy itself (ifind, through obifind)
		mkSrc := func() (*obitax.ITaxonSet, bool) {
			if f[0] == "ifind" {
				return tax.Iterator(), true
			}
			sl := make(obitax.TaxonSlice, 0)
			for _, c := range c14Ints(f[1]) {
				n, e := tax.Taxon(c)
				if e != nil {
					return nil, false
				}
				sl = append(sl, n)
			}
			return sl.Iterator(), true
		}
		spec := f[2:]
		if f[0] == "ifind" {
			spec = []string{"find", f[1], f[2]}
		}
		cladeSet := func(s string) (*obitax.TaxonSet, bool) {
			set := make(obitax.TaxonSet)
			for _, c := range c14Ints(s) {
				n, e := tax.Taxon(c)
				if e != nil {
					return nil, false
				}
				set.Inserts(n)
			}
			return &set, true
		}
		apply := func(it *obitax.ITaxonSet) (*obitax.ITaxonSet, string) {
			switch {
			case spec[0] == "all" && len(spec) == 1:
				return it, ""
			case spec[0] == "sub" && len(spec) == 2:
				c, e := tax.Taxon(id(spec[1]))
				if e != nil {
					return nil, "unk"
				}
				return it.IFilterOnSubcladeOf(c), ""
			case spec[0] == "rank" && len(spec) == 2:
				return it.IFilterOnTaxRank(c14Unrank(spec[1])), ""
			case spec[0] == "bel" && len(spec) == 2:
				set, ok := cladeSet(spec[1])
				if !ok {
					return nil, "unk"
				}
				return it.IFilterBelongingSubclades(set), ""
			case spec[0] == "find" && len(spec) == 3:
				obifind.VerifSetFindOptions(tax, c14Ints(spec[2]), c14Unrank(spec[1]))
				restrict, err := obifind.ITaxonRestrictions()
				if err != nil {
					return nil, "unk"
				}
				return restrict(it), ""
			}
			return nil, "bad-op"
		}
		drain := func() ([]int, *obitax.ITaxonSet, string) {
			src, ok := mkSrc()
			if !ok {
				return nil, nil, "unk"
			}
			it, msg := apply(src)
			if msg != "" {
				if msg == "unk" { // nobody will read the source: empty it, its producer goroutine ends
					src.TaxonSlice()
				}
				return nil, nil, msg
			}
			sl := it.TaxonSlice()
			l := make([]int, sl.Len())
			for i := range l {
				l[i] = sl.Get(i).Taxid()
			}
			return l, it, ""
		}
		l, it, msg := drain()
		if msg != "" {
			return msg
		}
		if !it.Finished() || it.Next() || it.Get() != nil {
			fail(f[0]+".finished", "a drained iterator is not finished")
		}
		if f[0] == "ifind" {
			seen := map[int]bool{}
			for _, x := range l {
				if seen[x] {
					fail("ifind.twice", "taxon %d is yielded twice", x)
				}
				seen[x] = true
			}
			sort.Ints(l)
			return c14IDs(l)
		}
		// TaxonSet() of the same pipeline
		src2, _ := mkSrc()
		it2, _ := apply(src2)
		set := it2.TaxonSet()
		keys := make([]int, 0, set.Len())
		for k, n := range *set {
			if n == nil || n.Taxid() != k {
				fail("isl.setkey", "TaxonSet() files taxon %v under key %d", n, k)
			}
			keys = append(keys, k)
		}
		sort.Ints(keys)
		return c14IDs(l) + "/" + c14IDs(keys)
	case f[0] == "ispp" && len(f) == 2:
		// the iterator and its Split() drained by two goroutines in parallel: the scheduler picks the interleaving
		sl := make(obitax.TaxonSlice, 0)
		for _, c := range c14Ints(f[1]) {
			n, e := tax.Taxon(c)
			if e != nil {
				return "unk"
			}
			sl = append(sl, n)
		}
		ha := sl.Iterator()
		hb := ha.Split()
		var sa, sb *obitax.TaxonSlice
		done := make(chan bool)
		go func() { sb = hb.TaxonSlice(); done <- true }()
		sa = ha.TaxonSlice()
		<-done
		// each share is a subsequence of the source, together they are the source
		pos := map[*obitax.TaxNode][]int{}
		for i, n := range sl {
			pos[n] = append(pos[n], i)
		}
		var all []int
		for _, sh := range []*obitax.TaxonSlice{sa, sb} {
			j := 0
			for i := 0; i < sh.Len(); i++ {
				for j < len(sl) && sl[j] != sh.Get(i) {
					j++
				}
				if j == len(sl) {
					fail("ispp.order", "a consumer does not see its share in source order")
					break
				}
				j++
				all = append(all, sh.Get(i).Taxid())
			}
		}
		if sa.Len() > 0 && sb.Len() > 0 {
			stat("ispp:both-served")
		}
		if len(all) != len(sl) {
			fail("ispp.count", "%d taxa sent, %d + %d received", len(sl), sa.Len(), sb.Len())
		}
		if !ha.Finished() || !hb.Finished() || ha.Next() || hb.Next() {
			fail("ispp.end", "a handle is not finished after the two drains")
		}
		sort.Ints(all)
		return c14IDs(all)
	case f[0] == "isp" && len(f) == 3:
		sl := make(obitax.TaxonSlice, 0)
		for _, c := range c14Ints(f[1]) {
			n, e := tax.Taxon(c)
			if e != nil {
				return "unk"
			}
			sl = append(sl, n)
		}
		a := sl.Iterator()
		b := a.Split()
		var ga, gb []int
		for i := 0; i < len(f[2]); i++ {
			switch f[2][i] {
			case 'a':
				if a.Next() {
					ga = append(ga, a.Get().Taxid())
				}
			case 'b':
				if b.Next() {
					gb = append(gb, b.Get().Taxid())
				}
			default:
				return "bad-op"
			}
		}
		cur := func(h *obitax.ITaxonSet) string {
			if h.Get() == nil {
				return "nil"
			}
			return strconv.Itoa(h.Get().Taxid())
		}
		if a.Finished() != b.Finished() {
			fail("isp.finished", "the iterator says Finished %v, its split %v", a.Finished(), b.Finished())
		}
		res := fmt.Sprintf("f=%d;ca=%s;cb=%s", map[bool]int{false: 0, true: 1}[a.Finished()], cur(a), cur(b))
		// what is left goes to a third handle (this also lets the producer goroutine end)
		c := a.Split()
		rest := c.TaxonSlice()
		gr := make([]int, rest.Len())
		for i := range gr {
			gr[i] = rest.Get(i).Taxid()
		}
		if !a.Finished() || !b.Finished() || !c.Finished() || a.Next() || b.Next() || c.Next() {
			fail("isp.end", "after the channel is emptied a handle is not finished or Next answers true")
		}
		if len(ga)+len(gb)+len(gr) != len(sl) {
			fail("isp.count", "%d taxa sent, %d + %d + %d received", len(sl), len(ga), len(gb), len(gr))
		}
		return fmt.Sprintf("a=%s;b=%s;r=%s;", c14IDs(ga), c14IDs(gb), c14IDs(gr)) + res
	case f[0] == "isub" && len(f) == 2:
		c, e := tax.Taxon(id(f[1]))
		if e != nil {
			return "unk"
		}
		l := c14Drain(tax.IFilterOnSubcladeOf(c), fail, "isub")
		// the same through the TaxonSet and the TaxonSlice entry points
		if l2 := c14Drain(tax.TaxonSet().IFilterOnSubcladeOf(c), fail, "isub"); c14Join(l2) != c14Join(l) {
			fail("isub.set", "TaxonSet.IFilterOnSubcladeOf lists %s, Taxonomy.IFilterOnSubcladeOf %s", c14Join(l2), c14Join(l))
		}
		if l3 := c14Drain(tax.Iterator().TaxonSlice().IFilterOnSubcladeOf(c), fail, "isub"); c14Join(l3) != c14Join(l) {
			fail("isub.slice", "TaxonSlice.IFilterOnSubcladeOf lists %s, Taxonomy.IFilterOnSubcladeOf %s", c14Join(l3), c14Join(l))
		}
		if set := tax.IFilterOnSubcladeOf(c).TaxonSet(); set.Len() != len(l) {
			fail("isub.taxonset", "ITaxonSet.TaxonSet holds %d taxa, the slice %d", set.Len(), len(l))
		}
		return c14IDs(l)
	case f[0] == "irank" && len(f) == 2:
		l := c14Drain(tax.IFilterOnTaxRank(c14Unrank(f[1])), fail, "irank")
		if l2 := c14Drain(tax.TaxonSet().IFilterOnTaxRank(c14Unrank(f[1])), fail, "irank"); c14Join(l2) != c14Join(l) {
			fail("irank.set", "TaxonSet.IFilterOnTaxRank lists %s, Taxonomy.IFilterOnTaxRank %s", c14Join(l2), c14Join(l))
		}
		return c14IDs(l)
	case f[0] == "ibel" && len(f) == 2:
		set := make(obitax.TaxonSet)
		for _, c := range c14Ints(f[1]) {
			n, e := tax.Taxon(c)
			if e != nil {
				return "unk"
			}
			set.Inserts(n)
		}
		return c14IDs(c14Drain(tax.Iterator().IFilterBelongingSubclades(&set), fail, "ibel"))
	case f[0] == "tpath" && len(f) == 2:
		seq := c14Seq(f[1])
		tax.MakeSetPathWorker()(seq)
		v, _ := seq.GetStringAttribute("taxonomic_path")
		return c14Hex(v)
	case f[0] == "name" && len(f) == 2:
		t1, e1 := tax.Taxon(id(f[1]))
		if e1 != nil {
			return "unk"
		}
		return c14Hex(t1.ScientificName())
	case f[0] == "state" && len(f) == 1:
		var ns, as []string
		set := tax.TaxonSet()
		keys := make([]int, 0, set.Len())
		for k, n := range *set {
			if n.Taxid() != k {
				fail("state.key", "nodes[%d] holds taxon %d", k, n.Taxid())
			}
			keys = append(keys, k)
		}
		sort.Ints(keys)
		for _, k := range keys {
			n := set.Get(k)
			ns = append(ns, fmt.Sprintf("%d:%d:%s:%s", k, n.Parent().Taxid(), c14Hex(n.Rank()), c14Hex(n.ScientificName())))
		}
		al := *tax.Alias()
		keys = keys[:0]
		for k := range al {
			keys = append(keys, k)
		}
		sort.Ints(keys)
		for _, k := range keys {
			as = append(as, fmt.Sprintf("%d:%d", k, al[k].Taxid()))
			if n := set.Get(al[k].Taxid()); n != al[k] {
				fail("state.alias", "alias[%d] is not a node of the taxonomy", k)
			}
		}
		if all := c14Drain(tax.Iterator(), fail, "iter"); len(all) != tax.Len() {
			fail("state.iter", "Taxonomy.Iterator yields %d taxa of %d", len(all), tax.Len())
		}
		return strings.Join(ns, ";") + "/" + strings.Join(as, ";")
	case (f[0] == "wl" && len(f) == 2) || (f[0] == "wls" && len(f) == 2):
		mk := func() *obiseq.BioSequence {
			if f[0] == "wls" {
				return c14Seq(f[1])
			}
			seq := obiseq.NewBioSequence("s", []byte("acgt"), "")
			m := map[string]int{}
			if f[1] != "" {
				for _, kv := range strings.Split(f[1], ",") {
					p := strings.Split(kv, "=")
					if len(p) == 2 {
						m[p[0]] = id(p[1])
					}
				}
			}
			seq.SetAttribute("merged_taxid", m)
			return seq
		}
		l, rans, _ := tax.LCA(mk(), 1.0)
		if rans != 1.0 {
			fail("wl.rans", "Taxonomy.LCA(…, 1.0) reports an agreement of %v", rans)
		}
		if f[0] == "wl" && strings.Contains(f[1], ",") { // Go's map iteration order must not matter (several keys may designate one taxon)
			for i := 0; i < 6; i++ {
				if l2, _, _ := tax.LCA(mk(), 1.0); (l2 == nil) != (l == nil) || (l != nil && l2.Taxid() != l.Taxid()) {
					fail("wl.order", "Taxonomy.LCA(…, 1.0) answers %v then %v on the same merged_taxid map", l, l2)
					break
				}
			}
		}
		if l == nil {
			return "nil"
		}
		seq := mk()
		w := guard(func() string {
			obitax.AddLCAWorker(tax, "lca", 1.0)(seq)
			v, _ := seq.GetIntAttribute("lca_taxid")
			e, _ := seq.GetFloatAttribute("lca_error")
			n, _ := seq.GetStringAttribute("lca_name")
			return fmt.Sprintf("%d %v %s", v, e, n)
		})
		if exp := fmt.Sprintf("%d 0 %s", l.Taxid(), l.ScientificName()); w != exp {
			fail("wl.worker", "AddLCAWorker annotates %q expected %q", w, exp)
		}
		return strconv.Itoa(l.Taxid())
	}
	return "bad-op"
}

// position of the taxid attribute of the sequence in the queries that take one
var c14SeqField = map[string]int{"val": 1, "vf": 1, "rt": 2, "ig": 2, "rr": 2, "flt": 4, "rs": 2, "rss": 2, "sr": 2, "sp": 2, "hq": 2,
	"sw": 2, "sn": 1, "tr": 1, "tpath": 1}

func (c14) Exec(c string) (string, []Fail) {
	if strings.HasPrefix(c, "conc ") || strings.HasPrefix(c, "race conc ") { // the queries from several goroutines: c14_conc.go
		return c14ExecConc(c)
	}
	mode, t, qs, ok := c14Parse(c)
	if !ok {
		caseTrivial = true
		return "bad-op", nil
	}
	var fails []Fail
	var tax *obitax.Taxonomy
	msg := guardT(30*time.Second, func() string {
		var m string
		tax, m = c14Build(mode, t)
		return m
	})
	if msg != "" {
		stat("build:" + msg)
		return msg, nil
	}
	ref := c14NewRef(t)
	if ref.wf {
		stat("tree:wf")
	} else {
		stat("tree:not-wf")
	}
	switch n := len(t.ids); {
	case n <= 6:
		stat(fmt.Sprintf("size:%d", n))
	case n <= 100:
		stat("size:7-100")
	case n <= 1000:
		stat("size:101-1000")
	default:
		stat("size:>1000")
	}
	res := make([]string, 0, len(qs))
	for _, q := range qs {
		f := strings.Split(q, ":")
		stat("op:" + f[0])
		fail := func(sig, format string, a ...any) {
			fails = append(fails, Fail{Sig: sig, Text: "q" + q + ": " + fmt.Sprintf(format, a...)})
		}
		r := guardT(10*time.Second, func() string { return c14Query(tax, ref, f, fail) })
		if r == "bad-op" {
			caseTrivial = true
			return "bad-op", nil
		}
		if exp := ref.expect(f); exp != "" && exp != r {
			fail(f[0]+".value", "real code answers %s, the tree implies %s", r, exp)
		}
		// alias oracle: a sequence carrying a merged taxid is treated exactly as one carrying the taxid it resolves to
		if si, isSeq := c14SeqField[f[0]]; isSeq && si < len(f) && ref.wf {
			if f[si] == "-" {
				stat("seq:none")
			} else {
				sid, _ := strconv.Atoi(f[si])
				x, known := ref.resolve(sid)
				_, live := t.parent[sid]
				switch {
				case !known:
					stat("seq:unknown")
				case live && t.parent[sid] == sid:
					stat("seq:root")
				case live:
					stat("seq:node")
				default:
					stat("seq:merged-id")
					for _, a := range t.aliases {
						if _, l2 := t.parent[a[1]]; a[0] == sid && !l2 {
							stat("seq:merged-id-chain")
							break
						}
					}
					if !(f[0] == "vf" && x < 1) {
						f2 := append([]string{}, f...)
						f2[si] = strconv.Itoa(x)
						r2 := guardT(10*time.Second, func() string { return c14Query(tax, ref, f2, func(string, string, ...any) {}) })
						if f[0] == "vf" { // the merged id is rewritten into x, x is left alone: the same taxid afterwards
							r2 = strings.Replace(r2, ":"+f2[si], ":"+strconv.Itoa(x), 1)
						}
						if r2 != r {
							fail(f[0]+".alias", "the answer for a sequence of taxid %d is %s, for its current taxid %d it is %s", sid, r, x, r2)
						}
					}
				}
			}
		}
		switch r {
		case "panic", "fatal", "err", "unk", "nil", "hang", "noparse", "-", "none":
			stat("out:" + f[0] + "." + r)
		}
		res = append(res, r)
	}
	if len(res) == 0 {
		return "-", fails
	}
	return strings.Join(res, " "), fails
}
