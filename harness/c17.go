//go:build c17

package main

import (
	"bytes"
	"compress/gzip"
	"errors"
	"fmt"
	"io"
	"math/rand"
	"os"
	"os/exec"
	"path/filepath"
	"strconv"
	"strings"
	"time"

	"github.com/dsnet/compress/bzip2"
	"github.com/klauspost/compress/zstd"
	"github.com/ulikunitz/xz"

	"git.metabarcoding.org/obitools/obitools4/obitools4/pkg/obiformats"
)

type c17 struct{}

func init() { props["C17"] = c17{} }

// faultReader delivers data in pieces of `piece` bytes and then returns the final error.
type faultReader struct {
	data  []byte
	pos   int
	piece int
	final error
	with  bool // return the error together with the last bytes
}

var errInjected = errors.New("injected read error")

func (r *faultReader) Read(p []byte) (int, error) {
	if r.pos >= len(r.data) {
		return 0, r.final
	}
	n := r.piece
	if n > len(p) {
		n = len(p)
	}
	if n > len(r.data)-r.pos {
		n = len(r.data) - r.pos
	}
	copy(p, r.data[r.pos:r.pos+n])
	r.pos += n
	if r.with && r.pos >= len(r.data) {
		return n, r.final
	}
	return n, nil
}

func c17Err(s string) error {
	switch s {
	case "eof":
		return io.EOF
	case "ueof":
		return io.ErrUnexpectedEOF
	case "other":
		return errInjected
	}
	return nil
}

func c17Fasta(rng *rand.Rand, nrec int) []byte {
	var sb bytes.Buffer
	for i := 0; i < nrec; i++ {
		fmt.Fprintf(&sb, ">s%d d%d\n", i, rng.Intn(100))
		n := 1 + rng.Intn(90)
		for j := 0; j < n; j++ {
			sb.WriteByte("acgt"[rng.Intn(4)])
			if j%60 == 59 && j+1 < n {
				sb.WriteByte('\n')
			}
		}
		sb.WriteByte('\n')
		if rng.Intn(8) == 0 {
			sb.WriteByte('\n')
		}
	}
	return sb.Bytes()
}

func c17Compress(codec string, data []byte) []byte {
	var b bytes.Buffer
	switch codec {
	case "gz":
		w := gzip.NewWriter(&b)
		w.Write(data)
		w.Close()
	case "bz2":
		w, _ := bzip2.NewWriter(&b, &bzip2.WriterConfig{Level: 6})
		w.Write(data)
		w.Close()
	case "xz":
		w, _ := xz.NewWriter(&b)
		w.Write(data)
		w.Close()
	case "zst":
		w, _ := zstd.NewWriter(&b)
		w.Write(data)
		w.Close()
	}
	return b.Bytes()
}

// the decompressed FASTA of a `file`/`cmd` case is a pure function of the record count
func c17FileData(nrec int) []byte { return c17Fasta(rand.New(rand.NewSource(int64(nrec)+99)), nrec) }

func (c17) Gen(rng *rand.Rand, tier string, emit func(string)) {
	// corpus
	for _, e := range []string{"eof", "ueof", "other"} {
		emit("chunk b=8 p=3 3e610a61630a3e620a67670a " + e)
		emit("chunk b=64 p=1 3e610a61630a3e620a67670a " + e)
		emit("chunk b=2 p=5 3e610a61630a3e620a67670a " + e)
		emit("chunk b=8 p=3 - " + e)
		emit("guess p=7 3e610a61630a3e620a67670a " + e)
		emit("guess p=7 - " + e)
	}
	codecs := []string{"gz", "bz2", "xz", "zst"}
	// every truncation point of one small file per codec (quick: 2 records; thorough: also 12 records)
	sizes := []int{2}
	if tier == "thorough" {
		sizes = []int{2, 12}
	}
	for _, nrec := range sizes {
		for _, codec := range codecs {
			z := c17Compress(codec, c17FileData(nrec))
			for k := 1; k <= len(z); k++ {
				emit(fmt.Sprintf("file %s nrec=%d cut=%d n=0 err=eof", codec, nrec, k))
			}
		}
	}
	// the C reader (kseq + zlib, the stdin path of the commands) at every truncation point of a gzip file
	zk := c17Compress("gz", c17FileData(6))
	for k := 2; k <= len(zk); k++ {
		emit(fmt.Sprintf("kseq gz nrec=6 cut=%d", k))
	}
	// bit flips
	nflip := 40
	if tier == "thorough" {
		nflip = 400
	}
	for i := 0; i < nflip; i++ {
		codec := codecs[rng.Intn(4)]
		nrec := 3 + rng.Intn(6)
		z := c17Compress(codec, c17FileData(nrec))
		emit(fmt.Sprintf("file %s nrec=%d flip=%d n=0 err=eof", codec, nrec, rng.Intn(len(z)*8)))
	}
	// subprocess: exit status of the real command
	for _, codec := range codecs {
		z := c17Compress(codec, c17FileData(5))
		emit(fmt.Sprintf("cmd obiconvert file %s nrec=5 cut=%d", codec, len(z)/2))
		emit(fmt.Sprintf("cmd obiconvert file %s nrec=5 cut=%d", codec, len(z)-1))
	}
	zg := c17Compress("gz", c17FileData(5))
	emit(fmt.Sprintf("cmd obiconvert stdin gz nrec=5 cut=%d", len(zg)/2))
	emit(fmt.Sprintf("cmd obiconvert stdin gz nrec=5 cut=%d", len(zg)-3))
	emit(fmt.Sprintf("cmd obiconvert stdin gz nrec=400 cut=%d", len(c17Compress("gz", c17FileData(400)))/2))
	n := 1200
	if tier == "thorough" {
		n = 8000
	}
	for i := 0; i < n; i++ {
		data := c17Fasta(rng, rng.Intn(6))
		if rng.Intn(4) == 0 && len(data) > 0 {
			data = data[:rng.Intn(len(data))]
		}
		e := []string{"eof", "eof", "ueof", "other"}[rng.Intn(4)]
		if rng.Intn(6) == 0 {
			emit(fmt.Sprintf("guess p=%d %s %s", 1+rng.Intn(50), hx(data), e))
		} else {
			b := 2 + rng.Intn(40)
			if rng.Intn(5) == 0 {
				b = len(data) + rng.Intn(3)
				if b < 2 {
					b = 2
				}
			}
			emit(fmt.Sprintf("chunk b=%d p=%d %s %s", b, 1+rng.Intn(30), hx(data), e))
		}
	}
}

func c17KV(s, key string) (int, bool) {
	if !strings.HasPrefix(s, key+"=") {
		return 0, false
	}
	v, err := strconv.Atoi(s[len(key)+1:])
	return v, err == nil
}

func (c17) Exec(c string) (string, []Fail) {
	f := strings.Fields(c)
	if len(f) == 0 {
		return "bad-op", nil
	}
	stat("op:" + f[0])
	switch {
	case f[0] == "chunk" && len(f) == 5:
		b, ok1 := c17KV(f[1], "b")
		p, ok2 := c17KV(f[2], "p")
		data, ok3 := unhx(f[3])
		final := c17Err(f[4])
		if !ok1 || !ok2 || !ok3 || final == nil || b < 2 || p < 1 {
			return "bad-op", nil
		}
		var chunks []string
		res := guardT(5*time.Second, func() string {
			r := &faultReader{data: data, piece: p, final: final, with: p%2 == 0}
			ch := obiformats.ReadSeqFileChunk("src", r, make([]byte, b), obiformats.EndOfLastFastaEntry)
			for c := range ch {
				chunks = append(chunks, hx(c.Raw.Bytes()))
			}
			return "ok"
		})
		var fails []Fail
		if f[4] != "eof" && res != "fatal" {
			fails = append(fails, Fail{Sig: "chunk.error-accepted." + f[4], Text: "the stream ended with a read error but the reader ended with " + res})
		}
		if f[4] == "eof" && res != "ok" {
			fails = append(fails, Fail{Sig: "chunk.clean-eof-rejected", Text: "clean end of stream but the reader ended with " + res})
		}
		return strings.Join(append([]string{res}, chunks...), " "), fails
	case f[0] == "guess" && len(f) == 4:
		p, ok2 := c17KV(f[1], "p")
		data, ok3 := unhx(f[2])
		final := c17Err(f[3])
		if !ok2 || !ok3 || final == nil || p < 1 {
			return "bad-op", nil
		}
		res := guardT(5*time.Second, func() string {
			r := &faultReader{data: data, piece: p, final: final, with: p%2 == 0}
			_, _, err := obiformats.OBIMimeTypeGuesser(r)
			if err != nil {
				return "fail"
			}
			return "ok"
		})
		var fails []Fail
		if f[3] != "eof" && res == "ok" {
			fails = append(fails, Fail{Sig: "guess.error-accepted." + f[3], Text: "the stream ended with a read error but the guesser accepted it"})
		}
		return res, fails
	case f[0] == "file" && len(f) == 6:
		return c17File(f)
	case f[0] == "cmd" && len(f) == 6:
		return c17Cmd(f)
	case f[0] == "kseq" && len(f) == 4:
		return c17Kseq(f)
	}
	return "bad-op", nil
}

func c17Damage(f []string) (codec string, nrec int, z []byte, label string, ok bool) {
	codec = f[1]
	nrec, ok1 := c17KV(f[2], "nrec")
	if !ok1 {
		return
	}
	z = c17Compress(codec, c17FileData(nrec))
	if len(z) == 0 {
		return
	}
	if k, isCut := c17KV(f[3], "cut"); isCut {
		if k < 0 || k > len(z) {
			return
		}
		return codec, nrec, z[:k], fmt.Sprintf("cut=%d/%d", k, len(z)), true
	}
	if b, isFlip := c17KV(f[3], "flip"); isFlip {
		if b < 0 || b >= len(z)*8 {
			return
		}
		z2 := append([]byte{}, z...)
		z2[b/8] ^= 1 << (b % 8)
		return codec, nrec, z2, fmt.Sprintf("flip=%d", b), true
	}
	return
}

// c17File reads the damaged file through the real ReadSequencesFromFile; the decompressor's own
// verdict on the damaged bytes (bytes delivered, error class) is recorded as data for the model.
func c17File(f []string) (string, []Fail) {
	codec, nrec, z, label, ok := c17Damage(f)
	if !ok {
		return "bad-op", nil
	}
	dir, _ := os.MkdirTemp("", "c17")
	defer os.RemoveAll(dir)
	path := filepath.Join(dir, "t.fasta."+codec)
	os.WriteFile(path, z, 0o644)
	// what the decompression stack (the toolkit's own opener) says about these bytes
	n, class := 0, "eof"
	var decoded []byte
	openFailed := false
	guard(func() string {
		r, err := obiformats.Ropen(path)
		if err != nil {
			openFailed = true
			if err == obiformats.ErrNoContent {
				class = "eof"
			} else {
				class = "other"
			}
			return ""
		}
		// plain Read loop (io.Copy would go through bufio's WriteTo, which hides the error of some codecs)
		buf := make([]byte, 1<<16)
		for err == nil {
			var nn int
			nn, err = r.Read(buf)
			decoded = append(decoded, buf[:nn]...)
			n += nn
		}
		raw := n == len(z) // not recognised as a compressed stream: the damaged bytes are read as they are
		switch {
		case err == io.EOF && raw && n > 0:
			class = "raw"
		case err == io.EOF:
			class = "eof"
		case errors.Is(err, io.ErrUnexpectedEOF):
			class = "ueof"
		default:
			class = "other"
		}
		return ""
	})
	_ = openFailed
	full := c17FileData(nrec)
	nrecRead := -1
	rawAccepted := false
	res := guardT(10*time.Second, func() string {
		it, err := obiformats.ReadSequencesFromFile(path, obiformats.OptionsParallelWorkers(1))
		if err != nil {
			return "fail"
		}
		cnt := 0
		for it.Next() {
			cnt += it.Get().Len()
		}
		nrecRead = cnt
		if cnt == 0 && n == 0 {
			return "empty"
		}
		return "ok"
	})
	if res == "fatal" {
		res = "fail"
	}
	if class == "raw" {
		// a file cut inside its magic number is not a compressed file any more: it is read as plain text
		// (and refused unless it happens to look like a sequence file); the model has no opinion
		rawAccepted = res == "ok" && nrecRead > 0
		res = "raw"
	}
	caseOverride = fmt.Sprintf("file %s nrec=%d %s n=%d err=%s", codec, nrec, f[3], n, class)
	var fails []Fail
	stat("damage-class:" + class)
	if rawAccepted {
		fails = append(fails, Fail{Sig: "file." + codec + ".magic-damaged-accepted-as-text", Text: label + ": the magic number is damaged, the file is no longer recognised as compressed and its bytes were accepted as a text format"})
	}
	if res == "ok" || res == "empty" {
		// accepted: then the file must have delivered the complete data
		if n != len(full) || nrecRead != nrec || (class != "raw" && !bytes.Equal(decoded, full)) {
			sig := "file." + codec + ".accepted-damaged"
			if class == "eof" {
				sig = "file." + codec + ".codec-reports-clean-eof" // the decompression library itself hides the damage
			}
			fails = append(fails, Fail{Sig: sig, Text: fmt.Sprintf("%s: %d of %d bytes decoded (decompressor says %s) and the reader ended normally with %d of %d records", label, n, len(full), class, nrecRead, nrec)})
		}
	} else if res != "fail" && res != "raw" {
		fails = append(fails, Fail{Sig: "file.outcome", Text: res})
	}
	return res, fails
}

func c17Cmd(f []string) (string, []Fail) {
	// cmd obiconvert file|stdin <codec> nrec=N cut=K
	codec, _, z, label, ok := c17Damage([]string{"file", f[3], f[4], f[5]})
	if !ok || f[1] != "obiconvert" {
		return "bad-op", nil
	}
	bin, err := repoCommandC17("obiconvert")
	if err != nil {
		return "bad-op", []Fail{{Sig: "cmd.build", Text: err.Error()}}
	}
	dir, _ := os.MkdirTemp("", "c17")
	defer os.RemoveAll(dir)
	path := filepath.Join(dir, "t.fasta."+codec)
	os.WriteFile(path, z, 0o644)
	var cmd *exec.Cmd
	if f[2] == "stdin" {
		cmd = exec.Command(bin)
		in, _ := os.Open(path)
		defer in.Close()
		cmd.Stdin = in
	} else {
		cmd = exec.Command(bin, path)
	}
	cmd.Stdout = io.Discard
	done := make(chan error, 1)
	cmd.Start()
	go func() { done <- cmd.Wait() }()
	res := ""
	select {
	case err := <-done:
		if err == nil {
			res = "exit0"
		} else {
			res = "exit-nonzero"
		}
	case <-time.After(60 * time.Second):
		cmd.Process.Kill()
		res = "hang"
	}
	stat("subprocess:" + f[2])
	var fails []Fail
	if res != "exit-nonzero" {
		fails = append(fails, Fail{Sig: "cmd." + f[2] + "." + codec, Text: "obiconvert on a truncated " + codec + " input (" + label + ") ended with " + res})
	}
	return res, fails
}

var c17CmdOnce = map[string]string{}

func repoCommandC17(name string) (string, error) {
	if p, ok := c17CmdOnce[name]; ok {
		return p, nil
	}
	root := os.Getenv("VERIF_ROOT")
	if root == "" {
		root = "/verif"
	}
	repo := os.Getenv("VERIF_REPO")
	if repo == "" {
		repo = "/repo"
	}
	out := filepath.Join(binDir(), "cmd17_"+name)
	cmd := exec.Command("go", "build", "-o", out, "./cmd/obitools/"+name)
	cmd.Dir = repo
	env := []string{}
	for _, e := range os.Environ() {
		if strings.HasPrefix(e, "GOFLAGS=") || strings.HasPrefix(e, "GOWORK=") {
			continue
		}
		env = append(env, e)
	}
	cmd.Env = append(env, "GOPROXY=off", "GOSUMDB=off", "GOTOOLCHAIN=local", "CGO_CFLAGS=-w -O2")
	if b, err := cmd.CombinedOutput(); err != nil {
		return "", fmt.Errorf("go build %s: %v: %s", name, err, b)
	}
	c17CmdOnce[name] = out
	return out, nil
}

// c17Kseq reads a truncated gzip file through ReadFastSeqFromFile (C kseq over zlib gzread: the reader
// behind `obiconvert < file`); a truncated stream must end in log.Fatal, never in a normal end.
func c17Kseq(f []string) (string, []Fail) {
	codec, nrec, z, label, ok := c17Damage([]string{"file", f[1], f[2], f[3]})
	if !ok || codec != "gz" {
		return "bad-op", nil
	}
	full := c17Compress("gz", c17FileData(nrec))
	dir, _ := os.MkdirTemp("", "c17k")
	defer os.RemoveAll(dir)
	path := filepath.Join(dir, "t.fasta.gz")
	os.WriteFile(path, z, 0o644)
	got := -1
	res := guardT(10*time.Second, func() string {
		it, err := obiformats.ReadFastSeqFromFile(path, obiformats.OptionsParallelWorkers(1))
		if err != nil {
			return "fail"
		}
		cnt := 0
		for it.Next() {
			cnt += it.Get().Len()
		}
		got = cnt
		return "ok"
	})
	if res == "fatal" {
		res = "fail"
	}
	var fails []Fail
	truncated := len(z) < len(full)
	if truncated && res == "ok" {
		fails = append(fails, Fail{Sig: "kseq.gz.accepted-truncated", Text: fmt.Sprintf("%s: the C reader ended normally with %d of %d records", label, got, nrec)})
	}
	if !truncated && (res != "ok" || got != nrec) {
		fails = append(fails, Fail{Sig: "kseq.gz.complete-file", Text: fmt.Sprintf("complete file: %s with %d of %d records", res, got, nrec)})
	}
	// for the model the verdict of zlib on the truncated stream is: truncated <=> not the whole file
	caseOverride = fmt.Sprintf("kseq gz nrec=%d cut=%d of=%d", nrec, len(z), len(full))
	return res, fails
}
