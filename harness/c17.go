//go:build c17

package main

import (
	"bytes"
	"compress/gzip"
	"errors"
	"fmt"
	"io"
	"math/rand"
	"os"
	"os/exec"
	"path/filepath"
	"sort"
	"strconv"
	"strings"
	"sync"
	"time"

	log "github.com/sirupsen/logrus"

	"github.com/dsnet/compress/bzip2"
	"github.com/klauspost/compress/zstd"
	"github.com/ulikunitz/xz"

	"git.metabarcoding.org/obitools/obitools4/obitools4/pkg/obiformats"
	"git.metabarcoding.org/obitools/obitools4/obitools4/pkg/obiiter"
)

type c17 struct{}

func init() { props["C17"] = c17{} }

// faultReader delivers data in pieces of `piece` bytes and then returns the final error.
type faultReader struct {
	data  []byte
	pos   int
	piece int
	final error
	with  bool // return the error together with the last bytes
}

var errInjected = errors.New("injected read error")

func (r *faultReader) Read(p []byte) (int, error) {
	if r.pos >= len(r.data) {
		return 0, r.final
	}
	n := r.piece
	if n > len(p) {
		n = len(p)
	}
	if n > len(r.data)-r.pos {
		n = len(r.data) - r.pos
	}
	copy(p, r.data[r.pos:r.pos+n])
	r.pos += n
	if r.with && r.pos >= len(r.data) {
		return n, r.final
	}
	return n, nil
}

func c17Err(s string) error {
	switch s {
	case "eof":
		return io.EOF
	case "ueof":
		return io.ErrUnexpectedEOF
	case "other":
		return errInjected
	}
	return nil
}

func c17Fasta(rng *rand.Rand, nrec int) []byte {
	var sb bytes.Buffer
	for i := 0; i < nrec; i++ {
		fmt.Fprintf(&sb, ">s%d d%d\n", i, rng.Intn(100))
		n := 1 + rng.Intn(90)
		for j := 0; j < n; j++ {
			sb.WriteByte("acgt"[rng.Intn(4)])
			if j%60 == 59 && j+1 < n {
				sb.WriteByte('\n')
			}
		}
		sb.WriteByte('\n')
		if rng.Intn(8) == 0 {
			sb.WriteByte('\n')
		}
	}
	return sb.Bytes()
}

func c17Compress(codec string, data []byte) []byte {
	var b bytes.Buffer
	switch codec {
	case "gz":
		w := gzip.NewWriter(&b)
		w.Write(data)
		w.Close()
	case "bz2":
		w, _ := bzip2.NewWriter(&b, &bzip2.WriterConfig{Level: 6})
		w.Write(data)
		w.Close()
	case "xz":
		w, _ := xz.NewWriter(&b)
		w.Write(data)
		w.Close()
	case "zst":
		w, _ := zstd.NewWriter(&b)
		w.Write(data)
		w.Close()
	}
	return b.Bytes()
}

// the decompressed FASTA of a `file`/`cmd` case is a pure function of the record count
func c17FileData(nrec int) []byte { return c17Fasta(rand.New(rand.NewSource(int64(nrec)+99)), nrec) }

// ecoPCR files are not in this list: ReadEcoPCR (ecopcr_read.go) used to call seq.SetSource on the nil sequence returned
// with the end of the data and to die of a nil pointer dereference in its own goroutine at the end of EVERY file (a panic
// the harness cannot recover from).  They have their own generator (c17GenEco), whose in-process cases are emitted only
// when a subprocess probe shows that the reader of the tree under check ends normally on a complete file.
var c17Formats = []string{"fasta", "fastq", "genbank", "embl", "csv"}

// c17FormatData: `nrec` records in the given text format (pure function of format and record count)
func c17FormatData(format string, nrec int) []byte {
	if format == "" || format == "fasta" {
		return c17FileData(nrec)
	}
	rng := rand.New(rand.NewSource(int64(nrec)*7 + int64(len(format))))
	var b bytes.Buffer
	dna := func(n int) []byte {
		s := make([]byte, n)
		for i := range s {
			s[i] = "acgt"[rng.Intn(4)]
		}
		return s
	}
	flat := func(s []byte, gb bool) {
		for p := 0; p < len(s); p += 60 {
			if gb {
				fmt.Fprintf(&b, "%9d", p+1)
			} else {
				b.WriteString("    ")
			}
			for g := p; g < p+60 && g < len(s); g += 10 {
				e := g + 10
				if e > len(s) {
					e = len(s)
				}
				b.WriteByte(' ')
				b.Write(s[g:e])
			}
			if !gb {
				fmt.Fprintf(&b, " %9d", p+60)
			}
			b.WriteByte('\n')
		}
	}
	switch format {
	case "ecopcr":
		b.WriteString("#@ecopcr-v2\n#\n# ecoPCR version 1.0\n# direct  strand oligo1 : ACGTACGTACGTACGTAC               ; oligo2c :               CCCCTTTTAAAAGGGG\n" +
			"# reverse strand oligo2 : GGGGTTTTAAAACCCC               ; oligo1c :              GTACGTACGTACGTACGT\n# max error count by oligonucleotide : 3\n# output in superkingdom mode\n#\n")
	case "csv":
		b.WriteString("id,sequence,count\n")
	}
	for i := 0; i < nrec; i++ {
		n := 20 + rng.Intn(90)
		s := dna(n)
		id := fmt.Sprintf("s%d", i)
		switch format {
		case "fastq":
			fmt.Fprintf(&b, "@%s d%d\n%s\n+\n%s\n", id, i, s, strings.Repeat("I", n))
		case "genbank":
			fmt.Fprintf(&b, "LOCUS       %s %d bp    DNA     linear   PLN 01-JAN-2000\n", id, n)
			fmt.Fprintf(&b, "DEFINITION  record %d.\nFEATURES             Location/Qualifiers\n     source          1..%d\n", i, n)
			fmt.Fprintf(&b, "                     /db_xref=\"taxon:%d\"\n", 100+i)
			b.WriteString("ORIGIN\n")
			flat(s, true)
			b.WriteString("//\n")
		case "embl":
			fmt.Fprintf(&b, "ID   %s; SV 1; linear; mRNA; STD; PLN; %d BP.\nXX\nDE   record %d.\n", id, n, i)
			fmt.Fprintf(&b, "FH   Key             Location/Qualifiers\nFH\nFT   source          1..%d\n", n)
			fmt.Fprintf(&b, "FT                   /db_xref=\"taxon:%d\"\n", 100+i)
			b.WriteString("SQ   Sequence\n")
			flat(s, false)
			b.WriteString("//\n")
		case "ecopcr":
			fmt.Fprintf(&b, "%s | %d | %d | species | %d | Homo sapiens | 9605 | Homo | 9604 | Hominidae | 2759 | Eukaryota | D | ACGTACGTACGTACGTAC | 0 | 55.5 | GGGGTTTTAAAACCCC | 1 | 50.1 | %d | %s | record %d\n",
				id, n+40, 9606, 9606, n, s, i)
		case "csv":
			fmt.Fprintf(&b, "%s,%s,%d\n", id, s, i+1)
		}
	}
	return b.Bytes()
}

func (c17) Gen(rng *rand.Rand, tier string, emit0 func(string)) {
	// The `kseq` cases (cheap to run, long lines: the bytes zlib delivers are part of the line) are run last: the check
	// reads the output of its parallel harness processes one process after the other, a process whose output no longer
	// fits in its buffer waits for its turn - the expensive cases must come before that point.
	// The `cmd` cases (subprocesses, no state of the harness involved) are started in the background when they are
	// generated and their lines are emitted at the end, like the `glue` cases of the fifth pass.
	var kseqLast, cmdLast []string
	emit := func(l string) {
		if strings.HasPrefix(l, "kseq ") {
			kseqLast = append(kseqLast, l)
		} else if f := strings.Fields(l); len(f) == 6 && f[0] == "cmd" {
			c17BgStart(strings.Join(f, " "), func() c17GlueRes {
				res, fails, line := c17CmdX(f)
				return c17GlueRes{res: res, fails: fails, line: line}
			})
			cmdLast = append(cmdLast, l)
		} else {
			emit0(l)
		}
	}
	defer func() {
		for _, l := range kseqLast {
			emit0(l)
		}
	}()
	defer func() {
		for _, l := range cmdLast {
			emit0(l)
		}
	}()
	// fifth pass (the glue between the commands and the readers): obiconvert subprocesses on several inputs; they use no
	// state of the harness and are started now, in the background, while the in-process cases below run one at a time;
	// their lines are emitted at the end of this function (thorough: dealt out among the 8 harness processes)
	glueLines := c17GlueGen(rand.New(rand.NewSource(rng.Int63())), tier)
	{
		part, nparts := c17Partition(tier)
		var mine []string
		for i, l := range glueLines {
			if i < 14 || i%nparts == part { // (the corpus runs in every process)
				mine = append(mine, l)
			}
		}
		glueLines = mine
		c17GluePrefetch(glueLines)
	}
	defer func() {
		for _, l := range glueLines {
			emit0(l)
		}
	}()
	// corpus
	for _, e := range []string{"eof", "ueof", "other"} {
		emit("chunk b=8 p=3 3e610a61630a3e620a67670a " + e)
		emit("chunk b=64 p=1 3e610a61630a3e620a67670a " + e)
		emit("chunk b=2 p=5 3e610a61630a3e620a67670a " + e)
		emit("chunk b=8 p=3 - " + e)
		emit("guess p=7 3e610a61630a3e620a67670a " + e)
		emit("guess p=7 - " + e)
	}
	// third pass (multi-member files, other formats at every truncation point, corruption at every bit, ecoPCR): the
	// cases whose damage falls on the magic number first (see c17RawProne)
	var later []string
	sorter := func(l string) {
		if c17RawProne(l) {
			emit(l)
		} else {
			later = append(later, l)
		}
	}
	c17GenMulti(rng, tier, sorter)
	c17GenEco(rng, tier, sorter)
	// thorough: the check runs `thorough_seeds` = 8 harness processes with consecutive seeds; the (mostly exhaustive,
	// seed-independent) cases of the third pass are dealt out among them: process `seed mod 8` runs every 8th case,
	// the eight processes together run them all
	part, nparts := c17Partition(tier)
	for i, l := range later {
		if i%nparts != part {
			stat("third-pass-cases-left-to-the-other-seeds")
			continue
		}
		emit(l)
	}
	codecs := []string{"gz", "bz2", "xz", "zst"}
	// every truncation point of one small file per codec (quick: 2 records; thorough: also 12 records)
	sizes := []int{2}
	if tier == "thorough" {
		sizes = []int{2, 12}
	}
	for _, nrec := range sizes {
		for _, codec := range codecs {
			z := c17Compress(codec, c17FileData(nrec))
			for k := 1; k <= len(z); k++ {
				emit(fmt.Sprintf("file %s nrec=%d cut=%d n=0 err=eof", codec, nrec, k))
			}
		}
	}
	// the C reader (kseq + zlib, the stdin path of the commands) at every truncation point of a gzip file
	kn := 4
	if tier == "thorough" {
		kn = 6
	}
	zk := c17Compress("gz", c17FileData(kn))
	for k := 2; k <= len(zk); k++ {
		emit(fmt.Sprintf("kseq gz nrec=%d cut=%d", kn, k))
	}
	zq := c17Compress("gz", c17FormatData("fastq", 3))
	for k := 2; k <= len(zq); k += 1 + (len(zq)-k)/40 {
		emit(fmt.Sprintf("kseq gz fq=3 cut=%d", k))
	}
	// corpus for the C reader: the cases found failing before the repairs (a record without sequence, a quality
	// shorter than its sequence, a byte 0xFF) in front of a truncation that zlib only meets later, and the parser's corners
	h := func(s string) string { return hx([]byte(s)) }
	for _, c := range []string{
		"kseq gz big=2001 cut=20000", "kseq gz big=2001 none", "kseq gz big=2000 cut=20000", "kseq gz big=2000 none", "kseq raw big=400 none",
		"kseq gz big=2000 flip=100000", "kseq gz big=2000 flip=300000", "kseq gz big=120 m2cut=40", "kseq gz big=120 m2flip=400", "kseq gz big=2000 m2cut=9000",
		"kseq raw x=" + h(">a\nac\n>e\n>b\nacgt\n") + " none", "kseq raw x=" + h("@a\nacgt\n+\nIIII\n@b\nacgt\n+\nII") + " none",
		"kseq raw x=" + h("@a\nacgt\n+\nII\n@b\nacgt\n+\nIIII\n") + " none", "kseq raw x=" + h(">a\nac\xffgt\n>b\nacgt\n") + " none",
		"kseq gz x=" + h(">a\nac\xffgt\n>b\nacgt\n") + " cut=25", "kseq raw x=" + h(">a d e\r\nAC GT\r\nNN\r\n\r\n>b\t x \nGG") + " none",
		"kseq raw x=" + h(">a\nacgt\n>") + " none", "kseq raw x=" + h(">\nacgt\n") + " none", "kseq raw x=" + h("junk\n>a\x00b c\x00d\nac\n+\n") + " none",
		"kseq raw x=" + h("@a\nac\n+a\n\nII\n@b\nA\n+\n@\n>c\nTT\n") + " none", "kseq raw x=- none", "kseq gz x=- none", "kseq raw x=" + h("\n\n\n") + " none",
		"kseq raw x=" + h(">a\n"+strings.Repeat("acgt", 1023)+">") + " none",   // the lone '>' is the last byte of a full 4096-byte buffer
		"kseq raw x=" + h(">a\n"+strings.Repeat("acgt", 1023)+"\n>") + " none", // … and the first byte of the next one
		"kseq raw x=" + h(">a\n"+strings.Repeat("acgt", 2047)+"a\n") + " none", "kseq raw x=" + h(strings.Repeat(">a b\nacgtacg\n", 1024)) + " none",
		"kseq gz nrec=5 tail=3", "kseq gz nrec=5 tail=40", "kseq gz nrec=5 m2cut=5", "kseq gz nrec=5 m2flip=90",
	} {
		emit(c)
	}
	// known finding D22z (zlib's gz* functions ignore what follows a complete gzip member when it does not start
	// with the gzip magic number; signature `^kseq\.gz\.zlib-reports-clean$`)
	emit("kseq gz nrec=5 m2cut=1")
	emit("kseq gz nrec=5 m2flip=3")
	// random texts (FASTA / FASTQ pieces, blank lines, CR LF, stray header characters), plain and compressed + damaged
	nk := 260
	if tier == "thorough" {
		nk = 1200
	}
	pieces := []string{">", "@", "+", "\n", "\r\n", " ", "\t", "a", "acgt", "ACGTN", "II", "IIII", "!~", "id1", "x y", "\n+\n", "\n>", "\n@", "\x00", "\xff", "\x80"}
	for i := 0; i < nk; i++ {
		var sb strings.Builder
		if rng.Intn(3) > 0 {
			for r, nr := 0, rng.Intn(5); r < nr; r++ {
				n := 1 + rng.Intn(9)
				if rng.Intn(2) == 0 {
					fmt.Fprintf(&sb, ">r%d%s\n%s\n", r, []string{"", " d", "  d e ", "\td"}[rng.Intn(4)], strings.Repeat("ac", n))
				} else {
					fmt.Fprintf(&sb, "@r%d\n%s\n+\n%s\n", r, strings.Repeat("g", n), strings.Repeat("I", n-rng.Intn(2)*rng.Intn(2)))
				}
			}
		}
		for j, nj := 0, rng.Intn(8); j < nj; j++ {
			sb.WriteString(pieces[rng.Intn(len(pieces))])
		}
		if rng.Intn(12) == 0 {
			sb.WriteString(strings.Repeat("acgtacgtac\n", 380+rng.Intn(40)))
			sb.WriteString(pieces[rng.Intn(len(pieces))])
		}
		txt := sb.String()
		switch rng.Intn(4) {
		case 0:
			emit("kseq raw x=" + h(txt) + " none")
		case 1:
			emit("kseq gz x=" + h(txt) + " none")
		case 2:
			zl := len(c17Compress("gz", []byte(txt)))
			emit(fmt.Sprintf("kseq gz x=%s cut=%d", h(txt), 10+rng.Intn(zl-9)))
		default:
			zl := len(c17Compress("gz", []byte(txt)))
			emit(fmt.Sprintf("kseq gz x=%s flip=%d", h(txt), 16+rng.Intn(zl*8-16)))
		}
	}
	// every reader behind ReadSequencesFromFile: sampled truncation points and bit flips per format and codec
	for _, format := range c17Formats[1:] {
		for _, codec := range codecs {
			z := c17Compress(codec, c17FormatData(format, 4))
			step := 1 + len(z)/10
			if tier == "thorough" {
				step = 1 + len(z)/30
			}
			for k := 8 + rng.Intn(step); k < len(z); k += step {
				emit(fmt.Sprintf("file %s:%s nrec=4 cut=%d n=0 err=eof", codec, format, k))
			}
			emit(fmt.Sprintf("file %s:%s nrec=4 cut=%d n=0 err=eof", codec, format, len(z)-1))
			emit(fmt.Sprintf("file %s:%s nrec=4 cut=%d n=0 err=eof", codec, format, len(z)))
			nf := 3
			if tier == "thorough" {
				nf = 12
			}
			for i := 0; i < nf; i++ {
				emit(fmt.Sprintf("file %s:%s nrec=4 flip=%d n=0 err=eof", codec, format, 64+rng.Intn(len(z)*8-64)))
			}
		}
	}
	// two-member files with a damaged second member, garbage after a complete file
	for _, codec := range codecs {
		d := c17FileData(6)
		z2 := c17Compress(codec, d[len(d)/2:])
		nm := 6
		if tier == "thorough" {
			nm = 25
		}
		for i := 0; i < nm; i++ {
			emit(fmt.Sprintf("file %s nrec=6 m2cut=%d n=0 err=eof", codec, 1+rng.Intn(len(z2)-1)))
			emit(fmt.Sprintf("file %s nrec=6 m2flip=%d n=0 err=eof", codec, 64+rng.Intn(len(z2)*8-64)))
		}
		emit(fmt.Sprintf("file %s nrec=6 m2cut=%d n=0 err=eof", codec, len(z2)-1))
		emit(fmt.Sprintf("file %s nrec=6 tail=%d n=0 err=eof", codec, 1+rng.Intn(20)))
	}
	// files larger than the 1 MiB peek of the format guesser: the damage is met by the chunk reader
	for i, codec := range codecs {
		if i != int(rng.Intn(4)) && codec != "gz" {
			continue
		}
		z := c17Compress(codec, c17FileData(26000))
		emit(fmt.Sprintf("file %s nrec=26000 cut=%d n=0 err=eof", codec, len(z)-1-rng.Intn(len(z)/8)))
		emit(fmt.Sprintf("file %s nrec=26000 flip=%d n=0 err=eof", codec, len(z)*8-1-rng.Intn(len(z))))
	}
	// bit flips
	nflip := 40
	if tier == "thorough" {
		nflip = 400
	}
	for i := 0; i < nflip; i++ {
		codec := codecs[rng.Intn(4)]
		nrec := 3 + rng.Intn(6)
		z := c17Compress(codec, c17FileData(nrec))
		emit(fmt.Sprintf("file %s nrec=%d flip=%d n=0 err=eof", codec, nrec, rng.Intn(len(z)*8)))
	}
	// subprocess: exit status of the real command
	for _, codec := range codecs {
		z := c17Compress(codec, c17FileData(5))
		emit(fmt.Sprintf("cmd obiconvert file %s nrec=5 cut=%d", codec, len(z)/2))
		emit(fmt.Sprintf("cmd obiconvert file %s nrec=5 cut=%d", codec, len(z)-1))
	}
	zg := c17Compress("gz", c17FileData(5))
	emit(fmt.Sprintf("cmd obiconvert stdin gz nrec=5 cut=%d", len(zg)/2))
	emit(fmt.Sprintf("cmd obiconvert stdin gz nrec=5 cut=%d", len(zg)-3))
	emit(fmt.Sprintf("cmd obiconvert stdin gz nrec=400 cut=%d", len(c17Compress("gz", c17FileData(400)))/2))
	// the standard input as a pipe closed after k bytes (thorough: many k)
	np := 3
	if tier == "thorough" {
		np = 40
	}
	zp := c17Compress("gz", c17FileData(400))
	for i := 0; i < np; i++ {
		emit(fmt.Sprintf("cmd obiconvert pipe gz nrec=400 cut=%d", 10+rng.Intn(len(zp)-10)))
	}
	emit(fmt.Sprintf("cmd obiconvert pipe gz:fastq nrec=300 cut=%d", len(c17Compress("gz", c17FormatData("fastq", 300)))-2))
	n := 520
	if tier == "thorough" {
		n = 4000
	}
	for i := 0; i < n; i++ {
		data := c17Fasta(rng, rng.Intn(6))
		if rng.Intn(4) == 0 && len(data) > 0 {
			data = data[:rng.Intn(len(data))]
		}
		e := []string{"eof", "eof", "ueof", "other"}[rng.Intn(4)]
		if rng.Intn(6) == 0 {
			emit(fmt.Sprintf("guess p=%d %s %s", 1+rng.Intn(50), hx(data), e))
		} else {
			b := 2 + rng.Intn(40)
			if rng.Intn(5) == 0 {
				b = len(data) + rng.Intn(3)
				if b < 2 {
					b = 2
				}
			}
			emit(fmt.Sprintf("chunk b=%d p=%d %s %s", b, 1+rng.Intn(30), hx(data), e))
		}
	}
}

func c17KV(s, key string) (int, bool) {
	if !strings.HasPrefix(s, key+"=") {
		return 0, false
	}
	v, err := strconv.Atoi(s[len(key)+1:])
	return v, err == nil
}

func (c17) Exec(c string) (string, []Fail) {
	f := strings.Fields(c)
	if len(f) == 0 {
		return "bad-op", nil
	}
	stat("op:" + f[0])
	switch {
	case f[0] == "chunk" && len(f) == 5:
		b, ok1 := c17KV(f[1], "b")
		p, ok2 := c17KV(f[2], "p")
		data, ok3 := unhx(f[3])
		final := c17Err(f[4])
		if !ok1 || !ok2 || !ok3 || final == nil || b < 2 || p < 1 {
			return "bad-op", nil
		}
		var chunks []string
		res := guardT(5*time.Second, func() string {
			r := &faultReader{data: data, piece: p, final: final, with: p%2 == 0}
			ch := obiformats.ReadSeqFileChunk("src", r, make([]byte, b), obiformats.EndOfLastFastaEntry)
			// The consumer polls: when the producer dies in log.Fatalf (fatalSeen is set after its last send has been
			// received here), this goroutine sees it itself, after every chunk sent has been appended, and returns at once
			// (no need to wait for guardT's 50 ms settling delay, which dominated the run time of these cases).
			for {
				select {
				case c, open := <-ch:
					if !open {
						return "ok"
					}
					chunks = append(chunks, hx(c.Raw.Bytes()))
				default:
					if fatalSeen.Load() {
						return "fatal"
					}
					time.Sleep(20 * time.Microsecond)
				}
			}
		})
		var fails []Fail
		if f[4] != "eof" && res != "fatal" {
			fails = append(fails, Fail{Sig: "chunk.error-accepted." + f[4], Text: "the stream ended with a read error but the reader ended with " + res})
		}
		if f[4] == "eof" && res != "ok" {
			fails = append(fails, Fail{Sig: "chunk.clean-eof-rejected", Text: "clean end of stream but the reader ended with " + res})
		}
		return strings.Join(append([]string{res}, chunks...), " "), fails
	case f[0] == "guess" && len(f) == 4:
		p, ok2 := c17KV(f[1], "p")
		data, ok3 := unhx(f[2])
		final := c17Err(f[3])
		if !ok2 || !ok3 || final == nil || p < 1 {
			return "bad-op", nil
		}
		res := guardT(5*time.Second, func() string {
			r := &faultReader{data: data, piece: p, final: final, with: p%2 == 0}
			_, _, err := obiformats.OBIMimeTypeGuesser(r)
			if err != nil {
				return "fail"
			}
			return "ok"
		})
		var fails []Fail
		if f[3] != "eof" && res == "ok" {
			fails = append(fails, Fail{Sig: "guess.error-accepted." + f[3], Text: "the stream ended with a read error but the guesser accepted it"})
		}
		return res, fails
	case f[0] == "file" && (len(f) == 6 || (len(f) == 7 && strings.HasPrefix(f[6], "ms="))):
		return c17File(f)
	case f[0] == "cmd" && (len(f) == 6 || (len(f) == 7 && f[6] == "zfin=clean")):
		f = f[:6]
		if r, ok := c17BgTake(strings.Join(f, " ")); ok {
			if r.line != "" {
				caseOverride = r.line
			}
			return r.res, r.fails
		}
		res, fails, line := c17CmdX(f)
		if line != "" {
			caseOverride = line
		}
		return res, fails
	case f[0] == "kseq" && (len(f) == 4 || len(f) == 6):
		return c17Kseq(f)
	case f[0] == "glue":
		return c17Glue(f)
	}
	return "bad-op", nil
}

// c17Split: "gz" or "gz:fastq" -> codec, format
func c17Split(s string) (string, string) {
	if i := strings.IndexByte(s, ':'); i >= 0 {
		return s[:i], s[i+1:]
	}
	return s, "fasta"
}

// c17Damage builds the damaged compressed file of a case: f = [_, codec[:format], nrec=N, damage]
//
//	cut=K      the first K bytes of the file
//	flip=B     bit B flipped
//	m2cut=K    two-member file (the two halves of the data compressed separately), K bytes of the second member kept
//	m2flip=B   two-member file, bit B of the second member flipped
//	tail=N     complete file followed by N bytes that are not a compressed stream
func c17Damage(f []string) (codec string, nrec int, z []byte, label string, ok bool) {
	sp, nrec, _, z, label, ok := c17DamageX(f)
	return sp.codec, nrec, z, label, ok
}

// c17DamageX: c17Damage with the parsed file description and the undamaged file (nil for the m2cut / m2flip forms)
func c17DamageX(f []string) (sp c17Spec, nrec int, built *c17Built, z []byte, label string, ok bool) {
	sp, oks := c17ParseSpec(f[1])
	nrec, ok1 := c17KV(f[2], "nrec")
	if !oks || !ok1 || nrec < 0 || nrec > 100000 {
		return
	}
	codec, format := sp.codec, sp.format
	if _, is := c17KV(f[3], "m2cut"); is && (sp.layout != "" || sp.variant != "") {
		return
	}
	if _, is := c17KV(f[3], "m2flip"); is && (sp.layout != "" || sp.variant != "") {
		return
	}
	data := c17FormatData(format, nrec)
	if k, is := c17KV(f[3], "m2cut"); is {
		z1, z2 := c17Compress(codec, data[:len(data)/2]), c17Compress(codec, data[len(data)/2:])
		if k < 1 || k >= len(z2) {
			return
		}
		return sp, nrec, nil, append(append([]byte{}, z1...), z2[:k]...), fmt.Sprintf("m2cut=%d/%d", k, len(z2)), true
	}
	if b, is := c17KV(f[3], "m2flip"); is {
		z1, z2 := c17Compress(codec, data[:len(data)/2]), c17Compress(codec, data[len(data)/2:])
		if b < 0 || b >= len(z2)*8 {
			return
		}
		z2[b/8] ^= 1 << (b % 8)
		return sp, nrec, nil, append(append([]byte{}, z1...), z2...), fmt.Sprintf("m2flip=%d", b), true
	}
	built = c17Build(sp, nrec)
	if len(built.z) == 0 {
		return
	}
	z, label, ok = c17ApplyDamage(built.z, f[3])
	return sp, nrec, built, z, label, ok
}

var (
	c17TmpOnce sync.Once
	c17TmpDir  string
	c17Expect  = map[string][2]string{} // (format, nrec) -> record count, digest of the intact plain file
)

// c17TmpFile writes the bytes to a file of a fresh scratch directory (removed by the caller)
func c17TmpFile(name string, z []byte) string {
	c17TmpOnce.Do(func() {
		if st, err := os.Stat("/dev/shm"); err == nil && st.IsDir() {
			c17TmpDir = "/dev/shm"
		}
	})
	dir, err := os.MkdirTemp(c17TmpDir, "c17")
	if err != nil {
		dir, _ = os.MkdirTemp("", "c17")
	}
	path := filepath.Join(dir, name)
	os.WriteFile(path, z, 0o644)
	return path
}

// c17Expected: number of records and digest of the records of the intact, uncompressed file
func c17Expected(format string, nrec int) (int, string, bool) {
	key := fmt.Sprintf("%s/%d", format, nrec)
	if e, ok := c17Expect[key]; ok {
		n, _ := strconv.Atoi(e[0])
		return n, e[1], e[1] != ""
	}
	path := c17TmpFile("t."+format, c17FormatData(format, nrec))
	defer os.RemoveAll(filepath.Dir(path))
	n, dg, res := c17Digest(path, false)
	if res != "ok" {
		dg = ""
	}
	c17Expect[key] = [2]string{strconv.Itoa(n), dg}
	return n, dg, dg != ""
}

// c17Where: which part of which member the damage of a case falls in (statistics only)
func c17Where(b *c17Built, damage string) string {
	if b == nil {
		return ""
	}
	pos := -1
	if k, is := c17KV(damage, "cut"); is {
		pos = k
	} else if k, is := c17KV(damage, "flip"); is {
		pos = k / 8
	} else if k, is := c17KV(damage, "byte"); is {
		pos = k
	}
	if pos < 0 || pos >= len(b.z) {
		return "whole"
	}
	m := 0
	for m+1 < len(b.offs) && b.offs[m+1] <= pos {
		m++
	}
	endm := len(b.z)
	if m+1 < len(b.offs) {
		endm = b.offs[m+1]
	}
	which := "m1"
	if m > 0 {
		which = "m2+"
	}
	switch {
	case pos-b.offs[m] < 12:
		return which + ":header"
	case endm-pos <= 12:
		return which + ":trailer"
	}
	return which + ":body"
}

// c17File reads the damaged file through the real ReadSequencesFromFile.  The verdict of the decompression
// LIBRARY on the damaged bytes (bytes delivered, error class; the library called directly, independently of
// xopen.go) is recorded as data for the model; what the toolkit's own opener (Ropen) delivers for the same file
// is compared with it; the records of an accepted file are compared with those of the intact file.
func c17File(f []string) (string, []Fail) {
	sp, nrec, built, z, label, ok := c17DamageX(f)
	if !ok {
		return "bad-op", nil
	}
	codec, format := sp.codec, sp.format
	stat("file-format:" + format)
	stat("file-damage:" + strings.SplitN(f[3], "=", 2)[0])
	if sp.layout != "" {
		stat("file-layout:" + codec + ":" + sp.layout[:1])
		stat("file-member-damage:" + codec + ":" + c17Where(built, f[3]))
	}
	if sp.variant != "" {
		stat("file-variant:" + codec + "~" + sp.variant)
	}
	path := c17TmpFile("t."+format+"."+codec, z)
	defer os.RemoveAll(filepath.Dir(path))
	// what the decompression library says about these bytes
	decoded, class := c17LibScan(z)
	n := len(decoded)
	// what the toolkit's own opener delivers
	xn, xclass := 0, "eof"
	xopenFailed := false
	var xdecoded []byte
	guard(func() string {
		r, err := obiformats.Ropen(path)
		if err != nil {
			if err != obiformats.ErrNoContent {
				xclass = "other"
				xopenFailed = true
			}
			return ""
		}
		// plain Read loop (io.Copy would go through bufio's WriteTo, which hides the error of some codecs)
		buf := make([]byte, 1<<16)
		for err == nil {
			var nn int
			nn, err = r.Read(buf)
			xdecoded = append(xdecoded, buf[:nn]...)
			xn += nn
		}
		if err != io.EOF {
			xclass = "other"
		}
		return ""
	})
	full := c17FormatData(format, nrec)
	// a multi-member file cut exactly between two members is a complete file of fewer members
	boundary := 0
	if k, is := c17KV(f[3], "cut"); is && built != nil {
		pre := 0
		for m := 1; m < len(built.offs); m++ {
			pre += built.sizes[m-1]
			if built.offs[m] == k {
				boundary, full = m, full[:pre]
			}
		}
	}
	nrecRead, digest, res := c17Digest(path, xopenFailed)
	if res == "ok" && nrecRead == 0 && xn == 0 {
		res = "empty"
	}
	if res == "fatal" {
		res = "fail"
	}
	rawAccepted := false
	if class == "raw" {
		// a file cut inside its magic number is not a compressed file any more: it is read as plain text
		// (and refused unless it happens to look like a sequence file); the model has no opinion
		rawAccepted = res == "ok" && nrecRead > 0
		res = "raw"
	}
	accepted := res == "ok" || res == "empty"
	if class == "eof" && !bytes.HasPrefix(c17FormatData(format, nrec), decoded) {
		// the library delivers OTHER bytes than those of the file without any error (a format without content checksum):
		// what the format parsers make of them depends on the bytes; the model has no opinion
		class, res = "altered", "altered"
	}
	caseOverride = fmt.Sprintf("file %s nrec=%d %s n=%d err=%s", f[1], nrec, f[3], n, class)
	if built != nil && len(built.sizes) > 1 {
		caseOverride += " ms=" + c17Sizes(built.sizes)
	}
	var fails []Fail
	stat("damage-class:" + class)
	// the opener must hand the library's verdict on unchanged: same bytes, an error exactly when the library reports one
	if (xclass == "eof") != (class == "eof" || class == "raw" || class == "altered") || (xclass == "eof" && !bytes.Equal(xdecoded, decoded)) || (xclass != "eof" && xn > n) {
		fails = append(fails, Fail{Sig: "file." + codec + ".opener-changes-verdict", Text: fmt.Sprintf("%s: the library delivers %d bytes and ends with %s, the toolkit's opener delivers %d bytes and ends with %s", label, n, class, xn, xclass)})
	}
	if rawAccepted {
		fails = append(fails, Fail{Sig: "file." + codec + ".magic-damaged-accepted-as-text", Text: label + ": the magic number is damaged, the file is no longer recognised as compressed and its bytes were accepted as a text format"})
	}
	if accepted {
		// accepted: then the file must have delivered the complete data of ALL its members and the reader ALL the records
		wantN, wantDigest, have := c17Expected(format, nrec)
		switch {
		case boundary > 0 && bytes.Equal(decoded, full):
			stat("accepted-complete:cut-between-members")
		case n != len(full) || nrecRead != nrec || !bytes.Equal(decoded, full):
			sig := "file." + codec + ".accepted-damaged"
			if class == "eof" || class == "altered" {
				sig = "file." + codec + ".codec-reports-clean-eof" // the decompression library itself hides the damage
			}
			if (class == "eof" || class == "altered") && sp.variant == "nocrc" && n > 0 {
				// a stream format without content checksum: the library cannot know, nor can the toolkit
				stat("undetectable-without-checksum:" + codec)
				break
			}
			fails = append(fails, Fail{Sig: sig, Text: fmt.Sprintf("%s: %d of %d bytes decoded (decompressor says %s) and the reader ended normally with %d of %d records", label, n, len(full), class, nrecRead, nrec)})
		case have && (nrecRead != wantN || digest != wantDigest):
			fails = append(fails, Fail{Sig: "file." + codec + ".accepted-different-records", Text: fmt.Sprintf("%s: the reader ended normally but its %d records differ from the %d records of the intact file", label, nrecRead, wantN)})
		default:
			stat("accepted-complete:" + strings.SplitN(f[3], "=", 2)[0])
		}
	} else if res != "fail" && res != "raw" && res != "altered" {
		fails = append(fails, Fail{Sig: "file.outcome", Text: res})
	}
	return res, fails
}

func c17Cmd(f []string) (string, []Fail) {
	res, fails, _ := c17CmdX(f)
	return res, fails
}

// c17CmdX also returns the case line augmented with ` zfin=clean` when the input goes through zlib (gzip on the standard
// input) and zlib itself, scanned independently with the access pattern of kseq.h, delivers the damaged file with a CLEAN
// end: the model needs that verdict of the external library as data (finding D22w, same family as D22z)
func c17CmdX(f []string) (string, []Fail, string) {
	res, fails, zclean := c17CmdRun(f)
	if zclean {
		return res, fails, strings.Join(f[:6], " ") + " zfin=clean"
	}
	return res, fails, ""
}

func c17CmdRun(f []string) (string, []Fail, bool) {
	// cmd obiconvert file|stdin <codec> nrec=N cut=K
	sp, _, _, z, label, ok := c17DamageX([]string{"file", f[3], f[4], f[5]})
	if !ok || f[1] != "obiconvert" {
		return "bad-op", nil, false
	}
	codec := sp.codec
	bin, err := repoCommandC17("obiconvert")
	if err != nil {
		return "bad-op", []Fail{{Sig: "cmd.build", Text: err.Error()}}, false
	}
	dir, _ := os.MkdirTemp("", "c17")
	defer os.RemoveAll(dir)
	path := filepath.Join(dir, "t."+sp.format+"."+codec)
	os.WriteFile(path, z, 0o644)
	zclean := false
	if codec == "gz" && (f[2] == "stdin" || f[2] == "pipe") && f[5] != "none" && sp.layout == "" {
		if _, fin, ok := c17GzScan(path); ok && fin == "clean" {
			zclean = true
			stat("cmd:zlib-reports-clean-end-of-a-damaged-file")
		}
	}
	if keep := os.Getenv("VERIF_C17_KEEP"); keep != "" { // debugging aid: keep the damaged file of a cmd case
		os.WriteFile(filepath.Join(keep, filepath.Base(path)), z, 0o644)
	}
	var cmd *exec.Cmd
	if f[2] == "ecopcr" {
		// obiconvert --ecopcr <file>: ReadEcoPCRFromFile
		cmd = exec.Command(bin, "--ecopcr", path)
	} else if f[2] == "stdin" {
		cmd = exec.Command(bin)
		in, _ := os.Open(path)
		defer in.Close()
		cmd.Stdin = in
	} else if f[2] == "pipe" {
		// the standard input is a pipe that delivers the bytes in small pieces and is then closed
		cmd = exec.Command(bin)
		cmd.Stdin = &faultReader{data: z, piece: 1 + len(z)%97, final: io.EOF}
	} else if f[2] != "file" {
		return "bad-op", nil, false
	} else {
		cmd = exec.Command(bin, path)
	}
	cmd.Stdout = io.Discard
	done := make(chan error, 1)
	cmd.Start()
	go func() { done <- cmd.Wait() }()
	res := ""
	select {
	case err := <-done:
		if err == nil {
			res = "exit0"
		} else {
			res = "exit-nonzero"
		}
	case <-time.After(c17CmdTimeout(f[2])):
		cmd.Process.Kill()
		res = "hang"
	}
	stat("subprocess:" + f[2])
	var fails []Fail
	if f[5] == "none" {
		if res != "exit0" {
			fails = append(fails, Fail{Sig: "cmd." + f[2] + "." + codec + ".complete-file", Text: "obiconvert on a complete " + codec + " input ended with " + res})
		}
	} else if res != "exit-nonzero" {
		sig := "cmd." + f[2] + "." + codec
		if zclean && res == "exit0" {
			sig += ".zlib-reports-clean"
		}
		fails = append(fails, Fail{Sig: sig, Text: "obiconvert on a truncated " + codec + " input (" + label + ") ended with " + res})
	}
	return res, fails, zclean
}

var (
	c17CmdOnce = map[string]string{}
	c17CmdMu   sync.Mutex
)

func repoCommandC17(name string) (string, error) {
	c17CmdMu.Lock()
	defer c17CmdMu.Unlock()
	if p, ok := c17CmdOnce[name]; ok {
		return p, nil
	}
	root := os.Getenv("VERIF_ROOT")
	if root == "" {
		root = "/verif"
	}
	repo := os.Getenv("VERIF_REPO")
	if repo == "" {
		repo = "/repo"
	}
	out := filepath.Join(binDir(), "cmd17_"+name)
	cmd := exec.Command("go", "build", "-o", out, "./cmd/obitools/"+name)
	cmd.Dir = repo
	env := []string{}
	for _, e := range os.Environ() {
		if strings.HasPrefix(e, "GOFLAGS=") || strings.HasPrefix(e, "GOWORK=") {
			continue
		}
		env = append(env, e)
	}
	cmd.Env = append(env, "GOPROXY=off", "GOSUMDB=off", "GOTOOLCHAIN=local", "CGO_CFLAGS=-w -O2")
	if b, err := cmd.CombinedOutput(); err != nil {
		return "", fmt.Errorf("go build %s: %v: %s", name, err, b)
	}
	c17CmdOnce[name] = out
	return out, nil
}

// fatal messages of logrus are captured (the harness runs with the log level Panic, at which Fatalf exits
// without formatting its message): the C reader's reason for ending is part of the compared result
type c17Hook struct {
	mu  sync.Mutex
	msg string
}

func (h *c17Hook) Levels() []log.Level { return []log.Level{log.FatalLevel} }
func (h *c17Hook) Fire(e *log.Entry) error {
	h.mu.Lock()
	h.msg = e.Message
	h.mu.Unlock()
	return nil
}
func (h *c17Hook) take() string {
	h.mu.Lock()
	defer h.mu.Unlock()
	m := h.msg
	h.msg = ""
	return m
}

var (
	c17FatalHook = &c17Hook{}
	c17HookOnce  sync.Once
)

// c17Fast is guardT without the 50 ms settling delay after a log.Fatal; it is used where a single
// goroutine of the code under test can end in log.Fatal and nothing it produced before is looked at.
func c17Fast(d time.Duration, f func() string) string {
	fatalSeen.Store(false)
	ch := make(chan string, 1)
	go func() {
		res := ""
		done := false
		defer func() {
			if !done {
				res = "fatal"
			}
			ch <- res
		}()
		res = guard(f)
		done = true
	}()
	deadline := time.After(d)
	for {
		select {
		case r := <-ch:
			if fatalSeen.Load() {
				return "fatal"
			}
			return r
		case <-deadline:
			return "hang"
		default:
			if fatalSeen.Load() {
				return "fatal"
			}
			time.Sleep(50 * time.Microsecond)
		}
	}
}

// c17KseqData: the plain text of a `kseq` case: "nrec=N" (the FASTA of the file cases), "fq=N" (FASTQ),
// "big=N" (N FASTA records of 80 bases, with a record without sequence in front when N is odd) or "x=<hex>"
func c17KseqData(spec string) ([]byte, bool) {
	if n, ok := c17KV(spec, "nrec"); ok && n >= 0 && n <= 100000 {
		return c17FileData(n), true
	}
	if n, ok := c17KV(spec, "fq"); ok && n >= 0 && n <= 100000 {
		return c17FormatData("fastq", n), true
	}
	if n, ok := c17KV(spec, "big"); ok && n >= 0 && n <= 100000 {
		rng := rand.New(rand.NewSource(int64(n)))
		var b bytes.Buffer
		for i := 0; i < n; i++ {
			if i == 3 && n%2 == 1 {
				b.WriteString(">empty no sequence\n")
			}
			fmt.Fprintf(&b, ">s%d d\n", i)
			for j := 0; j < 80; j++ {
				b.WriteByte("acgt"[rng.Intn(4)])
			}
			b.WriteByte('\n')
		}
		return b.Bytes(), true
	}
	if strings.HasPrefix(spec, "x=") {
		return unhx(spec[2:])
	}
	return nil, false
}

// c17Kseq reads a file through ReadFastSeqFromFile (C kseq over zlib gzread: the reader behind
// `obiconvert < file`):  kseq <raw|gz> <data spec> <none|cut=K|flip=B|m2cut=K|m2flip=B|tail=N>
// What zlib makes of the file (bytes delivered by successive gzread calls, final gzerror class) is
// recorded with an independent scan and given to the model as data.
func c17Kseq(f []string) (string, []Fail) {
	data, ok := c17KseqData(f[2])
	multi := strings.HasPrefix(f[1], "gz+")
	if !ok || (f[1] != "raw" && f[1] != "gz" && !multi) {
		return "bad-op", nil
	}
	if multi {
		// multi-member gzip file (layouts of c17Spec) of the FASTA / FASTQ text `nrec=N` / `fq=N`
		sp, oks := c17ParseSpec(f[1])
		nrec, isFa := c17KV(f[2], "nrec")
		if nq, isFq := c17KV(f[2], "fq"); isFq {
			sp.format, nrec = "fastq", nq
		} else if !isFa {
			return "bad-op", nil
		}
		if !oks || sp.layout == "" {
			return "bad-op", nil
		}
		built := c17Build(sp, nrec)
		z, _, okd := c17ApplyDamage(built.z, f[3])
		if !okd {
			return "bad-op", nil
		}
		if k, is := c17KV(f[3], "cut"); is {
			pre := 0
			for m := 1; m < len(built.offs); m++ {
				pre += built.sizes[m-1]
				if built.offs[m] == k {
					data = data[:pre] // cut exactly between two members: a complete file of fewer members
				}
			}
		}
		stat("kseq-layout:" + sp.layout[:1])
		stat("kseq-member-damage:" + c17Where(built, f[3]))
		return c17KseqRun(f, data, z, !bytes.Equal(z, built.z))
	}
	comp := func(b []byte) []byte {
		if f[1] == "gz" {
			return c17Compress("gz", b)
		}
		return append([]byte{}, b...)
	}
	z := comp(data)
	damaged := true
	k, isCut := c17KV(f[3], "cut")
	b, isFlip := c17KV(f[3], "flip")
	k2, isCut2 := c17KV(f[3], "m2cut")
	b2, isFlip2 := c17KV(f[3], "m2flip")
	nt, isTail := c17KV(f[3], "tail")
	kb, isByte := c17KV(f[3], "byte")
	switch {
	case isByte && kb >= 0 && kb < len(z):
		z[kb] ^= 0xff
	case f[3] == "none":
		damaged = false
	case isCut && k >= 0 && k <= len(z):
		damaged = k < len(z)
		z = z[:k]
	case isFlip && b >= 0 && b < len(z)*8:
		z[b/8] ^= 1 << (b % 8)
	case (isCut2 || isFlip2) && f[1] == "gz":
		z1, z2 := comp(data[:len(data)/2]), comp(data[len(data)/2:])
		if isCut2 {
			if k2 < 1 || k2 >= len(z2) {
				return "bad-op", nil
			}
			z2 = z2[:k2]
		} else {
			if b2 < 0 || b2 >= len(z2)*8 {
				return "bad-op", nil
			}
			z2[b2/8] ^= 1 << (b2 % 8)
		}
		z = append(z1, z2...)
	case isTail && nt >= 1 && nt <= 64:
		for i := 0; i < nt; i++ {
			z = append(z, byte(0x41+i%7))
		}
	default:
		return "bad-op", nil
	}
	return c17KseqRun(f, data, z, damaged)
}

// c17KseqRun: the C reader on the file `z` (the possibly damaged form of the text `data`)
func c17KseqRun(f []string, data, z []byte, damaged bool) (string, []Fail) {
	stat("kseq-damage:" + strings.SplitN(f[1], "+", 2)[0] + ":" + strings.SplitN(f[3], "=", 2)[0])
	path := c17TmpFile("t.fasta.gz", z)
	defer os.RemoveAll(filepath.Dir(path))
	delivered, fin, sok := c17GzScan(path)
	if !sok {
		return "bad-op", nil
	}
	stat("kseq-zlib:" + fin)
	c17HookOnce.Do(func() {
		log.AddHook(c17FatalHook)
		log.SetLevel(log.FatalLevel)
	})
	c17FatalHook.take()
	var recs []string
	res := c17Fast(20*time.Second, func() string {
		it, err := obiformats.ReadFastSeqFromFile(path, obiformats.OptionFastSeqDoNotParseHeader(), obiformats.OptionsBatchSize(1))
		if err != nil {
			return "fail"
		}
		var bs []obiiter.BioSequenceBatch
		for it.Next() {
			bs = append(bs, it.Get())
		}
		sort.SliceStable(bs, func(i, j int) bool { return bs[i].Order() < bs[j].Order() })
		for _, bt := range bs {
			for _, sq := range bt.Slice() {
				q := "-"
				if sq.HasQualities() {
					qq := append([]byte{}, sq.Qualities()...)
					for i := range qq {
						qq[i] += 33
					}
					q = hx(qq)
				}
				recs = append(recs, hx([]byte(sq.Id()))+"/"+hx([]byte(sq.Definition()))+"/"+hx(sq.Sequence())+"/"+q)
			}
		}
		return "ok"
	})
	var fails []Fail
	full := false
	switch res {
	case "ok":
		res = strings.Join(append([]string{"ok", strconv.Itoa(len(recs))}, recs...), " ")
		full = bytes.Equal(delivered, data)
	case "fatal":
		msg := c17FatalHook.take()
		if fin == "clean" {
			// the stream is fine: the reason given by the reader is compared with the model
			switch {
			case strings.Contains(msg, "quality string shorter"):
				res = "fatal:-2"
			case strings.Contains(msg, "has no sequence"):
				res = "fatal:-4"
			default:
				res = "fatal:-1"
			}
		}
	}
	stat("kseq-outcome:" + strings.SplitN(res, " ", 2)[0])
	if fin != "clean" && strings.HasPrefix(res, "ok") {
		fails = append(fails, Fail{Sig: "kseq." + strings.SplitN(f[1], "+", 2)[0] + ".stream-error-accepted", Text: fmt.Sprintf("%s: zlib reports the stream as %s after %d bytes and the C reader ended normally with %d records", f[3], fin, len(delivered), len(recs))})
	}
	if fin == "clean" && damaged && strings.HasPrefix(f[1], "gz") && strings.HasPrefix(res, "ok") && !full {
		// the damage is not reported by zlib itself (e.g. a damaged magic number makes it copy the file as plain text,
		// what follows the first gzip member is ignored when it is not a gzip header)
		fails = append(fails, Fail{Sig: "kseq." + strings.SplitN(f[1], "+", 2)[0] + ".zlib-reports-clean", Text: fmt.Sprintf("%s: zlib delivers %d bytes (complete data: %d) without any error and the C reader ended normally with %d records", f[3], len(delivered), len(data), len(recs))})
	}
	if !damaged && !strings.HasPrefix(res, "ok") && f[2][0] != 'x' && !(strings.HasPrefix(f[2], "big=") && res == "fatal:-4") {
		fails = append(fails, Fail{Sig: "kseq." + strings.SplitN(f[1], "+", 2)[0] + ".complete-file", Text: "complete well-formed file: " + res})
	}
	caseOverride = fmt.Sprintf("kseq %s %s %s fin=%s d=%s", f[1], f[2], f[3], fin, hx(delivered))
	return res, fails
}
